"""Seeded generators for CoAP-over-WebSocket byte streams (RFC 8323 section 4 / RFC 6455 framing) for the
H-stream harness (`ws <c|s> <stream-hex> <cuts>`).  Pure functions; randomness only through an `rng`
argument (random.Random).  It only *produces inputs* plus a tiny reference splitter used for exploration;
verdicts never depend on it."""
import base64
import hashlib

GUID = b"258EAFA5-E914-47DA-95CA-C5AB0DC85B11"
KEY = bytes(range(16))  # the harness forces session->ws->key to 00 01 .. 0f in client mode
KEY_B64 = base64.b64encode(KEY).decode()
ACCEPT = base64.b64encode(hashlib.sha1(KEY_B64.encode() + GUID).digest()).decode()

MAX_FRAME = 1472  # COAP_RXBUFFER_SIZE: a longer frame is refused with close code 1009
HTTP_HDR = 160    # sizeof(coap_ws_state_t.http_hdr): a handshake line (with its line end) must fit in 159 bytes

OP_CONT, OP_TEXT, OP_BINARY, OP_CLOSE, OP_PING, OP_PONG = 0, 1, 2, 8, 9, 10


def _lines(mode, key_b64=None):
    if mode == "c":
        return ["HTTP/1.1 101 Switching Protocols", "Upgrade: websocket", "Connection: Upgrade",
                "Sec-WebSocket-Accept: " + ACCEPT, "Sec-WebSocket-Protocol: coap"]
    return ["GET /.well-known/coap HTTP/1.1", "Host: localhost", "Upgrade: websocket", "Connection: Upgrade",
            "Sec-WebSocket-Key: " + (key_b64 or KEY_B64), "Sec-WebSocket-Protocol: coap", "Sec-WebSocket-Version: 13"]


def handshake(mode, rng=None, variant=0):
    """A handshake the reader accepts (harness prints up=1).  mode 'c': the HTTP 101 response libcoap-as-client
    receives; mode 's': the GET upgrade request libcoap-as-server receives.
    variant 0: canonical.  variant 1: header lines after the first in a random order (rng) and a random key in
    mode 's'.  variant 2: bare LF line ends.  variant 3: upper-cased header names/values where the reader compares
    case-insensitively, TAB as separator, an additional unknown header line."""
    key_b64 = None
    if mode == "s" and rng is not None and variant == 1:
        key_b64 = base64.b64encode(bytes(rng.randrange(256) for _ in range(16))).decode()
    ls = _lines(mode, key_b64)
    first, rest = ls[0], ls[1:]
    eol = "\r\n"
    if variant == 1 and rng is not None:
        rng.shuffle(rest)
    elif variant == 2:
        eol = "\n"
    elif variant == 3:
        out = []
        for l in rest:
            name, val = l.split(": ", 1)
            if name.lower() in ("sec-websocket-accept", "sec-websocket-key"):
                out.append(name.upper() + ":\t" + val)
            else:
                out.append(name.upper() + ":\t\t" + val.upper())
        rest = out + ["X-Unknown: whatever"]
    return (eol.join([first] + rest) + eol + eol).encode()


def long_line_handshake(mode, n, newline=True):
    """A handshake in which one (unknown, otherwise harmless) header line has exactly n characters (excluding the
    line end).  n + 2 <= 159 is accepted; longer lines must close the session (HTTP 400), n >= 160 without a fix
    writes behind http_hdr.  newline=False: the stream stops after the n characters (no line end at all)."""
    ls = _lines(mode)
    name = "X-Pad: "
    assert n >= len(name) + 1
    pad = name + "a" * (n - len(name))
    head = "\r\n".join(ls[:2] + [pad])
    if not newline:
        return head.encode()
    return ("\r\n".join(ls[:2] + [pad] + ls[2:]) + "\r\n\r\n").encode()


def frame(payload, masked, lenform=None, mask=None, opcode=OP_BINARY, fin=True, declared_len=None):
    """One WebSocket frame.  lenform in {7,16,64} forces a (possibly non-minimal) length encoding; mask = 4 bytes
    (default 37 fa 21 3d); declared_len overrides the length field (truncated / over-long frames)."""
    n = len(payload) if declared_len is None else declared_len
    if lenform is None:
        lenform = 7 if n <= 125 else 16 if n <= 0xFFFF else 64
    b1 = 0x80 if masked else 0
    if lenform == 7:
        assert n <= 125
        hdr = bytes([b1 | n])
    elif lenform == 16:
        assert n <= 0xFFFF
        hdr = bytes([b1 | 126]) + n.to_bytes(2, "big")
    else:
        hdr = bytes([b1 | 127]) + n.to_bytes(8, "big")
    out = bytes([(0x80 if fin else 0) | opcode]) + hdr
    if masked:
        mask = mask if mask is not None else bytes([0x37, 0xFA, 0x21, 0x3D])
        assert len(mask) == 4
        out += mask + bytes(b ^ mask[i % 4] for i, b in enumerate(payload))
    else:
        out += payload
    return out


def rand_frame(rng, masked, payload=None, maxlen=40):
    if payload is None:
        payload = bytes(rng.randrange(256) for _ in range(rng.randrange(0, maxlen)))
    forms = [f for f in (7, 16, 64) if (f != 7 or len(payload) <= 125)]
    mask = bytes(rng.randrange(256) for _ in range(4))
    return frame(payload, masked, lenform=rng.choice(forms), mask=mask)


def rand_cuts(rng, n, k=None):
    """k distinct increasing cut offsets in 1..n-1 as the harness word (k=None: random density)"""
    if n < 2:
        return "-"
    if k is None:
        k = rng.choice([0, 1, 2, 3, n // 4, n // 2, n - 1])
    k = max(0, min(k, n - 1))
    if k == 0:
        return "-"
    return ",".join(map(str, sorted(rng.sample(range(1, n), k))))


def all_cuts(n):
    """one byte per read"""
    return ",".join(map(str, range(1, n))) if n > 1 else "-"


def split_handshake(stream):
    """(handshake bytes incl. the empty line, rest) or (None, b'') if the stream has no empty line"""
    pos = 0
    while True:
        nl = stream.find(b"\n", pos)
        if nl < 0:
            return None, b""
        line = stream[pos:nl]
        if line.endswith(b"\r"):
            line = line[:-1]
        pos = nl + 1
        if line == b"":
            return stream[:pos], stream[pos:]


def expected(mode, stream):
    """Reference splitter: (messages, end).  messages = payloads of the complete binary frames after the
    handshake, in order, up to the first frame that ends the session; end in
    'open' | 'close' (close frame) | 'unmasked' (1002, mode 's') | 'opcode' (1003) | 'toobig' (1009) | 'nohs'.
    The handshake itself is NOT validated here (assumed acceptable).  Zero-length binary frames are listed as b''
    (the fixed reader skips them without handing anything to the protocol layer)."""
    hs, rest = split_handshake(stream)
    if hs is None:
        return [], "nohs"
    msgs = []
    i = 0
    while True:
        if len(rest) - i < 2:
            return msgs, "open"
        b0, b1 = rest[i], rest[i + 1]
        if mode == "s" and not b1 & 0x80:
            return msgs, "unmasked"
        l7 = b1 & 0x7F
        ext = 8 if l7 == 127 else 2 if l7 == 126 else 0
        mk = 4 if b1 & 0x80 else 0
        if len(rest) - i < 2 + ext + mk:
            return msgs, "open"
        op = b0 & 0x0F
        if op not in (OP_BINARY, OP_CLOSE):
            return msgs, "opcode"
        if op == OP_CLOSE:
            return msgs, "close"
        n = l7 if not ext else int.from_bytes(rest[i + 2:i + 2 + ext], "big")
        if n > MAX_FRAME:
            return msgs, "toobig"
        j = i + 2 + ext
        mask = rest[j:j + mk]
        j += mk
        if len(rest) - j < n:
            return msgs, "open"
        pl = rest[j:j + n]
        if mk:
            pl = bytes(b ^ mask[k % 4] for k, b in enumerate(pl))
        msgs.append(pl)
        i = j + n


def line(mode, stream, cuts="-"):
    return "ws %s %s %s" % (mode, stream.hex(), cuts)
