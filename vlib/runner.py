"""Generic check flow (DESIGN.md §1.4): T1 → lake build + audit → rebuild
libcoap + harness → run I, M, S on the same lines → verdict → evidence."""
import importlib, json, os, sys, time, traceback
from . import common as C


def proof_side(ctx, prop):
    """Steps 1–3.  Returns dict(ok, obligations, discharged, partial, failures[])"""
    res = {"ok": True, "failures": [], "theorems": [], "partial": [], "tables": []}
    # T1
    try:
        res["tables"] = prop.extract(ctx) if hasattr(prop, "extract") else []
    except C.BuildError as e:
        res["ok"] = False
        res["failures"].append({"kind": "extractor", "detail": str(e)[-3000:]})
    C.sh([sys.executable, os.path.join(C.VERIF, "tools", "gen_registry.py")])
    ok, log = C.lake_build(list(prop.LEAN_MODULES) + ["drv"])
    if not ok:
        res["ok"] = False
        errs = [l for l in log.splitlines() if "error" in l.lower()][:20]
        res["failures"].append({"kind": "lake-build", "detail": "\n".join(errs) or log[-3000:]})
        # try to find which theorems still check by auditing whatever built — skipped: nothing to audit
        return res
    hits = C.hygiene()
    if hits:
        res["ok"] = False
        res["failures"].append({"kind": "hygiene", "detail": "\n".join(hits[:20])})
    rc, thms, raw = C.audit(prop.LEAN_MODULES, prop.NAMESPACE)
    if rc != 0 or not thms:
        res["ok"] = False
        res["failures"].append({"kind": "audit", "detail": raw[-3000:]})
    for t in thms:
        bad = [a for a in t["axioms"] if a not in C.ALLOWED_AXIOMS]
        if bad:
            res["ok"] = False
            res["failures"].append({"kind": "axioms", "detail": "%s depends on %s" % (t["name"], bad)})
        (res["partial"] if t["name"].endswith("_partial") else res["theorems"]).append(t)
    required = getattr(prop, "REQUIRED_THEOREMS", [])
    have = {t["name"] for t in thms}
    for r in required:
        if prop.NAMESPACE + "." + r not in have:
            res["ok"] = False
            res["failures"].append({"kind": "missing-theorem", "detail": prop.NAMESPACE + "." + r})
    # theorems owned by other properties that this property's claim rests on: they must exist and be axiom-clean
    for ns, names in getattr(prop, "REQUIRED_ELSEWHERE", {}).items():
        rc2, thms2, raw2 = C.audit(prop.LEAN_MODULES, ns)
        have2 = {t["name"]: t for t in thms2}
        for n in names:
            t = have2.get(ns + "." + n)
            if not t:
                res["ok"] = False
                res["failures"].append({"kind": "missing-theorem", "detail": ns + "." + n})
            else:
                bad = [a for a in t["axioms"] if a not in C.ALLOWED_AXIOMS]
                if bad:
                    res["ok"] = False
                    res["failures"].append({"kind": "axioms", "detail": "%s depends on %s" % (t["name"], bad)})
                res["theorems"].append(t)
    if ctx.thorough() and res["ok"] and not os.environ.get("VERIF_NO_LEANCHECKER"):
        for m in prop.LEAN_MODULES:
            r = C.sh(["lake", "env", "leanchecker", m], cwd=C.LEAN)
            if r.returncode != 0:
                res["ok"] = False
                res["failures"].append({"kind": "leanchecker", "detail": m + ": " + r.stdout[-2000:]})
            else:
                res.setdefault("leanchecker", []).append(m)
    return res


def diff_side(ctx, prop, lines):
    """Steps 4–6 on the given input lines.  Returns list of case dicts."""
    cases = []
    if not lines:
        return cases
    kw = getattr(prop, "RUN_KW", {})
    by_op = getattr(prop, "HARNESS_FOR_OP", None)     # optional: {op word: function(ctx) -> harness cmd}
    if by_op:
        i_out = [None] * len(lines)
        groups = {}
        for k, l in enumerate(lines):
            groups.setdefault(l.split(" ", 1)[0], []).append(k)
        for op, idx in groups.items():
            hb = (by_op.get(op) or prop.harness)(ctx)
            hcmd = hb if isinstance(hb, list) else [hb]
            okw = dict(kw); okw.update(getattr(prop, "RUN_KW_FOR_OP", {}).get(op, {}))
            outs = C.run_sharded(hcmd, [lines[k] for k in idx], **okw)
            for k, o in zip(idx, outs):
                i_out[k] = o
    else:
        hb = prop.harness(ctx)
        hcmd = hb if isinstance(hb, list) else [hb]
        i_out = C.run_sharded(hcmd, lines, **kw)
    m_out = C.run_sharded([C.driver_path()], lines, per_line_crash="model-crash")
    for line, i, m in zip(lines, i_out, m_out):
        mm, ss = split_ms(m)
        cases.append({"input": line, "impl": i, "model": mm, "spec": ss})
    # optional second pass (e.g. the S column recomputed under what the implementation itself reported): may rewrite cases
    if hasattr(prop, "respec"):
        prop.respec(ctx, cases)
    return cases


def split_ms(s):
    """driver line: `M <…> | S <…>`  or just `M <…>`"""
    if s is None:
        return None, None
    if s.startswith("M "):
        if " | S " in s:
            a, b = s.split(" | S ", 1)
            return a[2:], b
        return s[2:], None
    return s, None


def run_check(pid, tier, seed, replay=None):
    prop = importlib.import_module("props." + pid)
    ctx = C.Ctx(pid, tier, seed)
    print("== %s tier=%s seed=%d repo=%s" % (pid, tier, seed, C.repo_hash()), flush=True)
    try:
        return _run(ctx, prop, replay)
    except C.BuildError as e:
        # the tree does not build: nothing is shown to hold
        print(str(e)[-3000:])
        rp = C.write_replay(pid, {"property": pid, "kind": "build-failure", "detail": str(e)[-3000:]})
        C.write_evidence(ctx, "proof", {"evaluations": 0, "distinct_nontrivial": 0, "obligations": 0, "discharged": 0,
                                        "checker_cmd": "lake build", "trusted_base": [], "explanation": "build failure"},
                         [], 1)
        print("VIOLATION property=%s replay=%s no-failing-input-found" % (pid, rp))
        return 1


def _run(ctx, prop, replay):
    pid = ctx.pid
    proof = proof_side(ctx, prop)
    for f in proof["failures"]:
        print("PROOF-SIDE FAILURE [%s]: %s" % (f["kind"], f["detail"][:1500]), flush=True)

    # inputs: corpus first, then generated
    if replay:
        rp = json.load(open(replay))
        lines = rp.get("inputs") or ([rp["input"]] if "input" in rp else [])
    else:
        lines = list(load_corpus(pid))
        ncorpus = len(lines)
        lines += list(prop.generate(ctx, escalate=not proof["ok"]))
    t1 = time.time()
    cases = diff_side(ctx, prop, lines)
    ctx.cov["diff_wall_s"] = round(time.time() - t1, 2)

    tie_breaks, contradictions = [], []
    stats = {}
    nontrivial = set()
    for c in cases:
        v = prop.judge(ctx, c)     # None | ("tie", msg) | ("spec", msg)
        k = prop.classify(c) if hasattr(prop, "classify") else None
        if k:
            stats[k] = stats.get(k, 0) + 1
        if prop.nontrivial(c):
            nontrivial.add(c["input"])
        if v is None:
            continue
        c = dict(c); c["why"] = v[1]
        sig = prop.known(ctx, c) if hasattr(prop, "known") else None
        if sig and any(f["sig"] == sig for f in ctx.findings["open"]):
            ctx.known_hits[sig] = ctx.known_hits.get(sig, 0) + 1
            ctx.known_hits.setdefault("_sample_" + sig, c)
            continue
        (contradictions if v[0] == "spec" else tie_breaks).append(c)

    # escalation: correspondence broken but no contradiction with S yet → search around
    if (tie_breaks or not proof["ok"]) and not contradictions and not replay and hasattr(prop, "search"):
        ctx.note("correspondence/proof broken without a concrete failing input yet: searching")
        extra = list(prop.search(ctx, tie_breaks, proof))
        for c in diff_side(ctx, prop, extra):
            v = prop.judge(ctx, c)
            if v and v[0] == "spec":
                c = dict(c); c["why"] = v[1]
                sig = prop.known(ctx, c) if hasattr(prop, "known") else None
                if sig and any(f["sig"] == sig for f in ctx.findings["open"]):
                    continue
                contradictions.append(c)
        cases_n_extra = len(extra)
    else:
        cases_n_extra = 0

    exit_code = 0
    out_lines = []
    for f in ctx.findings["open"]:
        n = ctx.known_hits.get(f["sig"], 0)
        if n:
            out_lines.append("KNOWN-FINDING: property=%s %s (sig=%s, %d cases this run)" % (pid, f["what"], f["sig"], n))
    nviol = 0
    if contradictions:
        best = min(contradictions, key=lambda c: len(c["input"]))
        if hasattr(prop, "shrink"):
            try:
                best = prop.shrink(ctx, best) or best
            except Exception:
                traceback.print_exc()
        rp = C.write_replay(pid, {"property": pid, "kind": "implementation-contradicts-specification",
                                  "input": best["input"], "impl": best["impl"], "model": best["model"],
                                  "spec": best["spec"], "why": best["why"],
                                  "others": [c["input"] for c in contradictions[:20]],
                                  "broken_proof_side": proof["failures"][:5]})
        out_lines.append("VIOLATION property=%s replay=%s" % (pid, rp))
        exit_code = 1; nviol = len(contradictions)
    elif tie_breaks or not proof["ok"]:
        first = tie_breaks[0] if tie_breaks else None
        rp = C.write_replay(pid, {"property": pid, "kind": "no-longer-shown",
                                  "broken_theorems_or_build": proof["failures"][:10],
                                  "broken_correspondence": ({"input": first["input"], "impl": first["impl"],
                                                             "model": first["model"], "spec": first["spec"],
                                                             "why": first["why"]} if first else None),
                                  "inputs": [c["input"] for c in tie_breaks[:20]],
                                  "searched_cases": len(cases) + cases_n_extra})
        out_lines.append("VIOLATION property=%s replay=%s no-failing-input-found" % (pid, rp))
        exit_code = 1; nviol = max(1, len(tie_breaks))

    # evidence
    samples = []
    for c in cases[:: max(1, len(cases) // 5)][:5]:
        samples.append({"input": c["input"][:300], "impl": (c["impl"] or "")[:300], "model": (c["model"] or "")[:300],
                        "spec": (c["spec"] or "")[:300] if c["spec"] else None})
    samples += [{"theorem": t["name"], "axioms": t["axioms"]} for t in proof["theorems"][:40]]
    cov = {
        "obligations": len(proof["theorems"]) + len([f for f in proof["failures"] if f["kind"] in ("missing-theorem", "lake-build")]),
        "discharged": len(proof["theorems"]) if proof["ok"] else max(0, len(proof["theorems"]) - 1),
        "partial_theorems": [t["name"] for t in proof["partial"]],
        "checker_cmd": "lake build %s && lake env lean <audit: #audit_ns %s>%s" % (
            " ".join(prop.LEAN_MODULES), prop.NAMESPACE, " && lake env leanchecker <module>" if proof.get("leanchecker") else ""),
        "trusted_base": prop.TRUSTED_BASE,
        "theorems": [t["name"] for t in proof["theorems"]],
        "axioms_used": sorted({a for t in proof["theorems"] + proof["partial"] for a in t["axioms"]}),
        "tables_regenerated": proof["tables"],
        "evaluations": len(cases) + cases_n_extra,
        "distinct_nontrivial": len(nontrivial),
        "rule": prop.RULE,
        "samples": samples,
        "disagreements_checked": len(cases) + cases_n_extra,
        "tie_breaks": len(tie_breaks), "spec_contradictions": len(contradictions),
        "case_classes": stats,
        "known_findings_hit": {k: v for k, v in ctx.known_hits.items() if not k.startswith("_sample_")},
        "proof_side_failures": proof["failures"][:10],
        "notes": ctx.notes, "spec_decisions": getattr(prop, "SPEC_DECISIONS", []),
    }
    cov.update(ctx.cov)
    # EVIDENCE.schema: `exhaustive` is a boolean ("the run enumerated a finite space completely"); plugins describe the part of a
    # run that WAS enumerated completely in words / numbers - that description goes to `exhaustive_part`, the run as a whole is sampled
    if "exhaustive" in cov and not isinstance(cov["exhaustive"], bool):
        cov["exhaustive_part"] = cov.pop("exhaustive")
    if not replay:          # a replay run looks at one stored case: it must not overwrite the evidence of the last full run
        C.write_evidence(ctx, "proof", cov, prop.ASSUMPTIONS, nviol)
    for l in out_lines:
        print(l)
    print("== %s done: %d theorems, %d cases, %d tie breaks, %d contradictions, %.1fs, exit %d" % (
        pid, len(proof["theorems"]), len(cases), len(tie_breaks), len(contradictions), time.time() - ctx.t0, exit_code), flush=True)
    return exit_code


def load_corpus(pid):
    d = os.path.join(C.VERIF, "corpus", pid)
    if not os.path.isdir(d):
        return
    for f in sorted(os.listdir(d)):
        if f.endswith(".txt"):
            for line in open(os.path.join(d, f)):
                line = line.rstrip("\n")
                if line and not line.startswith("#"):
                    yield line
