"""Shared by props/C06.py and props/C08.py: scenario generation for harness/msg.c, trace parsing, the
property oracles that look at the implementation's trace alone (I-vs-property, independent of the Lean model)."""
import re
from . import simlib


# DTLS sessions of harness/msg.c: the record layer is the identity (the entry points into the TLS library are replaced)
MSG_WRAPS = ["coap_dtls_send", "coap_dtls_receive", "coap_dtls_free_session", "coap_dtls_get_timeout"]


def harness(ctx):
    return simlib.build_sim_harness("msg", extra_wraps=MSG_WRAPS)


# ------------------------------------------------------------------ generation helpers
def py_calc_timeout(at_i, at_f, arf_i, arf_f, r):
    """replica of coap_calc_timeout used ONLY to aim generated ACK delays at the timer deadlines (never to judge)"""
    q = lambda i, f: (64 * i + (64 * f + 500) // 1000) % 65536
    arf, ato = q(arf_i, arf_f), q(at_i, at_f)
    res1 = (((arf - 64) * r + 128) >> 8) % 2 ** 32
    res2 = ((((res1 + 64) % 2 ** 32) * ato) % 2 ** 32 + 32) % 2 ** 32 // 64
    return ((1000 * res2 + 32) // 64) % 2 ** 32


PARAM_SETS = [(2, 0, 1, 500, 4), (1, 0, 1, 0, 2), (3, 250, 2, 0, 3), (2, 0, 1, 500, 1), (5, 999, 1, 1, 6)]


def sess_word(p, nstart, proto=1):
    """proto 2: a DTLS session (harness/msg.c: proto == COAP_PROTO_DTLS, identity record layer); 1 / absent: UDP"""
    return "%d.%d.%d.%d.%d.%d" % (p[0], p[1], p[2], p[3], p[4], nstart) + (".2" if proto == 2 else "")


def rand_params(rng, big=False):
    at_i = rng.choice([1, 1, 2, 2, 2, 3, 5, 10])
    at_f = rng.choice([0, 0, 0, 1, 250, 500, 999])
    arf_i = rng.choice([1, 1, 1, 2, 3])
    arf_f = rng.choice([0, 1, 500, 500, 750, 999])
    mx = rng.choice([1, 2, 3, 4, 4, 4, 5, 8]) if not big else rng.choice([10, 12, 16])
    return (at_i, at_f, arf_i, arf_f, mx)


# ------------------------------------------------------------------ trace parsing
TX = re.compile(r"^tx@(\d+):(\d+):([CNAR]):(\d+):(.)$")
TXF = re.compile(r"^txf@(\d+):(\d+):([CNAR]):(\d+):(.)$")      # a write attempt that failed in the socket (fate `x`)
NACK = re.compile(r"^(nackx?)@(\d+):(\d+):(\w+):(\d+)$")
W = re.compile(r"^w@(\d+)=(\d+)/(\d+)$")
SUB = re.compile(r"^sub=(\w+)$")
RSP = re.compile(r"^rsp@(\d+):(\d+):(\d+)$")


def toks(s):
    return (s or "").split()


def split_w(ts):
    return [t for t in ts if not t.startswith("w@")], [t for t in ts if t.startswith("w@")]


def parse_dump(tok):
    """[ca,..;dq,..;s.mid.deadline.cnt,…] -> (ca list, dq list, queue list of tuples)"""
    a, b, c = tok[1:-1].split(";")
    ca = [int(x) for x in a.split(",")] if a != "-" else []
    dq = [int(x) for x in b.split(",")] if b != "-" else []
    q = [tuple(int(y) for y in x.split(".")) for x in c.split(",")] if c != "-" else []
    return ca, dq, q


def parse_line(line):
    w = line.split()
    sess = [tuple(int(x) for x in p.split(".")) for p in w[1].split(",")]
    fates = [] if w[2] == "-" else w[2].split(",")
    return sess, fates, w[3:]


def compare_waits(iw, mw):
    """impl_wait <= model wait (0 = no timer = infinity) at every time both woke up; returns why or None"""
    bym = {}
    for t in mw:
        m = W.match(t)
        if m:
            bym.setdefault(int(m.group(1)), []).append((int(m.group(2)), int(m.group(3))))
    seen = {}
    for t in iw:
        m = W.match(t)
        if not m:
            return ("tie", "unparsable wait token " + t)
        tm, ms, e = int(m.group(1)), int(m.group(2)), int(m.group(3))
        # the property itself, on the implementation alone: the reported wait never exceeds the time to the
        # earliest pending deadline, and a pending deadline is never answered by "nothing to wait for"
        if e > 0 and (ms == 0 or ms > e):
            return ("spec", "at t=%d the library reports a wait of %d ms but the earliest queued deadline is %d ms away" % (tm, ms, e))
        k = seen.get(tm, 0)
        seen[tm] = k + 1
        if tm in bym:
            mms, me = bym[tm][min(k, len(bym[tm]) - 1)]
            if me != e:
                return ("tie", "at t=%d the earliest deadline is %d ms away in the implementation, %d in M" % (tm, e, me))
            if mms != 0 and (ms == 0 or ms > mms):
                return ("spec", "at t=%d the library reports a wait of %d ms, the model's earliest deadline is %d ms away" % (tm, ms, mms))
    for tm in bym:
        if tm not in seen:
            return ("tie", "M wakes at t=%d, the implementation never does" % tm)
    return None


def first_diff(a, b):
    for k, (x, y) in enumerate(zip(a, b)):
        if x != y:
            return "token %d: implementation `%s`, model `%s`" % (k, x, y)
    if len(a) != len(b):
        k = min(len(a), len(b))
        return "token %d: implementation `%s`, model `%s`" % (k, a[k] if k < len(a) else "<end>", b[k] if k < len(b) else "<end>")
    return None


# ------------------------------------------------------------------ oracles on the implementation's trace alone
def walk(line, itoks):
    """Pairs every top-level event of the line with the tokens it produced (the dump token closes an event)."""
    sess, fates, evs = parse_line(line)
    out, cur, k = [], [], 0
    for t in itoks:
        if t.startswith("["):
            if k < len(evs):
                out.append((evs[k], cur, parse_dump(t)))
            k += 1
            cur = []
        else:
            cur.append(t)
    return sess, fates, evs, out


def oracle_c06(line, itoks):
    """C06 on the trace of I alone.  Returns why (string) or None.
    A write attempt that failed in the socket (`txf@`, fate `x`) is, for the schedule and the retransmission count, a
    transmission like any other: the datagram is lost one hop earlier."""
    sess, fates, evs, steps = walk(line, itoks)
    if len(steps) != len(evs):
        return None      # crashed / truncated: handled elsewhere
    # punctual: the I/O loop is never run later than the wait the library returned (`n` after a submission sleeps on a
    # stale wait, `t` sleeps for an arbitrary time)
    punctual = not any(e.split(":")[0] in ("t", "n", "h", "u") for e in evs)
    held_evs = any(e.split(":")[0] == "h" for e in evs)
    txs, outcome = {}, {}
    subs = {}
    for e in evs:
        f = e.split(":")
        if f[0] in ("s", "S"):
            subs[(int(f[1]), int(f[3]))] = subs.get((int(f[1]), int(f[3])), 0) + 1
    accepted = []            # Confirmables coap_send() accepted, in order: (session, mid)
    arrivals = {}            # (session, mid) -> a reply of the peer (ACK / RST / response with its token) is ever delivered
    last_arrival = 0
    nfate = 0
    # "… until an ACK or RST carrying its message id arrives from that peer": (session, mid) -> (time, what) of the first
    # ACK (empty, piggy-backed response, or - fate q / event q: - an ACK with a request code: whatever it carries) or RST
    # with the message id of a Confirmable that had been transmitted; any transmission of it STRICTLY later is a violation
    # (at the same instant the timers may have run first).  Not judged on lines with `h` (a session that is not
    # established parks its retransmissions in the delay queue, where coap_remove_from_queue() does not look).
    ended_at = {}
    ended_ev = {}
    prev_dump = None
    est_now = [True] * len(sess)
    has_x = "x" in fates
    ka_line = any(e.split(":")[0] == "k" for e in evs)
    pending_rule = None
    for ev, ts, dump in steps:
        f = ev.split(":")
        if f[0] in ("s", "S") and f[2] == "c" and any(SUB.match(t) and t != "sub=rej" for t in ts):
            accepted.append((int(f[1]), int(f[3])))
        if f[0] in ("a", "r", "b", "q", "p") and len(f) >= 3 and (int(f[1]), int(f[2])) in txs and (int(f[1]), int(f[2])) not in ended_ev:
            # delivered by this very event: every token of this step comes after the injection
            ended_ev[(int(f[1]), int(f[2]))] = {"a": "an ACK", "r": "a RST", "b": "an ACK (invalid code class)", "p": "an ACK (piggy-backed response)",
                                                "q": "an ACK (with the request code 0.%02d)" % (int(f[3]) if f[0] == "q" and len(f) > 3 else 0)}[f[0]]
        n_icmp = 0
        # "every Confirmable accepted for sending is transmitted": an ESTABLISHED session never holds accepted messages in its
        # delay queue while none of its messages is in flight - only the conclusion of a message in flight (ACK / RST / give-up,
        # a keepalive ping's included) lets the next one out (Lean: m_delayed_has_pending, C08 no_idle_hold_x).  Judged after
        # every event; not on lines with failing writes (open finding drain_break_strands_delayed, judged at the end of the run)
        if f[0] == "h" and len(f) == 2 and int(f[1]) < len(est_now):
            est_now[int(f[1])] = False
        elif f[0] in ("u", "f") and len(f) == 2 and int(f[1]) < len(est_now):
            est_now[int(f[1])] = True
        if not has_x and f[0] != "h":
            ca_d, dq_d, q_d = dump
            for s_ in range(len(sess)):
                if est_now[s_] and s_ < len(dq_d) and dq_d[s_] > 0 and not any(nd[0] == s_ for nd in q_d):
                    waiting = [m_ for (s2, m_) in accepted if s2 == s_ and subs.get((s_, m_), 0) == 1 and (s_, m_) not in txs
                               and (s_, m_) not in outcome] + \
                              ([int(f[3])] if f[0] in ("s", "S") and f[2] == "c" and int(f[1]) == s_ and subs.get((s_, int(f[3])), 0) == 1
                               and (s_, int(f[3])) not in txs and any(SUB.match(t) and t != "sub=rej" for t in ts) else [])
                    if waiting:
                        pending_rule = ("after `%s`: Confirmable %d of established session %d was accepted by coap_send() and has never been "
                                        "transmitted - it waits in the delay queue (%d message(s)) although NONE of the session's messages is in "
                                        "flight (no node of the session in the send queue, con_active = %s): nothing will ever release it" % (
                                            ev, waiting[0], s_, dq_d[s_], ca_d[s_] if s_ < len(ca_d) else "?"))
        if f[0] == "i" and not held_evs and prev_dump is not None and dump != prev_dump and \
                not any(TX.match(t) or TXF.match(t) or (NACK.match(t) and NACK.match(t).group(4) != "icmp") for t in ts):
            # no retransmission / give-up fell into the I/O step after the report: nothing but the report may have happened
            return ("the ICMP error read from the socket of session %s changes the message layer although nothing was (re)transmitted "
                    "or concluded: con_active / delay queues / send queue were %s and are %s - an ICMP report leaves in-flight "
                    "counts, held messages, deadlines and retransmission counters alone" % (f[1], prev_dump, dump))
        prev_dump = dump
        for t in ts:
            m = TX.match(t) or TXF.match(t)
            if m:
                tm, s, kind, mid, same = int(m.group(1)), int(m.group(2)), m.group(3), int(m.group(4)), m.group(5)
                # the scripted peer: the k-th datagram handed to the socket meets the k-th fate
                fate = fates[nfate] if nfate < len(fates) else "d"
                nfate += 1
                if fate[0] in "aArRpPqQ" and not (fate[0] in "aApPqQ" and kind != "C") and not t.startswith("txf@"):
                    for d in fate[1:].split("+"):
                        arrivals[(s, mid)] = True
                        last_arrival = max(last_arrival, tm + int(d))
                        if kind == "C" and ((s, mid) not in ended_at or tm + int(d) < ended_at[(s, mid)][0]):
                            ended_at[(s, mid)] = (tm + int(d), {"a": "an ACK", "r": "a RST", "p": "an ACK (piggy-backed response)",
                                                                "q": "an ACK (with a request code)"}[fate[0].lower()])
                if same != "=":
                    return "retransmission of message %d on session %d is not byte-identical to its first transmission" % (mid, s)
                if kind == "C" and subs.get((s, mid), 0) == 1:
                    if (s, mid) in outcome:
                        return "message %d of session %d is transmitted at t=%d after its outcome (%s)" % (mid, s, tm, outcome[(s, mid)])
                    if not held_evs and (s, mid) in ended_at and tm > ended_at[(s, mid)][0]:
                        return ("message %d of session %d is transmitted again at t=%d although %s carrying its message id arrived at "
                                "t=%d: a Confirmable is retransmitted only UNTIL an ACK or RST with its message id arrives" % (
                                    mid, s, tm, ended_at[(s, mid)][1], ended_at[(s, mid)][0]))
                    if not held_evs and (s, mid) in ended_ev:
                        return ("message %d of session %d is transmitted again at t=%d although %s carrying its message id had arrived "
                                "(event): a Confirmable is retransmitted only UNTIL an ACK or RST with its message id arrives" % (
                                    mid, s, tm, ended_ev[(s, mid)]))
                    txs.setdefault((s, mid), []).append(tm)
                continue
            m = NACK.match(t)
            if m and m.group(4) == "icmp":
                # an ICMP error read from the socket is REPORTED (reason ICMP_ISSUE), it is not an outcome: the message
                # stays queued, keeps its schedule and still ends in exactly one of ACK / RST / TOO_MANY_RETRIES
                n_icmp += 1
                if f[0] != "i":
                    return "an ICMP_ISSUE report at t=%s during `%s`: no ICMP error was read from a socket" % (m.group(2), ev)
                if n_icmp > 1:
                    return ("the ICMP error read from the socket of session %s at t=%s is reported %d times: it is reported once, about "
                            "the first message of the session waiting for its acknowledgement" % (f[1], m.group(2), n_icmp))
                if m.group(1) == "nack":
                    s, mid = int(m.group(3)), int(m.group(5))
                    if subs.get((s, mid), 0) == 1 and (s, mid) in outcome:
                        return ("the ICMP error at t=%s is reported about message %d of session %d, which had its outcome (%s) before" % (
                            m.group(2), mid, s, outcome[(s, mid)]))
                    if subs.get((s, mid), 0) == 1 and (s, mid) in accepted and (s, mid) not in txs:
                        return ("the ICMP error at t=%s is reported about Confirmable %d of session %d, which has never been transmitted "
                                "(it is waiting in the delay queue): nothing sent for it can have caused the error" % (m.group(2), mid, s))
                continue
            if m and m.group(1) == "nack":
                s, reason, mid = int(m.group(3)), m.group(4), int(m.group(5))
                if subs.get((s, mid), 0) != 1:
                    continue
                if (s, mid) in outcome and not (reason == "undeliv" and outcome[(s, mid)] == "undeliv"):
                    return "message %d of session %d gets a second outcome: %s after %s" % (mid, s, reason, outcome[(s, mid)])
                outcome[(s, mid)] = reason
                if reason == "retries" and not held_evs and (s, mid) in ended_at and int(m.group(2)) > ended_at[(s, mid)][0]:
                    return ("TOO_MANY_RETRIES for message %d of session %d at t=%s although %s carrying its message id arrived at t=%d" % (
                        mid, s, m.group(2), ended_at[(s, mid)][1], ended_at[(s, mid)][0]))
                if reason == "retries":
                    n = len(txs.get((s, mid), []))
                    if s < len(sess) and n != sess[s][4] + 1 and not held_evs:
                        return "TOO_MANY_RETRIES for message %d after %d transmissions, MAX_RETRANSMIT is %d" % (mid, n, sess[s][4])
    if pending_rule:
        return pending_rule
    for (s, mid), ts in txs.items():
        if subs.get((s, mid), 0) != 1 or s >= len(sess):
            continue
        p = sess[s]
        if len(ts) - 1 > p[4]:
            return "message %d of session %d is retransmitted %d times, MAX_RETRANSMIT is %d" % (mid, s, len(ts) - 1, p[4])
        if not punctual or len(ts) < 2 or ka_line:      # keepalive clamps the retransmission delay (outside D7: ping_timeout = 0)
            continue
        q = lambda i, f: 64 * i + (64 * f + 500) // 1000
        if q(p[0], p[1]) >= 65536 or q(p[2], p[3]) >= 65536:
            continue           # D7: wrapping range
        lo = 1000 * p[0] + p[1] - 9            # ACK_TIMEOUT, minus the Q6 rounding (1/128 s) and half a tick
        hi = (1000 * p[0] + p[1] + 8) * (1000 * p[2] + p[3] + 8) // 1000 + 10
        T = ts[1] - ts[0]
        if not (lo <= T <= hi):
            return "first retransmission of message %d after %d ms, outside [ACK_TIMEOUT, ACK_TIMEOUT*ACK_RANDOM_FACTOR] = [%d, %d]" % (mid, T, lo, hi)
        for j in range(1, len(ts) - 1):
            if ts[j + 1] - ts[j] != T * 2 ** j:
                return "retransmission %d of message %d comes %d ms after the previous one, expected %d (T=%d doubled %d times)" % (
                    j + 1, mid, ts[j + 1] - ts[j], T * 2 ** j, T, j)
    return c06_end_of_run(sess, evs, steps, accepted, arrivals, last_arrival, subs, txs, outcome)


def c06_end_of_run(sess, evs, steps, accepted, arrivals, last_arrival, subs, txs, outcome):
    """"Every Confirmable accepted for sending is transmitted … and ends in exactly one outcome", judged where the trace
    of I alone can decide it: the run ends with an I/O step at which the library reports NOTHING pending (wait 0, empty
    send queue) and every reply the scripted peer ever sent has been delivered.  From there on nothing will happen any
    more, so every accepted Confirmable - one that was held back by NSTART included - must be concluded: a message for
    which no ACK / RST / response ever arrived can only have been concluded by a NACK-handler call."""
    if not steps or any(e.split(":")[0] == "k" for e in evs):
        return None
    ev, ts, (ca, dq, q) = steps[-1]
    if ev.split(":")[0] not in ("g", "n", "t"):
        return None
    ws = [W.match(t) for t in ts if t.startswith("w@")]
    if not ws or ws[-1] is None:
        return None
    tend, ms, e = int(ws[-1].group(1)), int(ws[-1].group(2)), int(ws[-1].group(3))
    if ms != 0 or e != 0 or q or last_arrival > tend:
        return None
    est = [True] * len(sess)
    tok = {}
    for x in evs:
        f = x.split(":")
        if f[0] == "h" and int(f[1]) < len(sess):
            est[int(f[1])] = False
        elif f[0] in ("u", "f") and int(f[1]) < len(sess):
            est[int(f[1])] = True
        elif f[0] == "s":
            tok[(int(f[1]), int(f[3]))] = int(f[3])
        elif f[0] == "S":
            tok[(int(f[1]), int(f[3]))] = int(f[5])
    for x in evs:
        f = x.split(":")
        if f[0] in ("a", "r", "b", "p", "q"):
            arrivals[(int(f[1]), int(f[2]))] = True
        elif f[0] == "o":
            for (s, mid), tk in tok.items():
                if s == int(f[1]) and tk == int(f[3]):
                    arrivals[(s, mid)] = True
    for (s, mid) in accepted:
        if subs.get((s, mid), 0) != 1 or s >= len(sess) or not est[s]:
            continue
        if (s, mid) in outcome or (s, mid) in arrivals:
            continue
        n = len(txs.get((s, mid), []))
        return ("Confirmable %d of session %d was accepted by coap_send(), %s, and ends without any outcome: no NACK-handler "
                "call, no ACK / RST / response for it ever arrived, yet at t=%d the library reports nothing pending (wait 0, "
                "empty send queue%s)" % (mid, s, "was never transmitted" if n == 0 else "was handed to the socket %d time(s)" % n, tend,
                                         ", %d message(s) left in the session's delay queue" % dq[s] if s < len(dq) and dq[s] else ""))
    for s in range(len(sess)):
        waiting = [m for (s2, m) in accepted if s2 == s and subs.get((s, m), 0) == 1 and not txs.get((s, m)) and (s, m) not in outcome]
        if est[s] and s < len(dq) and dq[s] > 0 and waiting:
            return ("at t=%d the library reports nothing pending (wait 0, empty send queue) but established session %d still holds "
                    "%d accepted message(s) in its delay queue: they will never be transmitted" % (tend, s, dq[s]))
    return None


def failed_non_drain_sessions(line, itoks):
    """sessions on which the socket write of a NON-confirmable taken out of the delay queue failed (fate `x`) while no
    Confirmable of the session was in flight, leaving messages in the delay queue: the input class of the open finding
    `drain_break_strands_delayed` (coap_session_connected: `if (bytes_written < 0) break;`)"""
    sess, fates, evs, steps = walk(line, itoks)
    out = set()
    for ev, ts, (ca, dq, q) in steps:
        for t in ts:
            m = TXF.match(t)
            if m and m.group(3) != "C":
                s = int(m.group(2))
                if s < len(dq) and dq[s] > 0 and s < len(ca) and ca[s] == 0:
                    out.add(s)
    return out


# marks the verdict of the input class of the open finding `drain_break_strands_delayed` (KNOWN_FINDINGS.txt)
DRAIN_BREAK = "coap_session_connected() stopped draining at a failing socket write (`if (bytes_written < 0) break;`):"


def oracle_c08(line, itoks):
    """C08 on the trace of I alone: con_active = in flight <= NSTART after every event, held messages first go out
    in submission order, a NON on an established session goes out at once, failure NACKs every held CON once.
    Lines with failing socket writes (fate `x`, `txf@`): "transmitted" is the write ATTEMPT (a datagram whose write fails is
    lost one hop earlier than one lost on the wire) - first attempts are in submission order, a message whose write was
    attempted is no longer held; "in flight" (the ledger) starts at the first write that SUCCEEDED.  con_active = nodes
    in the send queue <= NSTART is judged as on every line: a Confirmable that left the delay queue is in the send queue
    whatever its write returned, so it occupies a slot whatever its write returned."""
    sess, fates, evs, steps = walk(line, itoks)
    if len(steps) != len(evs):
        return None
    est = [True] * len(sess)
    opened = [True] * len(sess)
    order = {s: [] for s in range(len(sess))}       # accepted CON submissions, in order
    first_tx = {s: [] for s in range(len(sess))}
    seen_tx = set()
    prev_q = set()                                  # (session, mid) of the nodes in the send queue when the event began
    prev_dq = [0] * len(sess)                       # delay-queue lengths when the event began
    # the loop of coap_session_connected() stops at a failing write (`if (bytes_written < 0) break;`): the messages behind
    # the failed one wait until the NEXT exchange of the session finishes (the gate is re-opened by whatever ends it)
    broken = [False] * len(sess)
    hist = InFlightLedger(sess, fates, evs)
    for ev, ts, (ca, dq, q) in steps:
        f = ev.split(":")
        why = hist.event(ev, ts)
        if why:
            return why
        for s in range(len(sess)):
            infl = sum(1 for n in q if n[0] == s)
            if s < len(ca) and ca[s] != infl:
                return "after `%s`: con_active of session %d is %d but %d Confirmables are waiting for their ACK" % (ev, s, ca[s], infl)
            if infl > sess[s][5]:
                return "after `%s`: %d Confirmables in flight on session %d, NSTART is %d" % (ev, infl, s, sess[s][5])
        att_in_ev = set()
        for t in ts:
            m = TX.match(t) or TXF.match(t)
            if m and m.group(3) in "CN":
                key = (int(m.group(2)), int(m.group(4)))
                direct = f[0] in ("s", "S") and (int(f[1]), int(f[3])) == key
                if key not in att_in_ev and key not in prev_q and not direct and key[0] < len(broken):
                    # neither coap_send() nor a retransmission (the message was not in the send queue when the event began
                    # and this is its first write within the event): the message comes out of the delay queue - one round
                    # of the drain loop, which goes on iff the write succeeded
                    broken[key[0]] = t.startswith("txf@")
                att_in_ev.add(key)
            if m and m.group(3) == "C":
                key = (int(m.group(2)), int(m.group(4)))
                if key not in seen_tx:
                    seen_tx.add(key)
                    first_tx[key[0]].append(key[1])
        if f[0] in ("s", "S"):
            s, con, mid = int(f[1]), f[2] == "c", int(f[3])
            accepted = any(SUB.match(t) and t != "sub=rej" for t in ts)
            if (con and s < len(broken) and broken[s] and s < len(prev_dq) and prev_dq[s] > 0 and est[s] and opened[s]
                    and (s, mid) in att_in_ev):
                # the other consequence of the stopped drain loop: a slot is free while messages are held, and coap_send_pdu()
                # looks at con_active only
                return ("after `%s`: %s Confirmable %d is transmitted at once, overtaking the %d message(s) session %d still holds" % (
                    ev, DRAIN_BREAK, mid, prev_dq[s], s))
            if accepted and con:
                order[s].append(mid)
            if accepted and not con and est[s] and opened[s]:
                if not any((TX.match(t) or TXF.match(t)) and (TX.match(t) or TXF.match(t)).group(3) == "N"
                           and int((TX.match(t) or TXF.match(t)).group(4)) == mid for t in ts):
                    return "NON %d submitted on established session %d was not transmitted at once" % (mid, s)
        elif f[0] == "h":
            est[int(f[1])] = False
        elif f[0] == "u":
            est[int(f[1])] = True
        elif f[0] == "f":
            s = int(f[1])
            if opened[s]:
                # every CON accepted and never transmitted so far is held: exactly one NACK each
                held = [m for m in order[s] if (s, m) not in seen_tx]
                nacked = [int(NACK.match(t).group(5)) for t in ts if NACK.match(t) and NACK.match(t).group(1) == "nack"]
                for m in held:
                    if nacked.count(m) != 1:
                        return "session %d failed: held Confirmable %d reported by %d NACKs" % (s, m, nacked.count(m))
                order[s] = [m for m in order[s] if m not in held]
            est[s] = True
            opened[s] = False
        # `i:S` (ICMP error) and `k:SECS` (keepalive) change nothing the property talks about: the per-event checks above
        # and below apply to them as to every event
        for s in range(len(sess)):
            # "held and later transmitted as earlier exchanges finish": on an established session a message waits only
            # while NSTART Confirmables are in flight (a keepalive ping is one of them)
            infl = sum(1 for n in q if n[0] == s)
            if s < len(dq) and dq[s] == 0:
                broken[s] = False
            if broken[s] and est[s] and opened[s] and s < len(dq) and dq[s] > 0:
                if infl > 0:
                    continue         # the drain loop stopped at a failing write: resumed when the next exchange finishes
                return ("after `%s`: %s session %d is established and holds %d message(s) with NO Confirmable in flight: nothing will "
                        "ever transmit them" % (ev, DRAIN_BREAK, s, dq[s]))
            if est[s] and opened[s] and s < len(dq) and dq[s] > 0 and infl < sess[s][5]:
                return "after `%s`: session %d is established and holds %d message(s) although only %d of NSTART=%d Confirmables are in flight" % (
                    ev, s, dq[s], infl, sess[s][5])
        prev_q = {(n[0], n[1]) for n in q}
        prev_dq = list(dq)
    for s in range(len(sess)):
        sub_once = [m for m in order[s] if order[s].count(m) == 1]
        ft = [m for m in first_tx[s] if m in sub_once]
        want = sub_once[:len(ft)]        # nobody overtakes: the k messages that have gone out are the first k accepted
        if ft != want:
            return "session %d: first transmissions %s are not in submission order %s" % (s, ft, want)
    return None


class InFlightLedger:
    """"In flight" as the property defines it - SENT and neither ACKNOWLEDGED, RESET nor GIVEN UP - kept from the trace of
    I alone, without looking at the library's queues: a Confirmable is in flight from its first transmission until
      * an ACK (empty, piggy-backed response, invalid code) or a RST carrying ITS message id has been delivered,
      * a separate response (CON/NON) carrying ITS token has been delivered (RFC 7252 5.2.2: the peer has the request),
      * the library reports it to the NACK handler (TOO_MANY_RETRIES, RST, BAD_RESPONSE, NOT_DELIVERABLE), or
      * its session fails.
    An ACK for ANOTHER message id concludes nothing - whatever token it carries.  The ledger errs on the side of silence:
    a reply of the scripted peer counts from the moment it MAY have been delivered (arrival time <= now), a response
    concludes every message with its token transmitted up to and including the event it arrives in, message ids used twice
    and sessions that are taken out of ESTABLISHED by `h:` (a retransmission then goes back to the delay queue) are not
    judged.  A socket write that fails (`txf@`, fate `x`) sends nothing: the message is in flight from its first write
    that SUCCEEDED (the library counts it earlier - from the moment it is in the send queue; that is judged by the
    con_active clause); the failed attempt consumes its fate like every datagram handed to the socket."""

    def __init__(self, sess, fates, evs):
        self.sess, self.fates = sess, fates
        self.on = True
        self.skip = {int(e.split(":")[1]) for e in evs if e.startswith("h:")}
        self.subs, self.tok = {}, {}
        for e in evs:
            f = e.split(":")
            if f[0] in ("s", "S"):
                k = (int(f[1]), int(f[3]))
                self.subs[k] = self.subs.get(k, 0) + 1
                self.tok[k] = int(f[5]) if f[0] == "S" else int(f[3])
        self.open = {s: {} for s in range(len(sess))}
        self.ever, self.pend, self.nfate, self.now = set(), [], 0, 0

    def event(self, ev, ts):
        if not self.on:
            return None
        f = ev.split(":")
        for t in ts:
            m = TX.match(t) or TXF.match(t)
            if m:
                tm, s, kind, mid = int(m.group(1)), int(m.group(2)), m.group(3), int(m.group(4))
                self.now = max(self.now, tm)
                fate = self.fates[self.nfate] if self.nfate < len(self.fates) else "d"
                self.nfate += 1
                if t.startswith("txf@"):
                    continue
                if fate[0] in "aArRpP" and not (fate[0] in "aApP" and kind != "C"):
                    for d in fate[1:].split("+"):
                        self.pend.append((tm + int(d), s, mid))
                if kind == "C" and (s, mid) not in self.ever and self.subs.get((s, mid), 0) <= 1 and s in self.open:
                    self.ever.add((s, mid))
                    self.open[s][mid] = tm
                continue
            m = W.match(t) or RSP.match(t)
            if m:
                self.now = max(self.now, int(m.group(1)))
                continue
            m = NACK.match(t)
            if m:
                self.now = max(self.now, int(m.group(2)))
                if m.group(1) == "nack" and m.group(4) != "icmp" and int(m.group(3)) in self.open:
                    self.open[int(m.group(3))].pop(int(m.group(5)), None)
        if f[0] in ("a", "r", "b", "p") and int(f[1]) in self.open:
            self.open[int(f[1])].pop(int(f[2]), None)
        elif f[0] == "o" and int(f[1]) in self.open:
            s = int(f[1])
            for mid in [m for m in self.open[s] if self.tok.get((s, m)) == int(f[3])]:
                del self.open[s][mid]
        elif f[0] == "f" and int(f[1]) in self.open:
            self.open[int(f[1])].clear()
        for (tm, s, mid) in self.pend:
            if tm <= self.now and s in self.open:
                self.open[s].pop(mid, None)
        self.pend = [a for a in self.pend if a[0] > self.now]
        for s in range(len(self.sess)):
            if s not in self.skip and len(self.open[s]) > self.sess[s][5]:
                return ("after `%s`: %d Confirmables of session %d have been sent and are neither acknowledged, reset nor given up "
                        "(message ids %s: no ACK / RST with their id and no response with their token was delivered, no NACK was "
                        "reported), NSTART is %d" % (ev, len(self.open[s]), s, sorted(self.open[s]), self.sess[s][5]))
        return None


# ------------------------------------------------------------------ random scenarios
DELAYS = [0, 1, 7, 50, 100, 400, 999, 1000, 1001, 1999, 2000, 2001, 2999, 3000, 3001, 4000, 6000, 9000, 20000]


def gen_fate(rng, near):
    c = rng.random()
    d = lambda: rng.choice(near) if near and rng.random() < 0.4 else rng.choice(DELAYS)
    if c < 0.35:
        return "d"
    if c < 0.70:
        return "a%d" % d()
    if c < 0.82:
        return "r%d" % d()
    if c < 0.92:
        return "A%d+%d" % (d(), d())
    return "R%d+%d" % (d(), d())


def gen_scenario(rng, flavor):
    """one `msg` line.  flavor 'c06': few messages, many timer/arrival races, several sessions sharing the queue;
    'c08': bursts of CON/NON against NSTART 1..4, holds, failures."""
    ns = rng.choice([1, 1, 2, 2, 3])
    sess, params = [], []
    for i in range(ns):
        p = rand_params(rng, big=(flavor == "c06" and rng.random() < 0.03))
        nstart = rng.choice([1, 1, 2, 3, 4]) if flavor == "c08" else rng.choice([1, 2, 4, 20])
        params.append(p + (nstart,))
        # the NSTART clauses hold for every datagram transport: a third of C08's sessions are DTLS sessions
        sess.append(sess_word(p, nstart, 2 if flavor == "c08" and rng.random() < 0.33 else 1))
    nmsg = rng.randint(1, 6) if flavor == "c06" else rng.randint(1, 20)
    near = []
    evs = []
    mids = [rng.choice([1, 100, 65000, 65530]) for _ in range(ns)]
    sent = []
    with_hold = flavor == "c08" and rng.random() < 0.35 or flavor == "c06" and rng.random() < 0.05
    with_fail = rng.random() < (0.25 if flavor == "c08" else 0.08)
    if with_hold and rng.random() < 0.6:
        evs.append("h:%d" % rng.randrange(ns))
    for k in range(nmsg):
        s = rng.randrange(ns)
        mids[s] = (mids[s] + 1) % 65536
        # message ids are unique per session: re-using the id of a message that is still outstanding is an application
        # error (RFC 7252 §4.4) outside the property (observation in design/C06.md: it can leave a node with
        # session = NULL in the send queue when the session is not established)
        mid = mids[s]
        con = rng.random() < (0.9 if flavor == "c06" else 0.75)
        r = rng.choice([0, 255, 128, rng.randrange(256)])
        evs.append("s:%d:%s:%d:%d" % (s, "c" if con else "n", mid, r))
        sent.append((s, mid))
        p = params[s]
        T = py_calc_timeout(p[0], p[1], p[2], p[3], r)
        for j in range(min(p[4], 4) + 1):
            near += [max(0, T * 2 ** j - 1), T * 2 ** j, T * 2 ** j + 1]
        c = rng.random()
        if c < 0.25:
            evs.append("t:%d" % rng.choice(DELAYS + near[-6:]))
        elif c < 0.40:
            evs.append("n")
        elif c < 0.48:
            s2, m2 = rng.choice(sent) if rng.random() < 0.8 else (rng.randrange(ns), rng.randrange(65536))
            evs.append("%s:%d:%d" % (rng.choice("aarrb"), s2, m2))
        elif c < 0.53:
            s2, m2 = rng.choice(sent)
            evs.append("o:%d:%d:%d" % (s2, rng.choice([m2, rng.randrange(65536)]), rng.choice([m2, m2, rng.randrange(65536)])))
        elif c < 0.58 and with_hold:
            evs.append("%s:%d" % (rng.choice("hu"), rng.randrange(ns)))
        elif c < 0.61 and with_fail:
            evs.append("f:%d" % rng.randrange(ns))
    if with_hold:
        for s in range(ns):
            if rng.random() < 0.8:
                evs.insert(rng.randint(len(evs) // 2, len(evs)), "u:%d" % s)
    if with_fail and rng.random() < 0.7:
        evs.insert(rng.randint(0, len(evs)), "f:%d" % rng.randrange(ns))
    nf = rng.randint(0, 3 * nmsg)
    fates = [gen_fate(rng, near) for _ in range(nf)]
    if rng.random() < 0.5:
        fates += [rng.choice(["a50", "a1", "d"])] * 1
    evs.append("g:3000")
    if with_hold:
        evs += ["u:%d" % s for s in range(ns)] + ["g:3000"]
    return "msg %s %s %s" % (",".join(sess), ",".join(fates) if fates else "-", " ".join(evs))


def gen_scenario_x(rng, flavor=None):
    """one `msg` line using the events of the extended model (Driver/Msg.lean, Model/MsgLayerX.lean):
    `S:` submissions that share a token (so that one separate response cancels several outstanding Confirmables),
    `i:` ICMP errors while Confirmables are in flight or held, `k:` keepalive (library-generated empty Confirmables
    taking an NSTART slot, answered by RST = "pong", by ACK, or lost) - alone and mixed, with everything gen_scenario()
    does around them.  Message ids stay clear of the ids the library gives its pings (1, 2, …)."""
    flavor = flavor or rng.choice(["tok", "tok", "icmp", "ka", "ka", "mix", "pig", "pig", "pigmix"])
    tokf, icmpf, kaf = flavor in ("tok", "mix", "pig", "pigmix"), flavor in ("icmp", "mix", "pigmix"), flavor in ("ka", "mix", "pigmix")
    # piggy-backed responses (ACKs carrying a response and the request's token): as fates p / P (the second copy is the
    # network's duplicate, arriving while LATER messages - possibly with the same token - are in flight) and as events
    # p:S:MID:TOK for ids that are in flight, already concluded, given up, held or nobody's
    pigf = flavor in ("pig", "pigmix")
    ns = rng.choice([1, 1, 2, 2, 3])
    params = []
    for i in range(ns):
        p = rand_params(rng)
        nstart = rng.choice([1, 2, 2, 3, 4]) if tokf and not kaf else rng.choice([1, 1, 2, 3, 4])
        params.append(p + (nstart,))
    sess = [sess_word(p[:5], p[5], 2 if rng.random() < 0.33 else 1) for p in params]
    # keepalive no longer than the shortest ACK_TIMEOUT: the wait returned after a ping is the ping timeout, the ping's own
    # retransmission deadline is not looked at (observation for C06, design/C08.md)
    K = rng.randint(1, min(p[0] for p in params)) if kaf else 0
    nmsg = rng.randint(1, 12)
    pool = [rng.choice([0, 7, 300, 65535, rng.randrange(65536)]) for _ in range(rng.choice([1, 1, 2, 3]))]
    mids = [rng.choice([100, 30000, 65000]) for _ in range(ns)]
    near, evs, sent = [], [], []
    toks_of = {}
    with_hold = rng.random() < 0.2
    with_fail = rng.random() < 0.15
    ka_on = False
    if kaf and rng.random() < 0.7:
        evs.append("k:%d" % K)
        ka_on = True
        if rng.random() < 0.6:
            evs.append("t:%d" % rng.choice([K * 1000, K * 1000, K * 1000 - 1, K * 1000 + 1, 2 * K * 1000]))
    if with_hold and rng.random() < 0.5:
        evs.append("h:%d" % rng.randrange(ns))
    for k in range(nmsg):
        s = rng.randrange(ns)
        mids[s] += 1
        mid = mids[s]
        con = rng.random() < 0.8
        r = rng.choice([0, 255, 128, rng.randrange(256)])
        if tokf and rng.random() < 0.7:
            tk = rng.choice(pool)
            evs.append("S:%d:%s:%d:%d:%d" % (s, "c" if con else "n", mid, r, tk))
        else:
            tk = mid
            evs.append("s:%d:%s:%d:%d" % (s, "c" if con else "n", mid, r))
        sent.append((s, mid))
        toks_of[(s, mid)] = tk
        p = params[s]
        T = py_calc_timeout(p[0], p[1], p[2], p[3], r)
        for j in range(min(p[4], 3) + 1):
            near += [max(0, T * 2 ** j - 1), T * 2 ** j, T * 2 ** j + 1]
        if kaf:
            near += [K * 1000 - 1, K * 1000, K * 1000 + 1, K * 1000 - 255 + r]
        c = rng.random()
        if pigf and rng.random() < 0.35:
            # a piggy-backed response for a message of this line (usually an EARLIER one: its duplicate / a late copy) with
            # that message's token, a pool token or nobody's; now and then twice in a row
            s2, m2 = rng.choice(sent[:-1] or sent) if rng.random() < 0.7 else rng.choice(sent)
            tk2 = toks_of[(s2, m2)] if rng.random() < 0.8 else rng.choice(pool + [rng.randrange(65536)])
            evs.append("p:%d:%d:%d" % (s2, m2 if rng.random() < 0.9 else rng.randrange(65536), tk2))
            if rng.random() < 0.3:
                evs.append(evs[-1])
        if c < 0.22:
            evs.append("t:%d" % rng.choice(DELAYS[:12] + near[-8:]))
        elif c < 0.34:
            evs.append("n")
        elif c < 0.42:
            s2, m2 = rng.choice(sent) if rng.random() < 0.8 else (rng.randrange(ns), rng.randrange(65536))
            evs.append("%s:%d:%d" % (rng.choice("aarrb"), s2, m2))
        elif c < (0.62 if tokf else 0.46):
            # a separate (NON) response: its token is one of the pool (cancels every outstanding message carrying it),
            # the token of one message, or nobody's; its message id is the peer's own choice
            s2, m2 = rng.choice(sent)
            tok = rng.choice(pool) if tokf and rng.random() < 0.8 else rng.choice([m2, rng.randrange(65536)])
            evs.append("o:%d:%d:%d" % (s2, rng.choice([m2, rng.randrange(65536)]), tok))
        elif c < 0.62 + (0.14 if icmpf else 0.0):
            evs.append("i:%d" % rng.randrange(ns))
        elif c < 0.80 and kaf:
            if not ka_on or rng.random() < 0.15:
                ka_on = not ka_on
                evs.append("k:%d" % (K if ka_on else 0))
            else:
                # let the session fall silent for (about) the keepalive time; a pong / ACK / nothing is the next fate
                evs.append("t:%d" % rng.choice([K * 1000, K * 1000, K * 1000 + 1, K * 1000 - 1, 2 * K * 1000, 3 * K * 1000]))
                if rng.random() < 0.5:
                    evs.append(rng.choice(["n", "t:%d" % rng.choice([1, 50, 400, K * 1000])]))
        elif c < 0.85 and with_hold:
            evs.append("%s:%d" % (rng.choice("hu"), rng.randrange(ns)))
        elif c < 0.88 and with_fail:
            evs.append("f:%d" % rng.randrange(ns))
    if with_hold:
        for s in range(ns):
            if rng.random() < 0.8:
                evs.insert(rng.randint(len(evs) // 2, len(evs)), "u:%d" % s)
    if icmpf and rng.random() < 0.5:
        evs.insert(rng.randint(1, len(evs)), "i:%d" % rng.randrange(ns))
    nf = rng.randint(0, 3 * nmsg)
    fates = []
    for _ in range(nf):
        f = gen_fate(rng, near)
        if kaf and rng.random() < 0.3:
            f = "r%d" % rng.choice([0, 1, 50, 400, K * 1000 - 1, K * 1000, K * 1000 + 1])      # the pong
        elif pigf and rng.random() < 0.5:
            d1 = rng.choice([0, 0, 1, 50, 400] + near[-4:])
            f = "p%d" % d1 if rng.random() < 0.4 else "P%d+%d" % (d1, d1 + rng.choice([0, 1, 7, 50, 400, 1000, 3000, 20000] + near[-4:]))
        fates.append(f)
    # with keepalive on the library never falls silent: bounded run
    evs.append("g:%d" % rng.choice([10, 25, 40]) if kaf else "g:3000")
    if with_hold:
        evs += ["u:%d" % s for s in range(ns)] + ["g:%d" % (25 if kaf else 3000)]
    return "msg %s %s %s" % (",".join(sess), ",".join(fates) if fates else "-", " ".join(evs))


def gen_scenario_w(rng):
    """one `msg` line of the c08 flavour (bursts of CON/NON against NSTART 1..4, holds, failures, stray replies) in which
    some socket writes FAIL (fate `x`, interpreted with Model/MsgLayerW.lean): the first transmission in coap_send(), a
    retransmission, and - what C08 is about - the first transmission of a held message that coap_session_connected() takes
    out of the delay queue when an exchange finishes or the session comes up.  UDP sessions only (harness/msg.c and the
    driver answer bad-op for `x` on a DTLS session); enough ACK fates that exchanges do finish and the queue is drained."""
    w = gen_scenario(rng, "c08").split()
    sess = ",".join(p[:-2] if p.count(".") == 6 else p for p in w[1].split(","))
    fates = [] if w[2] == "-" else w[2].split(",")
    nmsg = sum(1 for e in w[3:] if e.startswith("s:"))
    want = rng.randint(nmsg, 3 * nmsg)
    while len(fates) < want:
        fates.append(rng.choice(["a0", "a1", "a10", "a50", "a400", "a1000", "d", "r50"]))
    for _ in range(rng.choice([1, 1, 2, 3, 5])):
        pos = rng.randrange(len(fates) + 1)
        if pos < len(fates) and rng.random() < 0.5:
            fates[pos] = "x"
        else:
            fates.insert(pos, "x")
    evs = w[3:]
    if rng.random() < 0.5:
        # the application goes on submitting after the burst has (partly) drained: new messages must queue up behind the
        # held ones, whatever happened to the writes of those that were released
        s = rng.randrange(len(sess.split(",")))
        k = rng.randint(max(1, len(evs) // 2), len(evs) - 1)
        evs = evs[:k] + ["t:%d" % rng.choice([1, 20, 100, 400, 1000]), "s:%d:c:%d:%d" % (s, 40000 + rng.randrange(1000), rng.randrange(256))] + evs[k:]
    return "msg %s %s %s" % (sess, ",".join(fates), " ".join(evs))


def judge_msg(ctx, c, oracle):
    """shared verdict for a `msg` line: the oracle (property on I alone) decides `spec`, equality with M decides `tie`"""
    i, m = c["impl"], c["model"]
    if i is None or i.startswith("crash") or i == "bad-op" or m is None or m.startswith("model-crash") or m == "bad-op":
        if i == m == "bad-op":
            return None
        if i and i.startswith("crash"):
            return ("spec", "the implementation dies on this scenario: " + i[:200])
        return ("tie", "implementation `%s`, model `%s`" % ((i or "")[:80], (m or "")[:80]))
    it, mt = toks(i), toks(m)
    why = oracle(c["input"], it)
    if why:
        return ("spec", why)
    ie, iw = split_w(it)
    me, mw = split_w(mt)
    v = compare_waits(iw, mw)
    if v and v[0] == "spec":
        return v
    d = first_diff(ie, me)
    if d:
        return ("tie", d)
    return v


def shrink_msg(ctx, me, case, judge):
    """greedy: drop events / fates / sessions' worth of tokens while the verdict stays `spec`"""
    from .runner import diff_side
    best = case
    w = case["input"].split()
    head, fates, evs = w[:2], ([] if w[2] == "-" else w[2].split(",")), w[3:]
    for _ in range(4):
        cands = []
        for k in range(len(evs)):
            cands.append((fates, evs[:k] + evs[k + 1:]))
        for k in range(len(fates)):
            cands.append((fates[:k] + fates[k + 1:], evs))
            if fates[k] != "d":
                cands.append((fates[:k] + ["d"] + fates[k + 1:], evs))
        lines = ["%s %s %s" % (" ".join(head), ",".join(f) if f else "-", " ".join(e)) for f, e in cands if e][:300]
        hit = None
        for cc in diff_side(ctx, me, lines):
            v = judge(ctx, cc)
            if v and v[0] == "spec":
                cc["why"] = v[1]
                hit = cc
                break
        if not hit:
            break
        best = hit
        w = hit["input"].split()
        fates, evs = ([] if w[2] == "-" else w[2].split(",")), w[3:]
    return best
