"""Helpers shared by the H-sim properties (harness/sim_core.h)."""
from . import common as C

SIM_WRAPS = ["coap_ticks", "coap_socket_send", "coap_socket_recv"]


def build_sim_harness(name, extra_wraps=(), **kw):
    """Compile harness/<name>.c (which #includes sim_core.h) with the virtual clock / scripted network wraps
    (+ extra_wraps: further symbols the harness replaces at link time)."""
    import os
    bdir = C.build_libcoap()
    # sim_core.h is a dependency of every sim harness: touch-compare by hand (build_harness only knows hcommon.h)
    out = os.path.join(bdir, "h_" + name)
    core = os.path.join(C.VERIF, "harness", "sim_core.h")
    if os.path.exists(out) and os.path.getmtime(core) > os.path.getmtime(out):
        os.unlink(out)
    return C.build_harness(name, bdir, wraps=SIM_WRAPS + list(extra_wraps), **kw)
