"""Seeded generators for CoAP wire data (used by the codec / stream / server checks).
An independent, minimal encoder: it only *produces inputs*; verdicts never depend on it."""

KNOWN_OPTS = [1, 3, 4, 5, 6, 7, 8, 9, 11, 12, 14, 15, 16, 17, 19, 20, 23, 27, 28, 31, 35, 39, 60, 252, 258, 292]
LIMITS = {1: (0, 8), 3: (1, 255), 4: (1, 8), 5: (0, 0), 6: (0, 3), 7: (0, 2), 8: (0, 255), 9: (0, 255), 11: (0, 255),
          12: (0, 2), 14: (0, 4), 15: (0, 255), 16: (1, 1), 17: (0, 2), 19: (0, 3), 20: (0, 255), 23: (0, 3),
          27: (0, 3), 28: (0, 4), 31: (0, 3), 35: (1, 1034), 39: (1, 255), 60: (0, 4), 252: (1, 40), 258: (0, 1), 292: (0, 8)}


def ext_field(v):
    """nibble + extension bytes of the 13/14 scheme"""
    if v < 13:
        return v, b""
    if v < 269:
        return 13, bytes([v - 13])
    return 14, bytes([(v - 269) >> 8 & 0xFF, (v - 269) & 0xFF])


def enc_opts(opts):
    out = b""
    prev = 0
    for num, val in opts:
        dn, de = ext_field(num - prev)
        ln, le = ext_field(len(val))
        out += bytes([dn << 4 | ln]) + de + le + val
        prev = num
    return out


def enc_body(token, opts, payload):
    body = enc_opts(opts)
    if payload:
        body += b"\xff" + payload
    return body


def enc_token(token):
    tn, te = ext_field(len(token))
    return tn, te + token


def encode(proto, typ, code, mid, token, opts, payload):
    tkl, tok = enc_token(token)
    body = enc_body(token, opts, payload)
    if proto == "udp":
        return bytes([0x40 | typ << 4 | tkl, code, mid >> 8, mid & 0xFF]) + tok + body
    if proto == "ws":
        return bytes([tkl, code]) + tok + body
    n = len(body)
    if n < 13:
        h = bytes([n << 4 | tkl])
    elif n < 269:
        h = bytes([13 << 4 | tkl, n - 13])
    elif n < 65805:
        h = bytes([14 << 4 | tkl, (n - 269) >> 8, (n - 269) & 0xFF])
    else:
        m = n - 65805
        h = bytes([15 << 4 | tkl, m >> 24 & 255, m >> 16 & 255, m >> 8 & 255, m & 255])
    return h + bytes([code]) + tok + body


def rbytes(rng, n):
    return bytes(rng.getrandbits(8) for _ in range(n))


def pick_len(rng, big=False):
    """lengths on both sides of every encoding boundary"""
    c = rng.random()
    if c < 0.35: return rng.randint(0, 4)
    if c < 0.55: return rng.randint(5, 12)
    if c < 0.70: return rng.choice([12, 13, 14])
    if c < 0.82: return rng.randint(15, 267)
    if c < 0.92: return rng.choice([268, 269, 270])
    if big and c < 0.96: return rng.choice([65535, 65536, 65537, 65803, 65804])
    return rng.randint(271, 1200)


def gen_opts(rng, n=None, valid_len=True, big=False):
    n = rng.choice([0, 1, 1, 2, 3, 4, 6, 10]) if n is None else n
    nums = []
    for _ in range(n):
        c = rng.random()
        if c < 0.55: nums.append(rng.choice(KNOWN_OPTS))
        elif c < 0.75: nums.append(rng.randint(0, 300))
        elif c < 0.9: nums.append(rng.choice([12, 13, 14, 268, 269, 270, 281, 282, 65535, 65534, 65000]))
        else: nums.append(rng.randint(0, 65535))
    nums.sort()
    opts = []
    for num in nums:
        if num in LIMITS and (valid_len or rng.random() < 0.7):
            lo, hi = LIMITS[num]
            l = rng.choice([lo, hi, rng.randint(lo, hi)])
            if not valid_len and rng.random() < 0.3:
                l = rng.choice([hi + 1, max(0, lo - 1), hi + 65536])
        else:
            l = pick_len(rng, big)
        opts.append((num, rbytes(rng, l)))
    return opts


def gen_token(rng, big=False):
    c = rng.random()
    if c < 0.3: return b""
    if c < 0.7: return rbytes(rng, rng.randint(1, 8))
    if c < 0.8: return rbytes(rng, rng.randint(9, 12))
    if c < 0.9: return rbytes(rng, rng.choice([13, 14, 20, 268]))
    if big and c < 0.95: return rbytes(rng, rng.choice([269, 270, 1000, 65804]))
    return rbytes(rng, rng.randint(13, 300))


def gen_code(rng):
    c = rng.random()
    if c < 0.5: return rng.choice([1, 2, 3, 4, 5, 6, 7])
    if c < 0.75: return rng.choice([65, 66, 67, 68, 69, 95, 128, 132, 160])
    if c < 0.9: return rng.choice([224, 225, 226, 227, 228, 229, 230])
    if c < 0.93: return 0
    return rng.randint(0, 255)


def gen_msg(rng, big=False, valid_len=True):
    code = gen_code(rng)
    typ = rng.randint(0, 3)
    mid = rng.choice([0, 1, 0xFFFF, rng.randint(0, 0xFFFF)])
    if code == 0 and rng.random() < 0.7:
        return typ, code, mid, b"", [], b""
    token = gen_token(rng, big)
    if 225 <= code <= 229 and rng.random() < 0.8:
        opts = sorted([(rng.choice([2, 2, 4, 6, 8, 3]), rbytes(rng, rng.randint(0, 5))) for _ in range(rng.randint(0, 3))])
    else:
        opts = gen_opts(rng, valid_len=valid_len, big=big)
    pl = b"" if rng.random() < 0.4 else rbytes(rng, pick_len(rng, big))
    return typ, code, mid, token, opts, pl


def mutate(rng, b):
    """one field-level mutation of an encoding"""
    b = bytearray(b)
    if not b:
        return bytes([rng.getrandbits(8)])
    c = rng.random()
    i = rng.randrange(len(b))
    if c < 0.25:      # nibble change
        if rng.random() < 0.5: b[i] = (b[i] & 0x0F) | rng.choice([13, 14, 15, rng.randint(0, 15)]) << 4
        else: b[i] = (b[i] & 0xF0) | rng.choice([13, 14, 15, rng.randint(0, 15)])
    elif c < 0.4:     # byte set to an interesting value
        b[i] = rng.choice([0xFF, 0x00, 0xFE, 0xE0, 0xD0, 0x0D, 0x0E, 0xEE, 0xDD, 0xF0, 0x0F])
    elif c < 0.55:    # truncate
        del b[rng.randrange(len(b)):]
    elif c < 0.65:    # append
        b += rbytes(rng, rng.randint(1, 4))
    elif c < 0.75:    # insert marker
        b.insert(i, 0xFF)
    elif c < 0.85:    # header byte 0 (TKL / Len / version)
        b[0] = rng.getrandbits(8)
    elif c < 0.92:    # delete a byte
        del b[i]
    else:             # random byte
        b[i] = rng.getrandbits(8)
    return bytes(b)


def edge_fields(rng, proto):
    """a message assembled field by field with the LENGTH-CARRYING fields (extended token length, TCP Len extension, option
    delta / length extensions) at the edges of their ranges — also where the value the field announces is far larger than
    what follows (an implementation that narrows such a value sees a small, plausible number instead)"""
    tkl = rng.choice([13, 14, 14, 14, rng.randint(0, 15)])
    ext = b""
    if tkl == 13:
        ext = bytes([rng.choice([0, 1, 2, 0xFE, 0xFF, rng.getrandbits(8)])])
    elif tkl == 14:
        ext = rng.choice([b"\x00\x00", b"\x00\x01", b"\xfe\xf2", b"\xfe\xf3", b"\xfe\xf4", b"\xff\xff", b"\x00\xff", b"\x01\x00",
                          b"\xfe\xff", b"\xff\x00", rbytes(rng, 2)])
    c = rng.random()
    if c < 0.5:
        rest = rbytes(rng, rng.choice([0, 0, 1, 2, 3, 8, 13, 14]))
    elif c < 0.7:
        # exactly (or nearly) the token the fields announce, when that is affordable, then a little more
        want = (13 + ext[0]) if tkl == 13 else (269 + (ext[0] << 8 | ext[1])) if tkl == 14 else tkl if tkl < 13 else 0
        want = want if want <= 2000 else rng.choice([0, 1, 300])
        rest = rbytes(rng, max(0, want + rng.choice([0, 0, -1, 1, 2])))
    else:
        # an option whose delta / length extensions sit on their edges
        d, l = rng.choice([13, 14, 15, rng.randint(0, 12)]), rng.choice([13, 14, 15, rng.randint(0, 12)])
        o = bytes([d << 4 | l])
        for nib in (d, l):
            if nib == 13: o += bytes([rng.choice([0, 0xFF, rng.getrandbits(8)])])
            elif nib == 14: o += rng.choice([b"\x00\x00", b"\xfe\xf2", b"\xfe\xf3", b"\xff\xff", rbytes(rng, 2)])
        want = tkl if tkl < 13 else 0
        rest = rbytes(rng, want) + o + rbytes(rng, rng.choice([0, 1, 2, 13, 14, 269]))
    code = rng.choice([0, 1, 2, 69, 0, rng.getrandbits(8)])
    if proto == "udp":
        return bytes([0x40 | rng.randint(0, 3) << 4 | tkl, code]) + rbytes(rng, 2) + ext + rest
    if proto == "ws":
        return bytes([rng.choice([0, 0, 0, 13, 14, 15, 1]) << 4 | tkl, code]) + ext + rest
    n = len(rest)           # RFC 8323: Len counts options + payload, i.e. what follows the token
    tok_len = (13 + ext[0]) if tkl == 13 else (269 + (ext[0] << 8 | ext[1])) if tkl == 14 else tkl if tkl < 13 else 0
    n = max(0, n - tok_len) if rng.random() < 0.7 else n
    n = rng.choice([n, n, n, 0, 12, 13, 268, 269, 65804, 65805])
    if n < 13: h = bytes([n << 4 | tkl])
    elif n < 269: h = bytes([13 << 4 | tkl, n - 13])
    elif n < 65805: h = bytes([14 << 4 | tkl, (n - 269) >> 8, (n - 269) & 0xFF])
    else: h = bytes([15 << 4 | tkl]) + (n - 65805).to_bytes(4, "big")
    if rng.random() < 0.1:
        h = bytes([rng.choice([13, 14, 15]) << 4 | tkl]) + rng.choice([b"", b"\xff", b"\xff\xff", b"\xff\xff\xff\xff", b"\xff\xfe\xfe\xf3"])
    return h + bytes([code]) + ext + rest
