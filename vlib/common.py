"""Shared machinery for the /verif checks (see DESIGN.md §2).

Everything here is deterministic given VERIF_SEED, rebuilds from /repo's
current working tree, and keeps its scratch output under /verif/.work.
"""
import fcntl, hashlib, json, os, random, re, shutil, subprocess, sys, time
from concurrent.futures import ThreadPoolExecutor

VERIF = os.path.dirname(os.path.dirname(os.path.abspath(__file__)))
REPO = os.environ.get("VERIF_REPO", "/repo")
WORK = os.path.join(VERIF, ".work")
LEAN = os.path.join(VERIF, "lean")
NCPU = os.cpu_count() or 4
GUARD = "COAP_VERIF_HOOKS"
ALLOWED_AXIOMS = {"propext", "Classical.choice", "Quot.sound"}

SAN_FLAGS = "-fsanitize=address,undefined -fsanitize=bounds -fno-sanitize-recover=all -fno-omit-frame-pointer -g -O1"
FLAVORS = {
    "asan": SAN_FLAGS,
    "plain": "-g -O1",
    "tsan": "-fsanitize=thread -g -O1",
}


def sh(cmd, **kw):
    kw.setdefault("stdout", subprocess.PIPE)
    kw.setdefault("stderr", subprocess.STDOUT)
    kw.setdefault("text", True)
    return subprocess.run(cmd, **kw)


class Lock:
    """flock-based mutex so that concurrent checks do not trample shared build output."""
    def __init__(self, name):
        os.makedirs(WORK, exist_ok=True)
        self.path = os.path.join(WORK, name + ".lock")
    def __enter__(self):
        self.f = open(self.path, "w")
        fcntl.flock(self.f, fcntl.LOCK_EX)
        return self
    def __exit__(self, *a):
        fcntl.flock(self.f, fcntl.LOCK_UN)
        self.f.close()


# --------------------------------------------------------------------------
# /repo fingerprint and libcoap build
# --------------------------------------------------------------------------
def repo_files():
    out = []
    for top in ("src", "include", "cmake", "ext"):
        d = os.path.join(REPO, top)
        for root, dirs, files in os.walk(d):
            dirs.sort()
            for f in sorted(files):
                out.append(os.path.join(root, f))
    for f in sorted(os.listdir(REPO)):
        p = os.path.join(REPO, f)
        if os.path.isfile(p) and (f.startswith("cmake") or f in ("CMakeLists.txt", "configure.ac", "coap_config.h.in")):
            out.append(p)
    return out


def repo_hash():
    h = hashlib.sha256()
    for p in repo_files():
        h.update(p.encode())
        try:
            with open(p, "rb") as fh:
                h.update(hashlib.sha256(fh.read()).digest())
        except OSError:
            h.update(b"?")
    return h.hexdigest()[:16]


def build_libcoap(flavor="asan", extra_defs="", cmake_args=(), tag=""):
    """Configure + build libcoap-3.a from /repo's working tree through the
    repository's own CMake (hooks guard on).  Cached by content hash.
    `cmake_args` (extra -D options for the configure step) and `tag` (a separate cache slot, so that two
    configurations of the same flavor do not evict each other) are optional."""
    flags = FLAVORS[flavor] + " -D%s=1 " % GUARD + extra_defs
    name = flavor + ("_" + tag if tag else "")
    key = hashlib.sha256((repo_hash() + flags + "".join(cmake_args)).encode()).hexdigest()[:12]
    bdir = os.path.join(WORK, "build-%s-%s" % (name, key))
    lib = os.path.join(bdir, "libcoap-3.a")
    with Lock("libcoap-" + name):
        if os.path.exists(lib) and os.path.exists(os.path.join(bdir, ".ok")):
            os.utime(bdir)
            return bdir
        # keep at most two trees per flavor
        olds = sorted((d for d in os.listdir(WORK) if d.startswith("build-%s-" % name)),
                      key=lambda d: os.path.getmtime(os.path.join(WORK, d)))
        for d in olds[:-1]:
            shutil.rmtree(os.path.join(WORK, d), ignore_errors=True)
        shutil.rmtree(bdir, ignore_errors=True)
        os.makedirs(bdir)
        r = sh(["cmake", "-G", "Ninja", "-S", REPO, "-B", bdir, "-DENABLE_TESTS=OFF", "-DENABLE_EXAMPLES=OFF",
                "-DENABLE_DOCS=OFF", "-DCMAKE_BUILD_TYPE=RelWithDebInfo", "-DCMAKE_C_FLAGS=" + flags] + list(cmake_args))
        if r.returncode != 0:
            raise BuildError("cmake configure failed:\n" + r.stdout[-4000:])
        r = sh(["ninja", "-C", bdir, "coap-3"])
        if r.returncode != 0:
            raise BuildError("libcoap build failed:\n" + r.stdout[-6000:])
        open(os.path.join(bdir, ".ok"), "w").write(key)
        return bdir


class BuildError(Exception):
    pass


def build_harness(name, bdir, flavor="asan", wraps=(), extra=(), srcs=None, cxx=False):
    """Compile /verif/harness/<name>.c against the libcoap tree in bdir."""
    srcs = srcs or [os.path.join(VERIF, "harness", name + ".c")]
    deps = srcs + [os.path.join(VERIF, "harness", "hcommon.h"), os.path.join(bdir, "libcoap-3.a")]
    out = os.path.join(bdir, "h_" + name)
    with Lock("harness-" + name):
        if os.path.exists(out) and all(os.path.getmtime(out) >= os.path.getmtime(d) for d in deps if os.path.exists(d)):
            return out
        cmd = ["gcc"] + FLAVORS[flavor].split() + ["-D%s=1" % GUARD, "-DHAVE_CONFIG_H", "-D_GNU_SOURCE",
               "-I", bdir, "-I", os.path.join(bdir, "include"), "-I", os.path.join(REPO, "include"),
               "-I", os.path.join(REPO, "src"), "-I", REPO, "-I", os.path.join(VERIF, "harness"), "-w"]
        cmd += list(extra) + srcs
        if wraps:
            cmd += ["-Wl," + ",".join("--wrap=" + w for w in wraps)]
        cmd += [os.path.join(bdir, "libcoap-3.a"), "-lgnutls", "-lpthread", "-lm", "-o", out]
        r = sh(cmd)
        if r.returncode != 0:
            raise BuildError("harness %s failed to build:\n%s" % (name, r.stdout[-6000:]))
        return out


# --------------------------------------------------------------------------
# Lean side
# --------------------------------------------------------------------------
def write_if_changed(path, text):
    try:
        if open(path).read() == text:
            return False
    except OSError:
        pass
    os.makedirs(os.path.dirname(path), exist_ok=True)
    tmp = path + ".tmp%d" % os.getpid()
    open(tmp, "w").write(text)
    os.replace(tmp, path)
    return True


def lake_build(targets):
    with Lock("lake"):
        r = sh(["lake", "build"] + list(targets), cwd=LEAN)
    return r.returncode == 0, r.stdout


def lean_run(text, timeout=600):
    """Elaborate a throw-away Lean file against the built library."""
    os.makedirs(WORK, exist_ok=True)
    p = os.path.join(WORK, "tmp_%d_%d.lean" % (os.getpid(), random.getrandbits(30)))
    open(p, "w").write(text)
    try:
        r = sh(["lake", "env", "lean", p], cwd=LEAN, timeout=timeout)
        return r.returncode, r.stdout
    finally:
        os.unlink(p)


def audit(modules, namespace):
    """List every theorem in `namespace` with the axioms it depends on.
    Returns (theorems: [{name, axioms}], raw)"""
    text = "".join("import %s\n" % m for m in modules) + "import CoapVerif.AuditTool\n#audit_ns %s\n" % namespace
    rc, out = lean_run(text)
    thms = []
    for line in out.splitlines():
        m = re.search(r"AUDIT (\S+) \[(.*)\]$", line.strip())
        if m:
            ax = [a.strip() for a in m.group(2).split(",") if a.strip()]
            thms.append({"name": m.group(1), "axioms": ax})
    return rc, thms, out


HYGIENE_RE = re.compile(r"\bsorry\b|\badmit\b|^\s*axiom\s|native_decide|bv_decide|implemented_by|\bunsafe\s|maxHeartbeats\s+0\b")


def strip_lean_comments(src):
    out, i, depth = [], 0, 0
    n = len(src)
    while i < n:
        if src.startswith("/-", i):
            depth += 1; i += 2; continue
        if depth and src.startswith("-/", i):
            depth -= 1; i += 2; continue
        if depth:
            if src[i] == "\n": out.append("\n")
            i += 1; continue
        if src.startswith("--", i):
            while i < n and src[i] != "\n": i += 1
            continue
        out.append(src[i]); i += 1
    return "".join(out)


def hygiene():
    """grep the whole Lean tree for forbidden constructs outside comments."""
    hits = []
    for root, dirs, files in os.walk(LEAN):
        if ".lake" in root:
            continue
        for f in files:
            if f.endswith(".lean"):
                p = os.path.join(root, f)
                for k, line in enumerate(strip_lean_comments(open(p).read()).splitlines(), 1):
                    if HYGIENE_RE.search(line):
                        hits.append("%s:%d: %s" % (os.path.relpath(p, VERIF), k, line.strip()))
    return hits


def driver_path():
    return os.path.join(LEAN, ".lake", "build", "bin", "drv")


# --------------------------------------------------------------------------
# running I and M on the same lines
# --------------------------------------------------------------------------
def run_lines(cmd, lines, env=None, timeout=900, per_line_crash="crash"):
    """Feed `lines` to a one-line-in/one-line-out process.  If the process
    dies (sanitizer abort, assert) the line it died on gets `per_line_crash
    <diagnostic>` and the process is restarted on the following line."""
    outs = []
    pos = 0
    n = len(lines)
    e = dict(os.environ)
    e.update({"ASAN_OPTIONS": "detect_leaks=0:abort_on_error=0:exitcode=86:allocator_may_return_null=1",
              "UBSAN_OPTIONS": "print_stacktrace=1:halt_on_error=1:exitcode=87"})
    if env:
        e.update(env)
    while pos < n:
        data = "".join(l + "\n" for l in lines[pos:])
        try:
            r = subprocess.run(cmd, input=data, stdout=subprocess.PIPE, stderr=subprocess.PIPE, text=True,
                               env=e, timeout=timeout, errors="replace")
            got = r.stdout.splitlines()
            rc, err = r.returncode, r.stderr
        except subprocess.TimeoutExpired as ex:
            text = (ex.stdout or b"").decode(errors="replace") if isinstance(ex.stdout, bytes) else (ex.stdout or "")
            if text and not text.endswith("\n"):
                text = text[:text.rfind("\n") + 1]          # the line being written when the process was killed is not an answer
            got = text.splitlines()
            rc, err = -999, "timeout after %ds" % timeout
            if got:
                # the batch as a whole ran out of time (a loaded machine) but made progress: keep the complete answers and
                # go on with the rest in a fresh process; only a line that makes no progress at all is reported as stalled
                got = got[:n - pos]
                outs.extend(got)
                pos += len(got)
                continue
        if rc == 0 and len(got) >= n - pos:
            outs.extend(got[:n - pos])
            break
        # died (or stalled) while working on line pos+len(got)
        got = got[:n - pos]
        outs.extend(got)
        pos += len(got)
        if pos < n:
            diag = summarize_crash(err, rc)
            outs.append(per_line_crash + " " + diag)
            pos += 1
    return outs


def summarize_crash(err, rc):
    m = re.search(r"(ERROR: AddressSanitizer: [^\n]*|runtime error: [^\n]*|Assertion [^\n]*failed[^\n]*|timeout after \d+s)", err or "")
    where = re.search(r"#\d+ 0x[0-9a-f]+ in (\w+) (/repo[^\s]*|%s[^\s]*|[^\s]*libcoap[^\s]*)" % re.escape(REPO), err or "")
    s = m.group(1) if m else "rc=%s %s" % (rc, (err or "").strip().splitlines()[-1:] or "")
    s = re.sub(r"0x[0-9a-f]+", "0x?", s)
    s = re.sub(r"\s+", "_", s.strip())
    if where:
        s += "@" + where.group(1)
    return s[:300]


def run_sharded(cmd, lines, shards=None, **kw):
    shards = shards or min(NCPU, max(1, len(lines) // 200))
    if shards <= 1:
        return run_lines(cmd, lines, **kw)
    chunks = [lines[i::shards] for i in range(shards)]
    with ThreadPoolExecutor(shards) as ex:
        res = list(ex.map(lambda c: run_lines(cmd, c, **kw), chunks))
    outs = [None] * len(lines)
    for s, r in enumerate(res):
        for j, o in enumerate(r):
            outs[s + j * shards] = o
    return outs


# --------------------------------------------------------------------------
# known findings
# --------------------------------------------------------------------------
def load_findings(pid):
    """KNOWN_FINDINGS.txt lines:
         open: property=<id> sig=<signature-name> <what fails>
         fixed: property=<id> <commit> <what failed>
       Only `open` entries suppress anything."""
    res = {"open": [], "fixed": []}
    p = os.path.join(VERIF, "KNOWN_FINDINGS.txt")
    if not os.path.exists(p):
        return res
    for line in open(p):
        line = line.strip()
        if not line or line.startswith("#"):
            continue
        m = re.match(r"open: property=(\S+) sig=(\S+) (.*)$", line)
        if m and m.group(1) == pid:
            res["open"].append({"sig": m.group(2), "what": m.group(3)})
        m = re.match(r"fixed: property=(\S+) (\S+) (.*)$", line)
        if m and m.group(1) == pid:
            res["fixed"].append({"commit": m.group(2), "what": m.group(3)})
    return res


# --------------------------------------------------------------------------
# the generic check runner
# --------------------------------------------------------------------------
class Ctx:
    def __init__(self, pid, tier, seed):
        self.pid, self.tier, self.seed = pid, tier, seed
        self.rng = random.Random("%s-%d" % (pid, seed))
        self.t0 = time.time()
        self.notes = []
        self.violations = []      # list of dicts (replay objects)
        self.known_hits = {}      # sig -> count
        self.cov = {}
        self.findings = load_findings(pid)

    def note(self, s):
        self.notes.append(s)
        print("NOTE: " + s, flush=True)

    def thorough(self):
        return self.tier == "thorough"


def write_replay(pid, obj):
    d = os.path.join(VERIF, "replays")
    os.makedirs(d, exist_ok=True)
    h = hashlib.sha256(json.dumps(obj, sort_keys=True).encode()).hexdigest()[:10]
    p = os.path.join(d, "%s-%s.json" % (pid, h))
    json.dump(obj, open(p, "w"), indent=1, sort_keys=True)
    return p


def write_evidence(ctx, level, coverage, assumptions, violations):
    ev = {
        "property_id": ctx.pid, "tier": ctx.tier, "seed": ctx.seed, "level": level,
        "coverage": coverage, "assumptions": assumptions,
        "wall_s": round(time.time() - ctx.t0, 2), "violations": violations,
    }
    d = os.path.join(VERIF, "evidence")
    os.makedirs(d, exist_ok=True)
    json.dump(ev, open(os.path.join(d, ctx.pid + ".json"), "w"), indent=1, sort_keys=True)
    return ev
