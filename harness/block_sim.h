/* Layer B of the C09 harness (included by block.c): a REAL client context and a REAL server context in one process,
 * virtual clock, scripted network (sim_core.h).
 *
 *   xfer <dir> <bodyLen> <seed> <cszx|-> <sszx|-> <mtu> <con> <single> <sched> [<bodyLen2> <seed2>]
 *
 *   dir     put    Block1: the client application PUTs a body with coap_add_data_large_request()
 *           pute / putt   the same, the application supplying its own Request-Tag: EMPTY (length 0) / 3 bytes
 *           puts   the same, BOTH transfers go to resource "b" and only the Request-Tag tells them apart (EMPTY / 1 byte)
 *           get    Block2: the client GETs, the server application answers with coap_add_data_large_response()
 *           rawput Block1 blocks built by hand (no Size1 option, as a foreign client may send them) injected into
 *                  the server endpoint in the order given by <sched> = n,n,n (block numbers)
 *   cszx    block size the client application asks for (Block1 option in the PUT / Block2 option in the GET)
 *   sszx    coap_context_set_max_block_size() on the server (early renegotiation by the peer)
 *   mtu     session MTU on both sides
 *   con     1 = Confirmable, 0 = Non-confirmable
 *   single  1 = COAP_BLOCK_SINGLE_BODY on both sides, 0 = per-block delivery
 *   sched   fate of the k-th datagram written (both directions, in order): d deliver, x drop, 2 deliver twice;
 *           beyond the string: deliver.  Optionally followed by content-keyed fault rules  ~<who><q|r><num|L|*><fate>  (any number):
 *             who   1|2    the transfer the datagram belongs to (client requests: by Uri-Path / Request-Tag; everything else: by the
 *                          token, which the harness has seen in a request of that transfer)
 *             q|r   q = client -> server datagram (request), r = server -> client datagram (response, piggybacked or separate)
 *             num   block number: put = NUM of the Block1 option, get = NUM of the Block2 option (absent in a request = 0);
 *                   L = the datagram with the last block of the body (put/q: Block1 M=0 NUM>0, get/r: Block2 M=0 NUM>0,
 *                   put/r: the final 2.xx that is not 2.31);  * = every datagram of that side and transfer
 *             fate  x = EVERY matching datagram is lost (all retransmissions too: the exchange is abandoned);  1 = the first matching
 *                   datagram is lost;  2 = every matching datagram is delivered twice;  z[<ms>] = delivered, and once more <ms>
 *                   (default 2500) virtual milliseconds later (delay + duplication)
 *           a datagram matched by a rule follows the rule, every other one the positional letters.
 *   bodyLen2 seed2   a second, concurrent transfer on the same session (token a2…, resource/body 2)
 *
 * Log tokens (space separated):
 *   tx:<side>:<K>:<code>:<tokclass>:<b1>:<b2>:<size1>:<size2>:<etag>:<rtag>:<pllen>:<plhash>:<dgramlen>:<mid>:<transfer 0|1|2>:<tokhex>:<fate>
 *        fate = what the network did with this datagram: d, x, 2, z
 *   adl-fail:<n> / adlr-fail:<n>  coap_add_data_large_request / _response returned 0 (transfer n refused);  txcap = harness datagram cap hit
 *        side c|s, K = C|N|A|R, tokclass app1|app2|lib|none, b1/b2 = num.m.szx or -, etag/rtag = 1/0
 *   req:<res>:<off>:<total>:<len>:<hash>            server request handler call (res = 1|2)
 *   rsp:<tokclass>:<code>:<off>:<total>:<len>:<hash>:<b2>:<sent 0|1>:<tokhex>:<held 0|1>   client response handler call; b2 = Block2
 *        option of the message shown; sent = the handler was given the request PDU; held = the session holds an lg_crcv / lg_xmit
 *        whose state token (or application token) this token is
 *   nack:<tokclass>:<reason>:<tokhex>:<held 0|1>     client nack handler call
 *   rel:<n>                      release callback n ran
 *   end:<t>                      virtual ms elapsed
 */
static const uint8_t app_tok[2][4] = {{0xa1, 0xa1, 0xa1, 0xa1}, {0xa2, 0xa2, 0xa2, 0xa2}};
static uint8_t *xf_body[2];
static size_t xf_len[2];
static int xf_rel[2];
static int xf_raw;

static const sim_dgram_t *xf_pending[256];
static int xf_npending;

/* content-keyed fault rules (see the header comment) */
typedef struct { int who; char side; long num; char fate; unsigned ms; int hits; } xf_rule_t;   /* num: -1 = L, -2 = * */
static xf_rule_t xf_rules[8];
static int xf_nrules;
static unsigned xf_late_ms;
static char xf_schedbuf[256];
static const char *xf_dir = "";
static struct { uint8_t t[8]; size_t n; int which; } xf_tokmap[64];   /* token seen in a client request -> transfer */
static int xf_ntokmap;
static struct { const sim_dgram_t *d; coap_tick_t due; } xf_late[64];
static int xf_nlate;
static char xf_fate[SIM_MAX_TX];

static int xf_parse_sched(const char *s) {
  const char *t = strchr(s, '~');
  size_t nb = t ? (size_t)(t - s) : strlen(s);
  xf_nrules = 0;
  if (nb >= sizeof(xf_schedbuf)) return 0;
  memcpy(xf_schedbuf, s, nb); xf_schedbuf[nb] = 0;
  while (t && *t == '~') {
    xf_rule_t r;
    char *end;
    memset(&r, 0, sizeof(r));
    t++;
    if (*t != '1' && *t != '2') return 0;
    r.who = *t++ - '0';
    if (*t != 'q' && *t != 'r') return 0;
    r.side = *t++;
    if (*t == 'L') { r.num = -1; t++; }
    else if (*t == '*') { r.num = -2; t++; }
    else if (*t >= '0' && *t <= '9') {
      r.num = strtol(t, &end, 10); t = end;
      /* "…q12" + fate "2": the fate letter is the LAST character of the rule unless it is z<ms>; keep it simple: NUM is
       * followed by a letter fate (x, z) or by '.' + digit fate (1, 2) */
      if (*t == '.') t++;
    } else return 0;
    if (*t != 'x' && *t != '1' && *t != '2' && *t != 'z') return 0;
    r.fate = *t++;
    r.ms = 2500;
    if (r.fate == 'z' && *t >= '0' && *t <= '9') { r.ms = (unsigned)strtoul(t, &end, 10); t = end; }
    if (xf_nrules >= 8) return 0;
    xf_rules[xf_nrules++] = r;
  }
  return !t || !*t;
}

/* which transfer a datagram belongs to (0 = unknown), the block it carries / asks for / acknowledges */
static void xf_classify(const sim_dgram_t *d, coap_pdu_t *p, int *which, long *num, int *last) {
  coap_opt_iterator_t oi;
  coap_block_b_t b;
  int client = d->session && d->session->type == COAP_SESSION_TYPE_CLIENT;
  int put = !strncmp(xf_dir, "put", 3);
  *which = 0; *num = -3; *last = 0;
  if (client && d->code >= 1 && d->code <= 31) {
    coap_opt_t *o = coap_check_option(p, COAP_OPTION_URI_PATH, &oi);
    if (o && coap_opt_length(o) == 1) {
      *which = coap_opt_value(o)[0] == 'c' ? 2 : 1;
      if (!strcmp(xf_dir, "puts")) {
        o = coap_check_option(p, COAP_OPTION_RTAG, &oi);
        *which = o && coap_opt_length(o) == 1 ? 2 : 1;
      }
      if (d->tkl) {
        int i;
        for (i = 0; i < xf_ntokmap; i++)
          if (xf_tokmap[i].n == d->tkl && !memcmp(xf_tokmap[i].t, d->token, d->tkl)) break;
        if (i == xf_ntokmap && xf_ntokmap < 64) {
          memcpy(xf_tokmap[i].t, d->token, d->tkl); xf_tokmap[i].n = d->tkl; xf_tokmap[i].which = *which;
          xf_ntokmap++;
        }
      }
    }
  } else if (d->tkl) {
    for (int i = 0; i < xf_ntokmap; i++)
      if (xf_tokmap[i].n == d->tkl && !memcmp(xf_tokmap[i].t, d->token, d->tkl)) *which = xf_tokmap[i].which;
  }
  if (coap_get_block_b(NULL, p, put ? COAP_OPTION_BLOCK1 : COAP_OPTION_BLOCK2, &b)) {
    *num = (long)b.num;
    if (!b.m && b.num > 0 && (put ? client : !client)) *last = 1;
  } else if (client && !put && d->code >= 1 && d->code <= 31)
    *num = 0;
  if (put && !client && (d->code >> 5) == 2 && d->code != COAP_RESPONSE_CODE(231)) *last = 1;
}

static const char *tokclass(const uint8_t *t, size_t n) {
  if (n == 0) return "none";
  if (n == 4 && !memcmp(t, app_tok[0], 4)) return "app1";
  if (n == 4 && !memcmp(t, app_tok[1], 4)) return "app2";
  return "lib";
}

static void fmt_block(char *out, coap_pdu_t *p, coap_option_num_t n) {
  coap_block_b_t b;
  coap_opt_iterator_t oi;
  if (!coap_check_option(p, n, &oi)) { strcpy(out, "-"); return; }
  if (coap_get_block_b(NULL, p, n, &b)) sprintf(out, "%u.%u.%u", b.num, b.m, b.szx);
  else strcpy(out, "bad");
}
static void fmt_uint_opt(char *out, coap_pdu_t *p, coap_option_num_t n) {
  coap_opt_iterator_t oi;
  coap_opt_t *o = coap_check_option(p, n, &oi);
  if (!o) strcpy(out, "-");
  else sprintf(out, "%u", coap_decode_var_bytes(coap_opt_value(o), coap_opt_length(o)));
}

static char xf_pos_fate(unsigned seq) {
  char f = seq < strlen(xf_schedbuf) ? xf_schedbuf[seq] : 'd';
  return f == 'x' || f == '2' ? f : 'd';
}

static void xf_tx_logger(const sim_dgram_t *d) {
  coap_pdu_t *p = coap_pdu_init(0, 0, 0, 4096);
  char b1[32], b2[32], s1[16], s2[16];
  coap_opt_iterator_t oi;
  const char *side = d->session && d->session->type == COAP_SESSION_TYPE_CLIENT ? "c" : "s";
  xf_fate[d->seq] = xf_pos_fate(d->seq);
  if (!p || !coap_pdu_parse(COAP_PROTO_UDP, d->data, d->len, p)) {
    sim_logf("tx:%s:unparsable:%zu", side, d->len);
    if (p) coap_delete_pdu(p);
    return;
  }
  fmt_block(b1, p, COAP_OPTION_BLOCK1); fmt_block(b2, p, COAP_OPTION_BLOCK2);
  fmt_uint_opt(s1, p, COAP_OPTION_SIZE1); fmt_uint_opt(s2, p, COAP_OPTION_SIZE2);
  {
    char tk[20], f = 'd';
    int which, last, matched = 0;
    long num;
    sim_tok(tk, d->token, d->tkl);
    xf_classify(d, p, &which, &num, &last);
    /* the fate of this datagram: a matching rule decides, otherwise the positional letter */
    for (int i = 0; i < xf_nrules && !matched; i++) {
      xf_rule_t *r = &xf_rules[i];
      if (r->who != which || (r->side == 'q') != (side[0] == 'c')) continue;
      if (!(r->num == -2 || (r->num == -1 && last) || (r->num >= 0 && r->num == num))) continue;
      matched = 1;
      f = r->fate == '1' ? (r->hits ? 'd' : 'x') : r->fate;
      if (f == 'z') xf_late_ms = r->ms;
      r->hits++;
    }
    if (!matched) f = xf_pos_fate(d->seq);
    xf_fate[d->seq] = f;
    sim_logf("tx:%s:%c:%d:%s:%s:%s:%s:%s:%d:%d:%zu:%08x:%zu:%d:%d:%s:%c", side, sim_kind[d->type & 3], d->code,
             tokclass(d->token, d->tkl), b1, b2, s1, s2, coap_check_option(p, COAP_OPTION_ETAG, &oi) ? 1 : 0,
             coap_check_option(p, COAP_OPTION_RTAG, &oi) ? 1 : 0, d->pl_len, d->pl_hash, d->len, d->mid, which, tk, f);
  }
  if (d->seq + 2 >= SIM_MAX_TX) sim_logf("txcap");
  coap_delete_pdu(p);
}

static void xf_on_tx(const sim_dgram_t *d) {
  char f;
  if (xf_raw) return;                       /* rawput: responses go to nobody */
  f = xf_fate[d->seq];                      /* decided (and logged) by xf_tx_logger, which runs first */
  if (f == 'x') return;
  if (xf_npending < 255) xf_pending[xf_npending++] = d;
  if (f == '2' && xf_npending < 255) xf_pending[xf_npending++] = d;
  if (f == 'z' && xf_nlate < 64) { xf_late[xf_nlate].d = d; xf_late[xf_nlate].due = sim_now + xf_late_ms; xf_nlate++; }
}
static void xf_flush(void) {
  while (xf_npending) {
    const sim_dgram_t *d = xf_pending[0];
    memmove(xf_pending, xf_pending + 1, sizeof(xf_pending[0]) * (size_t)(--xf_npending));
    sim_deliver(d);
  }
}

static void xf_rel_cb(coap_session_t *s, void *app) {
  int i = (int)(intptr_t)app;
  (void)s;
  xf_rel[i]++;
  sim_logf("rel:%d", i + 1);
}

static void xf_hnd_put(coap_resource_t *r, coap_session_t *s, const coap_pdu_t *req, const coap_string_t *q, coap_pdu_t *rsp) {
  size_t len = 0, off = 0, total = 0; const uint8_t *data = NULL;
  int which = (int)(intptr_t)coap_resource_get_userdata(r);
  (void)s; (void)q;
  coap_get_data_large(req, &len, &data, &off, &total);
  sim_logf("req:%d:%zu:%zu:%zu:%08x", which + 1, off, total, len, sim_fnv(data, len));
  coap_pdu_set_code(rsp, COAP_RESPONSE_CODE_CHANGED);
}
static void xf_hnd_get(coap_resource_t *r, coap_session_t *s, const coap_pdu_t *req, const coap_string_t *q, coap_pdu_t *rsp) {
  int which = (int)(intptr_t)coap_resource_get_userdata(r);
  sim_logf("req:%d:0:0:0:%08x", which + 1, sim_fnv(NULL, 0));
  coap_pdu_set_code(rsp, COAP_RESPONSE_CODE_CONTENT);
  if (!coap_add_data_large_response(r, s, req, rsp, q, COAP_MEDIATYPE_APPLICATION_OCTET_STREAM, -1, 0, xf_len[which], xf_body[which],
                                    xf_rel_cb, (void *)(intptr_t)which)) {
    sim_logf("adlr-fail:%d", which + 1);
    coap_pdu_set_code(rsp, COAP_RESPONSE_CODE_INTERNAL_ERROR);
  }
}
/* does the client session still hold block-wise state (lg_crcv / lg_xmit) that this token belongs to ? */
static int xf_token_held(coap_session_t *session, coap_bin_const_t tok) {
  uint64_t base = STATE_TOKEN_BASE(coap_decode_var_bytes8(tok.s, tok.length));
  coap_lg_crcv_t *c;
  coap_lg_xmit_t *x;
  /* Only state of a transfer the APPLICATION started counts.  A message that arrives after its transfer was concluded (the
   * open finding c09-late-message-raw-token) can make libcoap set up a fresh lg_crcv from the request it answered, whose
   * "application token" is then itself a wire token: what happens under that entry is the late-message class, not a live
   * transfer of the application (thorough seed 11: `xfer get 7168 82 - 6 1152 1 1 ddd~1r1.1~1q5x~1q0z300`). */
  LL_FOREACH(session->lg_crcv, c) {
    if (!c->app_token || strncmp(tokclass(c->app_token->s, c->app_token->length), "app", 3)) continue;
    if (base == STATE_TOKEN_BASE(c->state_token) || coap_binary_equal(&tok, c->app_token)) return 1;
  }
  LL_FOREACH(session->lg_xmit, x) {
    if (!COAP_PDU_IS_REQUEST(&x->pdu)) continue;
    if (!x->b.b1.app_token || strncmp(tokclass(x->b.b1.app_token->s, x->b.b1.app_token->length), "app", 3)) continue;
    if (base == STATE_TOKEN_BASE(x->b.b1.state_token) || coap_binary_equal(&tok, x->b.b1.app_token)) return 1;
  }
  return 0;
}
static coap_response_t xf_on_response(coap_session_t *session, const coap_pdu_t *sent, const coap_pdu_t *rcvd, const coap_mid_t mid) {
  coap_bin_const_t tok = coap_pdu_get_token(rcvd);
  size_t len = 0, off = 0, total = 0; const uint8_t *data = NULL;
  char b2[32], tk[20];
  (void)mid;
  coap_get_data_large(rcvd, &len, &data, &off, &total);
  fmt_block(b2, (coap_pdu_t *)(uintptr_t)rcvd, COAP_OPTION_BLOCK2);
  sim_tok(tk, tok.s, tok.length > 8 ? 8 : tok.length);
  sim_logf("rsp:%s:%d:%zu:%zu:%zu:%08x:%s:%d:%s:%d", tokclass(tok.s, tok.length), (int)coap_pdu_get_code(rcvd), off, total, len,
           sim_fnv(data, len), b2, sent ? 1 : 0, tk, xf_token_held(session, tok));
  return COAP_RESPONSE_OK;
}
static void xf_on_nack(coap_session_t *session, const coap_pdu_t *sent, const coap_nack_reason_t reason, const coap_mid_t mid) {
  coap_bin_const_t tok;
  char tk[20];
  (void)mid;
  if (!sent) { sim_logf("nack:nopdu:%s:-:0", sim_nack_name(reason)); return; }
  tok = coap_pdu_get_token(sent);
  sim_tok(tk, tok.s, tok.length > 8 ? 8 : tok.length);
  sim_logf("nack:%s:%s:%s:%d", tokclass(tok.s, tok.length), sim_nack_name(reason), tk, xf_token_held(session, tok));
}
static int xf_on_event(coap_session_t *session, const coap_event_t event) { (void)session; (void)event; return 0; }

static void xf_start(coap_session_t *cs, int which, const char *dir, int cszx, int con) {
  coap_pdu_t *p = coap_new_pdu(con ? COAP_MESSAGE_CON : COAP_MESSAGE_NON,
                               !strncmp(dir, "put", 3) ? COAP_REQUEST_CODE_PUT : COAP_REQUEST_CODE_GET, cs);
  uint8_t buf[4];
  coap_add_token(p, 4, app_tok[which]);
  coap_add_option(p, COAP_OPTION_URI_PATH, 1, (const uint8_t *)(which && strcmp(dir, "puts") ? "c" : "b"));
  if (!strncmp(dir, "put", 3)) {
    if (cszx >= 0) coap_add_option(p, COAP_OPTION_BLOCK1, coap_encode_var_safe(buf, sizeof(buf), (unsigned)cszx), buf);
    /* the application's own Request-Tag (libcoap only adds one if there is none) */
    if (!strcmp(dir, "pute") || (!strcmp(dir, "puts") && !which)) coap_add_option(p, COAP_OPTION_RTAG, 0, NULL);
    else if (!strcmp(dir, "putt")) { uint8_t t[3] = {0x31, 0x32, (uint8_t)(0x33 + which)}; coap_add_option(p, COAP_OPTION_RTAG, 3, t); }
    else if (!strcmp(dir, "puts")) { uint8_t t[1] = {0x42}; coap_add_option(p, COAP_OPTION_RTAG, 1, t); }
    if (!coap_add_data_large_request(cs, p, xf_len[which], xf_body[which], xf_rel_cb, (void *)(intptr_t)which)) {
      sim_logf("adl-fail:%d", which + 1);
      coap_delete_pdu(p);
      return;
    }
  } else if (cszx >= 0)
    coap_add_option(p, COAP_OPTION_BLOCK2, coap_encode_var_safe(buf, sizeof(buf), (unsigned)cszx), buf);
  if (coap_send(cs, p) == COAP_INVALID_MID) sim_logf("send-fail:%d", which + 1);
}

static void do_xfer(int n, char **w) {
  if (n != 10 && n != 12) { printf("bad-op"); return; }
  const char *dir = w[1];
  int cszx = strcmp(w[4], "-") ? atoi(w[4]) : -1, sszx = strcmp(w[5], "-") ? atoi(w[5]) : -1;
  unsigned mtu = (unsigned)atoi(w[6]);
  int con = atoi(w[7]), single = atoi(w[8]);
  int ntr = n == 12 ? 2 : 1;
  uint32_t mode = COAP_BLOCK_USE_LIBCOAP | (single ? COAP_BLOCK_SINGLE_BODY : 0);
  if (strcmp(dir, "put") && strcmp(dir, "get") && strcmp(dir, "rawput") && strcmp(dir, "pute") && strcmp(dir, "putt") &&
      strcmp(dir, "puts")) { printf("bad-op"); return; }
  xf_len[0] = strtoull(w[2], 0, 10); xf_body[0] = mk_body(xf_len[0], (unsigned)atoi(w[3]));
  xf_len[1] = ntr == 2 ? strtoull(w[10], 0, 10) : 0; xf_body[1] = mk_body(xf_len[1], ntr == 2 ? (unsigned)atoi(w[11]) : 0);
  xf_rel[0] = xf_rel[1] = 0;
  xf_npending = 0; xf_nlate = 0; xf_ntokmap = 0; xf_dir = dir;
  xf_raw = !strcmp(dir, "rawput");
  if (xf_raw) { xf_nrules = 0; xf_schedbuf[0] = 0; }
  else if (!xf_parse_sched(w[9])) { printf("bad-op"); free(xf_body[0]); free(xf_body[1]); return; }
  sim_reset();
  sim_tx_hook = xf_on_tx; sim_tx_logger = xf_tx_logger;
  sim_prng_fill = 37;
  coap_context_t *srv = sim_new_context(), *cli = sim_new_context();
  coap_context_set_block_mode(srv, mode); coap_context_set_block_mode(cli, mode);
  if (sszx >= 0) coap_context_set_max_block_size(srv, (size_t)1 << (sszx + 4));
  coap_register_response_handler(cli, xf_on_response);
  coap_register_nack_handler(cli, xf_on_nack);
  coap_register_event_handler(cli, xf_on_event); coap_register_event_handler(srv, xf_on_event);
  coap_endpoint_t *ep = sim_new_endpoint(srv, 0);
  coap_endpoint_set_default_mtu(ep, mtu);
  for (int i = 0; i < 2; i++) {
    coap_resource_t *r = coap_resource_init(coap_make_str_const(i ? "c" : "b"), 0);
    coap_resource_set_userdata(r, (void *)(intptr_t)i);
    coap_register_request_handler(r, COAP_REQUEST_PUT, xf_hnd_put);
    coap_register_request_handler(r, COAP_REQUEST_GET, xf_hnd_get);
    coap_add_resource(srv, r);
  }
  if (xf_raw) {
    /* hand-built Block1 requests without Size1, from a peer that is not libcoap */
    coap_address_t from;
    char *seq = strdup(w[9]), *tok, *save = NULL;
    unsigned szx = cszx >= 0 ? (unsigned)cszx : 0, k = 0;
    size_t chunk = (size_t)1 << (szx + 4), nb = (xf_len[0] + chunk - 1) / chunk;
    sim_addr(&from, 40001);
    for (tok = strtok_r(seq, ",", &save); tok; tok = strtok_r(NULL, ",", &save), k++) {
      unsigned num = (unsigned)atoi(tok);
      uint8_t msg[1200], bv[4], tk[2] = {0x51, (uint8_t)k};
      size_t off = (size_t)num * chunk, pl, bl, i = 0;
      if (num >= nb) continue;
      pl = xf_len[0] - off < chunk ? xf_len[0] - off : chunk;
      bl = coap_encode_var_safe(bv, sizeof(bv), (num << 4) | ((num + 1 < nb ? 1u : 0u) << 3) | szx);
      msg[i++] = (uint8_t)(0x40 | ((con ? 0 : 1) << 4) | 2); msg[i++] = COAP_REQUEST_CODE_PUT;
      msg[i++] = 0x10; msg[i++] = (uint8_t)k;
      msg[i++] = tk[0]; msg[i++] = tk[1];
      msg[i++] = 0xb1; msg[i++] = 'b';                       /* Uri-Path "b" */
      msg[i++] = (uint8_t)(0xd0 | bl); msg[i++] = 27 - 11 - 13; /* Block1, delta 16 */
      memcpy(msg + i, bv, bl); i += bl;
      msg[i++] = 0xff; memcpy(msg + i, xf_body[0] + off, pl); i += pl;
      sim_inject_endpoint(ep, &from, msg, i);
      sim_now += 10;
    }
    free(seq);
  } else {
    coap_session_t *cs = sim_new_client(cli, ntohs(ep->bind_addr.addr.sin.sin_port));
    coap_session_set_mtu(cs, mtu);
    for (int i = 0; i < ntr; i++) xf_start(cs, i, dir, cszx, con);
    for (int step = 0; step < 20000; step++) {
      unsigned w1, w2, wt;
      xf_flush();
      /* delayed copies (fate z) whose time has come */
      for (int i = 0; i < xf_nlate; i++)
        if (xf_late[i].due <= sim_now && xf_npending < 255) {
          xf_pending[xf_npending++] = xf_late[i].d;
          xf_late[i] = xf_late[--xf_nlate]; i--;
        }
      if (xf_npending) continue;
      w1 = coap_io_prepare_epoll(cli, sim_now);
      if (xf_npending) continue;
      w2 = coap_io_prepare_epoll(srv, sim_now);
      if (xf_npending) continue;
      wt = w1 && w2 ? (w1 < w2 ? w1 : w2) : (w1 ? w1 : w2);
      for (int i = 0; i < xf_nlate; i++)
        if (!wt || xf_late[i].due - sim_now < wt) wt = (unsigned)(xf_late[i].due - sim_now);
      if (!wt || sim_now + wt > SIM_T0 + 700000) break;
      sim_now += wt;
    }
  }
  sim_logf("end:%llu", (unsigned long long)(sim_now - SIM_T0));
  sim_free_all(1);
  sim_logf("relcount:%d:%d", xf_rel[0], xf_rel[1]);
  sim_tx_hook = NULL; sim_tx_logger = NULL;
  sim_log_flush(stdout);
  free(xf_body[0]); free(xf_body[1]);
}
