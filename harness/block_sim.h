/* Layer B of the C09 harness (included by block.c) */
static void do_xfer(int n, char **w) { (void)n; (void)w; printf("bad-op"); }
