#!/usr/bin/env python3
"""C19: runs harness/dtls.c on stdin and replays, per line, the entry points and ORACLE ANSWERS the harness observed
(everything left of '>' in each segment) through the Lean model M (driver op `tlsgate`); M's canonical segments are
appended to the line:

    <I segments> | wire … | hs …      ->      <I segments> | wire … | hs … || <M segments>

usage: dtls_pipe.py <h_dtls> <drv>     (exit status / stderr of the harness are passed through so that the runner's
crash attribution keeps working)"""
import subprocess, sys

h, drv = sys.argv[1], sys.argv[2]
data = sys.stdin.buffer.read()
r = subprocess.run([h], input=data, stdout=subprocess.PIPE, stderr=subprocess.PIPE)
out = r.stdout.decode(errors="replace")
lines = out.split("\n")
tail = lines.pop()          # text after the last newline: empty, or the partial line of a crash (dropped)
jobs, where = [], []
for i, l in enumerate(lines):
    if " | wire " in l:
        segs = l.split(" | ")[0].split(" ; ")
        jobs.append("tlsgate " + " ".join(s.split(">")[0] for s in segs))
        where.append(i)
if jobs:
    d = subprocess.run([drv], input=("\n".join(jobs) + "\n").encode(), stdout=subprocess.PIPE, stderr=subprocess.PIPE)
    res = d.stdout.decode(errors="replace").split("\n")
    for i, v in zip(where, res + ["M model-died"] * len(where)):
        v = v[2:] if v.startswith("M ") else v
        lines[i] = "%s || %s" % (lines[i], v)
sys.stdout.write("".join(l + "\n" for l in lines))
sys.stdout.flush()
sys.stderr.write(r.stderr.decode(errors="replace"))
sys.exit(r.returncode if r.returncode >= 0 else 128 - r.returncode)
