#!/usr/bin/env python3
"""C19: runs harness/dtls.c on stdin and replays, per line, the entry points and ORACLE ANSWERS the harness observed
(everything left of '>' in each segment) through the Lean model M (driver op `tlsgate`); M's canonical segments are
appended to the line:

    <I segments> | wire … | hs …      ->      <I segments> | wire … | hs … || <M segments>

and, when the harness reports the server-side credential callbacks it observed (` | cred <events>`, harness/dtls.c), the
events WITHOUT their results are replayed together with the line's configuration words through M's credential selection
and S (driver op `pskreplay`); the answer is appended as  ` || M <events with M's results> | S <events with S's results>`.

usage: dtls_pipe.py <h_dtls> <drv>     (exit status / stderr of the harness are passed through so that the runner's
crash attribution keeps working)"""
import subprocess, sys

h, drv = sys.argv[1], sys.argv[2]
data = sys.stdin.buffer.read()
r = subprocess.run([h], input=data, stdout=subprocess.PIPE, stderr=subprocess.PIPE)
out = r.stdout.decode(errors="replace")
lines = out.split("\n")
tail = lines.pop()          # text after the last newline: empty, or the partial line of a crash (dropped)
inputs = data.decode(errors="replace").split("\n")
jobs, where = [], []
for i, l in enumerate(lines):
    if " | wire " in l:
        parts = l.split(" | ")
        segs = parts[0].split(" ; ")
        jobs.append("tlsgate " + " ".join(s.split(">")[0] for s in segs))
        where.append(i)
        cred = [p for p in parts[1:] if p.startswith("cred ")]
        if cred and i < len(inputs):
            evs = [e if e == "ses" else ":".join(e.split(":")[:2]) for e in cred[0].split()[1:] if e != "-"]
            jobs.append("pskreplay " + " ".join(inputs[i].split()[1:]) + " :: " + " ".join(evs))
            where.append(i)
if jobs:
    d = subprocess.run([drv], input=("\n".join(jobs) + "\n").encode(), stdout=subprocess.PIPE, stderr=subprocess.PIPE)
    res = d.stdout.decode(errors="replace").split("\n")
    for i, v in zip(where, res + ["M model-died"] * len(where)):
        v = v[2:] if v.startswith("M ") and " | S " not in v else v
        lines[i] = "%s || %s" % (lines[i], v)
sys.stdout.write("".join(l + "\n" for l in lines))
sys.stdout.flush()
sys.stderr.write(r.stderr.decode(errors="replace"))
sys.exit(r.returncode if r.returncode >= 0 else 128 - r.returncode)
