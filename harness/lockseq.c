/* H-thread (a) harness for C13: drives the REAL lock code of the tree —
 *   coap_lock_lock_func / coap_lock_unlock_func   (src/coap_threadsafe.c, #included below so that its assert()s are
 *                                                  recorded instead of compiled out / fatal)
 *   coap_lock_lock, coap_lock_unlock, coap_lock_callback, coap_lock_callback_ret, coap_lock_callback_release,
 *   coap_lock_callback_ret_release               (include/coap3/coap_threadsafe_internal.h, used as macros)
 *   global_lock, coap_started                     (the library's own objects, from libcoap-3.a)
 * one operation sequence per input line, one canonical line out.
 *
 *   lkseq <rc> <tok>...                        one thread; after every token: pidset,in_callback,lock_count,held,fault
 *                                              ("held" is observed by a helper thread's trylock)
 *   lksched <rc> <p0>/<p1>/... <t0,t1,...>     real threads, one per program, run token by token in the order of the
 *                                              schedule; a turn given to a thread that cannot take the mutex (or has
 *                                              finished) prints `blk`; afterwards all threads are run round-robin to
 *                                              completion: `fin:<obs>` or `fin:stuck`
 *   lkcfg                                      runs the T1 config probes named on the command line
 *   lkapi <file> <func> / lkcb <file> <func> <callee> <k>   facts of the static scan of the tree (sites file)
 *
 * Tokens: L U (API entry/exit)  K+ K- (coap_lock_callback)  R+ R- (…_ret)  X+ X- (…_release)  Y+ Y- (…_ret_release)
 *         W+ W- (release window of an internal function: coap_lock_unlock(c) … coap_lock_lock(c, failed))
 *         S (application code calls the library's coap_startup() again).
 *   lkheld <file> <func>                       what the function does under the lock (static scan, sites file)
 *   lkio <rc> <scenario 0..3> <workers 1..3> <seed>   the real I/O loop doing TIMER-DRIVEN work (keepalive ping of an idle
 *                                              UDP / TCP client session, retransmission + NACK, idle server session
 *                                              expiry) while worker threads call the API and every callback re-enters it:
 *                                              `ok` | `ineffective` | `stuck threads=<io|w<i>>,… …` | `unserialised …`
 *   lkwin <file> <func>                        lock-balance facts of the static scan (sites file)
 *   lkeintr <rc>                               an I/O thread in coap_io_process() is interrupted by a signal while
 *                                              another thread holds the lock inside an event callback: `ok` |
 *                                              `unserialised early-return=<0|1> lock-owner-assert=<0|1>`
 *   lkctxfail <mode>                           coap_new_context() made to fail (mode 0: the listen address cannot be
 *                                              bound): `ret=null held=<the mutex is still taken afterwards>`
 * argv: <binary for the other rc variant | -> <sites file | -> [<name>=<probe binary>]...
 * This binary serves the lock variant it was compiled with (`rc` = COAP_THREAD_RECURSIVE_CHECK of its libcoap build) and
 * forwards lines for the other variant to the co-process.
 */
#include "coap3/coap_libcoap_build.h"
#include "hcommon.h"
#include <pthread.h>
#include <semaphore.h>
#include <signal.h>
#include <unistd.h>
#include <errno.h>
#include <setjmp.h>

#if COAP_THREAD_RECURSIVE_CHECK
#define MY_RC 1
#else
#define MY_RC 0
#endif

#if COAP_THREAD_SAFE
#define LOCKING 1
static volatile int h_fault;
static int h_mutex_lock(pthread_mutex_t *m);
#undef assert
#define assert(e) ((e) ? (void)0 : (void)(h_fault = 1))
#undef coap_mutex_lock
#define coap_mutex_lock(a) h_mutex_lock(a)
#include "coap_threadsafe.c"
#else
#define LOCKING 0
static volatile int h_fault;
#endif

static coap_context_t *ctx = (coap_context_t *)&h_fault;   /* only ever tested for non-NULL by the macros */

/* ------------------------------------------------------------------ observation */
static sem_t obs_req, obs_resp;
static volatile int obs_held;
#if LOCKING
static void *observer(void *arg) {
  (void)arg;
  for (;;) {
    sem_wait(&obs_req);
    if (pthread_mutex_trylock(&global_lock.mutex) == 0) {
      pthread_mutex_unlock(&global_lock.mutex);
      obs_held = 0;
    } else
      obs_held = 1;
    sem_post(&obs_resp);
  }
  return NULL;
}
#endif

static int first_out;
static void sep(void) { if (!first_out) fputc(' ', stdout); first_out = 0; }

static void print_obs(const char *prefix) {
  sep();
#if LOCKING
  static const pthread_t zero;
  sem_post(&obs_req);
  sem_wait(&obs_resp);
  printf("%s%d,%u,%u,%d,%d", prefix, memcmp((const void *)&global_lock.pid, &zero, sizeof(zero)) != 0,
         (unsigned)global_lock.in_callback, (unsigned)global_lock.lock_count, obs_held, h_fault);
#else
  /* locking is not compiled in: the macros expand to nothing, there is no lock to look at */
  printf("%s0,0,0,0,%d", prefix, h_fault);
#endif
}

/* ------------------------------------------------------------------ token programs */
enum { T_L, T_U, T_KI, T_KO, T_RI, T_RO, T_XI, T_XO, T_YI, T_YO, T_WI, T_WO, T_S, T_BAD };
static int tok_of(const char *s) {
  static const char *n[] = {"L", "U", "K+", "K-", "R+", "R-", "X+", "X-", "Y+", "Y-", "W+", "W-", "S"};
  for (int i = 0; i < T_BAD; i++) if (!strcmp(s, n[i])) return i;
  return T_BAD;
}

#define MAXTOK 4096
/* the same grammar as `wn` of the model */
static int well_nested(const int *t, int n) {
  static unsigned char st[MAXTOK + 1];   /* 0 = api, 1..4 = callback kind, 5 = release window */
  int sp = 0;
  for (int i = 0; i < n; i++) {
    int top = sp ? st[sp - 1] : -1;
    switch (t[i]) {
    case T_L: if (top == 0) return 0; st[sp++] = 0; break;
    case T_U: if (top != 0) return 0; sp--; break;
    case T_KI: case T_RI: case T_XI: case T_YI: case T_WI: if (top != 0) return 0; st[sp++] = (unsigned char)(1 + (t[i] - T_KI) / 2); break;
    case T_KO: case T_RO: case T_XO: case T_YO: case T_WO: if (top != 1 + (t[i] - T_KO) / 2) return 0; sp--; break;
    case T_S: if (top == 0) return 0; break;       /* application code only (top level or inside a callback) */
    default: return 0;
    }
  }
  return sp == 0;
}

typedef struct prog_t {
  int tok[MAXTOK];
  int n, pos;
  int idx;                 /* thread index, -1 = single-thread mode */
  sem_t go;                /* scheduler -> worker: your turn */
  volatile int finished;
  volatile int waiting;    /* 1 while the worker is waiting for the mutex */
} prog_t;

static __thread prog_t *self;
static jmp_buf seq_env;
static sem_t report;               /* worker -> scheduler */
static volatile int report_blocked;

/* called at the start of every token (multi-thread mode): wait for the scheduler */
static void turn_begin(prog_t *p) { if (p->idx >= 0) sem_wait(&p->go); }
/* called at the end of every token */
static void turn_end(prog_t *p) {
  if (p->idx >= 0) {
    if (p->pos == p->n) p->finished = 1;
    report_blocked = 0;
    sem_post(&report);
  } else
    print_obs("");
}

static volatile int h_real_block;   /* lkeintr: real threads inside the library: coap_mutex_lock() really blocks */
#if LOCKING
/* coap_mutex_lock() of the real lock functions.  Single-thread mode: a thread that would block on a mutex it cannot
 * get is a self-deadlock; report it and leave (the line is over).  Multi-thread mode: "blocked" is reported to the
 * scheduler and the acquisition is retried at the thread's next turn (turn-based semantics, as in the model). */
static int h_mutex_lock(pthread_mutex_t *m) {
  prog_t *p = self;
  if (h_real_block) return pthread_mutex_lock(m);
  for (;;) {
    if (pthread_mutex_trylock(m) == 0) return 0;
    if (!p || p->idx < 0) {
      sep(); printf("blk");
      longjmp(seq_env, 1);      /* the line is over; do_seq() cleans the lock up */
    }
    p->waiting = 1;
    report_blocked = 1;
    sem_post(&report);
    sem_wait(&p->go);
    p->waiting = 0;
  }
}
#endif

static void run_app(prog_t *p);

/* the application's callback function: announce the state inside, run nested API calls, consume the exit token */
static int cb_body(prog_t *p) {
  turn_end(p);              /* end of the `…+` token: we are now inside the callback */
  run_app(p);
  turn_begin(p);            /* the `…-` token: return to the macro */
  p->pos++;
  return 7;
}

static void run_lib(prog_t *p) {
  while (p->pos < p->n) {
    int t = p->tok[p->pos];
    volatile int r = 0;
    if (t != T_KI && t != T_RI && t != T_XI && t != T_YI && t != T_WI) return;
    turn_begin(p);
    p->pos++;
    switch (t) {
    case T_KI: coap_lock_callback(ctx, cb_body(p)); break;
    case T_RI: coap_lock_callback_ret(r, ctx, cb_body(p)); break;
    case T_XI: coap_lock_callback_release(ctx, cb_body(p), h_fault = 1); break;
    case T_YI: coap_lock_callback_ret_release(r, ctx, cb_body(p), h_fault = 1); break;
    case T_WI:              /* a release window of library code, as around epoll_wait() in coap_io_process_with_fds_lkd() */
      coap_lock_unlock(ctx);
      r = cb_body(p);
      coap_lock_lock(ctx, h_fault = 1);
      break;
    default: break;
    }
    (void)r;
    turn_end(p);            /* end of the `…-` token */
  }
}

static void run_app(prog_t *p) {
  while (p->pos < p->n && (p->tok[p->pos] == T_L || p->tok[p->pos] == T_S)) {
    turn_begin(p);
    if (p->tok[p->pos] == T_S) {   /* the application calls coap_startup() again: the library's own function */
      p->pos++;
      coap_startup();
      turn_end(p);
      continue;
    }
    p->pos++;
    coap_lock_lock(ctx, h_fault = 1);
    turn_end(p);
    run_lib(p);
    turn_begin(p);          /* well-nested: the next token is U */
    p->pos++;
    coap_lock_unlock(ctx);
    turn_end(p);
  }
}

static void reset_lock(void) {
#if LOCKING
  /* leave a clean lock behind whatever the line did (a defective macro can leave it taken) */
  if (pthread_mutex_trylock(&global_lock.mutex) != 0) { /* held by the main thread's run */ }
  pthread_mutex_unlock(&global_lock.mutex);
  memset(&global_lock.pid, 0, sizeof(global_lock.pid));
  global_lock.in_callback = 0;
  global_lock.lock_count = 0;
#endif
  h_fault = 0;
}

static int parse_prog(prog_t *p, char *s, const char *delim) {
  p->n = p->pos = 0;
  p->finished = 0; p->waiting = 0;
  for (char *w = strtok(s, delim); w; w = strtok(NULL, delim)) {
    int t = tok_of(w);
    if (t == T_BAD || p->n >= MAXTOK) return 0;
    p->tok[p->n++] = t;
  }
  return 1;
}

/* ------------------------------------------------------------------ lkseq */
static prog_t single;
static void do_seq(char **w, int n) {
  single.n = single.pos = 0; single.idx = -1;
  for (int i = 0; i < n; i++) {
    int t = tok_of(w[i]);
    if (t == T_BAD || single.n >= MAXTOK) { printf("bad-op"); return; }
    single.tok[single.n++] = t;
  }
  if (!well_nested(single.tok, single.n)) { printf("ill-nested"); return; }
  self = &single;
  first_out = 1;
  if (setjmp(seq_env) == 0)
    run_app(&single);
  reset_lock();
}

/* ------------------------------------------------------------------ lksched */
#define MAXTHR 8
static prog_t *thr;      /* allocated per line; abandoned (with its threads) if the line ends stuck */
static void *worker(void *arg) {
  prog_t *p = (prog_t *)arg;
  self = p;
  if (p->n == 0) { p->finished = 1; return NULL; }
  run_app(p);
  return NULL;
}

/* give thread i one turn; returns 1 if it executed a token, 0 if refused (blocked or finished) */
static int give_turn(int i) {
  if (thr[i].finished) return 0;
  sem_post(&thr[i].go);
  sem_wait(&report);
  return !report_blocked;
}

static void do_sched(char *progs, char *sched) {
  int n = 0, total = 0;
  char *ps[MAXTHR + 1];
  pthread_t tid[MAXTHR];
  for (char *q = progs; n <= MAXTHR;) {
    char *e = strchr(q, '/');
    ps[n++] = q;
    if (!e) break;
    *e = 0; q = e + 1;
  }
  if (n > MAXTHR) { printf("bad-op"); return; }
  thr = (prog_t *)calloc(MAXTHR, sizeof(prog_t));
  for (int i = 0; i < n; i++) {
    thr[i].idx = i;
    if (!parse_prog(&thr[i], ps[i], ",")) { printf("bad-op"); return; }
    thr[i].finished = thr[i].n == 0;
    total += thr[i].n;
  }
  int sch[4096], ns = 0;
  for (char *w = strtok(sched, ","); w; w = strtok(NULL, ",")) {
    int v = atoi(w);
    if (v < 0 || v >= n || ns >= 4096) { printf("ill-nested"); return; }
    sch[ns++] = v;
  }
  for (int i = 0; i < n; i++) if (!well_nested(thr[i].tok, thr[i].n)) { printf("ill-nested"); return; }
  for (int i = 0; i < n; i++) { sem_init(&thr[i].go, 0, 0); pthread_create(&tid[i], NULL, worker, &thr[i]); }
  first_out = 1;
  for (int k = 0; k < ns; k++) {
    if (give_turn(sch[k])) print_obs(""); else { sep(); printf("blk"); }
  }
  /* completion: round-robin from thread 0 until every thread has finished */
  {
    int fuel = (total + 1) * (n + 1), t = 0, stuck = 0;
    for (;;) {
      int all = 1;
      for (int i = 0; i < n; i++) if (!thr[i].finished) all = 0;
      if (all) break;
      if (fuel-- == 0) { stuck = 1; break; }
      give_turn(t);
      t = (t + 1) % n;
    }
    if (stuck) {
      sep(); printf("fin:stuck");
      reset_lock();   /* the threads are abandoned where they wait (each on its own semaphore) */
      return;
    }
    for (int i = 0; i < n; i++) pthread_join(tid[i], NULL);
    print_obs("fin:");
  }
  reset_lock();
  free(thr);
}

/* ------------------------------------------------------------------ co-process for the other lock variant */
static FILE *co_in, *co_out;
static void co_start(const char *path, const char *sites) {
  int a[2], b[2];
  if (pipe(a) || pipe(b)) return;
  pid_t pid = fork();
  if (pid == 0) {
    dup2(a[0], 0); dup2(b[1], 1);
    close(a[0]); close(a[1]); close(b[0]); close(b[1]);
    execl(path, path, "-", sites, (char *)NULL);
    _exit(127);
  }
  close(a[0]); close(b[1]);
  co_in = fdopen(a[1], "w");
  co_out = fdopen(b[0], "r");
}
static void co_forward(const char *line) {
  static char buf[1 << 16];
  if (!co_in) { printf("no-variant"); return; }
  fputs(line, co_in); fputc('\n', co_in); fflush(co_in);
  if (!fgets(buf, sizeof(buf), co_out)) { printf("crash variant-harness-died"); co_in = NULL; return; }
  buf[strcspn(buf, "\n")] = 0;
  fputs(buf, stdout);
}

/* ------------------------------------------------------------------ lkcfg / lkapi / lkcb */
static int nprobe; static char *probe_name[8], *probe_bin[8];
static void do_cfg(void) {
  for (int i = 0; i < nprobe; i++) {
    char buf[512], def[64] = "";
    int iff = 0, rc = 0, linked = 0, calls = 0, adv = 0;
    FILE *f = popen(probe_bin[i], "r");
    if (!f || !fgets(buf, sizeof(buf), f)) { printf("%s%s:probe-failed", i ? " " : "", probe_name[i]); if (f) pclose(f); continue; }
    pclose(f);
    char *d = strstr(buf, "\"define\": \"");
    if (d) { d += 11; size_t l = strcspn(d, "\""); if (l < sizeof(def)) { memcpy(def, d, l); def[l] = 0; } }
    char *q;
    if ((q = strstr(buf, "\"if\": "))) iff = atoi(q + 6);
    if ((q = strstr(buf, "\"rc\": "))) rc = atoi(q + 6);
    if ((q = strstr(buf, "\"linked\": "))) linked = atoi(q + 10);
    if ((q = strstr(buf, "\"mutex_calls\": "))) calls = atoi(q + 15);
    if ((q = strstr(buf, "\"advertised\": "))) adv = atoi(q + 14);
    printf("%s%s:def=%s,if=%d,linked=%d,adv=%d,rc=%d", i ? " " : "", probe_name[i], def[0] ? def : "-", iff, linked && calls > 0, adv, rc);
  }
}

static const char *sites_path;
static void do_site(const char *kind, char **w, int n) {
  /* sites file lines:  api <file> <func> <locks> <lkd> <unlocks>  |  cb <file> <func> <callee> <k> <wrapped>
   *                    win <file> <func> <held> <windows> <exits> <loops> <fail> <order> <quiet>
   *                    held <file> <func> <entry: held|takes> <calls under the lock> <of them to the public API> */
  char line[1024];
  FILE *f = sites_path ? fopen(sites_path, "r") : NULL;
  if (!f) { printf("no-sites"); return; }
  while (fgets(line, sizeof(line), f)) {
    char *v[12]; int m = h_words(line, v, 12);
    if (m < 1 || strcmp(v[0], kind)) continue;
    if (!strcmp(kind, "api") && m == 6 && n == 2 && !strcmp(v[1], w[0]) && !strcmp(v[2], w[1])) {
      printf("locks=%s lkd=%s unlocks=%s", v[3], v[4], v[5]); fclose(f); return;
    }
    if (!strcmp(kind, "win") && m == 10 && n == 2 && !strcmp(v[1], w[0]) && !strcmp(v[2], w[1])) {
      printf("held=%s windows=%s exits=%s loops=%s fail=%s order=%s quiet=%s", v[3], v[4], v[5], v[6], v[7], v[8], v[9]);
      fclose(f); return;
    }
    if (!strcmp(kind, "held") && m == 6 && n == 2 && !strcmp(v[1], w[0]) && !strcmp(v[2], w[1])) {
      printf("entry=%s calls=%s api_calls=%s", v[3], v[4], v[5]); fclose(f); return;
    }
    if (!strcmp(kind, "cb") && m == 6 && n == 4 && !strcmp(v[1], w[0]) && !strcmp(v[2], w[1]) && !strcmp(v[3], w[2]) && !strcmp(v[4], w[3])) {
      printf("wrapped=%s", v[5]); fclose(f); return;
    }
  }
  fclose(f);
  printf("no-such-site");
}

/* ------------------------------------------------------------------ lkctxfail: a failing coap_new_context() */
static void do_ctxfail(int mode) {
  coap_address_t a;
  coap_context_t *c;
  coap_address_init(&a);
  /* mode 0: an address family no socket can be created for -> coap_new_endpoint_lkd() fails -> `goto onerror` */
  a.addr.sa.sa_family = mode == 0 ? AF_UNSPEC : AF_INET;
  if (mode != 0) { printf("bad-op"); return; }
  c = coap_new_context(&a);
  first_out = 1;
  if (c) { printf("ret=ctx"); coap_free_context(c); return; }
#if LOCKING
  sem_post(&obs_req);
  sem_wait(&obs_resp);
  printf("ret=null held=%d", obs_held);
#else
  printf("ret=null held=0");
#endif
  reset_lock();
}

/* ------------------------------------------------------------------ lkeintr: a signal interrupts the I/O thread's wait
 * An I/O thread loops in coap_io_process(ctx, 200).  The main thread waits until it sits in epoll_wait() (inside the
 * release window of coap_io_process_with_fds_lkd), then calls coap_handle_event(): the event handler runs under the
 * library lock (coap_lock_callback_ret), sends SIGUSR1 to the I/O thread (no-op handler, no SA_RESTART: epoll_wait()
 * returns EINTR) and keeps the lock for 60 ms.  Serialised = the I/O thread does not come back from coap_io_process()
 * during that time and no lock-owner assert() of coap_lock_unlock_func fires.  `ok` needs >= 1 round in which
 * epoll_wait() really returned EINTR (counted by the --wrap'ed epoll_wait). */
#ifdef COAP_EPOLL_SUPPORT
#include <sys/epoll.h>
int __real_epoll_wait(int, struct epoll_event *, int, int);
static pthread_t ew_thread;
static volatile int ew_track, ew_in, ew_eintr;
int __wrap_epoll_wait(int epfd, struct epoll_event *ev, int max, int to) {
  int r, mine = ew_track && pthread_equal(pthread_self(), ew_thread);
  if (mine) ew_in = 1;
  r = __real_epoll_wait(epfd, ev, max, to);
  if (mine) { if (r < 0 && errno == EINTR) ew_eintr++; ew_in = 0; }
  return r;
}
static coap_context_t *ei_ctx;
static volatile int ei_stop, ei_in_handler, ei_early, ei_calls;
static void on_usr1(int sig) { (void)sig; }
static void *ei_io(void *arg) {
  (void)arg;
  self = NULL;
  while (!ei_stop) {
    coap_io_process(ei_ctx, 200);
    if (ei_in_handler) ei_early = 1;      /* came back while the other thread is inside its locked callback */
    ei_calls++;
  }
  return NULL;
}
static int ei_event(coap_session_t *session, const coap_event_t event) {
  int before = ei_calls;
  (void)session; (void)event;
  ei_in_handler = 1;                      /* the library lock is held by this (the main) thread */
  pthread_kill(ew_thread, SIGUSR1);
  for (int i = 0; i < 60 && ei_calls == before; i++) usleep(1000);
  if (ei_calls != before) ei_early = 1;
  ei_in_handler = 0;
  return 0;
}
static void do_eintr(void) {
#if LOCKING
  struct sigaction sa;
  int effective = 0;
  memset(&sa, 0, sizeof(sa));
  sa.sa_handler = on_usr1;
  sigaction(SIGUSR1, &sa, NULL);
  ei_ctx = coap_new_context(NULL);
  if (!ei_ctx) { printf("no-context"); return; }
  coap_register_event_handler(ei_ctx, ei_event);
  ei_stop = ei_in_handler = ei_early = ei_calls = 0; ew_in = ew_eintr = 0;
  h_real_block = 1;
  pthread_create(&ew_thread, NULL, ei_io, NULL);
  ew_track = 1;
  for (int round = 0; round < 12 && effective < 2 && !ei_early && !h_fault; round++) {
    int e0 = ew_eintr, c0;
    for (int i = 0; i < 1000 && !ew_in; i++) usleep(1000);
    usleep(3000);                         /* let it enter the system call */
    c0 = ei_calls;
    coap_handle_event(ei_ctx, COAP_EVENT_KEEPALIVE_FAILURE, NULL);
    for (int i = 0; i < 400 && ei_calls == c0; i++) usleep(1000);
    if (ew_eintr != e0) effective++;
  }
  ei_stop = 1;
  pthread_kill(ew_thread, SIGUSR1);
  pthread_join(ew_thread, NULL);
  ew_track = 0;
  {
    int fault = h_fault;
    h_real_block = 0;
    reset_lock();
    coap_free_context(ei_ctx);
    ei_ctx = NULL;
    if (ei_early || fault) printf("unserialised early-return=%d lock-owner-assert=%d", ei_early, fault);
    else if (!effective) printf("ineffective");
    else printf("ok");
  }
  reset_lock();
#else
  printf("ok");
#endif
}
#else
static void do_eintr(void) { printf("no-epoll"); }
#endif

/* ------------------------------------------------------------------ lkio: timer-driven work of the I/O thread
 * The I/O thread's coap_io_process() does more than wait: coap_io_prepare_io_lkd() sends keepalive pings for idle client
 * sessions, retransmits, gives up (NACK handler), expires idle server sessions (event handler) — all of it library code
 * running under the lock with in_callback = 0.  One scenario per line makes the real loop reach one of these branches
 * while 1..3 worker threads keep calling the public API (among them a repeated coap_startup()) and every callback
 * re-enters the API:
 *   0  keepalive (1 s) on an idle UDP client session whose peer is silent     evidence: the peer socket got the ping
 *   1  keepalive (1 s) on an idle TCP client session to the context's own TCP endpoint   evidence: pong handler ran
 *   2  CON to a silent peer, ack_timeout 1 s (the minimum): retransmission    evidence: MSG_RETRANSMITTED event
 *   3  session_timeout 1 s, a served UDP server session goes idle              evidence: SERVER_SESSION_DEL event
 * Judged: every thread keeps making progress (a watchdog: no thread's counter stands still for 3 s; all threads join),
 * no lock-owner assert() of the lock functions fires, no API call of a worker completes while the I/O thread is inside
 * a lock-KEEPING callback (coap_lock_callback / _ret).  Runs in a forked child: a deadlocked run is simply abandoned. */
#if LOCKING && defined(COAP_EPOLL_SUPPORT)
#include <poll.h>
#include <sys/wait.h>
#include <sys/socket.h>
#include <netinet/in.h>
#include <arpa/inet.h>
#include <time.h>
#define IO_MAXW 3
static coap_context_t *io_ctx;
static coap_session_t *io_sess;
static volatile int io_stop, io_overlap;
static volatile unsigned io_gen;                 /* odd while the I/O thread is inside a lock-keeping callback */
static volatile long io_prog[IO_MAXW + 1];       /* [0] = I/O thread */
static volatile int io_cnt[8];                   /* request response nack event ping pong session-del retransmitted */
static long io_now_ms(void) {
  struct timespec ts;
  clock_gettime(CLOCK_MONOTONIC, &ts);
  return ts.tv_sec * 1000L + ts.tv_nsec / 1000000L;
}
static void io_reenter(coap_session_t *sn) {
  /* public API from inside a callback: lock-taking wrappers and a repeated coap_startup() */
  if (sn) (void)coap_new_message_id(sn);
  coap_startup();
  (void)coap_can_exit(io_ctx);
}
static void io_kept(coap_session_t *sn, int which) {   /* body of a callback invoked with the lock kept */
  io_cnt[which]++;
  io_gen++;
  __sync_synchronize();
  io_reenter(sn);
  usleep(4000);
  __sync_synchronize();
  io_gen++;
}
static void io_hnd_get(coap_resource_t *r, coap_session_t *sn, const coap_pdu_t *req, const coap_string_t *q, coap_pdu_t *resp) {
  (void)r; (void)req; (void)q;
  io_cnt[0]++;
  io_reenter(sn);
  coap_pdu_set_code(resp, COAP_RESPONSE_CODE_CONTENT);
}
static coap_response_t io_hnd_resp(coap_session_t *sn, const coap_pdu_t *sent, const coap_pdu_t *rcv, const coap_mid_t mid) {
  (void)sent; (void)rcv; (void)mid;
  io_cnt[1]++;
  io_reenter(sn);
  return COAP_RESPONSE_OK;
}
static void io_hnd_nack(coap_session_t *sn, const coap_pdu_t *sent, const coap_nack_reason_t reason, const coap_mid_t mid) {
  (void)sent; (void)reason; (void)mid;
  io_kept(sn, 2);
}
static int io_hnd_event(coap_session_t *sn, const coap_event_t ev) {
  if (ev == COAP_EVENT_SERVER_SESSION_DEL) io_cnt[6]++;
  if (ev == COAP_EVENT_MSG_RETRANSMITTED) io_cnt[7]++;
  io_kept(sn, 3);
  return 0;
}
static void io_hnd_ping(coap_session_t *sn, const coap_pdu_t *rcv, const coap_mid_t mid) { (void)rcv; (void)mid; io_kept(sn, 4); }
static void io_hnd_pong(coap_session_t *sn, const coap_pdu_t *rcv, const coap_mid_t mid) { (void)rcv; (void)mid; io_kept(sn, 5); }

static void *io_loop(void *arg) {
  (void)arg;
  self = NULL;
  while (!io_stop) {
    coap_io_process(io_ctx, 50);
    io_prog[0]++;
  }
  return NULL;
}
typedef struct { int idx; unsigned seed; } io_warg_t;
static void *io_worker(void *arg) {
  io_warg_t *w = (io_warg_t *)arg;
  unsigned st = w->seed * 2654435761u + (unsigned)w->idx * 40503u + 1;
  self = NULL;
  while (!io_stop) {
    unsigned g0;
    st = st * 1103515245u + 12345u;
    g0 = io_gen;
    __sync_synchronize();
    switch ((st >> 16) % 4) {
    case 0: (void)coap_new_message_id(io_sess); break;
    case 1: (void)coap_can_exit(io_ctx); break;
    case 2: coap_startup(); (void)coap_can_exit(io_ctx); break;       /* "a second component initialises libcoap" */
    default: (void)coap_new_message_id(io_sess); (void)coap_can_exit(io_ctx); break;
    }
    __sync_synchronize();
    /* the call began and ended inside one and the same lock-keeping callback of the I/O thread */
    if ((g0 & 1) && io_gen == g0) io_overlap = 1;
    io_prog[w->idx]++;
    usleep(500 + (st >> 8) % 3000);
  }
  return NULL;
}
static void io_loopback(coap_address_t *a, int port) {
  coap_address_init(a);
  a->addr.sin.sin_family = AF_INET;
  a->addr.sin.sin_addr.s_addr = htonl(INADDR_LOOPBACK);
  a->addr.sin.sin_port = htons((uint16_t)port);
  a->size = sizeof(struct sockaddr_in);
}
static void io_send(coap_session_t *sn, coap_pdu_type_t type, unsigned tokv) {
  uint8_t tok[4];
  coap_pdu_t *p = coap_new_pdu(type, COAP_REQUEST_CODE_GET, sn);
  if (!p) return;
  memcpy(tok, &tokv, 4);
  coap_add_token(p, 4, tok);
  coap_add_option(p, COAP_OPTION_URI_PATH, 1, (const uint8_t *)"r");
  coap_send(sn, p);
}
static void io_child(int scen, int workers, unsigned seed, int out) {
  char res[200];
  pthread_t io, wt[IO_MAXW];
  io_warg_t wa[IO_MAXW];
  coap_address_t dst, any;
  coap_endpoint_t *ep = NULL;
  int peer = -1, effective = 0, stuck = -1;
  long t0, t_eff = 0, last_change[IO_MAXW + 1], last_val[IO_MAXW + 1];
  struct timespec dl;
#define IO_DONE(...) do { int n_ = snprintf(res, sizeof(res), __VA_ARGS__); if (write(out, res, (size_t)n_)) {} _exit(0); } while (0)
  alarm(0);
  h_real_block = 1;
  h_fault = 0;
  self = NULL;
  if (getenv("LKIO_LOG")) coap_set_log_level((coap_log_t)atoi(getenv("LKIO_LOG")));
  io_ctx = coap_new_context(NULL);
  if (!io_ctx) IO_DONE("no-context");
  coap_register_response_handler(io_ctx, io_hnd_resp);
  coap_register_nack_handler(io_ctx, io_hnd_nack);
  coap_register_event_handler(io_ctx, io_hnd_event);
  coap_register_ping_handler(io_ctx, io_hnd_ping);
  coap_register_pong_handler(io_ctx, io_hnd_pong);
  {
    coap_resource_t *r = coap_resource_init(coap_make_str_const("r"), 0);
    coap_register_request_handler(r, COAP_REQUEST_GET, io_hnd_get);
    coap_add_resource(io_ctx, r);
  }
  io_loopback(&any, 0);
  if (scen == 0 || scen == 2) {
    struct sockaddr_in sin;
    socklen_t sl = sizeof(sin);
    peer = socket(AF_INET, SOCK_DGRAM, 0);
    memset(&sin, 0, sizeof(sin));
    sin.sin_family = AF_INET;
    sin.sin_addr.s_addr = htonl(INADDR_LOOPBACK);
    if (peer < 0 || bind(peer, (struct sockaddr *)&sin, sizeof(sin)) < 0 || getsockname(peer, (struct sockaddr *)&sin, &sl) < 0)
      IO_DONE("setup-failed peer");
    io_loopback(&dst, ntohs(sin.sin_port));
    io_sess = coap_new_client_session(io_ctx, NULL, &dst, COAP_PROTO_UDP);
  } else {
    ep = coap_new_endpoint(io_ctx, &any, scen == 1 ? COAP_PROTO_TCP : COAP_PROTO_UDP);
    if (!ep) IO_DONE("setup-failed endpoint");
    dst = ep->bind_addr;
    io_sess = coap_new_client_session(io_ctx, NULL, &dst, scen == 1 ? COAP_PROTO_TCP : COAP_PROTO_UDP);
  }
  if (!io_sess) IO_DONE("setup-failed session");
  if (scen == 0 || scen == 1) coap_context_set_keepalive(io_ctx, 1);
  if (scen == 2) {
    coap_fixed_point_t t = {1, 0}, f = {1, 0};
    coap_session_set_ack_timeout(io_sess, t);
    coap_session_set_ack_random_factor(io_sess, f);
  }
  if (scen == 3) coap_context_set_session_timeout(io_ctx, 1);

  io_stop = io_overlap = 0; io_gen = 0;
  pthread_create(&io, NULL, io_loop, NULL);
  for (int i = 0; i < workers; i++) { wa[i].idx = i + 1; wa[i].seed = seed; pthread_create(&wt[i], NULL, io_worker, &wa[i]); }
  if (scen == 2) io_send(io_sess, COAP_MESSAGE_CON, seed | 1);
  if (scen == 3) io_send(io_sess, COAP_MESSAGE_NON, seed | 1);

  t0 = io_now_ms();
  for (int i = 0; i <= IO_MAXW; i++) { last_change[i] = t0; last_val[i] = -1; }
  for (;;) {
    long t;
    usleep(5000);
    t = io_now_ms();
    for (int i = 0; i <= workers; i++) {
      long v = io_prog[i];
      if (v != last_val[i]) { last_val[i] = v; last_change[i] = t; }
      else if (t - last_change[i] > 3000 && stuck < 0) stuck = i;
    }
    if (stuck >= 0 || h_fault || io_overlap) break;
    if (!effective) {
      char b[64];
      switch (scen) {
      case 0: effective = recv(peer, b, sizeof(b), MSG_DONTWAIT) >= 4; break;
      case 1: effective = io_cnt[5] > 0; break;
      case 2: effective = io_cnt[7] > 0; break;
      default: effective = io_cnt[6] > 0; break;
      }
      if (effective) t_eff = t;
    }
    if (effective && t - t_eff > 250) break;
    if (t - t0 > 12000) break;
  }
  io_stop = 1;
  clock_gettime(CLOCK_REALTIME, &dl);
  dl.tv_sec += 3;
  if (stuck < 0) {
    for (int i = 0; i < workers; i++) if (pthread_timedjoin_np(wt[i], NULL, &dl) && stuck < 0) stuck = i + 1;
    if (pthread_timedjoin_np(io, NULL, &dl) && stuck < 0) stuck = 0;
  }
  if (stuck >= 0) {
    /* name every thread that stands still (a self-deadlocked lock holder takes everybody else with it) */
    char who[64] = "";
    long t = io_now_ms();
    for (int i = 0; i <= workers; i++)
      if (i == stuck || (io_prog[i] == last_val[i] && t - last_change[i] > 2000))
        snprintf(who + strlen(who), sizeof(who) - strlen(who), "%s%s%.0d", who[0] ? "," : "", i ? "w" : "io", i);
    if (getenv("LKIO_HANG")) { fprintf(stderr, "lkio: stuck threads=%s, pid %d waits for a debugger\n", who, (int)getpid()); sleep(600); }
    IO_DONE("stuck threads=%s lock-owner-assert=%d", who, h_fault);
  }
  if (h_fault || io_overlap) IO_DONE("unserialised api-call-during-locked-callback=%d lock-owner-assert=%d", io_overlap, h_fault);
  coap_session_release(io_sess);
  coap_free_context(io_ctx);
  if (h_fault) IO_DONE("unserialised api-call-during-locked-callback=0 lock-owner-assert=1");
  IO_DONE(effective ? "ok" : "ineffective");
}
static void do_io(int scen, int workers, unsigned seed) {
  int pfd[2], st = 0;
  char buf[256];
  size_t len = 0;
  pid_t pid;
  long t0 = io_now_ms();
  if (scen < 0 || scen > 3 || workers < 1 || workers > IO_MAXW) { printf("bad-op"); return; }
  if (pipe(pfd)) { printf("no-pipe"); return; }
  fflush(stdout);
  /* The scenario runs in a FRESH process image (fork + exec of this binary): this process has other threads (observer,
   * workers of earlier lines), and a child that merely forked would inherit whatever allocator / libc locks they held at
   * that instant — its first malloc in a new thread then blocks for ever, which looks exactly like the deadlock looked for. */
  char a1[16], a2[16], a3[16];
  snprintf(a1, sizeof(a1), "%d", scen); snprintf(a2, sizeof(a2), "%d", workers); snprintf(a3, sizeof(a3), "%u", seed);
  pid = fork();
  if (pid < 0) { printf("no-fork"); return; }
  if (pid == 0) {
    char *av[] = { (char *)"h_lockseq", (char *)"--lkio-child", a1, a2, a3, NULL };
    dup2(pfd[1], 3);
    execv("/proc/self/exe", av);
    _exit(127);
  }
  close(pfd[1]);
  for (;;) {
    struct pollfd pf = { pfd[0], POLLIN, 0 };
    long left = 40000 - (io_now_ms() - t0);
    ssize_t r;
    if (left <= 0 || poll(&pf, 1, (int)left) <= 0) { kill(pid, SIGKILL); len = (size_t)snprintf(buf, sizeof(buf), "stuck child-timeout"); break; }
    r = read(pfd[0], buf + len, sizeof(buf) - 1 - len);
    if (r <= 0) break;
    len += (size_t)r;
  }
  close(pfd[0]);
  waitpid(pid, &st, 0);
  buf[len] = 0;
  if (!len) printf("crash child-status=%d", WIFEXITED(st) ? WEXITSTATUS(st) : 1000 + WTERMSIG(st));
  else fputs(buf, stdout);
}
#else
static void do_io(int scen, int workers, unsigned seed) { (void)scen; (void)workers; (void)seed; printf("ok"); }
#endif

/* ------------------------------------------------------------------ lksmoke (support: TSan multi-thread run) */
static const char *smoke_bin;
static void do_smoke(const char *n, const char *seed, const char *ms) {
  /* canonical result: the program's last stdout line (`ok` / `stuck …`) or, if ThreadSanitizer reported anything,
   * `tsan:` + the sorted distinct reports as <kind>@<global object | function> (no addresses, paths, line numbers) */
  static char cmd[1024], buf[4096], last[512], ent[16][256];
  char kind[128] = "", loc[128] = "";
  int nent = 0;
  if (!smoke_bin) { printf("no-smoke-binary"); return; }
  snprintf(last, sizeof(last), "no-output");
  snprintf(cmd, sizeof(cmd), "TSAN_OPTIONS='halt_on_error=0 report_signal_unsafe=0 exitcode=0' %s %d %d %d 2>&1",
           smoke_bin, atoi(n), atoi(seed), atoi(ms));
  FILE *f = popen(cmd, "r");
  if (!f) { printf("popen-failed"); return; }
  while (fgets(buf, sizeof(buf), f)) {
    char *q;
    buf[strcspn(buf, "\r\n")] = 0;
    if ((q = strstr(buf, "WARNING: ThreadSanitizer: "))) {
      q += 26;
      size_t l = strcspn(q, "(");
      while (l && q[l - 1] == ' ') l--;
      if (l >= sizeof(kind)) l = sizeof(kind) - 1;
      memcpy(kind, q, l); kind[l] = 0;
      for (char *c = kind; *c; c++) if (*c == ' ') *c = '-';
      loc[0] = 0;
    } else if ((q = strstr(buf, "Location is global '"))) {
      q += 20;
      size_t l = strcspn(q, "'");
      if (l >= sizeof(loc)) l = sizeof(loc) - 1;
      memcpy(loc, q, l); loc[l] = 0;
    } else if ((q = strstr(buf, "SUMMARY: ThreadSanitizer:"))) {
      char e[256], *in = strstr(q, " in ");
      snprintf(e, sizeof(e), "%s@%s", kind[0] ? kind : "report", !strcmp(loc, "global_lock") ? loc : in ? in + 4 : "?");
      int dup = 0;
      for (int i = 0; i < nent; i++) if (!strcmp(ent[i], e)) dup = 1;
      if (!dup && nent < 16) snprintf(ent[nent++], sizeof(ent[0]), "%s", e);
    } else if (buf[0] && !strstr(buf, "ThreadSanitizer") && buf[0] != '=' && buf[0] != ' ')
      snprintf(last, sizeof(last), "%s", buf);
  }
  pclose(f);
  if (nent) {
    qsort(ent, (size_t)nent, sizeof(ent[0]), (int (*)(const void *, const void *))strcmp);
    printf("tsan:");
    for (int i = 0; i < nent; i++) { for (char *c = ent[i]; *c; c++) if (*c == ' ') *c = '_'; printf("%s%s", i ? ";" : "", ent[i]); }
  } else { for (char *c = last; *c; c++) if (*c == ' ') *c = '_'; printf("%s", last); }
}

/* ------------------------------------------------------------------ main */
static void on_alarm(int sig) {
  static const char msg[] = " hang\n";
  (void)sig;
  if (write(1, msg, sizeof(msg) - 1)) {}
  _exit(0);
}

static void step(char *line) {
  static char copy[1 << 16];
  char *w[MAXTOK + 8];
  size_t l = strcspn(line, "\r\n");
  if (l >= sizeof(copy)) { printf("bad-op"); return; }
  memcpy(copy, line, l); copy[l] = 0;
  int n = h_words(line, w, MAXTOK + 8);
  if (n >= 2 && (!strcmp(w[0], "lkseq") || !strcmp(w[0], "lksched") || !strcmp(w[0], "lkeintr") || !strcmp(w[0], "lkio"))) {
    int rc = !strcmp(w[1], "1") ? 1 : !strcmp(w[1], "0") ? 0 : -1;
    if (rc < 0) { printf("bad-op"); return; }
    if (rc != MY_RC) { co_forward(copy); return; }
    alarm(!strcmp(w[0], "lkio") ? 60 : 20);
    if (!strcmp(w[0], "lkio")) { if (n == 5) do_io(atoi(w[2]), atoi(w[3]), (unsigned)atoi(w[4])); else printf("bad-op"); }
    else if (!strcmp(w[0], "lkeintr")) { if (n == 2) do_eintr(); else printf("bad-op"); }
    else if (!strcmp(w[0], "lkseq")) do_seq(w + 2, n - 2);
    else if (n == 4) do_sched(w[2], w[3]);
    else printf("bad-op");
    alarm(0);
    return;
  }
  if (n == 4 && !strcmp(w[0], "lksmoke")) { do_smoke(w[1], w[2], w[3]); return; }
  if (n == 1 && !strcmp(w[0], "lkcfg")) { do_cfg(); return; }
  if (n == 3 && !strcmp(w[0], "lkapi")) { do_site("api", w + 1, 2); return; }
  if (n == 5 && !strcmp(w[0], "lkcb")) { do_site("cb", w + 1, 4); return; }
  if (n == 3 && !strcmp(w[0], "lkwin")) { do_site("win", w + 1, 2); return; }
  if (n == 3 && !strcmp(w[0], "lkheld")) { do_site("held", w + 1, 2); return; }
  if (n == 2 && !strcmp(w[0], "lkctxfail")) { alarm(20); do_ctxfail(atoi(w[1])); alarm(0); return; }
  printf("bad-op");
}

int main(int argc, char **argv) {
  char *line = NULL; size_t cap = 0;
  pthread_t ot;
  setvbuf(stdout, NULL, _IOLBF, 0);
  signal(SIGALRM, on_alarm);
  signal(SIGPIPE, SIG_IGN);
#if LOCKING
  if (argc == 5 && !strcmp(argv[1], "--lkio-child")) {      /* re-executed by do_io(): one scenario, result to fd 3 */
    coap_startup();
    coap_set_log_level(COAP_LOG_EMERG);
    io_child(atoi(argv[2]), atoi(argv[3]), (unsigned)strtoul(argv[4], NULL, 10), 3);
    _exit(0);
  }
#endif
  sites_path = argc > 2 && strcmp(argv[2], "-") ? argv[2] : NULL;
  if (argc > 1 && strcmp(argv[1], "-")) co_start(argv[1], argc > 2 ? argv[2] : "-");
  for (int i = 3; i < argc && nprobe < 8; i++) {
    char *e = strchr(argv[i], '=');
    if (!e) continue;
    *e = 0;
    if (!strcmp(argv[i], "smoke")) { smoke_bin = e + 1; continue; }
    probe_name[nprobe] = argv[i]; probe_bin[nprobe] = e + 1; nprobe++;
  }
  coap_startup();
  coap_set_log_level(COAP_LOG_EMERG);
  sem_init(&obs_req, 0, 0); sem_init(&obs_resp, 0, 0); sem_init(&report, 0, 0);
#if LOCKING
  pthread_create(&ot, NULL, observer, NULL);
#else
  (void)ot;
#endif
  while (getline(&line, &cap, stdin) > 0) {
    step(line);
    fputc('\n', stdout);
  }
  free(line);
  return 0;
}
