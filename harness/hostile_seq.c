/* H-sim part of C02: sequences of hostile datagrams delivered to a live endpoint in a protocol state reached by
 * valid traffic, under ASan/UBSan, at a chosen log level (null log handler: all formatting code runs).
 *
 *   hseq <scenario> <loglevel> <src> <hex;hex;...>
 *
 * scenario  idle   server with resources /r (GET), /o (observable GET), /b (PUT, block-wise by libcoap), /L (GET, a 100-byte
 *                  body held in an exactly sized heap block and sent block-wise by libcoap), a proxy resource (own name
 *                  "myhost": a received Proxy-Uri is parsed in place in the PDU buffer) 
 *           osc    the server additionally holds an OSCORE security context (sender "server", recipient "client", Appendix B.2
 *                  enabled): a received OSCORE option is decoded, its kid / kid context looked up, the payload run through the AEAD
 *           b2     + a legitimate client has fetched block 0 (16 bytes) of /L: the server holds the body for the following blocks
 *           obs    + a legitimate client has registered an observation on /o (server holds a subscriber)
 *           blk    + a legitimate client has sent block 0 (M=1) of a Block1 PUT to /b (server holds a partial body)
 *           qb1    the server has RFC 9177 enabled (COAP_BLOCK_TRY_Q_BLOCK) and a legitimate client has sent block 0 (M=1, NON, Size1 = 80)
 *                  of a Q-Block1 PUT to /b: the server holds a partial Q-Block1 body (rec_blocks, payload sets, 4.08 machinery)
 *           qb2    the same server; a legitimate client has asked for /L with Q-Block2 (NUM 0, M=1, 16 bytes): the server has sent the
 *                  payload set and holds the body for "continue" / missing-block requests
 *           cli    the hostile datagrams go to a CLIENT session that has a Confirmable GET outstanding
 *           qc2    the hostile datagrams go to a CLIENT session in the middle of a Q-Block2 transfer: Q-Block negotiated (block mode
 *                  as after a successful probe: the probe itself would block in coap_client_delay_first() on the virtual clock),
 *                  NON GET /L with Q-Block2 (NUM 0, M 1, SZX 0) sent, the server has answered with the payload set (7 blocks of the
 *                  100-byte body) of which blocks 0 and 2 have reached the client.  A datagram with the 2-byte token abcd gets the
 *                  token the client really used on the wire (an on-path attacker knows it); the item `@k` is the server's genuine
 *                  datagram k of the payload set (k = 0..6: replays, reordering).  After the datagrams the virtual clock is moved
 *                  over NON_TIMEOUT / NON_RECEIVE_TIMEOUT 8 times with the client's timers run (recovery requests, expiry).
 * src       same | other   datagrams claim the legitimate client's address (same session) or another port
 *
 * Output: one token per datagram  `h<handler calls>:t<datagrams emitted>[:<K><code>:<mid>]` (first emission only:
 * K = C|N|A|R), then ` canary=ok|fail`: afterwards a fresh well-formed CON GET /r from a new client must be
 * answered 2.05 "hi" (scenario cli: the real answer to the outstanding GET must still reach the response handler).
 */
#include "sim_core.h"

static int n_handler;        /* application handler invocations (request handlers + response handler) */
static unsigned tx_mark;

static void null_log(coap_log_t level, const char *message) { (void)level; (void)message; }

static void hnd_get(coap_resource_t *r, coap_session_t *s, const coap_pdu_t *req, const coap_string_t *q, coap_pdu_t *rsp) {
  (void)r; (void)s; (void)req; (void)q;
  n_handler++;
  coap_pdu_set_code(rsp, COAP_RESPONSE_CODE_CONTENT);
  coap_add_data(rsp, 2, (const uint8_t *)"hi");
}
static void hnd_put(coap_resource_t *r, coap_session_t *s, const coap_pdu_t *req, const coap_string_t *q, coap_pdu_t *rsp) {
  (void)r; (void)s; (void)req; (void)q;
  n_handler++;
  coap_pdu_set_code(rsp, COAP_RESPONSE_CODE_CHANGED);
}
static void free_body(coap_session_t *s, void *p) { (void)s; free(p); }
static void hnd_get_large(coap_resource_t *r, coap_session_t *s, const coap_pdu_t *req, const coap_string_t *q, coap_pdu_t *rsp) {
  n_handler++;
  uint8_t *body = malloc(100);             /* exactly sized: a read behind the body is a heap-buffer-overflow for ASan */
  for (int i = 0; i < 100; i++) body[i] = (uint8_t)('A' + i % 26);
  coap_pdu_set_code(rsp, COAP_RESPONSE_CODE_CONTENT);
  if (!coap_add_data_large_response(r, s, req, rsp, q, COAP_MEDIATYPE_TEXT_PLAIN, -1, 0, 100, body, free_body, body))
    coap_pdu_set_code(rsp, COAP_RESPONSE_CODE_INTERNAL_ERROR);
}
static coap_response_t on_rsp(coap_session_t *s, const coap_pdu_t *sent, const coap_pdu_t *rcvd, const coap_mid_t mid) {
  n_handler++;
  return sim_on_response(s, sent, rcvd, mid);
}

/* A received datagram shorter than 256 bytes is parsed into a 256-byte PDU buffer: a read behind the message would land in the
 * unused rest of that buffer and go unnoticed.  The dispatch hook (COAP_VERIF_HOOKS) makes that rest inaccessible for ASan;
 * free() and a later realloc of the buffer reset the poisoning. */
#include <sanitizer/asan_interface.h>
#include <malloc.h>
extern int (*coap_verif_dispatch_hook)(coap_session_t *session, coap_pdu_t *pdu);
static int poison_slack(coap_session_t *session, coap_pdu_t *pdu) {
  (void)session;
  /* coap_pdu_parse() sets alloc_size = used_size without shrinking the buffer: ask the allocator for the real size */
  size_t real = malloc_usable_size(pdu->token - pdu->max_hdr_size);
  if (real > (size_t)pdu->max_hdr_size + pdu->used_size)
    ASAN_POISON_MEMORY_REGION(pdu->token + pdu->used_size, real - pdu->max_hdr_size - pdu->used_size);
  return 0;
}

static void h_init(void) {
  coap_verif_dispatch_hook = poison_slack;
  sim_global_init();
  coap_set_log_handler(null_log);
  coap_set_show_pdu_output(0);
}

static coap_context_t *srv, *cli, *cli2;
static coap_endpoint_t *ep;
static coap_session_t *cs;

static void deliver_pending_from(unsigned from) {
  /* deliver everything transmitted since `from` (both directions), repeatedly, bounded */
  unsigned k = from;
  int guard = 0;
  while (k < sim_ntx && guard++ < 64) { sim_deliver(&sim_tx[k]); k++; }
}

static int canary(int scen_cli) {
  int before;
  coap_session_t *c2;
  if (scen_cli) {
    c2 = cs;                               /* the attacked client session itself must still work */
  } else {
    cli2 = sim_new_context();
    coap_register_response_handler(cli2, on_rsp);
    c2 = sim_new_client(cli2, ntohs(ep->bind_addr.addr.sin.sin_port));
  }
  uint8_t tok[2] = {0xca, 0xfe};
  coap_pdu_t *p = sim_make_pdu(c2, COAP_MESSAGE_NON, COAP_REQUEST_CODE_GET, 0x7777, tok, 2, NULL, 0);
  coap_add_option(p, COAP_OPTION_URI_PATH, 1, (const uint8_t *)"r");
  before = n_handler;
  unsigned from = sim_ntx;
  sim_loglen = 0; if (sim_logbuf) sim_logbuf[0] = 0;
  coap_send(c2, p);
  deliver_pending_from(from);
  /* request handler + response handler ran, and the response handler logged 2.05 (= 69) with the canary token */
  return n_handler >= before + 2 && sim_logbuf && strstr(sim_logbuf, ":69:") && strstr(sim_logbuf, ":cafe:");
}

static void step(char *line) {
  char *w[8];
  int n = h_words(line, w, 8);
  if (n != 5 || strcmp(w[0], "hseq")) { printf("bad-op"); return; }
  const char *scen = w[1];
  int lvl = atoi(w[2]);
  int same = !strcmp(w[3], "same");
  int scen_qc2 = !strcmp(scen, "qc2");
  int scen_cli = !strcmp(scen, "cli") || scen_qc2;
  unsigned qc2_first = 0, qc2_n = 0;
  coap_set_log_level(COAP_LOG_EMERG);
  sim_reset();
  sim_log_events = 0;
  n_handler = 0;
  srv = sim_new_context(); cli = sim_new_context();
  coap_register_response_handler(cli, on_rsp);
  coap_context_set_block_mode(srv, COAP_BLOCK_USE_LIBCOAP | COAP_BLOCK_SINGLE_BODY | (scen[0] == 'q' ? COAP_BLOCK_TRY_Q_BLOCK : 0));
  ep = sim_new_endpoint(srv, 0);
  coap_resource_t *r = coap_resource_init(coap_make_str_const("r"), 0);
  coap_register_request_handler(r, COAP_REQUEST_GET, hnd_get);
  coap_add_resource(srv, r);
  coap_resource_t *o = coap_resource_init(coap_make_str_const("o"), 0);
  coap_register_request_handler(o, COAP_REQUEST_GET, hnd_get);
  coap_resource_set_get_observable(o, 1);
  coap_add_resource(srv, o);
  coap_resource_t *b = coap_resource_init(coap_make_str_const("b"), 0);
  coap_register_request_handler(b, COAP_REQUEST_PUT, hnd_put);
  coap_add_resource(srv, b);
  coap_resource_t *L = coap_resource_init(coap_make_str_const("L"), 0);
  coap_register_request_handler(L, COAP_REQUEST_GET, hnd_get_large);
  coap_add_resource(srv, L);
  const char *own[1] = { "myhost" };
  coap_resource_t *px = coap_resource_proxy_uri_init2(hnd_get, 1, own, 0);
  coap_add_resource(srv, px);
  if (!strcmp(scen, "osc")) {
    static const char conf[] = "master_secret,hex,\"0102030405060708090a0b0c0d0e0f10\"\nmaster_salt,hex,\"9e7ca92223786340\"\n"
                               "sender_id,ascii,\"server\"\nrecipient_id,ascii,\"client\"\nrfc8613_b_2,bool,true\n";
    coap_str_const_t c = { sizeof(conf) - 1, (const uint8_t *)conf };
    coap_oscore_conf_t *oc = coap_new_oscore_conf(c, NULL, NULL, 0);
    if (!oc || !coap_context_oscore_server(srv, oc)) { printf("no-oscore"); sim_free_all(0); return; }
  }
  if (scen_qc2)
    coap_context_set_block_mode(cli, COAP_BLOCK_USE_LIBCOAP | COAP_BLOCK_SINGLE_BODY | COAP_BLOCK_TRY_Q_BLOCK);
  cs = sim_new_client(cli, ntohs(ep->bind_addr.addr.sin.sin_port));
  uint8_t tok[2] = {0xab, 0xcd};
  if (!strcmp(scen, "obs")) {
    coap_pdu_t *p = sim_make_pdu(cs, COAP_MESSAGE_CON, COAP_REQUEST_CODE_GET, 0x1000, tok, 2, NULL, 0);
    coap_add_option(p, COAP_OPTION_OBSERVE, 0, NULL);
    coap_add_option(p, COAP_OPTION_URI_PATH, 1, (const uint8_t *)"o");
    unsigned from = sim_ntx;
    coap_send(cs, p);
    deliver_pending_from(from);
  } else if (!strcmp(scen, "blk") || !strcmp(scen, "blk0")) {
    uint8_t blk = 0x08 | 0x00;             /* NUM 0, M 1, SZX 0 (16 bytes) */
    coap_pdu_t *p = sim_make_pdu(cs, COAP_MESSAGE_CON, COAP_REQUEST_CODE_PUT, 0x1000, tok, 2, NULL, 0);
    coap_add_option(p, COAP_OPTION_URI_PATH, 1, (const uint8_t *)"b");
    coap_add_option(p, COAP_OPTION_BLOCK1, 1, &blk);
    if (strcmp(scen, "blk0")) {            /* blk: Size1 = 48 announced; blk0: no Size1 (a client need not send it) */
      uint8_t sz = 48;
      coap_add_option(p, COAP_OPTION_SIZE1, 1, &sz);
    }
    coap_add_data(p, 16, (const uint8_t *)"0123456789abcdef");
    unsigned from = sim_ntx;
    coap_send(cs, p);
    deliver_pending_from(from);
  } else if (!strcmp(scen, "b2")) {
    uint8_t blk = 0x00;                    /* NUM 0, SZX 0 (16 bytes) */
    coap_pdu_t *p = sim_make_pdu(cs, COAP_MESSAGE_CON, COAP_REQUEST_CODE_GET, 0x1000, tok, 2, NULL, 0);
    coap_add_option(p, COAP_OPTION_URI_PATH, 1, (const uint8_t *)"L");
    coap_add_option(p, COAP_OPTION_BLOCK2, 1, &blk);
    unsigned from = sim_ntx;
    coap_send(cs, p);
    deliver_pending_from(from);
  } else if (!strcmp(scen, "qb1")) {
    uint8_t blk = 0x08 | 0x00, sz = 80;    /* NUM 0, M 1, SZX 0 */
    coap_pdu_t *p = sim_make_pdu(cs, COAP_MESSAGE_NON, COAP_REQUEST_CODE_PUT, 0x1000, tok, 2, NULL, 0);
    coap_add_option(p, COAP_OPTION_URI_PATH, 1, (const uint8_t *)"b");
    coap_add_option(p, COAP_OPTION_Q_BLOCK1, 1, &blk);
    coap_add_option(p, COAP_OPTION_SIZE1, 1, &sz);
    coap_add_data(p, 16, (const uint8_t *)"0123456789abcdef");
    unsigned from = sim_ntx;
    coap_send(cs, p);
    deliver_pending_from(from);
  } else if (!strcmp(scen, "qb2")) {
    uint8_t blk = 0x08 | 0x00;             /* NUM 0, M 1 (send the whole payload set), SZX 0 */
    coap_pdu_t *p = sim_make_pdu(cs, COAP_MESSAGE_NON, COAP_REQUEST_CODE_GET, 0x1000, tok, 2, NULL, 0);
    coap_add_option(p, COAP_OPTION_URI_PATH, 1, (const uint8_t *)"L");
    coap_add_option(p, COAP_OPTION_Q_BLOCK2, 1, &blk);
    unsigned from = sim_ntx;
    coap_send(cs, p);
    deliver_pending_from(from);
  } else if (scen_qc2) {
    uint8_t blk = 0x08 | 0x00;             /* NUM 0, M 1, SZX 0 */
    cs->block_mode = (cs->block_mode | COAP_BLOCK_HAS_Q_BLOCK) & ~(COAP_BLOCK_TRY_Q_BLOCK | COAP_BLOCK_PROBE_Q_BLOCK);
    coap_pdu_t *p = sim_make_pdu(cs, COAP_MESSAGE_NON, COAP_REQUEST_CODE_GET, 0x1000, tok, 2, NULL, 0);
    coap_add_option(p, COAP_OPTION_URI_PATH, 1, (const uint8_t *)"L");
    coap_add_option(p, COAP_OPTION_Q_BLOCK2, 1, &blk);
    unsigned from = sim_ntx;
    coap_send(cs, p);
    if (sim_ntx != from + 1) { printf("no-request"); sim_free_all(0); return; }
    sim_deliver(&sim_tx[from]);            /* the request reaches the server: the payload set is sent */
    qc2_first = from + 1; qc2_n = sim_ntx - qc2_first;
    if (qc2_n < 3) { printf("no-payload-set"); sim_free_all(0); return; }
    sim_deliver(&sim_tx[qc2_first]);       /* block 0 and block 2 reach the client */
    sim_deliver(&sim_tx[qc2_first + 2]);
  } else if (scen_cli) {
    coap_pdu_t *p = sim_make_pdu(cs, COAP_MESSAGE_CON, COAP_REQUEST_CODE_GET, 0x1000, tok, 2, NULL, 0);
    coap_add_option(p, COAP_OPTION_URI_PATH, 1, (const uint8_t *)"r");
    coap_send(cs, p);                      /* sim_tx[0]; not delivered yet */
  } else if (strcmp(scen, "idle") && strcmp(scen, "osc")) { printf("bad-op"); sim_free_all(0); return; }

  coap_set_log_level((coap_log_t)lvl);
  n_handler = 0;
  coap_address_t src;
  if (same) coap_address_copy(&src, &cs->addr_info.local); else sim_addr(&src, 40000);
  /* the datagrams */
  char *save = NULL;
  int first = 1;
  for (char *h = strtok_r(w[4], ";", &save); h; h = strtok_r(NULL, ";", &save)) {
    size_t len; uint8_t *d;
    if (scen_qc2 && h[0] == '@') {         /* the server's genuine datagram k */
      unsigned k = (unsigned)atoi(h + 1);
      if (k >= qc2_n) { printf("bad-op"); sim_free_all(0); return; }
      len = sim_tx[qc2_first + k].len;
      d = malloc(len ? len : 1);
      memcpy(d, sim_tx[qc2_first + k].data, len);
    } else {
      d = h_unhex(h, &len);
      if (!d) { printf("bad-op"); sim_free_all(0); return; }
      if (scen_qc2 && len >= 6 && (d[0] & 0x0f) == 2 && d[4] == 0xab && d[5] == 0xcd) {
        /* token abcd -> the token of the client's request on the wire (sim_tx[qc2_first - 1]) */
        const sim_dgram_t *rq = &sim_tx[qc2_first - 1];
        size_t tkl = rq->data[0] & 0x0f;
        if (tkl <= 8 && rq->len >= 4 + tkl) {
          uint8_t *e = malloc(len + 8);
          memcpy(e, d, 4);
          e[0] = (uint8_t)((d[0] & 0xf0) | tkl);
          memcpy(e + 4, rq->data + 4, tkl);
          memcpy(e + 4 + tkl, d + 6, len - 6);
          free(d); d = e; len = len - 2 + tkl;
        }
      }
    }
    int h0 = n_handler;
    tx_mark = sim_ntx;
    if (scen_cli) sim_inject_session(cs, d, len); else sim_inject_endpoint(ep, &src, d, len);
    if (!first) fputc(' ', stdout);
    first = 0;
    printf("h%d:t%u", n_handler - h0, sim_ntx - tx_mark);
    if (sim_ntx > tx_mark) {
      const sim_dgram_t *t = &sim_tx[tx_mark];
      if (t->decoded) printf(":%c%d:%d", sim_kind[t->type], t->code, t->mid); else printf(":raw");
    }
    free(d);
  }
  if (scen_qc2) {
    /* the payload-set timer (NON_TIMEOUT / NON_RECEIVE_TIMEOUT): recovery requests for the missing blocks, then giving up
     * and expiry of the lg_crcv; bounded: 8 rounds of 2.5 s */
    for (int k = 0; k < 8; k++) {
      sim_now += 2500;
      sim_prepare(cli);
    }
  }
  coap_set_log_level(COAP_LOG_EMERG);
  printf(" canary=%s", canary(scen_cli) ? "ok" : "fail");
  sim_free_all(0);
}

H_MAIN_LOOP(step)
