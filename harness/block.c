/* Harness for C09 (block-wise transfer).
 *
 * Layer A (H-pure): the REAL functions of src/coap_block.c (static ones reached by #include-ing the file here)
 * on generated inputs, one op per line:
 *
 *   bopt <hex>                               coap_get_block_b / coap_opt_block_num on a Block1 option value
 *   benc <num> <m> <szx>                     coap_encode_var_safe((num<<4)|(m<<3)|szx) -> option -> coap_get_block_b
 *   setup <maxSize> <tokOpts> <num> <blk> <total>      setup_block_b(NULL, pdu, …)
 *   writeb <maxSize> <tokLen> <num> <szx> <dataLen>    coap_write_block_b_opt(NULL, …) on a PDU with token + Uri-Path "b"
 *   adl <maxSize> <tokLen> <blk|-> <maxBlk> <length>   coap_add_data_large_request on such a PDU
 *   adlx <q|r> <maxSize> <maxBlk> <key.blk.length.plen.af|x,…>   a SEQUENCE of coap_add_data_large_request (q) / _response (r) calls on
 *                                              ONE session (a body with the key of a transfer still in progress supersedes it), release
 *                                              callback invocations counted PER BODY; described at do_adlx
 *   slice <szx> <num> <bodyLen> <seed>       coap_add_block / coap_add_block_b_data
 *   rb <n,n,…> <probeMax> <totMax>           update_received_blocks sequence + check_* queries
 *   body <bodyLen> <seed> <off:len:total,…>  coap_block_build_body sequence
 *   srcv <szx> <bodyLen> <seed> <size1|-> <num:m[:len],…>   coap_handle_request_put_block sequence (SINGLE_BODY)
 *   srcv2 <maxBlk> <bodyLen> <seed> <size1|-> <num.m.szx[.len],…>  the same with a block size per step and a server block size limit
 *   srcv3 <maxBlk> <len1> <seed1> <len2> <seed2> <size1:0|1> <t.num.m.szx.r,…>   two interleaved Block1 transfers to ONE resource,
 *                                              told apart by Request-Tag only (r: 0 absent, 1 EMPTY, 2..9 / 10..17 = 1..8 bytes)
 *   crcv <single> <bodyLen> <seed> <size2|-> <num.m.szx.etag.fmt[.len[.s2]],…>   coap_handle_response_get_block sequence (client, Block2)
 *   crcvs <single> <bodyLen> <seed> <size2|-> <init> <u.num.m.szx.etag.fmt[.len[.s2]],…>   the same; u = 1: the response arrives with
 *                                              sent == NULL (NON / separate response, or no request outstanding); init = 1: the session
 *                                              starts with the lg_crcv coap_send() sets up for the request
 *   crcvo <single> <bodyLen> <seed> <size2|-> <init> <off> <u.num.m.szx.etag.fmt[.len[.s2]],…>   crcvs with a NUM offset: the Block2
 *                                              option on the wire carries num + off (<= 0xFFFFF), the payload is the slice at num
 *   crcvt <single> <bodyLen> <seed> <size2|-> <init> <tx0> <t.u.num.m.szx.etag.fmt|x<i>|n,…>   the same with TOKENS (described at do_crcvt)
 *   ctok <isReq> <tokhex|-> <apphex|-/state,…|-> <apphex|-/state,…|->   coap_check_update_token (token restoration in front of the NACK
 *                                              handler) on a session with these lg_crcv / lg_xmit entries (application token / state token)
 *   xmit2 <szx> <bodyLen> <seed> <mtu2> <num.szx,…>        coap_add_data_large_response + coap_handle_request_send_block sequence (server, Block2)
 *   xmit1 <cszx|-> <bodyLen> <seed> <mtu> <code.num.szx|code,…>   coap_add_data_large_request + coap_send + coap_handle_response_send_block sequence (client, Block1)
 *
 *   xmit1t <cszx|-> <bodyLen> <seed> <mtu> <non> <tx0> <p|x|y|t.code[.num.szx],…>   the client's Block1 send path with TOKENS and the whole
 *                                              handle_response() chain (described at do_xmit1t)
 *
 *   q408 / qenc / qset / qreq / qsend          RFC 9177 (Q-Block) ops of C02, described at do_q408 / do_qenc / do_qset / do_qreq / do_qsend
 *
 * Layer B (H-sim, sim_core.h): a real client and a real server context, virtual clock, scripted network:
 *
 *   xfer <dir> <bodyLen> <seed> <cszx> <sszx> <mtu> <con> <single> <schedule> [<bodyLen2> <seed2>]
 */
#define NDEBUG 1            /* as the shipped library build (RelWithDebInfo) */
#include "sim_core.h"
#include "coap_block.c"     /* the file under test: static functions become reachable */
#include <malloc.h>

/* Allocation wrap (link with --wrap=coap_malloc_type,--wrap=coap_realloc_type,--wrap=coap_free_type):
 *  - every byte libcoap allocates (PDUs, lg_crcv/lg_srcv/lg_xmit, body buffers) starts out as h_poison, so an op run twice
 *    with two poisons prints the same line iff nothing it prints depends on never-written memory (` UNINIT` otherwise);
 *  - h_live counts the allocations not yet freed: an op that ends with more than it started with leaked (` LEAK=<n>`). */
void *__real_coap_malloc_type(coap_memory_tag_t type, size_t size);
void *__real_coap_realloc_type(coap_memory_tag_t type, void *p, size_t size);
void __real_coap_free_type(coap_memory_tag_t type, void *p);
#define H_POISON_MAX ((size_t)1 << 26)      /* a body buffer of the size a hostile Size1/Size2 announces is left alone */
static uint8_t h_poison = 0xA5;
static long h_live;
/* allocation failure injection (op adlx): the next coap_malloc_type() with this tag returns NULL; -1 = off */
static int h_fail_tag = -1;
void *__wrap_coap_malloc_type(coap_memory_tag_t type, size_t size) {
  void *p;
  if (h_fail_tag >= 0 && (int)type == h_fail_tag) { h_fail_tag = -1; return NULL; }
  p = __real_coap_malloc_type(type, size);
  if (p) { if (size <= H_POISON_MAX) memset(p, h_poison, size); h_live++; }
  return p;
}
void *__wrap_coap_realloc_type(coap_memory_tag_t type, void *p, size_t size) {
  size_t old = p ? malloc_usable_size(p) : 0;      /* under ASan: the size asked for */
  void *q = __real_coap_realloc_type(type, p, size);
  if (q) {
    if (!p) h_live++;
    if (size > old && size - old <= H_POISON_MAX) memset((uint8_t *)q + old, h_poison, size - old);
  }
  return q;
}
void __wrap_coap_free_type(coap_memory_tag_t type, void *p) {
  if (p) h_live--;
  __real_coap_free_type(type, p);
}

static void h_init(void) { sim_global_init(); }

/* deterministic body: both sides generate it from (len, seed) */
static uint8_t *mk_body(size_t len, unsigned seed) {
  uint8_t *b = (uint8_t *)malloc(len ? len : 1);
  for (size_t i = 0; i < len; i++) b[i] = (uint8_t)(i * 131 + (i / 256) * 17 + seed);
  return b;
}

static coap_pdu_t *pdu_with_block1(const uint8_t *val, size_t len) {
  coap_pdu_t *p = coap_pdu_init(COAP_MESSAGE_CON, COAP_REQUEST_CODE_PUT, 1, 256);
  coap_add_option(p, COAP_OPTION_BLOCK1, len, val);
  return p;
}

static void do_bopt(const uint8_t *val, size_t len) {
  coap_pdu_t *p = pdu_with_block1(val, len);
  coap_block_b_t b;
  if (coap_get_block_b(NULL, p, COAP_OPTION_BLOCK1, &b))
    printf("ok %u %u %u %u %u", b.num, b.m, b.szx, b.aszx, b.chunk_size);
  else
    printf("rej");
  coap_delete_pdu(p);
}

static void do_benc(unsigned num, unsigned m, unsigned szx) {
  uint8_t buf[4];
  size_t n = coap_encode_var_safe(buf, sizeof(buf), (num << 4) | (m << 3) | szx);
  h_puthex(stdout, buf, n);
  fputc(' ', stdout);
  do_bopt(buf, n);
}

static void do_setup(size_t maxSize, size_t tokOpts, unsigned num, unsigned blk, size_t total) {
  coap_pdu_t *p = coap_pdu_init(COAP_MESSAGE_CON, COAP_REQUEST_CODE_PUT, 1, 64);
  coap_block_b_t b;
  memset(&b, 0, sizeof(b));
  b.defined = 1;
  p->max_size = maxSize; p->used_size = tokOpts; p->data = NULL;
  if (setup_block_b(NULL, p, &b, num, blk, total))
    printf("ok %u %u %u %u %u", b.num, b.m, b.szx, b.aszx, b.chunk_size);
  else
    printf("fail");
  p->used_size = 0;
  coap_delete_pdu(p);
}

static void dump_block1(coap_pdu_t *p) {
  coap_opt_iterator_t oi;
  coap_opt_t *o = coap_check_option(p, COAP_OPTION_BLOCK1, &oi);
  if (!o) { printf("-"); return; }
  printf("v");
  h_puthex(stdout, coap_opt_value(o), coap_opt_length(o));
}

static coap_pdu_t *req_pdu(size_t maxSize, size_t tokLen) {
  static const uint8_t tok[8] = {0xa1, 0xa2, 0xa3, 0xa4, 0xa5, 0xa6, 0xa7, 0xa8};
  coap_pdu_t *p = coap_pdu_init(COAP_MESSAGE_CON, COAP_REQUEST_CODE_PUT, 1, maxSize);
  if (!p) return NULL;
  if (!coap_add_token(p, tokLen, tok) || !coap_add_option(p, COAP_OPTION_URI_PATH, 1, (const uint8_t *)"b")) {
    coap_delete_pdu(p);
    return NULL;
  }
  return p;
}

static void do_writeb(size_t maxSize, size_t tokLen, unsigned num, unsigned szx, size_t dataLen) {
  coap_pdu_t *p = req_pdu(maxSize, tokLen);
  coap_block_b_t b;
  int r;
  if (!p) { printf("nopdu"); return; }
  memset(&b, 0, sizeof(b));
  b.num = num; b.szx = b.aszx = szx; b.defined = 1;
  r = coap_write_block_b_opt(NULL, &b, COAP_OPTION_BLOCK1, p, dataLen);
  if (r == 1) { printf("ok %u %u %u %u %u ", b.num, b.m, b.szx, b.aszx, b.chunk_size); dump_block1(p); }
  else if (r == -2) printf("illegal");
  else if (r == -3) printf("nospace");
  else printf("ret%d", r);
  coap_delete_pdu(p);
}

static int rel_count;
static void rel_cb(coap_session_t *s, void *app) { (void)s; (void)app; rel_count++; }

static void do_adl(size_t maxSize, size_t tokLen, int blk, unsigned maxBlk, size_t length) {
  sim_reset();
  sim_log_enabled = 0;
  coap_context_t *ctx = sim_new_context();
  coap_session_t *s = sim_new_client(ctx, 5683);
  coap_pdu_t *p;
  uint8_t *body = mk_body(length, 1);
  int r;
  coap_context_set_block_mode(ctx, COAP_BLOCK_USE_LIBCOAP | COAP_BLOCK_SINGLE_BODY);
  if (maxBlk) coap_context_set_max_block_size(ctx, (size_t)1 << (maxBlk + 4));
  s->block_mode = ctx->block_mode;
  p = req_pdu(maxSize, tokLen);
  if (!p) { printf("nopdu"); goto out; }
  if (blk >= 0) {
    uint8_t buf[4];
    coap_add_option(p, COAP_OPTION_BLOCK1, coap_encode_var_safe(buf, sizeof(buf), (unsigned)blk), buf);
  }
  rel_count = 0;
  r = coap_add_data_large_request(s, p, length, body, rel_cb, NULL);
  /* a refused call must not leave the caller's PDU pointing at the lg_xmit it allocated and freed again */
  if (!r) printf("fail%s rel=%d", p->lg_xmit ? " DANGLING" : "", rel_count);
  else {
    size_t plen = 0; const uint8_t *pd = NULL;
    coap_get_data(p, &plen, &pd);
    printf("ok lg=%d blk=%d b1=", p->lg_xmit ? 1 : 0, p->lg_xmit ? (int)p->lg_xmit->blk_size : -1);
    dump_block1(p);
    printf(" pl=%zu used=%zu fits=%d", plen, p->used_size, p->used_size <= maxSize);
    if (plen && memcmp(pd, body, plen)) printf(" WRONGDATA");
  }
  coap_delete_pdu(p);
out:
  sim_free_all(0);
  sim_log_enabled = 1;
  if (p && r) printf(" rel=%d", rel_count);
  free(body);
}

/* adlx <q|r> <maxSize> <maxBlk> <item,…> : the release callback over a SEQUENCE of coap_add_data_large_*() calls on one session.
 * item `key.blk.length.plen.af` = one call handing libcoap a new body (bodies are numbered 0,1,… in call order, app_ptr points at
 * the body's own invocation counter):
 *   q: PUT on a <maxSize>-byte PDU, token = tokLenOf(key) bytes 0xa0+key (tokLenOf(0) = 0, else key*3%8+1: distinct keys are
 *      distinct tokens), Uri-Path of <plen> bytes, Block1 (0,0,blk) unless blk = 7, coap_add_data_large_request();
 *   r: response (4-byte token) on a <maxSize>-byte PDU to a GET for resource key%2 carrying Block2 (0,0,blk) and Request-Tag
 *      (key/2)%3: absent / 0x71 / 0x72, query NULL, the response carrying a Location-Path of <plen> bytes (0: none; room for
 *      the 2-byte Content-Format the function inserts is required: nopdu otherwise), coap_add_data_large_response();
 *   af: allocation that fails during the call: 0 none, 1 the lg_xmit, 2 the application token copy (coap_new_binary), 3 the
 *      skeleton PDU copy.  The PDU is deleted after the call (the lg_xmit stays linked, as after coap_send()).
 * item `x` = every linked lg_xmit expires (coap_block_check_lg_xmit_timeouts far in the future).
 * Per item: k<blk_size|-> (returned 1; blk_size of the lg_xmit the PDU points to) | f (returned 0) | nopdu | x, then
 * /<key:body+…|-> the session's lg_xmit list from the head (key recovered from the real token / resource + Request-Tag, body from
 * app_ptr), then /<one digit per body so far: how often its release callback has run>.  ` free=` the digits after the session
 * was freed.  DANGLING: a refused call left pdu->lg_xmit set. */
#define ADLX_MAX 32
static void hnd_dummy(coap_resource_t *r, coap_session_t *s, const coap_pdu_t *req, const coap_string_t *q, coap_pdu_t *rsp);
static int adlx_cnt[ADLX_MAX];
static void adlx_cb(coap_session_t *s, void *app) { (void)s; (*(int *)app)++; }
static size_t adlx_toklen(unsigned key) { return key == 0 ? 0 : (key * 3) % 8 + 1; }
static void adlx_digits(int n) {
  if (!n) { fputc('-', stdout); return; }
  for (int i = 0; i < n; i++) fputc(adlx_cnt[i] > 9 ? '9' : '0' + adlx_cnt[i], stdout);
}
static void adlx_list(coap_session_t *s, coap_resource_t **res) {
  coap_lg_xmit_t *x;
  int first = 1;
  if (!s->lg_xmit) { fputc('-', stdout); return; }
  LL_FOREACH(s->lg_xmit, x) {
    int key = -1, body = x->app_ptr ? (int)((int *)x->app_ptr - adlx_cnt) : -1;
    if (COAP_PDU_IS_REQUEST(&x->pdu)) {
      const coap_binary_t *t = x->b.b1.app_token;
      if (t && t->length == 0) key = 0;
      else if (t) { key = t->s[0] - 0xa0; if (key < 0 || key > 15 || adlx_toklen((unsigned)key) != t->length) key = -1; }
    } else {
      int r = x->b.b2.resource == res[0] ? 0 : x->b.b2.resource == res[1] ? 1 : -1;
      int g = !x->b.b2.rtag_set ? 0 : (x->b.b2.rtag_length == 1 && x->b.b2.rtag[0] == 0x71) ? 1 :
              (x->b.b2.rtag_length == 1 && x->b.b2.rtag[0] == 0x72) ? 2 : -1;
      if (r >= 0 && g >= 0) key = r + 2 * g;
    }
    printf("%s%d:%d", first ? "" : "+", key, body);
    first = 0;
  }
}

static void do_adlx(int isReq, size_t maxSize, unsigned maxBlk, char *seq) {
  sim_reset();
  sim_log_enabled = 0;
  coap_context_t *ctx = sim_new_context();
  coap_session_t *s = sim_new_client(ctx, 5683);
  coap_resource_t *res[2];
  uint8_t *bodies[ADLX_MAX];
  int nb = 0, k = 0;
  char *tk, *save = NULL;
  res[0] = coap_resource_init(coap_make_str_const("b0"), 0);
  res[1] = coap_resource_init(coap_make_str_const("b1"), 0);
  for (int i = 0; i < 2; i++) { coap_register_request_handler(res[i], COAP_REQUEST_GET, hnd_dummy); coap_add_resource(ctx, res[i]); }
  coap_context_set_block_mode(ctx, COAP_BLOCK_USE_LIBCOAP | COAP_BLOCK_SINGLE_BODY);
  if (maxBlk) coap_context_set_max_block_size(ctx, (size_t)1 << (maxBlk + 4));
  s->block_mode = ctx->block_mode;
  memset(adlx_cnt, 0, sizeof(adlx_cnt));
  for (tk = strtok_r(seq, ",", &save); tk; tk = strtok_r(NULL, ",", &save), k++) {
    unsigned key, blk, plen, af;
    size_t length;
    uint8_t tok[8], buf[4], path[256];
    coap_pdu_t *p = NULL, *req = NULL;
    int r = 0, ok = 1;
    if (k) fputc(',', stdout);
    if (!strcmp(tk, "x")) {
      coap_tick_t rem;
      sim_now += 1000000;
      coap_lock_lock(ctx, break);
      coap_block_check_lg_xmit_timeouts(s, sim_now, &rem);
      coap_lock_unlock(ctx);
      printf("x/");
      adlx_list(s, res); fputc('/', stdout); adlx_digits(nb);
      continue;
    }
    if (sscanf(tk, "%u.%u.%zu.%u.%u", &key, &blk, &length, &plen, &af) != 5 || key > 7 || blk > 7 || plen > 255 || af > 3 ||
        nb >= ADLX_MAX || (!isReq && (blk > 6 || key > 5))) { printf("bad-op"); break; }
    memset(path, 'p', sizeof(path));
    if (isReq) {
      size_t tl = adlx_toklen(key);
      memset(tok, 0xa0 + (int)key, sizeof(tok));
      p = coap_pdu_init(COAP_MESSAGE_CON, COAP_REQUEST_CODE_PUT, (coap_mid_t)(1 + k), maxSize);
      ok = p && coap_add_token(p, tl, tok) && (!plen || coap_add_option(p, COAP_OPTION_URI_PATH, plen, path)) &&
           (blk == 7 || coap_add_option(p, COAP_OPTION_BLOCK1, coap_encode_var_safe(buf, sizeof(buf), blk), buf));
    } else {
      uint8_t rt = (uint8_t)(0x70 + (key / 2) % 3);
      memset(tok, 0xa1, sizeof(tok));
      req = coap_pdu_init(COAP_MESSAGE_CON, COAP_REQUEST_CODE_GET, (coap_mid_t)(1 + k), 256);
      p = coap_pdu_init(COAP_MESSAGE_ACK, COAP_RESPONSE_CODE_CONTENT, (coap_mid_t)(1 + k), maxSize);
      ok = req && p && coap_add_token(req, 4, tok) &&
           coap_add_option(req, COAP_OPTION_URI_PATH, 2, (const uint8_t *)(key % 2 ? "b1" : "b0")) &&
           coap_add_option(req, COAP_OPTION_BLOCK2, coap_encode_var_safe(buf, sizeof(buf), blk), buf) &&
           ((key / 2) % 3 == 0 || coap_add_option(req, COAP_OPTION_RTAG, 1, &rt)) && coap_add_token(p, 4, tok) &&
           (!plen || coap_add_option(p, COAP_OPTION_LOCATION_PATH, plen, path)) && p->used_size + 2 <= p->max_size;
    }
    if (!ok) {
      printf("nopdu/");
    } else {
      bodies[nb] = mk_body(length, (unsigned)nb);
      h_fail_tag = af == 1 ? (int)COAP_LG_XMIT : af == 2 ? (int)COAP_STRING : af == 3 ? (int)COAP_PDU_BUF : -1;
      if (isReq) r = coap_add_data_large_request(s, p, length, bodies[nb], adlx_cb, &adlx_cnt[nb]);
      else r = coap_add_data_large_response(res[key % 2], s, req, p, NULL, COAP_MEDIATYPE_APPLICATION_OCTET_STREAM, -1, 0, length,
                                            bodies[nb], adlx_cb, &adlx_cnt[nb]);
      h_fail_tag = -1;
      nb++;
      if (r) { if (p->lg_xmit) printf("k%d/", (int)p->lg_xmit->blk_size); else printf("k-/"); }
      else printf("f%s/", p->lg_xmit ? " DANGLING" : "");
    }
    if (p) coap_delete_pdu(p);
    if (req) coap_delete_pdu(req);
    adlx_list(s, res); fputc('/', stdout); adlx_digits(nb);
  }
  sim_free_all(0);
  sim_log_enabled = 1;
  printf(" free="); adlx_digits(nb);
  for (int i = 0; i < nb; i++) free(bodies[i]);
}

static void do_slice(unsigned szx, unsigned num, size_t bodyLen, unsigned seed) {
  uint8_t *body = mk_body(bodyLen, seed);
  coap_pdu_t *p = coap_pdu_init(COAP_MESSAGE_CON, COAP_REQUEST_CODE_PUT, 1, 2048);
  coap_pdu_t *q = coap_pdu_init(COAP_MESSAGE_CON, COAP_REQUEST_CODE_PUT, 1, 2048);
  coap_block_b_t b;
  size_t l1 = 0, l2 = 0; const uint8_t *d1 = NULL, *d2 = NULL;
  int r1 = coap_add_block(p, bodyLen, body, num, (unsigned char)szx), r2;
  memset(&b, 0, sizeof(b));
  b.num = num; b.szx = b.aszx = szx; b.defined = 1;
  r2 = coap_add_block_b_data(q, bodyLen, body, &b);
  if (r1) coap_get_data(p, &l1, &d1);
  if (r2) coap_get_data(q, &l2, &d2);
  if (r1 != r2 || l1 != l2 || (l1 && memcmp(d1, d2, l1))) printf("differ ");
  if (!r1) printf("none");
  else printf("ok %zu %zu %08x", d1 ? (size_t)(d1 - body) * 0 + (size_t)num * ((size_t)1 << (szx + 4)) : 0, l1, sim_fnv(d1, l1));
  coap_delete_pdu(p); coap_delete_pdu(q); free(body);
}

static void dump_ranges(const coap_rblock_t *rb) {
  if (!rb->used) { printf("-"); return; }
  for (uint32_t i = 0; i < rb->used; i++) printf("%s%u-%u", i ? "," : "", rb->range[i].begin, rb->range[i].end);
}

/* rb <n,n,…> <probeMax> <totMax> */
static void do_rb(char *seq, unsigned probeMax, unsigned totMax) {
  coap_rblock_t rb;
  char *tok, *save = NULL;
  memset(&rb, 0, sizeof(rb));
  printf("r=");
  if (strcmp(seq, "-"))
    for (tok = strtok_r(seq, ",", &save); tok; tok = strtok_r(NULL, ",", &save)) {
      coap_rblock_t before = rb;
      int r = update_received_blocks(&rb, (uint32_t)strtoul(tok, NULL, 10));
      fputc(r ? '1' : '0', stdout);
      if (!r && (before.used != rb.used || memcmp(before.range, rb.range, sizeof(rb.range)))) fputc('!', stdout);
    }
  printf(" ranges=");
  dump_ranges(&rb);
  printf(" recv=");
  for (unsigned k = 0; k <= probeMax; k++) fputc(check_if_received_block(&rb, k) ? '1' : '0', stdout);
  printf(" all=");
  for (unsigned t = 0; t <= totMax; t++) fputc(check_all_blocks_in(&rb, t) ? '1' : '0', stdout);
  printf(" next=");
  for (unsigned k = 0; k <= probeMax + 1; k++) fputc(check_if_next_block(&rb, k) ? '1' : '0', stdout);
}

/* body <bodyLen> <seed> <off:len:total,…> : never-written bytes are printed as 00 */
static void do_body(size_t bodyLen, unsigned seed, char *seq) {
  uint8_t *body = mk_body(bodyLen, seed);
  coap_binary_t *bin = NULL;
  uint8_t *written = NULL; size_t wlen = 0;
  char *tok, *save = NULL;
  int failed = 0;
  if (strcmp(seq, "-"))
    for (tok = strtok_r(seq, ",", &save); tok && !failed; tok = strtok_r(NULL, ",", &save)) {
      size_t off, len, total;
      if (sscanf(tok, "%zu:%zu:%zu", &off, &len, &total) != 3 || off + len > bodyLen) { printf("bad-op"); goto out; }
      bin = coap_block_build_body(bin, len, body + off, off, total);
      if (!bin) { failed = 1; break; }
      /* mirror the length the buffer has now; bytes beyond a shrink are forgotten */
      if (bin->length != wlen) {
        written = (uint8_t *)realloc(written, bin->length ? bin->length : 1);
        if (bin->length > wlen) memset(written + wlen, 0, bin->length - wlen);
        wlen = bin->length;
      }
      if (off + len <= wlen) memset(written + off, 1, len);
    }
  if (!bin) printf("null");
  else {
    printf("len=%zu ", bin->length);
    for (size_t i = 0; i < bin->length; i++) if (!written[i]) bin->s[i] = 0;
    printf("h=%08x", sim_fnv(bin->s, bin->length));
    coap_delete_binary(bin);
  }
out:
  free(written); free(body);
}

static void hnd_dummy(coap_resource_t *r, coap_session_t *s, const coap_pdu_t *req, const coap_string_t *q, coap_pdu_t *rsp) {
  (void)r; (void)s; (void)req; (void)q; (void)rsp;
}

/* srcv <szx> <bodyLen> <seed> <size1|-> <num:m[:len],…> */
static void do_srcv(unsigned szx, size_t bodyLen, unsigned seed, long size1, char *seq) {
  sim_reset();
  sim_log_enabled = 0;
  uint8_t *body = mk_body(bodyLen, seed);
  coap_context_t *ctx = sim_new_context();
  coap_session_t *s = sim_new_client(ctx, 5683);
  coap_resource_t *res = coap_resource_init(coap_make_str_const("b"), 0);
  coap_string_t *uri = coap_new_string(1);
  char *tok, *save = NULL;
  int first = 1;
  size_t chunk = (size_t)1 << (szx + 4);
  coap_register_request_handler(res, COAP_REQUEST_PUT, hnd_dummy);
  coap_add_resource(ctx, res);
  coap_context_set_block_mode(ctx, COAP_BLOCK_USE_LIBCOAP | COAP_BLOCK_SINGLE_BODY);
  s->block_mode = ctx->block_mode;
  uri->s[0] = 'b';
  for (tok = strtok_r(seq, ",", &save); tok; tok = strtok_r(NULL, ",", &save)) {
    unsigned num, m; long len = -1;
    int nf = sscanf(tok, "%u:%u:%ld", &num, &m, &len);
    size_t off = (size_t)num * chunk, plen;
    uint8_t buf[4], tk[2] = {0x77, (uint8_t)num};
    coap_pdu_t *req, *rsp;
    int added = 0, ret;
    coap_lg_srcv_t *free_lg = NULL;
    if (nf < 2) { printf("bad-op"); break; }
    if (off > bodyLen) off = bodyLen;
    plen = bodyLen - off < chunk ? bodyLen - off : chunk;
    if (len >= 0 && (size_t)len <= bodyLen - off) plen = (size_t)len;
    req = coap_pdu_init(COAP_MESSAGE_CON, COAP_REQUEST_CODE_PUT, (coap_mid_t)(100 + num), 2048);
    rsp = coap_pdu_init(COAP_MESSAGE_ACK, 0, (coap_mid_t)(100 + num), 2048);
    coap_add_token(req, 2, tk);
    coap_add_token(rsp, 2, tk);
    coap_add_option(req, COAP_OPTION_URI_PATH, 1, (const uint8_t *)"b");
    coap_add_option(req, COAP_OPTION_BLOCK1, coap_encode_var_safe(buf, sizeof(buf), (num << 4) | (m << 3) | szx), buf);
    if (size1 >= 0) coap_add_option(req, COAP_OPTION_SIZE1, coap_encode_var_safe(buf, sizeof(buf), (unsigned)size1), buf);
    if (plen) coap_add_data(req, plen, body + off);
    fflush(stdout);
    coap_lock_lock(ctx, break);
    ret = coap_handle_request_put_block(ctx, s, req, rsp, res, uri, NULL, &added, &free_lg);
    coap_lock_unlock(ctx);
    if (!first) fputc(',', stdout);
    first = 0;
    if (ret == 0) {
      size_t l = 0, o = 0, t = 0; const uint8_t *d = NULL;
      coap_get_data_large(req, &l, &d, &o, &t);
      printf("d%zu:%zu:%zu:%08x", o, l, t, sim_fnv(d, l));
      if (free_lg) {
        coap_lock_lock(ctx, break);
        LL_DELETE(s->lg_srcv, free_lg);
        coap_block_delete_lg_srcv(s, free_lg);
        coap_lock_unlock(ctx);
      }
    } else {
      printf("s%d", (int)rsp->code);
    }
    coap_delete_pdu(req);
    coap_delete_pdu(rsp);
  }
  coap_delete_string(uri);
  sim_free_all(0);
  sim_log_enabled = 1;
  free(body);
}

/* srcv2 <maxBlk> <bodyLen> <seed> <size1|-> <num.m.szx[.len],…> : every step has its own SZX, payload = the genuine slice
 * (or its first <len> bytes).  All srcv* lines are run twice with different allocation poisons (` UNINIT` if they differ). */
static void do_srcv2(unsigned maxBlk, size_t bodyLen, unsigned seed, long size1, char *seq) {
  sim_reset();
  sim_log_enabled = 0;
  uint8_t *body = mk_body(bodyLen, seed);
  coap_context_t *ctx = sim_new_context();
  coap_session_t *s;
  coap_resource_t *res = coap_resource_init(coap_make_str_const("b"), 0);
  coap_string_t *uri = coap_new_string(1);
  char *tok, *save = NULL;
  int first = 1, k = 0;
  coap_register_request_handler(res, COAP_REQUEST_PUT, hnd_dummy);
  coap_add_resource(ctx, res);
  coap_context_set_block_mode(ctx, COAP_BLOCK_USE_LIBCOAP | COAP_BLOCK_SINGLE_BODY);
  if (maxBlk) coap_context_set_max_block_size(ctx, (size_t)1 << (maxBlk + 4));
  s = sim_new_client(ctx, 5683);
  s->block_mode = ctx->block_mode;
  uri->s[0] = 'b';
  for (tok = strtok_r(seq, ",", &save); tok; tok = strtok_r(NULL, ",", &save), k++) {
    unsigned num, m, szx;
    uint8_t buf[4], tk[2] = {0x78, (uint8_t)k};
    coap_pdu_t *req, *rsp;
    int added = 0, ret;
    coap_lg_srcv_t *free_lg = NULL;
    size_t chunk, off, plen;
    long len = -1;
    int nf = sscanf(tok, "%u.%u.%u.%ld", &num, &m, &szx, &len);
    if (nf < 3 || szx > 6 || (nf == 4 && len < 0)) { printf("bad-op"); break; }
    chunk = (size_t)1 << (szx + 4);
    off = (size_t)num * chunk;
    if (off > bodyLen) off = bodyLen;
    plen = bodyLen - off < chunk ? bodyLen - off : chunk;
    if (len >= 0 && (size_t)len <= plen) plen = (size_t)len;      /* a payload shorter than the slice */
    req = coap_pdu_init(COAP_MESSAGE_CON, COAP_REQUEST_CODE_PUT, (coap_mid_t)(100 + k), 2048);
    rsp = coap_pdu_init(COAP_MESSAGE_ACK, 0, (coap_mid_t)(100 + k), 2048);
    coap_add_token(req, 2, tk);
    coap_add_token(rsp, 2, tk);
    coap_add_option(req, COAP_OPTION_URI_PATH, 1, (const uint8_t *)"b");
    coap_add_option(req, COAP_OPTION_BLOCK1, coap_encode_var_safe(buf, sizeof(buf), (num << 4) | (m << 3) | szx), buf);
    if (size1 >= 0) coap_add_option(req, COAP_OPTION_SIZE1, coap_encode_var_safe(buf, sizeof(buf), (unsigned)size1), buf);
    if (plen) coap_add_data(req, plen, body + off);
    coap_lock_lock(ctx, break);
    ret = coap_handle_request_put_block(ctx, s, req, rsp, res, uri, NULL, &added, &free_lg);
    if (!first) fputc(',', stdout);
    first = 0;
    if (ret == 0) {
      size_t l = 0, o = 0, t = 0; const uint8_t *d = NULL;
      coap_get_data_large(req, &l, &d, &o, &t);
      printf("d%zu:%zu:%zu:%08x", o, l, t, sim_fnv(d, l));
      if (free_lg) {
        LL_DELETE(s->lg_srcv, free_lg);
        coap_block_delete_lg_srcv(s, free_lg);
      }
    } else
      printf("s%d", (int)rsp->code);
    coap_lock_unlock(ctx);
    coap_delete_pdu(req);
    coap_delete_pdu(rsp);
  }
  coap_delete_string(uri);
  sim_free_all(0);
  sim_log_enabled = 1;
  free(body);
}

/* Request-Tag for code r: 0 = no option, 1 = EMPTY option, 2..9 = 1..8 bytes 0x71.., 10..17 = 1..8 bytes 0x51.. */
static int rtag_of(unsigned r, uint8_t *out) {
  if (r == 0) return -1;
  if (r == 1) return 0;
  if (r <= 9) { for (unsigned i = 0; i < r - 1; i++) out[i] = (uint8_t)(0x71 + i); return (int)(r - 1); }
  for (unsigned i = 0; i < r - 9; i++) out[i] = (uint8_t)(0x51 + i);
  return (int)(r - 9);
}

/* srcv3 <maxBlk> <len1> <seed1> <len2> <seed2> <size1:0|1> <t.num.m.szx.r,…> : every step is a Block1 PUT to resource "b"
 * carrying the genuine slice (num, szx) of body t (0|1) and the Request-Tag coded by r; printed per step: d…/s<code> as
 * srcv2, b<num>.<m>.<szx> = Block1 option of the response if any, then /<number of lg_srcv on the session> */
static void do_srcv3(unsigned maxBlk, size_t len1, unsigned seed1, size_t len2, unsigned seed2, int withSize1, char *seq) {
  sim_reset();
  sim_log_enabled = 0;
  uint8_t *bodies[2] = {mk_body(len1, seed1), mk_body(len2, seed2)};
  size_t lens[2] = {len1, len2};
  coap_context_t *ctx = sim_new_context();
  coap_session_t *s;
  coap_resource_t *res = coap_resource_init(coap_make_str_const("b"), 0);
  coap_string_t *uri = coap_new_string(1);
  char *tok, *save = NULL;
  int first = 1, k = 0;
  coap_register_request_handler(res, COAP_REQUEST_PUT, hnd_dummy);
  coap_add_resource(ctx, res);
  coap_context_set_block_mode(ctx, COAP_BLOCK_USE_LIBCOAP | COAP_BLOCK_SINGLE_BODY);
  if (maxBlk) coap_context_set_max_block_size(ctx, (size_t)1 << (maxBlk + 4));
  s = sim_new_client(ctx, 5683);
  s->block_mode = ctx->block_mode;
  uri->s[0] = 'b';
  for (tok = strtok_r(seq, ",", &save); tok; tok = strtok_r(NULL, ",", &save), k++) {
    unsigned t, num, m, szx, r;
    uint8_t buf[4], tk[2] = {0x79, (uint8_t)k}, rt[8];
    coap_pdu_t *req, *rsp;
    int added = 0, ret, rl, n = 0;
    coap_lg_srcv_t *free_lg = NULL, *q;
    size_t chunk, off, plen;
    if (sscanf(tok, "%u.%u.%u.%u.%u", &t, &num, &m, &szx, &r) != 5 || szx > 6 || t > 1 || r > 17 || m > 1) { printf("bad-op"); break; }
    chunk = (size_t)1 << (szx + 4);
    off = (size_t)num * chunk;
    if (off > lens[t]) off = lens[t];
    plen = lens[t] - off < chunk ? lens[t] - off : chunk;
    req = coap_pdu_init(COAP_MESSAGE_CON, COAP_REQUEST_CODE_PUT, (coap_mid_t)(100 + k), 2048);
    rsp = coap_pdu_init(COAP_MESSAGE_ACK, 0, (coap_mid_t)(100 + k), 2048);
    coap_add_token(req, 2, tk);
    coap_add_token(rsp, 2, tk);
    coap_add_option(req, COAP_OPTION_URI_PATH, 1, (const uint8_t *)"b");
    coap_add_option(req, COAP_OPTION_BLOCK1, coap_encode_var_safe(buf, sizeof(buf), (num << 4) | (m << 3) | szx), buf);
    if (withSize1) coap_add_option(req, COAP_OPTION_SIZE1, coap_encode_var_safe(buf, sizeof(buf), (unsigned)lens[t]), buf);
    rl = rtag_of(r, rt);
    if (rl >= 0) coap_add_option(req, COAP_OPTION_RTAG, (size_t)rl, rt);
    if (plen) coap_add_data(req, plen, bodies[t] + off);
    coap_lock_lock(ctx, break);
    ret = coap_handle_request_put_block(ctx, s, req, rsp, res, uri, NULL, &added, &free_lg);
    if (!first) fputc(',', stdout);
    first = 0;
    if (ret == 0) {
      size_t l = 0, o = 0, tt = 0; const uint8_t *d = NULL;
      coap_get_data_large(req, &l, &d, &o, &tt);
      printf("d%zu:%zu:%zu:%08x", o, l, tt, sim_fnv(d, l));
      if (free_lg) {
        LL_DELETE(s->lg_srcv, free_lg);
        coap_block_delete_lg_srcv(s, free_lg);
      }
    } else {
      coap_block_b_t rb;
      printf("s%d", (int)rsp->code);
      /* the Block1 option of the 2.31 (NUM acknowledged, SZX the server wants) */
      if (coap_get_block_b(NULL, rsp, COAP_OPTION_BLOCK1, &rb)) printf("b%u.%u.%u", rb.num, rb.m, rb.szx);
    }
    LL_FOREACH(s->lg_srcv, q) n++;
    printf("/%d", n);
    coap_lock_unlock(ctx);
    coap_delete_pdu(req);
    coap_delete_pdu(rsp);
  }
  coap_delete_string(uri);
  sim_free_all(0);
  sim_log_enabled = 1;
  free(bodies[0]); free(bodies[1]);
}

/* crcv <single> <bodyLen> <seed> <size2|-> <num.m.szx.etag.fmt[.len[.s2]],…> : the CLIENT's Block2 receive path.  Every item is a
 * 2.05 response (NON, application token) carrying Block2 (num, m, szx), the genuine slice of the body (or its first <len>
 * bytes; a <len> beyond the slice = the whole slice), ETag = one byte <etag> (0 = no option), Content-Format <fmt> (0 = no
 * option), Size2 as given for the line, or for this item by <s2> (0 = no Size2 option, n = Size2 n-1).  The whole sequence
 * is run twice with different allocation poisons: ` UNINIT` is appended if the two printed lines differ.  Printed per item:
 *   h<off>:<len>:<total>:<hash>  the function returned 0 and the caller would hand rcvd to the response handler
 *   H<off>:<len>:<total>:<hash>  the response handler was called from inside the function
 *   e402 / e408                  returned 0 with the code rewritten
 *   s                            returned 1, handler not called
 *   +q<num>.<szx>                a request with this Block2 option was transmitted during the call
 *   /<state>                     - no lg_crcv, I lg_crcv->initial, R<b-e+b-e…> rec_blocks otherwise */
static char crcv_hbuf[128], crcv_qbuf[128];
static coap_response_t crcv_on_response(coap_session_t *session, const coap_pdu_t *sent, const coap_pdu_t *rcvd, const coap_mid_t mid) {
  size_t len = 0, off = 0, total = 0; const uint8_t *data = NULL;
  (void)session; (void)sent; (void)mid;
  coap_get_data_large(rcvd, &len, &data, &off, &total);
  snprintf(crcv_hbuf, sizeof(crcv_hbuf), "H%zu:%zu:%zu:%08x", off, len, total, sim_fnv(data, len));
  return COAP_RESPONSE_OK;
}
static void crcv_on_tx(const sim_dgram_t *d) {
  coap_pdu_t *p = coap_pdu_init(0, 0, 0, 4096);
  coap_block_b_t b;
  size_t n = strlen(crcv_qbuf);
  if (p && coap_pdu_parse(COAP_PROTO_UDP, d->data, d->len, p) && coap_get_block_b(NULL, p, COAP_OPTION_BLOCK2, &b))
    snprintf(crcv_qbuf + n, sizeof(crcv_qbuf) - n, "+q%u.%u", b.num, b.szx);
  else
    snprintf(crcv_qbuf + n, sizeof(crcv_qbuf) - n, "+q?");
  if (p) coap_delete_pdu(p);
}

static void do_crcv_x(int single, size_t bodyLen, unsigned seed, long size2, char *seq, int ext, int init, unsigned numoff) {
  static const uint8_t tok[4] = {0xa1, 0xa1, 0xa1, 0xa1};
  sim_reset();
  sim_log_enabled = 0;
  uint8_t *body = mk_body(bodyLen, seed);
  coap_context_t *ctx = sim_new_context();
  coap_session_t *s = sim_new_client(ctx, 5683);
  coap_pdu_t *sent;
  char *tk, *save = NULL;
  int first = 1, k = 0;
  coap_context_set_block_mode(ctx, COAP_BLOCK_USE_LIBCOAP | (single ? COAP_BLOCK_SINGLE_BODY : 0));
  s->block_mode = ctx->block_mode;
  coap_register_response_handler(ctx, crcv_on_response);
  sim_tx_hook = crcv_on_tx;
  sent = coap_new_pdu(COAP_MESSAGE_NON, COAP_REQUEST_CODE_GET, s);
  coap_add_token(sent, 4, tok);
  coap_add_option(sent, COAP_OPTION_URI_PATH, 1, (const uint8_t *)"b");
  if (init) {
    /* what coap_send_lkd() does for every request of a session in COAP_BLOCK_USE_LIBCOAP mode */
    coap_lg_crcv_t *lg;
    coap_lock_lock(ctx, return);
    lg = coap_block_new_lg_crcv(s, sent, NULL);
    if (lg) LL_PREPEND(s->lg_crcv, lg);
    coap_lock_unlock(ctx);
  }
  for (tk = strtok_r(seq, ",", &save); tk; tk = strtok_r(NULL, ",", &save), k++) {
    unsigned num, m, szx, etag, fmt, u = 0; long len = -1, s2 = -1, sz2 = size2;
    uint8_t buf[4];
    coap_pdu_t *rcvd;
    size_t chunk, off, plen;
    int ret, nf;
    if (ext) {
      nf = sscanf(tk, "%u.%u.%u.%u.%u.%u.%ld.%ld", &u, &num, &m, &szx, &etag, &fmt, &len, &s2) - 1;
      if (u > 1) nf = 0;
    } else
      nf = sscanf(tk, "%u.%u.%u.%u.%u.%ld.%ld", &num, &m, &szx, &etag, &fmt, &len, &s2);
    if (nf < 5 || szx > 6 || m > 1 || etag > 255 || fmt > 255 || (nf >= 6 && len < 0) || (nf == 7 && s2 < 0)) { printf("bad-op"); break; }
    if (numoff && (num > 0xFFFFF || num + numoff > 0xFFFFF)) { printf("bad-op"); break; }
    if (nf == 7) sz2 = s2 - 1;
    chunk = (size_t)1 << (szx + 4);
    off = (size_t)num * chunk;
    if (off > bodyLen) off = bodyLen;
    plen = bodyLen - off < chunk ? bodyLen - off : chunk;
    if (len >= 0 && (size_t)len <= bodyLen - off) plen = (size_t)len;
    rcvd = coap_pdu_init(COAP_MESSAGE_NON, COAP_RESPONSE_CODE_CONTENT, (coap_mid_t)(200 + k), 4096);
    coap_add_token(rcvd, 4, tok);
    if (etag) { buf[0] = (uint8_t)etag; coap_add_option(rcvd, COAP_OPTION_ETAG, 1, buf); }
    if (fmt) coap_add_option(rcvd, COAP_OPTION_CONTENT_FORMAT, coap_encode_var_safe(buf, sizeof(buf), fmt), buf);
    coap_add_option(rcvd, COAP_OPTION_BLOCK2, coap_encode_var_safe(buf, sizeof(buf), ((num + numoff) << 4) | (m << 3) | szx), buf);
    if (sz2 >= 0) coap_add_option(rcvd, COAP_OPTION_SIZE2, coap_encode_var_safe(buf, sizeof(buf), (unsigned)sz2), buf);
    if (plen) coap_add_data(rcvd, plen, body + off);
    crcv_hbuf[0] = crcv_qbuf[0] = 0;
    coap_lock_lock(ctx, break);
    ret = coap_handle_response_get_block(ctx, s, u ? NULL : sent, rcvd, COAP_RECURSE_OK);
    coap_lock_unlock(ctx);
    if (!first) fputc(',', stdout);
    first = 0;
    if (crcv_hbuf[0]) printf("%s", crcv_hbuf);
    else if (ret == 0) {
      if (rcvd->code == COAP_RESPONSE_CODE(402)) printf("e402");
      else if (rcvd->code == COAP_RESPONSE_CODE(408)) printf("e408");
      else {
        size_t l = 0, o = 0, t = 0; const uint8_t *d = NULL;
        coap_get_data_large(rcvd, &l, &d, &o, &t);
        printf("h%zu:%zu:%zu:%08x", o, l, t, sim_fnv(d, l));
      }
    } else
      printf("s");
    printf("%s/", crcv_qbuf);
    if (!s->lg_crcv) printf("-");
    else if (s->lg_crcv->initial) printf("I");
    else {
      const coap_rblock_t *rb = &s->lg_crcv->rec_blocks;
      printf("R");
      for (uint32_t i = 0; i < rb->used; i++) printf("%s%u-%u", i ? "+" : "", rb->range[i].begin, rb->range[i].end);
    }
    coap_delete_pdu(rcvd);
  }
  coap_delete_pdu(sent);
  sim_tx_hook = NULL;
  sim_free_all(0);
  sim_log_enabled = 1;
  free(body);
}

static void do_crcv(int single, size_t bodyLen, unsigned seed, long size2, char *seq) {
  do_crcv_x(single, bodyLen, seed, size2, seq, 0, 0, 0);
}

/* crcvt <single> <bodyLen> <seed> <size2|-> <init> <tx0> <items> : the client's Block2 receive path with the TOKENS (round R09c; model
 * crcvStepT / cliSendT / cliExpireT, Model/BlockNetTok.lean).  session->tx_token starts at <tx0>; init = 1: the lg_crcv coap_send() sets
 * up for the application's request (token a1a1a1a1) exists.  Items:
 *   t.u.num.m.szx.etag.fmt   a 2.05 response as for `crcv`, carrying token t = 0: the application's, 1: the token of the request the
 *                            client transmitted last (the application's if none yet), 2: STATE_TOKEN_FULL(tx0 + 1000, 3) (a token
 *                            this session never issued); u = 0: `sent` is a request with the application's token, 1: NULL, 2: a
 *                            request with the token of the response
 *   x<i>                     element i of session->lg_crcv times out (LL_DELETE + coap_block_delete_lg_crcv)
 *   n                        the application sends the GET again: the real coap_send()
 * Printed per item: as `crcv`, every transmitted request as +q<num>.<szx>t<tokhex> (+q?t<tokhex> without Block2), T<tokhex> = the token
 * of rcvd when the handler sees it (behind h / H / e4xx), then `/` and the session's lg_crcv list, head first, elements separated by
 * `|`: <app_token>.<STATE_TOKEN_BASE>.<retry_counter>.<I | R<ranges>>, `-` if empty. */
static uint8_t crcvt_last[8]; static size_t crcvt_lastn;
static char crcvt_tbuf[40];
static void hex_into(char *dst, size_t cap, const uint8_t *p, size_t n) {
  size_t k = 0;
  if (!n) { snprintf(dst, cap, "-"); return; }
  for (size_t i = 0; i < n && k + 3 < cap; i++) k += (size_t)snprintf(dst + k, cap - k, "%02x", p[i]);
}
static coap_response_t crcvt_on_response(coap_session_t *session, const coap_pdu_t *sent, const coap_pdu_t *rcvd, const coap_mid_t mid) {
  hex_into(crcvt_tbuf, sizeof(crcvt_tbuf), rcvd->actual_token.s, rcvd->actual_token.length);
  return crcv_on_response(session, sent, rcvd, mid);
}
static void crcvt_on_tx(const sim_dgram_t *d) {
  coap_pdu_t *p = coap_pdu_init(0, 0, 0, 4096);
  coap_block_b_t b;
  size_t n = strlen(crcv_qbuf);
  char hx[40];
  if (p && coap_pdu_parse(COAP_PROTO_UDP, d->data, d->len, p)) {
    hex_into(hx, sizeof(hx), p->actual_token.s, p->actual_token.length);
    crcvt_lastn = p->actual_token.length > 8 ? 8 : p->actual_token.length;
    memcpy(crcvt_last, p->actual_token.s, crcvt_lastn);
    if (coap_get_block_b(NULL, p, COAP_OPTION_BLOCK2, &b)) snprintf(crcv_qbuf + n, sizeof(crcv_qbuf) - n, "+q%u.%ut%s", b.num, b.szx, hx);
    else snprintf(crcv_qbuf + n, sizeof(crcv_qbuf) - n, "+q?t%s", hx);
  } else
    snprintf(crcv_qbuf + n, sizeof(crcv_qbuf) - n, "+q!");
  if (p) coap_delete_pdu(p);
}
static void crcvt_print_list(coap_session_t *s) {
  coap_lg_crcv_t *q; int first = 1;
  printf("/");
  if (!s->lg_crcv) { printf("-"); return; }
  LL_FOREACH(s->lg_crcv, q) {
    char hx[40];
    hex_into(hx, sizeof(hx), q->app_token->s, q->app_token->length);
    printf("%s%s.%llu.%u.", first ? "" : "|", hx, (unsigned long long)STATE_TOKEN_BASE(q->state_token), (unsigned)q->retry_counter);
    first = 0;
    if (q->initial) printf("I");
    else {
      const coap_rblock_t *rb = &q->rec_blocks;
      printf("R");
      for (uint32_t i = 0; i < rb->used; i++) printf("%s%u-%u", i ? "+" : "", rb->range[i].begin, rb->range[i].end);
    }
  }
}
static coap_pdu_t *crcvt_request(coap_session_t *s, const uint8_t *tok, size_t tokn) {
  coap_pdu_t *p = coap_new_pdu(COAP_MESSAGE_NON, COAP_REQUEST_CODE_GET, s);
  coap_add_token(p, tokn, tok);
  coap_add_option(p, COAP_OPTION_URI_PATH, 1, (const uint8_t *)"b");
  return p;
}
static void do_crcvt(int single, size_t bodyLen, unsigned seed, long size2, int init, uint64_t tx0, char *seq) {
  static const uint8_t tok[4] = {0xa1, 0xa1, 0xa1, 0xa1};
  sim_reset();
  sim_log_enabled = 0;
  uint8_t *body = mk_body(bodyLen, seed);
  coap_context_t *ctx = sim_new_context();
  coap_session_t *s = sim_new_client(ctx, 5683);
  coap_pdu_t *sent;
  char *tk, *save = NULL;
  int first = 1, k = 0;
  coap_context_set_block_mode(ctx, COAP_BLOCK_USE_LIBCOAP | (single ? COAP_BLOCK_SINGLE_BODY : 0));
  s->block_mode = ctx->block_mode;
  s->tx_token = tx0;
  coap_register_response_handler(ctx, crcvt_on_response);
  sim_tx_hook = crcvt_on_tx;
  memcpy(crcvt_last, tok, 4); crcvt_lastn = 4;
  sent = crcvt_request(s, tok, 4);
  if (init) {
    coap_lg_crcv_t *lg;
    coap_lock_lock(ctx, return);
    lg = coap_block_new_lg_crcv(s, sent, NULL);
    if (lg) LL_PREPEND(s->lg_crcv, lg);
    coap_lock_unlock(ctx);
  }
  for (tk = strtok_r(seq, ",", &save); tk; tk = strtok_r(NULL, ",", &save), k++) {
    unsigned t, num, m, szx, etag, fmt, u;
    uint8_t buf[8], rtok[8];
    size_t rtokn;
    coap_pdu_t *rcvd, *sent2 = NULL;
    size_t chunk, off, plen;
    int ret;
    if (!first) fputc(',', stdout);
    first = 0;
    crcv_hbuf[0] = crcv_qbuf[0] = crcvt_tbuf[0] = 0;
    if (tk[0] == 'x') {
      unsigned idx = (unsigned)strtoul(tk + 1, 0, 10), j = 0;
      coap_lg_crcv_t *q, *hit = NULL;
      coap_lock_lock(ctx, break);
      LL_FOREACH(s->lg_crcv, q) { if (j++ == idx) { hit = q; break; } }
      if (hit) { LL_DELETE(s->lg_crcv, hit); coap_block_delete_lg_crcv(s, hit); }
      coap_lock_unlock(ctx);
      printf("x");
      crcvt_print_list(s);
      continue;
    }
    if (!strcmp(tk, "n")) {
      coap_pdu_t *p = crcvt_request(s, tok, 4);
      coap_mid_t mid = coap_send(s, p);
      printf("n%s%s", mid == COAP_INVALID_MID ? "!" : "", crcv_qbuf);
      crcvt_print_list(s);
      continue;
    }
    if (sscanf(tk, "%u.%u.%u.%u.%u.%u.%u", &t, &u, &num, &m, &szx, &etag, &fmt) != 7 || t > 2 || u > 2 || szx > 6 || m > 1 || etag > 255 ||
        fmt > 255) { printf("bad-op"); break; }
    if (t == 0) { memcpy(rtok, tok, 4); rtokn = 4; }
    else if (t == 1) { memcpy(rtok, crcvt_last, crcvt_lastn); rtokn = crcvt_lastn; }
    else rtokn = coap_encode_var_safe8(rtok, 8, STATE_TOKEN_FULL(tx0 + 1000, 3));
    chunk = (size_t)1 << (szx + 4);
    off = (size_t)num * chunk;
    if (off > bodyLen) off = bodyLen;
    plen = bodyLen - off < chunk ? bodyLen - off : chunk;
    rcvd = coap_pdu_init(COAP_MESSAGE_NON, COAP_RESPONSE_CODE_CONTENT, (coap_mid_t)(200 + k), 4096);
    coap_add_token(rcvd, rtokn, rtok);
    if (etag) { buf[0] = (uint8_t)etag; coap_add_option(rcvd, COAP_OPTION_ETAG, 1, buf); }
    if (fmt) coap_add_option(rcvd, COAP_OPTION_CONTENT_FORMAT, coap_encode_var_safe(buf, sizeof(buf), fmt), buf);
    coap_add_option(rcvd, COAP_OPTION_BLOCK2, coap_encode_var_safe(buf, sizeof(buf), (num << 4) | (m << 3) | szx), buf);
    if (size2 >= 0) coap_add_option(rcvd, COAP_OPTION_SIZE2, coap_encode_var_safe(buf, sizeof(buf), (unsigned)size2), buf);
    if (plen) coap_add_data(rcvd, plen, body + off);
    if (u == 2) sent2 = crcvt_request(s, rtok, rtokn);
    coap_lock_lock(ctx, break);
    ret = coap_handle_response_get_block(ctx, s, u == 1 ? NULL : u == 2 ? sent2 : sent, rcvd, COAP_RECURSE_OK);
    coap_lock_unlock(ctx);
    if (crcv_hbuf[0]) printf("%s", crcv_hbuf);
    else if (ret == 0) {
      hex_into(crcvt_tbuf, sizeof(crcvt_tbuf), rcvd->actual_token.s, rcvd->actual_token.length);
      if (rcvd->code == COAP_RESPONSE_CODE(402)) printf("e402");
      else if (rcvd->code == COAP_RESPONSE_CODE(408)) printf("e408");
      else {
        size_t l = 0, o = 0, tt = 0; const uint8_t *d = NULL;
        coap_get_data_large(rcvd, &l, &d, &o, &tt);
        printf("h%zu:%zu:%zu:%08x", o, l, tt, sim_fnv(d, l));
      }
    } else
      printf("s");
    printf("%s", crcv_qbuf);
    if (crcvt_tbuf[0]) printf("T%s", crcvt_tbuf);
    crcvt_print_list(s);
    coap_delete_pdu(rcvd);
    if (sent2) coap_delete_pdu(sent2);
    /* `sent` had its token put back / its Block2 option removed by the call: a fresh one for the next item */
    coap_delete_pdu(sent);
    sent = crcvt_request(s, tok, 4);
  }
  coap_delete_pdu(sent);
  sim_tx_hook = NULL;
  sim_free_all(0);
  sim_log_enabled = 1;
  free(body);
}

/* ctok <isReq> <tokhex|-> <crcvs> <xmits> : coap_check_update_token(session, pdu) — what coap_handle_nack() does to the abandoned
 * PDU before the application's NACK handler sees it.  The session gets lg_crcv entries (in list order) and lg_xmit entries with the
 * given application token / state token; pdu is a GET request (isReq = 1) or a 2.05 response carrying <tokhex>.  Prints the token
 * the PDU carries afterwards (what the handler is shown). */
static int ctok_parse(char *list, uint8_t app[][8], size_t *appn, uint64_t *state, int max) {
  char *tk, *save = NULL;
  int n = 0;
  if (!strcmp(list, "-")) return 0;
  for (tk = strtok_r(list, ",", &save); tk; tk = strtok_r(NULL, ",", &save)) {
    char *sl = strchr(tk, '/'), *end;
    size_t l = 0; uint8_t *b;
    if (!sl || n >= max) return -1;
    *sl = 0;
    if (strcmp(tk, "-")) {
      b = h_unhex(tk, &l);
      if (!b || l > 8) { free(b); return -1; }
      memcpy(app[n], b, l); free(b);
    }
    appn[n] = l;
    if (!sl[1]) return -1;
    state[n] = strtoull(sl + 1, &end, 10);
    if (*end) return -1;
    n++;
  }
  return n;
}
static void do_ctok(int isReq, const char *tokhex, char *crcvs, char *xmits) {
  uint8_t capp[8][8], xapp[8][8], tokb[8];
  size_t cappn[8], xappn[8], tokn = 0;
  uint64_t cst[8], xst[8];
  int nc = ctok_parse(crcvs, capp, cappn, cst, 8), nx = ctok_parse(xmits, xapp, xappn, xst, 8);
  coap_context_t *ctx;
  coap_session_t *s;
  coap_pdu_t *pdu;
  if (nc < 0 || nx < 0) { printf("bad-op"); return; }
  if (strcmp(tokhex, "-")) {
    uint8_t *b = h_unhex(tokhex, &tokn);
    if (!b || tokn > 8) { free(b); printf("bad-op"); return; }
    memcpy(tokb, b, tokn); free(b);
  }
  sim_reset();
  sim_log_enabled = 0;
  ctx = sim_new_context();
  s = sim_new_client(ctx, 5683);
  for (int i = nc - 1; i >= 0; i--) {          /* LL_PREPEND in reverse: list order = line order */
    coap_lg_crcv_t *lg = (coap_lg_crcv_t *)coap_malloc_type(COAP_LG_CRCV, sizeof(*lg));
    memset(lg, 0, sizeof(*lg));
    lg->app_token = coap_new_binary(cappn[i]);
    memcpy(lg->app_token->s, capp[i], cappn[i]);
    lg->state_token = cst[i];
    LL_PREPEND(s->lg_crcv, lg);
  }
  for (int i = nx - 1; i >= 0; i--) {
    coap_lg_xmit_t *lg = (coap_lg_xmit_t *)coap_malloc_type(COAP_LG_XMIT, sizeof(*lg));
    memset(lg, 0, sizeof(*lg));
    lg->pdu.code = COAP_REQUEST_CODE_PUT;
    lg->b.b1.app_token = coap_new_binary(xappn[i]);
    memcpy(lg->b.b1.app_token->s, xapp[i], xappn[i]);
    lg->b.b1.state_token = xst[i];
    LL_PREPEND(s->lg_xmit, lg);
  }
  pdu = coap_pdu_init(COAP_MESSAGE_CON, isReq ? COAP_REQUEST_CODE_GET : COAP_RESPONSE_CODE_CONTENT, 77, 256);
  coap_add_token(pdu, tokn, tokb);
  coap_add_option(pdu, COAP_OPTION_URI_PATH, 1, (const uint8_t *)"b");
  coap_lock_lock(ctx, return);
  coap_check_update_token(s, pdu);
  coap_lock_unlock(ctx);
  h_puthex(stdout, pdu->actual_token.s, pdu->actual_token.length);
  coap_delete_pdu(pdu);
  sim_free_all(0);
  sim_log_enabled = 1;
}

/* ---- sender side (lg_xmit) ---- */
static void print_block_msg(coap_pdu_t *p, coap_option_num_t optnum) {
  coap_block_b_t b;
  size_t l = 0; const uint8_t *d = NULL;
  coap_get_data(p, &l, &d);
  if (coap_get_block_b(NULL, p, optnum, &b)) printf("b%u.%u.%u:%zu:%08x", b.num, b.m, b.szx, l, sim_fnv(d, l));
  else printf("n:%zu:%08x", l, sim_fnv(d, l));
}

/* xmit2 <szx> <bodyLen> <seed> <mtu2> <num.szx,…> : the SERVER sending a body with Block2.  The application answers a
 * GET carrying Block2 (0,0,szx) with coap_add_data_large_response() on an <mtu1>-byte response PDU (<mtu2> = "mtu1:mtu2",
 * default 1152; printed first, with
 * lg=<blk_size | -1>), then every item is a GET with Block2 (num,0,szx) given to the real coap_handle_request_send_block()
 * with a fresh response PDU of max size <mtu2>; per item: p (returned 0: passed to the application), c<code> (error
 * response), b<num>.<m>.<szx>:<len>:<hash> (block response), then /<lg_xmit->offset | ->.  rel = release callback runs. */
static void do_xmit2(unsigned szx, size_t bodyLen, unsigned seed, size_t mtu1, size_t mtu2, char *seq) {
  static const uint8_t tok[4] = {0xa1, 0xa1, 0xa1, 0xa1};
  sim_reset();
  sim_log_enabled = 0;
  uint8_t *body = mk_body(bodyLen, seed), buf[4];
  coap_context_t *ctx = sim_new_context();
  coap_session_t *s = sim_new_client(ctx, 5683);
  coap_resource_t *res = coap_resource_init(coap_make_str_const("b"), 0);
  coap_pdu_t *req, *rsp;
  char *tk, *save = NULL;
  int k = 0, r;
  coap_register_request_handler(res, COAP_REQUEST_GET, hnd_dummy);
  coap_add_resource(ctx, res);
  coap_context_set_block_mode(ctx, COAP_BLOCK_USE_LIBCOAP | COAP_BLOCK_SINGLE_BODY);
  s->block_mode = ctx->block_mode;
  req = coap_pdu_init(COAP_MESSAGE_CON, COAP_REQUEST_CODE_GET, 1, 256);
  coap_add_token(req, 4, tok);
  coap_add_option(req, COAP_OPTION_URI_PATH, 1, (const uint8_t *)"b");
  coap_add_option(req, COAP_OPTION_BLOCK2, coap_encode_var_safe(buf, sizeof(buf), szx), buf);
  rsp = coap_pdu_init(COAP_MESSAGE_ACK, COAP_RESPONSE_CODE_CONTENT, 1, mtu1);
  coap_add_token(rsp, 4, tok);
  rel_count = 0;
  r = coap_add_data_large_response(res, s, req, rsp, NULL, COAP_MEDIATYPE_APPLICATION_OCTET_STREAM, -1, 0, bodyLen, body, rel_cb, NULL);
  if (!r) printf("fail");
  else print_block_msg(rsp, COAP_OPTION_BLOCK2);
  printf(" lg=%d", s->lg_xmit ? (int)s->lg_xmit->blk_size : -1);
  coap_delete_pdu(req); coap_delete_pdu(rsp);
  for (tk = strcmp(seq, "-") ? strtok_r(seq, ",", &save) : NULL; tk; tk = strtok_r(NULL, ",", &save), k++) {
    unsigned num, sz;
    int ret;
    if (sscanf(tk, "%u.%u", &num, &sz) != 2 || sz > 6 || num > 0xFFFFF) { printf(" bad-op"); break; }
    req = coap_pdu_init(COAP_MESSAGE_CON, COAP_REQUEST_CODE_GET, (coap_mid_t)(2 + k), 256);
    coap_add_token(req, 4, tok);
    coap_add_option(req, COAP_OPTION_URI_PATH, 1, (const uint8_t *)"b");
    coap_add_option(req, COAP_OPTION_BLOCK2, coap_encode_var_safe(buf, sizeof(buf), (num << 4) | sz), buf);
    rsp = coap_pdu_init(COAP_MESSAGE_ACK, 0, (coap_mid_t)(2 + k), mtu2);
    if (!rsp || !coap_add_token(rsp, 4, tok)) { printf(" nopdu"); coap_delete_pdu(req); if (rsp) coap_delete_pdu(rsp); break; }
    coap_lock_lock(ctx, break);
    ret = coap_handle_request_send_block(s, req, rsp, res, NULL);
    coap_lock_unlock(ctx);
    fputc(k ? ',' : ' ', stdout);
    if (ret == 0) printf("p");
    else if (COAP_RESPONSE_CLASS(rsp->code) != 2) printf("c%d", (int)rsp->code);
    else print_block_msg(rsp, COAP_OPTION_BLOCK2);
    if (s->lg_xmit) printf("/%zu", s->lg_xmit->offset); else printf("/-");
    coap_delete_pdu(req); coap_delete_pdu(rsp);
  }
  sim_free_all(0);
  sim_log_enabled = 1;
  printf(" rel=%d", rel_count);
  free(body);
}

/* xmit1 <cszx|-> <bodyLen> <seed> <mtu> <code.num.szx|code,…> : the CLIENT sending a body with Block1.  The application
 * PUTs (NON, 4-byte token, Uri-Path "b", optional Block1 (0,0,cszx)) with coap_add_data_large_request() and coap_send() on a
 * session with MTU <mtu> (first datagram printed; `fail` if refused).  Every item is a response (code as a number, e.g.
 * 95 = 2.31, 68 = 2.04, 141 = 4.13) with the token of the datagram sent last and, if given, Block1 (num,1,szx), handed to
 * the real coap_handle_response_send_block(); per item: the datagram transmitted in reaction (b<num>.<m>.<szx>:<len>:<hash>),
 * or i (returned 1, nothing sent), f (returned 0: handler to be called), F (the same with the code rewritten to 5.00);
 * then /<blk_size>.<offset>.<last_block> of the lg_xmit or /- if it is gone.  rel = release callback runs. */
static uint8_t x1_tok[8]; static size_t x1_tkl;
static char x1_buf[96];
static void x1_on_tx(const sim_dgram_t *d) {
  coap_pdu_t *p = coap_pdu_init(0, 0, 0, 4096);
  if (p && coap_pdu_parse(COAP_PROTO_UDP, d->data, d->len, p)) {
    coap_block_b_t b;
    size_t l = 0; const uint8_t *dd = NULL;
    coap_get_data(p, &l, &dd);
    if (coap_get_block_b(NULL, p, COAP_OPTION_BLOCK1, &b))
      snprintf(x1_buf, sizeof(x1_buf), "b%u.%u.%u:%zu:%08x", b.num, b.m, b.szx, l, sim_fnv(dd, l));
    else
      snprintf(x1_buf, sizeof(x1_buf), "n:%zu:%08x", l, sim_fnv(dd, l));
    x1_tkl = d->tkl; memcpy(x1_tok, d->token, d->tkl);
  } else
    snprintf(x1_buf, sizeof(x1_buf), "unparsable");
  if (p) coap_delete_pdu(p);
}

static void do_xmit1(int cszx, size_t bodyLen, unsigned seed, unsigned mtu, char *seq) {
  static const uint8_t tok[4] = {0xa1, 0xa1, 0xa1, 0xa1};
  sim_reset();
  sim_log_enabled = 0;
  uint8_t *body = mk_body(bodyLen, seed), buf[4];
  coap_context_t *ctx = sim_new_context();
  coap_session_t *s = sim_new_client(ctx, 5683);
  coap_pdu_t *p;
  char *tk, *save = NULL;
  int k = 0;
  coap_context_set_block_mode(ctx, COAP_BLOCK_USE_LIBCOAP | COAP_BLOCK_SINGLE_BODY);
  s->block_mode = ctx->block_mode;
  coap_session_set_mtu(s, mtu);
  sim_tx_hook = x1_on_tx;
  x1_buf[0] = 0; x1_tkl = 0;
  rel_count = 0;
  p = coap_new_pdu(COAP_MESSAGE_NON, COAP_REQUEST_CODE_PUT, s);
  coap_add_token(p, 4, tok);
  coap_add_option(p, COAP_OPTION_URI_PATH, 1, (const uint8_t *)"b");
  if (cszx >= 0) coap_add_option(p, COAP_OPTION_BLOCK1, coap_encode_var_safe(buf, sizeof(buf), (unsigned)cszx), buf);
  if (!coap_add_data_large_request(s, p, bodyLen, body, rel_cb, NULL)) {
    printf("fail");
    coap_delete_pdu(p);
    goto out;
  }
  if (coap_send(s, p) == COAP_INVALID_MID) { printf("send-fail"); goto out; }
  printf("%s", x1_buf[0] ? x1_buf : "-");
  printf(" lg=%d", s->lg_xmit ? (int)s->lg_xmit->blk_size : -1);
  for (tk = strcmp(seq, "-") ? strtok_r(seq, ",", &save) : NULL; tk; tk = strtok_r(NULL, ",", &save), k++) {
    unsigned code, num = 0, sz = 0;
    int nf = sscanf(tk, "%u.%u.%u", &code, &num, &sz), ret;
    coap_pdu_t *rcvd;
    if ((nf != 1 && nf != 3) || sz > 6 || num > 0xFFFFF || code > 255) { printf(" bad-op"); break; }
    rcvd = coap_pdu_init(COAP_MESSAGE_NON, (coap_pdu_code_t)code, (coap_mid_t)(300 + k), 256);
    coap_add_token(rcvd, x1_tkl, x1_tok);
    if (nf == 3) coap_add_option(rcvd, COAP_OPTION_BLOCK1, coap_encode_var_safe(buf, sizeof(buf), (num << 4) | 8 | sz), buf);
    x1_buf[0] = 0;
    coap_lock_lock(ctx, break);
    ret = coap_handle_response_send_block(s, NULL, rcvd);
    coap_lock_unlock(ctx);
    fputc(k ? ',' : ' ', stdout);
    if (x1_buf[0]) printf("%s", x1_buf);
    else if (ret == 1) printf("i");
    else printf(rcvd->code == COAP_RESPONSE_CODE(500) ? "F" : "f");
    if (s->lg_xmit) printf("/%u.%zu.%d", (unsigned)s->lg_xmit->blk_size, s->lg_xmit->offset, s->lg_xmit->last_block);
    else printf("/-");
    coap_delete_pdu(rcvd);
  }
out:
  sim_tx_hook = NULL;
  sim_free_all(0);
  sim_log_enabled = 1;
  printf(" rel=%d", rel_count);
  free(body);
}

/* xmit1t <cszx|-> <bodyLen> <seed> <mtu> <non> <tx0> <items> : the client's Block1 path WITH TOKENS (round R09c; model putStep1T /
 * rspStep1T, Model/BlockNetTok1.lean).  session->tx_token starts at <tx0>; the application's requests are NON (non = 1) or CON.  Items:
 *   p                  the application PUTs the body (token a1a1a1a1, Block1 (0,0,cszx) if given): coap_add_data_large_request + coap_send
 *   t.code[.num.szx]   a response (code as in xmit1, optional Block1 (num,1,szx)) carrying token t = 0: the application's, 1: that of
 *                      the datagram transmitted last, 2: STATE_TOKEN_FULL(tx0 + 1000, 3); what handle_response() does with it:
 *                      coap_handle_response_send_block, if that returns 0 coap_handle_response_get_block, if that returns 0 the handler
 *   x / y              the lg_xmit / the lg_crcv at the head of the session's list times out (LL_DELETE + coap_block_delete_lg_xmit / _crcv)
 * Printed per item: p<first datagram>t<token> | pfail;  for a response the datagram transmitted (b…t<token>), i (send_block returned 1,
 * nothing sent), f / F (returned 0 / with the code rewritten to 5.00) followed by T<token> = the token of rcvd the handler sees (S if
 * get_block returned 1); then /X<n>[:blk.offset.last.count.base.link] C<n>[:app.base.retry] = both lists (length, head element). */
static char x1t_tok[40];
static void x1t_on_tx(const sim_dgram_t *d) {
  x1_on_tx(d);
  hex_into(x1t_tok, sizeof(x1t_tok), d->token, d->tkl);
}
static void x1t_state(coap_session_t *s) {
  coap_lg_xmit_t *x; coap_lg_crcv_t *c; int nx = 0, nc = 0;
  LL_FOREACH(s->lg_xmit, x) nx++;
  LL_FOREACH(s->lg_crcv, c) nc++;
  printf("/X%d", nx);
  if (s->lg_xmit)
    printf(":%u.%zu.%d.%u.%llu.%d", (unsigned)s->lg_xmit->blk_size, s->lg_xmit->offset, s->lg_xmit->last_block, (unsigned)s->lg_xmit->b.b1.count,
           (unsigned long long)STATE_TOKEN_BASE(s->lg_xmit->b.b1.state_token), s->lg_xmit->lg_crcv ? 1 : 0);
  printf("C%d", nc);
  if (s->lg_crcv) {
    char hx[40];
    hex_into(hx, sizeof(hx), s->lg_crcv->app_token->s, s->lg_crcv->app_token->length);
    printf(":%s.%llu.%u", hx, (unsigned long long)STATE_TOKEN_BASE(s->lg_crcv->state_token), (unsigned)s->lg_crcv->retry_counter);
  }
}
static coap_response_t x1t_on_response(coap_session_t *session, const coap_pdu_t *sent, const coap_pdu_t *rcvd, const coap_mid_t mid) {
  (void)session; (void)sent; (void)mid;
  hex_into(crcvt_tbuf, sizeof(crcvt_tbuf), rcvd->actual_token.s, rcvd->actual_token.length);
  return COAP_RESPONSE_OK;
}
static void do_xmit1t(int cszx, size_t bodyLen, unsigned seed, unsigned mtu, int non, uint64_t tx0, char *seq) {
  static const uint8_t tok[4] = {0xa1, 0xa1, 0xa1, 0xa1};
  sim_reset();
  sim_log_enabled = 0;
  uint8_t *body = mk_body(bodyLen, seed), buf[8];
  coap_context_t *ctx = sim_new_context();
  coap_session_t *s = sim_new_client(ctx, 5683);
  char *tk, *save = NULL;
  int k = 0;
  coap_context_set_block_mode(ctx, COAP_BLOCK_USE_LIBCOAP | COAP_BLOCK_SINGLE_BODY);
  s->block_mode = ctx->block_mode;
  coap_session_set_mtu(s, mtu);
  coap_register_response_handler(ctx, x1t_on_response);
  s->tx_token = tx0;
  sim_tx_hook = x1t_on_tx;
  x1_buf[0] = 0; x1_tkl = 4; memcpy(x1_tok, tok, 4);
  rel_count = 0;
  for (tk = strtok_r(seq, ",", &save); tk; tk = strtok_r(NULL, ",", &save), k++) {
    if (k) fputc(',', stdout);
    x1_buf[0] = 0; x1t_tok[0] = 0; crcvt_tbuf[0] = 0;
    if (!strcmp(tk, "p")) {
      coap_pdu_t *p = coap_new_pdu(non ? COAP_MESSAGE_NON : COAP_MESSAGE_CON, COAP_REQUEST_CODE_PUT, s);
      coap_add_token(p, 4, tok);
      coap_add_option(p, COAP_OPTION_URI_PATH, 1, (const uint8_t *)"b");
      if (cszx >= 0) coap_add_option(p, COAP_OPTION_BLOCK1, coap_encode_var_safe(buf, sizeof(buf), (unsigned)cszx), buf);
      if (!coap_add_data_large_request(s, p, bodyLen, body, rel_cb, NULL)) { printf("pfail"); coap_delete_pdu(p); }
      else if (coap_send(s, p) == COAP_INVALID_MID) printf("psend-fail");
      else printf("p%st%s", x1_buf[0] ? x1_buf : "-", x1t_tok[0] ? x1t_tok : "-");
    } else if (!strcmp(tk, "x") || !strcmp(tk, "y")) {
      coap_lock_lock(ctx, break);
      if (tk[0] == 'x' && s->lg_xmit) { coap_lg_xmit_t *x = s->lg_xmit; LL_DELETE(s->lg_xmit, x); coap_block_delete_lg_xmit(s, x); }
      if (tk[0] == 'y' && s->lg_crcv) { coap_lg_crcv_t *c = s->lg_crcv; LL_DELETE(s->lg_crcv, c); coap_block_delete_lg_crcv(s, c); }
      coap_lock_unlock(ctx);
      printf("%s", tk);
    } else {
      unsigned t, code, num = 0, sz = 0;
      int nf = sscanf(tk, "%u.%u.%u.%u", &t, &code, &num, &sz), ret;
      uint8_t rtok[8]; size_t rtokn;
      coap_pdu_t *rcvd;
      if ((nf != 2 && nf != 4) || t > 2 || sz > 6 || num > 0xFFFFF || code > 255) { printf("bad-op"); break; }
      if (t == 0) { memcpy(rtok, tok, 4); rtokn = 4; }
      else if (t == 1) { memcpy(rtok, x1_tok, x1_tkl); rtokn = x1_tkl; }
      else rtokn = coap_encode_var_safe8(rtok, 8, STATE_TOKEN_FULL(tx0 + 1000, 3));
      rcvd = coap_pdu_init(COAP_MESSAGE_NON, (coap_pdu_code_t)code, (coap_mid_t)(300 + k), 256);
      coap_add_token(rcvd, rtokn, rtok);
      if (nf == 4) coap_add_option(rcvd, COAP_OPTION_BLOCK1, coap_encode_var_safe(buf, sizeof(buf), (num << 4) | 8 | sz), buf);
      coap_lock_lock(ctx, break);
      ret = coap_handle_response_send_block(s, NULL, rcvd);
      if (x1_buf[0]) printf("%st%s", x1_buf, x1t_tok);
      else if (ret == 1) printf("i");
      else {
        int ret2;
        printf(code != 160 && rcvd->code == COAP_RESPONSE_CODE(500) ? "F" : "f");
        ret2 = coap_handle_response_get_block(ctx, s, NULL, rcvd, COAP_RECURSE_OK);
        if (ret2 == 0 && !crcvt_tbuf[0]) hex_into(crcvt_tbuf, sizeof(crcvt_tbuf), rcvd->actual_token.s, rcvd->actual_token.length);
        if (ret2 == 0 || crcvt_tbuf[0]) printf("T%s", crcvt_tbuf); else printf("S");
      }
      coap_lock_unlock(ctx);
      coap_delete_pdu(rcvd);
    }
    if (x1t_tok[0]) {
      /* the message layer's part: the request just transmitted is acknowledged (an empty ACK), nothing stays queued */
      coap_bin_const_t tb = { x1_tkl, x1_tok };
      coap_lock_lock(ctx, break);
      coap_cancel_all_messages(ctx, s, &tb);
      coap_lock_unlock(ctx);
    }
    x1t_state(s);
  }
  sim_tx_hook = NULL;
  sim_free_all(0);
  sim_log_enabled = 1;
  printf(" rel=%d", rel_count);
  free(body);
}

/* q408 <szx> <bodyLen> <seed> <maxPayloads> <fmt|-> <type> <hex;hex;…> : the CLIENT sending a body with Q-Block1 (RFC 9177) and the
 * 4.08 "missing blocks" responses of a hostile server (C02).  The application PUTs (NON, 4-byte token, Uri-Path "b", Q-Block1
 * (0,0,szx)) with coap_add_data_large_request() and coap_send() on a session that has Q-Block negotiated (first payload set goes
 * out: `tx=<n>`; `lg=<blk_size>`).  Every item is the PAYLOAD of a 4.08 response (token of the datagram sent last, Content-Format
 * <fmt> — 272 = application/missing-blocks+cbor-seq —, message type <type>: 1 = NON), placed so that the first byte behind it is
 * inaccessible for ASan, handed to the real coap_handle_response_send_block(); per item: i (returned 1) / f (returned 0: the
 * application sees the response) / F (the same with the code rewritten to 5.00), `:` the datagrams transmitted in reaction
 * (b<num>.<m>.<szx>:<len>:<hash> joined by `+`, or `-`), `/<blk_size>` of the lg_xmit or `/-` if it is gone. */
#include <sanitizer/asan_interface.h>
static char q_buf[4096]; static size_t q_len; static unsigned q_ntx;
static void q_on_tx(const sim_dgram_t *d) {
  coap_pdu_t *p = coap_pdu_init(0, 0, 0, 4096);
  q_ntx++;
  if (p && coap_pdu_parse(COAP_PROTO_UDP, d->data, d->len, p)) {
    coap_block_b_t b;
    size_t l = 0; const uint8_t *dd = NULL;
    coap_get_data(p, &l, &dd);
    if (q_len + 64 < sizeof(q_buf)) {
      if (coap_get_block_b(NULL, p, COAP_OPTION_Q_BLOCK1, &b))
        q_len += (size_t)snprintf(q_buf + q_len, sizeof(q_buf) - q_len, "%sb%u.%u.%u:%zu:%08x", q_len ? "+" : "", b.num, b.m, b.szx, l, sim_fnv(dd, l));
      else
        q_len += (size_t)snprintf(q_buf + q_len, sizeof(q_buf) - q_len, "%sn:%zu:%08x", q_len ? "+" : "", l, sim_fnv(dd, l));
    }
    x1_tkl = d->tkl; memcpy(x1_tok, d->token, d->tkl);
  } else if (q_len + 16 < sizeof(q_buf))
    q_len += (size_t)snprintf(q_buf + q_len, sizeof(q_buf) - q_len, "%sunparsable", q_len ? "+" : "");
  if (p) coap_delete_pdu(p);
}

static void do_q408(unsigned szx, size_t bodyLen, unsigned seed, unsigned maxPay, int fmt, int type, char *seq) {
  static const uint8_t tok[4] = {0xa1, 0xa1, 0xa1, 0xa1};
  if (szx > 6 || bodyLen <= ((size_t)16 << szx) || maxPay < 1 || maxPay > 255 || type < 0 || type > 3 || fmt > 65535) { printf("bad-op"); return; }
  sim_reset();
  sim_log_enabled = 0;
  uint8_t *body = mk_body(bodyLen, seed), buf[4];
  coap_context_t *ctx = sim_new_context();
  coap_session_t *s = sim_new_client(ctx, 5683);
  coap_pdu_t *p;
  char *tk, *save = NULL;
  int k = 0;
  coap_context_set_block_mode(ctx, COAP_BLOCK_USE_LIBCOAP | COAP_BLOCK_SINGLE_BODY);
  s->block_mode = ctx->block_mode | COAP_BLOCK_HAS_Q_BLOCK;       /* as after a successful Q-Block probe */
  coap_session_set_max_payloads(s, (uint16_t)maxPay);
  sim_tx_hook = q_on_tx;
  q_len = 0; q_buf[0] = 0; q_ntx = 0; x1_tkl = 0;
  rel_count = 0;
  p = coap_new_pdu(COAP_MESSAGE_NON, COAP_REQUEST_CODE_PUT, s);
  coap_add_token(p, 4, tok);
  coap_add_option(p, COAP_OPTION_URI_PATH, 1, (const uint8_t *)"b");
  coap_add_option(p, COAP_OPTION_Q_BLOCK1, coap_encode_var_safe(buf, sizeof(buf), szx), buf);
  if (!coap_add_data_large_request(s, p, bodyLen, body, rel_cb, NULL)) {
    printf("fail");
    coap_delete_pdu(p);
    goto out;
  }
  if (coap_send(s, p) == COAP_INVALID_MID) { printf("send-fail"); goto out; }
  printf("tx=%u lg=%d", q_ntx, s->lg_xmit ? (int)s->lg_xmit->blk_size : -1);
  for (tk = strcmp(seq, "-") ? strtok_r(seq, ";", &save) : NULL; tk; tk = strtok_r(NULL, ";", &save), k++) {
    size_t len; uint8_t *d = h_unhex(tk, &len);
    int ret;
    coap_pdu_t *rcvd;
    if (!d || len > 1024) { printf(" bad-op"); free(d); break; }
    rcvd = coap_pdu_init((coap_pdu_type_t)type, COAP_RESPONSE_CODE(408), (coap_mid_t)(300 + k), 32 + len);
    coap_add_token(rcvd, x1_tkl, x1_tok);
    if (fmt >= 0) coap_add_option(rcvd, COAP_OPTION_CONTENT_FORMAT, coap_encode_var_safe(buf, sizeof(buf), (unsigned)fmt), buf);
    if (len) coap_add_data(rcvd, len, d);
    {
      uint8_t *base = rcvd->token - rcvd->max_hdr_size;
      size_t real = malloc_usable_size(base);
      if (real > (size_t)rcvd->max_hdr_size + rcvd->used_size)
        ASAN_POISON_MEMORY_REGION(rcvd->token + rcvd->used_size, real - rcvd->max_hdr_size - rcvd->used_size);
    }
    q_len = 0; q_buf[0] = 0;
    coap_lock_lock(ctx, break);
    ret = coap_handle_response_send_block(s, NULL, rcvd);
    coap_lock_unlock(ctx);
    fputc(k ? ',' : ' ', stdout);
    printf("%s:%s", ret == 1 ? "i" : rcvd->code == COAP_RESPONSE_CODE(500) ? "F" : "f", q_len ? q_buf : "-");
    if (s->lg_xmit) printf("/%u", (unsigned)s->lg_xmit->blk_size);
    else printf("/-");
    {
      uint8_t *base = rcvd->token - rcvd->max_hdr_size;
      ASAN_UNPOISON_MEMORY_REGION(base, malloc_usable_size(base));
    }
    coap_delete_pdu(rcvd);
    free(d);
  }
out:
  sim_tx_hook = NULL;
  sim_free_all(0);
  sim_log_enabled = 1;
  printf(" rel=%d", rel_count);
  free(body);
}

/* qenc <n,n,…> : the SERVER's add_408_block() for every number on one PDU: the payload bytes, ` rej@<k>` when the k-th is refused */
static void do_qenc(char *seq) {
  coap_pdu_t *p = coap_pdu_init(COAP_MESSAGE_NON, COAP_RESPONSE_CODE(408), 1, 8192);
  char *tk, *save = NULL;
  int k = 0, rej = -1;
  size_t start;
  if (!p) { printf("nopdu"); return; }
  p->token[p->used_size++] = COAP_PAYLOAD_START;
  start = p->used_size;
  for (tk = strcmp(seq, "-") ? strtok_r(seq, ",", &save) : NULL; tk; tk = strtok_r(NULL, ",", &save), k++) {
    unsigned long v = strtoul(tk, 0, 10);
    if (v >= 0x80000000UL) { printf("bad-op"); coap_delete_pdu(p); return; }
    if (!add_408_block(p, (int)v)) { rej = k; break; }
  }
  h_puthex(stdout, p->token + start, p->used_size - start);
  if (rej >= 0) printf(" rej@%d", rej);
  coap_delete_pdu(p);
}

/* qset <maxPayloads> <processing> <n,n,…> : the CLIENT's Q-Block2 bookkeeping: update_received_blocks() for every number, then
 * check_all_blocks_in_for_payload_set() / check_any_blocks_next_payload_set() with that MAX_PAYLOADS and
 * processing_payload_set, and the blocks the real coap_request_missing_q_block2() asks for again (total_len 0: no trailing
 * blocks; MAX_PAYLOADS 65535 for that call: one payload set) = the gap walk */
static char qs_buf[8192]; static size_t qs_len;
static void qs_on_tx(const sim_dgram_t *d) {
  coap_pdu_t *p = coap_pdu_init(0, 0, 0, 8192);
  if (p && coap_pdu_parse(COAP_PROTO_UDP, d->data, d->len, p)) {
    coap_opt_iterator_t oi;
    coap_opt_t *o;
    coap_option_iterator_init(p, &oi, COAP_OPT_ALL);
    while ((o = coap_option_next(&oi)))
      if (oi.number == COAP_OPTION_Q_BLOCK2 && qs_len + 16 < sizeof(qs_buf)) {
        unsigned v = coap_decode_var_bytes(coap_opt_value(o), coap_opt_length(o));
        qs_len += (size_t)snprintf(qs_buf + qs_len, sizeof(qs_buf) - qs_len, "%s%u", qs_len ? "," : "", v >> 4);
        if (v & 0xf) qs_len += (size_t)snprintf(qs_buf + qs_len, sizeof(qs_buf) - qs_len, "!%u", v & 0xf);
      }
  }
  if (p) coap_delete_pdu(p);
}
static void do_qset(unsigned maxPay, unsigned proc, char *seq) {
  static const uint8_t tok[2] = {0xb1, 0xb2};
  if (maxPay < 1 || maxPay > 65535 || proc >= 0x80000000U) { printf("bad-op"); return; }
  sim_reset();
  sim_log_enabled = 0;
  coap_context_t *ctx = sim_new_context();
  coap_session_t *s = sim_new_client(ctx, 5683);
  coap_pdu_t *p;
  coap_lg_crcv_t *lg;
  char *tk, *save = NULL;
  coap_context_set_block_mode(ctx, COAP_BLOCK_USE_LIBCOAP | COAP_BLOCK_SINGLE_BODY);
  s->block_mode = ctx->block_mode | COAP_BLOCK_HAS_Q_BLOCK;
  coap_session_set_mtu(s, 4000);
  p = coap_new_pdu(COAP_MESSAGE_NON, COAP_REQUEST_CODE_GET, s);
  coap_add_token(p, 2, tok);
  coap_add_option(p, COAP_OPTION_URI_PATH, 1, (const uint8_t *)"L");
  coap_lock_lock(ctx, return);
  lg = coap_block_new_lg_crcv(s, p, NULL);
  coap_lock_unlock(ctx);
  if (!lg) { printf("nolg"); coap_delete_pdu(p); goto out; }
  memset(&lg->rec_blocks, 0, sizeof(lg->rec_blocks));
  for (tk = strcmp(seq, "-") ? strtok_r(seq, ",", &save) : NULL; tk; tk = strtok_r(NULL, ",", &save)) {
    unsigned long v = strtoul(tk, 0, 10);
    if (v >= (1UL << 20)) { printf("bad-op"); goto del; }
    update_received_blocks(&lg->rec_blocks, (uint32_t)v);
  }
  printf("ranges="); dump_ranges(&lg->rec_blocks);
  lg->rec_blocks.processing_payload_set = proc;
  coap_session_set_max_payloads(s, (uint16_t)maxPay);
  printf(" all=%d next=%d", check_all_blocks_in_for_payload_set(s, &lg->rec_blocks), check_any_blocks_next_payload_set(s, &lg->rec_blocks));
  coap_session_set_max_payloads(s, 65535);
  lg->block_option = COAP_OPTION_Q_BLOCK2;
  lg->szx = 0; lg->total_len = 0; lg->last_type = COAP_MESSAGE_NON;
  qs_len = 0; qs_buf[0] = 0;
  sim_tx_hook = qs_on_tx;
  coap_lock_lock(ctx, goto del);
  coap_request_missing_q_block2(s, lg);
  coap_lock_unlock(ctx);
  sim_tx_hook = NULL;
  printf(" gaps=%s", qs_len ? qs_buf : "-");
del:
  coap_lock_lock(ctx, goto out);
  coap_block_delete_lg_crcv(s, lg);
  coap_lock_unlock(ctx);
  coap_delete_pdu(p);
out:
  sim_tx_hook = NULL;
  sim_free_all(0);
  sim_log_enabled = 1;
}

/* qreq <maxPayloads> <useM> <szx> <totalLen> <n,n,…> : ONE call of the real coap_request_missing_q_block2() on the rec_blocks built
 * by update_received_blocks() from the numbers, with that MAX_PAYLOADS, block size and total_len, with / without
 * COAP_BLOCK_USE_M_Q_BLOCK: the Q-Block2 options of the request sent (`num.m`, `!` if one carries another SZX) and the new
 * processing_payload_set (`-`: unchanged) */
static char qr_buf[8192]; static size_t qr_len; static unsigned qr_szx;
static void qr_on_tx(const sim_dgram_t *d) {
  coap_pdu_t *p = coap_pdu_init(0, 0, 0, 8192);
  if (p && coap_pdu_parse(COAP_PROTO_UDP, d->data, d->len, p)) {
    coap_opt_iterator_t oi;
    coap_opt_t *o;
    coap_option_iterator_init(p, &oi, COAP_OPT_ALL);
    while ((o = coap_option_next(&oi)))
      if (oi.number == COAP_OPTION_Q_BLOCK2 && qr_len + 24 < sizeof(qr_buf)) {
        unsigned v = coap_decode_var_bytes(coap_opt_value(o), coap_opt_length(o));
        qr_len += (size_t)snprintf(qr_buf + qr_len, sizeof(qr_buf) - qr_len, "%s%u.%u%s", qr_len ? "," : "", v >> 4, (v >> 3) & 1,
                                   (v & 7) == qr_szx ? "" : "!");
      }
  } else if (qr_len + 16 < sizeof(qr_buf))
    qr_len += (size_t)snprintf(qr_buf + qr_len, sizeof(qr_buf) - qr_len, "%sunparsable", qr_len ? "," : "");
  if (p) coap_delete_pdu(p);
}
static void do_qreq(unsigned maxPay, int useM, unsigned szx, size_t totalLen, char *seq) {
  static const uint8_t tok[2] = {0xb1, 0xb2};
  if (maxPay < 1 || maxPay > 65535 || szx > 6) { printf("bad-op"); return; }
  sim_reset();
  sim_log_enabled = 0;
  coap_context_t *ctx = sim_new_context();
  coap_session_t *s = sim_new_client(ctx, 5683);
  coap_pdu_t *p;
  coap_lg_crcv_t *lg;
  char *tk, *save = NULL;
  coap_context_set_block_mode(ctx, COAP_BLOCK_USE_LIBCOAP | COAP_BLOCK_SINGLE_BODY);
  s->block_mode = ctx->block_mode | COAP_BLOCK_HAS_Q_BLOCK | (useM ? COAP_BLOCK_USE_M_Q_BLOCK : 0);
  coap_session_set_mtu(s, 4000);
  p = coap_new_pdu(COAP_MESSAGE_NON, COAP_REQUEST_CODE_GET, s);
  coap_add_token(p, 2, tok);
  coap_add_option(p, COAP_OPTION_URI_PATH, 1, (const uint8_t *)"L");
  coap_lock_lock(ctx, return);
  lg = coap_block_new_lg_crcv(s, p, NULL);
  coap_lock_unlock(ctx);
  if (!lg) { printf("nolg"); coap_delete_pdu(p); goto out; }
  memset(&lg->rec_blocks, 0, sizeof(lg->rec_blocks));
  for (tk = strcmp(seq, "-") ? strtok_r(seq, ",", &save) : NULL; tk; tk = strtok_r(NULL, ",", &save)) {
    unsigned long v = strtoul(tk, 0, 10);
    if (v >= (1UL << 20)) { printf("bad-op"); goto del; }
    update_received_blocks(&lg->rec_blocks, (uint32_t)v);
  }
  printf("ranges="); dump_ranges(&lg->rec_blocks);
  lg->rec_blocks.processing_payload_set = 0x7ffffff;
  coap_session_set_max_payloads(s, (uint16_t)maxPay);
  lg->block_option = COAP_OPTION_Q_BLOCK2;
  lg->szx = (uint8_t)szx; lg->total_len = totalLen; lg->last_type = COAP_MESSAGE_NON;
  qr_len = 0; qr_buf[0] = 0; qr_szx = szx;
  sim_tx_hook = qr_on_tx;
  coap_lock_lock(ctx, goto del);
  coap_request_missing_q_block2(s, lg);
  coap_lock_unlock(ctx);
  sim_tx_hook = NULL;
  printf(" req=%s", qr_len ? qr_buf : "-");
  if (lg->rec_blocks.processing_payload_set == 0x7ffffff) printf(" pps=-"); else printf(" pps=%u", (unsigned)lg->rec_blocks.processing_payload_set);
del:
  coap_lock_lock(ctx, goto out);
  coap_block_delete_lg_crcv(s, lg);
  coap_lock_unlock(ctx);
  coap_delete_pdu(p);
out:
  sim_tx_hook = NULL;
  sim_free_all(0);
  sim_log_enabled = 1;
}

/* qsend <maxPayloads> <szx> <bodyLen> <num> <m> : a client session with Q-Block negotiated PUTs a body (NON): `first=` the first
 * burst (coap_send → coap_send_q_blocks with COAP_SEND_INC_PDU: block 0 and what follows it), then the real
 * coap_send_q_blocks(session, lg_xmit, {num, m, szx}, &lg_xmit->pdu, COAP_SEND_SKIP_PDU) as the payload-set timer calls it: `next=` the
 * blocks it transmits (`num.m:len`, `!` if the payload is not the body's bytes at num·chunk or SZX differs) */
static char qn_buf[8192]; static size_t qn_len; static const uint8_t *qn_body; static size_t qn_bodylen; static unsigned qn_szx;
static void qn_on_tx(const sim_dgram_t *d) {
  coap_pdu_t *p = coap_pdu_init(0, 0, 0, 4096);
  if (p && coap_pdu_parse(COAP_PROTO_UDP, d->data, d->len, p) && qn_len + 40 < sizeof(qn_buf)) {
    coap_block_b_t b;
    size_t l = 0; const uint8_t *dd = NULL;
    coap_get_data(p, &l, &dd);
    if (coap_get_block_b(NULL, p, COAP_OPTION_Q_BLOCK1, &b)) {
      size_t off = (size_t)b.num << (qn_szx + 4);
      int ok = b.szx == qn_szx && off < qn_bodylen && off + l <= qn_bodylen && !memcmp(dd, qn_body + off, l);
      qn_len += (size_t)snprintf(qn_buf + qn_len, sizeof(qn_buf) - qn_len, "%s%u.%u:%zu%s", qn_len ? "+" : "", b.num, b.m, l, ok ? "" : "!");
    } else
      qn_len += (size_t)snprintf(qn_buf + qn_len, sizeof(qn_buf) - qn_len, "%snoblock", qn_len ? "+" : "");
  } else if (qn_len + 16 < sizeof(qn_buf))
    qn_len += (size_t)snprintf(qn_buf + qn_len, sizeof(qn_buf) - qn_len, "%sunparsable", qn_len ? "+" : "");
  if (p) coap_delete_pdu(p);
}
static void do_qsend(unsigned maxPay, unsigned szx, size_t bodyLen, unsigned num, int m) {
  static const uint8_t tok[4] = {0xa2, 0xa2, 0xa2, 0xa2};
  if (szx > 6 || bodyLen <= ((size_t)16 << szx) || bodyLen > 70000 || maxPay < 1 || maxPay > 255 || num >= (1u << 20) || m < 0 || m > 1) { printf("bad-op"); return; }
  sim_reset();
  sim_log_enabled = 0;
  uint8_t *body = mk_body(bodyLen, 3), buf[4];
  coap_context_t *ctx = sim_new_context();
  coap_session_t *s = sim_new_client(ctx, 5683);
  coap_pdu_t *p;
  coap_context_set_block_mode(ctx, COAP_BLOCK_USE_LIBCOAP | COAP_BLOCK_SINGLE_BODY);
  s->block_mode = ctx->block_mode | COAP_BLOCK_HAS_Q_BLOCK;
  coap_session_set_max_payloads(s, (uint16_t)maxPay);
  qn_len = 0; qn_buf[0] = 0; qn_body = body; qn_bodylen = bodyLen; qn_szx = szx;
  sim_tx_hook = qn_on_tx;
  rel_count = 0;
  p = coap_new_pdu(COAP_MESSAGE_NON, COAP_REQUEST_CODE_PUT, s);
  coap_add_token(p, 4, tok);
  coap_add_option(p, COAP_OPTION_URI_PATH, 1, (const uint8_t *)"b");
  coap_add_option(p, COAP_OPTION_Q_BLOCK1, coap_encode_var_safe(buf, sizeof(buf), szx), buf);
  if (!coap_add_data_large_request(s, p, bodyLen, body, rel_cb, NULL)) { printf("fail"); coap_delete_pdu(p); goto out; }
  if (coap_send(s, p) == COAP_INVALID_MID) { printf("send-fail"); goto out; }
  printf("first=%s", qn_len ? qn_buf : "-");
  if (!s->lg_xmit || s->lg_xmit->blk_size != szx) { printf(" nolg"); goto out; }
  {
    coap_block_b_t block;
    memset(&block, 0, sizeof(block));
    block.num = num; block.m = (unsigned)m; block.szx = block.aszx = szx;
    qn_len = 0; qn_buf[0] = 0;
    coap_lock_lock(ctx, goto out);
    coap_send_q_blocks(s, s->lg_xmit, block, &s->lg_xmit->pdu, COAP_SEND_SKIP_PDU);
    coap_lock_unlock(ctx);
    printf(" next=%s", qn_len ? qn_buf : "-");
  }
out:
  sim_tx_hook = NULL;
  sim_free_all(0);
  sim_log_enabled = 1;
  printf(" rel=%d", rel_count);
  free(body);
}

#include "block_sim.h"

static void step1(char *line) {
  char *w[16];
  int n = h_words(line, w, 16);
  if (n < 1) { printf("bad-op"); return; }
  if (!strcmp(w[0], "bopt") && n == 2) {
    size_t len; uint8_t *b = h_unhex(w[1], &len);
    if (!b) { printf("bad-op"); return; }
    do_bopt(b, len); free(b);
  } else if (!strcmp(w[0], "benc") && n == 4) {
    do_benc((unsigned)strtoul(w[1], 0, 10), (unsigned)strtoul(w[2], 0, 10), (unsigned)strtoul(w[3], 0, 10));
  } else if (!strcmp(w[0], "setup") && n == 6) {
    do_setup(strtoull(w[1], 0, 10), strtoull(w[2], 0, 10), (unsigned)strtoul(w[3], 0, 10), (unsigned)strtoul(w[4], 0, 10),
             strtoull(w[5], 0, 10));
  } else if (!strcmp(w[0], "writeb") && n == 6) {
    do_writeb(strtoull(w[1], 0, 10), strtoull(w[2], 0, 10), (unsigned)strtoul(w[3], 0, 10), (unsigned)strtoul(w[4], 0, 10),
              strtoull(w[5], 0, 10));
  } else if (!strcmp(w[0], "adl") && n == 6) {
    do_adl(strtoull(w[1], 0, 10), strtoull(w[2], 0, 10), strcmp(w[3], "-") ? atoi(w[3]) : -1, (unsigned)strtoul(w[4], 0, 10),
           strtoull(w[5], 0, 10));
  } else if (!strcmp(w[0], "adlx") && n == 5 && (!strcmp(w[1], "q") || !strcmp(w[1], "r"))) {
    do_adlx(w[1][0] == 'q', strtoull(w[2], 0, 10), (unsigned)strtoul(w[3], 0, 10), w[4]);
  } else if (!strcmp(w[0], "slice") && n == 5) {
    do_slice((unsigned)strtoul(w[1], 0, 10), (unsigned)strtoul(w[2], 0, 10), strtoull(w[3], 0, 10), (unsigned)strtoul(w[4], 0, 10));
  } else if (!strcmp(w[0], "rb") && n == 4) {
    do_rb(w[1], (unsigned)strtoul(w[2], 0, 10), (unsigned)strtoul(w[3], 0, 10));
  } else if (!strcmp(w[0], "bbody") && n == 4) {
    do_body(strtoull(w[1], 0, 10), (unsigned)strtoul(w[2], 0, 10), w[3]);
  } else if (!strcmp(w[0], "srcv") && n == 6) {
    do_srcv((unsigned)strtoul(w[1], 0, 10), strtoull(w[2], 0, 10), (unsigned)strtoul(w[3], 0, 10),
            strcmp(w[4], "-") ? atol(w[4]) : -1, w[5]);
  } else if (!strcmp(w[0], "srcv2") && n == 6) {
    do_srcv2((unsigned)strtoul(w[1], 0, 10), strtoull(w[2], 0, 10), (unsigned)strtoul(w[3], 0, 10),
             strcmp(w[4], "-") ? atol(w[4]) : -1, w[5]);
  } else if (!strcmp(w[0], "srcv3") && n == 8) {
    do_srcv3((unsigned)strtoul(w[1], 0, 10), strtoull(w[2], 0, 10), (unsigned)strtoul(w[3], 0, 10), strtoull(w[4], 0, 10),
             (unsigned)strtoul(w[5], 0, 10), atoi(w[6]), w[7]);
  } else if (!strcmp(w[0], "crcv") && n == 6) {
    do_crcv(atoi(w[1]), strtoull(w[2], 0, 10), (unsigned)strtoul(w[3], 0, 10), strcmp(w[4], "-") ? atol(w[4]) : -1, w[5]);
  } else if (!strcmp(w[0], "crcvs") && n == 7) {
    do_crcv_x(atoi(w[1]), strtoull(w[2], 0, 10), (unsigned)strtoul(w[3], 0, 10), strcmp(w[4], "-") ? atol(w[4]) : -1, w[6], 1,
              atoi(w[5]) != 0, 0);
  } else if (!strcmp(w[0], "crcvo") && n == 8) {
    /* crcvs with a NUM OFFSET: the Block2 option on the wire carries num + <off>, the payload is the slice at num */
    if (strtoull(w[6], 0, 10) > 0xFFFFF || strtoull(w[2], 0, 10) > 65536) { printf("bad-op"); return; }
    do_crcv_x(atoi(w[1]), strtoull(w[2], 0, 10), (unsigned)strtoul(w[3], 0, 10), strcmp(w[4], "-") ? atol(w[4]) : -1, w[7], 1,
              atoi(w[5]) != 0, (unsigned)strtoul(w[6], 0, 10));
  } else if (!strcmp(w[0], "crcvt") && n == 8) {
    do_crcvt(atoi(w[1]), strtoull(w[2], 0, 10), (unsigned)strtoul(w[3], 0, 10), strcmp(w[4], "-") ? atol(w[4]) : -1, atoi(w[5]) != 0,
             strtoull(w[6], 0, 10), w[7]);
  } else if (!strcmp(w[0], "ctok") && n == 5) {
    do_ctok(atoi(w[1]) != 0, w[2], w[3], w[4]);
  } else if (!strcmp(w[0], "xmit2") && n == 6) {
    size_t m1 = 1152, m2 = 0;
    if (sscanf(w[4], "%zu:%zu", &m1, &m2) != 2) { m1 = 1152; m2 = strtoull(w[4], 0, 10); }
    if (m1 < 8) { printf("bad-op"); return; }
    do_xmit2((unsigned)strtoul(w[1], 0, 10), strtoull(w[2], 0, 10), (unsigned)strtoul(w[3], 0, 10), m1, m2, w[5]);
  } else if (!strcmp(w[0], "xmit1") && n == 6) {
    do_xmit1(strcmp(w[1], "-") ? atoi(w[1]) : -1, strtoull(w[2], 0, 10), (unsigned)strtoul(w[3], 0, 10), (unsigned)strtoul(w[4], 0, 10), w[5]);
  } else if (!strcmp(w[0], "xmit1t") && n == 8) {
    do_xmit1t(strcmp(w[1], "-") ? atoi(w[1]) : -1, strtoull(w[2], 0, 10), (unsigned)strtoul(w[3], 0, 10), (unsigned)strtoul(w[4], 0, 10),
              atoi(w[5]) != 0, strtoull(w[6], 0, 10), w[7]);
  } else if (!strcmp(w[0], "q408") && n == 8) {
    do_q408((unsigned)strtoul(w[1], 0, 10), strtoull(w[2], 0, 10), (unsigned)strtoul(w[3], 0, 10), (unsigned)strtoul(w[4], 0, 10),
            strcmp(w[5], "-") ? atoi(w[5]) : -1, atoi(w[6]), w[7]);
  } else if (!strcmp(w[0], "qenc") && n == 2) {
    do_qenc(w[1]);
  } else if (!strcmp(w[0], "qset") && n == 4) {
    do_qset((unsigned)strtoul(w[1], 0, 10), (unsigned)strtoul(w[2], 0, 10), w[3]);
  } else if (!strcmp(w[0], "qreq") && n == 6) {
    do_qreq((unsigned)strtoul(w[1], 0, 10), atoi(w[2]), (unsigned)strtoul(w[3], 0, 10), strtoull(w[4], 0, 10), w[5]);
  } else if (!strcmp(w[0], "qsend") && n == 6) {
    do_qsend((unsigned)strtoul(w[1], 0, 10), (unsigned)strtoul(w[2], 0, 10), strtoull(w[3], 0, 10), (unsigned)strtoul(w[4], 0, 10), atoi(w[5]));
  } else if (!strcmp(w[0], "xfer")) {
    do_xfer(n, w);
  } else
    printf("bad-op");
}

/* stdout captured into a string (glibc: `stdout` is an assignable variable) */
static char *h_cap; static size_t h_caplen; static FILE *h_saved;
static void cap_begin(void) { fflush(stdout); h_saved = stdout; stdout = open_memstream(&h_cap, &h_caplen); }
static char *cap_end(void) { fclose(stdout); stdout = h_saved; return h_cap; }

static void step(char *line) {
  long live0 = h_live;
  if (!strncmp(line, "crcv ", 5) || !strncmp(line, "crcvs ", 6) || !strncmp(line, "crcvo ", 6) || !strncmp(line, "crcvt ", 6) || !strncmp(line, "srcv", 4) || !strncmp(line, "q408 ", 5)) {
    /* whatever the receiving application is handed must not depend on bytes nobody wrote */
    char *copy = strdup(line), *a, *b;
    h_poison = 0xA5; cap_begin(); step1(line); a = cap_end();
    h_poison = 0x5A; cap_begin(); step1(copy); b = cap_end();
    h_poison = 0xA5;
    fputs(a, stdout);
    if (strcmp(a, b)) printf(" UNINIT");
    free(a); free(b); free(copy);
  } else
    step1(line);
  if (h_live != live0) printf(" LEAK=%ld", h_live - live0);
}

H_MAIN_LOOP(step)
