/* H-thread (d) for C13 — SUPPORT EVIDENCE (a test, not the proof): a ThreadSanitizer multi-thread smoke run.
 *
 *   thrsmoke <nthreads 2..8> <seed> <milliseconds>
 *
 * One context acts as server (UDP + TCP endpoint on loopback, resources /r /obs /async) and as client (UDP and TCP
 * client sessions to its own endpoints, one UDP session to a closed port for NACKs).  One thread sits in
 * coap_io_process(); <nthreads> application threads issue send / notify / session create+release / resource
 * add+delete / cache / ping calls on the same context (and a repeated coap_startup()).  Every callback type the property enumerates is registered
 * (request, response, NACK, event, ping, pong) and re-enters the public API.  A watchdog checks that every thread keeps
 * making progress.  Output: one line, `ok` or `stuck thread=<i> op=<name>`; TSan reports go to stderr.
 */
#include <coap3/coap.h>
#include <pthread.h>
#include <stdio.h>
#include <stdlib.h>
#include <string.h>
#include <stdatomic.h>
#include <unistd.h>
#include <time.h>
#include <arpa/inet.h>

static coap_context_t *ctx;
static coap_session_t *udp_s, *tcp_s, *dead_s;
static coap_resource_t *res_r, *res_obs;
static coap_address_t udp_addr, tcp_addr, dead_addr;
static atomic_int stop_flag;
static atomic_long cb_count[8];   /* request, response, nack, event, ping, pong, async */
#define MAXT 8
static atomic_long progress[MAXT + 1];
static const char *volatile cur_op[MAXT + 1];

static void reenter(coap_session_t *s) {
  /* public API calls from inside a callback (all COAP_API wrappers taking the global lock) */
  unsigned char b[2];
  (void)coap_new_message_id(s);
  (void)coap_session_max_pdu_size(s);
  coap_prng(b, sizeof(b));
}

static void hnd_get(coap_resource_t *r, coap_session_t *s, const coap_pdu_t *req, const coap_string_t *q, coap_pdu_t *resp) {
  (void)r; (void)q; (void)req;
  atomic_fetch_add(&cb_count[0], 1);
  reenter(s);
  coap_pdu_set_code(resp, COAP_RESPONSE_CODE_CONTENT);
  coap_add_data(resp, 2, (const uint8_t *)"hi");
}

static void hnd_put(coap_resource_t *r, coap_session_t *s, const coap_pdu_t *req, const coap_string_t *q, coap_pdu_t *resp) {
  (void)r; (void)q; (void)req;
  atomic_fetch_add(&cb_count[0], 1);
  reenter(s);
  coap_resource_notify_observers(res_obs, NULL);      /* API call on another object from inside a request handler */
  coap_pdu_set_code(resp, COAP_RESPONSE_CODE_CHANGED);
}

static void hnd_async(coap_resource_t *r, coap_session_t *s, const coap_pdu_t *req, const coap_string_t *q, coap_pdu_t *resp) {
  coap_async_t *a;
  (void)r; (void)q;
  atomic_fetch_add(&cb_count[6], 1);
  a = coap_find_async(s, coap_pdu_get_token(req));
  if (!a) {
    a = coap_register_async(s, req, COAP_TICKS_PER_SECOND / 50);
    if (a) return;                                    /* answered later: the library calls this handler again */
  }
  /* second invocation (from coap_check_async): answer now; the library releases the async entry itself */
  coap_pdu_set_code(resp, COAP_RESPONSE_CODE_CONTENT);
}

static coap_response_t hnd_response(coap_session_t *s, const coap_pdu_t *sent, const coap_pdu_t *rcv, const coap_mid_t mid) {
  (void)sent; (void)rcv; (void)mid;
  atomic_fetch_add(&cb_count[1], 1);
  reenter(s);
  return COAP_RESPONSE_OK;
}

static void hnd_nack(coap_session_t *s, const coap_pdu_t *sent, const coap_nack_reason_t reason, const coap_mid_t mid) {
  (void)sent; (void)reason; (void)mid;
  atomic_fetch_add(&cb_count[2], 1);
  reenter(s);
}

static int hnd_event(coap_session_t *s, const coap_event_t ev) {
  (void)ev;
  atomic_fetch_add(&cb_count[3], 1);
  reenter(s);
  return 0;
}

static void hnd_ping(coap_session_t *s, const coap_pdu_t *rcv, const coap_mid_t mid) {
  (void)rcv; (void)mid;
  atomic_fetch_add(&cb_count[4], 1);
  reenter(s);
}

static void hnd_pong(coap_session_t *s, const coap_pdu_t *rcv, const coap_mid_t mid) {
  (void)rcv; (void)mid;
  atomic_fetch_add(&cb_count[5], 1);
  reenter(s);
}

static void send_req(coap_session_t *s, coap_pdu_type_t type, coap_pdu_code_t code, const char *path, int observe, unsigned tokv) {
  uint8_t tok[4];
  coap_pdu_t *p = coap_new_pdu(type, code, s);
  if (!p) return;
  memcpy(tok, &tokv, 4);
  coap_add_token(p, 4, tok);
  if (observe) { uint8_t z = 0; coap_add_option(p, COAP_OPTION_OBSERVE, 0, &z); }
  coap_add_option(p, COAP_OPTION_URI_PATH, strlen(path), (const uint8_t *)path);
  coap_send(s, p);
}

static void *io_thread(void *arg) {
  (void)arg;
  while (!atomic_load(&stop_flag)) {
    cur_op[MAXT] = "coap_io_process";
    coap_io_process(ctx, 20);
    atomic_fetch_add(&progress[MAXT], 1);
  }
  return NULL;
}

typedef struct { int idx; unsigned seed; } warg_t;

static void *app_thread(void *arg) {
  warg_t *w = (warg_t *)arg;
  unsigned st = w->seed * 2654435761u + (unsigned)w->idx * 40503u + 1;
  unsigned k = 0;
  while (!atomic_load(&stop_flag)) {
    st = st * 1103515245u + 12345u;
    unsigned op = (st >> 16) % 13;
    k++;
    switch (op) {
    case 0: cur_op[w->idx] = "send CON GET /r";
      send_req(udp_s, COAP_MESSAGE_CON, COAP_REQUEST_CODE_GET, "r", 0, (unsigned)w->idx << 24 | k); break;
    case 1: cur_op[w->idx] = "send NON GET /r";
      send_req(udp_s, COAP_MESSAGE_NON, COAP_REQUEST_CODE_GET, "r", 0, (unsigned)w->idx << 24 | k); break;
    case 2: cur_op[w->idx] = "send PUT /r (handler notifies)";
      send_req(udp_s, COAP_MESSAGE_NON, COAP_REQUEST_CODE_PUT, "r", 0, (unsigned)w->idx << 24 | k); break;
    case 3: cur_op[w->idx] = "send GET /obs observe";
      send_req(udp_s, COAP_MESSAGE_NON, COAP_REQUEST_CODE_GET, "obs", 1, (unsigned)w->idx << 24 | (k & 3)); break;
    case 4: cur_op[w->idx] = "coap_resource_notify_observers";
      coap_resource_notify_observers(res_obs, NULL); break;
    case 5: {
      cur_op[w->idx] = "session create+send+release";
      coap_session_t *s = coap_new_client_session(ctx, NULL, &udp_addr, COAP_PROTO_UDP);
      if (s) {
        send_req(s, COAP_MESSAGE_NON, COAP_REQUEST_CODE_GET, "r", 0, (unsigned)w->idx << 24 | k);
        coap_session_release(s);
      }
      break;
    }
    case 6: {
      char name[16];
      cur_op[w->idx] = "resource add+delete";
      snprintf(name, sizeof(name), "t%d", w->idx);
      /* coap_make_str_const() hands out unsynchronised static storage (documented): not used from the threads */
      coap_resource_t *r = coap_resource_init(coap_new_str_const((const uint8_t *)name, strlen(name)), COAP_RESOURCE_FLAGS_RELEASE_URI);
      if (r) {
        coap_register_request_handler(r, COAP_REQUEST_GET, hnd_get);
        coap_add_resource(ctx, r);
        send_req(udp_s, COAP_MESSAGE_NON, COAP_REQUEST_CODE_GET, name, 0, (unsigned)w->idx << 24 | k);
        coap_delete_resource(ctx, r);
      }
      break;
    }
    case 7: {
      cur_op[w->idx] = "cache entry";
      coap_pdu_t *p = coap_new_pdu(COAP_MESSAGE_NON, COAP_REQUEST_CODE_GET, udp_s);
      if (p) {
        char path[16];
        snprintf(path, sizeof(path), "c%d-%u", w->idx, k & 7);
        coap_add_option(p, COAP_OPTION_URI_PATH, strlen(path), (const uint8_t *)path);
        if (!coap_cache_get_by_pdu(udp_s, p, COAP_CACHE_NOT_SESSION_BASED))
          coap_new_cache_entry(udp_s, p, COAP_CACHE_NOT_RECORD_PDU, COAP_CACHE_NOT_SESSION_BASED, 1);
        coap_delete_pdu(p);
      }
      break;
    }
    case 8: cur_op[w->idx] = "send GET /async";
      send_req(udp_s, COAP_MESSAGE_NON, COAP_REQUEST_CODE_GET, "async", 0, (unsigned)w->idx << 24 | k); break;
    case 9: cur_op[w->idx] = "ping";
      if (tcp_s) coap_session_send_ping(tcp_s);
      coap_session_send_ping(udp_s);
      break;
    case 10: cur_op[w->idx] = "send CON to closed port (NACK)";
      if (dead_s) send_req(dead_s, COAP_MESSAGE_CON, COAP_REQUEST_CODE_GET, "r", 0, (unsigned)w->idx << 24 | k);
      break;
    case 12: cur_op[w->idx] = "coap_startup (repeated)";
      coap_startup();              /* documented: ignored after the first call — also while other threads are in the library */
      break;
    default: cur_op[w->idx] = "send TCP GET /r";
      if (tcp_s) send_req(tcp_s, COAP_MESSAGE_CON, COAP_REQUEST_CODE_GET, "r", 0, (unsigned)w->idx << 24 | k);
      break;
    }
    cur_op[w->idx] = "between ops";
    atomic_fetch_add(&progress[w->idx], 1);
    if ((k & 7) == 0) usleep(200);
  }
  return NULL;
}

static long now_ms(void) {
  struct timespec ts;
  clock_gettime(CLOCK_MONOTONIC, &ts);
  return ts.tv_sec * 1000L + ts.tv_nsec / 1000000L;
}

static void loop_addr(coap_address_t *a, int port) {
  coap_address_init(a);
  a->addr.sin.sin_family = AF_INET;
  a->addr.sin.sin_addr.s_addr = htonl(INADDR_LOOPBACK);
  a->addr.sin.sin_port = htons((uint16_t)port);
  a->size = sizeof(struct sockaddr_in);
}

int main(int argc, char **argv) {
  int n = argc > 1 ? atoi(argv[1]) : 2, ms = argc > 3 ? atoi(argv[3]) : 500;
  unsigned seed = argc > 2 ? (unsigned)atoi(argv[2]) : 1;
  pthread_t io, th[MAXT];
  warg_t wa[MAXT];
  int port, i;
  if (n < 1) n = 1;
  if (n > MAXT) n = MAXT;
  setvbuf(stdout, NULL, _IOLBF, 0);
  coap_startup();
  coap_set_log_level(getenv("SMOKE_LOG") ? atoi(getenv("SMOKE_LOG")) : COAP_LOG_EMERG);
  if (!coap_threadsafe_is_supported()) { printf("ok\n"); return 0; }   /* nothing is advertised */
  ctx = coap_new_context(NULL);
  if (!ctx) { printf("setup-failed context\n"); return 0; }
  coap_context_set_block_mode(ctx, COAP_BLOCK_USE_LIBCOAP);
  /* endpoints on a port derived from the pid (several smoke runs may be in flight) */
  for (i = 0; i < 50; i++) {
    port = 20000 + (int)((getpid() * 7 + i * 131) % 30000);
    loop_addr(&udp_addr, port);
    if (coap_new_endpoint(ctx, &udp_addr, COAP_PROTO_UDP)) break;
  }
  if (i == 50) { printf("setup-failed endpoint\n"); return 0; }
  loop_addr(&tcp_addr, port);
  if (!coap_new_endpoint(ctx, &tcp_addr, COAP_PROTO_TCP)) tcp_addr.size = 0;
  loop_addr(&dead_addr, 9);          /* discard port: nothing listens → ICMP port unreachable → NACK */

  res_r = coap_resource_init(coap_make_str_const("r"), 0);
  coap_register_request_handler(res_r, COAP_REQUEST_GET, hnd_get);
  coap_register_request_handler(res_r, COAP_REQUEST_PUT, hnd_put);
  coap_add_resource(ctx, res_r);
  res_obs = coap_resource_init(coap_make_str_const("obs"), 0);
  coap_register_request_handler(res_obs, COAP_REQUEST_GET, hnd_get);
  coap_resource_set_get_observable(res_obs, 1);
  coap_add_resource(ctx, res_obs);
  {
    coap_resource_t *ra = coap_resource_init(coap_make_str_const("async"), 0);
    coap_register_request_handler(ra, COAP_REQUEST_GET, hnd_async);
    coap_add_resource(ctx, ra);
  }
  coap_register_response_handler(ctx, hnd_response);
  coap_register_nack_handler(ctx, hnd_nack);
  coap_register_event_handler(ctx, hnd_event);
  coap_register_ping_handler(ctx, hnd_ping);
  coap_register_pong_handler(ctx, hnd_pong);

  udp_s = coap_new_client_session(ctx, NULL, &udp_addr, COAP_PROTO_UDP);
  tcp_s = tcp_addr.size ? coap_new_client_session(ctx, NULL, &tcp_addr, COAP_PROTO_TCP) : NULL;
  dead_s = coap_new_client_session(ctx, NULL, &dead_addr, COAP_PROTO_UDP);
  if (!udp_s) { printf("setup-failed session\n"); return 0; }

  /* warm-up on this thread alone: the first request of a client session waits inside coap_send() for the peer's
   * first answer (CSM exchange for TCP) by running the I/O loop itself */
  if (tcp_s) send_req(tcp_s, COAP_MESSAGE_CON, COAP_REQUEST_CODE_GET, "r", 0, 1);
  send_req(udp_s, COAP_MESSAGE_CON, COAP_REQUEST_CODE_GET, "r", 0, 2);
  for (i = 0; i < 10; i++) coap_io_process(ctx, 10);

  pthread_create(&io, NULL, io_thread, NULL);
  for (i = 0; i < n; i++) { wa[i].idx = i; wa[i].seed = seed; pthread_create(&th[i], NULL, app_thread, &wa[i]); }

  /* watchdog: every thread (and the I/O loop) must make progress */
  {
    long t0 = now_ms(), last_change[MAXT + 1], last_val[MAXT + 1];
    for (i = 0; i <= MAXT; i++) { last_change[i] = t0; last_val[i] = -1; }
    for (;;) {
      long t = now_ms();
      usleep(20000);
      for (i = 0; i <= MAXT; i++) {
        long v;
        if (i < MAXT && i >= n) continue;
        v = atomic_load(&progress[i]);
        if (v != last_val[i]) { last_val[i] = v; last_change[i] = t; }
        else if (t - last_change[i] > 8000) {
          printf("stuck thread=%s%d op=%s\n", i == MAXT ? "io" : "", i == MAXT ? 0 : i, cur_op[i] ? cur_op[i] : "?");
          fflush(stdout);
          _exit(0);
        }
      }
      if (t - t0 >= ms) break;
    }
  }
  atomic_store(&stop_flag, 1);
  {
    /* joining must also complete: a thread blocked forever inside an API call is a violation */
    struct timespec dl;
    clock_gettime(CLOCK_REALTIME, &dl);
    dl.tv_sec += 10;
    for (i = 0; i < n; i++)
      if (pthread_timedjoin_np(th[i], NULL, &dl)) { printf("stuck thread=%d op=%s (at shutdown)\n", i, cur_op[i]); fflush(stdout); _exit(0); }
    if (pthread_timedjoin_np(io, NULL, &dl)) { printf("stuck thread=io op=coap_io_process (at shutdown)\n"); fflush(stdout); _exit(0); }
  }
  if (getenv("SMOKE_STATS"))
    fprintf(stderr, "callbacks: request=%ld response=%ld nack=%ld event=%ld ping=%ld pong=%ld async=%ld\n",
            (long)cb_count[0], (long)cb_count[1], (long)cb_count[2], (long)cb_count[3], (long)cb_count[4], (long)cb_count[5], (long)cb_count[6]);
  coap_session_release(udp_s);
  if (tcp_s) coap_session_release(tcp_s);
  if (dead_s) coap_session_release(dead_s);
  coap_free_context(ctx);
  coap_cleanup();
  printf("ok\n");
  return 0;
}
