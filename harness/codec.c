/* H-pure harness for the codec properties: drives libcoap's real PDU code
 * in-process, one operation per input line, one canonical output line.
 *
 *   parse <udp|tcp|ws> <hex>
 *   build <proto> <maxsize> <type> <code> <mid> <ops>      (C01) a PDU assembled through the API
 *   edit  <proto> <maxsize> <wire> <ops>                   (C04) a received PDU edited in place
 *     <ops> = `-` or `;`-separated calls: T<val> coap_add_token, O<num>:<val> coap_add_option,
 *             I<num>:<val> coap_insert_option, U<num>:<val> coap_update_option, R<num> coap_remove_option,
 *             K<val> coap_update_token, D<val> coap_add_data
 *     <val>/<wire> = hex, `-` (empty) or `*<len>*<seed>` (byte i = (seed + 7 i + 13 (i / 256)) mod 256)
 *   dupb / dupe: see the comment above dup_and_finish() below
 *   wsw <c|s> <items>                                      (C01) coap_ws_write / coap_ws_close: see the comment above do_wsw()
 *   output: [edit: start=<used_size>.<fnv32(buffer)>] steps=<rc>.<used_size>.<fnv32(buffer)>,… hdr=<n> bytes=<D> built=<accessor dump> reparse=<dump|rej>
 *           (byte strings longer than 48 bytes as #<len>.<fnv32>.<first 8>..<last 8>)
 */
#include "coap3/coap_libcoap_build.h"
#include "hcommon.h"

static void h_init(void) {
  coap_startup();
  coap_set_log_level(getenv("H_LOG") ? atoi(getenv("H_LOG")) : COAP_LOG_EMERG);
}

static coap_proto_t proto_of(const char *s) {
  if (!strcmp(s, "udp")) return COAP_PROTO_UDP;
  if (!strcmp(s, "tcp")) return COAP_PROTO_TCP;
  if (!strcmp(s, "ws")) return COAP_PROTO_WS;
  /* the secured transports use the framing of their plain counterparts (RFC 7252 §9, RFC 8323 §3, §8) */
  if (!strcmp(s, "dtls")) return COAP_PROTO_DTLS;
  if (!strcmp(s, "tls")) return COAP_PROTO_TLS;
  if (!strcmp(s, "wss")) return COAP_PROTO_WSS;
  return COAP_PROTO_NONE;
}

/* the accessor dump: header fields, token, options through the iterator, payload */
static void dump_pdu(const coap_pdu_t *pdu) {
  coap_opt_iterator_t oi;
  coap_opt_t *opt;
  coap_bin_const_t tok = coap_pdu_get_token(pdu);
  size_t len = 0; const uint8_t *data = NULL;
  int first = 1;
  printf("ok t=%d c=%d m=%d tok=", (int)coap_pdu_get_type(pdu), (int)coap_pdu_get_code(pdu), (int)(uint16_t)coap_pdu_get_mid(pdu));
  h_puthex(stdout, tok.s, tok.length);
  printf(" opts=");
  if (coap_option_iterator_init(pdu, &oi, COAP_OPT_ALL)) {
    while ((opt = coap_option_next(&oi))) {
      if (!first) fputc(',', stdout);
      first = 0;
      printf("%u:", (unsigned)oi.number);
      h_puthex(stdout, coap_opt_value(opt), coap_opt_length(opt));
    }
  }
  if (first) fputc('-', stdout);
  printf(" pl=");
  if (coap_get_data(pdu, &len, &data)) h_puthex(stdout, data, len); else fputc('-', stdout);
}

/* what reaches the protocol layer for one received unit, parsed into pdu */
static int parse_into(coap_proto_t proto, const uint8_t *data, size_t len, coap_pdu_t *pdu) {
  int ok = 0;
  if (proto == COAP_PROTO_TCP || proto == COAP_PROTO_TLS) {
    /* the framing arithmetic of coap_read_session(): the input must be exactly one frame */
    if (len >= 1) {
      size_t hdr_size = coap_pdu_parse_header_size(proto, data);
      size_t tkl = data[0] & 0x0f;
      size_t tok_ext_bytes = tkl == COAP_TOKEN_EXT_1B_TKL ? 1 : tkl == COAP_TOKEN_EXT_2B_TKL ? 2 : 0;
      if (hdr_size && len >= hdr_size + tok_ext_bytes) {
        size_t size = coap_pdu_parse_size(proto, data, hdr_size + tok_ext_bytes);
        if (hdr_size + size == len && size <= COAP_DEFAULT_MAX_PDU_RX_SIZE &&
            (pdu->alloc_size >= size || coap_pdu_resize(pdu, size))) {
          pdu->hdr_size = (uint8_t)hdr_size;
          pdu->used_size = size;
          memcpy(pdu->token - hdr_size, data, len);
          ok = coap_pdu_parse_header(pdu, proto) && (size == 0 || coap_pdu_parse_opt(pdu));
        }
      }
    }
  } else {
    ok = coap_pdu_parse(proto, data, len, pdu);
  }
  return ok;
}

static void do_parse(coap_proto_t proto, const uint8_t *data, size_t len) {
  coap_pdu_t *pdu = coap_pdu_init(0, 0, 0, COAP_DEFAULT_MAX_PDU_RX_SIZE - COAP_PDU_MAX_TCP_HEADER_SIZE);
  if (!pdu) { printf("fail"); return; }
  if (parse_into(proto, data, len, pdu)) dump_pdu(pdu); else printf("rej");
  coap_delete_pdu(pdu);
}

/* ---- build / edit (C01, C04) ---- */
static FILE *OUT;
static uint32_t fnv32(const uint8_t *b, size_t n) {
  uint32_t h = 2166136261u;
  for (size_t i = 0; i < n; i++) { h ^= b[i]; h *= 16777619u; }
  return h;
}

static void put_dg(const uint8_t *b, size_t n) {
  if (n <= 48) { h_puthex(OUT, b, n); return; }
  fprintf(OUT, "#%zu.%08x.", n, fnv32(b, n));
  h_puthex(OUT, b, 8); fprintf(OUT, ".."); h_puthex(OUT, b + n - 8, 8);
}

/* <val>: hex | - | *len*seed ; exact-size heap buffer */
static uint8_t *get_val(const char *s, size_t *len) {
  if (s[0] == 0) { *len = 0; return (uint8_t *)malloc(1); }
  if (s[0] == '*') {
    char *e; unsigned long n = strtoul(s + 1, &e, 10), seed;
    if (*e != '*' || e == s + 1) return NULL;
    char *e2; seed = strtoul(e + 1, &e2, 10);
    if (*e2 || e2 == e + 1 || n > 9000000) return NULL;
    uint8_t *b = (uint8_t *)malloc(n ? n : 1);
    for (unsigned long i = 0; i < n; i++) b[i] = (uint8_t)(seed + 7 * i + 13 * (i / 256));
    *len = n; return b;
  }
  return h_unhex(s, len);
}

static void dump_pdu_dg(const coap_pdu_t *pdu) {
  coap_opt_iterator_t oi;
  coap_opt_t *opt;
  coap_bin_const_t tok = coap_pdu_get_token(pdu);
  size_t len = 0; const uint8_t *data = NULL;
  int first = 1;
  fprintf(OUT, "t=%d c=%d m=%d tok=", (int)coap_pdu_get_type(pdu), (int)coap_pdu_get_code(pdu), (int)(uint16_t)coap_pdu_get_mid(pdu));
  put_dg(tok.s, tok.length);
  fprintf(OUT, " opts=");
  if (coap_option_iterator_init(pdu, &oi, COAP_OPT_ALL)) {
    while ((opt = coap_option_next(&oi))) {
      if (!first) fputc(',', OUT);
      first = 0;
      fprintf(OUT, "%u:", (unsigned)oi.number);
      put_dg(coap_opt_value(opt), coap_opt_length(opt));
    }
  }
  if (first) fputc('-', OUT);
  fprintf(OUT, " pl=");
  if (coap_get_data(pdu, &len, &data)) put_dg(data, len); else fputc('-', OUT);
}

/* one API call; returns 0 on a syntax error */
static int do_call(coap_pdu_t *pdu, char *op, long *rc) {
  char k = op[0];
  char *arg = op + 1;
  size_t len = 0; uint8_t *v = NULL;
  unsigned long num = 0;
  if (k == 'O' || k == 'I' || k == 'U') {
    char *colon = strchr(arg, ':');
    char *e;
    if (!colon) return 0;
    *colon = 0;
    num = strtoul(arg, &e, 10);
    if (*e || e == arg || num > 65535) return 0;
    arg = colon + 1;
  }
  if (k == 'R') {
    char *e;
    num = strtoul(arg, &e, 10);
    if (*e || e == arg || num > 65535) return 0;
    *rc = coap_remove_option(pdu, (coap_option_num_t)num);
    return 1;
  }
  v = get_val(arg, &len);
  if (!v) return 0;
  switch (k) {
  case 'T': *rc = coap_add_token(pdu, len, v); break;
  case 'K': *rc = coap_update_token(pdu, len, v); break;
  case 'D': *rc = coap_add_data(pdu, len, v); break;
  case 'O': *rc = (long)coap_add_option(pdu, (coap_option_num_t)num, len, v); break;
  case 'I': *rc = (long)coap_insert_option(pdu, (coap_option_num_t)num, len, v); break;
  case 'U': *rc = (long)coap_update_option(pdu, (coap_option_num_t)num, len, v); break;
  default: free(v); return 0;
  }
  free(v);
  return 1;
}

/* syntax of a whole script (so that nothing is printed for a bad line) */
static int ops_ok(const char *ops) {
  int ok = 1;
  if (strcmp(ops, "-")) {
    char *copy = strdup(ops), *sv = NULL;
    for (char *op = strtok_r(copy, ";", &sv); op; op = strtok_r(NULL, ";", &sv)) {
      if (!strchr("TKDOIUR", op[0]) || !op[0]) { ok = 0; break; }
    }
    free(copy);
  }
  return ok;
}

/* runs the calls on pdu, printing `<label>=<rc>.<used_size>.<fnv32>,…`; 0 = a call could not be read (bad-op printed) */
static int run_calls(coap_pdu_t *pdu, char *ops, const char *label) {
  int first = 1;
  printf("%s=", label);
  if (strcmp(ops, "-")) {
    char *sv = NULL;
    for (char *op = strtok_r(ops, ";", &sv); op; op = strtok_r(NULL, ";", &sv)) {
      long rc = -1;
      if (!do_call(pdu, op, &rc)) { printf("%sbad-op", first ? "" : ","); return 0; }
      printf("%s%ld.%zu.%08x", first ? "" : ",", rc, pdu->used_size, fnv32(pdu->token, pdu->used_size));
      first = 0;
    }
  }
  if (first) fputc('-', stdout);
  return 1;
}

/* accessor dump, serialisation for proto, re-parse of the bytes */
static void finish(coap_proto_t proto, coap_pdu_t *pdu) {
  size_t hdr;
  /* accessor dump of the PDU as built, before the header is encoded */
  {
    /* printed after hdr/bytes, so buffer it: dump now into a memory stream */
    char *mem = NULL; size_t memlen = 0;
    FILE *ms = open_memstream(&mem, &memlen);
    OUT = ms;
    dump_pdu_dg(pdu);
    OUT = stdout;
    fclose(ms);
    hdr = coap_pdu_encode_header(pdu, proto);
    printf(" hdr=%zu bytes=", hdr);
    if (!hdr) {
      printf("- built=%s reparse=rej", mem);
      free(mem);
      return;
    }
    put_dg(pdu->token - hdr, hdr + pdu->used_size);
    printf(" built=%s reparse=", mem);
    free(mem);
  }
  {
    /* the serialised bytes go through the same path as `parse`, from an exact-size copy */
    size_t n = hdr + pdu->used_size;
    uint8_t *wire = (uint8_t *)malloc(n ? n : 1);
    coap_pdu_t *rp = coap_pdu_init(0, 0, 0, COAP_DEFAULT_MAX_PDU_RX_SIZE - COAP_PDU_MAX_TCP_HEADER_SIZE);
    memcpy(wire, pdu->token - hdr, n);
    if (!rp) { printf("fail"); free(wire); return; }
    if (parse_into(proto, wire, n, rp)) { printf("ok "); dump_pdu_dg(rp); } else printf("rej");
    coap_delete_pdu(rp);
    free(wire);
  }
}

/* runs the calls on pdu, then serialises for proto and re-parses the bytes */
static void run_ops(coap_proto_t proto, coap_pdu_t *pdu, char *ops) {
  OUT = stdout;
  if (!ops_ok(ops)) { printf("bad-op"); return; }
  if (!run_calls(pdu, ops, "steps")) return;
  finish(proto, pdu);
}

static int get_num(const char *s, unsigned long *out) {
  char *e;
  if (!*s) return 0;
  *out = strtoul(s, &e, 10);
  return *e == 0;
}

static void do_build(char **w) {
  coap_proto_t p = proto_of(w[1]);
  unsigned long ms, t, c, m;
  coap_pdu_t *pdu;
  if (p == COAP_PROTO_NONE || !get_num(w[2], &ms) || !get_num(w[3], &t) || !get_num(w[4], &c) || !get_num(w[5], &m) ||
      t > 3 || c > 255 || m > 65535) { printf("bad-op"); return; }
  pdu = coap_pdu_init((coap_pdu_type_t)t, (coap_pdu_code_t)c, (coap_mid_t)m, ms);
  if (!pdu) { printf("fail"); return; }
  run_ops(p, pdu, w[6]);
  coap_delete_pdu(pdu);
}

static void do_edit(char **w) {
  coap_proto_t p = proto_of(w[1]);
  unsigned long ms;
  size_t len; uint8_t *wire;
  coap_pdu_t *pdu;
  if (p == COAP_PROTO_NONE || !get_num(w[2], &ms)) { printf("bad-op"); return; }
  wire = get_val(w[3], &len);
  if (!wire) { printf("bad-op"); return; }
  pdu = coap_pdu_init(0, 0, 0, ms);
  if (!pdu) { printf("fail"); free(wire); return; }
  if (!parse_into(p, wire, len, pdu)) printf("rej");
  else {
    /* digest of the buffer the edits start from (so that 'a refused call changes nothing' is observable per call) */
    printf("start=%zu.%08x ", pdu->used_size, fnv32(pdu->token, pdu->used_size));
    run_ops(p, pdu, w[4]);
  }
  coap_delete_pdu(pdu);
  free(wire);
}

/* ---- duplicate (C04): coap_pdu_duplicate() of the PDU reached by <ops1>, then <ops2> on the copy ----
 *   dupb <proto> <maxsize> <type> <code> <mid> <ops1> <smax> <newmid> <tok> <flt> <ops2>
 *   dupe <proto> <maxsize> <wire> <ops1> <smax> <newmid> <tok> <flt> <ops2>
 *     <smax>   what coap_session_max_pdu_size_lkd(session) returns (the session's mtu is set to smax + 4; udp session)
 *     <newmid> what coap_new_message_id_lkd(session) returns (tx_mid is set to newmid - 1)
 *     <tok>    <val>: token of the copy
 *     <flt>    N = drop_options NULL (memcpy path) | - = empty filter | n,n,… = coap_option_filter_set() calls on a cleared filter
 *   output: [start=…] steps=… flt=<N | - | rc of each filter_set> dup=null old=<used_size>.<fnv32>
 *         | [start=…] steps=… flt=… dup=ok old=<used_size>.<fnv32 of the ORIGINAL after the call> copy=<used_size>.<fnv32>
 *             steps2=… hdr=… bytes=… built=… reparse=…        (of the copy)
 */
static coap_context_t *g_ctx;
static coap_session_t *g_sess;
static coap_session_t *dup_session(void) {
  if (!g_sess) {
    coap_address_t dst;
    g_ctx = coap_new_context(NULL);
    if (!g_ctx) return NULL;
    coap_address_init(&dst);
    dst.addr.sin.sin_family = AF_INET;
    dst.addr.sin.sin_addr.s_addr = htonl(INADDR_LOOPBACK);
    dst.addr.sin.sin_port = htons(5683);
    dst.size = sizeof(struct sockaddr_in);
    g_sess = coap_new_client_session(g_ctx, NULL, &dst, COAP_PROTO_UDP);
  }
  return g_sess;
}

#define MAX_FLT 64
static void dup_and_finish(coap_proto_t p, coap_pdu_t *old, char **a) {
  /* a[0]=smax a[1]=newmid a[2]=tok a[3]=flt a[4]=ops2 ; everything was validated by dup_args_ok() */
  unsigned long smax, newmid, nums[MAX_FLT];
  int nflt = 0, use_filter = strcmp(a[3], "N") != 0;
  size_t tlen; uint8_t *tok;
  coap_opt_filter_t drop;
  coap_session_t *sess = dup_session();
  coap_pdu_t *copy;
  get_num(a[0], &smax); get_num(a[1], &newmid);
  if (!sess) { printf(" fail"); return; }
  tok = get_val(a[2], &tlen);
  printf(" flt=");
  coap_option_filter_clear(&drop);
  if (!use_filter) fputc('N', stdout);
  else if (!strcmp(a[3], "-")) fputc('-', stdout);
  else {
    char *copyf = strdup(a[3]), *sv = NULL;
    for (char *t = strtok_r(copyf, ",", &sv); t && nflt < MAX_FLT; t = strtok_r(NULL, ",", &sv)) {
      get_num(t, &nums[nflt]);
      printf("%d", coap_option_filter_set(&drop, (coap_option_num_t)nums[nflt]));
      nflt++;
    }
    free(copyf);
  }
  sess->mtu = (unsigned)(smax ? smax + COAP_PDU_MAX_UDP_HEADER_SIZE : 0);
  sess->tx_mid = (uint16_t)(newmid - 1);
  copy = coap_pdu_duplicate(old, sess, tlen, tok, use_filter ? &drop : NULL);
  free(tok);
  if (!copy) { printf(" dup=null old=%zu.%08x", old->used_size, fnv32(old->token, old->used_size)); return; }
  printf(" dup=ok old=%zu.%08x copy=%zu.%08x ", old->used_size, fnv32(old->token, old->used_size),
         copy->used_size, fnv32(copy->token, copy->used_size));
  if (run_calls(copy, a[4], "steps2")) finish(p, copy);
  coap_delete_pdu(copy);
}

static int dup_args_ok(char **a) {
  unsigned long smax, newmid, x;
  size_t tlen; uint8_t *tok;
  if (!get_num(a[0], &smax) || smax > 8388864 || !get_num(a[1], &newmid) || newmid > 65535) return 0;
  tok = get_val(a[2], &tlen);
  if (!tok) return 0;
  free(tok);
  if (strcmp(a[3], "N") && strcmp(a[3], "-")) {
    char *copyf = strdup(a[3]), *sv = NULL;
    int n = 0, ok = a[3][0] != ',' && a[3][strlen(a[3]) - 1] != ',' && !strstr(a[3], ",,");
    for (char *t = strtok_r(copyf, ",", &sv); t && ok; t = strtok_r(NULL, ",", &sv))
      if (!get_num(t, &x) || x > 65535 || ++n > MAX_FLT) ok = 0;
    free(copyf);
    if (!ok) return 0;
  }
  return ops_ok(a[4]);
}

static void do_dupb(char **w) {
  coap_proto_t p = proto_of(w[1]);
  unsigned long ms, t, c, m;
  coap_pdu_t *pdu;
  if (p == COAP_PROTO_NONE || !get_num(w[2], &ms) || !get_num(w[3], &t) || !get_num(w[4], &c) || !get_num(w[5], &m) ||
      t > 3 || c > 255 || m > 65535 || !ops_ok(w[6]) || !dup_args_ok(w + 7)) { printf("bad-op"); return; }
  pdu = coap_pdu_init((coap_pdu_type_t)t, (coap_pdu_code_t)c, (coap_mid_t)m, ms);
  if (!pdu) { printf("fail"); return; }
  OUT = stdout;
  if (run_calls(pdu, w[6], "steps")) dup_and_finish(p, pdu, w + 7);
  coap_delete_pdu(pdu);
}

static void do_dupe(char **w) {
  coap_proto_t p = proto_of(w[1]);
  unsigned long ms;
  size_t len; uint8_t *wire;
  coap_pdu_t *pdu;
  if (p == COAP_PROTO_NONE || !get_num(w[2], &ms) || !ops_ok(w[4]) || !dup_args_ok(w + 5)) { printf("bad-op"); return; }
  wire = get_val(w[3], &len);
  if (!wire) { printf("bad-op"); return; }
  pdu = coap_pdu_init(0, 0, 0, ms);
  if (!pdu) { printf("fail"); free(wire); return; }
  OUT = stdout;
  if (!parse_into(p, wire, len, pdu)) printf("rej");
  else {
    printf("start=%zu.%08x ", pdu->used_size, fnv32(pdu->token, pdu->used_size));
    if (run_calls(pdu, w[4], "steps")) dup_and_finish(p, pdu, w + 5);
  }
  coap_delete_pdu(pdu);
  free(wire);
}

/* ---- optit (C03): option filter operations, filtered iteration, coap_check_option ----
 * optit raw|udp <hex> <script>   script: comma list of s<N> (set) u<N> (unset) g<N> (get) c (clear), or -
 * raw: <hex> is the option region (what follows the token) of an otherwise empty PDU, in an exact-size buffer;
 * udp: <hex> is a datagram handed to coap_pdu_parse() first ("rej" when it is refused).
 * prints r=<results> mask=<mask> it=<num:value,...> chk=<num>=<value|none>;... (one per distinct number of the script) */
#define OPTIT_MAX 64
static void put_opt_list(coap_pdu_t *pdu, coap_opt_filter_t *f) {
  coap_opt_iterator_t oi; coap_opt_t *opt; int first = 1;
  if (coap_option_iterator_init(pdu, &oi, f)) {
    while ((opt = coap_option_next(&oi))) {
      if (!first) fputc(',', stdout);
      first = 0;
      printf("%u:", (unsigned)oi.number);
      h_puthex(stdout, coap_opt_value(opt), coap_opt_length(opt));
    }
  }
  if (first) fputc('-', stdout);
}
static void do_optit(char **w) {
  int raw = !strcmp(w[1], "raw");
  size_t len; uint8_t *b;
  coap_pdu_t *pdu;
  coap_opt_filter_t f;
  unsigned long nums[OPTIT_MAX]; int nn = 0;
  if (!raw && strcmp(w[1], "udp")) { printf("bad-op"); return; }
  b = h_unhex(w[2], &len);
  if (!b) { printf("bad-op"); return; }
  /* validate the script before anything is printed */
  if (strcmp(w[3], "-")) {
    char *cp = strdup(w[3]), *sv = NULL; int ok = w[3][0] != ',' && w[3][strlen(w[3]) - 1] != ',' && !strstr(w[3], ",,"), cnt = 0;
    for (char *t = strtok_r(cp, ",", &sv); t && ok; t = strtok_r(NULL, ",", &sv)) {
      unsigned long x;
      if (++cnt > OPTIT_MAX) ok = 0;
      else if (!strcmp(t, "c")) continue;
      else if ((t[0] != 's' && t[0] != 'u' && t[0] != 'g') || !get_num(t + 1, &x) || x > 65535) ok = 0;
    }
    free(cp);
    if (!ok) { printf("bad-op"); free(b); return; }
  }
  if (raw) {
    pdu = coap_pdu_init(0, 0, 0, len);
    if (pdu && len > pdu->alloc_size && !coap_pdu_resize(pdu, len)) { coap_delete_pdu(pdu); pdu = NULL; }
    if (!pdu) { printf("fail"); free(b); return; }
    if (len) memcpy(pdu->token, b, len);
    pdu->used_size = len;
  } else {
    pdu = coap_pdu_init(0, 0, 0, COAP_DEFAULT_MAX_PDU_RX_SIZE - COAP_PDU_MAX_TCP_HEADER_SIZE);
    if (!pdu) { printf("fail"); free(b); return; }
    if (!coap_pdu_parse(COAP_PROTO_UDP, b, len, pdu)) { printf("rej"); coap_delete_pdu(pdu); free(b); return; }
  }
  coap_option_filter_clear(&f);
  printf("r=");
  if (!strcmp(w[3], "-")) fputc('-', stdout);
  else {
    char *cp = strdup(w[3]), *sv = NULL;
    for (char *t = strtok_r(cp, ",", &sv); t; t = strtok_r(NULL, ",", &sv)) {
      unsigned long x = 0; int seen = 0;
      if (!strcmp(t, "c")) { coap_option_filter_clear(&f); fputc('c', stdout); continue; }
      get_num(t + 1, &x);
      for (int i = 0; i < nn; i++) if (nums[i] == x) seen = 1;
      if (!seen) nums[nn++] = x;
      printf("%d", t[0] == 's' ? coap_option_filter_set(&f, (coap_option_num_t)x) :
                   t[0] == 'u' ? coap_option_filter_unset(&f, (coap_option_num_t)x) :
                                 coap_option_filter_get(&f, (coap_option_num_t)x));
    }
    free(cp);
  }
  printf(" mask=%u it=", (unsigned)f.mask);
  put_opt_list(pdu, &f);
  printf(" chk=");
  if (!nn) fputc('-', stdout);
  for (int i = 0; i < nn; i++) {
    coap_opt_iterator_t oi;
    coap_opt_t *opt = coap_check_option(pdu, (coap_option_num_t)nums[i], &oi);
    if (i) fputc(';', stdout);
    printf("%lu=", nums[i]);
    if (!opt) printf("none"); else h_puthex(stdout, coap_opt_value(opt), coap_opt_length(opt));
  }
  coap_delete_pdu(pdu);
  free(b);
}

/* ---- wsw (C01): the WebSocket WRITE side.  The REAL coap_ws_write() / coap_ws_close() on a WS session whose role
 * (ws->state) is set to client or server, with a scripted PRNG (coap_set_prng: the masking key) and a capturing
 * lower layer (lfunc[COAP_LAYER_WS].l_write) that accepts the bytes in scripted partial writes.
 *
 *   wsw <c|s> <item>;<item>;…      item = W<key8hex>:<val>:<accs>    the caller's loop: coap_ws_write(session, val + ofs, len - ofs),
 *                                                                    ofs += ret, until everything is taken (or ret < 0, or 64 calls)
 *                                         C<key8hex>:<reason>:<accs> ws->close_reason = reason; coap_ws_close(session)
 *                                  accs = `,`-separated, one per l_write call, then `a`:
 *                                         a (the lower layer takes everything) | <k> (takes at most k bytes) | -1 (error)
 *   output: up0=<ret of a write before the layer is up> rets=<ret>/<offered>/<accepted>[+<ret>/…],… wire=<digest of all accepted bytes>
 *           (offered/accepted = `-` when l_write was not called)
 */
#include <sys/socket.h>
#include <netinet/in.h>
#include <fcntl.h>
static coap_session_t *g_ws_sess;
static uint8_t g_ws_key[4]; static int g_ws_key_set;
static long g_ws_acc; static int g_ws_acc_all;
static const char *g_ws_accs;      /* the rest of the item's acceptance script */
static void wsw_next_acc(void) {
  if (!g_ws_accs || !*g_ws_accs || *g_ws_accs == 'a') { g_ws_acc_all = 1; g_ws_acc = 0; g_ws_accs = NULL; return; }
  char *e; g_ws_acc = strtol(g_ws_accs, &e, 10); g_ws_acc_all = 0;
  g_ws_accs = *e == ',' ? e + 1 : NULL;
}
static uint8_t *g_ws_wire; static size_t g_ws_wire_len, g_ws_wire_cap;
static long g_ws_offered, g_ws_accepted;

static int wsw_rng(void *buf, size_t len) {
  uint8_t *d = (uint8_t *)buf;
  for (size_t i = 0; i < len; i++) d[i] = g_ws_key_set ? g_ws_key[i % 4] : (uint8_t)rand();
  return 1;
}
static ssize_t wsw_write(coap_session_t *session, const uint8_t *data, size_t datalen) {
  size_t n;
  (void)session;
  g_ws_offered = (long)datalen;
  if (!g_ws_acc_all && g_ws_acc < 0) { g_ws_accepted = -1; errno = ECONNRESET; return -1; }
  n = g_ws_acc_all || (size_t)g_ws_acc > datalen ? datalen : (size_t)g_ws_acc;
  if (g_ws_wire_len + n + 1 > g_ws_wire_cap) {
    g_ws_wire_cap = (g_ws_wire_len + n + 1) * 2;
    g_ws_wire = (uint8_t *)realloc(g_ws_wire, g_ws_wire_cap);
  }
  if (n) memcpy(g_ws_wire + g_ws_wire_len, data, n);
  g_ws_wire_len += n;
  g_ws_accepted = (long)n;
  return (ssize_t)n;
}
static void wsw_noclose(coap_session_t *session) { (void)session; }

static coap_session_t *wsw_session(void) {
  if (!g_ws_sess) {
    struct sockaddr_in sa; socklen_t sl = sizeof sa;
    coap_address_t dst;
    int lfd = socket(AF_INET, SOCK_STREAM, 0);       /* a listener, so that the connect() is not refused; nothing is sent */
    if (!dup_session()) return NULL;                 /* creates g_ctx */
    memset(&sa, 0, sizeof sa);
    sa.sin_family = AF_INET; sa.sin_addr.s_addr = htonl(INADDR_LOOPBACK); sa.sin_port = 0;
    bind(lfd, (struct sockaddr *)&sa, sizeof sa);
    listen(lfd, 4);
    getsockname(lfd, (struct sockaddr *)&sa, &sl);
    coap_address_init(&dst);
    dst.size = sizeof(struct sockaddr_in);
    memcpy(&dst.addr.sin, &sa, sizeof sa);
    g_ws_sess = coap_new_client_session(g_ctx, NULL, &dst, COAP_PROTO_WS);
    if (!g_ws_sess) return NULL;
    coap_set_prng(wsw_rng);
  }
  return g_ws_sess;
}

static int wsw_item_ok(const char *it) {
  /* [WC]<8 hex>:<val|reason>:<a|int> */
  if (it[0] != 'W' && it[0] != 'C') return 0;
  for (int i = 1; i <= 8; i++) if (h_hexval(it[i]) < 0) return 0;
  if (it[9] != ':') return 0;
  const char *c2 = strchr(it + 10, ':');
  if (!c2 || strchr(c2 + 1, ':')) return 0;
  for (const char *p = c2 + 1;;) {
    if (*p == 'a') { if (p[1]) return 0; break; }
    char *e; long v = strtol(p, &e, 10);
    if (e == p || v < -1) return 0;
    if (!*e) break;
    if (*e != ',') return 0;
    p = e + 1;
  }
  if (it[0] == 'C') {
    char *e; unsigned long v = strtoul(it + 10, &e, 10);
    if (e != c2 || e == it + 10 || v > 65535) return 0;
  }
  return 1;
}

static void do_wsw(char **w) {
  coap_session_t *s;
  int role_client;
  ssize_t up0;
  char *items = w[2];
  if (strcmp(w[1], "c") && strcmp(w[1], "s")) { printf("bad-op"); return; }
  role_client = w[1][0] == 'c';
  /* validate the whole line first */
  {
    char *copy = strdup(items), *save = NULL; int ok = 1;
    for (char *it = strtok_r(copy, ";", &save); it; it = strtok_r(NULL, ";", &save)) {
      if (!wsw_item_ok(it)) { ok = 0; break; }
      if (it[0] == 'W') {
        char *c2 = strchr(it + 10, ':'); size_t len; *c2 = 0;
        uint8_t *v = get_val(strcmp(it + 10, "-") ? it + 10 : "", &len);
        if (!v) { ok = 0; break; }
        free(v);
      }
    }
    free(copy);
    if (!ok) { printf("bad-op"); return; }
  }
  s = wsw_session();
  if (!s) { printf("fail no-session"); return; }
  OUT = stdout;
  coap_lock_lock(g_ctx, return);
  s->sock.lfunc[COAP_LAYER_WS].l_write = wsw_write;
  s->state = COAP_SESSION_STATE_ESTABLISHED;
  g_ws_wire_len = 0; g_ws_key_set = 0;
  if (s->ws) memset(s->ws, 0, sizeof(*s->ws));
  g_ws_acc_all = 1; g_ws_offered = -1;
  { static const uint8_t one = 1; up0 = coap_ws_write(s, &one, 1); }      /* allocates session->ws; layer not up: 0 */
  if (!s->ws) { coap_lock_unlock(g_ctx); printf("fail no-ws-state"); return; }
  printf("up0=%zd%s rets=", up0, g_ws_offered >= 0 ? "!written" : "");
  s->ws->state = role_client ? COAP_SESSION_TYPE_CLIENT : COAP_SESSION_TYPE_SERVER;
  s->ws->up = 1;
  {
    char *save = NULL; int first = 1;
    for (char *it = strtok_r(items, ";", &save); it; it = strtok_r(NULL, ";", &save)) {
      char *c2 = strchr(it + 10, ':');
      *c2 = 0;
      for (int i = 0; i < 4; i++) g_ws_key[i] = (uint8_t)(h_hexval(it[1 + 2 * i]) * 16 + h_hexval(it[2 + 2 * i]));
      g_ws_key_set = 1;
      g_ws_accs = c2 + 1;
      g_ws_offered = -1; g_ws_accepted = -1;
      if (!first) fputc(',', stdout);
      first = 0;
      if (it[0] == 'W') {
        size_t len, ofs = 0; uint8_t *v = get_val(strcmp(it + 10, "-") ? it + 10 : "", &len);
        for (int calls = 0; calls < 64; calls++) {
          ssize_t r;
          wsw_next_acc();
          g_ws_offered = -1; g_ws_accepted = -1;
          r = coap_ws_write(s, v + ofs, len - ofs);
          printf("%s%zd", calls ? "+" : "", r);
          if (g_ws_offered < 0) printf("/-/-"); else printf("/%ld/%ld", g_ws_offered, g_ws_accepted);
          if (r < 0 || g_ws_offered < 0) break;     /* error / the layer is not up or closing: the caller gives up */
          ofs += (size_t)r;
          if (ofs >= len) break;
        }
        free(v);
      } else {
        wsw_next_acc();
        void (*saved)(coap_session_t *) = s->sock.lfunc[COAP_LAYER_WS].l_close;
        s->ws->close_reason = (uint16_t)strtoul(it + 10, NULL, 10);
        s->ws->recv_close = 1;                 /* no draining of the socket (not part of the write side) */
        s->sock.lfunc[COAP_LAYER_WS].l_close = wsw_noclose;
        coap_ws_close(s);
        s->sock.lfunc[COAP_LAYER_WS].l_close = saved;
        printf("c");
        if (g_ws_offered < 0) printf("/-/-"); else printf("/%ld/%ld", g_ws_offered, g_ws_accepted);
      }
    }
  }
  g_ws_key_set = 0;
  coap_lock_unlock(g_ctx);
  printf(" wire=");
  put_dg(g_ws_wire, g_ws_wire_len);
}

static void step(char *line) {
  char *w[14];
  int n = h_words(line, w, 14);
  if (n == 3 && !strcmp(w[0], "parse")) {
    size_t len; uint8_t *b = h_unhex(w[2], &len);
    coap_proto_t p = proto_of(w[1]);
    if (!b || p == COAP_PROTO_NONE) { printf("bad-op"); free(b); return; }
    do_parse(p, b, len);
    free(b);
    return;
  }
  if (n == 4 && !strcmp(w[0], "optit")) { do_optit(w); return; }
  if (n == 7 && !strcmp(w[0], "build")) { do_build(w); return; }
  if (n == 5 && !strcmp(w[0], "edit")) { do_edit(w); return; }
  if (n == 12 && !strcmp(w[0], "dupb")) { do_dupb(w); return; }
  if (n == 10 && !strcmp(w[0], "dupe")) { do_dupe(w); return; }
  if (n == 3 && !strcmp(w[0], "wsw")) { do_wsw(w); return; }
  printf("bad-op");
}

H_MAIN_LOOP(step)
