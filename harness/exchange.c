/* exchange.c — H-sim harness for C07 (each request concludes exactly once).
 *
 *   xchg <pers> <D> <cmid0> <smid0> <rc> <rs> <mode> <reqs> <verdicts> <fates>
 *
 * One real client context and one real server context in one process (sim_core.h: virtual clock, scripted network).
 *   pers      server personality:  pb  piggybacked response from the handler
 *                                  ac  coap_register_async(delay D) -> empty ACK, response when the async fires
 *                                  at  coap_register_async(delay 0 = indefinite) + coap_async_trigger() after D ms
 *                                  dc  handler returns no code (empty ACK); the application sends a separate CON after D ms
 *                                  dn  same, separate NON
 *                                  da  same, but sent as an ACK-typed message with a message id of its own (an ACK that
 *                                      matches nothing on the client's send queue; libcoap's client hands it to
 *                                      handle_response, where only last_ack_mid filters duplicates)
 *             a trailing '+' = the server application remembers the tokens it has answered and answers a duplicate
 *             request that arrives afterwards with nothing (libcoap then sends just an empty ACK)
 *   D         server delay in ms (>= 1)
 *   cmid0/smid0  initial tx_mid of the client / server session      rc/rs  PRNG byte for the client / server context
 *   mode      q = next request when the whole system is quiescent; e = next request as soon as the previous concluded
 *   reqs      comma list  <C|N><method 1..4>[/<token>]     e.g. C1,N2,C1/-,C3/a1b2   token: lower-case hex, <= 8 bytes,
 *             "-" = the zero-length token; default = c0+i 07 for the i-th request
 *   verdicts  k-th response-handler call returns o (COAP_RESPONSE_OK) or f (FAIL); default o; "-" = empty
 *   fates     fate of the k-th datagram transmitted (both directions, in order of transmission):
 *             d<ms> deliver after ms | x drop | u<ms>+<ms> two copies; default d0; "-" = empty
 *
 *   xchg2 <same arguments>     (mode q only, no explicit tokens)  TWO client sessions A and B in the one client context, both
 *             starting at message id cmid0: every entry of <reqs> is sent on A and on B at the same instant (requests 2i and
 *             2i+1, tokens c0+index 07), so the two sessions always have Confirmables with EQUAL message ids outstanding in the
 *             shared context->sendqueue.  Everything that belongs to session B (datagrams in both directions, send, rsp, nack,
 *             req) is printed with its message id + 65536, so that the ids of the trace are unique.  Not modelled in Lean:
 *             the implementation's trace is judged against the property by the oracle only.
 *
 * Output (space separated, virtual ms):  send@T:i:MID  ctx@T:K:CODE:MID:TOK  stx@…  crx@…  srx@…  req@T:MID:TOK
 *   rsp@T:K:CODE:MID:TOK:v  nack@T:REASON:MID  snack@T:REASON:MID  end@T  sum:i=<rsp>/<nack> ...  st:ca=..,sq=..,dq=..
 */
#include "sim_core.h"

#define MAXREQ 8          /* entries of <reqs> */
#define MAXREQ2 16        /* requests (xchg2: two per entry) */
#define MAXFATE 256
#define MAXFLY 256
#define MAXPEND 32

enum { P_PB, P_AC, P_AT, P_DC, P_DN, P_DA };
static int pers, pers_dedup, mode_eager;
static unsigned Dms, cmid0, smid0;
static uint8_t rc_byte, rs_byte;
static int cur_side; /* 0 client, 1 server: who is running inside libcoap */

static struct { int con, method; uint8_t tok[8]; size_t tkl; int sent, nrsp, nnack; int mid; } reqs[MAXREQ2];
static int nreqs, cur_req;
static char verdicts[256]; static int nverd, verd_pos;
static struct { int kind; unsigned d1, d2; } fates[MAXFATE];
static int nfates;

static struct { coap_tick_t at; unsigned seq; int copy; const sim_dgram_t *d; } fly[MAXFLY];
static int nfly;

/* server application state */
static struct { coap_tick_t due; uint8_t tok[8]; size_t tkl; int used; coap_async_t *async; coap_session_t *s; unsigned long id; } pend[MAXPEND];
static unsigned long pend_ids;
static uint8_t answered[MAXPEND][8]; static size_t answered_l[MAXPEND]; static int nanswered;
static int srv_mid_set;

static coap_context_t *srv, *cli;
static coap_session_t *cs, *cs2;
static int two;                     /* xchg2 */
static coap_session_t *srv_seen[2]; /* server-side sessions whose tx_mid has been set */

/* does this (client- or server-side) session belong to channel B?  */
static int chan_b(const coap_session_t *s) {
  if (!two || !cs2 || !s) return 0;
  if (s == cs2) return 1;
  if (s->type == COAP_SESSION_TYPE_CLIENT) return 0;
  return coap_address_equals(&s->addr_info.remote, &cs2->addr_info.local);
}
static int disp_mid(const coap_session_t *s, int mid) { return (mid & 0xffff) + (chan_b(s) ? 65536 : 0); }

static int x_prng(void *out, size_t len) {
  memset(out, cur_side ? rs_byte : rc_byte, len);
  return 1;
}

static void log_dgram(const char *tag, coap_tick_t t, const sim_dgram_t *d) {
  char tk[20];
  if (!d->decoded) { sim_logf("%s@%llu:raw", tag, (unsigned long long)t); return; }
  sim_tok(tk, d->token, d->tkl);
  sim_logf("%s@%llu:%c:%d:%d:%s", tag, (unsigned long long)t, sim_kind[d->type], d->code, disp_mid(d->session, d->mid), tk);
}

static void x_tx_logger(const sim_dgram_t *d) {
  log_dgram(d->session->type == COAP_SESSION_TYPE_CLIENT ? "ctx" : "stx", d->t, d);
}

static void fly_add(coap_tick_t at, const sim_dgram_t *d, int copy) {
  if (nfly >= MAXFLY) return;
  fly[nfly].at = at; fly[nfly].seq = d->seq; fly[nfly].copy = copy; fly[nfly].d = d; nfly++;
}

static void x_tx_hook(const sim_dgram_t *d) {
  int kind = 'd'; unsigned d1 = 0, d2 = 0;
  if (d->seq < (unsigned)nfates) { kind = fates[d->seq].kind; d1 = fates[d->seq].d1; d2 = fates[d->seq].d2; }
  if (kind == 'x') return;
  fly_add(d->t + d1, d, 0);
  if (kind == 'u') fly_add(d->t + d2, d, 1);
}

/* ------------------------------------------------------------------ client callbacks */
/* the request the application is waiting for if it carries this token, else the first request with this token */
static int find_req(const uint8_t *tok, size_t tkl) {
  if (cur_req >= 0 && tkl == reqs[cur_req].tkl && !memcmp(tok, reqs[cur_req].tok, tkl)) return cur_req;
  for (int i = 0; i < nreqs; i++) if (tkl == reqs[i].tkl && !memcmp(tok, reqs[i].tok, tkl)) return i;
  return -1;
}
static coap_response_t x_on_response(coap_session_t *session, const coap_pdu_t *sent, const coap_pdu_t *rcvd, const coap_mid_t mid) {
  char tk[20];
  coap_bin_const_t tok = coap_pdu_get_token(rcvd);
  int v = verd_pos < nverd ? verdicts[verd_pos] : 'o';
  int i = find_req(tok.s, tok.length);
  (void)sent;
  verd_pos++;
  sim_tok(tk, tok.s, tok.length > 8 ? 8 : tok.length);
  sim_logf("rsp@%llu:%c:%d:%d:%s:%c", (unsigned long long)sim_now, sim_kind[coap_pdu_get_type(rcvd) & 3],
           (int)coap_pdu_get_code(rcvd), disp_mid(session, (int)(uint16_t)mid), tk, v);
  if (i >= 0) reqs[i].nrsp++;
  return v == 'f' ? COAP_RESPONSE_FAIL : COAP_RESPONSE_OK;
}
static void x_on_nack(coap_session_t *session, const coap_pdu_t *sent, const coap_nack_reason_t reason, const coap_mid_t mid) {
  if (session->type == COAP_SESSION_TYPE_CLIENT) {
    sim_logf("nack@%llu:%s:%d", (unsigned long long)sim_now, sim_nack_name(reason), disp_mid(session, (int)(uint16_t)mid));
    if (sent) {
      coap_bin_const_t tok = coap_pdu_get_token(sent);
      int i = find_req(tok.s, tok.length);
      if (i >= 0) reqs[i].nnack++;
    } else {
      for (int i = 0; i < nreqs; i++)
        if (reqs[i].sent && reqs[i].mid == (int)(uint16_t)mid && (!two || (i & 1) == chan_b(session))) { reqs[i].nnack++; break; }
    }
  } else
    sim_logf("snack@%llu:%s:%d", (unsigned long long)sim_now, sim_nack_name(reason), disp_mid(session, (int)(uint16_t)mid));
}
static int x_on_event(coap_session_t *session, const coap_event_t event) { (void)session; (void)event; return 0; }

/* ------------------------------------------------------------------ server application */
static int was_answered(const uint8_t *t, size_t l) {
  for (int i = 0; i < nanswered; i++) if (answered_l[i] == l && !memcmp(answered[i], t, l)) return 1;
  return 0;
}
static void mark_answered(const uint8_t *t, size_t l) {
  if (nanswered < MAXPEND && l <= 8) { memcpy(answered[nanswered], t, l); answered_l[nanswered] = l; nanswered++; }
}
static int find_pend(const uint8_t *t, size_t l) {
  for (int i = 0; i < MAXPEND; i++) if (pend[i].used && pend[i].tkl == l && !memcmp(pend[i].tok, t, l)) return i;
  return -1;
}
static int new_pend(coap_session_t *s, const uint8_t *t, size_t l, coap_tick_t due, coap_async_t *a) {
  for (int i = 0; i < MAXPEND; i++) if (!pend[i].used) {
    pend[i].used = 1; pend[i].id = pend_ids++; pend[i].due = due; pend[i].tkl = l; memcpy(pend[i].tok, t, l); pend[i].async = a; pend[i].s = s;
    return i;
  }
  return -1;
}

static void hnd(coap_resource_t *r, coap_session_t *s, const coap_pdu_t *req, const coap_string_t *q, coap_pdu_t *rsp) {
  char tk[20];
  coap_bin_const_t tok = coap_pdu_get_token(req);
  size_t tl = tok.length > 8 ? 8 : tok.length;
  (void)r; (void)q;
  if (!two) {
    if (!srv_mid_set) { s->tx_mid = (uint16_t)smid0; srv_mid_set = 1; }
  } else if (srv_seen[0] != s && srv_seen[1] != s) {      /* each server-side session starts at smid0 */
    s->tx_mid = (uint16_t)smid0;
    srv_seen[srv_seen[0] ? 1 : 0] = s;
  }
  sim_tok(tk, tok.s, tl);
  sim_logf("req@%llu:%d:%s", (unsigned long long)sim_now, disp_mid(s, (int)(uint16_t)coap_pdu_get_mid(req)), tk);
  if (pers == P_PB) {
    coap_pdu_set_code(rsp, COAP_RESPONSE_CODE_CONTENT);
    return;
  }
  if (pers == P_AC || pers == P_AT) {
    coap_async_t *a = coap_find_async(s, tok);
    if (a) {                                   /* the async fired: this is the delayed call */
      coap_pdu_set_code(rsp, COAP_RESPONSE_CODE_CONTENT);
      mark_answered(tok.s, tl);
      return;
    }
    if (pers_dedup && was_answered(tok.s, tl)) return;
    a = coap_register_async(s, req, pers == P_AC ? (coap_tick_t)Dms : 0);
    if (a && pers == P_AT) new_pend(s, tok.s, tl, sim_now + Dms, a);
    return;                                    /* no code: libcoap sends an empty ACK if CON */
  }
  /* dc / dn */
  if (find_pend(tok.s, tl) >= 0) return;       /* still pending: empty ACK again */
  if (pers_dedup && was_answered(tok.s, tl)) return;
  new_pend(s, tok.s, tl, sim_now + Dms, NULL);
}

/* run the server application's timers that are due */
static void srv_app_timers(void) {
  for (;;) {
    int best = -1;
    for (int i = 0; i < MAXPEND; i++) if (pend[i].used && pend[i].due <= sim_now &&
        (best < 0 || pend[i].due < pend[best].due || (pend[i].due == pend[best].due && pend[i].id < pend[best].id))) best = i;
    if (best < 0) break;
    pend[best].used = 0;
    cur_side = 1;
    if (pers == P_AT) {
      coap_async_trigger(pend[best].async);
      coap_io_prepare_epoll(srv, sim_now);
    } else {
      coap_pdu_t *p = coap_pdu_init(pers == P_DC ? COAP_MESSAGE_CON : pers == P_DA ? COAP_MESSAGE_ACK : COAP_MESSAGE_NON,
                                    COAP_RESPONSE_CODE_CONTENT,
                                    coap_new_message_id(pend[best].s), coap_session_max_pdu_size(pend[best].s));
      if (pend[best].tkl) coap_add_token(p, pend[best].tkl, pend[best].tok);
      mark_answered(pend[best].tok, pend[best].tkl);
      coap_send(pend[best].s, p);
    }
  }
}

/* ------------------------------------------------------------------ parsing */
static int parse_line(char **w, int n) {
  char *p;
  size_t l;
  if (n != 11 || (strcmp(w[0], "xchg") && strcmp(w[0], "xchg2"))) return 0;
  two = !strcmp(w[0], "xchg2");
  l = strlen(w[1]);
  pers_dedup = 0;
  if (l == 3 && w[1][2] == '+') { pers_dedup = 1; w[1][2] = 0; }
  if (!strcmp(w[1], "pb")) pers = P_PB; else if (!strcmp(w[1], "ac")) pers = P_AC; else if (!strcmp(w[1], "at")) pers = P_AT;
  else if (!strcmp(w[1], "dc")) pers = P_DC; else if (!strcmp(w[1], "dn")) pers = P_DN;
  else if (!strcmp(w[1], "da")) pers = P_DA; else return 0;
  Dms = (unsigned)atoi(w[2]); cmid0 = (unsigned)atoi(w[3]); smid0 = (unsigned)atoi(w[4]);
  rc_byte = (uint8_t)atoi(w[5]); rs_byte = (uint8_t)atoi(w[6]);
  if (Dms < 1) return 0;
  if (!strcmp(w[7], "q")) mode_eager = 0; else if (!strcmp(w[7], "e") && !two) mode_eager = 1; else return 0;
  nreqs = 0;
  for (p = strtok(w[8], ","); p; p = strtok(NULL, ",")) {
    size_t pl = strlen(p);
    if (nreqs >= (two ? MAXREQ2 : MAXREQ) || pl < 2 || (p[0] != 'C' && p[0] != 'N') || p[1] < '1' || p[1] > '4') return 0;
    if (two && pl != 2) return 0;
    memset(&reqs[nreqs], 0, sizeof(reqs[0]));
    reqs[nreqs].con = p[0] == 'C'; reqs[nreqs].method = p[1] - '0';
    if (pl == 2) { reqs[nreqs].tok[0] = (uint8_t)(0xc0 + nreqs); reqs[nreqs].tok[1] = 0x07; reqs[nreqs].tkl = 2; }
    else {
      const char *t = p + 3;
      size_t tl = pl - 3;
      if (p[2] != '/' || !tl) return 0;
      if (!strcmp(t, "-")) reqs[nreqs].tkl = 0;
      else {
        if (tl % 2 || tl > 16) return 0;
        for (size_t k = 0; k < tl; k++) {
          int c = t[k], v = c >= '0' && c <= '9' ? c - '0' : c >= 'a' && c <= 'f' ? c - 'a' + 10 : -1;
          if (v < 0) return 0;
          reqs[nreqs].tok[k / 2] = (uint8_t)((reqs[nreqs].tok[k / 2] << 4) | v);
        }
        reqs[nreqs].tkl = tl / 2;
      }
    }
    nreqs++;
    if (two) {                       /* the same request on session B */
      reqs[nreqs] = reqs[nreqs - 1];
      reqs[nreqs].tok[0] = (uint8_t)(0xc0 + nreqs);
      nreqs++;
    }
  }
  if (!nreqs) return 0;
  nverd = 0; verd_pos = 0;
  if (strcmp(w[9], "-")) {
    for (p = w[9]; *p; p++) { if ((*p != 'o' && *p != 'f') || nverd >= 255) return 0; verdicts[nverd++] = *p; }
  }
  nfates = 0;
  if (strcmp(w[10], "-")) {
    for (p = strtok(w[10], ","); p; p = strtok(NULL, ",")) {
      if (nfates >= MAXFATE) return 0;
      fates[nfates].kind = p[0]; fates[nfates].d1 = fates[nfates].d2 = 0;
      if (p[0] == 'x') { if (p[1]) return 0; }
      else if (p[0] == 'd') { fates[nfates].d1 = (unsigned)atoi(p + 1); }
      else if (p[0] == 'u') {
        char *plus = strchr(p, '+');
        if (!plus) return 0;
        fates[nfates].d1 = (unsigned)atoi(p + 1); fates[nfates].d2 = (unsigned)atoi(plus + 1);
      } else return 0;
      nfates++;
    }
  }
  return 1;
}

/* ------------------------------------------------------------------ main loop */
static int async_pending(coap_tick_t *due) {
  int any = 0;
  coap_async_t *a;
  for (a = srv->async_state; a; a = a->next) {
    any = 1;
    if (a->delay != 0 && (*due == 0 || a->delay < *due)) *due = a->delay;
  }
  return any;
}

static int quiescent(void) {
  coap_tick_t due = 0;
  if (nfly || sim_sendq_len(cli) || sim_sendq_len(srv) || sim_delayq_len(cs) || (cs2 && sim_delayq_len(cs2))) return 0;
  if (async_pending(&due)) return 0;
  for (int i = 0; i < MAXPEND; i++) if (pend[i].used) return 0;
  return 1;
}

static void h_init(void) { sim_global_init(); coap_set_prng(x_prng); }

static void step(char *line) {
  char *w[12];
  int n = h_words(line, w, 12);
  if (!parse_line(w, n)) { printf("bad-op"); return; }
  sim_reset();
  nfly = 0; nanswered = 0; srv_mid_set = 0; cur_req = -1; pend_ids = 0; cs2 = NULL; srv_seen[0] = srv_seen[1] = NULL;
  memset(pend, 0, sizeof(pend));
  sim_tx_hook = x_tx_hook;
  sim_tx_logger = x_tx_logger;
  cur_side = 1;
  srv = sim_new_context();
  cur_side = 0;
  cli = sim_new_context();
  coap_register_response_handler(cli, x_on_response);
  coap_register_nack_handler(cli, x_on_nack);
  coap_register_nack_handler(srv, x_on_nack);
  coap_register_event_handler(cli, x_on_event);
  coap_register_event_handler(srv, x_on_event);
  coap_context_set_session_timeout(srv, 1000000);
  cur_side = 1;
  coap_endpoint_t *ep = sim_new_endpoint(srv, 0);
  coap_resource_t *r = coap_resource_init(coap_make_str_const("r"), 0);
  coap_register_request_handler(r, COAP_REQUEST_GET, hnd);
  coap_register_request_handler(r, COAP_REQUEST_POST, hnd);
  coap_register_request_handler(r, COAP_REQUEST_PUT, hnd);
  coap_register_request_handler(r, COAP_REQUEST_DELETE, hnd);
  coap_add_resource(srv, r);
  cur_side = 0;
  cs = sim_new_client(cli, ntohs(ep->bind_addr.addr.sin.sin_port));
  cs->tx_mid = (uint16_t)cmid0;
  if (two) { cs2 = sim_new_client(cli, ntohs(ep->bind_addr.addr.sin.sin_port)); cs2->tx_mid = (uint16_t)cmid0; }

  for (int iter = 0; iter < 4000; iter++) {
    /* 1. deliver what has arrived: earliest (arrival, seq, copy) first */
    int best = -1;
    for (int i = 0; i < nfly; i++)
      if (fly[i].at <= sim_now &&
          (best < 0 || fly[i].at < fly[best].at || (fly[i].at == fly[best].at && (fly[i].seq < fly[best].seq ||
              (fly[i].seq == fly[best].seq && fly[i].copy < fly[best].copy))))) best = i;
    if (best >= 0) {
      const sim_dgram_t *d = fly[best].d;
      int to_client = d->session->type != COAP_SESSION_TYPE_CLIENT;
      memmove(&fly[best], &fly[best + 1], sizeof(fly[0]) * (size_t)(nfly - best - 1));
      nfly--;
      log_dgram(to_client ? "crx" : "srx", sim_now, d);
      cur_side = to_client ? 0 : 1;
      sim_deliver(d);                 /* coap_io_do_epoll: reads the datagram, then runs this context's timers */
      continue;
    }
    /* 2. timers at the current time: client, server, server application */
    {
      coap_tick_t dl;
      unsigned before = sim_ntx;
      int fired = 0;
      if (sim_sendq_entry(cli, 0, &dl) && dl <= sim_now) { cur_side = 0; coap_io_prepare_epoll(cli, sim_now); fired = 1; }
      dl = 0;
      if ((sim_sendq_entry(srv, 0, &dl) && dl <= sim_now) || ((dl = 0, async_pending(&dl)) && dl && dl <= sim_now)) {
        cur_side = 1; coap_io_prepare_epoll(srv, sim_now); fired = 1;
      }
      for (int i = 0; i < MAXPEND; i++) if (pend[i].used && pend[i].due <= sim_now) { srv_app_timers(); fired = 1; break; }
      (void)before;
      if (fired) continue;
    }
    /* 3. client application */
    {
      int cur_done = cur_req < 0 || (mode_eager && (reqs[cur_req].nrsp + reqs[cur_req].nnack) > 0) || quiescent();
      if (cur_done && cur_req + 1 < nreqs) {
        for (int k = 0; k < (two ? 2 : 1); k++) {      /* xchg2: on session A and on session B at the same instant */
          coap_session_t *ss = k ? cs2 : cs;
          coap_pdu_t *p;
          cur_req++;
          cur_side = 0;
          reqs[cur_req].mid = (int)(uint16_t)coap_new_message_id(ss);
          reqs[cur_req].sent = 1;
          sim_logf("send@%llu:%d:%d", (unsigned long long)sim_now, cur_req, disp_mid(ss, reqs[cur_req].mid));
          p = sim_make_pdu(ss, reqs[cur_req].con ? COAP_MESSAGE_CON : COAP_MESSAGE_NON, reqs[cur_req].method, reqs[cur_req].mid,
                           reqs[cur_req].tok, reqs[cur_req].tkl, NULL, 0);
          coap_add_option(p, COAP_OPTION_URI_PATH, 1, (const uint8_t *)"r");
          coap_send(ss, p);
        }
        continue;
      }
    }
    /* 4. advance the clock to the next thing that can happen */
    {
      coap_tick_t next = 0, dl = 0;
      for (int i = 0; i < nfly; i++) if (!next || fly[i].at < next) next = fly[i].at;
      if (sim_sendq_entry(cli, 0, &dl) && (!next || dl < next)) next = dl;
      if (sim_sendq_entry(srv, 0, &dl) && (!next || dl < next)) next = dl;
      dl = 0; async_pending(&dl); if (dl && (!next || dl < next)) next = dl;
      for (int i = 0; i < MAXPEND; i++) if (pend[i].used && (!next || pend[i].due < next)) next = pend[i].due;
      if (!next) break;
      if (next <= sim_now) { sim_logf("stuck@%llu", (unsigned long long)sim_now); break; }
      sim_now = next;
    }
  }
  sim_logf("end@%llu", (unsigned long long)sim_now);
  for (int i = 0; i < nreqs; i++) sim_logf("sum:%d=%d/%d", i, reqs[i].nrsp, reqs[i].nnack);
  if (two)
    sim_logf("st:ca=%u,sq=%u,dq=%u,ca2=%u,dq2=%u,q=%d", sim_con_active(cs), sim_sendq_len(cli), sim_delayq_len(cs),
             sim_con_active(cs2), sim_delayq_len(cs2), quiescent());
  else
  sim_logf("st:ca=%u,sq=%u,dq=%u,q=%d", sim_con_active(cs), sim_sendq_len(cli), sim_delayq_len(cs), quiescent());
  cur_side = 0;
  sim_free_all(0);
  sim_tx_logger = NULL;
  sim_log_flush(stdout);
}

H_MAIN_LOOP(step)
