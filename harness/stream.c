/* H-stream harness (C05): replays one byte stream under a given segmentation into the REAL
 * coap_read_session() of a TCP or WebSocket session whose lowest layer read/write functions are
 * replaced by a chunk feeder / write recorder.  Observation = the PDUs that reach coap_dispatch()
 * (source hook coap_verif_dispatch_hook), in order, then how the session ended.
 *
 *   tcp <csm-max|0> <stream-hex> <cut,cut,...|->      cut = offset into the stream where a new chunk starts
 *   ws  <c|s> <stream-hex> <cut,cut,...|->            c: we are the client (frames unmasked), s: we are the server
 *   wsclose <c|s> <stream-hex> <cut>                  stream[0..cut) is received in one chunk; then, with stream[cut..)
 *                                                     available on the socket, the application closes the session:
 *                                                     coap_ws_close() sends its Close frame and drains the socket for the
 *                                                     peer's.  Output: n=.. drain rc=<recv_close> left=<bytes not read> rounds=<select() calls> calls=<coap_ws_read calls>
 *   wsself <c|s> <stream-hex>                         the stream is received in one chunk; if the reader closes the session by
 *                                                     itself (refusal 1002/1003/1009, Close frame) with the handshake done:
 *                                                     n=.. self rc=<recv_close> left=<bytes of the chunk never read>, else noself
 *   consts                                            the constants the model depends on
 *
 * A "chunk" is what the transport has available when the read event fires.  coap_read_session() is
 * called (as a level-triggered event loop does) until the chunk is consumed; between calls the dead
 * stack region is overwritten — any other function the event loop calls may do that.
 *
 * Output:  n=<k> [<pdu dump>]... end=<open|closed|stuck> nack=<reason|-> ev=<hex,hex,...|->
 */
#include "coap3/coap_libcoap_build.h"
#include "hcommon.h"
#include <sys/socket.h>
#include <sys/select.h>
#include <netinet/in.h>
#include <arpa/inet.h>
#include <fcntl.h>
#include <unistd.h>
#include <signal.h>
#include <setjmp.h>

extern int (*coap_verif_dispatch_hook)(coap_session_t *session, coap_pdu_t *pdu);

static coap_context_t *g_ctx;
static int g_listen_fd = -1;
static coap_address_t g_dst;

/* ---- output accumulation (dispatch hook may fire many times per line) ---- */
static char *g_out; static size_t g_out_len, g_out_cap;
static void out_reserve(size_t n) {
  if (g_out_len + n + 1 > g_out_cap) {
    g_out_cap = (g_out_len + n + 1) * 2;
    g_out = (char *)realloc(g_out, g_out_cap);
  }
}
static void out_str(const char *s) { size_t n = strlen(s); out_reserve(n); memcpy(g_out + g_out_len, s, n); g_out_len += n; g_out[g_out_len] = 0; }
static void out_hex(const uint8_t *b, size_t n) {
  static const char hx[] = "0123456789abcdef";
  if (n == 0) { out_str("-"); return; }
  out_reserve(2 * n);
  for (size_t i = 0; i < n; i++) { g_out[g_out_len++] = hx[b[i] >> 4]; g_out[g_out_len++] = hx[b[i] & 15]; }
  g_out[g_out_len] = 0;
}
static void out_fmt(const char *fmt, long v) { char t[64]; snprintf(t, sizeof t, fmt, v); out_str(t); }

static int g_npdu;
static int g_nack = -1;
static int g_events[64]; static int g_nev;
static int g_closed;

/* same dump as harness/codec.c */
static int dispatch_hook(coap_session_t *session, coap_pdu_t *pdu) {
  coap_opt_iterator_t oi;
  coap_opt_t *opt;
  coap_bin_const_t tok = coap_pdu_get_token(pdu);
  size_t len = 0; const uint8_t *data = NULL;
  int first = 1;
  (void)session;
  g_npdu++;
  out_str(" [ok");
  out_fmt(" t=%ld", (long)coap_pdu_get_type(pdu));
  out_fmt(" c=%ld", (long)coap_pdu_get_code(pdu));
  out_fmt(" m=%ld", (long)(uint16_t)coap_pdu_get_mid(pdu));
  out_str(" tok="); out_hex(tok.s, tok.length);
  out_str(" opts=");
  if (coap_option_iterator_init(pdu, &oi, COAP_OPT_ALL)) {
    while ((opt = coap_option_next(&oi))) {
      if (!first) out_str(",");
      first = 0;
      out_fmt("%ld:", (long)oi.number);
      out_hex(coap_opt_value(opt), coap_opt_length(opt));
    }
  }
  if (first) out_str("-");
  out_str(" pl=");
  if (coap_get_data(pdu, &len, &data)) out_hex(data, len); else out_str("-");
  out_str("]");
  return 1;
}

static int event_handler(coap_session_t *session, const coap_event_t event) {
  (void)session;
  if (g_nev < 64) g_events[g_nev++] = (int)event;
  if (event == COAP_EVENT_TCP_CLOSED || event == COAP_EVENT_SESSION_CLOSED || event == COAP_EVENT_SESSION_FAILED ||
      event == COAP_EVENT_TCP_FAILED || event == COAP_EVENT_WS_CLOSED)
    g_closed = 1;
  return 0;
}

static void nack_handler(coap_session_t *session, const coap_pdu_t *sent, const coap_nack_reason_t reason, const coap_mid_t mid) {
  (void)session; (void)sent; (void)mid;
  g_nack = (int)reason;
}

/* ---- coap_ws_close()'s drain loop: select() is wrapped (-Wl,--wrap=select) to count its rounds and how many of
 * them found the socket readable (= the coap_ws_read() calls of the drain; nothing else in a run calls select()) ---- */
static int g_sel_rounds, g_sel_ready;
int __real_select(int n, fd_set *r, fd_set *w, fd_set *e, struct timeval *tv);
int __wrap_select(int n, fd_set *r, fd_set *w, fd_set *e, struct timeval *tv) {
  int res = __real_select(n, r, w, e, tv);
  g_sel_rounds++;
  if (res > 0) g_sel_ready++;
  return res;
}

/* ---- chunk feeder / write recorder ---- */
static void fd_set_readable(int want);
static const uint8_t *g_chunk; static size_t g_chunk_left;
static size_t g_reads, g_written;

static ssize_t feed_read(coap_session_t *session, uint8_t *data, size_t datalen) {
  size_t n = g_chunk_left < datalen ? g_chunk_left : datalen;
  (void)session;
  g_reads++;
  if (n) memcpy(data, g_chunk, n);
  g_chunk += n; g_chunk_left -= n;
  if (g_chunk_left == 0) fd_set_readable(0);
  return (ssize_t)n;
}
static ssize_t rec_write(coap_session_t *session, const uint8_t *data, size_t datalen) {
  (void)session; (void)data;
  g_written += datalen;
  return (ssize_t)datalen;
}

/* overwrite the dead stack region below the caller: what any other function called by the event loop may do */
static volatile uint8_t g_sink;
__attribute__((noinline)) static void scribble_stack(void) {
  volatile uint8_t junk[32768];
  for (size_t i = 0; i < sizeof junk; i++) junk[i] = (uint8_t)(0xa5 ^ i);
  g_sink = junk[g_sink % sizeof junk];
}

__attribute__((noinline)) static void call_read(coap_session_t *s) {
  coap_tick_t now;
  coap_ticks(&now);
  coap_lock_lock(g_ctx, return);
  coap_read_session(g_ctx, s, now);
  coap_lock_unlock(g_ctx);
}

static void h_init(void) {
  struct sockaddr_in sa; socklen_t sl = sizeof sa;
  coap_startup();
  coap_set_log_level(getenv("H_LOG") ? atoi(getenv("H_LOG")) : COAP_LOG_EMERG);
  g_ctx = coap_new_context(NULL);
  coap_register_event_handler(g_ctx, event_handler);
  coap_register_nack_handler(g_ctx, nack_handler);
  coap_verif_dispatch_hook = dispatch_hook;
  /* a listening socket that completes connections in the kernel; nothing is ever sent over them */
  g_listen_fd = socket(AF_INET, SOCK_STREAM, 0);
  memset(&sa, 0, sizeof sa);
  sa.sin_family = AF_INET; sa.sin_addr.s_addr = htonl(INADDR_LOOPBACK); sa.sin_port = 0;
  bind(g_listen_fd, (struct sockaddr *)&sa, sizeof sa);
  listen(g_listen_fd, 16);
  fcntl(g_listen_fd, F_SETFL, fcntl(g_listen_fd, F_GETFL) | O_NONBLOCK);
  getsockname(g_listen_fd, (struct sockaddr *)&sa, &sl);
  coap_address_init(&g_dst);
  g_dst.size = sizeof(struct sockaddr_in);
  memcpy(&g_dst.addr.sin, &sa, sizeof sa);
}

/* the peer end of the session's real socket.  coap_ws_close() drains "the socket": select() on the REAL fd,
 * then coap_ws_read() into a 100-byte buffer; that path must be exercised too.  The real fd is therefore kept
 * readable (one byte written by the peer, never read by libcoap: l_read is the chunk feeder) exactly while the
 * current chunk still has bytes, as it would be on a real connection. */
static int g_peer_fd = -1, g_sess_fd = -1, g_fd_readable;
static void fd_set_readable(int want) {
  if (g_peer_fd < 0 || g_sess_fd < 0) return;
  if (want && !g_fd_readable) {
    ssize_t r = write(g_peer_fd, "x", 1); (void)r;
    for (int i = 0; i < 1000; i++) {       /* loopback delivery is asynchronous */
      char c; if (recv(g_sess_fd, &c, 1, MSG_PEEK | MSG_DONTWAIT) == 1) break;
      usleep(20);
    }
    g_fd_readable = 1;
  } else if (!want && g_fd_readable) {
    char c; ssize_t r = recv(g_sess_fd, &c, 1, MSG_DONTWAIT); (void)r;
    g_fd_readable = 0;
  }
}
static void peer_accept(void) {
  for (int i = 0; i < 200 && g_peer_fd < 0; i++) {
    g_peer_fd = accept(g_listen_fd, NULL, NULL);
    if (g_peer_fd < 0) usleep(100);
  }
}
static void drain_accept(void) {
  int fd;
  if (g_peer_fd >= 0) { close(g_peer_fd); g_peer_fd = -1; }
  g_sess_fd = -1; g_fd_readable = 0;
  while ((fd = accept(g_listen_fd, NULL, NULL)) >= 0) close(fd);
}

static int parse_cuts(char *w, size_t total, size_t *cuts, int max) {
  int n = 0;
  if (!strcmp(w, "-")) return 0;
  char *p = w;
  while (*p) {
    char *e; unsigned long v = strtoul(p, &e, 10);
    if (e == p) return -1;
    if (v > total || (n && v < cuts[n - 1]) || n >= max) return -1;
    cuts[n++] = v;
    p = *e == ',' ? e + 1 : e;
    if (*e && *e != ',') return -1;
  }
  return n;
}

#define MAX_CUTS 1000000
static int g_close_after_first;   /* wsclose: 1 = only the first chunk is fed, then coap_ws_close() with the rest available */
static int g_self_close;          /* wsself: one chunk; report what the reader's own coap_ws_close() (refusal / Close frame) left */

static void run_stream(coap_proto_t proto, int server_side, unsigned long csm_max, const uint8_t *stream, size_t len,
                       const size_t *cuts, int ncuts) {
  coap_session_t *s;
  int layer = proto == COAP_PROTO_WS ? COAP_LAYER_WS : COAP_LAYER_SESSION;
  int stuck = 0;

  g_out_len = 0; out_reserve(64); g_out[0] = 0;
  g_npdu = 0; g_nack = -1; g_nev = 0; g_closed = 0; g_reads = 0; g_written = 0;
  g_chunk = NULL; g_chunk_left = 0;
  g_sel_rounds = 0; g_sel_ready = 0;

  coap_context_set_csm_max_message_size(g_ctx, csm_max ? (uint32_t)csm_max : (uint32_t)COAP_DEFAULT_MAX_PDU_RX_SIZE);
  s = coap_new_client_session(g_ctx, NULL, &g_dst, proto);
  if (!s) { printf("fail no-session"); return; }
  peer_accept();
  g_sess_fd = s->sock.fd;
  s->sock.lfunc[layer].l_read = feed_read;
  s->sock.lfunc[layer].l_write = rec_write;
  s->sock.flags |= COAP_SOCKET_CONNECTED;
  s->sock.flags &= ~(COAP_SOCKET_WANT_CONNECT);
  coap_lock_lock(g_ctx, return);
  if (proto == COAP_PROTO_WS) {
    static const uint8_t host[] = "localhost";
    coap_str_const_t h = { sizeof(host) - 1, host };
    coap_ws_set_host_request(s, &h);
    s->state = COAP_SESSION_STATE_CONNECTING;
    coap_ws_establish(s);            /* client: writes the GET request into the recorder */
    if (s->ws) {
      for (int i = 0; i < 16; i++) s->ws->key[i] = (uint8_t)i;   /* known key => known Sec-WebSocket-Accept */
      if (server_side) s->ws->state = COAP_SESSION_TYPE_SERVER;
    }
  } else {
    coap_session_send_csm(s);        /* sets csm_rcv_mtu from the context, state CSM */
    s->state = COAP_SESSION_STATE_ESTABLISHED;
  }
  coap_lock_unlock(g_ctx);
  g_nev = 0; g_nack = -1; g_closed = 0;

  for (int k = 0; k <= (g_close_after_first ? 0 : ncuts) && !g_closed && !stuck; k++) {
    size_t a = k == 0 ? 0 : cuts[k - 1], b = k == ncuts ? len : cuts[k];
    g_chunk = stream + a; g_chunk_left = b - a;
    fd_set_readable(g_chunk_left > 0);
    int idle = 0;
    while (g_chunk_left > 0 && !g_closed) {
      size_t before = g_chunk_left;
      if (!(s->sock.flags & COAP_SOCKET_CONNECTED)) { g_closed = 1; break; }
      call_read(s);
      scribble_stack();
      /* a call may legitimately consume nothing (it works on bytes it buffered earlier); several in a row = stuck */
      if (g_chunk_left == before) { if (++idle > 4) { stuck = 1; break; } } else idle = 0;
    }
    if (s->state == COAP_SESSION_STATE_NONE) g_closed = 1;
  }
  if (s->state == COAP_SESSION_STATE_NONE || !(s->sock.flags & COAP_SOCKET_CONNECTED)) g_closed = 1;

  if (g_close_after_first) {
    if (g_closed || stuck || !s->ws || !s->ws->up) {
      printf("n=%d%s noclose", g_npdu, g_out);
    } else {
      size_t a = ncuts ? cuts[0] : len;
      g_chunk = stream + a; g_chunk_left = len - a;
      fd_set_readable(g_chunk_left > 0);
      coap_lock_lock(g_ctx, return);
      coap_ws_close(s);
      coap_lock_unlock(g_ctx);
      scribble_stack();
      printf("n=%d%s drain rc=%d left=%lu rounds=%d calls=%d", g_npdu, g_out, s->ws ? (int)s->ws->recv_close : -1,
             (unsigned long)g_chunk_left, g_sel_rounds, g_sel_ready);
    }
    coap_session_release(s);
    drain_accept();
    return;
  }

  if (g_self_close) {
    /* closed by the reader itself with the handshake done: coap_ws_close() ran inside coap_ws_read() */
    if (g_closed && !stuck && s->ws && s->ws->up)
      printf("n=%d%s self rc=%d left=%lu rounds=%d calls=%d", g_npdu, g_out, (int)s->ws->recv_close, (unsigned long)g_chunk_left,
             g_sel_rounds, g_sel_ready);
    else
      printf("n=%d%s noself", g_npdu, g_out);
    coap_session_release(s);
    drain_accept();
    return;
  }

  /* WS: events / nack reason are reported after " # " (informational: BAD_PACKET notifications and what
   * coap_ws_close's socket draining raises are not part of the property); TCP: part of the observation */
  printf("n=%d%s end=%s", g_npdu, g_out, g_closed ? "closed" : stuck ? "stuck" : "open");
  if (proto == COAP_PROTO_WS) printf(" up=%d #", s->ws ? s->ws->up : 0);
  printf(" nack=");
  if (g_nack < 0) printf("-"); else printf("%d", g_nack);
  printf(" ev=");
  if (!g_nev) printf("-");
  for (int i = 0; i < g_nev; i++) printf("%s%x", i ? "," : "", g_events[i]);

  coap_session_release(s);
  drain_accept();
}

/* watchdog: a reader that loops for ever on a line is an observation ("crash watchdog"), not a hung check;
 * after three of them the rest of the shard is answered without being run, so that a check stays bounded */
static sigjmp_buf g_wd_jmp;
static int g_wd_count;
static void on_alarm(int sig) { (void)sig; siglongjmp(g_wd_jmp, 1); }

static void step_inner(char *line);
static void step(char *line) {
  if (g_wd_count >= 3) { printf("crash watchdog-skipped"); return; }
  signal(SIGALRM, on_alarm);
  if (sigsetjmp(g_wd_jmp, 1)) {
    g_wd_count++;
    printf("crash watchdog: coap_read_session did not return within %d s", 8);
    return;
  }
  alarm(8);
  step_inner(line);
  alarm(0);
}

static void step_inner(char *line) {
  char *w[8];
  int n = h_words(line, w, 8);
  if (n == 1 && !strcmp(w[0], "consts")) {
    printf("maxrx=%lu rxbuf=%lu rh=%lu fs=%lu httphdr=%lu", (unsigned long)COAP_DEFAULT_MAX_PDU_RX_SIZE,
           (unsigned long)COAP_RXBUFFER_SIZE, (unsigned long)sizeof(((coap_session_t *)0)->read_header),
           (unsigned long)COAP_MAX_FS, (unsigned long)sizeof(((coap_ws_state_t *)0)->http_hdr));
    return;
  }
  g_close_after_first = n == 4 && !strcmp(w[0], "wsclose");
  if (g_close_after_first) {
    if (strchr(w[3], ',') || !strcmp(w[3], "-")) { printf("bad-op"); return; }
    w[0] = (char *)"ws";
  }
  g_self_close = n == 3 && !strcmp(w[0], "wsself");
  if (g_self_close) {
    w[0] = (char *)"ws"; w[3] = (char *)"-"; n = 4;
  }
  if (n == 4 && (!strcmp(w[0], "tcp") || !strcmp(w[0], "ws"))) {
    size_t len; uint8_t *b = h_unhex(w[2], &len);
    static size_t *cuts;
    int nc;
    if (!cuts) cuts = (size_t *)malloc(sizeof(size_t) * MAX_CUTS);
    if (!b) { printf("bad-op"); return; }
    nc = parse_cuts(w[3], len, cuts, MAX_CUTS);
    if (nc < 0) { printf("bad-op"); free(b); return; }
    if (!strcmp(w[0], "tcp")) {
      char *e; unsigned long m = strtoul(w[1], &e, 10);
      if (*e || (m && m < 64)) { printf("bad-op"); free(b); return; }
      run_stream(COAP_PROTO_TCP, 0, m, b, len, cuts, nc);
    } else {
      if (strcmp(w[1], "c") && strcmp(w[1], "s")) { printf("bad-op"); free(b); return; }
      run_stream(COAP_PROTO_WS, w[1][0] == 's', 0, b, len, cuts, nc);
    }
    free(b);
    return;
  }
  printf("bad-op");
}

H_MAIN_LOOP(step)
