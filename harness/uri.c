/* H-pure harness for C16 (URI <-> options): drives libcoap's real URI code
 * in-process, one operation per input line, one canonical output line.
 * Every input byte string lives in an exact-size heap block without a NUL
 * terminator and every caller-supplied output buffer is an exact-size heap
 * block, so ASan reports a one-byte overread / overwrite.
 *
 *   splitpath  <hex> [buflen]     coap_split_path        -> n=<ret> used=<buflen'> segs=<list>
 *   splitquery <hex> [buflen]     coap_split_query       -> same
 *   pathopts   <hex>              coap_path_into_optlist -> ok <list> | fail
 *   queryopts  <hex>              coap_query_into_optlist
 *   getpath    <list>             PDU with Uri-Path options -> coap_get_uri_path  -> ok <hex> | null
 *   getquery   <list>             PDU with Uri-Query options -> coap_get_query
 *   rtpath     <list>             getpath, then both path splitters on the result -> ok str=<hex> a=<list> b=<list>
 *   rtquery    <list>
 *   splituri   <hex>              coap_split_uri        -> ok scheme=.. host=.. port=.. path=.. query=.. | rej
 *   splitproxy <hex>              coap_split_proxy_uri
 *   uri2opts   <hex>              coap_split_uri + coap_uri_into_optlist(dst=192.0.2.1, create_port_host_opt=1)
 *                                 -> ok <num:hex,...> | rej | fail
 *
 * <list>: "-" = no segment, otherwise comma separated hex strings, "e" = the empty segment.
 */
#include "coap3/coap_libcoap_build.h"
#include "hcommon.h"

static void h_init(void) {
  coap_startup();
  coap_set_log_level(getenv("H_LOG") ? atoi(getenv("H_LOG")) : COAP_LOG_EMERG);
}

/* ---- canonical list printing ------------------------------------------- */
static int lst_first;
static void lst_begin(void) { lst_first = 1; }
static void lst_item(const uint8_t *s, size_t n) {
  if (!lst_first) fputc(',', stdout);
  lst_first = 0;
  if (n == 0) fputc('e', stdout); else h_puthex(stdout, s, n);
}
static void lst_end(void) { if (lst_first) fputc('-', stdout); }

/* the options written by coap_split_path/_query into buf (n of them) */
static void print_optbuf(const uint8_t *buf, size_t used, int n) {
  const uint8_t *p = buf;
  lst_begin();
  for (int i = 0; i < n; i++) {
    coap_option_t o;
    size_t left = used - (size_t)(p - buf);
    size_t sz = coap_opt_parse(p, left, &o);
    if (!sz) { printf("!unparsable-at-%d", i); return; }
    lst_item(o.value, o.length);
    p += sz;
  }
  lst_end();
  if ((size_t)(p - buf) != used) printf("!used-mismatch");
}

static void print_optlist(coap_optlist_t *chain, int with_num) {
  lst_begin();
  for (coap_optlist_t *o = chain; o; o = o->next) {
    if (with_num) {
      if (!lst_first) fputc(',', stdout);
      lst_first = 0;
      printf("%u:", (unsigned)o->number);
      h_puthex(stdout, o->data, o->length);
    } else {
      lst_item(o->data, o->length);
    }
  }
  lst_end();
}

/* ---- parsing a <list> argument ------------------------------------------ */
typedef struct { uint8_t *s; size_t n; } seg_t;
static int parse_list(char *w, seg_t *segs, int max) {
  int n = 0;
  if (!strcmp(w, "-")) return 0;
  char *p = w;
  while (1) {
    char *c = strchr(p, ',');
    if (c) *c = 0;
    if (n >= max) return -1;
    if (!strcmp(p, "e")) { segs[n].s = (uint8_t *)malloc(1); segs[n].n = 0; }
    else { segs[n].s = h_unhex(p, &segs[n].n); if (!segs[n].s || !segs[n].n) return -1; }
    n++;
    if (!c) break;
    p = c + 1;
  }
  return n;
}
static void free_list(seg_t *segs, int n) { for (int i = 0; i < n; i++) free(segs[i].s); }

static coap_pdu_t *pdu_with(coap_option_num_t num, seg_t *segs, int n) {
  size_t total = 16;
  for (int i = 0; i < n; i++) total += segs[i].n + 5;
  coap_pdu_t *pdu = coap_pdu_init(COAP_MESSAGE_CON, COAP_REQUEST_CODE_GET, 1, total + 64);
  if (!pdu) return NULL;
  for (int i = 0; i < n; i++)
    if (!coap_add_option(pdu, num, segs[i].n, segs[i].s)) { coap_delete_pdu(pdu); return NULL; }
  return pdu;
}

/* ---- operations ---------------------------------------------------------- */
static size_t big_buflen(const uint8_t *b, size_t len) {
  /* the documented requirement: length + 2 per segment (3 covers the 3-byte header) */
  size_t nseg = 1;
  for (size_t i = 0; i < len; i++) if (b[i] == '/' || b[i] == '&') nseg++;
  return len + 3 * nseg + 1;
}

static void do_split(int query, const uint8_t *b, size_t len, long want) {
  size_t cap = want >= 0 ? (size_t)want : big_buflen(b, len);
  uint8_t *buf = (uint8_t *)malloc(cap ? cap : 1);
  size_t buflen = cap;
  int n = query ? coap_split_query(b, len, buf, &buflen) : coap_split_path(b, len, buf, &buflen);
  printf("n=%d used=%zu segs=", n, buflen);
  if (n >= 0 && buflen <= cap) print_optbuf(buf, buflen, n); else printf("!");
  free(buf);
}

static void do_opts(int query, const uint8_t *b, size_t len) {
  coap_optlist_t *chain = NULL;
  int r = query ? coap_query_into_optlist(b, len, COAP_OPTION_URI_QUERY, &chain)
          : coap_path_into_optlist(b, len, COAP_OPTION_URI_PATH, &chain);
  if (r) { printf("ok "); print_optlist(chain, 0); }
  else printf("fail");
  coap_delete_optlist(chain);
}

static void do_get(int query, seg_t *segs, int n, int roundtrip) {
  coap_pdu_t *pdu = pdu_with(query ? COAP_OPTION_URI_QUERY : COAP_OPTION_URI_PATH, segs, n);
  if (!pdu) { printf("fail"); return; }
  coap_string_t *s = query ? coap_get_query(pdu) : coap_get_uri_path(pdu);
  if (!s) { printf("null"); coap_delete_pdu(pdu); return; }
  if (!roundtrip) {
    printf("ok "); h_puthex(stdout, s->s, s->length);
  } else {
    /* exact-size copy of the reconstructed string, then both splitters */
    uint8_t *c = (uint8_t *)malloc(s->length ? s->length : 1);
    memcpy(c, s->s, s->length);
    printf("ok str="); h_puthex(stdout, s->s, s->length);
    size_t cap = big_buflen(c, s->length), buflen = cap;
    uint8_t *buf = (uint8_t *)malloc(cap);
    int k = query ? coap_split_query(c, s->length, buf, &buflen) : coap_split_path(c, s->length, buf, &buflen);
    printf(" a=");
    if (k >= 0 && buflen <= cap) print_optbuf(buf, buflen, k); else printf("!");
    free(buf);
    coap_optlist_t *chain = NULL;
    int r = query ? coap_query_into_optlist(c, s->length, COAP_OPTION_URI_QUERY, &chain)
            : coap_path_into_optlist(c, s->length, COAP_OPTION_URI_PATH, &chain);
    printf(" b=");
    if (r) print_optlist(chain, 0); else printf("!");
    coap_delete_optlist(chain);
    free(c);
  }
  coap_delete_string(s);
  coap_delete_pdu(pdu);
}

static void put_str(const coap_str_const_t *s) { h_puthex(stdout, s->s, s->length); }

static void do_splituri(int proxy, const uint8_t *b, size_t len) {
  coap_uri_t uri;
  int r = proxy ? coap_split_proxy_uri(b, len, &uri) : coap_split_uri(b, len, &uri);
  if (r < 0) { printf("rej"); return; }
  printf("ok scheme=%d host=", (int)uri.scheme); put_str(&uri.host);
  printf(" port=%u path=", (unsigned)uri.port); put_str(&uri.path);
  printf(" query="); put_str(&uri.query);
}

static void do_uri2opts(const uint8_t *b, size_t len) {
  coap_uri_t uri;
  coap_address_t dst;
  coap_optlist_t *chain = NULL;
  if (coap_split_uri(b, len, &uri) < 0) { printf("rej"); return; }
  coap_address_init(&dst);
  dst.addr.sin.sin_family = AF_INET;
  dst.addr.sin.sin_port = htons(5683);
  dst.addr.sin.sin_addr.s_addr = htonl(0xC0000201u);  /* 192.0.2.1 */
  dst.size = sizeof(struct sockaddr_in);
  if (!coap_uri_into_optlist(&uri, &dst, &chain, 1)) printf("fail");
  else { printf("ok "); print_optlist(chain, 1); }
  coap_delete_optlist(chain);
}

static void step(char *line) {
  char *w[8];
  int n = h_words(line, w, 8);
  if (n < 2) { printf("bad-op"); return; }
  const char *op = w[0];
  if (!strcmp(op, "getpath") || !strcmp(op, "getquery") || !strcmp(op, "rtpath") || !strcmp(op, "rtquery")) {
    static seg_t segs[4096];
    if (n != 2) { printf("bad-op"); return; }
    int k = parse_list(w[1], segs, 4096);
    if (k < 0) { printf("bad-op"); return; }
    do_get(op[0] == 'g' ? op[3] == 'q' : op[2] == 'q', segs, k, op[0] == 'r');
    free_list(segs, k);
    return;
  }
  size_t len; uint8_t *b0 = h_unhex(w[1], &len);
  if (!b0) { printf("bad-op"); return; }
  /* an empty input is the one-past-the-end pointer of a 1-byte block: reading it is an ASan report */
  const uint8_t *b = len ? b0 : b0 + 1;
  if ((!strcmp(op, "splitpath") || !strcmp(op, "splitquery")) && (n == 2 || n == 3)) {
    long want = -1;
    if (n == 3) { char *e; want = strtol(w[2], &e, 10); if (*e || want < 0) { printf("bad-op"); free(b0); return; } }
    do_split(op[5] == 'q', b, len, want);
  } else if ((!strcmp(op, "pathopts") || !strcmp(op, "queryopts")) && n == 2) {
    do_opts(op[0] == 'q', b, len);
  } else if (!strcmp(op, "splituri") && n == 2) {
    do_splituri(0, b, len);
  } else if (!strcmp(op, "splitproxy") && n == 2) {
    do_splituri(1, b, len);
  } else if (!strcmp(op, "uri2opts") && n == 2) {
    do_uri2opts(b, len);
  } else {
    printf("bad-op");
  }
  free(b0);
}

H_MAIN_LOOP(step)
