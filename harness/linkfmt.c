/* H-pure harness for C20 (/.well-known/core): a real coap_context_t with the resources and
 * attributes named on the input line, then the real coap_print_wellknown() per window.
 *
 *   wk <table> <filter> <windows>
 *   match <text> <pattern> <pfx> <sub>       the static match() of coap_resource.c
 *   body <table> <filter>                    size probe + full print exactly as hnd_get_wellknown_lkd does
 *   get <table> <queries> <szx>              a real block-wise GET /.well-known/core (<queries>: N/- none, else `+`-separated
 *                                            Uri-Query option values, hex, `-` = empty value) through
 *                                            coap_dispatch() on a UDP session, Block2 size 2^(szx+4), reassembled;
 *                                            output <body hex>:<number of responses>  (coap_socket_send is wrapped: nothing is sent)
 *   getx <table> <szx> <xfers>:<order>       interleaved block-wise GETs: <xfers> = `/`-separated `<session 0..3>@<queries>`,
 *                                            <order> = digits, each = "transfer i sends its next block request"; afterwards every
 *                                            unfinished transfer is completed; output per transfer <body hex|bad>:<responses>, `,`-joined
 *
 *   wkev <events>                            block-level events (b<sid><szx>:<num>:<rtag|N>:<queries>, t<sid>, table events of wklive)
 *   wklive <events>                          a live server: `/`-separated events on ONE context, in order
 *                                            `+<path>:<flags>:<attrs>` / `!<path>`  coap_add_resource / coap_delete_resource (as in <table>)
 *                                            `a<path>:<own 0|4>:<name>[=<value>]`   coap_add_attr on the resource REGISTERED for <path>
 *                                            `o<path>:<0|1>`                        coap_resource_set_get_observable on that resource
 *                                            `g<sid 0..3><szx 0..6>:<queries>`      complete block-wise GET through coap_dispatch()
 *                                            `p<filter>`                            coap_print_wellknown: size probe + full print
 *                                            output: one `<body hex|bad>:<responses>` per g/p event, `,`-joined (`.` if none)
 *
 *   <table>   `-` or `,`-separated entries  `+<path>:<flags>:<attrs>` (coap_add_resource) / `!<path>` (coap_delete_resource)
 *             flags: 1 observable, 2 COAP_RESOURCE_FLAGS_OSCORE_ONLY,
 *                    4 path/name/value are caller-owned exact-size objects (COAP_*_FLAGS_RELEASE_*), no NUL behind them
 *             <attrs> `.` or `;`-separated `<name>=<value>` / `<name>`, registered in this order
 *   <filter>  hex, `-` = empty string, `N` = NULL; always an exact-size heap object
 *   <windows> `,`-separated `<offset>/<buflen>`; the buffer is an exact-size heap object
 *   output: F<own full listing hex>;<window>,<window>,…   with <window> = <bytes>:<t|-|e>:<total>[!dirty|!overrun] where
 *           <bytes> is `=<n>` when the n bytes written equal full[offset..offset+n) and `x<hex>` otherwise
 */
#include "coap3/coap_libcoap_build.h"
#include "coap_resource.c"      /* for the static match() */
#include "hcommon.h"

static coap_context_t *ctx;

/* coap_delete_all_resources() is an internal (_lkd-style) function: with locking compiled in it must run under the global lock */
static void h_delete_all_resources(void) {
  coap_lock_lock(ctx, return);
  coap_delete_all_resources(ctx);
  coap_lock_unlock(ctx);
}

/* ---- capture of what the library would send (linked with -Wl,--wrap=coap_socket_send) ---- */
static uint8_t cap[4096];
static size_t cap_len;
static int cap_n;
ssize_t __wrap_coap_socket_send(coap_socket_t *sock, coap_session_t *session, const uint8_t *data, size_t len) {
  (void)sock; (void)session;
  cap_n++;
  cap_len = len < sizeof(cap) ? len : sizeof(cap);
  memcpy(cap, data, cap_len);
  return (ssize_t)len;
}

static void h_init(void) {
  coap_startup();
  coap_set_log_level(getenv("H_LOG") ? atoi(getenv("H_LOG")) : COAP_LOG_EMERG);
  ctx = coap_new_context(NULL);
  if (!ctx) { fprintf(stderr, "no context\n"); exit(3); }
  coap_context_set_block_mode(ctx, COAP_BLOCK_USE_LIBCOAP);
}

/* a coap_str_const_t whose bytes live inside the same allocation and end exactly at its end */
static coap_str_const_t *exact_str(const uint8_t *b, size_t len) {
  coap_str_const_t *x = (coap_str_const_t *)coap_malloc_type(COAP_STRING, sizeof(coap_str_const_t) + len);
  uint8_t *d = (uint8_t *)x + sizeof(coap_str_const_t);
  if (len) memcpy(d, b, len);
  x->s = d;
  x->length = len;
  return x;
}

static int split(char *s, char sep, char **w, int max) {
  int n = 0;
  w[n++] = s;
  for (; *s; s++) {
    if (*s == sep) {
      *s = 0;
      if (n == max) return -1;
      w[n++] = s + 1;
    }
  }
  return n;
}

static int add_attr(coap_resource_t *r, char *spec, int owned) {
  char *eq = strchr(spec, '=');
  size_t nl, vl = 0;
  uint8_t *n, *v = NULL;
  if (eq) *eq = 0;
  n = h_unhex(spec, &nl);
  if (!n) return 0;
  if (eq) { v = h_unhex(eq + 1, &vl); if (!v) { free(n); return 0; } }
  if (owned) {
    coap_add_attr(r, exact_str(n, nl), eq ? exact_str(v, vl) : NULL,
                  COAP_ATTR_FLAGS_RELEASE_NAME | COAP_ATTR_FLAGS_RELEASE_VALUE);
  } else {
    coap_str_const_t ns = { nl, n }, vs = { vl, v };
    coap_add_attr(r, &ns, eq ? &vs : NULL, 0);
  }
  free(n); free(v);
  return 1;
}

static int apply_entry(char *e) {
  if (e[0] == '!') {
    size_t pl; uint8_t *p = h_unhex(e + 1, &pl);
    coap_str_const_t ps;
    coap_resource_t *r;
    if (!p) return 0;
    ps.length = pl; ps.s = p;
    r = coap_get_resource_from_uri_path(ctx, &ps);
    if (r) coap_delete_resource(ctx, r);
    free(p);
    return 1;
  }
  if (e[0] == '+') {
    char *f[3], *a[64];
    size_t pl; uint8_t *p;
    int flags, na, i, owned;
    coap_resource_t *r;
    if (split(e + 1, ':', f, 3) != 3) return 0;
    p = h_unhex(f[0], &pl);
    if (!p) return 0;
    flags = atoi(f[1]);
    owned = (flags & 4) != 0;
    if (owned) {
      r = coap_resource_init(exact_str(p, pl), COAP_RESOURCE_FLAGS_RELEASE_URI | ((flags & 2) ? COAP_RESOURCE_FLAGS_OSCORE_ONLY : 0));
    } else {
      coap_str_const_t ps = { pl, p };
      r = coap_resource_init(&ps, (flags & 2) ? COAP_RESOURCE_FLAGS_OSCORE_ONLY : 0);
    }
    free(p);
    if (!r) return 0;
    if (flags & 1) coap_resource_set_get_observable(r, 1);
    if (strcmp(f[2], ".")) {
      na = split(f[2], ';', a, 64);
      if (na < 0) { coap_delete_resource(NULL, r); return 0; }
      for (i = 0; i < na; i++)
        if (!add_attr(r, a[i], owned)) { coap_delete_resource(NULL, r); return 0; }
    }
    coap_add_resource(ctx, r);
    return 1;
  }
  return 0;
}

static int build_table(char *spec) {
  static char *e[256];
  int n, i;
  if (!strcmp(spec, "-")) return 1;
  n = split(spec, ',', e, 256);
  if (n < 0) return 0;
  for (i = 0; i < n; i++) if (!apply_entry(e[i])) return 0;
  return 1;
}

/* exact-size filter object; returns 0 on bad hex */
static int make_filter(const char *w, coap_string_t *qs, coap_string_t **q) {
  if (!strcmp(w, "N")) { *q = NULL; qs->s = NULL; return 1; }
  {
    size_t l; uint8_t *b = h_unhex(w, &l);
    if (!b) return 0;
    qs->s = (uint8_t *)malloc(l);   /* malloc(0): a valid pointer to a zero-size object */
    if (l) memcpy(qs->s, b, l);
    qs->length = l;
    free(b);
    *q = qs;
    return 1;
  }
}

/* the side's own full listing (size probe + full print), printed once per line; a window whose bytes equal
 * full[offset .. offset+written) is printed as `=<written>`, any other as `x<hex>` */
static uint8_t *full; static size_t full_len; static int full_ok;

static void get_full(coap_string_t *q) {
  uint8_t small[4];
  size_t total = 0, len;
  coap_print_status_t res = coap_print_wellknown(ctx, small, &total, UINT_MAX, q);
  full = NULL; full_len = 0; full_ok = 0;
  if (res & COAP_PRINT_STATUS_ERROR) return;
  full = (uint8_t *)malloc(total);
  len = total;
  res = coap_print_wellknown(ctx, full, &len, 0, q);
  if ((res & COAP_PRINT_STATUS_ERROR) || COAP_PRINT_OUTPUT_LENGTH(res) > total) return;
  full_len = COAP_PRINT_OUTPUT_LENGTH(res);
  full_ok = 1;
}

static void one_window(coap_string_t *q, size_t offset, size_t buflen) {
  uint8_t *buf = (uint8_t *)malloc(buflen);
  size_t len = buflen, i, outl;
  coap_print_status_t res;
  int dirty = 0;
  if (buflen) memset(buf, 0xA5, buflen);
  res = coap_print_wellknown(ctx, buf, &len, offset, q);
  outl = COAP_PRINT_OUTPUT_LENGTH(res);
  if (res & COAP_PRINT_STATUS_ERROR) {
    printf("=0:e:%zu", len);
  } else if (outl > buflen) {
    printf("=0:%s:%zu!overrun", (res & COAP_PRINT_STATUS_TRUNC) ? "t" : "-", len);
  } else {
    if (outl == 0 || (full_ok && offset <= full_len && outl <= full_len - offset && !memcmp(buf, full + offset, outl))) {
      printf("=%zu", outl);
    } else {
      fputc('x', stdout);
      h_puthex(stdout, buf, outl);
    }
    printf(":%s:%zu", (res & COAP_PRINT_STATUS_TRUNC) ? "t" : "-", len);
    for (i = outl; i < buflen; i++) if (buf[i] != 0xA5) dirty = 1;
    if (dirty) printf("!dirty");
  }
  free(buf);
}

static void do_wk(char *table, char *filter, char *windows) {
  coap_string_t qs, *q;
  char *p = windows;
  int first = 1;
  if (!make_filter(filter, &qs, &q)) { printf("bad-op"); return; }
  if (!build_table(table)) { printf("bad-op"); goto out; }
  get_full(q);
  fputc('F', stdout);
  if (full_ok) h_puthex(stdout, full, full_len); else printf("rej");
  fputc(';', stdout);
  while (*p) {
    char *end;
    size_t off = strtoull(p, &end, 10), bl;
    if (*end != '/') { printf("bad-op"); break; }
    bl = strtoull(end + 1, &end, 10);
    if (!first) fputc(',', stdout);
    first = 0;
    one_window(q, off, bl);
    if (*end == ',') end++;
    else if (*end) { printf("bad-op"); break; }
    p = end;
  }
out:
  free(full); full = NULL;
  h_delete_all_resources();
  free(qs.s);
}

/* the two calls of hnd_get_wellknown_lkd(): probe with a 4-byte stack buffer of declared size 0, then the full print */
static void do_body(char *table, char *filter) {
  coap_string_t qs, *q;
  uint8_t small[4];
  size_t wkc_len = 0, len;
  coap_print_status_t res;
  if (!make_filter(filter, &qs, &q)) { printf("bad-op"); return; }
  if (!build_table(table)) { printf("bad-op"); goto out; }
  res = coap_print_wellknown(ctx, small, &wkc_len, UINT_MAX, q);
  if (res & COAP_PRINT_STATUS_ERROR) { printf("rej"); goto out; }
  if (wkc_len > 0) {
    coap_string_t *ds = coap_new_string(wkc_len);
    len = wkc_len;
    res = coap_print_wellknown(ctx, ds->s, &len, 0, q);
    if (res & COAP_PRINT_STATUS_ERROR) printf("rej");
    else if (len > wkc_len) printf("overrun");
    else h_puthex(stdout, ds->s, len);
    coap_delete_string(ds);
  } else {
    printf("-");
  }
out:
  h_delete_all_resources();
  free(qs.s);
}

static void do_get(char *table, char *queries, int szx) {
  coap_address_t addr;
  coap_session_t *session = NULL;
  static uint8_t body[1 << 16];
  static uint8_t *qv[16]; static size_t ql[16];
  char *qw[16];
  int nq = 0, k;
  size_t blen = 0;
  unsigned num = 0, nresp = 0;
  int bad = 0;
  const char *why = "";
  if (szx < 0 || szx > 6) { printf("bad-op"); return; }
  if (strcmp(queries, "N") && strcmp(queries, "-")) {
    nq = split(queries, '+', qw, 16);
    if (nq < 0) { printf("bad-op"); return; }
    for (k = 0; k < nq; k++) {
      qv[k] = h_unhex(qw[k], &ql[k]);
      if (!qv[k]) { while (k--) free(qv[k]); printf("bad-op"); return; }
    }
  }
  if (!build_table(table)) { printf("bad-op"); goto out; }
  coap_address_init(&addr);
  addr.size = sizeof(struct sockaddr_in);
  addr.addr.sin.sin_family = AF_INET;
  addr.addr.sin.sin_addr.s_addr = htonl(INADDR_LOOPBACK);
  addr.addr.sin.sin_port = htons(5683);
  session = coap_new_client_session(ctx, NULL, &addr, COAP_PROTO_UDP);
  if (!session) { printf("fail-session"); goto out; }
  for (;;) {
    coap_pdu_t *req = coap_pdu_init(COAP_MESSAGE_CON, COAP_REQUEST_CODE_GET, (coap_mid_t)(0x1000 + num), 1152);
    coap_pdu_t *rsp;
    uint8_t tok[2] = { 0xC2, 0x00 }, b[4];
    coap_opt_iterator_t oi;
    coap_opt_t *o;
    size_t dl = 0; const uint8_t *d = NULL;
    unsigned more = 0;
    coap_add_token(req, 2, tok);
    coap_add_option(req, COAP_OPTION_URI_PATH, 11, (const uint8_t *)".well-known");
    coap_add_option(req, COAP_OPTION_URI_PATH, 4, (const uint8_t *)"core");
    for (k = 0; k < nq; k++) coap_add_option(req, COAP_OPTION_URI_QUERY, ql[k], qv[k]);
    coap_add_option(req, COAP_OPTION_BLOCK2, coap_encode_var_safe(b, sizeof(b), (num << 4) | (unsigned)szx), b);
    cap_n = 0; cap_len = 0;
    coap_lock_lock(ctx, );
    coap_dispatch(ctx, session, req);
    coap_lock_unlock(ctx);
    coap_delete_pdu(req);
    if (cap_n != 1) { bad = 1; why = "responses"; break; }
    nresp++;
    rsp = coap_pdu_init(0, 0, 0, 2048);
    if (!coap_pdu_parse(COAP_PROTO_UDP, cap, cap_len, rsp)) { bad = 1; why = "unparsable"; coap_delete_pdu(rsp); break; }
    if (rsp->code != COAP_RESPONSE_CODE(205)) { bad = 1; why = "code"; coap_delete_pdu(rsp); break; }
    coap_get_data(rsp, &dl, &d);
    o = coap_check_option(rsp, COAP_OPTION_BLOCK2, &oi);
    if (o) {
      unsigned v = coap_decode_var_bytes(coap_opt_value(o), coap_opt_length(o));
      more = (v >> 3) & 1;
      if ((v >> 4) != num || (int)(v & 7) != szx) { bad = 1; why = "block"; }
      if (more && dl != ((size_t)1 << (szx + 4))) { bad = 1; why = "size"; }
      if (dl > ((size_t)1 << (szx + 4))) { bad = 1; why = "size"; }
    } else if (num != 0) { bad = 1; why = "noblock"; }
    if (blen + dl > sizeof(body)) { bad = 1; why = "long"; }
    if (!bad && dl) { memcpy(body + blen, d, dl); blen += dl; }
    coap_delete_pdu(rsp);
    if (bad || !more) break;
    num++;
    if (num > 5000) { bad = 1; why = "endless"; break; }
  }
  if (bad) printf("bad-%s", why);
  else { h_puthex(stdout, body, blen); printf(":%u", nresp); }
out:
  if (session) coap_session_release(session);
  h_delete_all_resources();
  for (k = 0; k < nq; k++) free(qv[k]);
}

/* ---- getx: several block-wise transfers (different Uri-Query options, one or two sessions) whose block requests
 *      interleave in the order given by the script; every transfer must reassemble to the listing for ITS query ---- */
#define XMAX 8
struct xfer {
  int sid;
  uint8_t *qv[8]; size_t ql[8]; int nq;
  uint8_t *buf; size_t blen, cap;
  unsigned next, nresp;
  int done, failed;
};

/* one block request of one transfer through coap_dispatch(); returns 0 on a malformed/unexpected response */
static int x_request(coap_session_t *session, struct xfer *x, int idx, int szx, unsigned mid) {
  coap_pdu_t *req = coap_pdu_init(COAP_MESSAGE_CON, COAP_REQUEST_CODE_GET, (coap_mid_t)mid, 1152);
  coap_pdu_t *rsp;
  uint8_t tok[2], b[4];
  coap_opt_iterator_t oi;
  coap_opt_t *o;
  size_t dl = 0; const uint8_t *d = NULL;
  unsigned more = 0, num = x->next;
  int ok = 1, k;
  tok[0] = 0xD0; tok[1] = (uint8_t)idx;
  coap_add_token(req, 2, tok);
  coap_add_option(req, COAP_OPTION_URI_PATH, 11, (const uint8_t *)".well-known");
  coap_add_option(req, COAP_OPTION_URI_PATH, 4, (const uint8_t *)"core");
  for (k = 0; k < x->nq; k++) coap_add_option(req, COAP_OPTION_URI_QUERY, x->ql[k], x->qv[k]);
  coap_add_option(req, COAP_OPTION_BLOCK2, coap_encode_var_safe(b, sizeof(b), (num << 4) | (unsigned)szx), b);
  cap_n = 0; cap_len = 0;
  coap_lock_lock(ctx, );
  coap_dispatch(ctx, session, req);
  coap_lock_unlock(ctx);
  coap_delete_pdu(req);
  x->next++; x->nresp++;
  if (cap_n != 1) return 0;
  rsp = coap_pdu_init(0, 0, 0, 2048);
  if (!coap_pdu_parse(COAP_PROTO_UDP, cap, cap_len, rsp)) { coap_delete_pdu(rsp); return 0; }
  if (rsp->code != COAP_RESPONSE_CODE(205)) { coap_delete_pdu(rsp); return 0; }
  coap_get_data(rsp, &dl, &d);
  o = coap_check_option(rsp, COAP_OPTION_BLOCK2, &oi);
  if (o) {
    unsigned v = coap_decode_var_bytes(coap_opt_value(o), coap_opt_length(o));
    more = (v >> 3) & 1;
    if ((v >> 4) != num || (int)(v & 7) != szx) ok = 0;
    if (more && dl != ((size_t)1 << (szx + 4))) ok = 0;
    if (dl > ((size_t)1 << (szx + 4))) ok = 0;
  } else if (num != 0) ok = 0;
  if (ok && dl) {
    if (x->blen + dl > x->cap) { x->cap = (x->blen + dl) * 2 + 64; x->buf = (uint8_t *)realloc(x->buf, x->cap); }
    memcpy(x->buf + x->blen, d, dl); x->blen += dl;
  }
  coap_delete_pdu(rsp);
  if (ok && !more) x->done = 1;
  if (ok && x->next > 5000) ok = 0;
  return ok;
}

static void do_getx(char *table, int szx, char *script) {
  static struct xfer xs[XMAX];
  coap_session_t *sess[4] = { NULL, NULL, NULL, NULL };
  char *parts[2], *xw[XMAX];
  int nx = 0, i, k, good = 1;
  unsigned mid = 0x2000;
  memset(xs, 0, sizeof(xs));
  if (szx < 0 || szx > 6 || split(script, ':', parts, 2) != 2) { printf("bad-op"); return; }
  nx = split(parts[0], '/', xw, XMAX);
  if (nx < 1) { printf("bad-op"); return; }
  for (i = 0; i < nx && good; i++) {
    char *at = strchr(xw[i], '@'), *qw[8];
    if (!at) { good = 0; break; }
    *at++ = 0;
    xs[i].sid = atoi(xw[i]);
    if (xs[i].sid < 0 || xs[i].sid > 3) { good = 0; break; }
    if (strcmp(at, "N") && strcmp(at, "-")) {
      int nq = split(at, '+', qw, 8);
      if (nq < 0) { good = 0; break; }
      for (k = 0; k < nq; k++) {
        xs[i].qv[k] = h_unhex(qw[k], &xs[i].ql[k]);
        if (!xs[i].qv[k]) { good = 0; break; }
        xs[i].nq = k + 1;
      }
    }
  }
  for (k = 0; parts[1][k] && good; k++) if (parts[1][k] < '0' || parts[1][k] > '9') good = 0;
  if (!good || !build_table(table)) { printf("bad-op"); goto out; }
  for (i = 0; i < nx; i++) {
    if (!sess[xs[i].sid]) {
      coap_address_t addr;
      coap_address_init(&addr);
      addr.size = sizeof(struct sockaddr_in);
      addr.addr.sin.sin_family = AF_INET;
      addr.addr.sin.sin_addr.s_addr = htonl(INADDR_LOOPBACK);
      addr.addr.sin.sin_port = htons((uint16_t)(5683 + xs[i].sid));
      sess[xs[i].sid] = coap_new_client_session(ctx, NULL, &addr, COAP_PROTO_UDP);
      if (!sess[xs[i].sid]) { printf("fail-session"); goto out; }
    }
  }
  /* the script order, then every unfinished transfer is run to its end */
  for (k = 0; parts[1][k]; k++) {
    i = parts[1][k] - '0';
    if (i < nx && !xs[i].done)
      if (!x_request(sess[xs[i].sid], &xs[i], i, szx, mid++)) { xs[i].done = 1; xs[i].failed = 1; }
  }
  for (i = 0; i < nx; i++)
    while (!xs[i].done)
      if (!x_request(sess[xs[i].sid], &xs[i], i, szx, mid++)) { xs[i].done = 1; xs[i].failed = 1; }
  for (i = 0; i < nx; i++) {
    if (i) fputc(',', stdout);
    if (xs[i].failed) printf("bad"); else h_puthex(stdout, xs[i].buf, xs[i].blen);
    printf(":%u", xs[i].nresp);
  }
out:
  for (i = 0; i < 4; i++) if (sess[i]) coap_session_release(sess[i]);
  h_delete_all_resources();
  for (i = 0; i < XMAX; i++) { for (k = 0; k < 8; k++) free(xs[i].qv[k]); free(xs[i].buf); }
}


/* ---- wklive: the table changes between requests on one context; every request must see the table as it is ---- */
static coap_resource_t *registered(const char *hex) {
  size_t pl; uint8_t *p = h_unhex(hex, &pl);
  coap_str_const_t ps;
  coap_resource_t *r;
  if (!p) return NULL;
  ps.length = pl; ps.s = p;
  r = coap_get_resource_from_uri_path(ctx, &ps);
  free(p);
  return r;
}

static int hex_ok(const char *hex) {
  size_t l; uint8_t *p = h_unhex(hex, &l);
  if (!p) return 0;
  free(p);
  return 1;
}

static void do_wklive(char *script) {
  static char *ev[128];
  coap_session_t *sess[4] = { NULL, NULL, NULL, NULL };
  int n = split(script, '/', ev, 128), i, k, nout = 0;
  unsigned mid = 0x3000;
  if (n < 0) { printf("bad-op"); return; }
  for (i = 0; i < n; i++) {
    char *e = ev[i];
    if (e[0] == '+' || e[0] == '!') {
      if (!apply_entry(e)) { printf("%sbad-op", nout ? "," : ""); goto out; }
    } else if (e[0] == 'a') {
      char *f[3];
      coap_resource_t *r;
      if (split(e + 1, ':', f, 3) != 3 || !hex_ok(f[0])) { printf("%sbad-op", nout ? "," : ""); goto out; }
      r = registered(f[0]);
      if (r) {
        if (!add_attr(r, f[2], atoi(f[1]) == 4)) { printf("%sbad-op", nout ? "," : ""); goto out; }
      } else {
        char *eq = strchr(f[2], '=');
        if (eq) *eq = 0;
        if (!hex_ok(f[2]) || (eq && !hex_ok(eq + 1))) { printf("%sbad-op", nout ? "," : ""); goto out; }
      }
    } else if (e[0] == 'o') {
      char *f[2];
      coap_resource_t *r;
      if (split(e + 1, ':', f, 2) != 2 || !hex_ok(f[0])) { printf("%sbad-op", nout ? "," : ""); goto out; }
      r = registered(f[0]);
      if (r) coap_resource_set_get_observable(r, atoi(f[1]) != 0);
    } else if (e[0] == 'g') {
      struct xfer x;
      char *q, *qw[8];
      int sid, szx, good = 1;
      memset(&x, 0, sizeof(x));
      if (!e[1] || !e[2] || e[3] != ':') { printf("%sbad-op", nout ? "," : ""); goto out; }
      sid = e[1] - '0'; szx = e[2] - '0'; q = e + 4;
      if (sid < 0 || sid > 3 || szx < 0 || szx > 6) { printf("%sbad-op", nout ? "," : ""); goto out; }
      if (strcmp(q, "N") && strcmp(q, "-")) {
        int nq = split(q, '+', qw, 8);
        if (nq < 0) good = 0;
        for (k = 0; good && k < nq; k++) {
          x.qv[k] = h_unhex(qw[k], &x.ql[k]);
          if (!x.qv[k]) good = 0; else x.nq = k + 1;
        }
      }
      if (!good) { for (k = 0; k < 8; k++) free(x.qv[k]); printf("%sbad-op", nout ? "," : ""); goto out; }
      if (!sess[sid]) {
        coap_address_t addr;
        coap_address_init(&addr);
        addr.size = sizeof(struct sockaddr_in);
        addr.addr.sin.sin_family = AF_INET;
        addr.addr.sin.sin_addr.s_addr = htonl(INADDR_LOOPBACK);
        addr.addr.sin.sin_port = htons((uint16_t)(5683 + sid));
        sess[sid] = coap_new_client_session(ctx, NULL, &addr, COAP_PROTO_UDP);
        if (!sess[sid]) { for (k = 0; k < 8; k++) free(x.qv[k]); printf("%sfail-session", nout ? "," : ""); goto out; }
      }
      x.sid = sid;
      while (!x.done)
        if (!x_request(sess[sid], &x, i & 0xff, szx, mid++)) { x.done = 1; x.failed = 1; }
      if (nout++) fputc(',', stdout);
      if (x.failed) printf("bad"); else h_puthex(stdout, x.buf, x.blen);
      printf(":%u", x.nresp);
      for (k = 0; k < 8; k++) free(x.qv[k]);
      free(x.buf);
    } else if (e[0] == 'p') {
      coap_string_t qs, *q;
      if (!make_filter(e + 1, &qs, &q)) { printf("%sbad-op", nout ? "," : ""); goto out; }
      get_full(q);
      if (nout++) fputc(',', stdout);
      if (full_ok) h_puthex(stdout, full, full_len); else printf("bad");
      printf(":0");
      free(full); full = NULL;
      free(qs.s);
    } else {
      printf("%sbad-op", nout ? "," : ""); goto out;
    }
  }
  if (!nout) printf(".");
out:
  for (i = 0; i < 4; i++) if (sess[i]) coap_session_release(sess[i]);
  h_delete_all_resources();
}

/* ---- wkev: block-level events on one context: single block requests (any number, Request-Tag), table changes while
 *      transfers are under way, lg_xmit timeouts; output per block request <payload>:<M>:<E<k>|-> or e<code> ---- */
static void do_wkev(char *script) {
  static char *ev[160];
  static uint64_t etags[160];
  int netag = 0;
  coap_session_t *sess[4] = { NULL, NULL, NULL, NULL };
  int n = split(script, '/', ev, 160), i, k, nout = 0;
  unsigned mid = 0x4000;
  if (n < 0) { printf("bad-op"); return; }
  for (i = 0; i < n; i++) {
    char *e = ev[i];
    if (e[0] == '+' || e[0] == '!') {
      if (!apply_entry(e)) { printf("%sbad-op", nout ? "," : ""); goto out; }
    } else if (e[0] == 'a') {
      char *f[3];
      coap_resource_t *r;
      if (split(e + 1, ':', f, 3) != 3 || !hex_ok(f[0])) { printf("%sbad-op", nout ? "," : ""); goto out; }
      r = registered(f[0]);
      if (r) {
        if (!add_attr(r, f[2], atoi(f[1]) == 4)) { printf("%sbad-op", nout ? "," : ""); goto out; }
      } else {
        char *eq = strchr(f[2], '=');
        if (eq) *eq = 0;
        if (!hex_ok(f[2]) || (eq && !hex_ok(eq + 1))) { printf("%sbad-op", nout ? "," : ""); goto out; }
      }
    } else if (e[0] == 'o') {
      char *f[2];
      coap_resource_t *r;
      if (split(e + 1, ':', f, 2) != 2 || !hex_ok(f[0])) { printf("%sbad-op", nout ? "," : ""); goto out; }
      r = registered(f[0]);
      if (r) coap_resource_set_get_observable(r, atoi(f[1]) != 0);
    } else if (e[0] == 't') {
      int sid = e[1] - '0';
      if (!e[1] || e[2] || sid < 0 || sid > 3) { printf("%sbad-op", nout ? "," : ""); goto out; }
      if (sess[sid]) {
        coap_tick_t now, rem;
        coap_ticks(&now);
        now += (coap_tick_t)1000000 * COAP_TICKS_PER_SECOND;
        coap_lock_lock(ctx, );
        coap_block_check_lg_xmit_timeouts(sess[sid], now, &rem);
        coap_lock_unlock(ctx);
      }
    } else if (e[0] == 'b') {
      char *f[4], *qw[8];
      uint8_t *qv[8], *rt = NULL, tok[2], b[4];
      size_t ql[8], rtl = 0, dl = 0;
      const uint8_t *d = NULL;
      int sid, szx, nq = 0, good = 1;
      unsigned num;
      coap_pdu_t *req, *rsp;
      coap_opt_iterator_t oi;
      coap_opt_t *o;
      memset(qv, 0, sizeof(qv));
      if (split(e + 1, ':', f, 4) != 4 || strlen(f[0]) != 2) { printf("%sbad-op", nout ? "," : ""); goto out; }
      sid = f[0][0] - '0'; szx = f[0][1] - '0';
      if (sid < 0 || sid > 3 || szx < 0 || szx > 6 || !f[1][0] || strspn(f[1], "0123456789") != strlen(f[1]) || strlen(f[1]) > 6) {
        printf("%sbad-op", nout ? "," : ""); goto out;
      }
      num = (unsigned)atoi(f[1]);
      if (strcmp(f[2], "N")) { rt = h_unhex(f[2], &rtl); if (!rt || rtl > 8) good = 0; }
      if (good && strcmp(f[3], "N") && strcmp(f[3], "-")) {
        nq = split(f[3], '+', qw, 8);
        if (nq < 0) { good = 0; nq = 0; }
        for (k = 0; good && k < nq; k++) { qv[k] = h_unhex(qw[k], &ql[k]); if (!qv[k]) good = 0; }
      }
      if (!good) { for (k = 0; k < 8; k++) free(qv[k]); free(rt); printf("%sbad-op", nout ? "," : ""); goto out; }
      if (!sess[sid]) {
        coap_address_t addr;
        coap_address_init(&addr);
        addr.size = sizeof(struct sockaddr_in);
        addr.addr.sin.sin_family = AF_INET;
        addr.addr.sin.sin_addr.s_addr = htonl(INADDR_LOOPBACK);
        addr.addr.sin.sin_port = htons((uint16_t)(5683 + sid));
        sess[sid] = coap_new_client_session(ctx, NULL, &addr, COAP_PROTO_UDP);
        if (!sess[sid]) { for (k = 0; k < 8; k++) free(qv[k]); free(rt); printf("%sfail-session", nout ? "," : ""); goto out; }
      }
      req = coap_pdu_init(COAP_MESSAGE_CON, COAP_REQUEST_CODE_GET, (coap_mid_t)mid++, 1152);
      tok[0] = 0xE0; tok[1] = (uint8_t)i;
      coap_add_token(req, 2, tok);
      coap_add_option(req, COAP_OPTION_URI_PATH, 11, (const uint8_t *)".well-known");
      coap_add_option(req, COAP_OPTION_URI_PATH, 4, (const uint8_t *)"core");
      for (k = 0; k < nq; k++) coap_add_option(req, COAP_OPTION_URI_QUERY, ql[k], qv[k]);
      coap_add_option(req, COAP_OPTION_BLOCK2, coap_encode_var_safe(b, sizeof(b), (num << 4) | (unsigned)szx), b);
      if (rt) coap_add_option(req, COAP_OPTION_RTAG, rtl, rt);
      cap_n = 0; cap_len = 0;
      coap_lock_lock(ctx, );
      coap_dispatch(ctx, sess[sid], req);
      coap_lock_unlock(ctx);
      coap_delete_pdu(req);
      for (k = 0; k < 8; k++) free(qv[k]);
      free(rt);
      if (nout++) fputc(',', stdout);
      if (cap_n != 1) { printf("bad-nresp%d", cap_n); continue; }
      rsp = coap_pdu_init(0, 0, 0, 2048);
      if (!coap_pdu_parse(COAP_PROTO_UDP, cap, cap_len, rsp)) { coap_delete_pdu(rsp); printf("bad-parse"); continue; }
      if (rsp->code != COAP_RESPONSE_CODE(205)) {
        printf("e%d", (rsp->code >> 5) * 100 + (rsp->code & 0x1f));
        coap_delete_pdu(rsp);
        continue;
      }
      coap_get_data(rsp, &dl, &d);
      o = coap_check_option(rsp, COAP_OPTION_BLOCK2, &oi);
      {
        unsigned more = 0;
        if (o) {
          unsigned v = coap_decode_var_bytes(coap_opt_value(o), coap_opt_length(o));
          more = (v >> 3) & 1;
          if ((v >> 4) != num || (int)(v & 7) != szx) { printf("bad-block%u.%u", v >> 4, v & 7); coap_delete_pdu(rsp); continue; }
        }
        h_puthex(stdout, d, dl);
        printf(":%u:", more);
      }
      o = coap_check_option(rsp, COAP_OPTION_ETAG, &oi);
      if (o) {
        uint64_t et = coap_decode_var_bytes8(coap_opt_value(o), coap_opt_length(o));
        for (k = 0; k < netag; k++) if (etags[k] == et) break;
        if (k == netag && netag < 160) etags[netag++] = et;
        printf("E%d", k);
      } else printf("-");
      coap_delete_pdu(rsp);
    } else {
      printf("%sbad-op", nout ? "," : ""); goto out;
    }
  }
  if (!nout) printf(".");
out:
  for (i = 0; i < 4; i++) if (sess[i]) coap_session_release(sess[i]);
  h_delete_all_resources();
}

static void do_match(const char *t, const char *p, int pfx, int sub) {
  size_t tl, pl;
  uint8_t *tb = h_unhex(t, &tl), *pb = h_unhex(p, &pl), *te, *pe;
  coap_str_const_t ts, ps;
  if (!tb || !pb) { printf("bad-op"); free(tb); free(pb); return; }
  te = (uint8_t *)malloc(tl); pe = (uint8_t *)malloc(pl);
  if (tl) memcpy(te, tb, tl);
  if (pl) memcpy(pe, pb, pl);
  ts.length = tl; ts.s = te; ps.length = pl; ps.s = pe;
  printf("%d", match(&ts, &ps, pfx, sub) ? 1 : 0);
  free(tb); free(pb); free(te); free(pe);
}

static void step(char *line) {
  char *w[8];
  int n = h_words(line, w, 8);
  if (n == 4 && !strcmp(w[0], "wk")) { do_wk(w[1], w[2], w[3]); return; }
  if (n == 3 && !strcmp(w[0], "body")) { do_body(w[1], w[2]); return; }
  if (n == 4 && !strcmp(w[0], "get")) { do_get(w[1], w[2], atoi(w[3])); return; }
  if (n == 2 && !strcmp(w[0], "wklive")) { do_wklive(w[1]); return; }
  if (n == 2 && !strcmp(w[0], "wkev")) { do_wkev(w[1]); return; }
  if (n == 4 && !strcmp(w[0], "getx")) { do_getx(w[1], atoi(w[2]), w[3]); return; }
  if (n == 5 && !strcmp(w[0], "match")) { do_match(w[1], w[2], atoi(w[3]), atoi(w[4])); return; }
  printf("bad-op");
}

H_MAIN_LOOP(step)
