/* sim_demo.c — smallest complete use of sim_core.h (template for the H-sim properties).
 *
 *   get <dropmask> <maxsteps>
 *
 * A client context and a server context (resource /r answering 2.05 "hi") in one process.  The client sends one
 * CON GET; datagram number k (both directions, in order of transmission) is dropped iff bit k of <dropmask> is
 * set, otherwise delivered immediately.  The loop advances virtual time by whatever the client's prepare call
 * returned.  Output: the whole log (tx / rsp / nack / w tokens with virtual timestamps).
 */
#include "sim_core.h"

static unsigned long dropmask;
static const sim_dgram_t *pending[64];
static int npending;

static void on_tx(const sim_dgram_t *d) {
  if (d->seq < 64 && ((dropmask >> d->seq) & 1)) { sim_logf("drop#%u", d->seq); return; }
  if (npending < 64) pending[npending++] = d;   /* delivered after the current libcoap call returns */
}

static void flush_net(void) {
  while (npending) {
    const sim_dgram_t *d = pending[0];
    memmove(pending, pending + 1, sizeof(pending[0]) * (size_t)(--npending));
    sim_deliver(d);
  }
}

static void hnd_get(coap_resource_t *r, coap_session_t *s, const coap_pdu_t *req, const coap_string_t *q, coap_pdu_t *rsp) {
  (void)r; (void)q;
  sim_logf("req@%llu:%d:%d", (unsigned long long)sim_now, sim_sess_id(s), (int)(uint16_t)coap_pdu_get_mid(req));
  coap_pdu_set_code(rsp, COAP_RESPONSE_CODE_CONTENT);
  coap_add_data(rsp, 2, (const uint8_t *)"hi");
}

static void h_init(void) { sim_global_init(); }

static void step(char *line) {
  char *w[8];
  int n = h_words(line, w, 8);
  if (n != 3 || strcmp(w[0], "get")) { printf("bad-op"); return; }
  dropmask = strtoul(w[1], NULL, 0);
  int maxsteps = atoi(w[2]);
  sim_reset();
  npending = 0;
  sim_tx_hook = on_tx;
  sim_prng_fill = 128;
  coap_context_t *srv = sim_new_context(), *cli = sim_new_context();
  coap_endpoint_t *ep = sim_new_endpoint(srv, 0);
  coap_resource_t *r = coap_resource_init(coap_make_str_const("r"), 0);
  coap_register_request_handler(r, COAP_REQUEST_GET, hnd_get);
  coap_add_resource(srv, r);
  coap_session_t *cs = sim_new_client(cli, ntohs(ep->bind_addr.addr.sin.sin_port));
  uint8_t tok[2] = {0xab, 0xcd};
  coap_pdu_t *p = sim_make_pdu(cs, COAP_MESSAGE_CON, COAP_REQUEST_CODE_GET, 0x1234, tok, 2, NULL, 0);
  coap_add_option(p, COAP_OPTION_URI_PATH, 1, (const uint8_t *)"r");
  coap_send(cs, p);
  flush_net();
  for (int i = 0; i < maxsteps; i++) {
    unsigned wait = sim_prepare(cli);
    if (npending) { flush_net(); continue; }   /* something was delivered: ask again before sleeping */
    if (!wait) break;
    sim_now += wait;
  }
  sim_logf("end ca=%u sq=%u", sim_con_active(cs), sim_sendq_len(cli));
  sim_free_all(0);
  sim_log_flush(stdout);
}

H_MAIN_LOOP(step)
