#!/usr/bin/env python3
"""C12: runs harness/sessions.c on stdin and hands every line's REAL allocation trace (` | A a1:12 f1 …`) to the Lean
driver's `ledger` op, i.e. to the Lean-verified monitor Coap.Sessions.ledgerOk; the trace is replaced by its verdict:

    <per-event segments> | A <trace> | lsan=<n>      ->      <per-event segments> | ledger=<true|false>:<diagnostic> | lsan=<n>

A line whose LeakSanitizer verdict is not 0 ends its harness process: a leaked object the ledger does not know (plain
malloc inside libcoap, e.g. a uthash table) would be reported again after every later line of the same process, so the
following lines run in a fresh process — every line's `lsan=` is about that line alone.

usage: sessions_pipe.py <h_sessions> <drv>      (exit status / stderr of the harness are passed through so that
the runner's crash attribution keeps working)"""
import subprocess, sys

h, drv = sys.argv[1], sys.argv[2]
inp = sys.stdin.buffer.read().split(b"\n")
if inp and inp[-1] == b"":
    inp.pop()
lines, pos = [], 0
while True:
    r = subprocess.run([h], input=b"".join(l + b"\n" for l in inp[pos:]), stdout=subprocess.PIPE, stderr=subprocess.PIPE)
    got = r.stdout.decode(errors="replace").split("\n")
    got.pop()               # text after the last newline: empty, or the partial line of a crash (dropped)
    leak = next((i for i, l in enumerate(got) if " | lsan=" in l and not l.rstrip().endswith(" | lsan=0")), None)
    if leak is None or pos + leak + 1 >= len(inp):
        lines += got
        break
    lines += got[:leak + 1]             # what follows a leaking line is run again, in a fresh process
    pos += leak + 1
jobs, where = [], []
for i, l in enumerate(lines):
    if " | A " in l:
        head, rest = l.split(" | A ", 1)
        trace, _, after = rest.partition(" | ")
        jobs.append("ledger " + (trace.strip() or "-"))
        where.append((i, head, after))
if jobs:
    d = subprocess.run([drv], input=("\n".join(jobs) + "\n").encode(), stdout=subprocess.PIPE, stderr=subprocess.PIPE)
    verdicts = d.stdout.decode(errors="replace").split("\n")
    for (i, head, after), v in zip(where, verdicts + ["M monitor-died"] * len(where)):
        v = v[2:] if v.startswith("M ") else v
        lines[i] = "%s | ledger=%s | %s" % (head, v.replace(" ", ":"), after)
sys.stdout.write("".join(l + "\n" for l in lines))
sys.stdout.flush()
sys.stderr.write(r.stderr.decode(errors="replace"))
sys.exit(r.returncode if r.returncode >= 0 else 128 - r.returncode)
