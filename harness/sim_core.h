/* sim_core.h — reusable H-sim core (DESIGN.md §2.3, §4.0).
 *
 * One process, one or more REAL coap_context_t, NO real network traffic and NO real time.
 *
 *   link with   -Wl,--wrap=coap_ticks,--wrap=coap_socket_send,--wrap=coap_socket_recv
 *   python:     C.build_harness(name, C.build_libcoap(), wraps=SIM_WRAPS)   (SIM_WRAPS in vlib/simlib.py)
 *
 * Virtual clock     sim_now (ticks, 1 tick = 1 ms), read by every coap_ticks() inside libcoap.
 * Scripted network  every datagram libcoap writes is captured (never sent), decoded, appended to sim_tx[] and
 *                   to the log, then handed to sim_tx_hook (the harness decides its fate: drop / deliver /
 *                   duplicate / delay).  A datagram is delivered by sim_inject_session()/sim_inject_endpoint():
 *                   the bytes are parked, a synthesised EPOLLIN event is passed to coap_io_do_epoll() and the
 *                   wrapped coap_socket_recv() hands the bytes out.  sim_deliver() routes a captured datagram
 *                   to the context that owns the destination address (client <-> server in one process).
 * Event loop        sim_prepare(ctx) = coap_io_prepare_epoll(ctx, sim_now) (runs retransmissions, returns the
 *                   wait in ms, logged as w@t=ms).  NOTE: coap_io_do_epoll() itself ends with a prepare call.
 * Randomness        coap_set_prng(sim_prng): bytes come from sim_prng_script[] first, then sim_prng_fill.
 * Log               space separated tokens, virtual timestamps, sessions named by index of first appearance:
 *                     tx@T:S:K:CODE:MID:TOK:PLH:RAWH   K = C|N|A|R, hashes = FNV-1a 32 (hex), TOK hex or -
 *                     rsp@T:S:K:CODE:MID:TOK:PLH  nack@T:S:REASON:MID  ev@T:S:0xEVENT  w@T=MS
 *                   sim_tx_logger can be set to replace the tx token format.
 * Internals         sim_con_active(), sim_delayq_len(), sim_sendq_len(), sim_sendq_entry() read libcoap's
 *                   private structures through coap3/coap_libcoap_build.h.
 *
 * Locking          libcoap's global lock is compiled in (COAP_THREAD_SAFE=1): everything in this header goes through the
 *                   public API (which takes the lock itself; re-entry from handlers is allowed).  A harness that calls an
 *                   internal function (`*_lkd`, coap_session_connected, coap_cancel_*, coap_dispatch, …) must bracket it with
 *                   coap_lock_lock(ctx, return); … coap_lock_unlock(ctx);  and must NOT call public API inside that bracket.
 *                   sim_tx_hook runs inside libcoap (lock held): only record the datagram there.
 *
 * Every harness using this header defines  static void h_init(void)  (call sim_global_init()) and a step().
 */
#ifndef SIM_CORE_H
#define SIM_CORE_H
#include "coap3/coap_libcoap_build.h"
#include "hcommon.h"
#include <sys/epoll.h>
#include <arpa/inet.h>
#include <stdarg.h>
#include <errno.h>

/* ------------------------------------------------------------------ clock */
#define SIM_T0 1000
static coap_tick_t sim_now = SIM_T0;
void __wrap_coap_ticks(coap_tick_t *t) { *t = sim_now; }

/* ------------------------------------------------------------------ log */
static char *sim_logbuf;
static size_t sim_loglen, sim_logcap;
static int sim_log_enabled = 1;

static void sim_logf(const char *fmt, ...) {
  va_list ap;
  char tmp[512];
  int n;
  if (!sim_log_enabled) return;
  va_start(ap, fmt);
  n = vsnprintf(tmp, sizeof(tmp), fmt, ap);
  va_end(ap);
  if (n < 0) return;
  if ((size_t)n >= sizeof(tmp)) n = sizeof(tmp) - 1;
  if (sim_loglen + (size_t)n + 2 > sim_logcap) {
    sim_logcap = (sim_logcap + (size_t)n + 2) * 2;
    sim_logbuf = (char *)realloc(sim_logbuf, sim_logcap);
  }
  if (sim_loglen) sim_logbuf[sim_loglen++] = ' ';
  memcpy(sim_logbuf + sim_loglen, tmp, (size_t)n);
  sim_loglen += (size_t)n;
  sim_logbuf[sim_loglen] = 0;
}
static void sim_log_flush(FILE *f) {
  if (sim_loglen) fwrite(sim_logbuf, 1, sim_loglen, f); else fputc('-', f);
  sim_loglen = 0;
  if (sim_logbuf) sim_logbuf[0] = 0;
}

static uint32_t sim_fnv(const uint8_t *b, size_t n) {
  uint32_t h = 2166136261u;
  for (size_t i = 0; i < n; i++) { h ^= b[i]; h *= 16777619u; }
  return h;
}

/* ------------------------------------------------------------------ registries */
#define SIM_MAX_SESS 64
#define SIM_MAX_EP 8
#define SIM_MAX_CTX 8
static coap_session_t *sim_sess[SIM_MAX_SESS];
static int sim_nsess;
static coap_endpoint_t *sim_eps[SIM_MAX_EP];
static int sim_neps;
static coap_context_t *sim_ctxs[SIM_MAX_CTX];
static int sim_nctx;

/* session identity = index of first appearance (registered on creation or first use) */
static int sim_sess_id(coap_session_t *s) {
  for (int i = 0; i < sim_nsess; i++) if (sim_sess[i] == s) return i;
  if (sim_nsess < SIM_MAX_SESS) { sim_sess[sim_nsess] = s; return sim_nsess++; }
  return -1;
}

/* ------------------------------------------------------------------ PRNG */
static uint8_t sim_prng_script[4096];
static size_t sim_prng_n, sim_prng_pos;
static uint8_t sim_prng_fill = 0;     /* value used once the script is exhausted */
static unsigned long sim_prng_calls;
static int sim_prng(void *out, size_t len) {
  uint8_t *o = (uint8_t *)out;
  sim_prng_calls++;
  for (size_t i = 0; i < len; i++)
    o[i] = sim_prng_pos < sim_prng_n ? sim_prng_script[sim_prng_pos++] : sim_prng_fill;
  return 1;
}

/* ------------------------------------------------------------------ network */
typedef struct sim_dgram_t {
  coap_socket_t *sock;
  coap_session_t *session;
  int sess;                 /* registry index */
  uint8_t *data;
  size_t len;
  coap_tick_t t;            /* virtual time of the write */
  unsigned seq;             /* global transmission counter */
  /* decoded view (valid if decoded != 0) */
  int decoded, type, code, mid;
  uint8_t token[8]; size_t tkl;
  uint32_t pl_hash, raw_hash; size_t pl_len;
  coap_address_t src, dst;
} sim_dgram_t;

#define SIM_MAX_TX 4096
static sim_dgram_t sim_tx[SIM_MAX_TX];
static unsigned sim_ntx;
static void (*sim_tx_hook)(const sim_dgram_t *d);     /* fate of a captured datagram */
static void (*sim_tx_logger)(const sim_dgram_t *d);   /* replaces the default tx token */
static int sim_send_result_override;                  /* != 0: coap_socket_send returns this (e.g. -1) and nothing is captured */
/* optional: asked before every write; non-zero = this write fails: coap_socket_send() returns -1 with errno = ECONNREFUSED
 * (what a connected UDP socket does after an ICMP port-unreachable; ENOBUFS / EPERM look the same to libcoap) and nothing
 * is captured.  The hook may log the attempt. */
static int (*sim_tx_fail_hook)(coap_session_t *session, const uint8_t *data, size_t datalen);

static void sim_decode(sim_dgram_t *d) {
  const uint8_t *b = d->data;
  d->decoded = 0;
  d->raw_hash = sim_fnv(d->data, d->len);
  if (d->len < 4 || (b[0] >> 6) != 1) return;
  d->type = (b[0] >> 4) & 3;
  d->tkl = b[0] & 15;
  d->code = b[1];
  d->mid = (b[2] << 8) | b[3];
  if (d->tkl > 8 || 4 + d->tkl > d->len) return;
  memcpy(d->token, b + 4, d->tkl);
  /* payload = bytes after the 0xFF marker that follows the options */
  {
    size_t i = 4 + d->tkl;
    d->pl_len = 0; d->pl_hash = sim_fnv(NULL, 0);
    while (i < d->len) {
      unsigned dl, ll;
      if (b[i] == 0xFF) { d->pl_len = d->len - i - 1; d->pl_hash = sim_fnv(b + i + 1, d->pl_len); break; }
      dl = b[i] >> 4; ll = b[i] & 15; i++;
      if (dl == 13) i += 1; else if (dl == 14) i += 2;
      if (ll == 13) { if (i >= d->len) break; ll = b[i] + 13u; i += 1; }
      else if (ll == 14) { if (i + 1 >= d->len) break; ll = ((unsigned)b[i] << 8 | b[i + 1]) + 269u; i += 2; }
      i += ll;
    }
  }
  d->decoded = 1;
}

static const char sim_kind[] = "CNAR";

static void sim_tok(char *out, const uint8_t *t, size_t n) {
  static const char hx[] = "0123456789abcdef";
  if (!n) { strcpy(out, "-"); return; }
  for (size_t i = 0; i < n; i++) { out[2 * i] = hx[t[i] >> 4]; out[2 * i + 1] = hx[t[i] & 15]; }
  out[2 * n] = 0;
}

ssize_t __wrap_coap_socket_send(coap_socket_t *sock, coap_session_t *session, const uint8_t *data, size_t datalen) {
  sim_dgram_t *d;
  if (sim_send_result_override) return sim_send_result_override;
  if (sim_tx_fail_hook && sim_tx_fail_hook(session, data, datalen)) { errno = ECONNREFUSED; return -1; }
  if (sim_ntx >= SIM_MAX_TX) return (ssize_t)datalen;
  d = &sim_tx[sim_ntx];
  memset(d, 0, sizeof(*d));
  d->sock = sock; d->session = session; d->sess = sim_sess_id(session);
  d->data = (uint8_t *)malloc(datalen ? datalen : 1);
  memcpy(d->data, data, datalen);
  d->len = datalen; d->t = sim_now; d->seq = sim_ntx;
  coap_address_copy(&d->src, &session->addr_info.local);
  coap_address_copy(&d->dst, &session->addr_info.remote);
  sim_decode(d);
  sim_ntx++;
  if (sim_tx_logger) sim_tx_logger(d);
  else if (d->decoded) {
    char tk[20];
    sim_tok(tk, d->token, d->tkl);
    sim_logf("tx@%llu:%d:%c:%d:%d:%s:%08x:%08x", (unsigned long long)d->t, d->sess, sim_kind[d->type], d->code, d->mid,
             tk, d->pl_hash, d->raw_hash);
  } else
    sim_logf("tx@%llu:%d:raw:%zu:%08x", (unsigned long long)d->t, d->sess, d->len, d->raw_hash);
  if (sim_tx_hook) sim_tx_hook(d);
  return (ssize_t)datalen;
}

/* the datagram the next wrapped recv hands out */
static struct { const uint8_t *data; size_t len; int have; int icmp; coap_address_t src; int have_src;
                coap_address_t dst; int have_dst;   /* destination address the datagram was sent to (multicast group) */ } sim_rx;

ssize_t __wrap_coap_socket_recv(coap_socket_t *sock, coap_packet_t *packet) {
  if ((sock->flags & COAP_SOCKET_CAN_READ) == 0) return -1;
  sock->flags &= ~COAP_SOCKET_CAN_READ;
  if (sim_rx.icmp) { sim_rx.icmp = 0; errno = ECONNREFUSED; return -2; }
  if (!sim_rx.have) { errno = EAGAIN; return -1; }
  sim_rx.have = 0;
  if (sim_rx.len > COAP_RXBUFFER_SIZE) sim_rx.len = COAP_RXBUFFER_SIZE;
  memcpy(packet->payload, sim_rx.data, sim_rx.len);
  packet->length = sim_rx.len;
  packet->ifindex = 0;
  if (sim_rx.have_src) coap_address_copy(&packet->addr_info.remote, &sim_rx.src);
  /* like IP_PKTINFO in the real coap_socket_recv(): the address the datagram was addressed to */
  if (sim_rx.have_dst) { coap_address_copy(&packet->addr_info.local, &sim_rx.dst); sim_rx.have_dst = 0; }
  return (ssize_t)sim_rx.len;
}

static void sim_epoll_in(coap_context_t *ctx, coap_socket_t *sock) {
  struct epoll_event ev;
  memset(&ev, 0, sizeof(ev));
  ev.events = EPOLLIN;
  ev.data.ptr = sock;
  coap_io_do_epoll(ctx, &ev, 1);
  sim_rx.have = 0; sim_rx.icmp = 0;
}

/* deliver bytes to a (client) session's connected socket */
static void sim_inject_session(coap_session_t *s, const uint8_t *data, size_t len) {
  sim_rx.data = data; sim_rx.len = len; sim_rx.have = 1; sim_rx.have_src = 0; sim_rx.icmp = 0;
  sim_epoll_in(s->context, &s->sock);
}
/* an ICMP error on a client session's socket (coap_socket_recv returns -2) */
static void sim_inject_icmp(coap_session_t *s) {
  sim_rx.have = 0; sim_rx.icmp = 1;
  sim_epoll_in(s->context, &s->sock);
}
/* deliver bytes from address src to a listening endpoint */
static void sim_inject_endpoint(coap_endpoint_t *ep, const coap_address_t *src, const uint8_t *data, size_t len) {
  sim_rx.data = data; sim_rx.len = len; sim_rx.have = 1; sim_rx.icmp = 0;
  sim_rx.have_src = 1; coap_address_copy(&sim_rx.src, src);
  sim_epoll_in(ep->context, &ep->sock);
}

/* deliver bytes from src to a listening endpoint as a datagram that was addressed to dst (e.g. a multicast group:
 * session->addr_info.local becomes dst, which is what coap_is_mcast() looks at) */
static void sim_inject_endpoint_dst(coap_endpoint_t *ep, const coap_address_t *src, const coap_address_t *dst,
                                    const uint8_t *data, size_t len) {
  sim_rx.have_dst = 1; coap_address_copy(&sim_rx.dst, dst);
  sim_inject_endpoint(ep, src, data, len);
  sim_rx.have_dst = 0;
}

/* route a captured datagram to whoever owns its destination address in this process; 1 if delivered */
static int sim_deliver_bytes(const sim_dgram_t *d, const uint8_t *data, size_t len) {
  for (int i = 0; i < sim_neps; i++)
    if (sim_eps[i] && coap_address_equals(&sim_eps[i]->bind_addr, &d->dst)) {
      sim_inject_endpoint(sim_eps[i], &d->src, data, len);
      return 1;
    }
  for (int i = 0; i < sim_nsess; i++) {
    coap_session_t *s = sim_sess[i];
    if (s && s->type == COAP_SESSION_TYPE_CLIENT && coap_address_equals(&s->addr_info.local, &d->dst) &&
        coap_address_equals(&s->addr_info.remote, &d->src)) {
      sim_inject_session(s, data, len);
      return 1;
    }
  }
  return 0;
}
static int sim_deliver(const sim_dgram_t *d) { return sim_deliver_bytes(d, d->data, d->len); }

/* ------------------------------------------------------------------ handlers that log */
static const char *sim_nack_name(coap_nack_reason_t r) {
  switch (r) {
  case COAP_NACK_TOO_MANY_RETRIES: return "retries";
  case COAP_NACK_NOT_DELIVERABLE: return "undeliv";
  case COAP_NACK_RST: return "rst";
  case COAP_NACK_TLS_FAILED: return "tls";
  case COAP_NACK_ICMP_ISSUE: return "icmp";
  case COAP_NACK_BAD_RESPONSE: return "bad";
  default: return "other";
  }
}
static coap_response_t sim_response_verdict = COAP_RESPONSE_OK;
static coap_response_t sim_on_response(coap_session_t *session, const coap_pdu_t *sent, const coap_pdu_t *rcvd,
                                       const coap_mid_t mid) {
  char tk[20];
  coap_bin_const_t tok = coap_pdu_get_token(rcvd);
  size_t len = 0; const uint8_t *data = NULL;
  (void)sent;
  sim_tok(tk, tok.s, tok.length > 8 ? 8 : tok.length);
  coap_get_data(rcvd, &len, &data);
  sim_logf("rsp@%llu:%d:%c:%d:%d:%s:%08x", (unsigned long long)sim_now, sim_sess_id(session),
           sim_kind[coap_pdu_get_type(rcvd) & 3], (int)coap_pdu_get_code(rcvd), (int)(uint16_t)mid, tk, sim_fnv(data, len));
  return sim_response_verdict;
}
static void sim_on_nack(coap_session_t *session, const coap_pdu_t *sent, const coap_nack_reason_t reason,
                        const coap_mid_t mid) {
  (void)sent;
  sim_logf("nack@%llu:%d:%s:%d", (unsigned long long)sim_now, sim_sess_id(session), sim_nack_name(reason), (int)(uint16_t)mid);
}
static int sim_log_events = 1;
static int sim_on_event(coap_session_t *session, const coap_event_t event) {
  if (sim_log_events)
    sim_logf("ev@%llu:%d:0x%04x", (unsigned long long)sim_now, sim_sess_id(session), (unsigned)event);
  return 0;
}

/* ------------------------------------------------------------------ contexts, endpoints, sessions */
static void sim_global_init(void) {
  coap_startup();
  coap_set_log_level(getenv("H_LOG") ? (coap_log_t)atoi(getenv("H_LOG")) : COAP_LOG_EMERG);
  coap_set_prng(sim_prng);
}

static coap_context_t *sim_new_context(void) {
  coap_context_t *ctx = coap_new_context(NULL);
  if (!ctx) return NULL;
  coap_register_response_handler(ctx, sim_on_response);
  coap_register_nack_handler(ctx, sim_on_nack);
  coap_register_event_handler(ctx, sim_on_event);
  if (sim_nctx < SIM_MAX_CTX) sim_ctxs[sim_nctx++] = ctx;
  return ctx;
}

static void sim_addr(coap_address_t *a, int port) {
  coap_address_init(a);
  a->addr.sin.sin_family = AF_INET;
  a->addr.sin.sin_addr.s_addr = htonl(INADDR_LOOPBACK);
  a->addr.sin.sin_port = htons((uint16_t)port);
  a->size = sizeof(struct sockaddr_in);
}

/* UDP endpoint on 127.0.0.1:port (port 0: the kernel picks one; the bound address is in ep->bind_addr) */
static coap_endpoint_t *sim_new_endpoint(coap_context_t *ctx, int port) {
  coap_address_t a;
  coap_endpoint_t *ep;
  sim_addr(&a, port);
  ep = coap_new_endpoint(ctx, &a, COAP_PROTO_UDP);
  if (ep && sim_neps < SIM_MAX_EP) sim_eps[sim_neps++] = ep;
  return ep;
}

/* UDP client session to 127.0.0.1:peer_port (nobody needs to listen there) */
static coap_session_t *sim_new_client(coap_context_t *ctx, int peer_port) {
  coap_address_t a;
  coap_session_t *s;
  sim_addr(&a, peer_port);
  s = coap_new_client_session(ctx, NULL, &a, COAP_PROTO_UDP);
  if (s) sim_sess_id(s);
  return s;
}

/* run the timers at the current virtual time; returns (and logs) the wait in ms */
static unsigned sim_prepare(coap_context_t *ctx) {
  unsigned w = coap_io_prepare_epoll(ctx, sim_now);
  sim_logf("w@%llu=%u", (unsigned long long)sim_now, w);
  return w;
}

/* start of a fresh scenario: clock, logs, registries, network */
static void sim_reset(void) {
  for (unsigned i = 0; i < sim_ntx; i++) free(sim_tx[i].data);
  sim_ntx = 0;
  sim_now = SIM_T0;
  sim_loglen = 0; if (sim_logbuf) sim_logbuf[0] = 0;
  sim_nsess = sim_neps = sim_nctx = 0;
  sim_prng_n = sim_prng_pos = 0; sim_prng_fill = 0;
  sim_rx.have = 0; sim_rx.icmp = 0; sim_rx.have_dst = 0;
  sim_send_result_override = 0;
  sim_tx_fail_hook = NULL;
  sim_response_verdict = COAP_RESPONSE_OK;
}

/* free every context created since sim_reset (handlers keep logging while this runs unless disabled) */
static void sim_free_all(int log) {
  int keep = sim_log_enabled;
  sim_log_enabled = log;
  for (int i = 0; i < sim_nctx; i++) coap_free_context(sim_ctxs[i]);
  sim_nctx = 0; sim_nsess = 0; sim_neps = 0;
  sim_log_enabled = keep;
}

/* ------------------------------------------------------------------ PDUs */
static coap_pdu_t *sim_make_pdu(coap_session_t *s, int type, int code, int mid, const uint8_t *tok, size_t tkl,
                                const uint8_t *payload, size_t plen) {
  coap_pdu_t *p = coap_pdu_init((coap_pdu_type_t)type, (coap_pdu_code_t)code, (coap_mid_t)mid, coap_session_max_pdu_size(s));
  if (!p) return NULL;
  if (tkl && !coap_add_token(p, tkl, tok)) { coap_delete_pdu(p); return NULL; }
  if (plen && !coap_add_data(p, plen, payload)) { coap_delete_pdu(p); return NULL; }
  return p;
}

/* raw UDP CoAP message (no options): returns length written into out (>= 4+tkl+1+plen bytes) */
static size_t sim_raw_msg(uint8_t *out, int type, int code, int mid, const uint8_t *tok, size_t tkl,
                          const uint8_t *payload, size_t plen) {
  size_t n = 0;
  out[n++] = (uint8_t)(0x40 | (type << 4) | (int)tkl);
  out[n++] = (uint8_t)code;
  out[n++] = (uint8_t)(mid >> 8);
  out[n++] = (uint8_t)mid;
  memcpy(out + n, tok, tkl); n += tkl;
  if (plen) { out[n++] = 0xFF; memcpy(out + n, payload, plen); n += plen; }
  return n;
}

/* ------------------------------------------------------------------ internal counters */
static unsigned sim_con_active(const coap_session_t *s) { return s->con_active; }
static unsigned sim_delayq_len(const coap_session_t *s) {
  unsigned n = 0;
  for (coap_queue_t *q = s->delayqueue; q; q = q->next) n++;
  return n;
}
static unsigned sim_sendq_len(const coap_context_t *c) {
  unsigned n = 0;
  for (coap_queue_t *q = c->sendqueue; q; q = q->next) n++;
  return n;
}
/* i-th node of the send queue with its ABSOLUTE deadline (basetime + sum of deltas); NULL past the end */
static coap_queue_t *sim_sendq_entry(const coap_context_t *c, unsigned i, coap_tick_t *deadline) {
  coap_tick_t t = c->sendqueue_basetime;
  for (coap_queue_t *q = c->sendqueue; q; q = q->next) {
    t += q->t;
    if (i-- == 0) { if (deadline) *deadline = t; return q; }
  }
  return NULL;
}
#endif
