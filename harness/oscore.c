/* H-pure harness for the OSCORE properties (C14): drives libcoap's real OSCORE code in-process,
 * one case per input line, one canonical output line.  Context set-up follows tests/test_oscore.c:
 * a configuration string -> coap_new_oscore_conf() -> coap_context_oscore_server(), and a
 * zero-initialised coap_session_t pointing at the context.
 *
 *   osc    <C: secret salt idctx sid rid> <S: secret salt idctx sid rid> <cseq> <sseq> <newmid|-1> <req> [<resp> <piv 0|1>]*
 *   tamper <C: 5> <S: 5> <cseq> <sseq> <newmid|-1> <req> <resp|-> <piv 0|1> <q|r> <flo> <fhi> <tlo> <thi>
 *   oseq   <C: 5> <S: 5> <cseq> <sseq> <newmid|-1> { q <req> <d|l> | r <resp> <piv 0|1> <d|l|h|dd> | f <idx> }*
 *          a SEQUENCE of exchanges on one client / server endpoint pair (sessions and their associations live for the
 *          whole line): q = the client protects a request (d: delivered to the server, l: lost), r = the server protects
 *          a response for the token in <resp> (d: delivered, l: lost, h: held back, dd: delivered twice), f = the idx-th
 *          held datagram arrives now.  Output: transcript ` req= ureq= resp= uresp= uresp2= held late=` then ` | ` and the
 *          trace of the CLIENT's association store: after every q `q:<piv>,<nonce>,<aad>,<is_observe>` (or q:none) for the
 *          request's token, after every delivery to the client `d:<piv>,<is_observe>` / `d:none` for the datagram's token.
 *   oscm   <C: 5> <cseq> <sseq> <newmid|-1> <nS> { <secret> <salt> <idctx> <sid> <rid[,rid]*> }*nS <req> [<resp> <piv 0|1>]*
 *          one exchange with a SERVER THAT HOLDS nS SECURITY CONTEXTS (one coap_context_oscore_server() per context, in
 *          this order; several Recipient IDs = several recipient_id lines of the configuration).  Output: the transcript
 *          as for osc, then ` | sel=<i>.<j>` = position (context, recipient in its chain) of session->recipient_ctx
 *          after the request was delivered (none: no context selected).
 *   findctx { c <idctx|none> <rid[,rid]*> | a <rid> | d <rid> | f <kid> <kidctx|null> <r2|none> }*
 *          a context store built through the API (c: coap_context_oscore_server, a/d: coap_new_/coap_delete_oscore_recipient)
 *          and direct calls of oscore_find_context(); output ` c:<0|1>` ` a:<0|1>` ` d:<0|1>` ` f:<i>.<j>|none`, then the
 *          store ` store=<idctx|none>:<rid>,<rid>;…`.
 *   oinj   <C: 5> <S: 5> <cseq> <sseq> <newmid|-1> <req> <resp|-> <piv 0|1> <q|r> <num:hex[,num:hex]*>
 *          OUTER OPTIONS ADDED ON THE PATH: the request (q) or the response (r) is protected as for tamper, then the
 *          listed options are added to the protected datagram (each after the options with a number <= its own; the
 *          datagram is re-encoded by the harness itself, not by libcoap) and the result is delivered.  Neither the
 *          ciphertext nor the OSCORE option is touched.  Output: `dg=<the datagram delivered> u=<delivery>`.
 *   oscx   <sseq> <newmid|-1> <nS> { <secret> <salt> <idctx> <sid> <rid[,rid]*> }*nS <nC> { <i>.<j> <cseq> }*nC
 *          { q <k> <req> <d|l> | r <k> <resp> <piv 0|1> <d|l> }*
 *          SEVERAL CLIENTS, each with the security context matching the server's pair (context i, recipient j), behind ONE
 *          server session (the hop from a proxy): q = client k protects a request (delivered to the server session / lost),
 *          r = the server protects a response for the token in <resp>; the datagram is delivered to client k.  Output: the
 *          transcript ` req= ureq= resp= uresp=`, then ` |` and the trace of the SERVER session: after every delivered
 *          request ` s:<i.j>` (session->recipient_ctx) ` a:<i.j>,<partial_iv>,<is_observe>` (the association of the
 *          request's token), for every response ` p:<i>` (the context whose Sender Sequence Number advanced, `-` none)
 *          ` a:…|none` (the association of the token afterwards).
 *   oend   <E0: 5> <E1: 5> <seq0> <seq1> <newmid|-1> { q <e> <req> <d|l> | r <e> <resp> <piv 0|1> <d|l> }*
 *          TWO ENDPOINTS THAT ARE EACH CLIENT AND SERVER ON ONE SESSION (fix 48ee5dc, `is_client`): q = endpoint e protects
 *          a request of its own on its session (delivered to the session of the other endpoint / lost), r = endpoint e protects
 *          a response for the token in <resp> on the same session (delivered to the other endpoint / lost).  Output: the
 *          transcript ` req= ureq= resp= uresp=`, then ` |` and after every step the association of the step's token at the
 *          acting endpoint (` q:` / ` p:`) and, after a delivery, at the receiving endpoint (` u:` / ` d:`):
 *          `<partial_iv>,<nonce>,<aad>,<is_observe>,<is_client>` or `none`.
 *   optenc <piv> <kidctx|none> <kid|none> <b2 0|1>      optdec <hex>
 *   aad <alg> <kid> <piv>        nonce <civ> <kid> <piv>     derive <secret> <salt> <idctx> <sid> <rid>
 *   sha256 <m>   hmac <key> <m>   hkdf <salt> <ikm> <info> <len>   ccm <key> <nonce> <aad> <pt>
 *
 * Words are hex ("-" = empty byte string, "none" = absent).  coap_send_internal() and coap_send_ack_lkd()
 * (called from coap_oscore.c for the Empty ACK of a separate response and for error responses) are
 * wrapped: nothing is sent, the PDU is recorded and released.
 */
#include "coap3/coap_libcoap_build.h"
#include "oscore/oscore.h"
#include "oscore/oscore_context.h"
#include "oscore/oscore_cose.h"
#include "oscore/oscore_crypto.h"
#include "hcommon.h"

static coap_context_t *g_ctx[2];       /* 0 = client endpoint, 1 = server endpoint */
static coap_session_t *g_sess[2];
static int g_send_ok;                  /* does the wrapped coap_send_internal() succeed? */
static int g_sent_empty_ack, g_sent_err;

coap_mid_t __wrap_coap_send_internal(coap_session_t *session, coap_pdu_t *pdu) {
  coap_mid_t mid = pdu->mid;
  (void)session;
  if (pdu->code == 0 && pdu->type == COAP_MESSAGE_ACK) g_sent_empty_ack++;
  else g_sent_err = pdu->code;
  coap_delete_pdu(pdu);
  return g_send_ok ? mid : COAP_INVALID_MID;
}

coap_mid_t __wrap_coap_send_ack_lkd(coap_session_t *session, const coap_pdu_t *request) {
  (void)session; (void)request;
  return COAP_INVALID_MID;
}

static void h_init(void) {
  coap_startup();
  coap_set_log_level(getenv("H_LOG") ? atoi(getenv("H_LOG")) : COAP_LOG_EMERG);
  for (int i = 0; i < 2; i++) g_ctx[i] = coap_new_context(NULL);
}

static void dump_pdu(FILE *f, const coap_pdu_t *pdu) {
  coap_opt_iterator_t oi;
  coap_opt_t *opt;
  coap_bin_const_t tok = coap_pdu_get_token(pdu);
  size_t len = 0; const uint8_t *data = NULL;
  int first = 1;
  fprintf(f, "ok t=%d c=%d m=%d tok=", (int)coap_pdu_get_type(pdu), (int)coap_pdu_get_code(pdu), (int)(uint16_t)coap_pdu_get_mid(pdu));
  h_puthex(f, tok.s, tok.length);
  fprintf(f, " opts=");
  if (coap_option_iterator_init(pdu, &oi, COAP_OPT_ALL)) {
    while ((opt = coap_option_next(&oi))) {
      if (!first) fputc(',', f);
      first = 0;
      fprintf(f, "%u:", (unsigned)oi.number);
      h_puthex(f, coap_opt_value(opt), coap_opt_length(opt));
    }
  }
  if (first) fputc('-', f);
  fprintf(f, " pl=");
  if (coap_get_data(pdu, &len, &data)) h_puthex(f, data, len); else fputc('-', f);
}

/* ---- endpoints ------------------------------------------------------------------------- */

static void conf_add(char *buf, size_t cap, const char *key, const char *hex) {
  size_t n = strlen(buf);
  snprintf(buf + n, cap - n, "%s,hex,\"%s\"\n", key, strcmp(hex, "-") ? hex : "");
}

static void endpoint_down(int i) {
  if (g_sess[i]) {
    oscore_delete_server_associations(g_sess[i]);
    coap_free_type(COAP_SESSION, g_sess[i]);
    g_sess[i] = NULL;
  }
  oscore_free_contexts(g_ctx[i]);
}

/* p[0..4] = secret salt idctx sid rid */
static int endpoint_up(int i, char **p, uint64_t seq) {
  static char conf[8192];
  coap_str_const_t cs;
  coap_oscore_conf_t *oc;
  coap_session_t *s;
  conf[0] = 0;
  conf_add(conf, sizeof(conf), "master_secret", p[0]);
  if (strcmp(p[1], "-") && strcmp(p[1], "none")) conf_add(conf, sizeof(conf), "master_salt", p[1]);
  if (strcmp(p[2], "none")) conf_add(conf, sizeof(conf), "id_context", p[2]);
  conf_add(conf, sizeof(conf), "sender_id", p[3]);
  conf_add(conf, sizeof(conf), "recipient_id", p[4]);
  strcat(conf, "rfc8613_b_1_2,bool,false\n");   /* replay / Echo freshness is C15's business */
  cs.s = (const uint8_t *)conf; cs.length = strlen(conf);
  oc = coap_new_oscore_conf(cs, NULL, NULL, seq);
  if (!oc) return 0;
  if (!coap_context_oscore_server(g_ctx[i], oc) || !g_ctx[i]->p_osc_ctx) return 0;
  s = coap_malloc_type(COAP_SESSION, sizeof(coap_session_t));
  memset(s, 0, sizeof(*s));
  s->context = g_ctx[i];
  s->proto = COAP_PROTO_UDP;
  s->type = i == 0 ? COAP_SESSION_TYPE_CLIENT : COAP_SESSION_TYPE_SERVER;
  s->oscore_encryption = 1;
  if (i == 0) s->recipient_ctx = g_ctx[i]->p_osc_ctx->recipient_chain;
  g_sess[i] = s;
  return 1;
}

static coap_pdu_t *parse_hex(const char *hex) {
  size_t len; uint8_t *b = h_unhex(hex, &len);
  coap_pdu_t *pdu;
  if (!b) return NULL;
  pdu = coap_pdu_init(0, 0, 0, len + 16);
  if (pdu && !coap_pdu_parse(COAP_PROTO_UDP, b, len, pdu)) { coap_delete_pdu(pdu); pdu = NULL; }
  free(b);
  return pdu;
}

static coap_pdu_t *parse_bytes(const uint8_t *b, size_t len) {
  /* exact-size copy so that ASan sees an overread of the datagram */
  uint8_t *c = (uint8_t *)malloc(len ? len : 1);
  coap_pdu_t *pdu;
  memcpy(c, b, len);
  pdu = coap_pdu_init(0, 0, 0, len + 16);
  if (pdu && !coap_pdu_parse(COAP_PROTO_UDP, c, len, pdu)) { coap_delete_pdu(pdu); pdu = NULL; }
  free(c);
  return pdu;
}

/* protect `pdu` at endpoint i; returns the datagram in *out (malloc) or NULL */
static uint8_t *protect(int i, coap_pdu_t *pdu, int send_piv, long newmid, size_t *outlen) {
  coap_pdu_t *osc;
  uint8_t *out;
  g_send_ok = newmid >= 0;
  g_sess[i]->tx_mid = (uint16_t)(newmid - 1);
  osc = coap_oscore_new_pdu_encrypted(g_sess[i], pdu, NULL, send_piv ? OSCORE_SEND_PARTIAL_IV : OSCORE_SEND_NO_IV);
  if (!osc) return NULL;
  if (!coap_pdu_encode_header(osc, COAP_PROTO_UDP)) { coap_delete_pdu(osc); return NULL; }
  *outlen = osc->hdr_size + osc->used_size;
  out = (uint8_t *)malloc(*outlen ? *outlen : 1);
  memcpy(out, osc->token - osc->hdr_size, *outlen);
  coap_delete_pdu(osc);
  return out;
}

/* deliver a datagram to endpoint i: 'u' unparsable, 'p' no OSCORE option, 'r' rejected, 'a' accepted (*res) */
static int deliver(int i, const uint8_t *dg, size_t len, coap_pdu_t **res) {
  coap_opt_iterator_t oi;
  coap_pdu_t *pdu = parse_bytes(dg, len), *dec;
  *res = NULL;
  if (!pdu) return 'u';
  if (!coap_check_option(pdu, COAP_OPTION_OSCORE, &oi)) { coap_delete_pdu(pdu); return 'p'; }
  coap_lock_lock(g_ctx[i], coap_delete_pdu(pdu); return 'r');
  dec = coap_oscore_decrypt_pdu(g_sess[i], pdu);
  coap_lock_unlock(g_ctx[i]);
  coap_delete_pdu(pdu);
  if (!dec) return 'r';
  *res = dec;
  return 'a';
}

static void print_delivery(int v, coap_pdu_t *res) {
  if (v == 'a') { dump_pdu(stdout, res); coap_delete_pdu(res); }
  else if (v == 'r') printf("rej");
  else if (v == 'p') printf("plain");
  else printf("unparsable");
}

static uint32_t fnv(const char *s, size_t n) {
  uint32_t h = 2166136261u;
  for (size_t i = 0; i < n; i++) { h ^= (uint8_t)s[i]; h *= 16777619u; }
  return h;
}

static void do_osc(char **w, int n) {
  long newmid = atol(w[13]);
  coap_pdu_t *req, *res;
  uint8_t *dg; size_t dglen;
  int v;
  if (!endpoint_up(0, w + 1, strtoull(w[11], NULL, 10))) { printf("bad-context"); endpoint_down(0); return; }
  if (!endpoint_up(1, w + 6, strtoull(w[12], NULL, 10))) { printf("bad-context"); endpoint_down(0); endpoint_down(1); return; }
  req = parse_hex(w[14]);
  if (!req) { printf("bad-input"); goto out; }
  dg = protect(0, req, 0, newmid, &dglen);
  coap_delete_pdu(req);
  if (!dg) { printf("req=fail"); goto out; }
  printf("req="); h_puthex(stdout, dg, dglen);
  v = deliver(1, dg, dglen, &res);
  free(dg);
  printf(" ureq="); print_delivery(v, res);
  /* no response to a request that was not accepted (what a rejected request leaves behind is C15's business) */
  if (v != 'a') goto out;
  for (int k = 15; k + 1 < n; k += 2) {
    coap_pdu_t *rsp = parse_hex(w[k]);
    if (!rsp) { printf(" resp=bad-input"); break; }
    dg = protect(1, rsp, atoi(w[k + 1]), newmid, &dglen);
    coap_delete_pdu(rsp);
    if (!dg) { printf(" resp=fail"); continue; }
    printf(" resp="); h_puthex(stdout, dg, dglen);
    v = deliver(0, dg, dglen, &res);
    free(dg);
    printf(" uresp="); print_delivery(v, res);
  }
out:
  endpoint_down(0); endpoint_down(1);
}

/* ---- sequences of exchanges on one endpoint pair ------------------------------------------ */

static void trace_assoc(FILE *t, const char *tag, const uint8_t *dg, size_t len, int full) {
  /* the token of the (parsable) datagram dg selects the client's association */
  coap_pdu_t *pdu = parse_bytes(dg, len);
  oscore_association_t *a = NULL;
  coap_bin_const_t tok;
  fprintf(t, " %s:", tag);
  if (!pdu) { fprintf(t, "unparsable"); return; }
  tok = coap_pdu_get_token(pdu);
  coap_lock_lock(g_ctx[0], coap_delete_pdu(pdu); return);
  a = oscore_find_association(g_sess[0], &tok);
  coap_lock_unlock(g_ctx[0]);
  if (!a) fprintf(t, "none");
  else {
    if (a->partial_iv) h_puthex(t, a->partial_iv->s, a->partial_iv->length); else fputc('-', t);
    if (full) {
      fputc(',', t);
      if (a->nonce) h_puthex(t, a->nonce->s, a->nonce->length); else fputc('-', t);
      fputc(',', t);
      if (a->aad) h_puthex(t, a->aad->s, a->aad->length); else fputc('-', t);
    }
    fprintf(t, ",%d", a->is_observe ? 1 : 0);
  }
  coap_delete_pdu(pdu);
}

#define MAX_HELD 8
static void do_oseq(char **w, int n) {
  long newmid = atol(w[13]);
  uint8_t *held[MAX_HELD]; size_t heldlen[MAX_HELD]; int nheld = 0;
  char *tbuf = NULL; size_t tlen = 0;
  FILE *t;
  coap_pdu_t *res;
  uint8_t *dg; size_t dglen;
  int v, k = 14;
  if (!endpoint_up(0, w + 1, strtoull(w[11], NULL, 10))) { printf("bad-context"); endpoint_down(0); return; }
  if (!endpoint_up(1, w + 6, strtoull(w[12], NULL, 10))) { printf("bad-context"); endpoint_down(0); endpoint_down(1); return; }
  t = open_memstream(&tbuf, &tlen);
  printf("seq");
  while (k < n) {
    if (!strcmp(w[k], "q") && k + 2 < n) {
      coap_pdu_t *req = parse_hex(w[k + 1]);
      if (!req) { printf(" req=bad-input"); break; }
      dg = protect(0, req, 0, newmid, &dglen);
      if (!dg) {
        size_t rl; uint8_t *rb = h_unhex(w[k + 1], &rl);
        printf(" req=fail");
        trace_assoc(t, "q", rb, rl, 1);
        free(rb);
      } else {
        printf(" req="); h_puthex(stdout, dg, dglen);
        trace_assoc(t, "q", dg, dglen, 1);
        if (w[k + 2][0] == 'd') {
          v = deliver(1, dg, dglen, &res);
          printf(" ureq="); print_delivery(v, res);
        }
        free(dg);
      }
      coap_delete_pdu(req);
      k += 3;
    } else if (!strcmp(w[k], "r") && k + 3 < n) {
      coap_pdu_t *rsp = parse_hex(w[k + 1]);
      const char *how = w[k + 3];
      if (!rsp) { printf(" resp=bad-input"); break; }
      dg = protect(1, rsp, atoi(w[k + 2]), newmid, &dglen);
      coap_delete_pdu(rsp);
      if (!dg) printf(" resp=fail");
      else {
        printf(" resp="); h_puthex(stdout, dg, dglen);
        if (how[0] == 'd') {
          v = deliver(0, dg, dglen, &res);
          printf(" uresp="); print_delivery(v, res);
          trace_assoc(t, "d", dg, dglen, 0);
          if (how[1] == 'd') {
            v = deliver(0, dg, dglen, &res);
            printf(" uresp2="); print_delivery(v, res);
            trace_assoc(t, "d", dg, dglen, 0);
          }
          free(dg);
        } else if (how[0] == 'h' && nheld < MAX_HELD) {
          held[nheld] = dg; heldlen[nheld] = dglen; nheld++;
          printf(" held");
        } else free(dg);
      }
      k += 4;
    } else if (!strcmp(w[k], "f") && k + 1 < n) {
      int idx = atoi(w[k + 1]);
      if (idx < 0 || idx >= nheld) printf(" late=none");
      else {
        v = deliver(0, held[idx], heldlen[idx], &res);
        printf(" late="); print_delivery(v, res);
        trace_assoc(t, "d", held[idx], heldlen[idx], 0);
      }
      k += 2;
    } else { printf(" bad-step"); break; }
  }
  fclose(t);
  printf(" |%s", tbuf);
  free(tbuf);
  for (int i = 0; i < nheld; i++) free(held[i]);
  endpoint_down(0); endpoint_down(1);
}

/* the state of an endpoint's OSCORE association/replay data is changed by a delivery, so every
 * tampered delivery runs on freshly set-up endpoints that have seen the same history */
static uint8_t *tamper_setup(char **w, size_t *dglen, int *target) {
  long newmid = atol(w[13]);
  coap_pdu_t *req, *res, *rsp;
  uint8_t *dg;
  int v;
  if (!endpoint_up(0, w + 1, strtoull(w[11], NULL, 10))) return NULL;
  if (!endpoint_up(1, w + 6, strtoull(w[12], NULL, 10))) return NULL;
  req = parse_hex(w[14]);
  if (!req) return NULL;
  dg = protect(0, req, 0, newmid, dglen);
  coap_delete_pdu(req);
  if (!dg) return NULL;
  if (w[17][0] == 'q') { *target = 1; return dg; }
  v = deliver(1, dg, *dglen, &res);
  free(dg);
  if (v != 'a') return NULL;
  coap_delete_pdu(res);
  rsp = parse_hex(w[15]);
  if (!rsp) return NULL;
  dg = protect(1, rsp, atoi(w[16]), newmid, dglen);
  coap_delete_pdu(rsp);
  *target = 0;
  return dg;
}

static void tamper_one(char **w, int flip, size_t idx) {
  size_t dglen; int target, v;
  coap_pdu_t *res;
  uint8_t *dg = tamper_setup(w, &dglen, &target);
  if (!dg) { printf("?"); endpoint_down(0); endpoint_down(1); return; }
  if (flip) dg[idx / 8] ^= (uint8_t)(0x80 >> (idx % 8)); else dglen = idx;
  v = deliver(target, dg, dglen, &res);
  free(dg);
  if (v == 'a') {
    char *buf = NULL; size_t bl = 0;
    FILE *f = open_memstream(&buf, &bl);
    dump_pdu(f, res); fclose(f);
    printf("[%08x]", fnv(buf, bl));
    free(buf);
    coap_delete_pdu(res);
  } else fputc(v, stdout);
  endpoint_down(0); endpoint_down(1);
}

static void do_tamper(char **w) {
  size_t dglen; int target;
  size_t flo = strtoul(w[18], NULL, 10), fhi = strtoul(w[19], NULL, 10);
  size_t tlo = strtoul(w[20], NULL, 10), thi = strtoul(w[21], NULL, 10);
  uint8_t *dg = tamper_setup(w, &dglen, &target);
  endpoint_down(0); endpoint_down(1);
  if (!dg) { printf("setup-fail"); return; }
  free(dg);
  printf("n=%zu f=", dglen);
  for (size_t i = flo; i < fhi && i < dglen * 8; i++) tamper_one(w, 1, i);
  printf(" t=");
  for (size_t i = tlo; i < thi && i < dglen; i++) tamper_one(w, 0, i);
}

/* ---- pure helpers ---------------------------------------------------------------------- */

static int bin_arg(const char *s, coap_bin_const_t *b, uint8_t **own) {
  size_t len;
  *own = NULL;
  if (!strcmp(s, "none")) { b->s = NULL; b->length = 0; return 1; }
  *own = h_unhex(s, &len);
  if (!*own) return 0;
  b->s = *own; b->length = len;
  return 1;
}

static void do_optenc(char **w) {
  cose_encrypt0_t cose[1];
  coap_bin_const_t piv, kc, kid;
  uint8_t *o1, *o2, *o3, *buf;
  size_t n;
  if (!bin_arg(w[1], &piv, &o1) || !bin_arg(w[2], &kc, &o2) || !bin_arg(w[3], &kid, &o3)) { printf("bad-op"); return; }
  cose_encrypt0_init(cose);
  cose_encrypt0_set_partial_iv(cose, &piv);
  if (kc.s) cose_encrypt0_set_kid_context(cose, &kc);
  if (kid.s) cose_encrypt0_set_key_id(cose, &kid);
  n = 1 + piv.length + 3 + kc.length + kid.length;
  buf = (uint8_t *)malloc(n);
  n = oscore_encode_option_value(buf, n, cose, 0, atoi(w[4]));
  printf("%zu ", n); h_puthex(stdout, buf, n);
  free(buf); free(o1); free(o2); free(o3);
}

static void put_opt_bin(const char *name, const coap_bin_const_t *b) {
  printf(" %s=", name);
  if (!b->s) printf("none"); else h_puthex(stdout, b->s, b->length);
}

static void do_optdec(char **w) {
  cose_encrypt0_t cose[1];
  size_t len; uint8_t *b = h_unhex(w[1], &len);
  if (!b) { printf("bad-op"); return; }
  cose_encrypt0_init(cose);
  if (!oscore_decode_option_value(b, len, cose)) printf("rej");
  else {
    printf("ok piv="); h_puthex(stdout, cose->partial_iv.s, cose->partial_iv.length);
    put_opt_bin("kc", &cose->kid_context);
    put_opt_bin("kid", &cose->key_id);
  }
  free(b);
}

static void do_aad(char **w) {
  oscore_ctx_t oc;
  cose_encrypt0_t cose[1];
  coap_bin_const_t kid, piv;
  uint8_t *o1, *o2, eaad[200], aad[200];
  size_t n, m;
  if (!bin_arg(w[2], &kid, &o1) || !bin_arg(w[3], &piv, &o2)) { printf("bad-op"); return; }
  memset(&oc, 0, sizeof(oc));
  oc.mode = OSCORE_MODE_SINGLE;
  oc.aead_alg = atoi(w[1]);
  cose_encrypt0_init(cose);
  cose_encrypt0_set_key_id(cose, &kid);
  cose_encrypt0_set_partial_iv(cose, &piv);
  n = oscore_prepare_e_aad(&oc, cose, NULL, 0, NULL, eaad, sizeof(eaad));
  m = oscore_prepare_aad(eaad, n, aad, sizeof(aad));
  h_puthex(stdout, eaad, n); fputc(' ', stdout); h_puthex(stdout, aad, m);
  free(o1); free(o2);
}

static void do_nonce(char **w) {
  oscore_ctx_t oc;
  cose_encrypt0_t cose[1];
  coap_bin_const_t civ, kid, piv;
  uint8_t *o0, *o1, *o2, *buf;
  if (!bin_arg(w[1], &civ, &o0) || !bin_arg(w[2], &kid, &o1) || !bin_arg(w[3], &piv, &o2) || civ.length != 13) { printf("bad-op"); return; }
  memset(&oc, 0, sizeof(oc));
  oc.common_iv = &civ;
  cose_encrypt0_init(cose);
  cose_encrypt0_set_key_id(cose, &kid);
  cose_encrypt0_set_partial_iv(cose, &piv);
  buf = (uint8_t *)malloc(13);
  oscore_generate_nonce(cose, &oc, buf, 13);
  h_puthex(stdout, buf, 13);
  free(buf); free(o0); free(o1); free(o2);
}

static void do_derive(char **w) {
  oscore_ctx_t *oc;
  if (!endpoint_up(0, w + 1, 0)) { printf("bad-context"); endpoint_down(0); return; }
  oc = g_ctx[0]->p_osc_ctx;
  printf("sk="); h_puthex(stdout, oc->sender_context->sender_key->s, oc->sender_context->sender_key->length);
  printf(" rk="); h_puthex(stdout, oc->recipient_chain->recipient_key->s, oc->recipient_chain->recipient_key->length);
  printf(" iv="); h_puthex(stdout, oc->common_iv->s, oc->common_iv->length);
  endpoint_down(0);
}

static void do_crypto(char **w, int n) {
  coap_bin_const_t a[4];
  uint8_t *own[4] = {0};
  int k = !strcmp(w[0], "sha256") ? 1 : !strcmp(w[0], "hmac") ? 2 : !strcmp(w[0], "hkdf") ? 3 : 4;
  if (n != (k == 3 ? 5 : k + 1)) { printf("bad-op"); return; }
  for (int i = 0; i < k; i++) if (!bin_arg(w[i + 1], &a[i], &own[i])) { printf("bad-op"); return; }
  if (k == 1) {
    coap_bin_const_t *h = NULL;
    if (coap_crypto_hash(COSE_ALGORITHM_SHA_256_256, &a[0], &h)) { h_puthex(stdout, h->s, h->length); coap_delete_bin_const(h); }
    else printf("fail");
  } else if (k == 2) {
    coap_bin_const_t *h = NULL;
    if (coap_crypto_hmac(COSE_HMAC_ALG_HMAC256_256, &a[0], &a[1], &h)) { h_puthex(stdout, h->s, h->length); coap_delete_bin_const(h); }
    else printf("fail");
  } else if (k == 3) {
    size_t len = strtoul(w[4], NULL, 10);
    uint8_t *okm = (uint8_t *)malloc(len + 64);
    if (oscore_hkdf(COSE_HKDF_ALG_HKDF_SHA_256, a[0].length ? &a[0] : NULL, &a[1], (uint8_t *)a[2].s, a[2].length, okm, len))
      h_puthex(stdout, okm, len);
    else printf("fail");
    free(okm);
  } else {
    coap_crypto_param_t params;
    size_t outlen = a[3].length + 8;
    uint8_t *out = (uint8_t *)malloc(outlen + 16);
    memset(&params, 0, sizeof(params));
    params.alg = COSE_ALGORITHM_AES_CCM_16_64_128;
    params.params.aes.key = a[0];
    params.params.aes.nonce = a[1].s;
    params.params.aes.tag_len = 8;
    params.params.aes.l = 15 - a[1].length;
    if (a[0].length == 16 && a[1].length == 13 && coap_crypto_aead_encrypt(&params, &a[3], &a[2], out, &outlen))
      h_puthex(stdout, out, outlen);
    else printf("fail");
    free(out);
  }
  for (int i = 0; i < k; i++) free(own[i]);
}

/* ---- several security contexts at one endpoint ------------------------------------------- */

/* p[0..4] = secret salt idctx sid rid[,rid]* : one more context for endpoint i (no session) */
static int ctx_add(int i, char **p, uint64_t seq) {
  static char conf[8192];
  static char rids[512];
  coap_str_const_t cs;
  coap_oscore_conf_t *oc;
  char *r, *save = NULL;
  conf[0] = 0;
  conf_add(conf, sizeof(conf), "master_secret", p[0]);
  if (strcmp(p[1], "-") && strcmp(p[1], "none")) conf_add(conf, sizeof(conf), "master_salt", p[1]);
  if (strcmp(p[2], "none")) conf_add(conf, sizeof(conf), "id_context", p[2]);
  conf_add(conf, sizeof(conf), "sender_id", p[3]);
  snprintf(rids, sizeof(rids), "%s", p[4]);
  for (r = strtok_r(rids, ",", &save); r; r = strtok_r(NULL, ",", &save)) conf_add(conf, sizeof(conf), "recipient_id", r);
  strcat(conf, "rfc8613_b_1_2,bool,false\n");
  cs.s = (const uint8_t *)conf; cs.length = strlen(conf);
  oc = coap_new_oscore_conf(cs, NULL, NULL, seq);
  if (!oc) return 0;
  return coap_context_oscore_server(g_ctx[i], oc) ? 1 : 0;
}

static void session_up(int i) {
  coap_session_t *s = coap_malloc_type(COAP_SESSION, sizeof(coap_session_t));
  memset(s, 0, sizeof(*s));
  s->context = g_ctx[i];
  s->proto = COAP_PROTO_UDP;
  s->type = i == 0 ? COAP_SESSION_TYPE_CLIENT : COAP_SESSION_TYPE_SERVER;
  s->oscore_encryption = 1;
  g_sess[i] = s;
}

static void print_sel(const coap_context_t *ctx, const oscore_recipient_ctx_t *r) {
  int i = 0;
  for (const oscore_ctx_t *pt = ctx->p_osc_ctx; pt; pt = pt->next, i++) {
    int j = 0;
    for (const oscore_recipient_ctx_t *rp = pt->recipient_chain; rp; rp = rp->next_recipient, j++)
      if (rp == r) { printf("%d.%d", i, j); return; }
  }
  printf("none");
}

static void do_oscm(char **w, int n) {
  long newmid = atol(w[8]);
  int ns = atoi(w[9]), base = 10 + 5 * ns;
  coap_pdu_t *req, *res;
  uint8_t *dg; size_t dglen;
  int v, delivered = 0;
  if (ns < 1 || ns > 8 || base >= n || (n - base - 1) % 2) { printf("bad-op"); return; }
  if (!endpoint_up(0, w + 1, strtoull(w[6], NULL, 10))) { printf("bad-context"); endpoint_down(0); return; }
  for (int k = 0; k < ns; k++)
    if (!ctx_add(1, w + 10 + 5 * k, strtoull(w[7], NULL, 10))) { printf("bad-context"); endpoint_down(0); endpoint_down(1); return; }
  session_up(1);
  req = parse_hex(w[base]);
  if (!req) { printf("bad-input"); goto out; }
  dg = protect(0, req, 0, newmid, &dglen);
  coap_delete_pdu(req);
  if (!dg) { printf("req=fail"); goto out; }
  printf("req="); h_puthex(stdout, dg, dglen);
  v = deliver(1, dg, dglen, &res);
  delivered = 1;
  free(dg);
  printf(" ureq="); print_delivery(v, res);
  if (v != 'a') goto out;
  for (int k = base + 1; k + 1 < n; k += 2) {
    coap_pdu_t *rsp = parse_hex(w[k]);
    if (!rsp) { printf(" resp=bad-input"); break; }
    dg = protect(1, rsp, atoi(w[k + 1]), newmid, &dglen);
    coap_delete_pdu(rsp);
    if (!dg) { printf(" resp=fail"); continue; }
    printf(" resp="); h_puthex(stdout, dg, dglen);
    v = deliver(0, dg, dglen, &res);
    free(dg);
    printf(" uresp="); print_delivery(v, res);
  }
out:
  printf(" | sel=");
  if (delivered) print_sel(g_ctx[1], g_sess[1]->recipient_ctx); else printf("none");
  endpoint_down(0); endpoint_down(1);
}

static void do_findctx(char **w, int n) {
  coap_context_t *ctx = g_ctx[1];
  int k = 1;
  printf("fc");
  while (k < n) {
    if (!strcmp(w[k], "c") && k + 2 < n) {
      char secret[] = "0102030405060708090a0b0c0d0e0f10", none[] = "none", sid[] = "ff";
      char *p[5] = { secret, none, w[k + 1], sid, w[k + 2] };
      printf(" c:%d", ctx_add(1, p, 0));
      k += 3;
    } else if (!strcmp(w[k], "a") && k + 1 < n) {
      size_t len; uint8_t *b = h_unhex(w[k + 1], &len);
      coap_bin_const_t *rid;
      int had = ctx->p_osc_ctx != NULL, r;
      if (!b) { printf(" bad-step"); break; }
      rid = coap_new_bin_const(b, len);
      free(b);
      r = coap_new_oscore_recipient(ctx, rid);
      /* a refused id is released by the callee only when it is a duplicate */
      if (!r && (!had || len > 7)) coap_delete_bin_const(rid);
      printf(" a:%d", r);
      k += 2;
    } else if (!strcmp(w[k], "d") && k + 1 < n) {
      size_t len; uint8_t *b = h_unhex(w[k + 1], &len);
      coap_bin_const_t rid;
      if (!b) { printf(" bad-step"); break; }
      rid.s = b; rid.length = len;
      printf(" d:%d", coap_delete_oscore_recipient(ctx, &rid));
      free(b);
      k += 2;
    } else if (!strcmp(w[k], "f") && k + 3 < n) {
      coap_bin_const_t kid, kc, r2;
      uint8_t *o1 = NULL, *o2 = NULL, *o3 = NULL;
      oscore_recipient_ctx_t *rcp = NULL;
      int nullkc = !strcmp(w[k + 2], "null");
      if (!bin_arg(w[k + 1], &kid, &o1) || !kid.s || (!nullkc && (!bin_arg(w[k + 2], &kc, &o2) || !kc.s)) ||
          !bin_arg(w[k + 3], &r2, &o3) || (r2.s && r2.length != 8)) {
        printf(" bad-step"); free(o1); free(o2); free(o3); break;
      }
      oscore_find_context(ctx, kid, nullkc ? NULL : &kc, r2.s ? o3 : NULL, &rcp);
      printf(" f:"); print_sel(ctx, rcp);
      free(o1); free(o2); free(o3);
      k += 4;
    } else { printf(" bad-step"); break; }
  }
  printf(" store=");
  if (!ctx->p_osc_ctx) printf("-");
  for (const oscore_ctx_t *pt = ctx->p_osc_ctx; pt; pt = pt->next) {
    if (pt->id_context) h_puthex(stdout, pt->id_context->s, pt->id_context->length); else printf("none");
    printf(":");
    for (const oscore_recipient_ctx_t *rp = pt->recipient_chain; rp; rp = rp->next_recipient) {
      h_puthex(stdout, rp->recipient_id->s, rp->recipient_id->length);
      if (rp->next_recipient) printf(",");
    }
    if (pt->next) printf(";");
  }
  oscore_free_contexts(ctx);
}


/* ---- outer options added on the path (oinj) ------------------------------------------------ */

struct h_opt { unsigned num; const uint8_t *v; size_t len; };

static size_t put_ext(uint8_t *o, unsigned v, unsigned *nib) {
  if (v < 13) { *nib = v; return 0; }
  if (v < 269) { *nib = 13; o[0] = (uint8_t)(v - 13); return 1; }
  *nib = 14; o[0] = (uint8_t)((v - 269) >> 8); o[1] = (uint8_t)((v - 269) & 0xff); return 2;
}

/* the datagram dg with the options of `spec` (num:hex,…) added; NULL if dg is not a well-formed UDP CoAP datagram */
static uint8_t *inject_opts(const uint8_t *dg, size_t len, const char *spec, size_t *outlen) {
  static struct h_opt o[96];
  static uint8_t vals[2048];
  int no = 0;
  size_t p, vused = 0, q;
  unsigned num = 0, prev = 0;
  uint8_t *out;
  char *copy, *item, *save = NULL;
  if (len < 4 || (dg[0] & 15) > 8 || 4 + (size_t)(dg[0] & 15) > len) return NULL;
  p = 4 + (dg[0] & 15);
  while (p < len && dg[p] != 0xFF) {
    unsigned d = dg[p] >> 4, l = dg[p] & 15;
    p++;
    if (d == 15 || l == 15) return NULL;
    if (d == 13) { if (p >= len) return NULL; d = dg[p] + 13; p += 1; }
    else if (d == 14) { if (p + 1 >= len) return NULL; d = dg[p] * 256 + dg[p + 1] + 269; p += 2; }
    if (l == 13) { if (p >= len) return NULL; l = dg[p] + 13; p += 1; }
    else if (l == 14) { if (p + 1 >= len) return NULL; l = dg[p] * 256 + dg[p + 1] + 269; p += 2; }
    if (p + l > len || no >= 80) return NULL;
    num += d;
    o[no].num = num; o[no].v = dg + p; o[no].len = l; no++;
    p += l;
  }
  copy = strdup(spec);
  for (item = strtok_r(copy, ",", &save); item; item = strtok_r(NULL, ",", &save)) {
    char *colon = strchr(item, ':');
    size_t vl = 0; uint8_t *vb;
    unsigned n;
    int at;
    if (!colon || no >= 95) { free(copy); return NULL; }
    *colon = 0;
    n = (unsigned)strtoul(item, NULL, 10);
    vb = h_unhex(colon[1] ? colon + 1 : "-", &vl);
    if (!vb || vused + vl > sizeof(vals)) { free(vb); free(copy); return NULL; }
    memcpy(vals + vused, vb, vl);
    free(vb);
    for (at = 0; at < no && o[at].num <= n; at++) ;
    memmove(&o[at + 1], &o[at], (size_t)(no - at) * sizeof(o[0]));
    o[at].num = n; o[at].v = vals + vused; o[at].len = vl; no++;
    vused += vl;
  }
  free(copy);
  out = (uint8_t *)malloc(len + vused + 5 * 96 + 16);
  q = 4 + (dg[0] & 15);
  memcpy(out, dg, q);
  for (int k = 0; k < no; k++) {
    unsigned dn, ln;
    uint8_t *h = out + q++;
    q += put_ext(out + q, o[k].num - prev, &dn);
    q += put_ext(out + q, (unsigned)o[k].len, &ln);
    *h = (uint8_t)(dn << 4 | ln);
    memcpy(out + q, o[k].v, o[k].len);
    q += o[k].len;
    prev = o[k].num;
  }
  memcpy(out + q, dg + p, len - p);
  *outlen = q + (len - p);
  return out;
}

static void do_oinj(char **w) {
  size_t dglen, inlen; int target, v;
  coap_pdu_t *res;
  uint8_t *dg = tamper_setup(w, &dglen, &target), *in;
  if (!dg) { printf("setup-fail"); endpoint_down(0); endpoint_down(1); return; }
  in = inject_opts(dg, dglen, w[18], &inlen);
  free(dg);
  if (!in) { printf("bad-input"); endpoint_down(0); endpoint_down(1); return; }
  printf("dg="); h_puthex(stdout, in, inlen);
  v = deliver(target, in, inlen, &res);
  free(in);
  printf(" u="); print_delivery(v, res);
  endpoint_down(0); endpoint_down(1);
}

/* ---- OSCORE option of 256+ bytes (olen) and dispatch of plain requests on an OSCORE session (odisp) ------------ */

/* the datagram dg with `extra` bytes `fill` appended to the VALUE of its (first) OSCORE option; NULL if there is none */
static uint8_t *extend_oscore_opt(const uint8_t *dg, size_t len, size_t extra, uint8_t fill, size_t *outlen) {
  size_t p, q, vs = 0, vl = 0, hs = 0, rest;
  unsigned num = 0, prevnum = 0, dn, ln;
  int found = 0;
  uint8_t *out;
  if (len < 4 || (dg[0] & 15) > 8 || 4 + (size_t)(dg[0] & 15) > len) return NULL;
  p = 4 + (dg[0] & 15);
  while (p < len && dg[p] != 0xFF) {
    size_t h0 = p;
    unsigned d = dg[p] >> 4, l = dg[p] & 15;
    p++;
    if (d == 15 || l == 15) return NULL;
    if (d == 13) { if (p >= len) return NULL; d = dg[p] + 13; p += 1; }
    else if (d == 14) { if (p + 1 >= len) return NULL; d = dg[p] * 256 + dg[p + 1] + 269; p += 2; }
    if (l == 13) { if (p >= len) return NULL; l = dg[p] + 13; p += 1; }
    else if (l == 14) { if (p + 1 >= len) return NULL; l = dg[p] * 256 + dg[p + 1] + 269; p += 2; }
    if (p + l > len) return NULL;
    if (num + d == COAP_OPTION_OSCORE) { found = 1; hs = h0; vs = p; vl = l; prevnum = num; break; }
    num += d;
    p += l;
  }
  if (!found) return NULL;
  out = (uint8_t *)malloc(len + extra + 16);
  memcpy(out, dg, hs);
  q = hs;
  {
    uint8_t *h = out + q++;
    q += put_ext(out + q, COAP_OPTION_OSCORE - prevnum, &dn);
    q += put_ext(out + q, (unsigned)(vl + extra), &ln);
    *h = (uint8_t)(dn << 4 | ln);
  }
  memcpy(out + q, dg + vs, vl); q += vl;
  memset(out + q, fill, extra); q += extra;
  rest = len - (vs + vl);
  memcpy(out + q, dg + vs + vl, rest);
  *outlen = q + rest;
  return out;
}

/* olen <C: 5> <S: 5> <cseq> <sseq> <newmid|-1> <req> <resp|-> <piv 0|1> <q|r> <extra> <fill> */
static void do_olen(char **w) {
  size_t dglen, inlen; int target, v;
  coap_pdu_t *res;
  uint8_t *dg = tamper_setup(w, &dglen, &target), *in;
  if (!dg) { printf("setup-fail"); endpoint_down(0); endpoint_down(1); return; }
  in = extend_oscore_opt(dg, dglen, strtoul(w[18], NULL, 10), (uint8_t)strtoul(w[19], NULL, 16), &inlen);
  free(dg);
  if (!in) { printf("bad-input"); endpoint_down(0); endpoint_down(1); return; }
  printf("dg="); h_puthex(stdout, in, inlen);
  v = deliver(target, in, inlen, &res);
  free(in);
  printf(" u="); print_delivery(v, res);
  endpoint_down(0); endpoint_down(1);
}

static int g_handler_runs;
static uint8_t g_wire[2048]; static size_t g_wire_len; static int g_wire_n;
static ssize_t cap_write(coap_session_t *s, const uint8_t *data, size_t len) {
  (void)s;
  if (g_wire_n++ == 0) { g_wire_len = len < sizeof(g_wire) ? len : sizeof(g_wire); memcpy(g_wire, data, g_wire_len); }
  return (ssize_t)len;
}
static void hnd_count(coap_resource_t *r, coap_session_t *s, const coap_pdu_t *req, const coap_string_t *q, coap_pdu_t *rsp) {
  (void)r; (void)s; (void)req; (void)q;
  g_handler_runs++;
  coap_pdu_set_code(rsp, COAP_RESPONSE_CODE_CHANGED);
}

/* odisp <C: 5> <S: 5> <cseq> <sseq> { o <req> | p <req> }*
 * The SERVER session starts as libcoap creates it (oscore_encryption = 0).  Resource "o" is COAP_RESOURCE_FLAGS_OSCORE_ONLY,
 * resource "p" is not; one handler for every method counts its runs and answers 2.04.  o = the client protects <req>, the
 * datagram goes through coap_dispatch() on the server session; p = <req> itself (unprotected) goes through coap_dispatch() on the
 * SAME session.  The real coap_send_internal() runs (a call inside coap_net.c is not wrapped); what it writes is captured at the
 * session layer (lfunc[COAP_LAYER_SESSION].l_write).  Output per step: ` <o|p>:h<handler runs>,<response>` with <response> =
 * `-` (nothing written) or `<code of the datagram><E|C>` (E: it carries an OSCORE option, C: in clear). */
static void do_odisp(char **w, int n) {
  static int have_res;
  if (!have_res) {
    static const char *names[2] = { "o", "p" };
    for (int k = 0; k < 2; k++) {
      coap_resource_t *r = coap_resource_init(coap_make_str_const(names[k]), k == 0 ? COAP_RESOURCE_FLAGS_OSCORE_ONLY : 0);
      for (int mth = COAP_REQUEST_GET; mth <= COAP_REQUEST_IPATCH; mth++) coap_register_request_handler(r, (coap_request_t)mth, hnd_count);
      coap_add_resource(g_ctx[1], r);
    }
    have_res = 1;
  }
  if (!endpoint_up(0, w + 1, strtoull(w[11], NULL, 10))) { printf("bad-context"); endpoint_down(0); return; }
  if (!endpoint_up(1, w + 6, strtoull(w[12], NULL, 10))) { printf("bad-context"); endpoint_down(0); endpoint_down(1); return; }
  g_sess[1]->oscore_encryption = 0;
  g_sess[1]->mtu = 1152;
  g_sess[1]->ref = 1;
  g_sess[1]->state = COAP_SESSION_STATE_ESTABLISHED;
  g_sess[1]->sock.lfunc[COAP_LAYER_SESSION].l_write = cap_write;
  printf("disp");
  for (int k = 13; k + 1 < n; k += 2) {
    coap_pdu_t *req = parse_hex(w[k + 1]), *pdu;
    uint8_t *dg = NULL; size_t dglen = 0;
    if (!req) { printf(" bad-input"); break; }
    if (w[k][0] == 'o') {
      dg = protect(0, req, 0, -1, &dglen);
      coap_delete_pdu(req);
      if (!dg) { printf(" o:fail"); continue; }
      pdu = parse_bytes(dg, dglen);
      free(dg);
      if (!pdu) { printf(" o:unparsable"); continue; }
    } else pdu = req;
    g_handler_runs = 0; g_wire_n = 0; g_wire_len = 0;
    coap_lock_lock(g_ctx[1], coap_delete_pdu(pdu); break);
    coap_dispatch(g_ctx[1], g_sess[1], pdu);
    coap_lock_unlock(g_ctx[1]);
    coap_delete_pdu(pdu);
    printf(" %c:h%d,", w[k][0], g_handler_runs);
    if (!g_wire_n) printf("-");
    else {
      coap_opt_iterator_t oi;
      coap_pdu_t *rp = parse_bytes(g_wire, g_wire_len);
      if (!rp) printf("unparsable");
      else { printf("%d%c", (int)rp->code, coap_check_option(rp, COAP_OPTION_OSCORE, &oi) ? 'E' : 'C'); coap_delete_pdu(rp); }
    }
  }
  endpoint_down(0); endpoint_down(1);
}

/* ---- several clients (contexts) behind one server session (oscx) ----------------------------- */

#define MAX_XC 4
static coap_context_t *g_xctx[MAX_XC];
static coap_session_t *g_xsess[MAX_XC];

static void fprint_sel(FILE *f, const coap_context_t *ctx, const oscore_recipient_ctx_t *r) {
  int i = 0;
  for (const oscore_ctx_t *pt = ctx->p_osc_ctx; pt; pt = pt->next, i++) {
    int j = 0;
    for (const oscore_recipient_ctx_t *rp = pt->recipient_chain; rp; rp = rp->next_recipient, j++)
      if (rp == r) { fprintf(f, "%d.%d", i, j); return; }
  }
  fprintf(f, "none");
}

static void trace_srv_assoc(FILE *t, const coap_bin_const_t *tok) {
  oscore_association_t *a;
  coap_lock_lock(g_ctx[1], return);
  a = oscore_find_association(g_sess[1], tok);
  coap_lock_unlock(g_ctx[1]);
  fprintf(t, " a:");
  if (!a) { fprintf(t, "none"); return; }
  fprint_sel(t, g_ctx[1], a->recipient_ctx);
  fputc(',', t);
  if (a->partial_iv) h_puthex(t, a->partial_iv->s, a->partial_iv->length); else fputc('-', t);
  fprintf(t, ",%d", a->is_observe ? 1 : 0);
}

static void do_oscx(char **w, int n) {
  long newmid = atol(w[2]);
  int ns = atoi(w[3]), nc, base, k, delivered;
  coap_context_t *main0 = g_ctx[0];
  char *tbuf = NULL; size_t tlen = 0;
  FILE *t;
  if (ns < 1 || ns > 8 || 4 + 5 * ns >= n) { printf("bad-op"); return; }
  nc = atoi(w[4 + 5 * ns]);
  base = 5 + 5 * ns + 2 * nc;
  if (nc < 1 || nc > MAX_XC || base > n) { printf("bad-op"); return; }
  for (k = 0; k < ns; k++)
    if (!ctx_add(1, w + 4 + 5 * k, strtoull(w[1], NULL, 10))) { printf("bad-context"); endpoint_down(1); return; }
  session_up(1);
  for (k = 0; k < nc; k++) {
    /* client k is the peer of the server's pair (i, j): same secret / salt / ID Context, Sender ID = that Recipient ID */
    static char rid[64];
    char *p[5], *e, *save = NULL, *r;
    static char rids[512];
    int i = atoi(w[5 + 5 * ns + 2 * k]), j, ok;
    e = strchr(w[5 + 5 * ns + 2 * k], '.');
    j = e ? atoi(e + 1) : -1;
    if (i < 0 || i >= ns || j < 0) { printf("bad-op"); goto down; }
    snprintf(rids, sizeof(rids), "%s", w[4 + 5 * i + 4]);
    for (r = strtok_r(rids, ",", &save); r && j > 0; r = strtok_r(NULL, ",", &save), j--) ;
    if (!r) { printf("bad-op"); goto down; }
    snprintf(rid, sizeof(rid), "%s", r);
    p[0] = w[4 + 5 * i]; p[1] = w[4 + 5 * i + 1]; p[2] = w[4 + 5 * i + 2]; p[3] = rid; p[4] = w[4 + 5 * i + 3];
    if (!g_xctx[k]) g_xctx[k] = coap_new_context(NULL);
    g_ctx[0] = g_xctx[k]; g_sess[0] = NULL;
    ok = endpoint_up(0, p, strtoull(w[5 + 5 * ns + 2 * k + 1], NULL, 10));
    g_xsess[k] = g_sess[0];
    if (!ok) { printf("bad-context"); goto down; }
  }
  t = open_memstream(&tbuf, &tlen);
  printf("seq");
  k = base;
  while (k < n) {
    int c = k + 1 < n ? atoi(w[k + 1]) : -1;
    uint8_t *dg; size_t dglen;
    coap_pdu_t *res;
    int v;
    if (c < 0 || c >= nc) { printf(" bad-step"); break; }
    g_ctx[0] = g_xctx[c]; g_sess[0] = g_xsess[c];
    if (!strcmp(w[k], "q") && k + 3 < n) {
      coap_pdu_t *req = parse_hex(w[k + 2]);
      if (!req) { printf(" req=bad-input"); break; }
      dg = protect(0, req, 0, newmid, &dglen);
      if (!dg) printf(" req=fail");
      else {
        printf(" req="); h_puthex(stdout, dg, dglen);
        if (w[k + 3][0] == 'd') {
          coap_bin_const_t tok = coap_pdu_get_token(req);
          v = deliver(1, dg, dglen, &res);
          printf(" ureq="); print_delivery(v, res);
          fprintf(t, " s:");
          fprint_sel(t, g_ctx[1], g_sess[1]->recipient_ctx);
          trace_srv_assoc(t, &tok);
        }
        free(dg);
      }
      coap_delete_pdu(req);
      k += 4;
    } else if (!strcmp(w[k], "r") && k + 4 < n) {
      coap_pdu_t *rsp = parse_hex(w[k + 2]);
      uint64_t before[8];
      coap_bin_const_t tok;
      uint8_t tokb[8];
      int i = 0, used = -1;
      if (!rsp) { printf(" resp=bad-input"); break; }
      tok = coap_pdu_get_token(rsp);
      memcpy(tokb, tok.s, tok.length > 8 ? 8 : tok.length);
      tok.s = tokb;
      for (const oscore_ctx_t *pt = g_ctx[1]->p_osc_ctx; pt && i < 8; pt = pt->next, i++) before[i] = pt->sender_context->seq;
      dg = protect(1, rsp, atoi(w[k + 3]), newmid, &dglen);
      coap_delete_pdu(rsp);
      i = 0;
      for (const oscore_ctx_t *pt = g_ctx[1]->p_osc_ctx; pt && i < 8; pt = pt->next, i++)
        if (before[i] != pt->sender_context->seq) used = i;
      if (used >= 0) fprintf(t, " p:%d", used); else fprintf(t, " p:-");
      trace_srv_assoc(t, &tok);
      if (!dg) printf(" resp=fail");
      else {
        printf(" resp="); h_puthex(stdout, dg, dglen);
        if (w[k + 4][0] == 'd') {
          v = deliver(0, dg, dglen, &res);
          printf(" uresp="); print_delivery(v, res);
        }
        free(dg);
      }
      k += 5;
    } else { printf(" bad-step"); break; }
  }
  fclose(t);
  printf(" |%s", tbuf);
  free(tbuf);
down:
  for (k = 0; k < MAX_XC; k++) {
    if (!g_xctx[k]) continue;
    g_ctx[0] = g_xctx[k]; g_sess[0] = g_xsess[k];
    endpoint_down(0);
    g_xsess[k] = NULL;
  }
  g_ctx[0] = main0; g_sess[0] = NULL;
  endpoint_down(1);
}

/* ---- both directions on one session: each endpoint is client AND server (is_client, fix 48ee5dc) ---------- */

static void trace_assoc_e(FILE *t, const char *tag, int e, const uint8_t *dg, size_t len) {
  coap_pdu_t *pdu = parse_bytes(dg, len);
  oscore_association_t *a = NULL;
  coap_bin_const_t tok;
  fprintf(t, " %s:", tag);
  if (!pdu) { fprintf(t, "unparsable"); return; }
  tok = coap_pdu_get_token(pdu);
  coap_lock_lock(g_ctx[e], coap_delete_pdu(pdu); return);
  a = oscore_find_association(g_sess[e], &tok);
  coap_lock_unlock(g_ctx[e]);
  if (!a) fprintf(t, "none");
  else {
    if (a->partial_iv) h_puthex(t, a->partial_iv->s, a->partial_iv->length); else fputc('-', t);
    fputc(',', t);
    if (a->nonce) h_puthex(t, a->nonce->s, a->nonce->length); else fputc('-', t);
    fputc(',', t);
    if (a->aad) h_puthex(t, a->aad->s, a->aad->length); else fputc('-', t);
    fprintf(t, ",%d,%d", a->is_observe ? 1 : 0, a->is_client ? 1 : 0);
  }
  coap_delete_pdu(pdu);
}

static void do_oend(char **w, int n) {
  long newmid = atol(w[13]);
  char *tbuf = NULL; size_t tlen = 0;
  FILE *t;
  coap_pdu_t *res;
  uint8_t *dg; size_t dglen;
  int v, k = 14;
  if (!endpoint_up(0, w + 1, strtoull(w[11], NULL, 10))) { printf("bad-context"); endpoint_down(0); return; }
  if (!endpoint_up(1, w + 6, strtoull(w[12], NULL, 10))) { printf("bad-context"); endpoint_down(0); endpoint_down(1); return; }
  /* both sessions can send requests from the start */
  g_sess[1]->recipient_ctx = g_ctx[1]->p_osc_ctx->recipient_chain;
  t = open_memstream(&tbuf, &tlen);
  printf("end");
  while (k < n) {
    if (!strcmp(w[k], "q") && k + 3 < n) {
      int e = atoi(w[k + 1]) ? 1 : 0;
      coap_pdu_t *req = parse_hex(w[k + 2]);
      size_t rl; uint8_t *rb;
      if (!req) { printf(" req=bad-input"); break; }
      dg = protect(e, req, 0, newmid, &dglen);
      coap_delete_pdu(req);
      rb = h_unhex(w[k + 2], &rl);
      if (!dg) {
        printf(" req=fail");
        trace_assoc_e(t, "q", e, rb, rl);
      } else {
        printf(" req="); h_puthex(stdout, dg, dglen);
        trace_assoc_e(t, "q", e, rb, rl);
        if (w[k + 3][0] == 'd') {
          v = deliver(1 - e, dg, dglen, &res);
          printf(" ureq="); print_delivery(v, res);
          trace_assoc_e(t, "u", 1 - e, rb, rl);
        }
        free(dg);
      }
      free(rb);
      k += 4;
    } else if (!strcmp(w[k], "r") && k + 4 < n) {
      int e = atoi(w[k + 1]) ? 1 : 0;
      coap_pdu_t *rsp = parse_hex(w[k + 2]);
      size_t rl; uint8_t *rb;
      if (!rsp) { printf(" resp=bad-input"); break; }
      dg = protect(e, rsp, atoi(w[k + 3]), newmid, &dglen);
      coap_delete_pdu(rsp);
      rb = h_unhex(w[k + 2], &rl);
      if (!dg) {
        printf(" resp=fail");
        trace_assoc_e(t, "p", e, rb, rl);
      } else {
        printf(" resp="); h_puthex(stdout, dg, dglen);
        trace_assoc_e(t, "p", e, rb, rl);
        if (w[k + 4][0] == 'd') {
          v = deliver(1 - e, dg, dglen, &res);
          printf(" uresp="); print_delivery(v, res);
          trace_assoc_e(t, "d", 1 - e, rb, rl);
        }
        free(dg);
      }
      free(rb);
      k += 5;
    } else { printf(" bad-step"); break; }
  }
  fclose(t);
  printf(" |%s", tbuf);
  free(tbuf);
  endpoint_down(0); endpoint_down(1);
}

static void step(char *line) {
  static char *w[160];
  int n = h_words(line, w, 160);
  if (n < 1) { printf("bad-op"); return; }
  if (!strcmp(w[0], "osc") && n >= 15 && (n - 15) % 2 == 0) { do_osc(w, n); return; }
  if (!strcmp(w[0], "tamper") && n == 22) { do_tamper(w); return; }
  if (!strcmp(w[0], "oseq") && n >= 14) { do_oseq(w, n); return; }
  if (!strcmp(w[0], "oscm") && n >= 16) { do_oscm(w, n); return; }
  if (!strcmp(w[0], "findctx")) { do_findctx(w, n); return; }
  if (!strcmp(w[0], "oinj") && n == 19) { do_oinj(w); return; }
  if (!strcmp(w[0], "olen") && n == 20) { do_olen(w); return; }
  if (!strcmp(w[0], "odisp") && n >= 13 && (n - 13) % 2 == 0) { do_odisp(w, n); return; }
  if (!strcmp(w[0], "oscx") && n >= 8) { do_oscx(w, n); return; }
  if (!strcmp(w[0], "oend") && n >= 14) { do_oend(w, n); return; }
  if (!strcmp(w[0], "optenc") && n == 5) { do_optenc(w); return; }
  if (!strcmp(w[0], "optdec") && n == 2) { do_optdec(w); return; }
  if (!strcmp(w[0], "aad") && n == 4) { do_aad(w); return; }
  if (!strcmp(w[0], "nonce") && n == 4) { do_nonce(w); return; }
  if (!strcmp(w[0], "derive") && n == 6) { do_derive(w); return; }
  if (!strcmp(w[0], "sha256") || !strcmp(w[0], "hmac") || !strcmp(w[0], "hkdf") || !strcmp(w[0], "ccm")) { do_crypto(w, n); return; }
  printf("bad-op");
}

H_MAIN_LOOP(step)
