/* msg.c — H-sim harness for the message-layer properties C06 / C08 (see lean/CoapVerif/Driver/Msg.lean for the
 * line format; both sides implement the same scenario semantics and print the same canonical trace).
 *
 *   msg <sess,…> <fates|-> <ev> …      one client context, UDP (or DTLS, see below) client sessions, a scripted peer
 *                                      (events S: / i: / k: / p: = explicit token / ICMP error / keepalive / piggy-backed
 *                                      response, fates p / P, DTLS sessions: the model side is
 *                                      lean/CoapVerif/Model/MsgLayerX.lean;  event q:S:MID:CODE and fates q / Q = an ACK
 *                                      whose code is a REQUEST method 0.01 .. 0.31 - Coap.Msg.rxAckReq)
 *
 * DTLS sessions (7th field of a session word = 2): the session has `proto == COAP_PROTO_DTLS`, libcoap's DTLS layer
 * table (coap_layers_coap[COAP_PROTO_DTLS]: l_write = coap_dtls_send, l_close = coap_dtls_close) and a non-NULL
 * `session->tls`, so every line of libcoap's own code runs as on an established DTLS session; the RECORD LAYER is the
 * identity: the two entry points into the TLS library are replaced at link time (--wrap) - coap_dtls_send() hands the
 * PDU to lfunc[COAP_LAYER_TLS].l_write as GnuTLS' push callback does with the record, coap_dtls_receive() hands the
 * datagram to coap_handle_dgram() as it does with the decrypted record - and coap_dtls_free_session() /
 * coap_dtls_get_timeout() know the dummy object.  (Sessions with the real GnuTLS: harness/dtls.c.)
 *   sq  <op> …                         raw coap_insert_node / coap_pop_next / coap_remove_from_queue /
 *                                      coap_adjust_basetime / coap_cancel_* on real coap_queue_t nodes
 *   tmo atI atF arfI arfF r            coap_calc_timeout
 */
#include "sim_core.h"

#define MAXS 8
static coap_context_t *ctx;
static coap_session_t *S[MAXS];
static int nS;

typedef struct { int kind; /* 0 drop 1 ack 2 rst 3 the socket write fails 4 piggy-backed response 5 ACK with a request code */ int nd; unsigned long d[4]; } fate_t;
static fate_t fates[256];
static int nfates, fate_pos;

typedef struct { coap_tick_t time; unsigned seq; int s; int is_rst; int mid; int piggy; int tok; int req; /* != 0: ACK with this request code */ } arrival_t;
static arrival_t pend[1024];
static int npend;
static unsigned arr_seq;
static unsigned last_wait;

/* first raw hash seen per (session, mid) */
static struct { int s, mid, type; uint32_t h; } firsts[1024];
static int nfirsts;

/* '=' if these are the bytes first handed to the socket for (session, mid, type), '!' otherwise */
static char same_bytes(const sim_dgram_t *d) {
  int i;
  for (i = 0; i < nfirsts; i++)
    if (firsts[i].s == d->sess && firsts[i].mid == d->mid && firsts[i].type == d->type) break;
  if (i == nfirsts) {
    if (nfirsts < 1024) { firsts[nfirsts].s = d->sess; firsts[nfirsts].mid = d->mid; firsts[nfirsts].type = d->type; firsts[nfirsts].h = d->raw_hash; nfirsts++; }
  } else if (firsts[i].h != d->raw_hash) return '!';
  return '=';
}
static void log_tx(const sim_dgram_t *d) {
  if (!d->decoded) { sim_logf("tx@%llu:%d:raw", (unsigned long long)d->t, d->sess); return; }
  sim_logf("tx@%llu:%d:%c:%d:%c", (unsigned long long)d->t, d->sess, sim_kind[d->type], d->mid, same_bytes(d));
}

/* fate `x`: the socket write of this datagram fails (coap_socket_send() returns -1, as with ECONNREFUSED / ENOBUFS):
 * nothing leaves, the attempt is logged as txf@T:S:K:MID:= (same fields as tx@) */
static int on_tx_fail(coap_session_t *session, const uint8_t *data, size_t datalen) {
  sim_dgram_t d;
  if (fate_pos >= nfates || fates[fate_pos].kind != 3) return 0;
  fate_pos++;
  memset(&d, 0, sizeof(d));
  d.sess = sim_sess_id(session); d.data = (uint8_t *)data; d.len = datalen; d.t = sim_now;
  sim_decode(&d);
  if (!d.decoded) sim_logf("txf@%llu:%d:raw", (unsigned long long)d.t, d.sess);
  else sim_logf("txf@%llu:%d:%c:%d:%c", (unsigned long long)d.t, d.sess, sim_kind[d.type], d.mid, same_bytes(&d));
  return 1;
}

static void add_arrival(coap_tick_t t, int s, int is_rst, int mid, int piggy, int tok, int req) {
  int i = npend;
  if (npend >= 1024) return;
  while (i > 0 && pend[i - 1].time > t) { pend[i] = pend[i - 1]; i--; }
  pend[i].time = t; pend[i].seq = arr_seq++; pend[i].s = s; pend[i].is_rst = is_rst; pend[i].mid = mid;
  pend[i].piggy = piggy; pend[i].tok = tok; pend[i].req = req;
  npend++;
}

/* the scripted peer */
static void on_tx(const sim_dgram_t *d) {
  fate_t f;
  if (!d->decoded) return;
  if (fate_pos < nfates) f = fates[fate_pos++]; else { f.kind = 0; f.nd = 0; }
  if (f.kind == 0) return;
  if ((f.kind == 1 || f.kind == 4 || f.kind == 5) && d->type != COAP_MESSAGE_CON) return;       /* a NON is not acknowledged */
  /* kind 4: the ACK carries the response (2.05) and the request's token (an empty message - a ping - has none) */
  for (int i = 0; i < f.nd; i++)
    add_arrival(d->t + f.d[i], d->sess, f.kind == 2, d->mid, f.kind == 4, d->tkl == 2 ? (d->token[0] << 8) | d->token[1] : -1,
                /* kind 5: the ACK carries a request method; which one (0.01 .. 0.31) varies with message id and delay */
                f.kind == 5 ? 1 + (int)((d->mid + f.d[i]) % 31) : 0);
}

static coap_response_t on_response(coap_session_t *session, const coap_pdu_t *sent, const coap_pdu_t *rcvd, const coap_mid_t mid) {
  (void)sent; (void)rcvd;
  sim_logf("rsp@%llu:%d:%d", (unsigned long long)sim_now, sim_sess_id(session), (int)(uint16_t)mid);
  return COAP_RESPONSE_OK;
}
static void on_nack(coap_session_t *session, const coap_pdu_t *sent, const coap_nack_reason_t reason, const coap_mid_t mid) {
  sim_logf("%s@%llu:%d:%s:%d", sent ? "nack" : "nackx", (unsigned long long)sim_now, sim_sess_id(session),
           sim_nack_name(reason), (int)(uint16_t)mid);
}

static int sock_open(coap_session_t *s) { return coap_netif_available(s); }

static void inject(int s, int type, int code, int mid, int tok, int with_payload) {
  uint8_t buf[32], tk[2];
  size_t n;
  if (s < 0 || s >= nS || !sock_open(S[s])) return;
  tk[0] = (uint8_t)(tok >> 8); tk[1] = (uint8_t)tok;
  n = sim_raw_msg(buf, type, code, mid, tk, tok >= 0 ? 2 : 0, (const uint8_t *)"x", with_payload ? 1 : 0);
  sim_inject_session(S[s], buf, n);
  /* The ACK branch of coap_dispatch() leaves an lg_crcv (block layer: "a separate response may follow") behind for
   * every acknowledged request, with its own expiry timer and its own NACK on disconnect.  That is C07/C09 state,
   * not modelled here: the harness drops it at once so that the scenario stays within the message layer. */
  coap_lock_lock(ctx, return);
  while (S[s]->lg_crcv) {
    coap_lg_crcv_t *lg = S[s]->lg_crcv;
    LL_DELETE(S[s]->lg_crcv, lg);
    coap_block_delete_lg_crcv(S[s], lg);
  }
  coap_lock_unlock(ctx);
}
static void rx_ack(int s, int mid) { inject(s, COAP_MESSAGE_ACK, 0, mid, -1, 0); }
static void rx_piggy(int s, int mid, int tok) { inject(s, COAP_MESSAGE_ACK, COAP_RESPONSE_CODE_CONTENT, mid, tok, 1); }
static void rx_rst(int s, int mid) { inject(s, COAP_MESSAGE_RST, 0, mid, -1, 0); }
/* an ACK that carries the message id but a REQUEST code (class 0, detail 1..31), e.g. the 4 bytes 60 01 <mid>: the ACK
 * branch of coap_dispatch() stops the retransmission, then "This is not legitimate - Request using ACK": BAD_RESPONSE */
static void rx_ackreq(int s, int mid, int code) { inject(s, COAP_MESSAGE_ACK, code & 0x1f, mid, -1, 0); }

static unsigned long long last_e;   /* time from now to the earliest deadline in the send queue at the last prepare (0: none) */
static void do_prepare(void) {
  coap_tick_t dl = 0;
  last_wait = coap_io_prepare_epoll(ctx, sim_now);
  if (!sim_sendq_entry(ctx, 0, &dl) || dl <= sim_now) dl = sim_now;
  last_e = dl - sim_now;
  sim_logf("w@%llu=%u/%llu", (unsigned long long)sim_now, last_wait, last_e);
}

static void deliver_up_to(coap_tick_t target) {
  while (npend && pend[0].time <= target) {
    arrival_t a = pend[0];
    memmove(pend, pend + 1, sizeof(pend[0]) * (size_t)(--npend));
    if (a.time > sim_now) sim_now = a.time;
    if (a.req) rx_ackreq(a.s, a.mid, a.req); else if (a.piggy) rx_piggy(a.s, a.mid, a.tok); else if (a.is_rst) rx_rst(a.s, a.mid); else rx_ack(a.s, a.mid);
  }
}
static void advance(coap_tick_t target) {
  deliver_up_to(target);
  if (target > sim_now) sim_now = target;
  do_prepare();
}
/* `n`: run the timers, then sleep - for the wait the library returns, again and again - until the earliest queued
 * deadline or the next arrival has been reached (an early wake-up caused by a timer the model does not know only
 * adds a w token; a wait that is too long oversleeps the deadline and shows as a late transmission).
 * Returns 0 when there was nothing to wait for. */
static int next_step(void) {
  coap_tick_t goal;
  int have = 0;
  do_prepare();
  if (last_e > 0) { goal = sim_now + last_e; have = 1; }
  if (npend && (!have || pend[0].time < goal)) { goal = pend[0].time; have = 1; }
  if (!have) return 0;
  for (int guard = 0; guard < 64 && sim_now < goal; guard++) {
    coap_tick_t nxt = last_wait > 0 ? sim_now + last_wait : goal;
    if (npend && pend[0].time < nxt) nxt = pend[0].time;
    advance(nxt);
  }
  return 1;
}

static void dump(void) {
  char buf[8192];
  size_t n = 0;
  n += (size_t)snprintf(buf + n, sizeof(buf) - n, "[");
  for (int i = 0; i < nS; i++) n += (size_t)snprintf(buf + n, sizeof(buf) - n, "%s%u", i ? "," : "", sim_con_active(S[i]));
  n += (size_t)snprintf(buf + n, sizeof(buf) - n, ";");
  for (int i = 0; i < nS; i++) n += (size_t)snprintf(buf + n, sizeof(buf) - n, "%s%u", i ? "," : "", sim_delayq_len(S[i]));
  n += (size_t)snprintf(buf + n, sizeof(buf) - n, ";");
  {
    coap_tick_t dl; coap_queue_t *q; unsigned i = 0;
    if (!ctx->sendqueue) n += (size_t)snprintf(buf + n, sizeof(buf) - n, "-");
    while ((q = sim_sendq_entry(ctx, i, &dl)) && n + 64 < sizeof(buf)) {
      n += (size_t)snprintf(buf + n, sizeof(buf) - n, "%s%d.%d.%llu.%u", i ? "," : "", sim_sess_id(q->session),
                            (int)(uint16_t)q->id, (unsigned long long)dl, (unsigned)q->retransmit_cnt);
      i++;
    }
  }
  snprintf(buf + n, sizeof(buf) - n, "]");
  sim_logf("%s", buf);
}

static int parse_fate(const char *w, fate_t *f) {
  char *e;
  f->nd = 0;
  if (!strcmp(w, "d")) { f->kind = 0; return 1; }
  if (!strcmp(w, "x")) { f->kind = 3; return 1; }
  if (w[0] == 'a' || w[0] == 'A') f->kind = 1; else if (w[0] == 'r' || w[0] == 'R') f->kind = 2;
  else if (w[0] == 'p' || w[0] == 'P') f->kind = 4; else if (w[0] == 'q' || w[0] == 'Q') f->kind = 5; else return 0;
  w++;
  for (;;) {
    if (!isdigit((unsigned char)*w) || f->nd >= 4) return 0;
    f->d[f->nd++] = strtoul(w, &e, 10);
    if (*e == 0) return 1;
    if (*e != '+') return 0;
    w = e + 1;
  }
}

/* splits s at sep in place; returns number of fields */
static int split(char *s, char sep, char **out, int max) {
  int n = 0;
  out[n++] = s;
  for (; *s; s++) if (*s == sep) { *s = 0; if (n < max) out[n++] = s + 1; else return -1; }
  return n;
}
static int allnum(char **f, int from, int n) {
  for (int i = from; i < n; i++) { if (!*f[i]) return 0; for (char *p = f[i]; *p; p++) if (!isdigit((unsigned char)*p)) return 0; }
  return 1;
}

static int apply_ev(char *w) {
  char *f[8];
  int n = split(w, ':', f, 8);
  if (n < 1) return 0;
  if (((!strcmp(f[0], "s") && n == 5) || (!strcmp(f[0], "S") && n == 6)) && allnum(f, 1, 2) && allnum(f, 3, n) &&
      (!strcmp(f[2], "c") || !strcmp(f[2], "n"))) {
    /* s: token = MID;  S: explicit token (several messages may share one, e.g. an Observe registration and its cancellation) */
    int s = atoi(f[1]), mid = atoi(f[3]), r = atoi(f[4]), tok = n == 6 ? atoi(f[5]) : mid;
    uint8_t tk[2] = { (uint8_t)(tok >> 8), (uint8_t)tok };
    coap_pdu_t *p;
    coap_mid_t res;
    if (s >= nS) return 0;
    for (int i = 0; i < nfirsts; i++)                 /* a new message may re-use an id: its bytes are new */
      if (firsts[i].s == s && firsts[i].mid == mid && firsts[i].type == (f[2][0] == 'c' ? COAP_MESSAGE_CON : COAP_MESSAGE_NON))
        firsts[i] = firsts[--nfirsts];
    p = sim_make_pdu(S[s], f[2][0] == 'c' ? COAP_MESSAGE_CON : COAP_MESSAGE_NON, COAP_REQUEST_CODE_GET, mid, tk, 2, (const uint8_t *)"pl", 2);
    sim_prng_fill = (uint8_t)r;
    res = coap_send(S[s], p);
    if (res == COAP_INVALID_MID) sim_logf("sub=rej"); else sim_logf("sub=%d", (int)(uint16_t)res);
    return 1;
  }
  if (!strcmp(f[0], "t") && n == 2 && allnum(f, 1, 2)) { advance(sim_now + strtoull(f[1], NULL, 10)); return 1; }
  if (!strcmp(f[0], "n") && n == 1) { next_step(); return 1; }
  if (!strcmp(f[0], "g") && n == 2 && allnum(f, 1, 2)) {
    int k = atoi(f[1]);
    for (int i = 0; i < k; i++) if (!next_step()) break;
    return 1;
  }
  if ((!strcmp(f[0], "a") || !strcmp(f[0], "r") || !strcmp(f[0], "b")) && n == 3 && allnum(f, 1, 3)) {
    int s = atoi(f[1]), mid = atoi(f[2]);
    if (f[0][0] == 'a') rx_ack(s, mid);
    else if (f[0][0] == 'r') rx_rst(s, mid);
    else inject(s, COAP_MESSAGE_ACK, 0x20 /* class 1: invalid */, mid, -1, 0);
    return 1;
  }
  if (!strcmp(f[0], "q") && n == 4 && allnum(f, 1, 4)) {
    /* an ACK with message id MID whose code is the request method 0.CODE (1..31) arrives now */
    int code = atoi(f[3]);
    if (code < 1 || code > 31) return 0;
    rx_ackreq(atoi(f[1]), atoi(f[2]), code);
    return 1;
  }
  if (!strcmp(f[0], "o") && n == 4 && allnum(f, 1, 4)) {
    inject(atoi(f[1]), COAP_MESSAGE_NON, COAP_RESPONSE_CODE_CONTENT, atoi(f[2]), atoi(f[3]), 1);
    return 1;
  }
  if (!strcmp(f[0], "p") && n == 4 && allnum(f, 1, 4)) {
    /* a piggy-backed response: ACK, code 2.05, message id, token */
    rx_piggy(atoi(f[1]), atoi(f[2]), atoi(f[3]));
    return 1;
  }
  if (!strcmp(f[0], "i") && n == 2 && allnum(f, 1, 2)) {
    /* an ICMP error (ECONNREFUSED) is read from the session's socket: coap_io_do_epoll -> coap_read_session ->
     * coap_session_disconnected_lkd(COAP_NACK_ICMP_ISSUE) */
    int s = atoi(f[1]);
    if (s >= nS) return 0;
    if (sock_open(S[s])) sim_inject_icmp(S[s]);
    return 1;
  }
  if (!strcmp(f[0], "k") && n == 2 && allnum(f, 1, 2)) {
    /* keepalive: from now on the I/O loop sends an empty Confirmable ("ping") on every established client session that
     * has been silent for SECS seconds (0: off) */
    coap_context_set_keepalive(ctx, (unsigned)strtoul(f[1], NULL, 10));
    return 1;
  }
  if ((!strcmp(f[0], "h") || !strcmp(f[0], "u") || !strcmp(f[0], "f")) && n == 2 && allnum(f, 1, 2)) {
    int s = atoi(f[1]);
    if (s >= nS) return 0;
    if (f[0][0] == 'h') S[s]->state = COAP_SESSION_STATE_HANDSHAKE;
    else if (f[0][0] == 'u') { coap_lock_lock(ctx, return 0); coap_session_connected(S[s]); coap_lock_unlock(ctx); }
    else if (sock_open(S[s])) coap_session_disconnected(S[s], COAP_NACK_NOT_DELIVERABLE);
    return 1;
  }
  return 0;
}

/* ---------------------------------------------------------------- DTLS sessions with the identity as record layer */
static char dtls_null_env;                 /* session->tls of such a session */
#define IS_NULL_DTLS(s) ((s)->tls == (void *)&dtls_null_env)
ssize_t __real_coap_dtls_send(coap_session_t *s, const uint8_t *data, size_t len);
ssize_t __wrap_coap_dtls_send(coap_session_t *s, const uint8_t *data, size_t len) {
  if (!IS_NULL_DTLS(s)) return __real_coap_dtls_send(s, data, len);
  return s->sock.lfunc[COAP_LAYER_TLS].l_write(s, data, len);       /* GnuTLS' push callback: the record goes down one layer */
}
int __real_coap_dtls_receive(coap_session_t *s, const uint8_t *data, size_t len);
int __wrap_coap_dtls_receive(coap_session_t *s, const uint8_t *data, size_t len) {
  if (!IS_NULL_DTLS(s)) return __real_coap_dtls_receive(s, data, len);
  return coap_handle_dgram(s->context, s, (uint8_t *)data, len);    /* what coap_dtls_receive() does with the decrypted record */
}
void __real_coap_dtls_free_session(coap_session_t *s);
void __wrap_coap_dtls_free_session(coap_session_t *s) {
  if (!IS_NULL_DTLS(s)) __real_coap_dtls_free_session(s);           /* (coap_dtls_close() sets session->tls = NULL itself) */
}
coap_tick_t __real_coap_dtls_get_timeout(coap_session_t *s, coap_tick_t now);
coap_tick_t __wrap_coap_dtls_get_timeout(coap_session_t *s, coap_tick_t now) {
  if (!IS_NULL_DTLS(s)) return __real_coap_dtls_get_timeout(s, now);
  return 0;                                                         /* no handshake in progress: no DTLS timer */
}
/* a UDP client session (ESTABLISHED at once) becomes an established DTLS session */
static void make_dtls(coap_session_t *s) {
  s->proto = COAP_PROTO_DTLS;
  memcpy(s->sock.lfunc, coap_layers_coap[COAP_PROTO_DTLS], sizeof(s->sock.lfunc));
  s->tls = &dtls_null_env;
  coap_lock_lock(ctx, return);
  coap_session_connected(s);               /* what the completed handshake calls: state ESTABLISHED, tls_overhead */
  coap_lock_unlock(ctx);
}

static void do_msg(char **w, int n) {
  char *sp[MAXS], *fp[256];
  int ns, nf = 0, ok = 1;
  if (n < 2) { printf("bad-op"); return; }
  sim_reset();
  sim_log_events = 0;
  sim_tx_hook = on_tx; sim_tx_logger = log_tx; sim_tx_fail_hook = on_tx_fail;
  npend = 0; arr_seq = 0; last_wait = 0; nfirsts = 0; fate_pos = 0; nfates = 0; nS = 0;
  ns = split(w[0], ',', sp, MAXS);
  if (strcmp(w[1], "-")) {
    nf = split(w[1], ',', fp, 256);
    if (nf < 0) { printf("bad-op"); return; }
    for (int i = 0; i < nf; i++) if (!parse_fate(fp[i], &fates[nfates++])) { printf("bad-op"); return; }
  }
  if (ns < 1) { printf("bad-op"); return; }
  /* write failures are modelled for the base alphabet and ICMP events (Model/MsgLayerW.lean, MsgLayerI.lean), not together with S: / k: / p:,
   * piggy-backed fates or DTLS sessions */
  {
    int hasx = 0, hasp = 0;
    for (int i = 0; i < nfates; i++) { if (fates[i].kind == 3) hasx = 1; if (fates[i].kind == 4) hasp = 1; }
    if (hasx && hasp) { printf("bad-op"); return; }
    for (int j = 2; hasx && j < n; j++)
      if ((w[j][0] == 'S' || w[j][0] == 'k' || w[j][0] == 'p') && w[j][1] == ':') { printf("bad-op"); return; }
    for (int i = 0; hasx && i < ns; i++) {
      int dots = 0;
      for (char *c = sp[i]; *c; c++) if (*c == '.') dots++;
      if (dots == 6 && sp[i][strlen(sp[i]) - 1] == '2') { printf("bad-op"); return; }
    }
  }
  ctx = sim_new_context();
  coap_register_response_handler(ctx, on_response);
  coap_register_nack_handler(ctx, on_nack);
  for (int i = 0; i < ns && ok; i++) {
    char *pf[7];
    int nf7 = split(sp[i], '.', pf, 7);
    if ((nf7 != 6 && nf7 != 7) || !allnum(pf, 0, nf7)) { ok = 0; break; }
    if (nf7 == 7 && strcmp(pf[6], "1") && strcmp(pf[6], "2")) { ok = 0; break; }
    S[nS] = sim_new_client(ctx, 40000 + i);
    if (!S[nS]) { ok = 0; break; }
    if (nf7 == 7 && !strcmp(pf[6], "2")) make_dtls(S[nS]);
    /* parameters are stored as given: the public setters refuse integer_part == 0 / value == 0, which the
     * generator never produces, and keeping the assignment direct lets the wrap witnesses be run too */
    S[nS]->ack_timeout.integer_part = (uint16_t)atoi(pf[0]);
    S[nS]->ack_timeout.fractional_part = (uint16_t)atoi(pf[1]);
    S[nS]->ack_random_factor.integer_part = (uint16_t)atoi(pf[2]);
    S[nS]->ack_random_factor.fractional_part = (uint16_t)atoi(pf[3]);
    S[nS]->max_retransmit = (uint16_t)atoi(pf[4]);
    S[nS]->nstart = (uint16_t)atoi(pf[5]);
    nS++;
  }
  for (int i = 2; i < n && ok; i++) {
    if (!apply_ev(w[i])) { ok = 0; break; }
    dump();
  }
  sim_free_all(0);
  if (!ok) { sim_loglen = 0; printf("bad-op"); return; }
  sim_log_flush(stdout);
}

/* ---------------------------------------------------------------- raw queue ops */
static int sq_mids[1024];
static int sq_nmids;
static void sq_on_nack(coap_session_t *session, const coap_pdu_t *sent, const coap_nack_reason_t reason, const coap_mid_t mid) {
  (void)session; (void)sent; (void)reason;
  if (sq_nmids < 1024) sq_mids[sq_nmids++] = (int)(uint16_t)mid;
}
static void sq_log_mids(const int *m, int n) {
  char b[8192]; size_t k = 0;
  if (!n) { sim_logf("-"); return; }
  for (int j = 0; j < n && k + 16 < sizeof(b); j++) k += (size_t)snprintf(b + k, sizeof(b) - k, "%s%d", j ? "," : "", m[j]);
  sim_logf("%s", b);
}

static int sq_sess(coap_session_t **fs, coap_session_t *x) {
  for (int i = 0; i < MAXS; i++) if (fs[i] == x) return i;
  return -1;
}
static void do_sq(char **w, int n) {
  /* nodes carry a fake session pointer per session number and a real PDU (for the token / type) */
  coap_session_t *fs[MAXS];
  int ok = 1;
  sim_reset();
  sim_log_events = 0;
  ctx = sim_new_context();
  coap_register_nack_handler(ctx, sq_on_nack);
  for (int i = 0; i < MAXS; i++) fs[i] = NULL;
  ctx->sendqueue_basetime = 1000;
  /* internal functions run under libcoap's global lock (a no-op unless COAP_THREAD_SAFE); public API calls
   * (sim_new_client, sim_make_pdu -> coap_session_max_pdu_size) take it themselves, so they stay outside */
#define LOCKED(stmt) do { coap_lock_lock(ctx, break); stmt; coap_lock_unlock(ctx); } while (0)
  for (int i = 0; i < n && ok; i++) {
    char *f[6];
    int nf = split(w[i], ':', f, 6);
    if (!strcmp(f[0], "i") && nf == 4 && allnum(f, 1, 4)) {
      int s = atoi(f[2]), mid = atoi(f[3]);
      uint8_t tk[2] = { (uint8_t)(mid >> 8), (uint8_t)mid };
      coap_queue_t *node;
      if (s >= MAXS) { ok = 0; break; }
      if (!fs[s]) { fs[s] = sim_new_client(ctx, 40000 + s); }
      {
        coap_pdu_t *pdu = sim_make_pdu(fs[s], COAP_MESSAGE_CON, COAP_REQUEST_CODE_GET, mid, tk, 2, NULL, 0);
        int r = 0;
        LOCKED({
          node = coap_new_node();
          node->t = strtoull(f[1], NULL, 10);
          node->id = mid;
          node->session = coap_session_reference_lkd(fs[s]);
          node->pdu = pdu;
          r = coap_insert_node(&ctx->sendqueue, node);
        });
        sim_logf("%d", r);
      }
    } else if (!strcmp(f[0], "p") && nf == 1) {
      coap_queue_t *q = NULL;
      LOCKED(q = coap_pop_next(ctx));
      if (!q) sim_logf("none");
      else { sim_logf("%d.%d.%llu", sq_sess(fs, q->session), (int)q->id, (unsigned long long)q->t); LOCKED(coap_delete_node_lkd(q)); }
    } else if (!strcmp(f[0], "r") && nf == 3 && allnum(f, 1, 3)) {
      int s = atoi(f[1]);
      coap_queue_t *q = NULL;
      int r = 0;
      if (s < MAXS && fs[s]) LOCKED(r = coap_remove_from_queue(&ctx->sendqueue, fs[s], atoi(f[2]), &q));
      if (r && q) { sim_logf("1:%d.%d.%llu", sq_sess(fs, q->session), (int)q->id, (unsigned long long)q->t); LOCKED(coap_delete_node_lkd(q)); }
      else sim_logf("0");
    } else if (!strcmp(f[0], "j") && nf == 2 && allnum(f, 1, 2)) {
      unsigned r = 0;
      LOCKED(r = coap_adjust_basetime(ctx, strtoull(f[1], NULL, 10)));
      sim_logf("%u", r);
    } else if (!strcmp(f[0], "c") && nf == 2 && allnum(f, 1, 2)) {
      int s = atoi(f[1]);
      /* the NACK handler calls name the removed nodes, in order */
      sq_nmids = 0;
      if (s < MAXS && fs[s]) LOCKED(coap_cancel_session_messages(ctx, fs[s], COAP_NACK_NOT_DELIVERABLE));
      sq_log_mids(sq_mids, sq_nmids);
    } else if (!strcmp(f[0], "k") && nf == 3 && allnum(f, 1, 3)) {
      int s = atoi(f[1]), tok = atoi(f[2]);
      uint8_t tk[2] = { (uint8_t)(tok >> 8), (uint8_t)tok };
      coap_bin_const_t t = { 2, tk };
      /* the nodes that will be removed are collected beforehand */
      int mids[256]; int nm = 0;
      for (coap_queue_t *q = ctx->sendqueue; q && nm < 256; q = q->next)
        if (s < MAXS && q->session == fs[s] && coap_binary_equal(&q->pdu->actual_token, &t)) mids[nm++] = (int)q->id;
      if (s < MAXS && fs[s]) LOCKED(coap_cancel_all_messages(ctx, fs[s], &t));
      sq_log_mids(mids, nm);
    } else ok = 0;
  }
#undef LOCKED
  if (ok) {
    char b[8192]; size_t k = 0; int first = 1;
    k += (size_t)snprintf(b + k, sizeof(b) - k, "%llu/", (unsigned long long)ctx->sendqueue_basetime);
    if (!ctx->sendqueue) k += (size_t)snprintf(b + k, sizeof(b) - k, "-");
    for (coap_queue_t *q = ctx->sendqueue; q && k + 64 < sizeof(b); q = q->next) {
      k += (size_t)snprintf(b + k, sizeof(b) - k, "%s%d.%d.%llu", first ? "" : ",", sq_sess(fs, q->session), (int)q->id, (unsigned long long)q->t);
      first = 0;
    }
    sim_logf("%s", b);
  }
  sim_free_all(0);
  if (!ok) { sim_loglen = 0; printf("bad-op"); return; }
  sim_log_flush(stdout);
}

static void do_tmo(char **w, int n) {
  coap_session_t *s;
  if (n != 5 || !allnum(w, 0, 5)) { printf("bad-op"); return; }
  sim_reset();
  ctx = sim_new_context();
  s = sim_new_client(ctx, 40000);
  s->ack_timeout.integer_part = (uint16_t)atoi(w[0]);
  s->ack_timeout.fractional_part = (uint16_t)atoi(w[1]);
  s->ack_random_factor.integer_part = (uint16_t)atoi(w[2]);
  s->ack_random_factor.fractional_part = (uint16_t)atoi(w[3]);
  {
    unsigned t = 0;
    coap_lock_lock(ctx, return);
    t = coap_calc_timeout(s, (unsigned char)atoi(w[4]));
    coap_lock_unlock(ctx);
    printf("%u", t);
  }
  sim_free_all(0);
  sim_loglen = 0;
}

static void h_init(void) { sim_global_init(); }

static void step(char *line) {
  static char *w[4096];
  int n = h_words(line, w, 4096);
  if (n >= 1 && !strcmp(w[0], "msg")) { do_msg(w + 1, n - 1); return; }
  if (n >= 1 && !strcmp(w[0], "sq")) { do_sq(w + 1, n - 1); return; }
  if (n >= 1 && !strcmp(w[0], "tmo")) { do_tmo(w + 1, n - 1); return; }
  printf("bad-op");
}

H_MAIN_LOOP(step)
