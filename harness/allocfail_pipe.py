#!/usr/bin/env python3
"""C18: runs harness/allocfail.c on stdin and post-processes its output, one output line per input line, exit 0 always:

  * a line on which the harness DIED (sanitizer abort, signal, watchdog) becomes
        crash fail=<type>@<site function> <diagnostic>@<function of the first libcoap frame>
    (the failed allocation is the last `AF-SITE` the harness announced on stderr) and the harness is restarted on the
    next line;
  * `fail=<type>@<hex>` return addresses are resolved to FUNCTION NAMES with addr2line (inlined frames included: the
    innermost function that textually contains the call), so a finding names the function that requested the failing
    allocation and survives recompilation;
  * the REAL allocation trace (` | A a1:pdu f1 …`) is handed to the Lean driver's `ledger` op, i.e. to the Lean-verified
    monitor Coap.Sessions.ledgerOk, and replaced by its verdict ` | ledger=<true|false>:<diagnostic>`.

usage: allocfail_pipe.py <h_allocfail> <drv>"""
import os, re, subprocess, sys

h, drv = sys.argv[1], sys.argv[2]
lines = sys.stdin.read().split("\n")
if lines and lines[-1] == "":
    lines.pop()

env = dict(os.environ)
outs = []
pos = 0
CR = re.compile(r"(ERROR: AddressSanitizer: [^\n]*|runtime error: [^\n]*|Assertion [^\n]*failed[^\n]*|AF-TIMEOUT|ERROR: LeakSanitizer[^\n]*)")
FR = re.compile(r"#\d+ 0x[0-9a-f]+ in (\w+) [^\n]*/src/")
while pos < len(lines):
    data = "".join(l + "\n" for l in lines[pos:])
    try:
        r = subprocess.run([h], input=data.encode(), stdout=subprocess.PIPE, stderr=subprocess.PIPE, timeout=3600)
        got = r.stdout.decode(errors="replace").split("\n")
        rc, err = r.returncode, r.stderr.decode(errors="replace")
    except subprocess.TimeoutExpired as ex:
        got = (ex.stdout or b"").decode(errors="replace").split("\n")
        rc, err = -999, "AF-TIMEOUT"
    tail = got.pop() if got else ""
    got = got[: len(lines) - pos]
    outs.extend(got)
    pos += len(got)
    if pos < len(lines) and (rc != 0 or not got):
        # died while working on lines[pos]
        sites = re.findall(r"AF-SITE (\S+)", err)
        # stderr holds the sites of ALL lines of this run: the ones of the dying line are the last ones (at most 2)
        want = len([x for x in lines[pos].split()[2:4] if x != "0"]) if lines[pos].startswith("alloc") else 2
        if lines[pos].startswith("ahelp"):
            want = len([x for x in lines[pos].split()[1:3] if x != "0"])
        mine = sites[-want:] if want and sites else []
        if mine and "AF-SITE" in err:
            err = err[err.rindex("AF-SITE"):]
        m = CR.search(err)
        diag = m.group(1) if m else "rc=%s" % rc
        diag = re.sub(r"0x[0-9a-f]+", "0x?", diag)
        diag = re.sub(r"\(pc .*", "", diag)
        diag = re.sub(r"\s+", "_", diag.strip())[:200]
        after = err[m.start():] if m else err
        f = FR.search(after)
        outs.append("crash fail=%s %s@%s" % (",".join(mine) or "-", diag, f.group(1) if f else "?"))
        pos += 1

# resolve allocation sites
addrs = set()
for o in outs:
    m = re.search(r"fail=(\S+)", o)
    if m and m.group(1) != "-":
        for part in m.group(1).split(","):
            if "@" in part:
                addrs.update(part.split("@", 1)[1].split("/"))
names = {}
alist = sorted(a for a in addrs if re.fullmatch(r"[0-9a-f]+", a))
if alist:
    # with -i several (function, file:line) pairs may be printed per address: ask one by one to keep the pairing simple
    for a in alist:
        rr = subprocess.run(["addr2line", "-f", "-i", "-e", h, "0x" + a], stdout=subprocess.PIPE, stderr=subprocess.DEVNULL)
        fns = [x.strip() for x in rr.stdout.decode(errors="replace").split("\n")[0::2] if x.strip()]
        fns = [x for x in fns if x != "??"] or ["?"]
        names[a] = "<".join(fns)          # inlined frames: innermost first


def resolve(o):
    def rep(m):
        parts = []
        for part in m.group(1).split(","):
            if "@" in part:
                t, a = part.split("@", 1)
                parts.append("%s@%s" % (t, "<".join("<".join(names.get(x, x) for x in a.split("/")).split("<")[:5])))
            else:
                parts.append(part)
        return "fail=" + ",".join(parts)
    return re.sub(r"fail=(\S+)", rep, o, count=1)


outs = [resolve(o) for o in outs]

# the ledger monitor
jobs, where = [], []
for i, l in enumerate(outs):
    if " | A " in l:
        head, rest = l.split(" | A ", 1)
        trace, _, after = rest.partition(" | ")
        jobs.append("ledger " + (trace.strip() or "-"))
        where.append((i, head, after))
if jobs:
    d = subprocess.run([drv], input=("\n".join(jobs) + "\n").encode(), stdout=subprocess.PIPE, stderr=subprocess.PIPE)
    verdicts = d.stdout.decode(errors="replace").split("\n")
    for (i, head, after), v in zip(where, verdicts + ["M monitor-died"] * len(where)):
        v = v[2:] if v.startswith("M ") else v
        outs[i] = "%s | ledger=%s | %s" % (head, v.replace(" ", ":"), after)
sys.stdout.write("".join(l + "\n" for l in outs))
sys.stdout.flush()
sys.exit(0)
