/* dtls.c — H-sim harness for C19 ((D)TLS: application data only after an authenticated handshake).
 *
 *   dtls <key=value>...      one line = one whole scenario: a server context with a DTLS endpoint (PSK key table) and a
 *                            client context with one DTLS client session, the REAL GnuTLS on both sides, in one process,
 *                            virtual clock (libcoap AND GnuTLS), every datagram on the scripted wire.
 *
 * configuration words (hex = lower-case hex bytes, '-' = empty / absent):
 *   ci=<hex>  ck=<hex>          client identity / key given to coap_new_client_session_psk2()
 *   st=<id>:<key>,...|-         server key table (validate_id_call_back: unknown identity -> NULL); '-' = no callback, every
 *                               identity gets the default key
 *   sk=<hex>  sh=<hex>|-        server default key / identity hint (coap_context_set_psk2 psk_info)
 *   ih=*|-|<hex>,<hex>..        client validate_ih_call_back: '-' none, '*' accepts every hint, else accepts the listed hints
 *                               ('e' = the empty hint); an accepted hint returns ci/ck, a rejected one NULL
 *   sni=<hex>|-                 client_sni
 *   ss=<name>:<hint>:<key>,..|- server validate_sni_call_back table (unknown name, incl. the empty one -> NULL); '-' none
 *   q=<[CN]*>                   requests the application sends right after creating the session (token 01.., payload PAYLOADi)
 *   b=<[CN]*>                   (C08) a BURST of up to 6 further requests the application sends at the first moment the I/O loop
 *                               finds the client session ESTABLISHED (tokens continue after q's); segments c:send:… like q's
 *   f=<[dx2]*>                  fate of the k-th datagram written (both directions, in order): deliver / drop / duplicate;
 *                               past the end: deliver
 *   inj=<k><c|o|r>,...          before the fate of datagram k is applied (or at quiescence if fewer were written) inject a
 *                               CLEARTEXT CoAP datagram: c = CON GET /r token ee at the DTLS endpoint from the client's
 *                               address, o = same from another address, r = forged piggy-backed 2.05 for request 1 at the
 *                               client session's socket
 *   rel=<k>|-                   the application releases the client session before the fate of datagram k (default: at the end)
 *   icmp=<k>[x<n>]              before the fate of datagram k the client session is told n times (default 1) about an ICMP error:
 *                               coap_session_disconnected(session, COAP_NACK_ICMP_ISSUE) — segment `icmp` each
 *   idle=0|1                    1: keep running past the server's idle timeout (300 s)
 *   bm=0|1                      1: the client context uses COAP_BLOCK_USE_LIBCOAP (coap_context_set_block_mode): requests that
 *                               need large-receive / observe tracking get an lg_crcv entry in coap_send()
 *                               (the harness then seeds the session's token counter with coap_session_init_token(): tt=0 = not)
 *   q letters                   C / N = Confirmable / Non-confirmable GET, O / M = the same with an Observe (register) option
 *   pre=<K>:<I>:<S>,...         EARLIER client sessions against the SAME server context, one after the other, each from a
 *                               fresh client context, loss-free, with one queued CON (token 01), released at quiescence and
 *                               its server session reclaimed (idle timeout) before the next one starts: K / I = key /
 *                               identity (hex, '=' = as the main client), S = server name (hex, '-' = none, '=' = as the
 *                               main client).  Their segments use who = p (client) / r (server session).
 *
 * output: segments joined by " ; ", one per libcoap entry point exercised:
 *     <who>:<event>[:<args>]/<oracle results>><outputs>|<state>
 *   who     c = client session, s = server side (endpoint / the server session for the client's address), t = server session
 *           for the other address
 *   event   new[:fail] | send:<K><mid>:<tok> | dg | ep:<src>:<kind> | tmo | rtx:<mid> | rel | del | free
 *   oracle  what GnuTLS answered inside (wrapped gnutls_* calls): env= hs= rec= snd= ck=
 *   outputs tx:<K>.<code>.<mid>.<tok> (PDU handed to coap_dtls_send) req:<tok>:<payload> rsp:<tok>:<code> nack:<reason>:<tok>
 *           ev:<name> bye alert cookie
 *   state   st=<session state>,tls=<0|1>,dq=<delay queue>,ca=<con_active>,if=<send queue nodes>[,lg=<lg_crcv tokens, first
 *           entry first, '.'-joined, '-' = none: client sessions with bm=1>]  or  gone
 *   event   also newb (new with bm=1), lgx:<tokens left> (coap_block_check_lg_crcv_timeouts deleted lg_crcv entries)
 * then " | wire n=<datagrams> clear=<not a DTLS record, written outside GnuTLS, or carrying a queued payload> app=<ct23 records>
 *        prealert=<GnuTLS' version-less close_notify records> cleartext=<yes|no>"
 * and  " | hs c=<ok|fail|none> s=<ok|fail|none>"  (the handshake verdicts the oracle gave).
 * and  " | cred <events>"  what libcoap's OWN credential callbacks answered GnuTLS on the server side, in order (trampolines
 *      installed by wrapping gnutls_psk_set_server_credentials_function / gnutls_handshake_set_post_client_hello_function):
 *      ses (first callback of a new server session)  pch:<server name hex|->:<ok|fail> (post_client_hello_gnutls_psk)
 *      psk:<identity hex>:<key hex|e (empty)|fail> (psk_server_callback: the key libcoap hands GnuTLS for that identity)
 */
#include "sim_core.h"
#include <gnutls/gnutls.h>
#include <gnutls/dtls.h>
#include <sys/socket.h>
#include <time.h>
#include <unistd.h>

/* ------------------------------------------------------------------ GnuTLS on the virtual clock */
extern void _gnutls_global_set_gettime_function(void (*f)(struct timespec *));
#define VT_BASE 1700000000L
static void vt_gettime(struct timespec *ts) {
  ts->tv_sec = VT_BASE + (time_t)(sim_now / 1000);
  ts->tv_nsec = (long)(sim_now % 1000) * 1000000L;
}
static time_t vt_time(time_t *t) {
  time_t v = VT_BASE + (time_t)(sim_now / 1000);
  if (t) *t = v;
  return v;
}

/* ------------------------------------------------------------------ segments */
static char *seg_buf; static size_t seg_len, seg_cap;
static void out_raw(const char *s, size_t n) {
  if (seg_len + n + 1 > seg_cap) { seg_cap = (seg_cap + n + 1) * 2; seg_buf = (char *)realloc(seg_buf, seg_cap); }
  memcpy(seg_buf + seg_len, s, n); seg_len += n; seg_buf[seg_len] = 0;
}
static char s_head[128], s_orc[2048], s_out[4096];
static int s_open; static char s_who;
static coap_session_t *g_cs; static int g_cs_gone;
static coap_endpoint_t *g_ep; static coap_context_t *g_srv, *g_cli;
static coap_address_t g_caddr, g_oaddr;
static int nsegs;

static void appendf(char *dst, size_t cap, const char *fmt, ...) {
  va_list ap; size_t l = strlen(dst);
  if (l + 2 >= cap) return;
  if (l) dst[l++] = ',';
  va_start(ap, fmt); vsnprintf(dst + l, cap - l, fmt, ap); va_end(ap);
}
static coap_session_t *srv_session(const coap_address_t *remote) {
  coap_session_t *s, *tmp;
  if (!g_ep) return NULL;
  SESSIONS_ITER(g_ep->sessions, s, tmp) if (coap_address_equals(&s->addr_info.remote, remote)) return s;
  return NULL;
}
static char w_cli = 'c', w_srv = 's';      /* 'p' / 'r' while an earlier client (pre=) runs */
static int g_bm, g_tt;
static coap_session_t *who_session(char who) {
  if (who == w_cli) return g_cs_gone ? NULL : g_cs;
  return srv_session(who == 't' ? &g_oaddr : &g_caddr);
}
static char session_who(const coap_session_t *s) {
  if (s == g_cs || (s && s->type == COAP_SESSION_TYPE_CLIENT)) return w_cli;
  if (s && coap_address_equals(&s->addr_info.remote, &g_oaddr)) return 't';
  return w_srv;
}
/* tokens of the lg_crcv entries, first entry first */
static void lg_tokens(char *o, size_t cap, const coap_session_t *s) {
  size_t l = 0;
  o[0] = 0;
  for (const coap_lg_crcv_t *g = s->lg_crcv; g && l + 20 < cap; g = g->next) {
    char tk[20];
    if (g->app_token) sim_tok(tk, g->app_token->s, g->app_token->length > 8 ? 8 : g->app_token->length); else strcpy(tk, "?");
    l += (size_t)snprintf(o + l, cap - l, "%s%s", l ? "." : "", tk);
  }
  if (!l) strcpy(o, "-");
}
static unsigned lg_count(const coap_session_t *s) {
  unsigned n = 0;
  for (const coap_lg_crcv_t *g = s->lg_crcv; g; g = g->next) n++;
  return n;
}
static unsigned inflight_of(coap_session_t *s) {
  unsigned n = 0;
  for (coap_queue_t *q = s->context->sendqueue; q; q = q->next) if (q->session == s) n++;
  return n;
}
static void seg_close(void) {
  char st[200];
  coap_session_t *s;
  if (!s_open) return;
  s = who_session(s_who);
  if (s) {
    snprintf(st, sizeof(st), "st=%d,tls=%d,dq=%u,ca=%u,if=%u", (int)s->state, s->tls ? 1 : 0, sim_delayq_len(s), s->con_active, inflight_of(s));
    if (s->type == COAP_SESSION_TYPE_CLIENT && (s->block_mode & COAP_BLOCK_USE_LIBCOAP)) {
      char lg[96];
      lg_tokens(lg, sizeof(lg), s);
      snprintf(st + strlen(st), sizeof(st) - strlen(st), ",lg=%s", lg);
    }
  } else strcpy(st, "gone");
  if (nsegs++) out_raw(" ; ", 3);
  out_raw(s_head, strlen(s_head));
  out_raw("/", 1); out_raw(s_orc[0] ? s_orc : "-", s_orc[0] ? strlen(s_orc) : 1);
  out_raw(">", 1); out_raw(s_out[0] ? s_out : "-", s_out[0] ? strlen(s_out) : 1);
  out_raw("|", 1); out_raw(st, strlen(st));
  s_open = 0;
}
static void seg_begin(char who, const char *fmt, ...) {
  va_list ap; char tmp[100];
  seg_close();
  va_start(ap, fmt); vsnprintf(tmp, sizeof(tmp), fmt, ap); va_end(ap);
  snprintf(s_head, sizeof(s_head), "%c:%s", who, tmp);
  s_orc[0] = 0; s_out[0] = 0; s_open = 1; s_who = who;
}
#define ORC(s, ...) do { if (s_open && session_who(s) != s_who) appendf(s_orc, sizeof(s_orc), "!foreign"); appendf(s_orc, sizeof(s_orc), __VA_ARGS__); } while (0)
#define OUT(...) appendf(s_out, sizeof(s_out), __VA_ARGS__)

/* canonical view of a CoAP message: K.code.mid.tok[.payload] */
static void coap_view(char *o, size_t cap, const uint8_t *b, size_t n, int with_payload) {
  size_t tkl, i;
  char tk[20], pl[40];
  if (n < 4 || (b[0] >> 6) != 1 || (tkl = b[0] & 15) > 8 || 4 + tkl > n) { snprintf(o, cap, "junk%zu", n); return; }
  sim_tok(tk, b + 4, tkl);
  pl[0] = 0;
  for (i = 4 + tkl; with_payload && i < n;) {          /* walk the options to the payload marker */
    size_t dl, ll;
    if (b[i] == 0xFF) { sim_tok(pl, b + i + 1, n - i - 1 > 16 ? 16 : n - i - 1); break; }
    dl = b[i] >> 4; ll = b[i] & 15; i++;
    if (dl == 13) i += 1; else if (dl == 14) i += 2;
    if (ll == 13) { if (i >= n) break; ll = (size_t)b[i] + 13; i += 1; }
    else if (ll == 14) { if (i + 1 >= n) break; ll = (((size_t)b[i] << 8) | b[i + 1]) + 269; i += 2; }
    i += ll;
  }
  if (pl[0]) snprintf(o, cap, "%c.%d.%d.%s.%s", sim_kind[(b[0] >> 4) & 3], b[1], (b[2] << 8) | b[3], tk, pl);
  else snprintf(o, cap, "%c.%d.%d.%s", sim_kind[(b[0] >> 4) & 3], b[1], (b[2] << 8) | b[3], tk);
}

/* ------------------------------------------------------------------ the oracle interface: wrapped GnuTLS calls */
static int in_gnutls;                 /* depth: socket writes are legitimate only inside one of these */
static char hs_verdict[2] = {'n', 'n'};   /* c, s: n none / o ok / f fail */
int __real_gnutls_handshake(gnutls_session_t g);
ssize_t __real_gnutls_record_recv(gnutls_session_t g, void *data, size_t len);
ssize_t __real_gnutls_record_send(gnutls_session_t g, const void *data, size_t len);
int __real_gnutls_bye(gnutls_session_t g, gnutls_close_request_t how);
int __real_gnutls_alert_send(gnutls_session_t g, gnutls_alert_level_t level, gnutls_alert_description_t desc);
int __real_gnutls_dtls_cookie_verify(gnutls_datum_t *key, void *cd, size_t cs, void *msg, size_t ms, gnutls_dtls_prestate_st *p);
int __real_gnutls_dtls_cookie_send(gnutls_datum_t *key, void *cd, size_t cs, gnutls_dtls_prestate_st *p, gnutls_transport_ptr_t ptr, gnutls_push_func f);
int __real_gnutls_init(gnutls_session_t *g, unsigned int flags);

static const char *hs_class(int r) {
  switch (r) {
  case GNUTLS_E_SUCCESS: return "ok";
  case GNUTLS_E_INTERRUPTED: case GNUTLS_E_AGAIN: return "again";
  case GNUTLS_E_INSUFFICIENT_CREDENTIALS: return "insuff";
  case GNUTLS_E_FATAL_ALERT_RECEIVED: return "fatalrx";
  case GNUTLS_E_UNEXPECTED_HANDSHAKE_PACKET: case GNUTLS_E_UNEXPECTED_PACKET: return "unexp";
  case GNUTLS_E_WARNING_ALERT_RECEIVED: return "warn";
  case GNUTLS_E_NO_CERTIFICATE_FOUND: case GNUTLS_E_CERTIFICATE_REQUIRED: return "nocert";
  case GNUTLS_E_DECRYPTION_FAILED: return "decrypt";
  case GNUTLS_E_CERTIFICATE_ERROR: return "certerr";
  case GNUTLS_E_UNKNOWN_CIPHER_SUITE: case GNUTLS_E_NO_CIPHER_SUITES: case GNUTLS_E_INVALID_SESSION: return "cipher";
  case GNUTLS_E_SESSION_EOF: case GNUTLS_E_PREMATURE_TERMINATION: case GNUTLS_E_TIMEDOUT: case GNUTLS_E_PULL_ERROR:
  case GNUTLS_E_PUSH_ERROR: return "eof";
  default: return "other";
  }
}
int __wrap_gnutls_handshake(gnutls_session_t g) {
  coap_session_t *s = (coap_session_t *)gnutls_transport_get_ptr(g);
  int r;
  in_gnutls++; r = __real_gnutls_handshake(g); in_gnutls--;
  ORC(s, "hs=%s", hs_class(r));
  if (getenv("H_HSRC") && r && r != GNUTLS_E_AGAIN) fprintf(stderr, "gnutls_handshake -> %d %s\n", r, gnutls_strerror(r));
  {
    int i = s == g_cs ? 0 : 1;
    if (r == GNUTLS_E_SUCCESS) hs_verdict[i] = 'o';
    else if (r != GNUTLS_E_AGAIN && r != GNUTLS_E_INTERRUPTED && r != GNUTLS_E_WARNING_ALERT_RECEIVED && hs_verdict[i] == 'n') hs_verdict[i] = 'f';
  }
  return r;
}
ssize_t __wrap_gnutls_record_recv(gnutls_session_t g, void *data, size_t len) {
  coap_session_t *s = (coap_session_t *)gnutls_transport_get_ptr(g);
  ssize_t r;
  in_gnutls++; r = __real_gnutls_record_recv(g, data, len); in_gnutls--;
  if (r > 0) { char v[96]; coap_view(v, sizeof(v), (const uint8_t *)data, (size_t)r, 1); ORC(s, "rec=data:%s", v); }
  else if (r == 0) ORC(s, "rec=zero");
  else if (r == GNUTLS_E_FATAL_ALERT_RECEIVED) ORC(s, "rec=fatalrx");
  else if (r == GNUTLS_E_WARNING_ALERT_RECEIVED) ORC(s, "rec=warn");
  else ORC(s, "rec=err");
  return r;
}
ssize_t __wrap_gnutls_record_send(gnutls_session_t g, const void *data, size_t len) {
  coap_session_t *s = (coap_session_t *)gnutls_transport_get_ptr(g);
  ssize_t r;
  in_gnutls++; r = __real_gnutls_record_send(g, data, len); in_gnutls--;
  if (r > 0) ORC(s, "snd=ok");
  else if (r == GNUTLS_E_AGAIN) ORC(s, "snd=again");
  else if (r == GNUTLS_E_FATAL_ALERT_RECEIVED) ORC(s, "snd=fatalrx");
  else ORC(s, "snd=err");
  return r;
}
int __wrap_gnutls_bye(gnutls_session_t g, gnutls_close_request_t how) {
  int r;
  OUT("bye");
  in_gnutls++; r = __real_gnutls_bye(g, how); in_gnutls--;
  return r;
}
int __wrap_gnutls_alert_send(gnutls_session_t g, gnutls_alert_level_t level, gnutls_alert_description_t desc) {
  int r;
  if (!in_gnutls) OUT("alert");       /* nested = sent by a libcoap callback running INSIDE gnutls_handshake: the oracle's side */
  in_gnutls++; r = __real_gnutls_alert_send(g, level, desc); in_gnutls--;
  return r;
}
int __wrap_gnutls_dtls_cookie_verify(gnutls_datum_t *key, void *cd, size_t cs, void *msg, size_t ms, gnutls_dtls_prestate_st *p) {
  int r = __real_gnutls_dtls_cookie_verify(key, cd, cs, msg, ms, p);
  appendf(s_orc, sizeof(s_orc), "ck=%s", r < 0 ? "bad" : "ok");
  return r;
}
int __wrap_gnutls_dtls_cookie_send(gnutls_datum_t *key, void *cd, size_t cs, gnutls_dtls_prestate_st *p, gnutls_transport_ptr_t ptr, gnutls_push_func f) {
  int r;
  OUT("cookie");
  in_gnutls++; r = __real_gnutls_dtls_cookie_send(key, cd, cs, p, ptr, f); in_gnutls--;
  return r;
}
int __wrap_gnutls_init(gnutls_session_t *g, unsigned int flags) {
  int r = __real_gnutls_init(g, flags);
  appendf(s_orc, sizeof(s_orc), "env=%s", r == GNUTLS_E_SUCCESS ? "ok" : "fail");
  return r;
}

/* ------------------------------------------------------------------ libcoap's server-side credential callbacks, observed */
static char cred_buf[4096];
static unsigned srv_sess_no, cred_sess_no;
static void cred_add(const char *fmt, ...) {
  va_list ap; size_t l = strlen(cred_buf);
  if (l + 200 >= sizeof(cred_buf)) return;
  if (l) cred_buf[l++] = ' ';
  va_start(ap, fmt); vsnprintf(cred_buf + l, sizeof(cred_buf) - l, fmt, ap); va_end(ap);
}
static void cred_session(void) { if (cred_sess_no != srv_sess_no) { cred_sess_no = srv_sess_no; cred_add("ses"); } }
static void hexs(char *o, size_t cap, const uint8_t *b, size_t n, const char *empty) {
  static const char hx[] = "0123456789abcdef";
  size_t i;
  if (!n) { snprintf(o, cap, "%s", empty); return; }
  for (i = 0; i < n && 2 * i + 2 < cap; i++) { o[2 * i] = hx[b[i] >> 4]; o[2 * i + 1] = hx[b[i] & 15]; }
  o[2 * i] = 0;
}
static gnutls_psk_server_credentials_function *real_psk_cb;
static int tramp_psk(gnutls_session_t g, const char *identity, gnutls_datum_t *key) {
  char ih[140], kh[140];
  int r = real_psk_cb(g, identity, key);
  cred_session();
  hexs(ih, sizeof(ih), (const uint8_t *)(identity ? identity : ""), identity ? strlen(identity) : 0, "e");
  if (r == 0) hexs(kh, sizeof(kh), key->data, key->size, "e"); else strcpy(kh, "fail");
  cred_add("psk:%s:%s", ih, kh);
  return r;
}
void __real_gnutls_psk_set_server_credentials_function(gnutls_psk_server_credentials_t cred, gnutls_psk_server_credentials_function *f);
void __wrap_gnutls_psk_set_server_credentials_function(gnutls_psk_server_credentials_t cred, gnutls_psk_server_credentials_function *f) {
  real_psk_cb = f;
  __real_gnutls_psk_set_server_credentials_function(cred, tramp_psk);
}
static gnutls_handshake_simple_hook_func real_pch;
static int tramp_pch(gnutls_session_t g) {
  char name[260], nh[530];
  size_t len = sizeof(name) - 1; unsigned type = 0;
  int have = gnutls_server_name_get(g, name, &len, &type, 0) == GNUTLS_E_SUCCESS;
  int r = real_pch(g);
  cred_session();
  if (have) hexs(nh, sizeof(nh), (const uint8_t *)name, len, "e"); else strcpy(nh, "-");
  cred_add("pch:%s:%s", nh, r == GNUTLS_E_SUCCESS ? "ok" : "fail");
  return r;
}
void __real_gnutls_handshake_set_post_client_hello_function(gnutls_session_t g, gnutls_handshake_simple_hook_func f);
void __wrap_gnutls_handshake_set_post_client_hello_function(gnutls_session_t g, gnutls_handshake_simple_hook_func f) {
  real_pch = f;
  __real_gnutls_handshake_set_post_client_hello_function(g, tramp_pch);
}

/* ------------------------------------------------------------------ wrapped libcoap entry points */
/* lg_crcv entries that time out are deleted silently inside the I/O loop: an event of its own for M */
static void seg_begin(char who, const char *fmt, ...);
int __real_coap_block_check_lg_crcv_timeouts(coap_session_t *s, coap_tick_t now, coap_tick_t *tim_rem);
int __wrap_coap_block_check_lg_crcv_timeouts(coap_session_t *s, coap_tick_t now, coap_tick_t *tim_rem) {
  unsigned before = lg_count(s);
  int r = __real_coap_block_check_lg_crcv_timeouts(s, now, tim_rem);
  if (lg_count(s) != before) {
    char lg[96];
    lg_tokens(lg, sizeof(lg), s);
    seg_begin(session_who(s), "lgx:%s", lg);
    seg_close();
  }
  return r;
}

ssize_t __real_coap_dtls_send(coap_session_t *s, const uint8_t *data, size_t len);
ssize_t __wrap_coap_dtls_send(coap_session_t *s, const uint8_t *data, size_t len) {
  char v[96];
  coap_view(v, sizeof(v), data, len, 0);
  if (s_open && session_who(s) != s_who) OUT("!foreign");
  OUT("tx:%s", v);
  return __real_coap_dtls_send(s, data, len);
}
int __real_coap_dtls_handle_timeout(coap_session_t *s);
int __wrap_coap_dtls_handle_timeout(coap_session_t *s) {
  char who = session_who(s);
  int r;
  seg_begin(who, "tmo");
  r = __real_coap_dtls_handle_timeout(s);
  seg_close();
  return r;
}
coap_mid_t __real_coap_retransmit(coap_context_t *ctx, coap_queue_t *node);
coap_mid_t __wrap_coap_retransmit(coap_context_t *ctx, coap_queue_t *node) {
  coap_mid_t r;
  if (node && node->session) seg_begin(session_who(node->session), "rtx:%d", (int)(uint16_t)node->id);
  r = __real_coap_retransmit(ctx, node);
  seg_close();
  return r;
}
void __real_coap_free_type(coap_memory_tag_t type, void *p);
void __wrap_coap_free_type(coap_memory_tag_t type, void *p) {
  if (p && p == (void *)g_cs) {
    g_cs_gone = 1;
    for (int i = 0; i < sim_nsess; i++) if (sim_sess[i] == g_cs) sim_sess[i] = NULL;
  }
  __real_coap_free_type(type, p);
}

/* ------------------------------------------------------------------ the wire */
static unsigned w_n, w_clear, w_app, w_pre;
static const sim_dgram_t *pending[512];
static int npending;
static char fate[600];
static uint8_t q_payload[9][9];
static int nq;
static char g_burst[8]; static int g_burst_done;      /* b=: requests sent once the client session is ESTABLISHED */

static int looks_dtls(const uint8_t *b, size_t n) {
  size_t i = 0;
  if (!n) return 0;
  while (i < n) {             /* a datagram may carry several records */
    size_t l;
    if (n - i < 13) return 0;
    if (b[i] < 20 || b[i] > 25) return 0;
    l = ((size_t)b[i + 11] << 8) | b[i + 12];
    /* GnuTLS writes the close_notify of a session that never negotiated a version with the TLS number 3.3 in an otherwise
       DTLS-framed alert record (2 bytes): the TLS library's own, counted separately */
    if (b[i] == 21 && b[i + 1] == 3 && b[i + 2] == 3 && l == 2 && 13 + l == n - i) { w_pre++; return 1; }
    if (b[i + 1] != 0xfe || (b[i + 2] != 0xfd && b[i + 2] != 0xff)) return 0;
    if (13 + l > n - i) return 0;
    if (b[i] == 23) w_app++;
    i += 13 + l;
  }
  return 1;
}
static int contains(const uint8_t *b, size_t n, const uint8_t *p, size_t m) {
  for (size_t i = 0; i + m <= n; i++) if (!memcmp(b + i, p, m)) return 1;
  return 0;
}
static void on_tx(const sim_dgram_t *d) {
  int bad = 0;
  w_n++;
  if (!looks_dtls(d->data, d->len)) bad = 1;
  if (!in_gnutls) bad = 1;                                   /* a socket write that did not come out of the TLS library */
  for (int i = 0; i < nq; i++) if (contains(d->data, d->len, q_payload[i], 8)) bad = 1;   /* a queued request's payload in clear */
  if (bad) { w_clear++; OUT("CLEAR:%zu", d->len); if (getenv("H_HEX")) { for (size_t i = 0; i < d->len; i++) fprintf(stderr, "%02x", d->data[i]); fprintf(stderr, " in_gnutls=%d\n", in_gnutls); } }
  if (npending < 512) pending[npending++] = d;
}
static void tx_logger(const sim_dgram_t *d) { (void)d; }

/* ------------------------------------------------------------------ configuration */
typedef struct { char a[64], b[64], c[64]; size_t al, bl, cl; } ent_t;
static ent_t keytab[8]; static int nkeytab, have_keytab;
static ent_t snitab[8]; static int nsnitab, have_snitab;
static char ih_list[8][64]; static size_t ih_len[8]; static int nih, ih_mode;   /* 0 none, 1 any, 2 list */
static uint8_t c_id[64], c_key[64], s_key[64], s_hint[64]; static size_t c_idl, c_keyl, s_keyl, s_hintl; static int have_hint;
static char c_sni[64]; static int have_sni;
static coap_dtls_cpsk_info_t ih_ret;
static coap_bin_const_t id_ret;
static coap_dtls_spsk_info_t sni_ret;

static int unhex_into(const char *s, uint8_t *o, size_t cap, size_t *n) {
  size_t l = strlen(s);
  *n = 0;
  if (!strcmp(s, "-") || !strcmp(s, "e")) return 1;
  if (l % 2 || l / 2 >= cap) return 0;
  for (size_t i = 0; i < l / 2; i++) {
    int a = h_hexval(s[2 * i]), b = h_hexval(s[2 * i + 1]);
    if (a < 0 || b < 0) return 0;
    o[i] = (uint8_t)(a * 16 + b);
  }
  o[l / 2] = 0;
  *n = l / 2;
  return 1;
}
static int parse_tab(char *v, ent_t *tab, int *n, int fields) {
  *n = 0;
  for (char *e = strtok(v, ","); e; e = strtok(NULL, ",")) {
    char *p1 = strchr(e, ':'), *p2 = NULL;
    ent_t *t;
    if (!p1 || *n >= 8) return 0;
    *p1++ = 0;
    if (fields == 3) { p2 = strchr(p1, ':'); if (!p2) return 0; *p2++ = 0; }
    t = &tab[(*n)++];
    if (!unhex_into(e, (uint8_t *)t->a, sizeof(t->a), &t->al) || !unhex_into(p1, (uint8_t *)t->b, sizeof(t->b), &t->bl)) return 0;
    if (p2 && !unhex_into(p2, (uint8_t *)t->c, sizeof(t->c), &t->cl)) return 0;
  }
  return 1;
}
static const coap_bin_const_t *cb_id(coap_bin_const_t *identity, coap_session_t *s, void *arg) {
  (void)s; (void)arg;
  for (int i = 0; i < nkeytab; i++)
    if (identity->length == keytab[i].al && !memcmp(identity->s, keytab[i].a, keytab[i].al)) {
      id_ret.s = (const uint8_t *)keytab[i].b; id_ret.length = keytab[i].bl;
      return &id_ret;
    }
  return NULL;
}
static const coap_dtls_spsk_info_t *cb_sni(const char *sni, coap_session_t *s, void *arg) {
  (void)s; (void)arg;
  for (int i = 0; i < nsnitab; i++)
    if (strlen(sni) == snitab[i].al && !strcasecmp(sni, snitab[i].a)) {
      sni_ret.hint.s = (const uint8_t *)snitab[i].b; sni_ret.hint.length = snitab[i].bl;
      sni_ret.key.s = (const uint8_t *)snitab[i].c; sni_ret.key.length = snitab[i].cl;
      return &sni_ret;
    }
  return NULL;
}
static const coap_dtls_cpsk_info_t *cb_ih(coap_str_const_t *hint, coap_session_t *s, void *arg) {
  int ok = ih_mode == 1;
  (void)s; (void)arg;
  for (int i = 0; i < nih && !ok; i++) if (hint->length == ih_len[i] && !memcmp(hint->s, ih_list[i], ih_len[i])) ok = 1;
  if (!ok) return NULL;
  ih_ret.identity.s = c_id; ih_ret.identity.length = c_idl;
  ih_ret.key.s = c_key; ih_ret.key.length = c_keyl;
  return &ih_ret;
}

/* ------------------------------------------------------------------ application callbacks */
static void pdu_tok(char *o, const coap_pdu_t *p) {
  coap_bin_const_t t;
  if (!p) { strcpy(o, "-"); return; }
  t = coap_pdu_get_token(p);
  sim_tok(o, t.s, t.length > 8 ? 8 : t.length);
}
static void hnd_get(coap_resource_t *r, coap_session_t *s, const coap_pdu_t *req, const coap_string_t *q, coap_pdu_t *rsp) {
  char tk[20], pl[40];
  size_t len = 0; const uint8_t *data = NULL;
  (void)r; (void)q;
  pdu_tok(tk, req);
  coap_get_data(req, &len, &data);
  sim_tok(pl, data, len > 16 ? 16 : len);
  if (s_open && session_who(s) != s_who) OUT("!foreign");
  OUT("req:%s:%s", tk, pl);
  coap_pdu_set_code(rsp, COAP_RESPONSE_CODE_CONTENT);
  coap_add_data(rsp, 2, (const uint8_t *)"hi");
}
static coap_response_t on_response(coap_session_t *s, const coap_pdu_t *sent, const coap_pdu_t *rcvd, const coap_mid_t mid) {
  char tk[20];
  (void)s; (void)sent; (void)mid;
  pdu_tok(tk, rcvd);
  OUT("rsp:%s:%d", tk, (int)coap_pdu_get_code(rcvd));
  return COAP_RESPONSE_OK;
}
static void on_nack(coap_session_t *s, const coap_pdu_t *sent, const coap_nack_reason_t reason, const coap_mid_t mid) {
  char tk[20];
  (void)mid;
  pdu_tok(tk, sent);
  if (s_open && session_who(s) != s_who) OUT("!foreign");
  OUT("nack:%s:%s", reason == COAP_NACK_TLS_LAYER_FAILED ? "tlslayer" : sim_nack_name(reason), tk);
}
static int on_event(coap_session_t *s, const coap_event_t e) {
  (void)s;
  switch (e) {
  case COAP_EVENT_DTLS_CLOSED: OUT("ev:closed"); break;
  case COAP_EVENT_DTLS_CONNECTED: OUT("ev:connected"); break;
  case COAP_EVENT_DTLS_ERROR: OUT("ev:error"); break;
  case COAP_EVENT_DTLS_RENEGOTIATE: OUT("ev:reneg"); break;
  case COAP_EVENT_SERVER_SESSION_NEW: srv_sess_no++; OUT("ev:new"); break;
  case COAP_EVENT_SERVER_SESSION_DEL:
    /* idle reclamation runs inside a prepare call: its own segment */
    if (!s_open || strcmp(s_head, "s:free")) seg_begin(session_who(s), "del");
    OUT("ev:del"); break;
  case COAP_EVENT_MSG_RETRANSMITTED: OUT("ev:rtx"); break;
  case COAP_EVENT_BAD_PACKET: OUT("ev:bad"); break;
  default: OUT("ev:0x%04x", (unsigned)e); break;
  }
  return 0;
}

/* ------------------------------------------------------------------ scenario */
static FILE *h_in;
static void h_init(void) {
  /* server-side DTLS sessions have sock.fd == 0 and libcoap's GnuTLS pull-timeout callback select()s on it:
     make fd 0 a quiet, always-writable, never-readable datagram socket and read the input lines from a duplicate */
  int in = dup(0);
  int s = socket(AF_INET, SOCK_DGRAM, 0);
  h_in = fdopen(in, "r");
  dup2(s, 0);
  close(s);
  sim_global_init();
  gnutls_global_set_time_function(vt_time);
  _gnutls_global_set_gettime_function(vt_gettime);
}

typedef struct { unsigned k; char what; int done; } inj_t;
static inj_t injs[8]; static int ninj;
static long rel_at;
static unsigned handled;      /* datagrams whose fate has been applied */

static void do_release(void) {
  if (g_cs_gone || !g_cs) return;
  seg_begin(w_cli, "rel");
  coap_session_release(g_cs);
  if (!g_cs_gone) { /* still referenced by queue nodes: the application's pointer is dead all the same */ }
  seg_close();
}
static long icmp_at; static int icmp_n;
static void do_icmp(void) {
  /* what coap_read_session() does on ECONNREFUSED / EHOSTUNREACH of a connected datagram socket */
  for (int i = 0; i < icmp_n; i++) {
    if (g_cs_gone || !g_cs) return;
    seg_begin(w_cli, "icmp");
    coap_session_disconnected(g_cs, COAP_NACK_ICMP_ISSUE);
    seg_close();
  }
}
static void do_inject(char what) {
  uint8_t b[48];
  size_t n;
  if (what == 'c' || what == 'o') {
    static const uint8_t tok[1] = {0xee};
    n = 0;
    b[n++] = 0x41; b[n++] = 1; b[n++] = 0x77; b[n++] = (uint8_t)(what == 'c' ? 1 : 2);
    b[n++] = tok[0];
    b[n++] = 0xB1; b[n++] = 'r';
    b[n++] = 0xFF; memcpy(b + n, "INJECTED", 8); n += 8;
    {
      const char *kind = "other";
      if (n < 14) kind = "short";
      seg_begin(what == 'c' ? 's' : 't', "ep:%c:%s", what, srv_session(what == 'c' ? &g_caddr : &g_oaddr) ? "known" : kind);
    }
    sim_prng_fill = 0x40;
    sim_inject_endpoint(g_ep, what == 'c' ? &g_caddr : &g_oaddr, b, n);
    seg_close();
  } else if (what == 'r') {
    uint8_t tok[1] = {1};
    if (g_cs_gone) return;
    n = sim_raw_msg(b, 2, 69, (int)(uint16_t)(g_cs->tx_mid - (uint16_t)nq + 1), tok, 1, (const uint8_t *)"FORGED-RESPONSE!", 16);
    seg_begin('c', "dg");
    sim_prng_fill = 0x80;
    sim_inject_session(g_cs, b, n);
    seg_close();
  }
}
static const char *ep_kind(const uint8_t *b, size_t n, const coap_address_t *src) {
  if (srv_session(src)) return "known";
  if (n < 14) return "short";
  if ((b[0] & 0x30) == 0x30 || b[0] == 25) return "cid";
  if (b[0] == 22 && b[13] == 1) return "hello";
  return "other";
}
static void deliver(const sim_dgram_t *d) {
  /* to the DTLS endpoint? */
  if (g_ep && coap_address_equals(&g_ep->bind_addr, &d->dst)) {
    seg_begin(coap_address_equals(&d->src, &g_oaddr) ? 't' : w_srv, "ep:%c:%s", coap_address_equals(&d->src, &g_oaddr) ? 'o' : 'c',
              ep_kind(d->data, d->len, &d->src));
    sim_prng_fill = 0x40;
    sim_inject_endpoint(g_ep, &d->src, d->data, d->len);
    seg_close();
    return;
  }
  if (!g_cs_gone && g_cs && coap_address_equals(&g_cs->addr_info.local, &d->dst)) {
    seg_begin(w_cli, "dg");
    sim_prng_fill = 0x80;
    sim_inject_session(g_cs, d->data, d->len);
    seg_close();
    return;
  }
  /* nobody there any more: lost */
}
static int in_pre;            /* an earlier client (pre=) is running: loss-free, no injections, no scripted release */
static void before_fate(unsigned k) {
  if (in_pre) return;
  for (int i = 0; i < ninj; i++) if (!injs[i].done && injs[i].k <= k) { injs[i].done = 1; do_inject(injs[i].what); }
  if (icmp_at >= 0 && (unsigned)icmp_at <= k) { icmp_at = -1; do_icmp(); }
  if (rel_at >= 0 && (unsigned)rel_at <= k) { rel_at = -1; do_release(); }
}
static void flush_net(void) {
  while (npending) {
    const sim_dgram_t *d = pending[0];
    char f;
    memmove(pending, pending + 1, sizeof(pending[0]) * (size_t)(--npending));
    before_fate(handled);
    if (in_pre) f = 'd';
    else { f = handled < strlen(fate) ? fate[handled] : 'd'; handled++; }
    if (f == 'x') continue;
    deliver(d);
    if (f == '2') deliver(d);
  }
}

static void send_request(char kind);
/* the I/O loop: deliver what is pending, run both contexts' timers, advance the virtual clock to the next deadline */
static void run_loop(int idle, int until_srv_gone) {
  coap_tick_t limit = sim_now + 400000;
  int bumped = 0;
  for (int i = 0; i < 4000; i++) {
    unsigned wc = 0, ws, wait;
    flush_net();
    if (g_cli) { sim_prng_fill = 0x80; wc = coap_io_prepare_epoll(g_cli, sim_now); seg_close(); }
    sim_prng_fill = 0x40; ws = coap_io_prepare_epoll(g_srv, sim_now); seg_close();
    if (!in_pre && !g_burst_done && g_burst[0] && g_cs && !g_cs_gone && g_cs->state == COAP_SESSION_STATE_ESTABLISHED) {
      /* b=: the handshake has completed - the application submits a burst on the ESTABLISHED session */
      g_burst_done = 1;
      sim_prng_fill = 0x80;
      for (int j = 0; g_burst[j]; j++) send_request(g_burst[j]);
      continue;
    }
    if (npending) continue;
    if (until_srv_gone && !srv_session(&g_caddr)) break;
    wait = wc && (!ws || wc < ws) ? wc : ws;
    if (!wait && until_srv_gone && !bumped) { bumped = 1; sim_now += 301000; continue; }   /* no timer armed for it: past the idle timeout */
    if (!wait) break;
    if (wait > 100000 && !idle) break;
    if (sim_now > limit) break;
    sim_now += wait;
  }
}

/* the application sends request number nq+1 (token = its number, payload PAYLOAD<number>) */
static void send_request(char kind) {
  int i = nq;
  uint8_t tok[1] = {(uint8_t)(i + 1)};
  uint8_t obuf[4];
  int con = kind == 'C' || kind == 'O', obs = kind == 'O' || kind == 'M';
  coap_pdu_t *p;
  coap_mid_t mid;
  if (i >= 9 || !g_cs || g_cs_gone) return;
  mid = coap_new_message_id(g_cs);
  memcpy(q_payload[i], "PAYLOAD0", 9); q_payload[i][7] = (uint8_t)('1' + i);
  nq = i + 1;
  p = sim_make_pdu(g_cs, con ? COAP_MESSAGE_CON : COAP_MESSAGE_NON, COAP_REQUEST_CODE_GET, mid, tok, 1, NULL, 0);
  if (obs) coap_add_option(p, COAP_OPTION_OBSERVE, coap_encode_var_safe(obuf, sizeof(obuf), COAP_OBSERVE_ESTABLISH), obuf);
  coap_add_option(p, COAP_OPTION_URI_PATH, 1, (const uint8_t *)"r");
  coap_add_data(p, 8, q_payload[i]);
  seg_begin(w_cli, "send:%c%d:%02x", kind, (int)(uint16_t)mid, tok[0]);
  if (coap_send(g_cs, p) == COAP_INVALID_MID) OUT("sendfail");
  seg_close();
}

/* a client context with one DTLS client session (c_id / c_key / c_sni as set) and the requests `qs` queued at once */
static void start_client(const char *qs) {
  coap_dtls_cpsk_t cp;
  coap_address_t sa;
  sim_prng_fill = 0x80;
  g_cli = coap_new_context(NULL);
  coap_register_event_handler(g_cli, on_event);
  coap_register_nack_handler(g_cli, on_nack);
  coap_register_response_handler(g_cli, on_response);
  if (g_bm) coap_context_set_block_mode(g_cli, COAP_BLOCK_USE_LIBCOAP);
  memset(&cp, 0, sizeof(cp));
  cp.version = COAP_DTLS_CPSK_SETUP_VERSION;
  cp.psk_info.identity.s = c_id; cp.psk_info.identity.length = c_idl;
  cp.psk_info.key.s = c_key; cp.psk_info.key.length = c_keyl;
  if (ih_mode) cp.validate_ih_call_back = cb_ih;
  if (have_sni) cp.client_sni = c_sni;
  sim_addr(&sa, ntohs(g_ep->bind_addr.addr.sin.sin_port));
  coap_address_init(&g_caddr);
  g_cs = NULL; g_cs_gone = 0; nq = 0;
  seg_begin(w_cli, g_bm ? "newb" : "new");
  g_cs = coap_new_client_session_psk2(g_cli, NULL, &sa, COAP_PROTO_DTLS, &cp);
  if (g_cs) {
    coap_address_copy(&g_caddr, &g_cs->addr_info.local);
    sim_sess_id(g_cs);
    /* block mode numbers its own "state tokens" from session->tx_token (0 unless the application seeds it) and ALSO matches a
       response whose token VALUE equals such a number: keep libcoap's numbers away from the harness' one-byte tokens 01 02 03,
       as an application that picks its own tokens has to (observation in design/C19.md) */
    if (g_bm && g_tt) { static const uint8_t seed[4] = {0xd0, 0, 0, 0}; coap_session_init_token(g_cs, sizeof(seed), seed); }
  } else {
    g_cs_gone = 1;
    snprintf(s_head, sizeof(s_head), "%c:new:fail", w_cli);
  }
  seg_close();
  if (!g_cs) return;
  nq = 0;
  for (int i = 0; qs[i]; i++) send_request(qs[i]);
}
static void free_client(void) {
  seg_begin(w_cli, "free");
  coap_free_context(g_cli);
  g_cli = NULL; g_cs_gone = 1;
  seg_close();
}

typedef struct { char k[130], i[130], s[130]; } pre_t;

static void step(char *line) {
  char *w[40];
  int n = h_words(line, w, 40);
  char qs[8] = "";
  int idle = 0;
  pre_t pres[4]; int npre = 0;
  uint8_t m_id[64], m_key[64]; size_t m_idl, m_keyl; char m_sni[64]; int m_have_sni;
  if (n < 1 || strcmp(w[0], "dtls")) { printf("bad-op"); return; }
  /* defaults */
  memcpy(c_id, "id", 3); c_idl = 2; memcpy(c_key, "key", 4); c_keyl = 3; memcpy(s_key, "key", 4); s_keyl = 3;
  have_hint = 0; s_hintl = 0; have_keytab = 0; nkeytab = 0; have_snitab = 0; nsnitab = 0; ih_mode = 0; nih = 0; have_sni = 0;
  fate[0] = 0; ninj = 0; rel_at = -1; icmp_at = -1; icmp_n = 1; nq = 0; g_bm = 0; g_tt = 1; c_sni[0] = 0; g_burst[0] = 0; g_burst_done = 0;
  for (int i = 1; i < n; i++) {
    char *k = w[i], *v = strchr(w[i], '=');
    int ok = 1;
    if (!v) { printf("bad-op"); return; }
    *v++ = 0;
    if (!strcmp(k, "ci")) ok = unhex_into(v, c_id, sizeof(c_id), &c_idl);
    else if (!strcmp(k, "ck")) ok = unhex_into(v, c_key, sizeof(c_key), &c_keyl);
    else if (!strcmp(k, "sk")) ok = unhex_into(v, s_key, sizeof(s_key), &s_keyl);
    else if (!strcmp(k, "sh")) { have_hint = strcmp(v, "-") != 0; ok = unhex_into(v, s_hint, sizeof(s_hint), &s_hintl); }
    else if (!strcmp(k, "st")) { have_keytab = strcmp(v, "-") != 0; if (have_keytab) ok = parse_tab(v, keytab, &nkeytab, 2); }
    else if (!strcmp(k, "ss")) { have_snitab = strcmp(v, "-") != 0; if (have_snitab) ok = parse_tab(v, snitab, &nsnitab, 3); }
    else if (!strcmp(k, "ih")) {
      if (!strcmp(v, "-")) ih_mode = 0;
      else if (!strcmp(v, "*")) ih_mode = 1;
      else {
        ih_mode = 2;
        for (char *e = strtok(v, ","); e && ok; e = strtok(NULL, ",")) {
          if (nih >= 8) { ok = 0; break; }
          ok = unhex_into(e, (uint8_t *)ih_list[nih], sizeof(ih_list[0]), &ih_len[nih]); nih++;
        }
      }
    }
    else if (!strcmp(k, "sni")) { size_t l; have_sni = strcmp(v, "-") != 0; ok = unhex_into(v, (uint8_t *)c_sni, sizeof(c_sni), &l); }
    else if (!strcmp(k, "q")) { if (strlen(v) > 3 || strspn(v, "CNOM") != strlen(v)) ok = 0; else strcpy(qs, v); }
    else if (!strcmp(k, "b")) { if (strlen(v) > 6 || strspn(v, "CN") != strlen(v)) ok = 0; else strcpy(g_burst, v); }
    else if (!strcmp(k, "f")) { if (strlen(v) >= sizeof(fate) || strspn(v, "dx2") != strlen(v)) ok = 0; else strcpy(fate, v); }
    else if (!strcmp(k, "inj")) {
      if (strcmp(v, "-")) for (char *e = strtok(v, ","); e; e = strtok(NULL, ",")) {
        char *end; unsigned long kk = strtoul(e, &end, 10);
        if (end == e || !strchr("cor", *end) || !*end || end[1] || ninj >= 8) { ok = 0; break; }
        injs[ninj].k = (unsigned)kk; injs[ninj].what = *end; injs[ninj].done = 0; ninj++;
      }
    }
    else if (!strcmp(k, "rel")) { if (strcmp(v, "-")) { char *end; rel_at = strtol(v, &end, 10); if (*end || rel_at < 0) ok = 0; } }
    else if (!strcmp(k, "icmp")) {
      char *end; icmp_at = strtol(v, &end, 10);
      if (end == v || icmp_at < 0) ok = 0;
      else if (*end == 'x') { icmp_n = atoi(end + 1); if (icmp_n < 1 || icmp_n > 4) ok = 0; }
      else if (*end) ok = 0;
    }
    else if (!strcmp(k, "idle")) idle = atoi(v);
    else if (!strcmp(k, "bm")) { if (!strcmp(v, "1")) g_bm = 1; else if (!strcmp(v, "0")) g_bm = 0; else ok = 0; }
    else if (!strcmp(k, "tt")) g_tt = atoi(v);       /* tt=0: do NOT seed session->tx_token in block mode (replay of an observation only) */
    else if (!strcmp(k, "pre")) {
      if (strcmp(v, "-")) for (char *e = strtok(v, ","); e; e = strtok(NULL, ",")) {
        char *p1 = strchr(e, ':'), *p2 = p1 ? strchr(p1 + 1, ':') : NULL;
        if (!p1 || !p2 || npre >= 4) { ok = 0; break; }
        *p1++ = 0; *p2++ = 0;
        if (strlen(e) >= sizeof(pres[0].k) || strlen(p1) >= sizeof(pres[0].i) || strlen(p2) >= sizeof(pres[0].s)) { ok = 0; break; }
        strcpy(pres[npre].k, e); strcpy(pres[npre].i, p1); strcpy(pres[npre].s, p2); npre++;
      }
    }
    else ok = 0;
    if (!ok) { printf("bad-op"); return; }
  }
  /* the earlier clients' credentials must be well-formed before anything is set up */
  for (int k = 0; k < npre; k++) {
    uint8_t tmp[64]; size_t l;
    if ((strcmp(pres[k].k, "=") && !unhex_into(pres[k].k, tmp, sizeof(tmp), &l)) ||
        (strcmp(pres[k].i, "=") && !unhex_into(pres[k].i, tmp, sizeof(tmp), &l)) ||
        (strcmp(pres[k].s, "=") && strcmp(pres[k].s, "-") && !unhex_into(pres[k].s, tmp, sizeof(tmp), &l))) { printf("bad-op"); return; }
  }

  sim_reset();
  sim_log_enabled = 0;
  seg_len = 0; nsegs = 0; s_open = 0; if (seg_buf) seg_buf[0] = 0;
  npending = 0; handled = 0; w_n = w_clear = w_app = w_pre = 0; in_gnutls = 0;
  hs_verdict[0] = hs_verdict[1] = 'n';
  g_cs = NULL; g_cs_gone = 0; g_ep = NULL; g_cli = NULL;
  cred_buf[0] = 0; srv_sess_no = 0; cred_sess_no = 0;
  w_cli = 'c'; w_srv = 's'; in_pre = 0;
  sim_tx_hook = on_tx;
  sim_tx_logger = tx_logger;
  sim_addr(&g_oaddr, 1);     /* port 1: nobody; the address an outsider injects from */

  /* ---- server */
  sim_prng_fill = 0x40;
  g_srv = coap_new_context(NULL);
  sim_ctxs[sim_nctx++] = g_srv;
  coap_register_event_handler(g_srv, on_event);
  coap_register_nack_handler(g_srv, on_nack);
  {
    coap_dtls_spsk_t sp;
    coap_address_t a;
    coap_resource_t *r;
    memset(&sp, 0, sizeof(sp));
    sp.version = COAP_DTLS_SPSK_SETUP_VERSION;
    if (have_keytab) sp.validate_id_call_back = cb_id;
    if (have_snitab) sp.validate_sni_call_back = cb_sni;
    if (have_hint) { sp.psk_info.hint.s = s_hint; sp.psk_info.hint.length = s_hintl; }
    sp.psk_info.key.s = s_key; sp.psk_info.key.length = s_keyl;
    if (!coap_context_set_psk2(g_srv, &sp)) { printf("no-server-psk"); sim_free_all(0); return; }
    sim_addr(&a, 0);
    g_ep = coap_new_endpoint(g_srv, &a, COAP_PROTO_DTLS);
    if (!g_ep) { printf("no-endpoint"); sim_free_all(0); return; }
    sim_eps[sim_neps++] = g_ep;
    r = coap_resource_init(coap_make_str_const("r"), 0);
    coap_register_request_handler(r, COAP_REQUEST_GET, hnd_get);
    coap_add_resource(g_srv, r);
  }
  /* ---- earlier clients against the same server context (pre=) */
  memcpy(m_id, c_id, sizeof(m_id)); m_idl = c_idl; memcpy(m_key, c_key, sizeof(m_key)); m_keyl = c_keyl;
  memcpy(m_sni, c_sni, sizeof(m_sni)); m_have_sni = have_sni;
  for (int k = 0; k < npre; k++) {
    size_t l;
    if (strcmp(pres[k].k, "=")) unhex_into(pres[k].k, c_key, sizeof(c_key), &c_keyl);
    if (strcmp(pres[k].i, "=")) unhex_into(pres[k].i, c_id, sizeof(c_id), &c_idl);
    if (!strcmp(pres[k].s, "-")) have_sni = 0;
    else if (strcmp(pres[k].s, "=")) { have_sni = 1; unhex_into(pres[k].s, (uint8_t *)c_sni, sizeof(c_sni), &l); }
    w_cli = 'p'; w_srv = 'r'; in_pre = 1;
    start_client("C");
    if (g_cs) {
      run_loop(0, 0);
      do_release();
    }
    free_client();
    run_loop(1, 1);           /* … until the server has reclaimed the session it made for this client */
    seg_close();
    if (srv_session(&g_caddr)) {
      /* a session that never got past the ClientHello has no timer: coap_endpoint_get_session() reclaims it ("Incomplete session
         timed out") when the next datagram from an unknown peer arrives — a 4-byte stray from the outsider's address */
      static const uint8_t stray[4] = {0x16, 0xfe, 0xfd, 0};
      seg_begin('t', "ep:o:short");
      sim_prng_fill = 0x40;
      sim_inject_endpoint(g_ep, &g_oaddr, stray, sizeof(stray));
      seg_close();
    }
    memcpy(c_id, m_id, sizeof(c_id)); c_idl = m_idl; memcpy(c_key, m_key, sizeof(c_key)); c_keyl = m_keyl;
    memcpy(c_sni, m_sni, sizeof(c_sni)); have_sni = m_have_sni;
  }
  w_cli = 'c'; w_srv = 's'; in_pre = 0;
  hs_verdict[0] = hs_verdict[1] = 'n';
  /* ---- the client */
  start_client(qs);
  if (g_cs) {
    run_loop(idle, 0);
    before_fate(1u << 30);          /* injections / release that never got their turn: now, at quiescence */
    flush_net();
    do_release();
  }
  free_client();
  seg_begin('s', "free");
  g_ep = NULL;
  coap_free_context(g_srv);
  seg_close();
  sim_nctx = 0; sim_nsess = 0; sim_neps = 0;
  for (unsigned i = 0; i < sim_ntx; i++) free(sim_tx[i].data);
  sim_ntx = 0;
  fputs(seg_len ? seg_buf : "-", stdout);
  printf(" | wire n=%u clear=%u app=%u prealert=%u cleartext=%s | hs c=%s s=%s", w_n, w_clear, w_app, w_pre, w_clear ? "yes" : "no",
         hs_verdict[0] == 'o' ? "ok" : hs_verdict[0] == 'f' ? "fail" : "none",
         hs_verdict[1] == 'o' ? "ok" : hs_verdict[1] == 'f' ? "fail" : "none");
  printf(" | cred %s", cred_buf[0] ? cred_buf : "-");
}

int main(void) {
  char *line = NULL; size_t cap = 0;
  setvbuf(stdout, NULL, _IOLBF, 0);
  h_init();
  while (getline(&line, &cap, h_in) > 0) { step(line); fputc('\n', stdout); }
  free(line);
  return 0;
}
