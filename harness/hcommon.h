/* Shared helpers for the /verif harnesses: line protocol, hex, canonical printing. */
#ifndef HCOMMON_H
#define HCOMMON_H
#include <stdio.h>
#include <stdlib.h>
#include <string.h>
#include <stdint.h>
#include <ctype.h>

static int h_hexval(int c) {
  if (c >= '0' && c <= '9') return c - '0';
  if (c >= 'a' && c <= 'f') return c - 'a' + 10;
  if (c >= 'A' && c <= 'F') return c - 'A' + 10;
  return -1;
}

/* Decodes a hex word ("-" = empty) into an exact-size heap buffer (so ASan
 * sees a one-byte overread).  Returns NULL on bad hex.  *len gets the size.
 * A zero-length result is a 1-byte allocation handed out at its END-1... no:
 * malloc(0) may return NULL, so an empty string is malloc(1) and callers must
 * honour *len. */
static uint8_t *h_unhex(const char *s, size_t *len) {
  size_t n = strlen(s);
  if (n == 1 && s[0] == '-') { *len = 0; return (uint8_t *)malloc(1); }
  if (n % 2) return NULL;
  uint8_t *b = (uint8_t *)malloc(n / 2 ? n / 2 : 1);
  for (size_t i = 0; i < n / 2; i++) {
    int a = h_hexval(s[2 * i]), c = h_hexval(s[2 * i + 1]);
    if (a < 0 || c < 0) { free(b); return NULL; }
    b[i] = (uint8_t)(a * 16 + c);
  }
  *len = n / 2;
  return b;
}

static void h_puthex(FILE *f, const uint8_t *b, size_t n) {
  static const char hx[] = "0123456789abcdef";
  if (n == 0) { fputc('-', f); return; }
  for (size_t i = 0; i < n; i++) { fputc(hx[b[i] >> 4], f); fputc(hx[b[i] & 15], f); }
}

/* split a line in place into at most max words */
static int h_words(char *line, char **w, int max) {
  int n = 0;
  char *p = line;
  while (*p && n < max) {
    while (*p == ' ' || *p == '\t' || *p == '\n' || *p == '\r') p++;
    if (!*p) break;
    w[n++] = p;
    while (*p && *p != ' ' && *p != '\t' && *p != '\n' && *p != '\r') p++;
    if (*p) *p++ = 0;
  }
  return n;
}

#define H_MAIN_LOOP(step_fn)                                  \
  int main(int argc, char **argv) {                           \
    char *line = NULL; size_t cap = 0;                        \
    (void)argc; (void)argv;                                   \
    setvbuf(stdout, NULL, _IOLBF, 0);                         \
    h_init();                                                 \
    while (getline(&line, &cap, stdin) > 0) {                 \
      step_fn(line);                                          \
      fputc('\n', stdout);                                    \
    }                                                         \
    free(line);                                               \
    return 0;                                                 \
  }
#endif
