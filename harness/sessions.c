/* sessions.c — H-sim harness for C12 (sessions <-> peers, lifetime by reference, everything released).
 *
 *   sess <ev> <ev> ...        one line = one whole history on a fresh server context with two UDP endpoints
 *
 * events (P = peer number 0..49; peers P and P+25 share the remote address/port but talk to different endpoints,
 *         i.e. differ in the LOCAL port only; peers with equal P%5 share the remote IP, peers with equal (P%25)/5 the port)
 *   rP      NON GET /r from peer P                       (plain request, answered 2.05)
 *   oP.K    NON GET /oK with Observe:0, token [P,K]      (K = 0|1: observer entry holds a session reference)
 *   dP.K    NON GET /oK with Observe:1, token [P,K]      (deregister)
 *   aP      CON GET /a, token [P,2], the handler calls coap_register_async(delay 0)   (async entry holds a reference;
 *           a request with the token of a pending async entry is not passed to the handler, hence the separate token)
 *   fP      application: coap_free_async() of P's async entry
 *   qP      application: coap_session_send_ping() on P's session          (CON in the send queue holds a reference)
 *   kP      peer P answers the outstanding CON of its session with RST    (queue node removed)
 *   +P -P   application: coap_session_reference / coap_session_release on the session it last saw for P
 *   xP      application: coap_session_disconnected(session, COAP_NACK_NOT_DELIVERABLE)
 *   DK      application: coap_delete_resource(/oK)      (observers of /oK are notified 4.04 and removed)
 *   T<ms>   advance the virtual clock
 *   i       coap_io_prepare_epoll(ctx, now)              (retransmissions, idle reclamation)
 *   m<N>    coap_context_set_max_idle_sessions(N)     s<N>  coap_context_set_session_timeout(N seconds)
 *   F       coap_free_context()   (anything after it is ignored; an implicit F ends every line)
 *
 * output: per event  "<ev> <outcome> E<events> R<idx=ref@last_rx_tx,...> I<idle ep0>/<idle ep1> L<sessions>/<subscriptions>/<nodes>"
 * joined by " ; ", where session idx = order of the SERVER_SESSION_NEW events, events = N<idx> / D<idx> in order,
 * (D<idx>!ref = the session's reference count was not 0 when its DEL event was raised, D<idx>!appref = the application
 * still holds a reference it took), outcome = h<idx> (request/nack handler ran on that session) | ok | skip, L = live allocations by memory tag from the
 * wrapped allocator; then " | A <allocation trace>" : a<serial>:<tag> / f<serial> (f0 = free of a pointer that was never
 * allocated inside the trace) and " | lsan=<0|1>" (recoverable leak check).  harness/sessions_pipe.py replaces the trace
 * by the verdict of the Lean-verified monitor Coap.Sessions.ledgerOk (driver op `ledger`).
 *
 * link: SIM_WRAPS + --wrap=coap_malloc_type,--wrap=coap_realloc_type,--wrap=coap_free_type
 */
#include "sim_core.h"
#include <sanitizer/lsan_interface.h>

/* ------------------------------------------------------------------ allocation trace */
void *__real_coap_malloc_type(coap_memory_tag_t type, size_t size);
void *__real_coap_realloc_type(coap_memory_tag_t type, void *p, size_t size);
void __real_coap_free_type(coap_memory_tag_t type, void *p);

static int tr_on;
#define TR_HASH (1u << 17)
static struct { uintptr_t p; unsigned serial; int freed; int type; } tr_tab[TR_HASH];   /* latest serial of a pointer (stored complemented: LSan must not see it) */
static unsigned tr_serial;
static char *tr_buf;
static size_t tr_len, tr_cap;
static int tr_live[COAP_MEM_TAG_LAST + 1];
static int tr_overflow;

static void tr_put(const char *s) {
  size_t n = strlen(s);
  if (tr_len + n + 2 > tr_cap) { tr_cap = (tr_cap + n + 2) * 2; tr_buf = (char *)realloc(tr_buf, tr_cap); }
  if (tr_len) tr_buf[tr_len++] = ' ';
  memcpy(tr_buf + tr_len, s, n + 1);
  tr_len += n;
}
static unsigned tr_slot(void *pp) {
  uintptr_t p = ~(uintptr_t)pp;
  unsigned h = (unsigned)(((uintptr_t)pp >> 4) * 2654435761u) & (TR_HASH - 1);
  unsigned n = 0;
  while (tr_tab[h].p && tr_tab[h].p != p) { h = (h + 1) & (TR_HASH - 1); if (++n >= TR_HASH) { tr_overflow = 1; break; } }
  return h;
}
static void tr_alloc(int type, void *p) {
  char t[40];
  unsigned h;
  if (!tr_on || !p) return;
  h = tr_slot(p);
  tr_tab[h].p = ~(uintptr_t)p; tr_tab[h].serial = ++tr_serial; tr_tab[h].freed = 0; tr_tab[h].type = type;
  if (type >= 0 && type < COAP_MEM_TAG_LAST) tr_live[type]++;
  snprintf(t, sizeof(t), "a%u:%d", tr_serial, type);
  tr_put(t);
}
static void tr_free(int type, void *p) {
  char t[40];
  unsigned h;
  (void)type;
  if (!tr_on || !p) return;
  h = tr_slot(p);
  if (tr_tab[h].p != ~(uintptr_t)p) { tr_put("f0"); return; }         /* never allocated inside the trace */
  if (!tr_tab[h].freed && tr_tab[h].type >= 0 && tr_tab[h].type < COAP_MEM_TAG_LAST) tr_live[tr_tab[h].type]--;
  tr_tab[h].freed = 1;                                      /* a second free prints the same serial again */
  snprintf(t, sizeof(t), "f%u", tr_tab[h].serial);
  tr_put(t);
}
void *__wrap_coap_malloc_type(coap_memory_tag_t type, size_t size) {
  void *p = __real_coap_malloc_type(type, size);
  tr_alloc((int)type, p);
  return p;
}
void *__wrap_coap_realloc_type(coap_memory_tag_t type, void *p, size_t size) {
  void *q;
  if (p) tr_free((int)type, p);         /* recorded before the call: afterwards p may already be somebody else's */
  q = __real_coap_realloc_type(type, p, size);
  if (q) tr_alloc((int)type, q);
  else if (p) tr_alloc((int)type, p);   /* failed realloc leaves p allocated */
  return q;
}
void __wrap_coap_free_type(coap_memory_tag_t type, void *p) {
  tr_free((int)type, p);
  __real_coap_free_type(type, p);
}
static void tr_reset(void) {
  memset(tr_tab, 0, sizeof(tr_tab));
  memset(tr_live, 0, sizeof(tr_live));
  tr_serial = 0; tr_len = 0; tr_overflow = 0;
  if (tr_buf) tr_buf[0] = 0;
}

/* ------------------------------------------------------------------ scenario state */
#define NPEER 50
#define MAXREG 8192
static coap_context_t *g_ctx;
static coap_endpoint_t *g_ep[2];
static coap_resource_t *g_obs[2];
static struct { coap_session_t *s; int live; int appref; } reg[MAXREG];
static int nreg;
static int peer_sess[NPEER];      /* registry index of the session the application last saw for the peer, -1 none */
static int handled;               /* registry index passed to the last request / nack handler, -2 none */
static unsigned peer_mid[NPEER];

static char evbuf[4096];
static size_t evlen;
static void ev_put(const char *fmt, ...) {
  va_list ap;
  int n;
  va_start(ap, fmt);
  n = vsnprintf(evbuf + evlen, sizeof(evbuf) - evlen, fmt, ap);
  va_end(ap);
  if (n > 0 && evlen + (size_t)n < sizeof(evbuf)) evlen += (size_t)n;
}

static int reg_idx(const coap_session_t *s) {
  for (int i = nreg - 1; i >= 0; i--) if (reg[i].live && reg[i].s == s) return i;
  return -1;
}

static int on_event(coap_session_t *session, const coap_event_t event) {
  if (event == COAP_EVENT_SERVER_SESSION_NEW) {
    if (nreg < MAXREG) { reg[nreg].s = session; reg[nreg].live = 1; reg[nreg].appref = 0; ev_put("%sN%d", evlen ? "," : "", nreg); nreg++; }
  } else if (event == COAP_EVENT_SERVER_SESSION_DEL) {
    int i = reg_idx(session);
    if (i < 0) ev_put("%sD?", evlen ? "," : "");
    else {
      ev_put("%sD%d%s%s", evlen ? "," : "", i, session->ref ? "!ref" : "", reg[i].appref ? "!appref" : "");
      reg[i].live = 0;
      for (int p = 0; p < NPEER; p++) if (peer_sess[p] == i) peer_sess[p] = -1;
    }
  }
  return 0;
}
static void on_nack(coap_session_t *session, const coap_pdu_t *sent, const coap_nack_reason_t reason, const coap_mid_t mid) {
  (void)sent; (void)mid;
  if (reason == COAP_NACK_RST) handled = reg_idx(session);
}

static int peer_of_token(const coap_pdu_t *req) {
  coap_bin_const_t tok = coap_pdu_get_token(req);
  return tok.length >= 1 && tok.s[0] < NPEER ? tok.s[0] : -1;
}
static void saw(coap_session_t *s, const coap_pdu_t *req) {
  int p = peer_of_token(req);
  handled = reg_idx(s);
  if (p >= 0) peer_sess[p] = handled;
}
static void hnd_get(coap_resource_t *r, coap_session_t *s, const coap_pdu_t *req, const coap_string_t *q, coap_pdu_t *rsp) {
  (void)r; (void)q;
  saw(s, req);
  coap_pdu_set_code(rsp, COAP_RESPONSE_CODE_CONTENT);
  coap_add_data(rsp, 2, (const uint8_t *)"hi");
}
static void hnd_async(coap_resource_t *r, coap_session_t *s, const coap_pdu_t *req, const coap_string_t *q, coap_pdu_t *rsp) {
  (void)r; (void)q;
  saw(s, req);
  if (!coap_register_async(s, req, 0))
    coap_pdu_set_code(rsp, COAP_RESPONSE_CODE_SERVICE_UNAVAILABLE);
  /* else: no code => libcoap sends the empty ACK, the response would come later */
}

static void peer_addr(int p, coap_address_t *a) {
  int r = p % 25;
  coap_address_init(a);
  a->addr.sin.sin_family = AF_INET;
  a->addr.sin.sin_addr.s_addr = htonl(0x7f000100u + 1u + (unsigned)(r % 5));
  a->addr.sin.sin_port = htons((uint16_t)(6000 + r / 5));
  a->size = sizeof(struct sockaddr_in);
}
static coap_endpoint_t *peer_ep(int p) { return g_ep[p / 25]; }

/* a raw UDP CoAP request: type, GET, token, [Observe], Uri-Path <1 or 2 chars> */
static void inject_req(int p, int type, const uint8_t *tok, size_t tkl, int observe, const char *path) {
  uint8_t b[32];
  size_t n = 0, pl = strlen(path);
  coap_address_t src;
  unsigned mid = 0x4000u + (++peer_mid[p] & 0x3fffu);   /* never the mid of a CON the server has outstanding (those count up from 1) */
  b[n++] = (uint8_t)(0x40 | (type << 4) | (int)tkl);
  b[n++] = 1;
  b[n++] = (uint8_t)(mid >> 8); b[n++] = (uint8_t)mid;
  memcpy(b + n, tok, tkl); n += tkl;
  if (observe == 0) { b[n++] = 0x60; b[n++] = (uint8_t)(0x50 | pl); }
  else if (observe == 1) { b[n++] = 0x61; b[n++] = 1; b[n++] = (uint8_t)(0x50 | pl); }
  else b[n++] = (uint8_t)(0xB0 | pl);
  memcpy(b + n, path, pl); n += pl;
  peer_addr(p, &src);
  sim_inject_endpoint(peer_ep(p), &src, b, n);
}

static int cmp_int3(const void *a, const void *b) {
  const long long *x = (const long long *)a, *y = (const long long *)b;
  return x[0] < y[0] ? -1 : x[0] > y[0];
}
static void dump_state(const char *ev, const char *outcome) {
  static long long rows[MAXREG][3];
  int n = 0, idle[2] = {0, 0};
  printf("%s %s E%s", ev, outcome, evlen ? evbuf : "-");
  evlen = 0; evbuf[0] = 0;
  if (g_ctx) {
    for (int e = 0; e < 2; e++) {
      coap_session_t *s, *tmp;
      SESSIONS_ITER(g_ep[e]->sessions, s, tmp) {
        rows[n][0] = reg_idx(s); rows[n][1] = s->ref; rows[n][2] = (long long)s->last_rx_tx; n++;
        if (s->type == COAP_SESSION_TYPE_SERVER && s->ref == 0 && s->delayqueue == NULL) idle[e]++;
      }
    }
    qsort(rows, (size_t)n, sizeof(rows[0]), cmp_int3);
    printf(" R");
    if (!n) printf("-");
    for (int i = 0; i < n; i++) printf("%s%lld=%lld@%lld", i ? "," : "", rows[i][0], rows[i][1], rows[i][2]);
    printf(" I%d/%d", idle[0], idle[1]);
  } else
    printf(" R- I0/0");
  printf(" L%d/%d/%d", tr_live[COAP_SESSION], tr_live[COAP_SUBSCRIPTION], tr_live[COAP_NODE]);
}

static void h_init(void) {
  static char obuf[1 << 22];
  sim_global_init();
  /* lines are long: full buffering + a flush at the start of the next step, so that a crash never leaves a partial line */
  setvbuf(stdout, obuf, _IOFBF, sizeof(obuf));
}

static coap_queue_t *first_node_of(coap_session_t *s) {
  for (coap_queue_t *q = g_ctx->sendqueue; q; q = q->next) if (q->session == s) return q;
  return NULL;
}

static void setup(void) {
  sim_reset();
  sim_log_enabled = 0;
  sim_prng_fill = 0;
  nreg = 0; evlen = 0; evbuf[0] = 0; handled = -2;
  for (int p = 0; p < NPEER; p++) { peer_sess[p] = -1; peer_mid[p] = 0; }
  tr_reset();
  tr_on = 1;
  g_ctx = coap_new_context(NULL);
  coap_register_event_handler(g_ctx, on_event);
  coap_register_nack_handler(g_ctx, on_nack);
  if (sim_nctx < SIM_MAX_CTX) sim_ctxs[sim_nctx++] = g_ctx;
  g_ep[0] = sim_new_endpoint(g_ctx, 0);
  g_ep[1] = sim_new_endpoint(g_ctx, 0);
  {
    coap_resource_t *r = coap_resource_init(coap_make_str_const("r"), 0);
    coap_register_request_handler(r, COAP_REQUEST_GET, hnd_get);
    coap_add_resource(g_ctx, r);
    r = coap_resource_init(coap_make_str_const("a"), 0);
    coap_register_request_handler(r, COAP_REQUEST_GET, hnd_async);
    coap_add_resource(g_ctx, r);
    for (int k = 0; k < 2; k++) {
      r = coap_resource_init(k ? coap_make_str_const("o1") : coap_make_str_const("o0"), 0);
      coap_register_request_handler(r, COAP_REQUEST_GET, hnd_get);
      coap_resource_set_get_observable(r, 1);
      coap_add_resource(g_ctx, r);
      g_obs[k] = r;
    }
  }
}

static void teardown(void) {
  if (g_ctx) { coap_free_context(g_ctx); g_ctx = NULL; }
  sim_nctx = 0; sim_neps = 0; sim_nsess = 0;
}

/* parse "<c><P>" or "<c><P>.<K>" */
static int parse_pk(const char *s, int *p, int *k) {
  char *end;
  long v = strtol(s, &end, 10);
  if (end == s || v < 0 || v >= NPEER) return 0;
  *p = (int)v; *k = 0;
  if (*end == '.') { long kk = strtol(end + 1, &end, 10); if (kk < 0 || kk > 1) return 0; *k = (int)kk; }
  return *end == 0;
}

static void step(char *line) {
  static char *w[4096];
  int n = h_words(line, w, 4096);
  int first = 1, bad = 0;
  fflush(stdout);
  if (n < 1 || strcmp(w[0], "sess")) { printf("bad-op"); return; }
  /* validate before running anything */
  for (int i = 1; i < n; i++) {
    const char *e = w[i];
    int p, k;
    char c = e[0];
    if (strchr("roadfqk+-x", c) && c) { if (!parse_pk(e + 1, &p, &k)) bad = 1; }
    else if (c == 'D') { if (strcmp(e, "D0") && strcmp(e, "D1")) bad = 1; }
    else if (c == 'T' || c == 'm' || c == 's') { char *end; if (!e[1]) bad = 1; strtoul(e + 1, &end, 10); if (*end) bad = 1; }
    else if (c == 'i' || c == 'F') { if (e[1]) bad = 1; }
    else bad = 1;
  }
  if (bad) { printf("bad-op"); return; }
  setup();
  for (int i = 1; i <= n; i++) {
    const char *e = i < n ? w[i] : "F";        /* implicit teardown */
    char c = e[0];
    int p = 0, k = 0;
    char outcome[32] = "ok";
    if (!g_ctx) break;
    if (i == n) e = "F.";
    handled = -2;
    unsigned ntx0 = sim_ntx;
    if (strchr("roadfqk+-x", c)) parse_pk(e + 1, &p, &k);
    switch (c) {
    case 'r': { uint8_t t[1] = {(uint8_t)p}; inject_req(p, 1, t, 1, -1, "r"); break; }
    case 'o': { uint8_t t[2] = {(uint8_t)p, (uint8_t)k}; if (!g_obs[k]) { strcpy(outcome, "skip"); break; } inject_req(p, 1, t, 2, 0, k ? "o1" : "o0"); break; }
    case 'd': { uint8_t t[2] = {(uint8_t)p, (uint8_t)k}; if (!g_obs[k]) { strcpy(outcome, "skip"); break; } inject_req(p, 1, t, 2, 1, k ? "o1" : "o0"); break; }
    case 'a': { uint8_t t[2] = {(uint8_t)p, 2}; inject_req(p, 0, t, 2, -1, "a"); break; }
    case 'f': {
      int si = peer_sess[p];
      uint8_t t[2] = {(uint8_t)p, 2};
      coap_bin_const_t tok = {2, t};
      coap_async_t *as = si >= 0 ? coap_find_async(reg[si].s, tok) : NULL;
      if (!as) { strcpy(outcome, "skip"); break; }
      coap_free_async(reg[si].s, as);
      break;
    }
    case 'q': {
      int si = peer_sess[p];
      if (si < 0 || coap_session_send_ping(reg[si].s) == COAP_INVALID_MID) strcpy(outcome, "skip");
      break;
    }
    case 'k': {
      int si = peer_sess[p];
      coap_queue_t *q = si >= 0 ? first_node_of(reg[si].s) : NULL;
      uint8_t b[4];
      coap_address_t src;
      if (!q) { strcpy(outcome, "skip"); break; }
      b[0] = 0x70; b[1] = 0; b[2] = (uint8_t)(q->id >> 8); b[3] = (uint8_t)q->id;
      peer_addr(p, &src);
      sim_inject_endpoint(peer_ep(p), &src, b, 4);
      break;
    }
    case '+': {
      int si = peer_sess[p];
      if (si < 0) { strcpy(outcome, "skip"); break; }
      coap_session_reference(reg[si].s); reg[si].appref++;
      break;
    }
    case '-': {
      int si = peer_sess[p];
      if (si < 0 || reg[si].appref == 0) { strcpy(outcome, "skip"); break; }
      reg[si].appref--; coap_session_release(reg[si].s);
      break;
    }
    case 'x': {
      int si = peer_sess[p];
      if (si < 0) { strcpy(outcome, "skip"); break; }
      coap_session_disconnected(reg[si].s, COAP_NACK_NOT_DELIVERABLE);
      break;
    }
    case 'D': {
      k = e[1] - '0';
      if (!g_obs[k]) { strcpy(outcome, "skip"); break; }
      coap_delete_resource(g_ctx, g_obs[k]); g_obs[k] = NULL;
      break;
    }
    case 'T': sim_now += strtoul(e + 1, NULL, 10); break;
    case 'i': coap_io_prepare_epoll(g_ctx, sim_now); break;
    case 'm': coap_context_set_max_idle_sessions(g_ctx, (unsigned)strtoul(e + 1, NULL, 10)); break;
    case 's': coap_context_set_session_timeout(g_ctx, (unsigned)strtoul(e + 1, NULL, 10)); break;
    case 'F': teardown(); break;
    }
    /* a datagram the library answered itself (e.g. the ACK repeated for a request whose async entry is pending):
     * the session it was handled on is the one the answer was sent on */
    if (handled == -2 && strchr("roda", c) && sim_ntx > ntx0 && strcmp(outcome, "skip")) handled = reg_idx(sim_tx[ntx0].session);
    if (handled != -2) { if (handled >= 0) snprintf(outcome, sizeof(outcome), "h%d", handled); else strcpy(outcome, "h?"); }
    if (!first) printf(" ; ");
    first = 0;
    dump_state(i < n ? w[i] : "F.", outcome);
  }
  teardown();
  tr_on = 0;
  for (unsigned i = 0; i < sim_ntx; i++) free(sim_tx[i].data);
  memset(sim_tx, 0, sizeof(sim_tx[0]) * sim_ntx);      /* nothing of ours may keep a leaked object reachable for LSan */
  sim_ntx = 0;
  memset(sim_sess, 0, sizeof(sim_sess));
  printf(" | A %s%s", tr_len ? tr_buf : "-", tr_overflow ? " overflow" : "");
  memset(reg, 0, sizeof(reg)); nreg = 0;       /* the registry must not keep a leaked session reachable */
  {
    int leak = getenv("H_NO_LSAN") ? 0 : __lsan_do_recoverable_leak_check();
    printf(" | lsan=%d", leak);
    /* a leak reported once would be reported again after every later line, and one LSan missed on its own line (a stale
     * pointer in a register / dead stack slot) would be blamed on a later line: hand everything the LEDGER knows to be
     * leaked over to LSan's ignore list (objects reachable from it are then reachable too).  LSan's verdict is therefore
     * about leaks the ledger cannot see, plus a second opinion on the line's own. */
    for (unsigned h = 0; h < TR_HASH; h++)
        if (tr_tab[h].p && !tr_tab[h].freed) __lsan_ignore_object((void *)~tr_tab[h].p);
  }
}

H_MAIN_LOOP(step)
