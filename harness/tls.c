/* tls.c — harness for C19 over TLS/TCP ((D)TLS: application data only after an authenticated handshake).
 *
 *   tls <key=value>...       one line = one whole scenario: a server context with a TLS endpoint on 127.0.0.1 (ephemeral port,
 *                            PSK key table) and a client context with one TLS client session, the REAL GnuTLS on both sides and
 *                            REAL loopback TCP sockets, in one process.  libcoap's epoll external-loop API is driven by the
 *                            harness: ONE epoll event at a time, client and server alternating, until nothing is ready any
 *                            more and no byte written is still unacknowledged by the peer's TCP (bounded number of rounds,
 *                            wall-clock watchdog).  Deterministic in what is OBSERVED per entry
 *                            point, not in timing: the entry points and the TLS library's answers are whatever happened, and
 *                            are replayed into M.
 *
 * configuration words: ci ck st sk sh ih sni ss q  — exactly as in dtls.c — and
 *   conn=now|prog               now : connect() completes inside coap_new_client_session_psk2() ("Initial connect worked
 *                                     immediately": the wrapped connect() does the 3-way handshake synchronously, as the
 *                                     kernel does for AF_UNIX and may do for loopback); the session is in HANDSHAKE state when
 *                                     the application queues its requests -> they wait in the delay queue.  (default)
 *                               prog: connect() answers EINPROGRESS; the session is CONNECTING with doing_first set, the first
 *                                     coap_send() waits in coap_client_delay_first() (its coap_io_process_lkd() is wrapped: the
 *                                     harness' loop runs both contexts there; when nothing moves any more the wrapper reports
 *                                     6 s as elapsed so that libcoap's 5 s wait ends at once)
 *   acc=early|late              early: the server accepts the TCP connection right after the client session was created
 *                               (before the client's ClientHello can be there in prog mode); late: when its turn comes (default)
 *   wait=both|client            who runs while the first coap_send() waits (prog mode): both contexts (default) or the client
 *                               only (a slow server: the 5 s pass, the requests are queued in CONNECTING / HANDSHAKE state)
 *   rel=now                     the application releases the session right after queueing (default: at quiescence)
 *   bm=0|1                      1: the client context uses COAP_BLOCK_USE_LIBCOAP: on a reliable transport EVERY request gets an
 *                               lg_crcv entry in coap_send() (event tnewb, state …,lg=<tokens, first entry first>)
 *   q letters                   C N as in dtls.c, O / M = the same with an Observe (register) option
 *
 * output: segments joined by " ; ":  <who>:<event>/<oracle answers>><outputs>|<state>
 *   who     c = client session, s = server endpoint / the accepted server session
 *   event   tnew:now|prog|fail  tsend[w]:<K><mid>:<tok> (w = the call waited in coap_client_delay_first)  io:<[crw]+> (coap_io_do_epoll for ONE event: connect / read / write)
 *           acc (accept at the endpoint)  tick (timer fd)  rel  del  free
 *   oracle  env= hs= rec= snd=      (rec=data:<view> is the decoded CoAP-over-TCP message the record carried)
 *   outputs tx:C.<code>.0.<tok> (PDU handed to coap_tls_write) req:<tok>:<payload> rsp:<tok>:<code> nack:<reason>:<tok|->
 *           ev:<name> bye alert sendfail
 *   state   st=<state>,tls=<0|1>,dq=<delay queue>,ca=<con_active>,if=<send queue nodes>,df=<doing_first>  or  gone
 * then " | wire n=<TCP writes> clear=<bytes outside a TLS record / written outside GnuTLS / queued payload> app=<ct23 records>
 *        prealert=0 cleartext=<yes|no> final=<client session state before the release> wd=<0|1 watchdog>"
 * and  " | hs c=<ok|fail|none> s=<ok|fail|none>"
 */
#include "coap3/coap_libcoap_build.h"
#include "hcommon.h"
#include <gnutls/gnutls.h>
#include <sys/epoll.h>
#include <sys/socket.h>
#include <sys/ioctl.h>
#include <linux/sockios.h>
#include <arpa/inet.h>
#include <netinet/tcp.h>
#include <fcntl.h>
#include <signal.h>
#include <stdarg.h>
#include <errno.h>
#include <time.h>
#include <unistd.h>

/* ------------------------------------------------------------------ segments */
static char *seg_buf; static size_t seg_len, seg_cap;
static void out_raw(const char *s, size_t n) {
  if (seg_len + n + 1 > seg_cap) { seg_cap = (seg_cap + n + 1) * 2; seg_buf = (char *)realloc(seg_buf, seg_cap); }
  memcpy(seg_buf + seg_len, s, n); seg_len += n; seg_buf[seg_len] = 0;
}
static char s_head[128], s_orc[2048], s_out[4096];
static int s_open; static char s_who;
static coap_session_t *g_cs; static int g_cs_gone;
static coap_endpoint_t *g_ep; static coap_context_t *g_srv, *g_cli;
static int nsegs;

static void appendf(char *dst, size_t cap, const char *fmt, ...) {
  va_list ap; size_t l = strlen(dst);
  if (l + 2 >= cap) return;
  if (l) dst[l++] = ',';
  va_start(ap, fmt); vsnprintf(dst + l, cap - l, fmt, ap); va_end(ap);
}
static coap_session_t *srv_session(void) {
  coap_session_t *s, *tmp;
  if (!g_ep) return NULL;
  SESSIONS_ITER(g_ep->sessions, s, tmp) return s;
  return NULL;
}
static coap_session_t *who_session(char who) {
  if (who == 'c') return g_cs_gone ? NULL : g_cs;
  return srv_session();
}
static char session_who(const coap_session_t *s) {
  return (s == g_cs || (s && s->type == COAP_SESSION_TYPE_CLIENT)) ? 'c' : 's';
}
static unsigned inflight_of(coap_session_t *s) {
  unsigned n = 0;
  for (coap_queue_t *q = s->context->sendqueue; q; q = q->next) if (q->session == s) n++;
  return n;
}
static unsigned delayq_len(const coap_session_t *s) {
  unsigned n = 0;
  for (coap_queue_t *q = s->delayqueue; q; q = q->next) n++;
  return n;
}
static void seg_close(void) {
  char st[200];
  coap_session_t *s;
  if (!s_open) return;
  s = who_session(s_who);
  if (s) {
    snprintf(st, sizeof(st), "st=%d,tls=%d,dq=%u,ca=%u,if=%u,df=%d", (int)s->state, s->tls ? 1 : 0, delayq_len(s), s->con_active,
             inflight_of(s), s->doing_first ? 1 : 0);
    if (s->type == COAP_SESSION_TYPE_CLIENT && (s->block_mode & COAP_BLOCK_USE_LIBCOAP)) {
      size_t l = strlen(st);
      l += (size_t)snprintf(st + l, sizeof(st) - l, ",lg=");
      if (!s->lg_crcv) snprintf(st + l, sizeof(st) - l, "-");
      for (const coap_lg_crcv_t *g = s->lg_crcv; g && l + 20 < sizeof(st); g = g->next) {
        static const char hx[] = "0123456789abcdef";
        if (g != s->lg_crcv) st[l++] = '.';
        for (size_t i = 0; g->app_token && i < g->app_token->length && i < 8; i++) { st[l++] = hx[g->app_token->s[i] >> 4]; st[l++] = hx[g->app_token->s[i] & 15]; }
        st[l] = 0;
      }
    }
  } else strcpy(st, "gone");
  if (nsegs++) out_raw(" ; ", 3);
  out_raw(s_head, strlen(s_head));
  out_raw("/", 1); out_raw(s_orc[0] ? s_orc : "-", s_orc[0] ? strlen(s_orc) : 1);
  out_raw(">", 1); out_raw(s_out[0] ? s_out : "-", s_out[0] ? strlen(s_out) : 1);
  out_raw("|", 1); out_raw(st, strlen(st));
  s_open = 0;
}
static void seg_begin(char who, const char *fmt, ...) {
  va_list ap; char tmp[100];
  seg_close();
  va_start(ap, fmt); vsnprintf(tmp, sizeof(tmp), fmt, ap); va_end(ap);
  snprintf(s_head, sizeof(s_head), "%c:%s", who, tmp);
  s_orc[0] = 0; s_out[0] = 0; s_open = 1; s_who = who;
}
#define ORC(s, ...) do { if (s_open && session_who(s) != s_who) appendf(s_orc, sizeof(s_orc), "!foreign"); appendf(s_orc, sizeof(s_orc), __VA_ARGS__); } while (0)
#define OUT(...) appendf(s_out, sizeof(s_out), __VA_ARGS__)

static void hex_tok(char *out, const uint8_t *t, size_t n) {
  static const char hx[] = "0123456789abcdef";
  if (!n) { strcpy(out, "-"); return; }
  for (size_t i = 0; i < n; i++) { out[2 * i] = hx[t[i] >> 4]; out[2 * i + 1] = hx[t[i] & 15]; }
  out[2 * n] = 0;
}

/* canonical view of ONE CoAP-over-TCP message (RFC 8323 §3.2) filling the buffer exactly: C.code.0.tok[.payload] */
static void strm_view(char *o, size_t cap, const uint8_t *b, size_t n, int with_payload) {
  size_t lenn, tkl, ext = 0, len, hdr, i;
  char tk[20], pl[40];
  if (n < 2) { snprintf(o, cap, "junk%zu", n); return; }
  lenn = b[0] >> 4; tkl = b[0] & 15;
  if (tkl > 8) { snprintf(o, cap, "junk%zu", n); return; }
  if (lenn < 13) len = lenn;
  else if (lenn == 13) { ext = 1; if (n < 2) goto junk; len = (size_t)b[1] + 13; }
  else if (lenn == 14) { ext = 2; if (n < 3) goto junk; len = (((size_t)b[1] << 8) | b[2]) + 269; }
  else goto junk;
  hdr = 1 + ext + 1;
  if (hdr + tkl + len != n) goto junk;        /* not exactly one whole message */
  hex_tok(tk, b + hdr, tkl);
  pl[0] = 0;
  for (i = hdr + tkl; with_payload && i < n;) {          /* walk the options to the payload marker */
    size_t dl, ll;
    if (b[i] == 0xFF) { hex_tok(pl, b + i + 1, n - i - 1 > 16 ? 16 : n - i - 1); break; }
    dl = b[i] >> 4; ll = b[i] & 15; i++;
    if (dl == 13) i += 1; else if (dl == 14) i += 2;
    if (ll == 13) { if (i >= n) break; ll = (size_t)b[i] + 13; i += 1; }
    else if (ll == 14) { if (i + 1 >= n) break; ll = (((size_t)b[i] << 8) | b[i + 1]) + 269; i += 2; }
    i += ll;
  }
  if (pl[0]) snprintf(o, cap, "C.%d.0.%s.%s", b[1 + ext], tk, pl);
  else snprintf(o, cap, "C.%d.0.%s", b[1 + ext], tk);
  return;
junk:
  snprintf(o, cap, "junk%zu", n);
}

/* ------------------------------------------------------------------ the oracle interface: wrapped GnuTLS calls */
static int in_gnutls;
static char hs_verdict[2] = {'n', 'n'};
int __real_gnutls_handshake(gnutls_session_t g);
ssize_t __real_gnutls_record_recv(gnutls_session_t g, void *data, size_t len);
ssize_t __real_gnutls_record_send(gnutls_session_t g, const void *data, size_t len);
int __real_gnutls_bye(gnutls_session_t g, gnutls_close_request_t how);
int __real_gnutls_alert_send(gnutls_session_t g, gnutls_alert_level_t level, gnutls_alert_description_t desc);
int __real_gnutls_init(gnutls_session_t *g, unsigned int flags);

static const char *hs_class(int r) {
  switch (r) {
  case GNUTLS_E_SUCCESS: return "ok";
  case GNUTLS_E_INTERRUPTED: case GNUTLS_E_AGAIN: return "again";
  case GNUTLS_E_INSUFFICIENT_CREDENTIALS: return "insuff";
  case GNUTLS_E_FATAL_ALERT_RECEIVED: return "fatalrx";
  case GNUTLS_E_UNEXPECTED_HANDSHAKE_PACKET: case GNUTLS_E_UNEXPECTED_PACKET: return "unexp";
  case GNUTLS_E_WARNING_ALERT_RECEIVED: return "warn";
  case GNUTLS_E_NO_CERTIFICATE_FOUND: case GNUTLS_E_CERTIFICATE_REQUIRED: return "nocert";
  case GNUTLS_E_DECRYPTION_FAILED: return "decrypt";
  case GNUTLS_E_CERTIFICATE_ERROR: return "certerr";
  case GNUTLS_E_UNKNOWN_CIPHER_SUITE: case GNUTLS_E_NO_CIPHER_SUITES: case GNUTLS_E_INVALID_SESSION: return "cipher";
  case GNUTLS_E_SESSION_EOF: case GNUTLS_E_PREMATURE_TERMINATION: case GNUTLS_E_TIMEDOUT: case GNUTLS_E_PULL_ERROR:
  case GNUTLS_E_PUSH_ERROR: return "eof";
  default: return "other";
  }
}
int __wrap_gnutls_handshake(gnutls_session_t g) {
  coap_session_t *s = (coap_session_t *)gnutls_transport_get_ptr(g);
  int r;
  in_gnutls++; r = __real_gnutls_handshake(g); in_gnutls--;
  ORC(s, "hs=%s", hs_class(r));
  if (getenv("H_HSRC") && r && r != GNUTLS_E_AGAIN) fprintf(stderr, "gnutls_handshake(%c) -> %d %s\n", session_who(s), r, gnutls_strerror(r));
  {
    int i = session_who(s) == 'c' ? 0 : 1;
    if (r == GNUTLS_E_SUCCESS) hs_verdict[i] = 'o';
    else if (r != GNUTLS_E_AGAIN && r != GNUTLS_E_INTERRUPTED && r != GNUTLS_E_WARNING_ALERT_RECEIVED && hs_verdict[i] == 'n') hs_verdict[i] = 'f';
  }
  return r;
}
ssize_t __wrap_gnutls_record_recv(gnutls_session_t g, void *data, size_t len) {
  coap_session_t *s = (coap_session_t *)gnutls_transport_get_ptr(g);
  ssize_t r;
  in_gnutls++; r = __real_gnutls_record_recv(g, data, len); in_gnutls--;
  if (r > 0) { char v[96]; strm_view(v, sizeof(v), (const uint8_t *)data, (size_t)r, 1); ORC(s, "rec=data:%s", v); }
  else if (r == 0) ORC(s, "rec=zero");
  else if (r == GNUTLS_E_AGAIN) ORC(s, "rec=again");
  else if (r == GNUTLS_E_PULL_ERROR) ORC(s, "rec=pull");
  else if (r == GNUTLS_E_FATAL_ALERT_RECEIVED) ORC(s, "rec=fatalrx");
  else if (r == GNUTLS_E_WARNING_ALERT_RECEIVED) ORC(s, "rec=warn");
  else ORC(s, "rec=err");
  return r;
}
ssize_t __wrap_gnutls_record_send(gnutls_session_t g, const void *data, size_t len) {
  coap_session_t *s = (coap_session_t *)gnutls_transport_get_ptr(g);
  ssize_t r;
  in_gnutls++; r = __real_gnutls_record_send(g, data, len); in_gnutls--;
  if (r > 0) ORC(s, (size_t)r == len ? "snd=ok" : "snd=part");
  else if (r == GNUTLS_E_AGAIN) ORC(s, "snd=again");
  else if (r == GNUTLS_E_FATAL_ALERT_RECEIVED) ORC(s, "snd=fatalrx");
  else if (r == GNUTLS_E_PUSH_ERROR || r == GNUTLS_E_PULL_ERROR || r == GNUTLS_E_PREMATURE_TERMINATION) ORC(s, "snd=push");
  else ORC(s, "snd=err");
  return r;
}
int __wrap_gnutls_bye(gnutls_session_t g, gnutls_close_request_t how) {
  int r;
  OUT("bye");
  in_gnutls++; r = __real_gnutls_bye(g, how); in_gnutls--;
  return r;
}
int __wrap_gnutls_alert_send(gnutls_session_t g, gnutls_alert_level_t level, gnutls_alert_description_t desc) {
  int r;
  if (!in_gnutls) OUT("alert");
  in_gnutls++; r = __real_gnutls_alert_send(g, level, desc); in_gnutls--;
  return r;
}
int __wrap_gnutls_init(gnutls_session_t *g, unsigned int flags) {
  int r = __real_gnutls_init(g, flags);
  appendf(s_orc, sizeof(s_orc), "env=%s", r == GNUTLS_E_SUCCESS ? "ok" : "fail");
  return r;
}

/* ------------------------------------------------------------------ wrapped libcoap entry points */
ssize_t __real_coap_tls_write(coap_session_t *s, const uint8_t *data, size_t len);
ssize_t __wrap_coap_tls_write(coap_session_t *s, const uint8_t *data, size_t len) {
  char v[96];
  strm_view(v, sizeof(v), data, len, 0);
  if (s_open && session_who(s) != s_who) OUT("!foreign");
  OUT("tx:%s", v);
  return __real_coap_tls_write(s, data, len);
}
void __real_coap_free_type(coap_memory_tag_t type, void *p);
void __wrap_coap_free_type(coap_memory_tag_t type, void *p) {
  if (p && p == (void *)g_cs) g_cs_gone = 1;
  __real_coap_free_type(type, p);
}

/* connect(): `conn=now` completes the TCP handshake inside the call */
static int conn_now;
int __real_connect(int fd, const struct sockaddr *a, socklen_t l);
int __wrap_connect(int fd, const struct sockaddr *a, socklen_t l) {
  int fl, r, on = 1;
  /* no Nagle / delayed-ACK stalls on the loopback connection (timing only); the listener's option is inherited by accept() */
  if (a && a->sa_family == AF_INET) setsockopt(fd, IPPROTO_TCP, TCP_NODELAY, &on, sizeof(on));
  if (!conn_now) return __real_connect(fd, a, l);
  fl = fcntl(fd, F_GETFL, 0);
  fcntl(fd, F_SETFL, fl & ~O_NONBLOCK);
  r = __real_connect(fd, a, l);
  fcntl(fd, F_SETFL, fl);
  return r;
}

/* ------------------------------------------------------------------ the wire: every byte written to a TCP socket */
static unsigned w_n, w_clear, w_app;
typedef struct { unsigned left; uint8_t hdr[5]; unsigned nh; } rec_t;
static rec_t w_dir[2];
static uint8_t q_payload[3][9];
static int nq;
static uint8_t w_tail[2][8]; static unsigned w_ntail[2];

static int contains(const uint8_t *b, size_t n, const uint8_t *p, size_t m) {
  for (size_t i = 0; i + m <= n; i++) if (!memcmp(b + i, p, m)) return 1;
  return 0;
}
static void sniff(int dir, const uint8_t *b, size_t n) {
  rec_t *r = &w_dir[dir];
  int bad = 0;
  w_n++;
  if (!in_gnutls) bad = 1;                         /* a socket write that did not come out of the TLS library */
  for (size_t i = 0; i < n; i++) {
    if (r->left) { r->left--; continue; }
    r->hdr[r->nh++] = b[i];
    if (r->nh == 1 && (b[i] < 20 || b[i] > 23)) { bad = 1; r->nh = 0; }
    else if (r->nh == 2 && b[i] != 3) { bad = 1; r->nh = 0; }
    else if (r->nh == 3 && b[i] > 4) { bad = 1; r->nh = 0; }
    else if (r->nh == 5) {
      r->left = ((unsigned)r->hdr[3] << 8) | r->hdr[4];
      if (r->left > 16384 + 2048) { bad = 1; r->left = 0; }
      if (r->hdr[0] == 23) w_app++;
      r->nh = 0;
    }
  }
  /* a queued request's payload in clear (also across two writes) */
  {
    uint8_t tmp[8 + 4096]; size_t m = w_ntail[dir], k = n > 4096 ? 4096 : n;
    memcpy(tmp, w_tail[dir], m); memcpy(tmp + m, b, k);
    for (int i = 0; i < nq; i++) if (contains(tmp, m + k, q_payload[i], 8)) bad = 1;
    if (m + k >= 7) { memcpy(w_tail[dir], tmp + m + k - 7, 7); w_ntail[dir] = 7; }
    else { memcpy(w_tail[dir], tmp, m + k); w_ntail[dir] = (unsigned)(m + k); }
  }
  if (bad) { w_clear++; OUT("CLEAR:%zu", n); if (getenv("H_HEX")) { for (size_t i = 0; i < n; i++) fprintf(stderr, "%02x", b[i]); fprintf(stderr, " in_gnutls=%d\n", in_gnutls); } }
}
ssize_t __real_coap_netif_strm_write(coap_session_t *s, const uint8_t *data, size_t len);
ssize_t __wrap_coap_netif_strm_write(coap_session_t *s, const uint8_t *data, size_t len) {
  ssize_t r = __real_coap_netif_strm_write(s, data, len);
  if (r > 0) sniff(session_who(s) == 'c' ? 0 : 1, data, (size_t)r);
  return r;
}

/* ------------------------------------------------------------------ configuration (as dtls.c) */
typedef struct { char a[64], b[64], c[64]; size_t al, bl, cl; } ent_t;
static ent_t keytab[8]; static int nkeytab, have_keytab;
static ent_t snitab[8]; static int nsnitab, have_snitab;
static char ih_list[8][64]; static size_t ih_len[8]; static int nih, ih_mode;
static uint8_t c_id[64], c_key[64], s_key[64], s_hint[64]; static size_t c_idl, c_keyl, s_keyl, s_hintl; static int have_hint;
static char c_sni[64]; static int have_sni;
static coap_dtls_cpsk_info_t ih_ret;
static coap_bin_const_t id_ret;
static coap_dtls_spsk_info_t sni_ret;

static int unhex_into(const char *s, uint8_t *o, size_t cap, size_t *n) {
  size_t l = strlen(s);
  *n = 0;
  if (!strcmp(s, "-") || !strcmp(s, "e")) return 1;
  if (l % 2 || l / 2 >= cap) return 0;
  for (size_t i = 0; i < l / 2; i++) {
    int a = h_hexval(s[2 * i]), b = h_hexval(s[2 * i + 1]);
    if (a < 0 || b < 0) return 0;
    o[i] = (uint8_t)(a * 16 + b);
  }
  o[l / 2] = 0;
  *n = l / 2;
  return 1;
}
static int parse_tab(char *v, ent_t *tab, int *n, int fields) {
  *n = 0;
  for (char *e = strtok(v, ","); e; e = strtok(NULL, ",")) {
    char *p1 = strchr(e, ':'), *p2 = NULL;
    ent_t *t;
    if (!p1 || *n >= 8) return 0;
    *p1++ = 0;
    if (fields == 3) { p2 = strchr(p1, ':'); if (!p2) return 0; *p2++ = 0; }
    t = &tab[(*n)++];
    if (!unhex_into(e, (uint8_t *)t->a, sizeof(t->a), &t->al) || !unhex_into(p1, (uint8_t *)t->b, sizeof(t->b), &t->bl)) return 0;
    if (p2 && !unhex_into(p2, (uint8_t *)t->c, sizeof(t->c), &t->cl)) return 0;
  }
  return 1;
}
static const coap_bin_const_t *cb_id(coap_bin_const_t *identity, coap_session_t *s, void *arg) {
  (void)s; (void)arg;
  for (int i = 0; i < nkeytab; i++)
    if (identity->length == keytab[i].al && !memcmp(identity->s, keytab[i].a, keytab[i].al)) {
      id_ret.s = (const uint8_t *)keytab[i].b; id_ret.length = keytab[i].bl;
      return &id_ret;
    }
  return NULL;
}
static const coap_dtls_spsk_info_t *cb_sni(const char *sni, coap_session_t *s, void *arg) {
  (void)s; (void)arg;
  for (int i = 0; i < nsnitab; i++)
    if (strlen(sni) == snitab[i].al && !strcasecmp(sni, snitab[i].a)) {
      sni_ret.hint.s = (const uint8_t *)snitab[i].b; sni_ret.hint.length = snitab[i].bl;
      sni_ret.key.s = (const uint8_t *)snitab[i].c; sni_ret.key.length = snitab[i].cl;
      return &sni_ret;
    }
  return NULL;
}
static const coap_dtls_cpsk_info_t *cb_ih(coap_str_const_t *hint, coap_session_t *s, void *arg) {
  int ok = ih_mode == 1;
  (void)s; (void)arg;
  for (int i = 0; i < nih && !ok; i++) if (hint->length == ih_len[i] && !memcmp(hint->s, ih_list[i], ih_len[i])) ok = 1;
  if (!ok) return NULL;
  ih_ret.identity.s = c_id; ih_ret.identity.length = c_idl;
  ih_ret.key.s = c_key; ih_ret.key.length = c_keyl;
  return &ih_ret;
}

/* ------------------------------------------------------------------ application callbacks */
static void pdu_tok(char *o, const coap_pdu_t *p) {
  coap_bin_const_t t;
  if (!p) { strcpy(o, "-"); return; }
  t = coap_pdu_get_token(p);
  hex_tok(o, t.s, t.length > 8 ? 8 : t.length);
}
static void hnd_get(coap_resource_t *r, coap_session_t *s, const coap_pdu_t *req, const coap_string_t *q, coap_pdu_t *rsp) {
  char tk[20], pl[40];
  size_t len = 0; const uint8_t *data = NULL;
  (void)r; (void)q;
  pdu_tok(tk, req);
  coap_get_data(req, &len, &data);
  hex_tok(pl, data, len > 16 ? 16 : len);
  if (s_open && session_who(s) != s_who) OUT("!foreign");
  OUT("req:%s:%s", tk, pl);
  coap_pdu_set_code(rsp, COAP_RESPONSE_CODE_CONTENT);
  coap_add_data(rsp, 2, (const uint8_t *)"hi");
}
static coap_response_t on_response(coap_session_t *s, const coap_pdu_t *sent, const coap_pdu_t *rcvd, const coap_mid_t mid) {
  char tk[20];
  (void)s; (void)sent; (void)mid;
  pdu_tok(tk, rcvd);
  OUT("rsp:%s:%d", tk, (int)coap_pdu_get_code(rcvd));
  return COAP_RESPONSE_OK;
}
static const char *nack_name(coap_nack_reason_t r) {
  switch (r) {
  case COAP_NACK_TOO_MANY_RETRIES: return "retries";
  case COAP_NACK_NOT_DELIVERABLE: return "undeliv";
  case COAP_NACK_RST: return "rst";
  case COAP_NACK_TLS_FAILED: return "tls";
  case COAP_NACK_ICMP_ISSUE: return "icmp";
  case COAP_NACK_BAD_RESPONSE: return "bad";
  case COAP_NACK_TLS_LAYER_FAILED: return "tlslayer";
  default: return "other";
  }
}
static void on_nack(coap_session_t *s, const coap_pdu_t *sent, const coap_nack_reason_t reason, const coap_mid_t mid) {
  char tk[20];
  (void)mid;
  pdu_tok(tk, sent);
  if (s_open && session_who(s) != s_who) OUT("!foreign");
  OUT("nack:%s:%s", nack_name(reason), tk);
}
static int on_event(coap_session_t *s, const coap_event_t e) {
  switch (e) {
  case COAP_EVENT_DTLS_CLOSED: OUT("ev:closed"); break;
  case COAP_EVENT_DTLS_CONNECTED: OUT("ev:connected"); break;
  case COAP_EVENT_DTLS_ERROR: OUT("ev:error"); break;
  case COAP_EVENT_DTLS_RENEGOTIATE: OUT("ev:reneg"); break;
  case COAP_EVENT_TCP_CONNECTED: OUT("ev:tcp-connected"); break;
  case COAP_EVENT_TCP_CLOSED: OUT("ev:tcp-closed"); break;
  case COAP_EVENT_TCP_FAILED: OUT("ev:tcp-failed"); break;
  case COAP_EVENT_SESSION_CONNECTED: OUT("ev:sess-connected"); break;
  case COAP_EVENT_SESSION_CLOSED: OUT("ev:sess-closed"); break;
  case COAP_EVENT_SESSION_FAILED: OUT("ev:sess-failed"); break;
  case COAP_EVENT_SERVER_SESSION_NEW: OUT("ev:new"); break;
  case COAP_EVENT_SERVER_SESSION_DEL:
    if (!s_open || strcmp(s_head, "s:free")) seg_begin(session_who(s), "del");
    OUT("ev:del"); break;
  case COAP_EVENT_BAD_PACKET: OUT("ev:bad"); break;
  default: OUT("ev:0x%04x", (unsigned)e); break;
  }
  return 0;
}

/* ------------------------------------------------------------------ the loop */
static double now_s(void) { struct timespec ts; clock_gettime(CLOCK_MONOTONIC, &ts); return (double)ts.tv_sec + ts.tv_nsec / 1e9; }
static double t_start; static int watchdog;
#define WATCHDOG_S 4.0

/* one epoll event of one context; locked = the global lock is already held (we are inside libcoap) */
static int pump_one(coap_context_t *ctx, char side, int wait_ms, int locked) {
  struct epoll_event ev;
  coap_socket_t *sock;
  int n = epoll_wait(coap_context_get_coap_fd(ctx), &ev, 1, wait_ms);
  if (n <= 0) return 0;
  sock = (coap_socket_t *)ev.data.ptr;
  if (!sock) seg_begin(side, "tick");
  else if (sock->endpoint) seg_begin('s', "acc");
  else {
    char k[4]; int i = 0;
    if ((sock->flags & COAP_SOCKET_WANT_CONNECT) && (ev.events & (EPOLLOUT | EPOLLERR | EPOLLHUP | EPOLLRDHUP))) k[i++] = 'c';
    if ((sock->flags & COAP_SOCKET_WANT_READ) && (ev.events & (EPOLLIN | EPOLLERR | EPOLLHUP | EPOLLRDHUP))) k[i++] = 'r';
    if ((sock->flags & COAP_SOCKET_WANT_WRITE) && (ev.events & (EPOLLOUT | EPOLLERR | EPOLLHUP | EPOLLRDHUP))) k[i++] = 'w';
    if (!i) k[i++] = 'n';
    k[i] = 0;
    seg_begin(session_who(sock->session), "io:%s", k);
  }
  if (locked) coap_io_do_epoll_lkd(ctx, &ev, 1);
  else coap_io_do_epoll(ctx, &ev, 1);
  seg_close();
  return 1;
}
/* run the contexts in `who` ("cs", "c", "s") until nothing is ready for IDLE_ROUNDS consecutive 1 ms waits; returns 0 when the
   watchdog fired */
#define IDLE_ROUNDS 6
/* bytes written to a TCP socket that the peer's TCP has not acknowledged yet: something is still on its way (the loopback
   delivers in a softirq, which a loaded machine may defer) */
static int in_flight(void) {
  int n = 0, v;
  coap_session_t *ss = srv_session();
  if (g_cs && !g_cs_gone && g_cs->sock.fd >= 0 && (g_cs->sock.flags & COAP_SOCKET_CONNECTED) && !ioctl(g_cs->sock.fd, SIOCOUTQ, &v)) n += v;
  if (ss && ss->sock.fd >= 0 && (ss->sock.flags & COAP_SOCKET_CONNECTED) && !ioctl(ss->sock.fd, SIOCOUTQ, &v)) n += v;
  return n;
}
static int pump_quiet(const char *who, int locked, int (*stop)(void)) {
  int idle = 0, c = strchr(who, 'c') != NULL, s = strchr(who, 's') != NULL;
  for (int round = 0; round < 4000 && idle < IDLE_ROUNDS; round++) {
    int did = 0;
    for (int k = 0; c && k < 16 && pump_one(g_cli, 'c', 0, locked); k++) did++;
    for (int k = 0; s && k < 16 && pump_one(g_srv, 's', 0, locked); k++) did++;
    if (stop && stop()) return 1;
    if (now_s() - t_start > WATCHDOG_S) { watchdog = 1; return 0; }
    if (did) { idle = 0; continue; }
    idle++;
    did = (c ? pump_one(g_cli, 'c', 1, locked) : 0) + (s ? pump_one(g_srv, 's', 1, locked) : 0);
    if (did || in_flight()) idle = 0;
  }
  return 1;
}

/* coap_client_delay_first() waits by calling coap_io_process_lkd(ctx, 1000) (prog mode): run both contexts there */
static char pend_send[64];
static int in_delay_first;
static const char *wait_who = "cs";
static int df_cleared(void) { return g_cs_gone || !g_cs->doing_first; }
int __real_coap_io_process_lkd(coap_context_t *ctx, uint32_t timeout_ms);
int __wrap_coap_io_process_lkd(coap_context_t *ctx, uint32_t timeout_ms) {
  if (!pend_send[0] || ctx != g_cli) return __real_coap_io_process_lkd(ctx, timeout_ms);
  /* the application's coap_send() has not done anything observable yet: its segment starts when the wait is over */
  if (s_open && !s_orc[0] && !s_out[0]) s_open = 0; else seg_close();
  if (!strncmp(pend_send, "tsend:", 6)) { memmove(pend_send + 6, pend_send + 5, strlen(pend_send + 5) + 1); pend_send[5] = 'w'; }   /* tsendw: */
  in_delay_first++;
  pump_quiet(wait_who, 1, df_cleared);
  in_delay_first--;
  seg_begin('c', "%s", pend_send);
  if (watchdog) return -1;
  return df_cleared() ? 1 : 6000;       /* nothing moves any more: let the 5 s of coap_client_delay_first() pass */
}

/* ------------------------------------------------------------------ scenario */
static void h_init(void) {
  coap_startup();
  coap_set_log_level(getenv("H_LOG") ? COAP_LOG_DEBUG : COAP_LOG_EMERG);
  if (getenv("H_LOG")) coap_dtls_set_log_level(COAP_LOG_DEBUG);
  signal(SIGPIPE, SIG_IGN);
}
static void do_release(void) {
  if (g_cs_gone || !g_cs) return;
  seg_begin('c', "rel");
  coap_session_release(g_cs);
  seg_close();
}

static void step(char *line) {
  char *w[40];
  int n = h_words(line, w, 40);
  char qs[8] = "";
  int rel_now = 0, final_state = -1, acc_early = 0, bm = 0;
  if (n < 1 || strcmp(w[0], "tls")) { printf("bad-op"); return; }
  memcpy(c_id, "id", 3); c_idl = 2; memcpy(c_key, "key", 4); c_keyl = 3; memcpy(s_key, "key", 4); s_keyl = 3;
  have_hint = 0; s_hintl = 0; have_keytab = 0; nkeytab = 0; have_snitab = 0; nsnitab = 0; ih_mode = 0; nih = 0; have_sni = 0;
  nq = 0; conn_now = 1; wait_who = "cs";
  for (int i = 1; i < n; i++) {
    char *k = w[i], *v = strchr(w[i], '=');
    int ok = 1;
    if (!v) { printf("bad-op"); return; }
    *v++ = 0;
    if (!strcmp(k, "ci")) ok = unhex_into(v, c_id, sizeof(c_id), &c_idl);
    else if (!strcmp(k, "ck")) ok = unhex_into(v, c_key, sizeof(c_key), &c_keyl);
    else if (!strcmp(k, "sk")) ok = unhex_into(v, s_key, sizeof(s_key), &s_keyl);
    else if (!strcmp(k, "sh")) { have_hint = strcmp(v, "-") != 0; ok = unhex_into(v, s_hint, sizeof(s_hint), &s_hintl); }
    else if (!strcmp(k, "st")) { have_keytab = strcmp(v, "-") != 0; if (have_keytab) ok = parse_tab(v, keytab, &nkeytab, 2); }
    else if (!strcmp(k, "ss")) { have_snitab = strcmp(v, "-") != 0; if (have_snitab) ok = parse_tab(v, snitab, &nsnitab, 3); }
    else if (!strcmp(k, "ih")) {
      if (!strcmp(v, "-")) ih_mode = 0;
      else if (!strcmp(v, "*")) ih_mode = 1;
      else {
        ih_mode = 2;
        for (char *e = strtok(v, ","); e && ok; e = strtok(NULL, ",")) {
          if (nih >= 8) { ok = 0; break; }
          ok = unhex_into(e, (uint8_t *)ih_list[nih], sizeof(ih_list[0]), &ih_len[nih]); nih++;
        }
      }
    }
    else if (!strcmp(k, "sni")) { size_t l; have_sni = strcmp(v, "-") != 0; ok = unhex_into(v, (uint8_t *)c_sni, sizeof(c_sni), &l); }
    else if (!strcmp(k, "q")) { if (strlen(v) > 3 || strspn(v, "CNOM") != strlen(v)) ok = 0; else strcpy(qs, v); }
    else if (!strcmp(k, "bm")) { if (!strcmp(v, "1")) bm = 1; else if (!strcmp(v, "0")) bm = 0; else ok = 0; }
    else if (!strcmp(k, "conn")) { if (!strcmp(v, "now")) conn_now = 1; else if (!strcmp(v, "prog")) conn_now = 0; else ok = 0; }
    else if (!strcmp(k, "acc")) { if (!strcmp(v, "early")) acc_early = 1; else if (!strcmp(v, "late")) acc_early = 0; else ok = 0; }
    else if (!strcmp(k, "wait")) { if (!strcmp(v, "both")) wait_who = "cs"; else if (!strcmp(v, "client")) wait_who = "c"; else ok = 0; }
    else if (!strcmp(k, "rel")) { if (!strcmp(v, "now")) rel_now = 1; else if (strcmp(v, "-")) ok = 0; }
    else ok = 0;
    if (!ok) { printf("bad-op"); return; }
  }

  seg_len = 0; nsegs = 0; s_open = 0; if (seg_buf) seg_buf[0] = 0;
  w_n = w_clear = w_app = 0; in_gnutls = 0; memset(w_dir, 0, sizeof(w_dir)); w_ntail[0] = w_ntail[1] = 0;
  hs_verdict[0] = hs_verdict[1] = 'n';
  g_cs = NULL; g_cs_gone = 0; g_ep = NULL; pend_send[0] = 0; watchdog = 0;
  t_start = now_s();

  /* ---- server */
  g_srv = coap_new_context(NULL);
  coap_register_event_handler(g_srv, on_event);
  coap_register_nack_handler(g_srv, on_nack);
  {
    coap_dtls_spsk_t sp;
    coap_address_t a;
    coap_resource_t *r;
    memset(&sp, 0, sizeof(sp));
    sp.version = COAP_DTLS_SPSK_SETUP_VERSION;
    if (have_keytab) sp.validate_id_call_back = cb_id;
    if (have_snitab) sp.validate_sni_call_back = cb_sni;
    if (have_hint) { sp.psk_info.hint.s = s_hint; sp.psk_info.hint.length = s_hintl; }
    sp.psk_info.key.s = s_key; sp.psk_info.key.length = s_keyl;
    if (!coap_context_set_psk2(g_srv, &sp)) { printf("no-server-psk"); coap_free_context(g_srv); return; }
    coap_address_init(&a);
    a.addr.sin.sin_family = AF_INET;
    a.addr.sin.sin_addr.s_addr = htonl(INADDR_LOOPBACK);
    a.addr.sin.sin_port = 0;
    g_ep = coap_new_endpoint(g_srv, &a, COAP_PROTO_TLS);
    if (!g_ep) { printf("no-endpoint"); coap_free_context(g_srv); return; }
    { int on = 1; setsockopt(g_ep->sock.fd, IPPROTO_TCP, TCP_NODELAY, &on, sizeof(on)); }
    r = coap_resource_init(coap_make_str_const("r"), 0);
    coap_register_request_handler(r, COAP_REQUEST_GET, hnd_get);
    coap_add_resource(g_srv, r);
  }
  /* ---- client */
  g_cli = coap_new_context(NULL);
  coap_register_event_handler(g_cli, on_event);
  coap_register_nack_handler(g_cli, on_nack);
  coap_register_response_handler(g_cli, on_response);
  if (bm) coap_context_set_block_mode(g_cli, COAP_BLOCK_USE_LIBCOAP);
  {
    coap_dtls_cpsk_t cp;
    coap_address_t sa;
    memset(&cp, 0, sizeof(cp));
    cp.version = COAP_DTLS_CPSK_SETUP_VERSION;
    cp.psk_info.identity.s = c_id; cp.psk_info.identity.length = c_idl;
    cp.psk_info.key.s = c_key; cp.psk_info.key.length = c_keyl;
    if (ih_mode) cp.validate_ih_call_back = cb_ih;
    if (have_sni) cp.client_sni = c_sni;
    coap_address_init(&sa);
    sa.addr.sin.sin_family = AF_INET;
    sa.addr.sin.sin_addr.s_addr = htonl(INADDR_LOOPBACK);
    sa.addr.sin.sin_port = g_ep->bind_addr.addr.sin.sin_port;
    seg_begin('c', "tnew%s:%s", bm ? "b" : "", conn_now ? "now" : "prog");
    g_cs = coap_new_client_session_psk2(g_cli, NULL, &sa, COAP_PROTO_TLS, &cp);
    if (!g_cs) { g_cs_gone = 1; strcpy(s_head, "c:tnew:fail"); }
    else if (conn_now && (g_cs->sock.flags & COAP_SOCKET_WANT_CONNECT)) snprintf(s_head, sizeof(s_head), "c:tnew%s:prog", bm ? "b" : "");
    else if (!conn_now && !(g_cs->sock.flags & COAP_SOCKET_WANT_CONNECT)) snprintf(s_head, sizeof(s_head), "c:tnew%s:now", bm ? "b" : "");
    /* keep libcoap's block-mode state tokens away from the harness' tokens 01 02 03 (see dtls.c) */
    if (g_cs && bm) { static const uint8_t seed[4] = {0xd0, 0, 0, 0}; coap_session_init_token(g_cs, sizeof(seed), seed); }
    seg_close();
  }
  if (g_cs) {
    if (acc_early) pump_quiet("s", 0, NULL);       /* the server accepts the TCP connection before anything else happens */
    nq = (int)strlen(qs);
    for (int i = 0; i < nq; i++) memcpy(q_payload[i], "PAYLOAD0", 9), q_payload[i][7] = (uint8_t)('1' + i);
    for (int i = 0; i < nq && !g_cs_gone; i++) {
      uint8_t tok[1] = {(uint8_t)(i + 1)};
      coap_pdu_t *p;
      coap_mid_t mid = coap_new_message_id(g_cs);
      p = coap_pdu_init(qs[i] == 'C' || qs[i] == 'O' ? COAP_MESSAGE_CON : COAP_MESSAGE_NON, COAP_REQUEST_CODE_GET, mid, 256);
      coap_add_token(p, 1, tok);
      if (qs[i] == 'O' || qs[i] == 'M') {
        uint8_t obuf[4];
        coap_add_option(p, COAP_OPTION_OBSERVE, coap_encode_var_safe(obuf, sizeof(obuf), COAP_OBSERVE_ESTABLISH), obuf);
      }
      coap_add_option(p, COAP_OPTION_URI_PATH, 1, (const uint8_t *)"r");
      coap_add_data(p, 8, q_payload[i]);
      snprintf(pend_send, sizeof(pend_send), "tsend:%c%d:%02x", qs[i], (int)(uint16_t)mid, tok[0]);
      seg_begin('c', "%s", pend_send);
      if (coap_send(g_cs, p) == COAP_INVALID_MID) OUT("sendfail");
      seg_close();
      pend_send[0] = 0;
    }
    if (rel_now) do_release();
    pump_quiet("cs", 0, NULL);
    if (!g_cs_gone) final_state = (int)g_cs->state;
    do_release();
    pump_quiet("cs", 0, NULL);
  }
  seg_begin('c', "free");
  coap_free_context(g_cli);
  seg_close();
  seg_begin('s', "free");
  g_ep = NULL;
  coap_free_context(g_srv);
  seg_close();
  fputs(seg_len ? seg_buf : "-", stdout);
  printf(" | wire n=%u clear=%u app=%u prealert=0 cleartext=%s final=%d wd=%d | hs c=%s s=%s", w_n, w_clear, w_app, w_clear ? "yes" : "no",
         final_state, watchdog,
         hs_verdict[0] == 'o' ? "ok" : hs_verdict[0] == 'f' ? "fail" : "none",
         hs_verdict[1] == 'o' ? "ok" : hs_verdict[1] == 'f' ? "fail" : "none");
}

H_MAIN_LOOP(step)
