/* observe.c — H-sim harness for C11 (Observe: fresh, ordered notifications until cancelled).
 *
 *   obs st=<sec> R=<m><start>[,<m><start>…] C=<nclients> <event> <event> …
 *
 * One REAL server context with 1..3 observable resources r0..r2 (<m> = d default | c NOTIFY_CON | n NOTIFY_NON |
 * a NOTIFY_NON_ALWAYS, <start> = initial Observe counter set through coap_persist_set_observe_num), session idle
 * timeout <sec>, and 1..4 REAL client contexts each with one UDP session to the server's endpoint.  Virtual clock and
 * scripted network from sim_core.h: no datagram ever crosses a socket.
 *
 * BLOCK-WISE lines (not replayed through the Lean model, judged by props/c11_oracle.py only): <m> = b | B, written
 * b<start> or b<start>/<szx> (szx 0..6), is a resource with default notify flags (B: NOTIFY_CON) whose GET handler answers
 * through coap_add_data_large_response() with a body of 2.5 blocks (2*S + S/2 bytes, S = 16 << szx; without /<szx>:
 * S = 1024 and the client never sends a Block2 option, the server picks the size), every byte = (number of chg events on
 * the resource so far) mod 251.  A line with at least one such resource runs the server context with
 * COAP_BLOCK_USE_LIBCOAP (other lines do not: their output is byte-identical to what it was before this kind existed); the
 * clients stay in per-block mode (they never fetch a block on their own).  With /<szx> every reg/can/get to that resource
 * carries Block2 = 0/0/<szx>.
 *
 * Events (fields separated by ':'):
 *   reg:c:r:t:q:k:mid[:x]  client c sends GET /r<r> Observe=0, token index t, query variant q (0 none, 1 "a=1", 2 "b=2",
 *                       3 two Uri-Query options "a","b", 4 ONE Uri-Query option with the 4 bytes 61 0f 00 62), type k (C|N),
 *                       message id mid; the datagram reaches the server at once, the response reaches the client at once.
 *                       Token: t < 128 -> the 2 bytes (0xA0 + c, t), a value no other client uses; t >= 128 -> the 2 bytes
 *                       (0x9F, t), the SAME value whichever client sends it (tokens are only unique per client endpoint).
 *                       t = 256 + 9*f + len (f = 0..3, len = 0..8; 256 <= t <= 291) -> the first <len> bytes of the 8-byte
 *                       string of family f, whichever client sends it (tokens are 0..8 bytes long, RFC 7252 3: the empty
 *                       token and a token that is a proper prefix of another one are DIFFERENT tokens; printed `-` = empty):
 *                         f=0  51 62 73 84 95 a6 b7 c8      f=1  00 00 00 00 00 00 00 00
 *                         f=2  a0 01 02 03 04 05 06 07 (len 2 = client 0's t=1)   f=3  9f 80 9f 80 9f 80 9f 80 (len 2 = t=128)
 *                       Optional x = further request options that are NOT part of the observation's identity (RFC 7641
 *                       3.3/3.6: ETag; RFC 7252 5.4.2: NoCacheKey options): 0 none (default), 1 ETag 1122, 2 ETag 33,
 *                       3 ETag 1122 + ETag 4455667788, 4 Size1 (option 60, NoCacheKey) empty, 5 ETag 33 + Size1 02
 *   can:c:r:t:q:k:mid   the same with Observe=1 (proactive cancellation)
 *   get:c:r:t:q:k:mid   the same without an Observe option
 *   chg:r               the application calls coap_resource_notify_observers(r<r>)
 *   io                  the application runs the I/O loop at the current virtual time (coap_io_prepare_epoll)
 *   adv:ms              virtual time advances by ms, then the I/O loop runs
 *   ack:c:n / rst:c:n   the n-th server-initiated datagram (notification) sent to client c is delivered to the real
 *                       client whose response handler accepts / rejects it; the client's reply (ACK for a CON, nothing
 *                       for an accepted NON, RST when rejected) is delivered to the server (repeat = duplicate, never =
 *                       loss, late = delay).  The I/O loop runs at the end of every delivery (coap_io_do_epoll does).
 *                       n >= 1000 means "the (n-1000)-th most recent one".
 *   err:r:b             from now on the GET handler of r<r> answers 4.04 (b=1) / 5.03 (b=2) / 5.00 (b=3) / 2.05 (b=0)
 *   lost:c              the server's session for client c is lost (coap_session_disconnected, NOT_DELIVERABLE)
 *   del:r               the application deletes r<r> (coap_delete_resource)
 *   blk:c:r:t:q:k:mid:num   (block-wise lines only, r must be a b|B resource) client c fetches block <num> of the body in
 *                       progress: GET /r<r>, same query variant, token index t, Block2 = num/0/<szx of the resource>, NO
 *                       Observe option (RFC 7959 3.4, RFC 7641 3.6).  "The client does not fetch" = no event.
 *
 * Output: for every event `<datagrams the server sent> ; <state>` joined by ` | `:
 *   p<c>:<tok>:<code>:<obs|->:<K>:<mid>        response to a request (K = A|N|C)
 *   n<c>.<n>:<tok>:<code>:<obs|->:<K>:<mid>    n-th server-initiated datagram to client c (notification / 4.04)
 *   x<c>.<n>                                   retransmission of it
 *   state: t=<now> P<observe_pending> R<r>=<observe>/<dirty><partiallydirty>[c.tok.non.fail.dirty.mid,…] (list order)
 *          or R<r>=x (deleted);  S<c>=<ref>/<con_active>/<tx_mid> or S<c>=- ;  Q[c.mid.due.cnt,…] (send queue order)
 * After the last event: ` || C<c>:` the client handler log (tok:code:obs:K per handler call).
 * Block-wise lines only: every p/n datagram has two more fields  :<num>/<m>/<szx>|-  (its Block2 option) and
 *   :<payload length>/<v>  (v = the payload's byte value if all its bytes are equal, i.e. the body's version, else -),
 *   and the state has  L<c>=<number of lg_xmit of the session>.<last_obs>.<last_all_sent> of the head one, or L<c>=-
 */
#include "sim_core.h"

#define MAXR 3
#define MAXC 4
#define MAXN 512

static coap_context_t *srv;
static coap_endpoint_t *ep;
static coap_resource_t *res[MAXR];
static int res_err[MAXR];
static int res_blk[MAXR], res_szx[MAXR];   /* block-wise resource; szx the clients ask for (-1: no Block2 in requests) */
static unsigned res_ver[MAXR];             /* application state version = number of chg events */
static int blockwise;                      /* the line has a block-wise resource */
static int nres, ncli;
static coap_context_t *cctx[MAXC];
static coap_session_t *csess[MAXC];

typedef struct { const sim_dgram_t *d; int have_reply; uint8_t reply[8]; size_t reply_len; int seen; } note_t;
static note_t notes[MAXC][MAXN];
static int nnotes[MAXC];

/* `obsw` lines (C06, round X06): the same scenario language; the state printed after every event has one more field,
 * ` W<ms>` = what coap_io_prepare_epoll() RETURNED to the application in an io / adv event, ` W-` after any other event
 * (lean/CoapVerif/Driver/ObserveWait.lean, Model/ObserveWait.lean).  `obs` lines are byte-identical to what they were. */
static int want_wait, have_wait;
static unsigned last_wait;

static char *obuf; static size_t olen, ocap;
static void out(const char *fmt, ...) {
  va_list ap; char tmp[256]; int n;
  va_start(ap, fmt); n = vsnprintf(tmp, sizeof(tmp), fmt, ap); va_end(ap);
  if (n < 0) return;
  if ((size_t)n >= sizeof(tmp)) n = sizeof(tmp) - 1;
  if (olen + (size_t)n + 1 > ocap) { ocap = (ocap + (size_t)n + 1) * 2; obuf = (char *)realloc(obuf, ocap); }
  memcpy(obuf + olen, tmp, (size_t)n); olen += (size_t)n; obuf[olen] = 0;
}

/* client log */
static char clog_[MAXC][8192]; static size_t clen[MAXC];
static coap_response_t cli_verdict;
static int cli_of_session(coap_session_t *s) { for (int i = 0; i < ncli; i++) if (csess[i] == s) return i; return -1; }

static int get_observe(const uint8_t *b, size_t len, size_t tkl, long *val) {
  /* walk the options of a raw datagram, return 1 and the Observe value if present */
  size_t i = 4 + tkl; unsigned num = 0;
  while (i < len && b[i] != 0xFF) {
    unsigned dl = b[i] >> 4, ll = b[i] & 15; i++;
    if (dl == 13) { dl = b[i] + 13u; i++; } else if (dl == 14) { dl = ((unsigned)b[i] << 8 | b[i + 1]) + 269u; i += 2; }
    if (ll == 13) { ll = b[i] + 13u; i++; } else if (ll == 14) { ll = ((unsigned)b[i] << 8 | b[i + 1]) + 269u; i += 2; }
    num += dl;
    if (num == COAP_OPTION_OBSERVE) { long v = 0; for (unsigned k = 0; k < ll; k++) v = (v << 8) | b[i + k]; *val = v; return 1; }
    i += ll;
  }
  return 0;
}

static int get_opt_uint(const uint8_t *b, size_t len, size_t tkl, unsigned want, unsigned long *val, size_t *pl_off) {
  /* walk the options of a raw datagram: 1 and the value of option `want` if present; *pl_off = offset of the payload or len */
  size_t i = 4 + tkl; unsigned num = 0; int found = 0;
  *pl_off = len;
  while (i < len) {
    if (b[i] == 0xFF) { *pl_off = i + 1; break; }
    unsigned dl = b[i] >> 4, ll = b[i] & 15; i++;
    if (dl == 13) { dl = b[i] + 13u; i++; } else if (dl == 14) { dl = ((unsigned)b[i] << 8 | b[i + 1]) + 269u; i += 2; }
    if (ll == 13) { ll = b[i] + 13u; i++; } else if (ll == 14) { ll = ((unsigned)b[i] << 8 | b[i + 1]) + 269u; i += 2; }
    num += dl;
    if (num == want && !found) { unsigned long v = 0; for (unsigned k = 0; k < ll && i + k < len; k++) v = (v << 8) | b[i + k]; *val = v; found = 1; }
    i += ll;
  }
  return found;
}

static coap_response_t cli_on_response(coap_session_t *session, const coap_pdu_t *sent, const coap_pdu_t *rcvd,
                                       const coap_mid_t mid) {
  int c = cli_of_session(session);
  char tk[20]; coap_bin_const_t tok = coap_pdu_get_token(rcvd);
  coap_opt_iterator_t oi; coap_opt_t *o;
  (void)sent; (void)mid;
  if (c < 0) return COAP_RESPONSE_OK;
  sim_tok(tk, tok.s, tok.length > 8 ? 8 : tok.length);
  o = coap_check_option(rcvd, COAP_OPTION_OBSERVE, &oi);
  if (clen[c] + 64 < sizeof(clog_[c])) {
    if (o)
      clen[c] += (size_t)snprintf(clog_[c] + clen[c], 64, "%s%s:%d:%u:%c", clen[c] ? "," : "", tk, (int)coap_pdu_get_code(rcvd),
                                  coap_decode_var_bytes(coap_opt_value(o), coap_opt_length(o)), sim_kind[coap_pdu_get_type(rcvd) & 3]);
    else
      clen[c] += (size_t)snprintf(clog_[c] + clen[c], 64, "%s%s:%d:-:%c", clen[c] ? "," : "", tk, (int)coap_pdu_get_code(rcvd),
                                  sim_kind[coap_pdu_get_type(rcvd) & 3]);
  }
  return cli_verdict;
}

/* which client owns this server-side session (by the peer's port) */
static int cli_of_srv_session(const coap_session_t *s) {
  for (int i = 0; i < ncli; i++)
    if (csess[i] && coap_address_equals(&csess[i]->addr_info.local, &s->addr_info.remote)) return i;
  return -1;
}
static coap_session_t *srv_session_of(int c) {
  coap_session_t *s, *tmp;
  SESSIONS_ITER(ep->sessions, s, tmp) { if (cli_of_srv_session(s) == c) return s; }
  return NULL;
}

/* ---- network hook: classify what the server / the clients write */
static int in_request;             /* a request of client c is being processed: the next server datagram to c is its response */
static const sim_dgram_t *to_client_now[16]; static int n_to_client_now;
static const sim_dgram_t *cli_reply;         /* last datagram written by a client */
static int first_out;
static int nclientdev;

static void sep(void) { if (!first_out) out(" "); first_out = 0; }

/* block-wise lines: Block2 option and payload summary of a server datagram */
static void out_blk(const sim_dgram_t *d) {
  unsigned long bv = 0; size_t po = 0, pl;
  int same = 1;
  if (!blockwise) return;
  if (get_opt_uint(d->data, d->len, d->tkl, COAP_OPTION_BLOCK2, &bv, &po)) out(":%lu/%lu/%lu", bv >> 4, (bv >> 3) & 1, bv & 7);
  else out(":-");
  pl = d->len - po;
  for (size_t i = po + 1; i < d->len; i++) if (d->data[i] != d->data[po]) same = 0;
  if (pl && same) out(":%zu/%u", pl, (unsigned)d->data[po]); else out(":%zu/-", pl);
}

static void on_tx(const sim_dgram_t *d) {
  if (d->session && d->session->context == srv) {
    int c = cli_of_srv_session(d->session);
    char tk[20]; long ov; int ho;
    if (c < 0 || !d->decoded) { sep(); out("?tx"); return; }
    sim_tok(tk, d->token, d->tkl);
    ho = get_observe(d->data, d->len, d->tkl, &ov);
    /* retransmission: coap_retransmit() re-inserts the node (same session, same mid) BEFORE it writes the datagram, whereas
     * a first transmission is written before coap_wait_ack() queues it */
    for (coap_queue_t *q = srv->sendqueue; q; q = q->next)
      if (q->session == d->session && (uint16_t)q->id == (uint16_t)d->mid && q->retransmit_cnt > 0) {
        for (int n = nnotes[c] - 1; n >= 0; n--)
          if (notes[c][n].d->mid == d->mid) { sep(); out("x%d.%d", c, n); return; }
        sep(); out("x%d.?", c); return;
      }
    if (in_request == c + 1 && (d->type == COAP_MESSAGE_ACK || (d->type == COAP_MESSAGE_NON && d->code != 0))) {
      in_request = 0;
      sep();
      if (ho) out("p%d:%s:%d:%ld:%c:%d", c, tk, d->code, ov, sim_kind[d->type], d->mid);
      else out("p%d:%s:%d:-:%c:%d", c, tk, d->code, sim_kind[d->type], d->mid);
      out_blk(d);
      if (n_to_client_now < 16) to_client_now[n_to_client_now++] = d;
      return;
    }
    if (nnotes[c] < MAXN) {
      int n = nnotes[c]++;
      notes[c][n].d = d; notes[c][n].have_reply = 0; notes[c][n].seen = 0;
      sep();
      if (ho) out("n%d.%d:%s:%d:%ld:%c:%d", c, n, tk, d->code, ov, sim_kind[d->type], d->mid);
      else out("n%d.%d:%s:%d:-:%c:%d", c, n, tk, d->code, sim_kind[d->type], d->mid);
      out_blk(d);
    }
  } else {
    cli_reply = d;
  }
}

/* ---- server resource handler */
static void rel_body(coap_session_t *s, void *p) { (void)s; free(p); }
static void hnd_get(coap_resource_t *r, coap_session_t *s, const coap_pdu_t *req, const coap_string_t *q, coap_pdu_t *rsp) {
  int k = -1;
  uint8_t pl[4];
  for (int i = 0; i < nres; i++) if (res[i] == r) k = i;
  if (k >= 0 && res_err[k]) {
    coap_pdu_set_code(rsp, res_err[k] == 2 ? COAP_RESPONSE_CODE_SERVICE_UNAVAILABLE :
                           res_err[k] == 3 ? COAP_RESPONSE_CODE_INTERNAL_ERROR : COAP_RESPONSE_CODE_NOT_FOUND);
    return;
  }
  coap_pdu_set_code(rsp, COAP_RESPONSE_CODE_CONTENT);
  if (k >= 0 && res_blk[k]) {
    /* a body of 2.5 blocks, every byte = the state's version: libcoap cuts it into blocks (lg_xmit) */
    size_t chunk = (size_t)16 << (res_szx[k] < 0 ? 6 : res_szx[k]), len = 2 * chunk + chunk / 2;
    uint8_t *body = (uint8_t *)malloc(len);
    if (!body) { coap_pdu_set_code(rsp, COAP_RESPONSE_CODE_INTERNAL_ERROR); return; }
    memset(body, (int)(res_ver[k] % 251u), len);
    coap_add_data_large_response(r, s, req, rsp, q, COAP_MEDIATYPE_APPLICATION_OCTET_STREAM, -1, 0, len, body, rel_body, body);
    return;
  }
  pl[0] = 'r'; pl[1] = (uint8_t)('0' + k); pl[2] = q ? (uint8_t)('0' + (q->length & 7)) : '-';
  coap_add_data(rsp, 3, pl);
}

/* ---- state dump */
static void dump_state(void) {
  out(" ; t=%llu P%d", (unsigned long long)sim_now, srv->observe_pending ? 1 : 0);
  for (int r = 0; r < nres; r++) {
    if (!res[r]) { out(" R%d=x", r); continue; }
    out(" R%d=%u/%d%d[", r, res[r]->observe, res[r]->dirty ? 1 : 0, res[r]->partiallydirty ? 1 : 0);
    int first = 1;
    for (coap_subscription_t *o = res[r]->subscribers; o; o = o->next) {
      char tk[20];
      sim_tok(tk, o->pdu->actual_token.s, o->pdu->actual_token.length > 8 ? 8 : o->pdu->actual_token.length);
      out("%s%d.%s.%u.%u.%u.%d", first ? "" : ",", cli_of_srv_session(o->session), tk, o->non_cnt, o->fail_cnt, o->dirty,
          (int)(uint16_t)o->pdu->mid);
      first = 0;
    }
    out("]");
  }
  for (int c = 0; c < ncli; c++) {
    coap_session_t *s = srv_session_of(c);
    if (s) out(" S%d=%u/%u/%u", c, s->ref, s->con_active, (unsigned)s->tx_mid); else out(" S%d=-", c);
  }
  if (blockwise)
    for (int c = 0; c < ncli; c++) {
      coap_session_t *s = srv_session_of(c);
      unsigned n = 0;
      if (s) for (coap_lg_xmit_t *l = s->lg_xmit; l; l = l->next) n++;
      if (n) out(" L%d=%u.%llu.%llu", c, n, (unsigned long long)s->lg_xmit->last_obs, (unsigned long long)s->lg_xmit->last_all_sent);
      else out(" L%d=-", c);
    }
  out(" Q[");
  {
    coap_tick_t dl; coap_queue_t *q; unsigned i = 0;
    while ((q = sim_sendq_entry(srv, i, &dl)) != NULL) {
      out("%s%d.%d.%llu.%u", i ? "," : "", cli_of_srv_session(q->session), (int)(uint16_t)q->id, (unsigned long long)dl, q->retransmit_cnt);
      i++;
    }
  }
  out("]");
  if (want_wait) { if (have_wait) out(" W%u", last_wait); else out(" W-"); }
}

#define MAXT 291
/* token index -> token bytes (see the header comment); returns the length 0..8 */
static size_t tok_bytes(int c, int t, uint8_t *tok) {
  static const uint8_t fam[4][8] = { { 0x51, 0x62, 0x73, 0x84, 0x95, 0xa6, 0xb7, 0xc8 }, { 0, 0, 0, 0, 0, 0, 0, 0 },
                                     { 0xa0, 0x01, 0x02, 0x03, 0x04, 0x05, 0x06, 0x07 }, { 0x9f, 0x80, 0x9f, 0x80, 0x9f, 0x80, 0x9f, 0x80 } };
  if (t >= 256) { size_t n = (size_t)((t - 256) % 9); memcpy(tok, fam[((t - 256) / 9) & 3], n); return n; }
  tok[0] = (uint8_t)(t >= 128 ? 0x9F : 0xA0 + c); tok[1] = (uint8_t)t;
  return 2;
}

/* payload variant p of a request: 0 = GET (no payload); 1.. = FETCH (RFC 8132) with Content-Format 42 and the payload
   1 empty, 2 "A", 3 "AB", 4 the bytes 0f 00 01 00 00 00 62 (= what a further Uri-Query option "b" feeds into the cache-key digest) */
static const struct { size_t len; const char *s; } fetch_pl[5] = { {0, ""}, {0, ""}, {1, "A"}, {2, "AB"}, {7, "\x0f\x00\x01\x00\x00\x00\x62"} };
static int send_request(int c, int r, int t, int q, int k, int mid, int observe, int blknum, int x, int pv) {
  uint8_t tok[8]; char path[4]; uint8_t buf[4];
  coap_pdu_t *p;
  size_t tkl = tok_bytes(c, t, tok);
  p = sim_make_pdu(csess[c], k == 'C' ? COAP_MESSAGE_CON : COAP_MESSAGE_NON, pv ? COAP_REQUEST_CODE_FETCH : COAP_REQUEST_CODE_GET, mid, tok, tkl, NULL, 0);
  if (!p) return 0;
  /* options in increasing number order: ETag 4, Observe 6, Uri-Path 11, Uri-Query 15, Block2 23, Size1 60 */
  if (x == 1 || x == 3) coap_add_option(p, COAP_OPTION_ETAG, 2, (const uint8_t *)"\x11\x22");
  if (x == 2 || x == 5) coap_add_option(p, COAP_OPTION_ETAG, 1, (const uint8_t *)"\x33");
  if (x == 3) coap_add_option(p, COAP_OPTION_ETAG, 5, (const uint8_t *)"\x44\x55\x66\x77\x88");
  if (observe >= 0) coap_add_option(p, COAP_OPTION_OBSERVE, coap_encode_var_safe(buf, sizeof(buf), (unsigned)observe), buf);
  snprintf(path, sizeof(path), "r%d", r);
  coap_add_option(p, COAP_OPTION_URI_PATH, 2, (const uint8_t *)path);
  if (pv) coap_add_option(p, COAP_OPTION_CONTENT_FORMAT, 1, (const uint8_t *)"\x2a");
  if (q == 1) coap_add_option(p, COAP_OPTION_URI_QUERY, 3, (const uint8_t *)"a=1");
  else if (q == 2) coap_add_option(p, COAP_OPTION_URI_QUERY, 3, (const uint8_t *)"b=2");
  else if (q == 3) { coap_add_option(p, COAP_OPTION_URI_QUERY, 1, (const uint8_t *)"a"); coap_add_option(p, COAP_OPTION_URI_QUERY, 1, (const uint8_t *)"b"); }
  else if (q == 4) coap_add_option(p, COAP_OPTION_URI_QUERY, 4, (const uint8_t *)"a\x0f\x00" "b");
  else if (q == 5) coap_add_option(p, COAP_OPTION_URI_QUERY, 1, (const uint8_t *)"a");
  if (res_blk[r] && (blknum >= 0 || res_szx[r] >= 0)) {
    /* requests to a block-wise resource negotiate the size; blk:… asks for block <blknum> of the body in progress */
    unsigned v = ((unsigned)(blknum < 0 ? 0 : blknum) << 4) | (unsigned)(res_szx[r] < 0 ? 6 : res_szx[r]);
    coap_add_option(p, COAP_OPTION_BLOCK2, coap_encode_var_safe(buf, sizeof(buf), v), buf);
  }
  if (x == 4) coap_add_option(p, COAP_OPTION_SIZE1, 0, NULL);
  if (x == 5) coap_add_option(p, COAP_OPTION_SIZE1, 1, (const uint8_t *)"\x02");
  if (pv && fetch_pl[pv].len) coap_add_data(p, fetch_pl[pv].len, (const uint8_t *)fetch_pl[pv].s);
  cli_reply = NULL;
  coap_send(csess[c], p);
  if (!cli_reply) return 0;
  /* the request reaches the server now; its response is recorded by on_tx and forwarded to the client afterwards */
  in_request = c + 1; n_to_client_now = 0;
  sim_deliver(cli_reply);
  in_request = 0;
  cli_verdict = COAP_RESPONSE_OK;
  for (int i = 0; i < n_to_client_now; i++) sim_deliver(to_client_now[i]);
  /* a CON request whose response never came (dropped by the server) must not leave a client timer behind */
  coap_cancel_all_messages(cctx[c], csess[c], &(coap_bin_const_t){tkl, tok});
  return 1;
}

static int geti(char **f, int nf, int i) { return i < nf ? atoi(f[i]) : -1; }
static int alldigits(const char *s) { if (!*s || strlen(s) > 6) return 0; for (; *s; s++) if (*s < '0' || *s > '9') return 0; return 1; }

static int do_event(char *ev) {
  char *f[10]; int nf = 0;
  for (char *p = ev; nf < 10;) { f[nf++] = p; p = strchr(p, ':'); if (!p) break; *p++ = 0; }
  const char *op = f[0];
  if (!strcmp(op, "reg") || !strcmp(op, "can") || !strcmp(op, "get")) {
    int c = geti(f, nf, 1), r = geti(f, nf, 2), t = geti(f, nf, 3), q = geti(f, nf, 4), mid = geti(f, nf, 6);
    int x = nf >= 8 ? geti(f, nf, 7) : 0;
    int pv = nf == 9 ? geti(f, nf, 8) : 0;        /* 9th field: FETCH with payload variant 1..4 (not on block-wise resources) */
    if ((nf != 7 && nf != 8 && nf != 9) || c < 0 || c >= ncli || r < 0 || r >= nres || t < 0 || t > MAXT || q < 0 || q > 5 || mid < 0 || mid > 65535 ||
        (f[5][0] != 'C' && f[5][0] != 'N') || (nf >= 8 && !alldigits(f[7])) || x < 0 || x > 5 ||
        (nf == 9 && (!alldigits(f[8]) || pv < 1 || pv > 4 || res_blk[r]))) return 0;
    send_request(c, r, t, q, f[5][0], mid, op[0] == 'r' ? 0 : op[0] == 'c' ? 1 : -1, -1, x, pv);
    return 1;
  }
  if (!strcmp(op, "blk")) {
    int c = geti(f, nf, 1), r = geti(f, nf, 2), t = geti(f, nf, 3), q = geti(f, nf, 4), mid = geti(f, nf, 6), num = geti(f, nf, 7);
    if (nf != 8 || c < 0 || c >= ncli || r < 0 || r >= nres || !res_blk[r] || t < 0 || t > MAXT || q < 0 || q > 2 || mid < 0 ||
        mid > 65535 || (f[5][0] != 'C' && f[5][0] != 'N') || !alldigits(f[7]) || num < 0 || num > 255) return 0;
    send_request(c, r, t, q, f[5][0], mid, -1, num, 0, 0);
    return 1;
  }
  if (!strcmp(op, "chg")) {
    int r = geti(f, nf, 1);
    if (nf != 2 || r < 0 || r >= nres) return 0;
    if (res[r]) { res_ver[r]++; coap_resource_notify_observers(res[r], NULL); }
    return 1;
  }
  if (!strcmp(op, "io")) { if (nf != 1) return 0; last_wait = coap_io_prepare_epoll(srv, sim_now); have_wait = 1; return 1; }
  if (!strcmp(op, "adv")) {
    int ms = geti(f, nf, 1);
    if (nf != 2 || ms < 0) return 0;
    sim_now += (coap_tick_t)ms; last_wait = coap_io_prepare_epoll(srv, sim_now); have_wait = 1; return 1;
  }
  if (!strcmp(op, "ack") || !strcmp(op, "rst")) {
    int c = geti(f, nf, 1), n = geti(f, nf, 2);
    int want_rst = op[0] == 'r';
    if (nf != 3 || c < 0 || c >= ncli || n < 0) return 0;
    if (n >= 1000) { if (n - 1000 >= nnotes[c]) return 1; n = nnotes[c] - 1 - (n - 1000); }   /* 1000+k: k-th most recent */
    if (n >= nnotes[c]) return 1;                  /* no such datagram (yet): nothing happens */
    note_t *nt = &notes[c][n];
    uint8_t exp[4]; size_t explen = 0;
    if (want_rst || nt->d->type == COAP_MESSAGE_CON) {
      exp[0] = (uint8_t)(0x40 | ((want_rst ? COAP_MESSAGE_RST : COAP_MESSAGE_ACK) << 4));
      exp[1] = 0; exp[2] = (uint8_t)(nt->d->mid >> 8); exp[3] = (uint8_t)nt->d->mid; explen = 4;
    }
    if (!nt->seen) {
      /* first delivery: the real client decides */
      nt->seen = 1;
      cli_verdict = want_rst ? COAP_RESPONSE_FAIL : COAP_RESPONSE_OK;
      cli_reply = NULL;
      sim_deliver(nt->d);
      cli_verdict = COAP_RESPONSE_OK;
      if (cli_reply) { nt->have_reply = 1; nt->reply_len = cli_reply->len > 8 ? 8 : cli_reply->len; memcpy(nt->reply, cli_reply->data, nt->reply_len); }
      if ((explen != 0) != (nt->have_reply != 0) || (explen && (nt->reply_len != explen || memcmp(nt->reply, exp, explen)))) {
        nclientdev++;                              /* the real client did not reply as scripted (its own de-duplication) */
      }
    }
    if (explen) sim_inject_endpoint(ep, &csess[c]->addr_info.local, exp, explen);
    return 1;
  }
  if (!strcmp(op, "err")) {
    int r = geti(f, nf, 1), b = geti(f, nf, 2);
    if (nf != 3 || r < 0 || r >= nres || b < 0 || b > 3) return 0;
    res_err[r] = b; return 1;
  }
  if (!strcmp(op, "lost")) {
    int c = geti(f, nf, 1);
    if (nf != 2 || c < 0 || c >= ncli) return 0;
    coap_session_t *s = srv_session_of(c);
    if (s) coap_session_disconnected(s, COAP_NACK_NOT_DELIVERABLE);
    return 1;
  }
  if (!strcmp(op, "del")) {
    int r = geti(f, nf, 1);
    if (nf != 2 || r < 0 || r >= nres) return 0;
    if (res[r]) { coap_delete_resource(srv, res[r]); res[r] = NULL; }
    return 1;
  }
  return 0;
}

static void h_init(void) { sim_global_init(); }

static void step(char *line) {
  char *w[600];
  int n = h_words(line, w, 600);
  int st; char *rs;
  olen = 0; if (obuf) obuf[0] = 0;
  want_wait = n >= 1 && !strcmp(w[0], "obsw");
  if (n < 4 || (strcmp(w[0], "obs") && !want_wait) || strncmp(w[1], "st=", 3) || strncmp(w[2], "R=", 2) || strncmp(w[3], "C=", 2)) { printf("bad-op"); return; }
  st = atoi(w[1] + 3); ncli = atoi(w[3] + 2);
  if (st < 1 || ncli < 1 || ncli > MAXC) { printf("bad-op"); return; }
  sim_reset();
  sim_tx_hook = on_tx;
  sim_log_enabled = 0;
  sim_prng_fill = 0;
  memset(nnotes, 0, sizeof(nnotes)); memset(clen, 0, sizeof(clen)); memset(res_err, 0, sizeof(res_err));
  memset(res_blk, 0, sizeof(res_blk)); memset(res_ver, 0, sizeof(res_ver)); blockwise = 0;
  for (int i = 0; i < MAXR; i++) res_szx[i] = -1;
  for (int i = 0; i < MAXC; i++) clog_[i][0] = 0;
  in_request = 0; cli_verdict = COAP_RESPONSE_OK; nclientdev = 0;
  srv = sim_new_context();
  coap_context_set_session_timeout(srv, (unsigned)st);
  ep = sim_new_endpoint(srv, 0);
  nres = 0; rs = w[2] + 2;
  while (*rs && nres < MAXR) {
    int flags = 0; char m = *rs++;
    unsigned long start = strtoul(rs, &rs, 10);
    char path[4];
    if (m == 'c') flags = COAP_RESOURCE_FLAGS_NOTIFY_CON; else if (m == 'n') flags = COAP_RESOURCE_FLAGS_NOTIFY_NON;
    else if (m == 'a') flags = COAP_RESOURCE_FLAGS_NOTIFY_NON_ALWAYS;
    else if (m == 'b' || m == 'B') {
      res_blk[nres] = 1; blockwise = 1;
      if (m == 'B') flags = COAP_RESOURCE_FLAGS_NOTIFY_CON;
      if (*rs == '/') {
        if (rs[1] < '0' || rs[1] > '6' || (rs[2] && rs[2] != ',')) { nres = -1; break; }
        res_szx[nres] = rs[1] - '0'; rs += 2;
      }
    } else if (m != 'd') { nres = -1; break; }
    snprintf(path, sizeof(path), "r%d", nres);
    res[nres] = coap_resource_init(coap_make_str_const(path), flags);   /* the path is copied (no RELEASE_URI flag) */
    coap_register_request_handler(res[nres], COAP_REQUEST_GET, hnd_get);
    coap_register_request_handler(res[nres], COAP_REQUEST_FETCH, hnd_get);   /* FETCH observations (RFC 8132): same representation */
    coap_resource_set_get_observable(res[nres], 1);
    coap_add_resource(srv, res[nres]);
    coap_persist_set_observe_num(res[nres], (uint32_t)start);
    nres++;
    if (*rs == ',') rs++;
  }
  if (nres < 1 || *rs || (want_wait && blockwise)) { sim_free_all(0); printf("bad-op"); return; }
  if (blockwise) coap_context_set_block_mode(srv, COAP_BLOCK_USE_LIBCOAP);   /* only then: other lines stay byte-identical */
  for (int c = 0; c < ncli; c++) {
    cctx[c] = sim_new_context();
    coap_register_response_handler(cctx[c], cli_on_response);
    csess[c] = sim_new_client(cctx[c], ntohs(ep->bind_addr.addr.sin.sin_port));
  }
  int bad = 0;
  for (int i = 4; i < n; i++) {
    first_out = 1;
    if (i > 4) out(" | ");
    have_wait = 0;
    if (!do_event(w[i])) { bad = 1; break; }
    dump_state();
  }
  if (bad) { sim_free_all(0); printf("bad-op"); return; }
  out(" ||");
  for (int c = 0; c < ncli; c++) out(" C%d:%s", c, clen[c] ? clog_[c] : "-");
  out(" D%d", nclientdev);
  sim_tx_hook = NULL;
  sim_free_all(0);
  fputs(obuf ? obuf : "-", stdout);
}

H_MAIN_LOOP(step)
