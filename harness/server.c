/* server.c — H-sim harness for C10 (server answers each request datagram once with the prescribed code).
 *
 *   srv <mpr> <mts> <known> <unk> <prx> <res> <verdict> <pu> <dst> <hex>
 *   srvq … a sequence of datagrams from several peers at one context: see stepq() below
 *   srvb … the same at a context with a block mode (COAP_BLOCK_USE_LIBCOAP ± COAP_BLOCK_SINGLE_BODY): see stepb() below
 *
 *   mpr      0|1          coap_mcast_per_resource() called on the context
 *   mts      8..          coap_context_set_max_token_size()
 *   known    -|n,n,…      option numbers registered with coap_register_option()
 *   unk      -|MASK:FLAGS                 unknown-resource (handler for method m present iff bit m-1 of MASK, 0..127;
 *                                         see set_handlers(): the constructors' own registrations are relied upon)
 *   prx      -|MASK:FLAGS:NAMEHEX         proxy-URI resource with one host name
 *   res      -|PATHHEX:MASK:FLAGS:OBS;…   ordinary resources (PATHHEX is the registered uri_path, `-` = empty)
 *   verdict  CODE:PAYLOADHEX              what every application handler does: set CODE unless 0, add the payload unless `-`
 *   pu       ignored here (the model's oracle for coap_split_proxy_uri, see Model/Server.lean)
 *   dst      u|m          datagram addressed to the endpoint's unicast address | to the multicast group 224.0.1.187
 *   hex      the request datagram
 *
 * One fresh real coap_context_t per line.  The datagram is injected at the endpoint; the I/O step runs (for a multicast
 * destination virtual time is advanced so that the leisure-delayed response is transmitted).  Output:
 *
 *   tx=<K:code:mid:tok:opts:payload>/…|-  h=<name:code:path:query:opts:payload>/…|-
 *
 * K = C|N|A|R, opts = num=hex,… in wire order, name = r<i> | unk | prx.  Everything libcoap transmitted is listed, and
 * every application handler call with what the handler saw (reconstructed Uri-Path, the query string it was given, the
 * options and payload of the request PDU it was handed).
 */
#include "sim_core.h"

#define MAXRES 16
static int v_code, v_defer;
static int a_mode; static long a_defer = -1; static unsigned long a_count;   /* asq, see stepa() */
static int cur_port = -1;   /* srvq: source port of the datagram being processed */
static int b_mode;          /* srvb: the handler also reports offset / total of coap_get_data_large() */
static uint8_t *v_pl; static size_t v_pllen;
static char names[MAXRES + 2][8];
static coap_resource_t *g_res[MAXRES]; static int g_nres;   /* asq `dr`: the ordinary resources in table order */

static void o_putc(char **b, size_t *n, size_t *cap, int c) {
  if (*n + 2 > *cap) { *cap = (*cap + 64) * 2; *b = (char *)realloc(*b, *cap); }
  (*b)[(*n)++] = (char)c; (*b)[*n] = 0;
}
typedef struct { char *b; size_t n, cap; } sbuf;
static sbuf txs, hs;
static void s_c(sbuf *s, int c) { o_putc(&s->b, &s->n, &s->cap, c); }
static void s_s(sbuf *s, const char *t) { while (*t) s_c(s, *t++); }
static void s_hex(sbuf *s, const uint8_t *b, size_t n) {
  static const char hx[] = "0123456789abcdef";
  if (!n) { s_c(s, '-'); return; }
  for (size_t i = 0; i < n; i++) { s_c(s, hx[b[i] >> 4]); s_c(s, hx[b[i] & 15]); }
}
static void s_u(sbuf *s, unsigned long v) { char t[32]; snprintf(t, sizeof t, "%lu", v); s_s(s, t); }

static void s_opts(sbuf *s, const coap_pdu_t *pdu) {
  coap_opt_iterator_t oi; coap_opt_t *opt; int first = 1;
  if (coap_option_iterator_init(pdu, &oi, COAP_OPT_ALL))
    while ((opt = coap_option_next(&oi))) {
      if (!first) s_c(s, ',');
      first = 0;
      s_u(s, oi.number); s_c(s, '='); s_hex(s, coap_opt_value(opt), coap_opt_length(opt));
    }
  if (first) s_c(s, '-');
}

/* every datagram libcoap writes: decoded with libcoap's own parser (C03) and listed */
static void on_tx(const sim_dgram_t *d) {
  coap_pdu_t *p = coap_pdu_init(0, 0, 0, d->len + 16);
  if (txs.n) s_c(&txs, '/');
  if (cur_port >= 0 && coap_address_get_port(&d->dst) != cur_port) s_s(&txs, "misrouted>");
  if (p && coap_pdu_parse(COAP_PROTO_UDP, d->data, d->len, p)) {
    coap_bin_const_t tok = coap_pdu_get_token(p);
    size_t len = 0; const uint8_t *data = NULL;
    s_c(&txs, sim_kind[coap_pdu_get_type(p) & 3]); s_c(&txs, ':');
    s_u(&txs, coap_pdu_get_code(p)); s_c(&txs, ':');
    s_u(&txs, (uint16_t)coap_pdu_get_mid(p)); s_c(&txs, ':');
    s_hex(&txs, tok.s, tok.length); s_c(&txs, ':');
    s_opts(&txs, p); s_c(&txs, ':');
    if (coap_get_data(p, &len, &data)) s_hex(&txs, data, len); else s_c(&txs, '-');
  } else {
    s_s(&txs, "raw:"); s_hex(&txs, d->data, d->len);
  }
  coap_delete_pdu(p);
}

static void hnd(coap_resource_t *r, coap_session_t *s, const coap_pdu_t *req, const coap_string_t *q, coap_pdu_t *rsp) {
  const char *name = (const char *)coap_resource_get_userdata(r);
  coap_string_t *path = coap_get_uri_path(req);
  size_t len = 0; const uint8_t *data = NULL;
  coap_async_t *as = a_mode ? coap_find_async(s, coap_pdu_get_token(req)) : NULL;
  if (hs.n) s_c(&hs, '/');
  /* asq: the delayed invocation (coap_check_async) of the entry the application numbered <id> */
  if (as) { s_s(&hs, "re"); s_u(&hs, (unsigned long)(uintptr_t)coap_async_get_app_data(as)); s_c(&hs, '>'); }
  s_s(&hs, name ? name : "?"); s_c(&hs, ':');
  s_u(&hs, coap_pdu_get_code(req)); s_c(&hs, ':');
  if (path) s_hex(&hs, path->s, path->length); else s_s(&hs, "null");
  s_c(&hs, ':');
  if (q) s_hex(&hs, q->s, q->length); else s_c(&hs, '-');
  s_c(&hs, ':');
  s_opts(&hs, req); s_c(&hs, ':');
  if (b_mode) {
    /* what a handler that follows coap_block(3) reads: the body (or the block) with its place in the body */
    size_t off = 0, tot = 0;
    if (coap_get_data_large(req, &len, &data, &off, &tot)) s_hex(&hs, data, len); else s_c(&hs, '-');
    s_c(&hs, ':'); s_u(&hs, (unsigned long)off); s_c(&hs, ':'); s_u(&hs, (unsigned long)tot);
  } else
  if (coap_get_data(req, &len, &data)) s_hex(&hs, data, len); else s_c(&hs, '-');
  coap_delete_string(path);
  if (a_mode && !as && a_defer >= 0) {
    /* separate response after a_defer ticks (0: until triggered): remember the request, set nothing now */
    coap_async_t *a;
    /* several separate Confirmable responses to one peer may be in flight (else the later ones wait in the session's
     * delay queue for the acknowledgement of the first: C06) */
    coap_session_set_nstart(s, 64);
    a = coap_register_async(s, req, (coap_tick_t)a_defer);
    if (a) coap_async_set_app_data(a, (void *)(uintptr_t)a_count++);
    return;
  }
  if (v_defer) {
    /* separate response later (RFC 7252 5.2.2): remember the request, set nothing now */
    if (!coap_find_async(s, coap_pdu_get_token(req))) coap_register_async(s, req, 0);
    return;
  }
  if (v_code) coap_pdu_set_code(rsp, (coap_pdu_code_t)v_code);
  if (v_pllen) coap_add_data(rsp, v_pllen, v_pl);
}

static void h_init(void) { sim_global_init(); }

/* The application wants handlers exactly for the methods of `mask`.  `doc` = the methods the constructor registers by
 * itself according to coap_resource(3) (coap_resource_init: none, coap_resource_unknown_init2: PUT,
 * coap_resource_proxy_uri_init2: all): the application relies on those, registers what is missing and unregisters
 * what it does not want — it never re-registers a handler the constructor is documented to have set. */
#define DOC_RES 0u
#define DOC_UNK 4u   /* PUT = method 3 */
#define DOC_PRX 127u
static int mask_bad;   /* a handler mask outside 0..127 */
static void set_handlers(coap_resource_t *r, unsigned mask, unsigned doc) {
  if (mask > 127) mask_bad = 1;
  for (int m = 1; m <= 7; m++) {
    unsigned want = (mask >> (m - 1)) & 1, have = (doc >> (m - 1)) & 1;
    if (want && !have) coap_register_request_handler(r, (coap_request_t)m, hnd);
    else if (!want && have) coap_register_request_handler(r, (coap_request_t)m, NULL);
  }
}

/* splits s in place at every occurrence of sep; returns number of fields */
static int split(char *s, char sep, char **f, int max) {
  int n = 0;
  f[n++] = s;
  for (; *s; s++)
    if (*s == sep && n < max) { *s = 0; f[n++] = s + 1; }
  return n;
}

/* builds the server of words w[1..6] (mpr mts known unk prx res); 0 on a malformed word */
static int setup(char **w, coap_context_t **pctx, coap_endpoint_t **pep) {
  coap_context_t *ctx;
  int bad = 0;
  mask_bad = 0; g_nres = 0;
  sim_reset();
  sim_tx_logger = on_tx; sim_tx_hook = NULL;
  sim_log_events = 0; sim_log_enabled = 0;
  sim_prng_fill = 128;
  *pctx = ctx = sim_new_context();
  *pep = NULL;
  if (!ctx) return 0;
  if (atoi(w[1])) coap_mcast_per_resource(ctx);
  { int mts = atoi(w[2]); if (mts >= 8 && mts <= 65804) coap_context_set_max_token_size(ctx, (size_t)mts); else bad = 1; }
  if (strcmp(w[3], "-")) {
    char *f[16]; int k = split(w[3], ',', f, 16);
    for (int i = 0; i < k; i++) coap_register_option(ctx, (uint16_t)atoi(f[i]));
  }
  if (strcmp(w[4], "-")) {
    char *f[4];
    if (split(w[4], ':', f, 4) != 2) bad = 1;
    else {
      coap_resource_t *r = coap_resource_unknown_init2(hnd, atoi(f[1]));
      set_handlers(r, (unsigned)atoi(f[0]), DOC_UNK);
      strcpy(names[MAXRES], "unk"); coap_resource_set_userdata(r, names[MAXRES]);
      coap_add_resource(ctx, r);
    }
  }
  if (strcmp(w[5], "-")) {
    char *f[4];
    if (split(w[5], ':', f, 4) != 3) bad = 1;
    else {
      size_t nl; uint8_t *nm = h_unhex(f[2], &nl);
      char host[300]; const char *hl[1];
      if (!nm || nl >= sizeof host) bad = 1;
      else {
        memcpy(host, nm, nl); host[nl] = 0; hl[0] = host;
        coap_resource_t *r = coap_resource_proxy_uri_init2(hnd, 1, hl, atoi(f[1]));
        if (r) {
          set_handlers(r, (unsigned)atoi(f[0]), DOC_PRX);
          strcpy(names[MAXRES + 1], "prx"); coap_resource_set_userdata(r, names[MAXRES + 1]);
          coap_add_resource(ctx, r);
        } else bad = 1;
      }
      free(nm);
    }
  }
  if (strcmp(w[6], "-")) {
    char *rs[MAXRES]; int k = split(w[6], ';', rs, MAXRES);
    for (int i = 0; i < k && !bad; i++) {
      char *f[5];
      if (split(rs[i], ':', f, 5) != 4) { bad = 1; break; }
      size_t pl; uint8_t *pb = h_unhex(f[0], &pl);
      if (!pb) { bad = 1; break; }
      coap_str_const_t sc = { pl, pb };
      coap_resource_t *r = coap_resource_init(&sc, atoi(f[2]) & ~COAP_RESOURCE_FLAGS_RELEASE_URI);
      set_handlers(r, (unsigned)atoi(f[1]), DOC_RES);
      if (atoi(f[3])) coap_resource_set_get_observable(r, 1);
      snprintf(names[i], sizeof names[i], "r%d", i); coap_resource_set_userdata(r, names[i]);
      coap_add_resource(ctx, r);
      g_res[i] = r; g_nres = i + 1;
      free(pb);
    }
  }
  *pep = sim_new_endpoint(ctx, 0);
  if (!*pep || mask_bad) bad = 1;
  return !bad;
}

/* CODE:PAYLOADHEX | defer */
static int set_verdict(char *word) {
  char *f[3];
  free(v_pl); v_pl = NULL; v_pllen = 0; v_code = 0; v_defer = 0;
  if (!strcmp(word, "defer")) { v_defer = 1; return 1; }
  if (split(word, ':', f, 3) != 2) return 0;
  v_code = atoi(f[0]); v_pl = h_unhex(f[1], &v_pllen);
  return v_pl != NULL;
}

static void step(char *line) {
  char *w[16];
  int n = h_words(line, w, 16);
  coap_context_t *ctx;
  coap_endpoint_t *ep;
  coap_address_t src, dst;
  uint8_t *dg = NULL; size_t dglen = 0;
  int bad = 0;
  if (n != 11 || strcmp(w[0], "srv")) { printf("bad-op"); return; }
  txs.n = hs.n = 0; if (txs.b) txs.b[0] = 0; if (hs.b) hs.b[0] = 0;
  cur_port = -1;
  if (!setup(w, &ctx, &ep)) bad = 1;
  if (!ctx) { printf("fail"); return; }
  if (!set_verdict(w[7]) || v_defer) bad = 1;
  dg = h_unhex(w[10], &dglen);
  if (!dg || (strcmp(w[9], "u") && strcmp(w[9], "m"))) bad = 1;
  if (bad) { printf("bad-op"); free(dg); sim_free_all(0); return; }
  sim_addr(&src, 40000);
  if (w[9][0] == 'm') {
    coap_address_copy(&dst, &ep->bind_addr);
    dst.addr.sin.sin_addr.s_addr = htonl(0xE00001BBu);     /* 224.0.1.187 All CoAP Nodes */
    sim_inject_endpoint_dst(ep, &src, &dst, dg, dglen);
    for (int i = 0; i < 8; i++) {
      unsigned wt = sim_prepare(ctx);
      if (!wt || sim_now > SIM_T0 + 7000) break;
      sim_now += wt;
    }
  } else {
    sim_inject_endpoint(ep, &src, dg, dglen);
    sim_prepare(ctx);
  }
  free(dg);
  printf("tx=%s h=%s", txs.n ? txs.b : "-", hs.n ? hs.b : "-");
  sim_tx_logger = NULL;
  sim_free_all(0);
}

/*   srvq <mpr> <mts> <known> <unk> <prx> <res>  { <peer> <verdict> <pu> <dst> <hex> }+
 *
 * A SEQUENCE of request datagrams at ONE server context (same configuration words as `srv`).  Datagram k comes from
 * peer <peer> (source port 40000 + peer, 0..15: one libcoap session per peer); <verdict> is CODE:PAYLOADHEX as in `srv`,
 * or `defer`: the handler answers later — unless the request is already registered it calls
 * coap_register_async(session, request, 0) and returns without setting anything (delayed indefinitely: the separate
 * response itself never happens within the line).  Output: one `tx=… h=…` per datagram, joined by ` ;; `; a datagram
 * libcoap transmits to somebody else than the peer whose datagram is being processed is marked `misrouted>`. */
#define MAXSTEPS 8
static void stepq(char *line) {
  char *w[8 + 5 * MAXSTEPS];
  int n = h_words(line, w, 8 + 5 * MAXSTEPS);
  coap_context_t *ctx;
  coap_endpoint_t *ep;
  int k;
  if (n < 12 || (n - 7) % 5 || (n - 7) / 5 > MAXSTEPS) { printf("bad-op"); return; }
  k = (n - 7) / 5;
  if (!setup(w, &ctx, &ep)) { printf(ctx ? "bad-op" : "fail"); if (ctx) sim_free_all(0); return; }
  /* validate every step before anything runs */
  for (int j = 0; j < k; j++) {
    char **s = w + 7 + 5 * j;
    size_t l; uint8_t *b;
    int peer = atoi(s[0]);
    if (peer < 0 || peer > 15 || strlen(s[0]) > 2 || s[0][0] < '0' || s[0][0] > '9') goto bad;
    if (strcmp(s[3], "u") && strcmp(s[3], "m")) goto bad;
    b = h_unhex(s[4], &l); if (!b) goto bad; free(b);
    if (strcmp(s[1], "defer")) {
      const char *c = strchr(s[1], ':');
      if (!c || strchr(c + 1, ':')) goto bad;
      b = h_unhex(c + 1, &l); if (!b) goto bad; free(b);
    }
  }
  for (int j = 0; j < k; j++) {
    char **s = w + 7 + 5 * j;
    coap_address_t src, dst;
    uint8_t *dg; size_t dglen;
    coap_tick_t t0 = sim_now;
    txs.n = hs.n = 0; if (txs.b) txs.b[0] = 0; if (hs.b) hs.b[0] = 0;
    cur_port = 40000 + atoi(s[0]);
    set_verdict(s[1]);
    dg = h_unhex(s[4], &dglen);
    sim_addr(&src, cur_port);
    if (s[3][0] == 'm') {
      coap_address_copy(&dst, &ep->bind_addr);
      dst.addr.sin.sin_addr.s_addr = htonl(0xE00001BBu);
      sim_inject_endpoint_dst(ep, &src, &dst, dg, dglen);
      for (int i = 0; i < 8; i++) {
        unsigned wt = sim_prepare(ctx);
        if (!wt || wt > 6000 || sim_now + wt > t0 + 7000) break;
        sim_now += wt;
      }
    } else {
      sim_inject_endpoint(ep, &src, dg, dglen);
      sim_prepare(ctx);
    }
    free(dg);
    printf("%stx=%s h=%s", j ? " ;; " : "", txs.n ? txs.b : "-", hs.n ? hs.b : "-");
  }
  sim_tx_logger = NULL;
  sim_free_all(0);
  return;
bad:
  printf("bad-op");
  sim_free_all(0);
}

/*   asq <mpr> <mts> <known> <unk> <prx> <res> <tmo>  { event }+
 *
 * Deferred responses (coap_async.c) at ONE server context, virtual clock, session idle timeout <tmo> seconds.  Events:
 *   rx <peer> d<ticks>|r <verdict> <hex>   request datagram from peer (unicast); d<ticks>: the handler, if called for a request
 *                                          coap_find_async() does not know, calls coap_register_async(session, request, ticks)
 *                                          (0 = until triggered), attaches the registration count as app data and sets nothing;
 *                                          r: it answers with <verdict>.  A handler called for a request coap_find_async() knows
 *                                          (the delayed invocation) always answers with the event's <verdict>.
 *   io <dt> <verdict>                      dt ticks pass; coap_check_async(ctx, now) (its return value is printed as w=), then
 *                                          the I/O loop's prepare step (idle sessions)
 *   tr <k> | sd <k> <ticks> | fr <k>       coap_async_trigger / coap_async_set_delay / coap_free_async on the k-th entry of
 *                                          context->async_state
 *   dr <k>                                 coap_delete_resource on the k-th ordinary resource of the table as it is now (the
 *                                          resources behind it move up: handler names r<i> follow the current table)
 * A Confirmable response libcoap transmits is acknowledged by the peer at once (so nothing is retransmitted: C06).
 * Output per event, joined by ` ;; `:
 *   tx=… h=… a=<id:peer:delay:K:code:mid:tok:opts:payload>/…|- s=<peer:ref>/…|- w=<ticks>|-
 * h: a delayed invocation is prefixed `re<id>>`; a: context->async_state in list order with the stored copy of the request;
 * s: the endpoint's sessions with their reference count, sorted by peer. */
#define MAXEV 64
static void ack_cons(coap_endpoint_t *ep, unsigned from) {
  for (unsigned i = from; i < sim_ntx; i++) {
    sim_dgram_t *d = &sim_tx[i];
    /* (read from the bytes: sim_decode() does not decode RFC 8974 extended tokens) */
    if (d->len >= 4 && (d->data[0] >> 6) == 1 && ((d->data[0] >> 4) & 3) == 0 && d->data[1] != 0) {
      uint8_t ack[4] = { 0x60, 0, d->data[2], d->data[3] };
      coap_address_t src; coap_address_copy(&src, &d->dst);
      sim_inject_endpoint(ep, &src, ack, 4);
    }
  }
}
static coap_async_t *nth_async(coap_context_t *ctx, long k) {
  coap_async_t *a = ctx->async_state;
  while (a && k-- > 0) a = a->next;
  return a;
}
static int cmp_pair(const void *a, const void *b) { return ((const int *)a)[0] - ((const int *)b)[0]; }
static void dump_async(coap_context_t *ctx, coap_endpoint_t *ep) {
  coap_async_t *a; coap_session_t *s, *tmp; int first = 1;
  int pr[SIM_MAX_SESS][2]; int n = 0;
  printf(" a=");
  for (a = ctx->async_state; a; a = a->next) {
    sbuf b = { NULL, 0, 0 };
    size_t len = 0; const uint8_t *data = NULL;
    s_u(&b, (unsigned long)(uintptr_t)a->appdata); s_c(&b, ':');
    s_u(&b, (unsigned long)(coap_address_get_port(&a->session->addr_info.remote) - 40000)); s_c(&b, ':');
    s_u(&b, (unsigned long)a->delay); s_c(&b, ':');
    s_c(&b, sim_kind[a->pdu->type & 3]); s_c(&b, ':');
    s_u(&b, a->pdu->code); s_c(&b, ':'); s_u(&b, (uint16_t)a->pdu->mid); s_c(&b, ':');
    s_hex(&b, a->pdu->actual_token.s, a->pdu->actual_token.length); s_c(&b, ':');
    s_opts(&b, a->pdu); s_c(&b, ':');
    if (coap_get_data(a->pdu, &len, &data)) s_hex(&b, data, len); else s_c(&b, '-');
    printf("%s%s", first ? "" : "/", b.b); first = 0; free(b.b);
  }
  if (first) printf("-");
  SESSIONS_ITER(ep->sessions, s, tmp) {
    if (n < SIM_MAX_SESS) { pr[n][0] = coap_address_get_port(&s->addr_info.remote) - 40000; pr[n][1] = (int)s->ref; n++; }
  }
  qsort(pr, (size_t)n, sizeof pr[0], cmp_pair);
  printf(" s=");
  for (int i = 0; i < n; i++) printf("%s%d:%d", i ? "/" : "", pr[i][0], pr[i][1]);
  if (!n) printf("-");
}
static int all_digits(const char *s) { if (!*s || strlen(s) > 9) return 0; for (; *s; s++) if (*s < '0' || *s > '9') return 0; return 1; }
static int ok_verdict(const char *v) {
  const char *c = strchr(v, ':'); size_t l; uint8_t *b;
  if (!c || strchr(c + 1, ':') || c == v) return 0;
  for (const char *q = v; q < c; q++) if (*q < '0' || *q > '9') return 0;
  b = h_unhex(c + 1, &l); if (!b) return 0; free(b);
  return 1;
}
static void stepa(char *line) {
  char *w[9 + 5 * MAXEV];
  int n = h_words(line, w, 9 + 5 * MAXEV);
  coap_context_t *ctx; coap_endpoint_t *ep;
  int i, tmo, out = 0;
  if (n < 10) { printf("bad-op"); return; }
  /* validate every event before anything runs */
  if (!all_digits(w[7]) || (tmo = atoi(w[7])) < 1 || tmo > 1000) { printf("bad-op"); return; }
  for (i = 8; i < n;) {
    if (!strcmp(w[i], "rx") && i + 4 < n + 0) {
      size_t l; uint8_t *b;
      if (!all_digits(w[i + 1]) || atoi(w[i + 1]) > 15) break;
      if (strcmp(w[i + 2], "r") && !(w[i + 2][0] == 'd' && all_digits(w[i + 2] + 1))) break;
      if (!ok_verdict(w[i + 3])) break;
      b = h_unhex(w[i + 4], &l); if (!b) break; free(b);
      i += 5;
    } else if (!strcmp(w[i], "io") && i + 2 < n) {
      if (!all_digits(w[i + 1]) || !ok_verdict(w[i + 2])) break;
      i += 3;
    } else if ((!strcmp(w[i], "tr") || !strcmp(w[i], "fr") || !strcmp(w[i], "dr")) && i + 1 < n) {
      if (!all_digits(w[i + 1])) break;
      i += 2;
    } else if (!strcmp(w[i], "sd") && i + 2 < n) {
      if (!all_digits(w[i + 1]) || !all_digits(w[i + 2])) break;
      i += 3;
    } else break;
  }
  if (i != n) { printf("bad-op"); return; }
  if (!setup(w, &ctx, &ep)) { printf(ctx ? "bad-op" : "fail"); if (ctx) sim_free_all(0); return; }
  coap_context_set_session_timeout(ctx, (unsigned)tmo);
  a_mode = 1; a_count = 0; cur_port = -1;
  for (i = 8; i < n;) {
    unsigned tx0 = sim_ntx;
    coap_tick_t wt = 0; int have_w = 0;
    txs.n = hs.n = 0; if (txs.b) txs.b[0] = 0; if (hs.b) hs.b[0] = 0;
    a_defer = -1;
    if (!strcmp(w[i], "rx")) {
      coap_address_t src; uint8_t *dg; size_t dglen;
      if (w[i + 2][0] == 'd') a_defer = atol(w[i + 2] + 1);
      set_verdict(w[i + 3]);
      dg = h_unhex(w[i + 4], &dglen);
      sim_addr(&src, 40000 + atoi(w[i + 1]));
      sim_inject_endpoint(ep, &src, dg, dglen);
      free(dg);
      ack_cons(ep, tx0);
      a_defer = -1;
      coap_lock_lock(ctx, goto locked);
      wt = coap_check_async(ctx, sim_now);
      coap_lock_unlock(ctx);
      have_w = 1;
      sim_prepare(ctx);
      i += 5;
    } else if (!strcmp(w[i], "io")) {
      set_verdict(w[i + 2]);
      sim_now += (coap_tick_t)atol(w[i + 1]);
      coap_lock_lock(ctx, goto locked);
      wt = coap_check_async(ctx, sim_now);
      coap_lock_unlock(ctx);
      have_w = 1;
      ack_cons(ep, tx0);
      sim_prepare(ctx);
      i += 3;
    } else if (!strcmp(w[i], "tr")) {
      coap_async_t *a = nth_async(ctx, atol(w[i + 1]));
      if (a) coap_async_trigger(a);
      i += 2;
    } else if (!strcmp(w[i], "fr")) {
      coap_async_t *a = nth_async(ctx, atol(w[i + 1]));
      if (a) coap_free_async(a->session, a);
      i += 2;
    } else if (!strcmp(w[i], "dr")) {
      long k = atol(w[i + 1]);
      if (k < g_nres) {
        coap_delete_resource(ctx, g_res[k]);
        for (int j = (int)k; j + 1 < g_nres; j++) { g_res[j] = g_res[j + 1]; coap_resource_set_userdata(g_res[j], names[j]); }
        g_nres--;
      }
      i += 2;
    } else {
      coap_async_t *a = nth_async(ctx, atol(w[i + 1]));
      if (a) coap_async_set_delay(a, (coap_tick_t)atol(w[i + 2]));
      i += 3;
    }
    printf("%stx=%s h=%s", out++ ? " ;; " : "", txs.n ? txs.b : "-", hs.n ? hs.b : "-");
    dump_async(ctx, ep);
    if (have_w) printf(" w=%llu", (unsigned long long)wt); else printf(" w=-");
  }
locked:
  a_mode = 0; a_defer = -1;
  sim_tx_logger = NULL;
  sim_free_all(0);
}

/*   srvb <mpr> <mts> <known> <unk> <prx> <res> <bm>  { <peer> <verdict> <hex> }+
 *
 * A sequence of unicast request datagrams at ONE server context whose block mode is <bm> (coap_context_set_block_mode():
 * 0, 1 = COAP_BLOCK_USE_LIBCOAP, 3 = COAP_BLOCK_USE_LIBCOAP|COAP_BLOCK_SINGLE_BODY; resource flag 512 =
 * COAP_RESOURCE_FLAGS_FORCE_SINGLE_BODY).  Configuration words as in `srv`; one libcoap session per peer.  Output per
 * datagram, joined by ` ;; `:
 *   tx=… h=<name:code:path:query:opts:data:offset:total>|- bm=<session->block_mode afterwards>
 * data / offset / total are what coap_get_data_large() gives the handler. */
static void stepb(char *line) {
  char *w[9 + 3 * MAXSTEPS * 2];
  int n = h_words(line, w, 9 + 3 * MAXSTEPS * 2);
  coap_context_t *ctx;
  coap_endpoint_t *ep;
  int k, bm;
  if (n < 11 || (n - 8) % 3 || (n - 8) / 3 > 2 * MAXSTEPS) { printf("bad-op"); return; }
  k = (n - 8) / 3;
  if (!all_digits(w[7]) || (bm = atoi(w[7])) > 3) { printf("bad-op"); return; }
  for (int j = 0; j < k; j++) {
    char **s = w + 8 + 3 * j;
    size_t l; uint8_t *b;
    if (!all_digits(s[0]) || atoi(s[0]) > 15 || !ok_verdict(s[1])) { printf("bad-op"); return; }
    b = h_unhex(s[2], &l); if (!b) { printf("bad-op"); return; } free(b);
  }
  if (!setup(w, &ctx, &ep)) { printf(ctx ? "bad-op" : "fail"); if (ctx) sim_free_all(0); return; }
  coap_context_set_block_mode(ctx, (uint32_t)bm);
  b_mode = 1;
  for (int j = 0; j < k; j++) {
    char **s = w + 8 + 3 * j;
    coap_address_t src;
    coap_session_t *ss, *tmp;
    uint8_t *dg; size_t dglen;
    unsigned long mode = ctx->block_mode;
    txs.n = hs.n = 0; if (txs.b) txs.b[0] = 0; if (hs.b) hs.b[0] = 0;
    cur_port = 40000 + atoi(s[0]);
    set_verdict(s[1]);
    dg = h_unhex(s[2], &dglen);
    sim_addr(&src, cur_port);
    sim_inject_endpoint(ep, &src, dg, dglen);
    sim_prepare(ctx);
    free(dg);
    SESSIONS_ITER(ep->sessions, ss, tmp) {
      if (coap_address_get_port(&ss->addr_info.remote) == cur_port) mode = ss->block_mode;
    }
    printf("%stx=%s h=%s bm=%lu", j ? " ;; " : "", txs.n ? txs.b : "-", hs.n ? hs.b : "-", mode);
  }
  b_mode = 0;
  sim_tx_logger = NULL;
  sim_free_all(0);
}

static void step_any(char *line) {
  if (!strncmp(line, "srvq ", 5)) stepq(line);
  else if (!strncmp(line, "srvb ", 5)) stepb(line);
  else if (!strncmp(line, "asq ", 4)) stepa(line);
  else step(line);
}

H_MAIN_LOOP(step_any)
