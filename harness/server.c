/* server.c — H-sim harness for C10 (server answers each request datagram once with the prescribed code).
 *
 *   srv <mpr> <mts> <known> <unk> <prx> <res> <verdict> <pu> <dst> <hex>
 *
 *   mpr      0|1          coap_mcast_per_resource() called on the context
 *   mts      8..          coap_context_set_max_token_size()
 *   known    -|n,n,…      option numbers registered with coap_register_option()
 *   unk      -|MASK:FLAGS                 unknown-resource (handler for method m present iff bit m-1 of MASK)
 *   prx      -|MASK:FLAGS:NAMEHEX         proxy-URI resource with one host name
 *   res      -|PATHHEX:MASK:FLAGS:OBS;…   ordinary resources (PATHHEX is the registered uri_path, `-` = empty)
 *   verdict  CODE:PAYLOADHEX              what every application handler does: set CODE unless 0, add the payload unless `-`
 *   pu       ignored here (the model's oracle for coap_split_proxy_uri, see Model/Server.lean)
 *   dst      u|m          datagram addressed to the endpoint's unicast address | to the multicast group 224.0.1.187
 *   hex      the request datagram
 *
 * One fresh real coap_context_t per line.  The datagram is injected at the endpoint; the I/O step runs (for a multicast
 * destination virtual time is advanced so that the leisure-delayed response is transmitted).  Output:
 *
 *   tx=<K:code:mid:tok:opts:payload>/…|-  h=<name:code:path:query:opts:payload>/…|-
 *
 * K = C|N|A|R, opts = num=hex,… in wire order, name = r<i> | unk | prx.  Everything libcoap transmitted is listed, and
 * every application handler call with what the handler saw (reconstructed Uri-Path, the query string it was given, the
 * options and payload of the request PDU it was handed).
 */
#include "sim_core.h"

#define MAXRES 16
static int v_code;
static uint8_t *v_pl; static size_t v_pllen;
static char names[MAXRES + 2][8];

static void o_putc(char **b, size_t *n, size_t *cap, int c) {
  if (*n + 2 > *cap) { *cap = (*cap + 64) * 2; *b = (char *)realloc(*b, *cap); }
  (*b)[(*n)++] = (char)c; (*b)[*n] = 0;
}
typedef struct { char *b; size_t n, cap; } sbuf;
static sbuf txs, hs;
static void s_c(sbuf *s, int c) { o_putc(&s->b, &s->n, &s->cap, c); }
static void s_s(sbuf *s, const char *t) { while (*t) s_c(s, *t++); }
static void s_hex(sbuf *s, const uint8_t *b, size_t n) {
  static const char hx[] = "0123456789abcdef";
  if (!n) { s_c(s, '-'); return; }
  for (size_t i = 0; i < n; i++) { s_c(s, hx[b[i] >> 4]); s_c(s, hx[b[i] & 15]); }
}
static void s_u(sbuf *s, unsigned long v) { char t[32]; snprintf(t, sizeof t, "%lu", v); s_s(s, t); }

static void s_opts(sbuf *s, const coap_pdu_t *pdu) {
  coap_opt_iterator_t oi; coap_opt_t *opt; int first = 1;
  if (coap_option_iterator_init(pdu, &oi, COAP_OPT_ALL))
    while ((opt = coap_option_next(&oi))) {
      if (!first) s_c(s, ',');
      first = 0;
      s_u(s, oi.number); s_c(s, '='); s_hex(s, coap_opt_value(opt), coap_opt_length(opt));
    }
  if (first) s_c(s, '-');
}

/* every datagram libcoap writes: decoded with libcoap's own parser (C03) and listed */
static void on_tx(const sim_dgram_t *d) {
  coap_pdu_t *p = coap_pdu_init(0, 0, 0, d->len + 16);
  if (txs.n) s_c(&txs, '/');
  if (p && coap_pdu_parse(COAP_PROTO_UDP, d->data, d->len, p)) {
    coap_bin_const_t tok = coap_pdu_get_token(p);
    size_t len = 0; const uint8_t *data = NULL;
    s_c(&txs, sim_kind[coap_pdu_get_type(p) & 3]); s_c(&txs, ':');
    s_u(&txs, coap_pdu_get_code(p)); s_c(&txs, ':');
    s_u(&txs, (uint16_t)coap_pdu_get_mid(p)); s_c(&txs, ':');
    s_hex(&txs, tok.s, tok.length); s_c(&txs, ':');
    s_opts(&txs, p); s_c(&txs, ':');
    if (coap_get_data(p, &len, &data)) s_hex(&txs, data, len); else s_c(&txs, '-');
  } else {
    s_s(&txs, "raw:"); s_hex(&txs, d->data, d->len);
  }
  coap_delete_pdu(p);
}

static void hnd(coap_resource_t *r, coap_session_t *s, const coap_pdu_t *req, const coap_string_t *q, coap_pdu_t *rsp) {
  const char *name = (const char *)coap_resource_get_userdata(r);
  coap_string_t *path = coap_get_uri_path(req);
  size_t len = 0; const uint8_t *data = NULL;
  (void)s;
  if (hs.n) s_c(&hs, '/');
  s_s(&hs, name ? name : "?"); s_c(&hs, ':');
  s_u(&hs, coap_pdu_get_code(req)); s_c(&hs, ':');
  if (path) s_hex(&hs, path->s, path->length); else s_s(&hs, "null");
  s_c(&hs, ':');
  if (q) s_hex(&hs, q->s, q->length); else s_c(&hs, '-');
  s_c(&hs, ':');
  s_opts(&hs, req); s_c(&hs, ':');
  if (coap_get_data(req, &len, &data)) s_hex(&hs, data, len); else s_c(&hs, '-');
  coap_delete_string(path);
  if (v_code) coap_pdu_set_code(rsp, (coap_pdu_code_t)v_code);
  if (v_pllen) coap_add_data(rsp, v_pllen, v_pl);
}

static void h_init(void) { sim_global_init(); }

static void set_handlers(coap_resource_t *r, unsigned mask) {
  for (int m = 1; m <= 7; m++)
    coap_register_request_handler(r, (coap_request_t)m, (mask >> (m - 1)) & 1 ? hnd : NULL);
}

/* splits s in place at every occurrence of sep; returns number of fields */
static int split(char *s, char sep, char **f, int max) {
  int n = 0;
  f[n++] = s;
  for (; *s; s++)
    if (*s == sep && n < max) { *s = 0; f[n++] = s + 1; }
  return n;
}

static void step(char *line) {
  char *w[16];
  int n = h_words(line, w, 16);
  coap_context_t *ctx;
  coap_endpoint_t *ep;
  coap_address_t src, dst;
  uint8_t *dg = NULL; size_t dglen = 0;
  int bad = 0;
  if (n != 11 || strcmp(w[0], "srv")) { printf("bad-op"); return; }
  sim_reset();
  txs.n = hs.n = 0; if (txs.b) txs.b[0] = 0; if (hs.b) hs.b[0] = 0;
  sim_tx_logger = on_tx; sim_tx_hook = NULL;
  sim_log_events = 0; sim_log_enabled = 0;
  sim_prng_fill = 128;
  free(v_pl); v_pl = NULL; v_pllen = 0; v_code = 0;
  ctx = sim_new_context();
  if (!ctx) { printf("fail"); return; }
  if (atoi(w[1])) coap_mcast_per_resource(ctx);
  { int mts = atoi(w[2]); if (mts >= 8 && mts <= 65804) coap_context_set_max_token_size(ctx, (size_t)mts); else bad = 1; }
  if (strcmp(w[3], "-")) {
    char *f[16]; int k = split(w[3], ',', f, 16);
    for (int i = 0; i < k; i++) coap_register_option(ctx, (uint16_t)atoi(f[i]));
  }
  if (strcmp(w[4], "-")) {
    char *f[4];
    if (split(w[4], ':', f, 4) != 2) bad = 1;
    else {
      coap_resource_t *r = coap_resource_unknown_init2(hnd, atoi(f[1]));
      set_handlers(r, (unsigned)atoi(f[0]));
      strcpy(names[MAXRES], "unk"); coap_resource_set_userdata(r, names[MAXRES]);
      coap_add_resource(ctx, r);
    }
  }
  if (strcmp(w[5], "-")) {
    char *f[4];
    if (split(w[5], ':', f, 4) != 3) bad = 1;
    else {
      size_t nl; uint8_t *nm = h_unhex(f[2], &nl);
      char host[300]; const char *hl[1];
      if (!nm || nl >= sizeof host) bad = 1;
      else {
        memcpy(host, nm, nl); host[nl] = 0; hl[0] = host;
        coap_resource_t *r = coap_resource_proxy_uri_init2(hnd, 1, hl, atoi(f[1]));
        if (r) {
          set_handlers(r, (unsigned)atoi(f[0]));
          strcpy(names[MAXRES + 1], "prx"); coap_resource_set_userdata(r, names[MAXRES + 1]);
          coap_add_resource(ctx, r);
        } else bad = 1;
      }
      free(nm);
    }
  }
  if (strcmp(w[6], "-")) {
    char *rs[MAXRES]; int k = split(w[6], ';', rs, MAXRES);
    for (int i = 0; i < k && !bad; i++) {
      char *f[5];
      if (split(rs[i], ':', f, 5) != 4) { bad = 1; break; }
      size_t pl; uint8_t *pb = h_unhex(f[0], &pl);
      if (!pb) { bad = 1; break; }
      coap_str_const_t sc = { pl, pb };
      coap_resource_t *r = coap_resource_init(&sc, atoi(f[2]) & ~COAP_RESOURCE_FLAGS_RELEASE_URI);
      set_handlers(r, (unsigned)atoi(f[1]));
      if (atoi(f[3])) coap_resource_set_get_observable(r, 1);
      snprintf(names[i], sizeof names[i], "r%d", i); coap_resource_set_userdata(r, names[i]);
      coap_add_resource(ctx, r);
      free(pb);
    }
  }
  {
    char *f[3];
    if (split(w[7], ':', f, 3) != 2) bad = 1;
    else { v_code = atoi(f[0]); v_pl = h_unhex(f[1], &v_pllen); if (!v_pl) bad = 1; }
  }
  dg = h_unhex(w[10], &dglen);
  if (!dg || (strcmp(w[9], "u") && strcmp(w[9], "m"))) bad = 1;
  ep = sim_new_endpoint(ctx, 0);
  if (!ep) bad = 1;
  if (bad) { printf("bad-op"); free(dg); sim_free_all(0); return; }
  sim_addr(&src, 40000);
  if (w[9][0] == 'm') {
    coap_address_copy(&dst, &ep->bind_addr);
    dst.addr.sin.sin_addr.s_addr = htonl(0xE00001BBu);     /* 224.0.1.187 All CoAP Nodes */
    sim_inject_endpoint_dst(ep, &src, &dst, dg, dglen);
    for (int i = 0; i < 8; i++) {
      unsigned wt = sim_prepare(ctx);
      if (!wt || sim_now > SIM_T0 + 7000) break;
      sim_now += wt;
    }
  } else {
    sim_inject_endpoint(ep, &src, dg, dglen);
    sim_prepare(ctx);
  }
  free(dg);
  printf("tx=%s h=%s", txs.n ? txs.b : "-", hs.n ? hs.b : "-");
  sim_tx_logger = NULL;
  sim_free_all(0);
}

H_MAIN_LOOP(step)
