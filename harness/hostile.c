/* H-pure part of C02: arbitrary bytes through the receive gate of libcoap under ASan/UBSan, at a chosen
 * log level (debug logging walks the PDU a second and third time: the dump in coap_pdu_parse_opt() and
 * coap_show_pdu()).  Log output goes to a null handler so that all formatting code runs.
 *
 *   hparse <udp|tcp|ws> <loglevel 0..8> <hex>
 *
 * Output: the gate's action — `drop` (runt / wrong version: silently ignored), `rst` (malformed datagram:
 * BAD_PACKET + Reset), `bad` (malformed on a stream transport: BAD_PACKET / silently dropped, no reply) or
 * `dispatch <accessor dump>` (handed to the protocol layer).
 */
#include "coap3/coap_libcoap_build.h"
#include "hcommon.h"
#include <sanitizer/asan_interface.h>
#include <malloc.h>

static void null_log(coap_log_t level, const char *message) { (void)level; (void)message; }

static void h_init(void) {
  coap_startup();
  coap_set_log_handler(null_log);
  coap_set_show_pdu_output(0);
}

static coap_proto_t proto_of(const char *s) {
  if (!strcmp(s, "udp")) return COAP_PROTO_UDP;
  if (!strcmp(s, "tcp")) return COAP_PROTO_TCP;
  if (!strcmp(s, "ws")) return COAP_PROTO_WS;
  return COAP_PROTO_NONE;
}

static void dump_pdu(const coap_pdu_t *pdu) {
  coap_opt_iterator_t oi;
  coap_opt_t *opt;
  coap_bin_const_t tok = coap_pdu_get_token(pdu);
  size_t len = 0; const uint8_t *data = NULL;
  int first = 1;
  printf("ok t=%d c=%d m=%d tok=", (int)coap_pdu_get_type(pdu), (int)coap_pdu_get_code(pdu), (int)(uint16_t)coap_pdu_get_mid(pdu));
  h_puthex(stdout, tok.s, tok.length);
  printf(" opts=");
  if (coap_option_iterator_init(pdu, &oi, COAP_OPT_ALL)) {
    while ((opt = coap_option_next(&oi))) {
      if (!first) fputc(',', stdout);
      first = 0;
      printf("%u:", (unsigned)oi.number);
      h_puthex(stdout, coap_opt_value(opt), coap_opt_length(opt));
    }
  }
  if (first) fputc('-', stdout);
  printf(" pl=");
  if (coap_get_data(pdu, &len, &data)) h_puthex(stdout, data, len); else fputc('-', stdout);
}

/* the gate as coap_handle_dgram() / coap_read_session() apply it, without a session */
static void gate(coap_proto_t proto, const uint8_t *data, size_t len) {
  coap_pdu_t *pdu;
  int ok = 0, copied = 0;
  if (proto == COAP_PROTO_UDP) {
    if (len < 4) { printf("drop"); return; }
    if ((data[0] >> 6) != COAP_DEFAULT_VERSION) { printf("drop"); return; }
  }
  if (proto == COAP_PROTO_WS && !(len > 2)) { printf("drop"); return; }
  pdu = coap_pdu_init(0, 0, 0, COAP_DEFAULT_MAX_PDU_RX_SIZE - COAP_PDU_MAX_TCP_HEADER_SIZE);
  if (!pdu) { printf("fail"); return; }
  if (proto == COAP_PROTO_TCP) {
    if (len >= 1) {
      size_t hdr_size = coap_pdu_parse_header_size(proto, data);
      size_t tkl = data[0] & 0x0f;
      size_t tok_ext_bytes = tkl == COAP_TOKEN_EXT_1B_TKL ? 1 : tkl == COAP_TOKEN_EXT_2B_TKL ? 2 : 0;
      if (hdr_size && len >= hdr_size + tok_ext_bytes) {
        size_t size = coap_pdu_parse_size(proto, data, hdr_size + tok_ext_bytes);
        if (hdr_size + size == len && size <= COAP_DEFAULT_MAX_PDU_RX_SIZE &&
            (pdu->alloc_size >= size || coap_pdu_resize(pdu, size))) {
          pdu->hdr_size = (uint8_t)hdr_size;
          pdu->used_size = size;
          memcpy(pdu->token - hdr_size, data, len);
          ok = coap_pdu_parse_header(pdu, proto) && (size == 0 || coap_pdu_parse_opt(pdu));
          copied = 1;
        }
      }
    }
  } else {
    ok = coap_pdu_parse(proto, data, len, pdu);
    size_t hs = len ? coap_pdu_parse_header_size(proto, data) : 0;
    copied = hs && hs <= len && hs <= pdu->max_hdr_size;
  }
  if (copied) {
    /* A message shorter than 256 bytes sits in a 256-byte buffer (coap_pdu_init) whose unused rest would hide a read behind
     * the message: make that rest inaccessible for ASan and walk the message again (same functions, same verdict expected);
     * the debug dump and the accessor dump below then run on the guarded buffer as well. */
    size_t real = malloc_usable_size(pdu->token - pdu->max_hdr_size);
    if (real > (size_t)pdu->max_hdr_size + pdu->used_size)
      ASAN_POISON_MEMORY_REGION(pdu->token + pdu->used_size, real - pdu->max_hdr_size - pdu->used_size);
    int again = coap_pdu_parse_header(pdu, proto) && (pdu->used_size == 0 && proto == COAP_PROTO_TCP ? 1 : coap_pdu_parse_opt(pdu));
    if (again != ok) { printf("unstable first=%d again=%d ", ok, again); }
  }
  if (ok) {
    coap_show_pdu(COAP_LOG_DEBUG, pdu);
    printf("dispatch ");
    dump_pdu(pdu);
  } else {
    printf(proto == COAP_PROTO_UDP ? "rst m=%d" : "bad", (int)(uint16_t)pdu->mid);
  }
  coap_delete_pdu(pdu);
}

static void step(char *line) {
  char *w[8];
  int n = h_words(line, w, 8);
  if (n == 4 && !strcmp(w[0], "hparse")) {
    size_t len; uint8_t *b = h_unhex(w[3], &len);
    coap_proto_t p = proto_of(w[1]);
    if (!b || p == COAP_PROTO_NONE) { printf("bad-op"); free(b); return; }
    coap_set_log_level((coap_log_t)atoi(w[2]));
    gate(p, b, len);
    free(b);
    return;
  }
  printf("bad-op");
}

H_MAIN_LOOP(step)
