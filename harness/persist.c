/* H-fs harness for C17 (observe persistence survives a process kill).
 *
 *   persist <save_freq> <event> <event> ...
 *   persistep <save_freq> <kinds> <event> <event> ...
 *
 * persist: the server context has one UDP endpoint (127.0.0.1:45683) and there are NCLI clients.
 * persistep: <kinds> = 1..3 distinct digits of 0..2 = the UDP endpoints of the context in creation order (0 = 127.0.0.1:45683,
 * 1 = 127.0.0.1:45685, 2 = 127.0.0.2:45683; coap_new_endpoint() prepends, so context->endpoint lists them in reverse);
 * there are 3*NCLI clients and client c talks to the endpoint at position (c / NCLI) % #endpoints; every restart (clean or
 * after a kill) creates the same endpoints in the same order.
 *
 * events (i = resource index 0..NRES-1, c = client index 0..NCLI-1, v = token version 0..9):
 *   c<i>        client 0 PUTs to the unknown path res_name[i]  -> the unknown-resource handler creates an
 *               observable dynamic resource (as examples/coap-server.c does)
 *   d<i>        client 0 DELETEs resource i (its DELETE handler calls coap_delete_resource())
 *   a<c>.<i>.<v> client c sends GET Observe:0 for resource i with token {c,i,v,0xAA}
 *   x<c>.<i>.<v> client c sends GET Observe:1
 *   n<i>        coap_resource_notify_observers() + coap_check_notify() on resource i
 *   j<i>.<val>  coap_persist_set_observe_num(r, val) followed by the context's track_observe_value callback
 *               (emulates a long run of notifications; used to reach the 24-bit wrap)
 *   r           clean restart: coap_persist_stop(), coap_free_context(), new context, coap_persist_startup()
 *
 * Every datagram goes through the real coap_handle_dgram() of a real server context (UDP endpoint on
 * 127.0.0.1:45683, nothing ever crosses the socket: coap_socket_send is wrapped and records the Observe value of
 * every notification).  stdio + rename/remove are wrapped (-Wl,--wrap=...): calls on the three persistence files
 * and their .tmp siblings are logged and counted.
 *
 * For every event and every k >= 1 a child process runs the event on a private copy of the directory and is
 * _exit()ed immediately before the k-th wrapped call (k = K+1: the event completed); a second child then prints the
 * canonical contents of the files, creates a fresh context, calls coap_persist_startup() and dumps resources,
 * subscribers and the first Observe value each resource puts on the wire afterwards.
 *
 * output:  f=<f> [<ev> L=<op log> K=<n> <k-range>{<state>} ...] [<ev> ...] ...
 */
#include "coap3/coap_libcoap_build.h"
#include "hcommon.h"
#include <sys/wait.h>
#include <sys/stat.h>
#include <fcntl.h>
#include <unistd.h>
#include <stdarg.h>
#include <errno.h>
#include <arpa/inet.h>

#define NRES 6
#define NCLI 3
#define SRV_PORT 45683
#define CLI_PORT 40000
static const char *res_name[NRES] = {"a", "bb", "dyn/c", "a0", "sensors/temp/1", ""};   /* index 5: the root resource */
static const char *fnames[6] = {"dyn", "obs", "cnt", "dyn.tmp", "obs.tmp", "cnt.tmp"};

/* ---------------------------------------------------------------- wrapped stdio */
FILE *__real_fopen(const char *, const char *);
size_t __real_fread(void *, size_t, size_t, FILE *);
size_t __real_fwrite(const void *, size_t, size_t, FILE *);
char *__real_fgets(char *, int, FILE *);
int __real_fflush(FILE *);
int __real_fclose(FILE *);
int __real_rename(const char *, const char *);
int __real_remove(const char *);
int __real_fputs(const char *, FILE *);
int __real_fputc(int, FILE *);
int __real_vfprintf(FILE *, const char *, va_list);

static int trk;                 /* counting enabled */
static long opcnt, kill_at;     /* kill immediately before the kill_at-th counted call */
static struct { FILE *fp; int name; } open_fp[16];
static char *oplog; static size_t oplog_len, oplog_cap;
static int want_log;

static int pname(const char *p) {
  for (int i = 0; i < 6; i++) if (!strcmp(p, fnames[i])) return i;
  return -1;
}
static int fpname(FILE *fp) {
  for (int i = 0; i < 16; i++) if (open_fp[i].fp == fp) return open_fp[i].name;
  return -1;
}
static void tick(void) {
  opcnt++;
  if (kill_at && opcnt == kill_at) _exit(0);
}
static void olog(const char *fmt, ...) {
  char b[256]; va_list ap; int n;
  if (!want_log) return;
  va_start(ap, fmt); n = vsnprintf(b, sizeof b, fmt, ap); va_end(ap);
  if (oplog_len + n + 2 > oplog_cap) { oplog_cap = (oplog_cap + n + 2) * 2; oplog = realloc(oplog, oplog_cap); }
  if (oplog_len) oplog[oplog_len++] = ' ';
  memcpy(oplog + oplog_len, b, n + 1); oplog_len += n;
}

FILE *__wrap_fopen(const char *path, const char *mode) {
  int nm = trk ? pname(path) : -1;
  FILE *f;
  if (nm < 0) return __real_fopen(path, mode);
  tick();
  f = __real_fopen(path, mode);
  olog("o:%s:%s:%d", path, mode, f != NULL);
  if (f) for (int i = 0; i < 16; i++) if (!open_fp[i].fp) { open_fp[i].fp = f; open_fp[i].name = nm; break; }
  return f;
}
size_t __wrap_fread(void *p, size_t sz, size_t n, FILE *fp) {
  int nm = trk ? fpname(fp) : -1; size_t r;
  if (nm < 0) return __real_fread(p, sz, n, fp);
  tick();
  r = __real_fread(p, sz, n, fp);
  olog("R:%s:%zu:%zu", fnames[nm], sz * n, r);
  return r;
}
size_t __wrap_fwrite(const void *p, size_t sz, size_t n, FILE *fp) {
  int nm = trk ? fpname(fp) : -1; size_t r;
  if (nm < 0) return __real_fwrite(p, sz, n, fp);
  tick();
  r = __real_fwrite(p, sz, n, fp);
  olog("W:%s:%zu", fnames[nm], sz * n);
  return r;
}
char *__wrap_fgets(char *s, int n, FILE *fp) {
  int nm = trk ? fpname(fp) : -1; char *r;
  if (nm < 0) return __real_fgets(s, n, fp);
  tick();
  r = __real_fgets(s, n, fp);
  if (r) olog("G:%s:%zu", fnames[nm], strlen(r)); else olog("G:%s:eof", fnames[nm]);
  return r;
}
int __wrap_vfprintf(FILE *fp, const char *fmt, va_list ap) {
  int nm = trk ? fpname(fp) : -1; int r;
  if (nm < 0) return __real_vfprintf(fp, fmt, ap);
  tick();
  r = __real_vfprintf(fp, fmt, ap);
  olog("W:%s:%d", fnames[nm], r);
  return r;
}
int __wrap_fprintf(FILE *fp, const char *fmt, ...) {
  va_list ap; int r;
  va_start(ap, fmt); r = __wrap_vfprintf(fp, fmt, ap); va_end(ap);
  return r;
}
int __wrap_fputs(const char *s, FILE *fp) {
  int nm = trk ? fpname(fp) : -1; int r;
  if (nm < 0) return __real_fputs(s, fp);
  tick();
  r = __real_fputs(s, fp);
  olog("W:%s:%zu", fnames[nm], strlen(s));
  return r;
}
int __wrap_fputc(int c, FILE *fp) {
  int nm = trk ? fpname(fp) : -1; int r;
  if (nm < 0) return __real_fputc(c, fp);
  tick();
  r = __real_fputc(c, fp);
  olog("W:%s:1", fnames[nm]);
  return r;
}
int __wrap_fflush(FILE *fp) {
  int nm = (trk && fp) ? fpname(fp) : -1; int r;
  if (nm < 0) return __real_fflush(fp);
  tick();
  r = __real_fflush(fp);
  olog("F:%s", fnames[nm]);
  return r;
}
int __wrap_fclose(FILE *fp) {
  int nm = trk ? fpname(fp) : -1; int r;
  if (nm < 0) return __real_fclose(fp);
  tick();
  for (int i = 0; i < 16; i++) if (open_fp[i].fp == fp) open_fp[i].fp = NULL;
  r = __real_fclose(fp);
  olog("c:%s", fnames[nm]);
  return r;
}
int __wrap_rename(const char *a, const char *b) {
  int r;
  if (!trk || (pname(a) < 0 && pname(b) < 0)) return __real_rename(a, b);
  tick();
  r = __real_rename(a, b);
  olog("mv:%s:%s:%d", a, b, r == 0);
  return r;
}
int __wrap_remove(const char *a) {
  int r;
  if (!trk || pname(a) < 0) return __real_remove(a);
  tick();
  r = __real_remove(a);
  olog("rm:%s:%d", a, r == 0);
  return r;
}

/* ---------------------------------------------------------------- wire capture */
static int wire_fd = -1;                 /* child A reports what it sent before dying */
#define MAXSENT 12
static uint32_t sent[NRES][MAXSENT]; static int nsent[NRES];
static int probe_mode; static long probe_val[NRES];

static void note_sent(int i, uint32_t v) {
  if (probe_mode) { if (probe_val[i] < 0) probe_val[i] = v; return; }
  if (nsent[i] == MAXSENT) { memmove(sent[i], sent[i] + 1, sizeof(uint32_t) * (MAXSENT - 1)); nsent[i]--; }
  sent[i][nsent[i]++] = v;
  if (wire_fd >= 0) { char b[40]; int n = snprintf(b, sizeof b, "%d %u\n", i, v); if (write(wire_fd, b, n) < 0) {} }
}

ssize_t __wrap_coap_socket_send(coap_socket_t *sock, coap_session_t *session, const uint8_t *data, size_t datalen) {
  coap_pdu_t *pdu = coap_pdu_init(0, 0, 0, datalen + 16);
  (void)sock; (void)session;
  if (pdu && coap_pdu_parse(COAP_PROTO_UDP, data, datalen, pdu)) {
    coap_opt_iterator_t oi;
    coap_opt_t *o = coap_check_option(pdu, COAP_OPTION_OBSERVE, &oi);
    coap_bin_const_t tok = coap_pdu_get_token(pdu);
    /* a notification: 2.05 with Observe whose message type is not ACK (the registration response is piggybacked
       only for CON requests; ours are NON, so distinguish by the marker payload instead) */
    if (o && pdu->code == COAP_RESPONSE_CODE(205) && tok.length == 4 && tok.s[3] == 0xAA && tok.s[1] < NRES) {
      size_t len; const uint8_t *d;
      uint32_t v = coap_decode_var_bytes(coap_opt_value(o), coap_opt_length(o));
      if (coap_get_data(pdu, &len, &d) && len >= 1 && d[0] == 'N')
        note_sent(tok.s[1], v);
    }
  }
  coap_delete_pdu(pdu);
  return (ssize_t)datalen;
}

/* ---------------------------------------------------------------- the server */
static coap_context_t *g_ctx;
#define MAXEP 3
static coap_endpoint_t *g_eps[MAXEP];
static int g_kinds[MAXEP] = {0}, g_neps = 1, g_ncli = NCLI;
static coap_endpoint_t *ep_of(int c) { return g_eps[(c / NCLI) % g_neps]; }
static unsigned g_f = 1;
static uint16_t g_mid = 100;
static int in_notify;

static void hnd_get(coap_resource_t *r, coap_session_t *s, const coap_pdu_t *req, const coap_string_t *q, coap_pdu_t *resp) {
  (void)r; (void)s; (void)q;
  coap_pdu_set_code(resp, COAP_RESPONSE_CODE_CONTENT);
  /* payload 'N' on a notification (request == the stored subscription pdu), 'G' on a plain response */
  coap_add_data(resp, 1, (const uint8_t *)(in_notify ? "N" : "G"));
  (void)req;
}
static void hnd_put(coap_resource_t *r, coap_session_t *s, const coap_pdu_t *req, const coap_string_t *q, coap_pdu_t *resp) {
  (void)r; (void)s; (void)req; (void)q;
  coap_pdu_set_code(resp, COAP_RESPONSE_CODE_CHANGED);
}
static void hnd_delete(coap_resource_t *r, coap_session_t *s, const coap_pdu_t *req, const coap_string_t *q, coap_pdu_t *resp) {
  (void)s; (void)req; (void)q;
  coap_delete_resource(NULL, r);
  coap_pdu_set_code(resp, COAP_RESPONSE_CODE_DELETED);
}
static void hnd_unknown(coap_resource_t *ur, coap_session_t *s, const coap_pdu_t *req, const coap_string_t *q, coap_pdu_t *resp) {
  coap_resource_t *r;
  coap_string_t *uri_path = coap_get_uri_path(req);
  (void)ur; (void)q;
  if (!uri_path) { coap_pdu_set_code(resp, COAP_RESPONSE_CODE_NOT_FOUND); return; }
  r = coap_resource_init((coap_str_const_t *)uri_path, COAP_RESOURCE_FLAGS_RELEASE_URI | COAP_RESOURCE_FLAGS_NOTIFY_NON_ALWAYS);
  coap_register_request_handler(r, COAP_REQUEST_PUT, hnd_put);
  coap_register_request_handler(r, COAP_REQUEST_DELETE, hnd_delete);
  coap_resource_set_get_observable(r, 1);
  coap_register_request_handler(r, COAP_REQUEST_GET, hnd_get);
  coap_add_resource(coap_session_get_context(s), r);
  coap_pdu_set_code(resp, COAP_RESPONSE_CODE_CREATED);
}

static void server_new(void) {
  coap_address_t a;
  coap_resource_t *ur;
  g_ctx = coap_new_context(NULL);
  for (int e = 0; e < g_neps; e++) {
    coap_address_init(&a);
    a.addr.sin.sin_family = AF_INET;
    a.addr.sin.sin_port = htons(g_kinds[e] == 1 ? SRV_PORT + 2 : SRV_PORT);
    a.addr.sin.sin_addr.s_addr = htonl(g_kinds[e] == 2 ? INADDR_LOOPBACK + 1 : INADDR_LOOPBACK);
    a.size = sizeof(struct sockaddr_in);
    g_eps[e] = coap_new_endpoint(g_ctx, &a, COAP_PROTO_UDP);
    if (!g_eps[e]) { printf("fail-endpoint"); fflush(stdout); _exit(3); }
  }
  ur = coap_resource_unknown_init2(hnd_unknown, 0);
  coap_add_resource(g_ctx, ur);
  if (!coap_persist_startup(g_ctx, "dyn", "obs", "cnt", g_f)) { printf("fail-startup"); fflush(stdout); _exit(3); }
}

static coap_session_t *sess(int c) {
  coap_packet_t pkt; coap_tick_t now;
  memset(&pkt, 0, sizeof pkt);
  coap_address_copy(&pkt.addr_info.local, &ep_of(c)->bind_addr);
  coap_address_init(&pkt.addr_info.remote);
  pkt.addr_info.remote.addr.sin.sin_family = AF_INET;
  pkt.addr_info.remote.addr.sin.sin_port = htons(CLI_PORT + c);
  pkt.addr_info.remote.addr.sin.sin_addr.s_addr = htonl(INADDR_LOOPBACK);
  pkt.addr_info.remote.size = sizeof(struct sockaddr_in);
  coap_ticks(&now);
  return coap_endpoint_get_session(ep_of(c), &pkt, now);
}

static size_t mk_req(uint8_t *out, size_t cap, int code, const uint8_t *tok, size_t tl, const char *path, int observe,
                     const char *payload) {
  coap_pdu_t *p = coap_pdu_init(COAP_MESSAGE_NON, code, g_mid++, 512);
  uint8_t b[4]; size_t n;
  const char *s = path;
  coap_add_token(p, tl, tok);
  if (observe >= 0) coap_add_option(p, COAP_OPTION_OBSERVE, coap_encode_var_safe(b, sizeof b, observe), b);
  while (*s) {
    const char *e = strchr(s, '/'); size_t l = e ? (size_t)(e - s) : strlen(s);
    coap_add_option(p, COAP_OPTION_URI_PATH, l, (const uint8_t *)s);
    s += l; if (*s == '/') s++;
  }
  if (payload) coap_add_data(p, strlen(payload), (const uint8_t *)payload);
  coap_pdu_encode_header(p, COAP_PROTO_UDP);
  n = p->used_size + p->hdr_size;
  if (n > cap) n = 0; else memcpy(out, p->token - p->hdr_size, n);
  coap_delete_pdu(p);
  return n;
}

static void deliver(int c, uint8_t *msg, size_t n) {
  coap_session_t *s;
  coap_lock_lock(g_ctx, return);
  s = sess(c);
  if (s) coap_handle_dgram(g_ctx, s, msg, n);
  coap_lock_unlock(g_ctx);
}

static coap_resource_t *find_res(int i) {
  coap_str_const_t nm = { strlen(res_name[i]), (const uint8_t *)res_name[i] };
  coap_resource_t *r;
  coap_lock_lock(g_ctx, return NULL);
  r = coap_get_resource_from_uri_path_lkd(g_ctx, &nm);
  coap_lock_unlock(g_ctx);
  return r;
}

static void do_notify(int i) {
  coap_resource_t *r = find_res(i);
  if (!r) return;
  coap_resource_notify_observers(r, NULL);
  in_notify = 1;
  coap_check_notify(g_ctx);
  in_notify = 0;
}

/* parses and runs one event; returns 0 on a malformed event word */
static int run_event(const char *ev) {
  uint8_t msg[600], tok[4]; size_t n;
  int c, i, v; unsigned val;
  if (ev[0] == 'c' && sscanf(ev + 1, "%d", &i) == 1 && i >= 0 && i < NRES) {
    tok[0] = 0xC0; tok[1] = (uint8_t)i;
    n = mk_req(msg, sizeof msg, COAP_REQUEST_CODE_PUT, tok, 2, res_name[i], -1, "v");
    deliver(0, msg, n); return 1;
  }
  if (ev[0] == 'd' && sscanf(ev + 1, "%d", &i) == 1 && i >= 0 && i < NRES) {
    tok[0] = 0xD0; tok[1] = (uint8_t)i;
    n = mk_req(msg, sizeof msg, COAP_REQUEST_CODE_DELETE, tok, 2, res_name[i], -1, NULL);
    deliver(0, msg, n);
    nsent[i] = 0;      /* a resource created later under the same name is a new resource: its Observe values start afresh */
    return 1;
  }
  if ((ev[0] == 'a' || ev[0] == 'x') && sscanf(ev + 1, "%d.%d.%d", &c, &i, &v) == 3 && c >= 0 && c < g_ncli && i >= 0 &&
      i < NRES && v >= 0 && v < 10) {
    tok[0] = (uint8_t)c; tok[1] = (uint8_t)i; tok[2] = (uint8_t)v; tok[3] = 0xAA;
    n = mk_req(msg, sizeof msg, COAP_REQUEST_CODE_GET, tok, 4, res_name[i], ev[0] == 'a' ? 0 : 1, NULL);
    deliver(c, msg, n); return 1;
  }
  if (ev[0] == 'n' && sscanf(ev + 1, "%d", &i) == 1 && i >= 0 && i < NRES) { do_notify(i); return 1; }
  if (ev[0] == 'j' && sscanf(ev + 1, "%d.%u", &i, &val) == 2 && i >= 0 && i < NRES) {
    coap_resource_t *r = find_res(i);
    if (r) {
      coap_persist_set_observe_num(r, val);
      nsent[i] = 0;
      /* the call-out is made by libcoap with the global lock held */
      coap_lock_lock(g_ctx, return 1);
      if (g_ctx->track_observe_value)
        g_ctx->track_observe_value(g_ctx, r->uri_path, r->observe, g_ctx->observe_user_data);
      coap_lock_unlock(g_ctx);
    }
    return 1;
  }
  if (!strcmp(ev, "r")) {
    coap_persist_stop(g_ctx);
    coap_free_context(g_ctx);
    server_new();
    return 1;
  }
  return 0;
}

/* ---------------------------------------------------------------- canonical dump */
static char *sb; static size_t sb_len, sb_cap;
static void sput(const char *fmt, ...) {
  char b[512]; va_list ap; int n;
  va_start(ap, fmt); n = vsnprintf(b, sizeof b, fmt, ap); va_end(ap);
  if (sb_len + n + 1 > sb_cap) { sb_cap = (sb_cap + n + 1) * 2; sb = realloc(sb, sb_cap); }
  memcpy(sb + sb_len, b, n + 1); sb_len += n;
}

static uint8_t *slurp(const char *p, size_t *len) {
  int fd = open(p, O_RDONLY); struct stat st; uint8_t *b;
  if (fd < 0) return NULL;
  fstat(fd, &st);
  b = malloc(st.st_size + 1);
  *len = 0;
  while (*len < (size_t)st.st_size) { ssize_t r = read(fd, b + *len, st.st_size - *len); if (r <= 0) break; *len += r; }
  close(fd);
  return b;
}
static int name_idx(const uint8_t *s, size_t l) {
  for (int i = 0; i < NRES; i++) if (strlen(res_name[i]) == l && !memcmp(res_name[i], s, l)) return i;
  return -1;
}
static int pdu_path_idx(coap_pdu_t *p) {
  coap_string_t *u = coap_get_uri_path(p); int i = -1;
  if (u) { i = name_idx(u->s, u->length); coap_delete_string(u); }
  return i;
}
static int64_t rd8(const uint8_t *b) { int64_t v; memcpy(&v, b, 8); return v; }

static void dump_dyn(void) {
  size_t len, o = 0; uint8_t *b = slurp("dyn", &len); int first = 1;
  sput("D:");
  if (!b) { sput("~"); return; }
  while (o < len) {
    int64_t nl, pl; int idx, ok = 0; uint32_t proto;
    coap_pdu_t *p;
    if (len - o < 12) break;
    memcpy(&proto, b + o, 4); nl = rd8(b + o + 4);
    if (nl < 0 || nl > 0x10000 || len - o < 12 + (size_t)nl + 8) break;
    pl = rd8(b + o + 12 + nl);
    if (pl <= 0 || pl > 0x10000 || len - o < 20 + (size_t)nl + (size_t)pl) break;
    idx = name_idx(b + o + 12, nl);
    p = coap_pdu_init(0, 0, 0, pl + 16);
    if (p && coap_pdu_parse(COAP_PROTO_UDP, b + o + 20 + nl, pl, p) && p->code == COAP_REQUEST_CODE_PUT &&
        pdu_path_idx(p) == idx && proto == COAP_PROTO_UDP) ok = 1;
    coap_delete_pdu(p);
    sput("%s%d%s", first ? "" : ",", idx, ok ? "" : "!");
    first = 0;
    o += 20 + nl + pl;
  }
  if (o < len) sput("+torn");
  else if (first) sput("-");
  free(b);
}
static void dump_obs(void) {
  size_t len, o = 0; uint8_t *b = slurp("obs", &len); int first = 1;
  const size_t fixed = 8 + sizeof(coap_proto_t) + sizeof(coap_address_t) + sizeof(coap_addr_tuple_t);
  sput("O:");
  if (!b) { sput("~"); return; }
  while (o < len) {
    int64_t pl, ol; int ok = 0; coap_pdu_t *p; coap_proto_t proto; coap_address_t la; coap_addr_tuple_t tu;
    int c = -1, i = -1, v = -1;
    size_t q;
    if (len - o < fixed + 8) break;
    memcpy(&proto, b + o + 8, sizeof proto);
    memcpy(&la, b + o + 8 + sizeof proto, sizeof la);
    memcpy(&tu, b + o + 8 + sizeof proto + sizeof la, sizeof tu);
    pl = rd8(b + o + fixed);
    if (pl <= 0 || pl > 0x10000 || len - o < fixed + 8 + (size_t)pl + 8) break;
    q = o + fixed + 8 + pl;
    ol = rd8(b + q);
    if (ol != -1 && (ol <= 0 || ol > 0x10000 || len - q < 8 + (size_t)ol)) break;
    p = coap_pdu_init(0, 0, 0, pl + 16);
    if (p && coap_pdu_parse(COAP_PROTO_UDP, b + o + fixed + 8, pl, p)) {
      coap_bin_const_t t = coap_pdu_get_token(p);
      coap_opt_iterator_t oi; coap_opt_t *ob = coap_check_option(p, COAP_OPTION_OBSERVE, &oi);
      if (t.length == 4 && t.s[3] == 0xAA) { c = t.s[0]; i = t.s[1]; v = t.s[2]; }
      if (i >= 0 && i < NRES && pdu_path_idx(p) == i && ob && coap_opt_length(ob) == 0 && p->code == COAP_REQUEST_CODE_GET &&
          proto == COAP_PROTO_UDP && c < g_ncli && !memcmp(&la, &ep_of(c)->bind_addr, sizeof la) &&
          ntohs(tu.remote.addr.sin.sin_port) == CLI_PORT + c && ol == -1) ok = 1;
    }
    coap_delete_pdu(p);
    sput("%s%d.%d.%d%s", first ? "" : ",", c, i, v, ok ? "" : "!");
    first = 0;
    o = q + 8 + (ol == -1 ? 0 : ol);
  }
  if (o < len) sput("+torn");
  else if (first) sput("-");
  free(b);
}
static void dump_cnt(void) {
  size_t len, o = 0; uint8_t *b = slurp("cnt", &len); int first = 1;
  sput("C:");
  if (!b) { sput("~"); return; }
  while (o < len) {
    uint8_t *nl = memchr(b + o, '\n', len - o), *sp; size_t ll; int idx; char num[32];
    if (!nl) break;
    ll = nl - (b + o);
    sp = NULL;
    for (size_t k = ll; k > 0; k--) if (b[o + k - 1] == ' ') { sp = b + o + k - 1; break; }   /* last space: value is digits */
    if (!sp || (size_t)(nl - sp - 1) >= sizeof num || nl - sp - 1 == 0) break;
    memcpy(num, sp + 1, nl - sp - 1); num[nl - sp - 1] = 0;
    idx = name_idx(b + o, sp - (b + o));
    if (strspn(num, "0123456789") != strlen(num)) break;
    sput("%s%d=%s", first ? "" : ",", idx, num);
    first = 0;
    o += ll + 1;
  }
  if (o < len) sput("+torn");
  else if (first) sput("-");
  free(b);
}
static void dump_tmp(void) {
  int any = 0;
  sput("T:");
  for (int i = 3; i < 6; i++) if (access(fnames[i], F_OK) == 0) { sput("%c", fnames[i][0]); any = 1; }
  if (!any) sput("-");
}

static int cmp_sub(const void *a, const void *b) { return memcmp(a, b, 3); }

/* fresh context + coap_persist_startup() + dump; runs in a throw-away child */
static void dump_restart(void) {
  coap_resource_t *rs[NRES]; int first;
  server_new();
  memset(rs, 0, sizeof rs);
  RESOURCES_ITER(g_ctx->resources, r) {
    int i = name_idx(r->uri_path->s, r->uri_path->length);
    if (i >= 0) rs[i] = r; else sput("R?");
  }
  sput(";R:"); first = 1;
  for (int i = 0; i < NRES; i++) if (rs[i]) { sput("%s%d@%u", first ? "" : ",", i, rs[i]->observe); first = 0; }
  if (first) sput("-");
  sput(";S:"); first = 1;
  {
    uint8_t subs[64][3]; int ns = 0;
    for (int i = 0; i < NRES; i++) if (rs[i]) {
      coap_subscription_t *s;
      LL_FOREACH(rs[i]->subscribers, s) {
        coap_bin_const_t t = s->pdu->actual_token;
        if (ns < 64 && t.length == 4) {
          subs[ns][0] = t.s[0]; subs[ns][1] = t.s[1]; subs[ns][2] = t.s[2];
          /* the session must be the client's, on the endpoint the client talks to */
          if (ntohs(s->session->addr_info.remote.addr.sin.sin_port) != CLI_PORT + t.s[0] || t.s[1] != i ||
              t.s[0] >= g_ncli || s->session->endpoint != ep_of(t.s[0])) subs[ns][2] = 99;
          ns++;
        }
      }
    }
    qsort(subs, ns, 3, cmp_sub);
    for (int k = 0; k < ns; k++) { sput("%s%d.%d.%d", first ? "" : ",", subs[k][0], subs[k][1], subs[k][2]); first = 0; }
  }
  if (first) sput("-");
  /* first Observe value on the wire after the restart, per resource with subscribers */
  sput(";N:"); first = 1;
  probe_mode = 1;
  for (int i = 0; i < NRES; i++) probe_val[i] = -1;
  for (int i = 0; i < NRES; i++) if (rs[i] && rs[i]->subscribers) {
    do_notify(i);
    if (probe_val[i] >= 0) sput("%s%d=%ld", first ? "" : ",", i, probe_val[i]); else sput("%s%d=none", first ? "" : ",", i);
    first = 0;
  }
  if (first) sput("-");
}

static void dump_sent(void) {
  int first = 1;
  sput(";P:");
  for (int i = 0; i < NRES; i++) if (nsent[i]) {
    sput("%s%d=", first ? "" : ",", i); first = 0;
    for (int k = 0; k < nsent[i]; k++) sput("%s%u", k ? "/" : "", sent[i][k]);
  }
  if (first) sput("-");
}

/* ---------------------------------------------------------------- crash enumeration */
static char g_dir[64];

static void copy_file(const char *from, const char *to) {
  size_t len; uint8_t *b = slurp(from, &len); int fd;
  if (!b) return;
  fd = open(to, O_WRONLY | O_CREAT | O_TRUNC, 0600);
  if (fd >= 0) { size_t o = 0; while (o < len) { ssize_t w = write(fd, b + o, len - o); if (w <= 0) break; o += w; } close(fd); }
  free(b);
}
static void rm_sub(const char *sub) {
  char p[160];
  for (int i = 0; i < 6; i++) { snprintf(p, sizeof p, "%s/%s", sub, fnames[i]); unlink(p); }
  rmdir(sub);
}

/* returns malloc'ed state string for "killed immediately before the k-th wrapped call of ev"; *completed = the event
   finished before reaching k */
static char *crash_state(const char *ev, long k, int *completed) {
  char sub[32], p[160]; int pw[2], ps[2], st; pid_t a, b;
  snprintf(sub, sizeof sub, "k%ld", k);
  mkdir(sub, 0700);
  for (int i = 0; i < 6; i++) { snprintf(p, sizeof p, "%s/%s", sub, fnames[i]); copy_file(fnames[i], p); }
  if (pipe(pw) || pipe(ps)) { perror("pipe"); exit(4); }
  fflush(stdout);
  a = fork();
  if (a == 0) {
    close(pw[0]); close(ps[0]); close(ps[1]);
    if (chdir(sub)) _exit(5);
    wire_fd = pw[1];
    want_log = 0; opcnt = 0; kill_at = k; trk = 1;
    run_event(ev);
    trk = 0;
    _exit(77);
  }
  close(pw[1]);
  {
    /* what the dying child put on the wire */
    char buf[4096]; size_t n = 0; ssize_t r;
    while ((r = read(pw[0], buf + n, sizeof buf - 1 - n)) > 0) n += r;
    buf[n] = 0; close(pw[0]);
    waitpid(a, &st, 0);
    *completed = WIFEXITED(st) && WEXITSTATUS(st) == 77;
    if (!WIFEXITED(st) || (WEXITSTATUS(st) != 0 && WEXITSTATUS(st) != 77)) {
      char *e = malloc(64); snprintf(e, 64, "child-died-%d", WIFEXITED(st) ? WEXITSTATUS(st) : -WTERMSIG(st));
      close(ps[0]); close(ps[1]); rm_sub(sub); return e;
    }
    b = fork();
    if (b == 0) {
      int i; unsigned v; char *s = buf;
      close(ps[0]);
      if (chdir(sub)) _exit(5);
      while (sscanf(s, "%d %u", &i, &v) == 2) { note_sent(i, v); s = strchr(s, '\n'); if (!s) break; s++; }
      if (*completed && ev[0] == 'd' && sscanf(ev + 1, "%d", &i) == 1 && i >= 0 && i < NRES) nsent[i] = 0;
      sb_len = 0; sput("");
      dump_dyn(); sput(";"); dump_obs(); sput(";"); dump_cnt(); sput(";"); dump_tmp();
      trk = 0; kill_at = 0;
      dump_restart();
      dump_sent();
      { size_t o = 0; while (o < sb_len) { ssize_t w = write(ps[1], sb + o, sb_len - o); if (w <= 0) break; o += w; } }
      _exit(0);
    }
  }
  close(ps[1]);
  {
    size_t cap = 4096, n = 0; char *out = malloc(cap); ssize_t r;
    while ((r = read(ps[0], out + n, cap - 1 - n)) > 0) { n += r; if (n + 1 >= cap) { cap *= 2; out = realloc(out, cap); } }
    out[n] = 0; close(ps[0]);
    waitpid(b, &st, 0);
    if (!WIFEXITED(st) || WEXITSTATUS(st) != 0) {
      snprintf(out, cap, "restart-died-%d", WIFEXITED(st) ? WEXITSTATUS(st) : -WTERMSIG(st));
    }
    rm_sub(sub);
    return out;
  }
}

static void add_range(char **states, size_t *sl, size_t *sc, long from, long to, const char *st) {
  size_t need = strlen(st) + 48;
  if (*sl + need > *sc) { *sc = (*sc + need) * 2; *states = realloc(*states, *sc); }
  if (from == to) *sl += sprintf(*states + *sl, " %ld{%s}", from, st);
  else *sl += sprintf(*states + *sl, " %ld-%ld{%s}", from, to, st);
}

static void h_init(void) {
  coap_startup();
  coap_set_log_level(getenv("H_LOG") ? atoi(getenv("H_LOG")) : COAP_LOG_EMERG);
}

static void step(char *line) {
  char *w[80]; char cwd[256];
  int n = h_words(line, w, 80);
  int all = 1, e0 = 2;
  if (n >= 2 && !strcmp(w[0], "persist")) { g_neps = 1; g_kinds[0] = 0; g_ncli = NCLI; }
  else if (n >= 3 && !strcmp(w[0], "persistep")) {
    size_t l = strlen(w[2]);
    if (l < 1 || l > MAXEP || strspn(w[2], "012") != l) { printf("bad-op"); return; }
    for (size_t a = 0; a < l; a++) for (size_t b = a + 1; b < l; b++) if (w[2][a] == w[2][b]) { printf("bad-op"); return; }
    g_neps = (int)l; g_ncli = 3 * NCLI; e0 = 3;
    for (size_t a = 0; a < l; a++) g_kinds[a] = w[2][a] - '0';
  } else { printf("bad-op"); return; }
  g_f = (unsigned)atoi(w[1]);
  if (g_f < 1 || g_f > 1000) { printf("bad-op"); return; }
  if (!getcwd(cwd, sizeof cwd)) { printf("fail"); return; }
  strcpy(g_dir, "/var/tmp/c17-XXXXXX");
  if (!mkdtemp(g_dir) || chdir(g_dir)) { printf("fail-tmpdir"); return; }
  memset(nsent, 0, sizeof nsent);
  g_mid = 100;
  trk = 0; kill_at = 0;
  server_new();
  printf("f=%u", g_f);
  for (int e = e0; e < n; e++) {
    const char *ev = w[e];
    long k; int completed = 0;
    char *prev = NULL; long from = 1;
    char *states = NULL; size_t sl = 0, sc = 0;
    if (getenv("H_NOCRASH")) all = 0;
    /* `j` stands for a long run of notifications: the record of earlier Observe values is forgotten up front */
    if (ev[0] == 'j') { int ji; if (sscanf(ev + 1, "%d", &ji) == 1 && ji >= 0 && ji < NRES && find_res(ji)) nsent[ji] = 0; }
    /* all crash points first (children work on copies), then the event itself in the parent with the op log on */
    for (k = 1; all && !completed && k < 5000; k++) {
      char *s = crash_state(ev, k, &completed);
      if (prev && strcmp(prev, s)) { add_range(&states, &sl, &sc, from, k - 1, prev); from = k; }
      if (prev && !strcmp(prev, s)) free(s); else { free(prev); prev = s; }
    }
    if (prev) { add_range(&states, &sl, &sc, from, k - 1, prev); free(prev); }
    oplog_len = 0; if (oplog) oplog[0] = 0;
    want_log = 1; opcnt = 0; kill_at = 0; trk = 1;
    if (!run_event(ev)) { trk = 0; printf(" bad-op"); free(states); break; }
    trk = 0; want_log = 0;
    printf(" [%s L=%s K=%ld%s]", ev, oplog_len ? oplog : "-", opcnt, states ? states : "");
    free(states);
  }
  coap_persist_stop(g_ctx);
  coap_free_context(g_ctx);
  g_ctx = NULL;
  if (chdir(cwd)) {}
  for (int i = 0; i < 6; i++) { char p[160]; snprintf(p, sizeof p, "%s/%s", g_dir, fnames[i]); unlink(p); }
  rmdir(g_dir);
}

H_MAIN_LOOP(step)
