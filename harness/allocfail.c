/* allocfail.c — H-alloc harness for C18 (any single allocation failure is survived).
 *
 *   alloc <scenario> <k> [<k2>]      catalogue scenario with the k-th (and k2-th) allocation REQUEST failing (0 = none)
 *   ahelp <k> <k2> <op> <op> ...     scripted helper-layer calls (the layer modelled in Lean, Model/AllocOracle.lean)
 *
 * Every request to coap_malloc_type / coap_realloc_type made while the failure window is open is numbered 1, 2, ...
 * in program order; request k (and k2) returns NULL (a failed realloc leaves the old block valid).  The window covers
 * the whole scenario including the set-up of contexts / endpoints / sessions; it is closed for the canary and for the
 * final tear-down.
 *
 * catalogue (alloc):
 *   uri    coap_split_uri, coap_uri_into_optlist, coap_path_into_optlist, coap_query_into_optlist, coap_add_optlist_pdu,
 *          coap_get_uri_path, coap_get_query, coap_new_uri/clone, coap_new_string/str_const/bin_const/binary+resize
 *   pdu    coap_pdu_init, token, options and payload with growth, coap_pdu_duplicate, coap_pdu_parse of the result
 *   rr     CON GET (piggybacked 2.05) + NON GET + CON GET ?a=1 to an unknown resource (4.04) + PUT ?b=2 without handler (4.05)
 *   b1     PUT of a 2500-byte body with libcoap's Block1 handling (coap_add_data_large_request, SINGLE_BODY server)
 *   b2     GET of a 2500-byte body with libcoap's Block2 handling (coap_add_data_large_response, SINGLE_BODY client)
 *   obs    observe register + two notifications + cancel (coap_cancel_observe)
 *   setup  context, two endpoints, resources with attributes, unknown-resource handler, client session; tear-down
 *   osc    OSCORE protected CON GET (coap_context_oscore_server / coap_new_client_session_oscore)
 *   h508   server answers 5.08 with diagnostic payload (the Hop-Limit branch of coap_send_internal)
 *   wkc    server with 12 more resources with attributes; GET /.well-known/core without and with a filter (rt=temp*, a
 *          filter matching nothing), libcoap block mode on both sides: the listing is sent block-wise, all blocks fetched
 *   b1raw  Block1 PUT of 2500 bytes in five 512-byte blocks BUILT BY HAND (client block mode off, no Size1) to a
 *          COAP_BLOCK_USE_LIBCOAP|COAP_BLOCK_SINGLE_BODY server: in order, then in the order 0,2,1,4,3 (last block early)
 *   b2raw  client in libcoap block mode fetches 2500 bytes from a HAND-WRITTEN Block2 server side (server block mode off,
 *          512-byte blocks, NO Size2): without ETag, with ETag, with an ETag that changes once during the transfer
 *   obsblk observe registration + two notifications + cancel of a resource whose 2500-byte body needs 3 blocks
 *   cache  coap_cache_ignore_options (twice), coap_cache_derive_key(_w_ignore), coap_new_cache_entry with recorded PDU and
 *          application data + free callback (in a request handler and directly), lookup by key / by PDU, expiry, tear-down
 *   async  coap_register_async with an indefinite delay + coap_async_trigger, and with a 1.5 s delay run by the timer (GET,
 *          then a PUT with a payload that the delayed call must still see)
 *   obsre  observer life cycle: FETCH registration with payload, the same request under a new token (replacement through
 *          the cache key), a second subscription (GET with query), deregistration by a token the server never saw,
 *          coap_delete_resource while observed
 *   xtok      both contexts allow 16-byte tokens: the client session first probes RFC 8974 support (coap_send_test_extended_token),
 *             then a request with a 2-byte and one with a 12-byte token
 *   obsfetch  FETCH observations with the client's block handling ON: small body, 2500-byte body sent block-wise (one Observe
 *          token kept per block), notifications, coap_cancel_observe of both
 *   b1o.<digits>  the five hand-built Block1 requests of b1raw in the order given (digits 0..4, repeats allowed)
 *   dly    sends that are DELAYED (coap_session_delay_pdu): three CON GETs and a NON back to back on one UDP session with
 *          NSTART = 1 -- the second and third CON wait in the session's delay queue until the ACK of the one before frees
 *          the slot (coap_session_connected drains the queue) --, then a CON while a retransmission is outstanding
 *   tcp    CoAP over TCP on real loopback sockets (served through the epoll_wait wrap / settle): a TCP endpoint, two client
 *          sessions (CSM exchange), PUT with a 400-byte payload on each (the message is LONGER than the 256 bytes a fresh
 *          receive PDU has: coap_read_session grows it with coap_pdu_resize), a 1200-byte PUT, a short GET, then the first
 *          session again after whatever happened to the second
 *
 * after the canary (every scenario): refs=<ok | list of sessions whose reference count differs from the number of their
 * holders> idle=<server sessions without holder that survive the session timeout>
 *
 * output (alloc):
 *   n=<requests seen> fail=<type>@<hex site>[,<type>@<hex site>] out=<visible outcome> sends=<per coap_send: ok|inv + f|q>
 *   pdu_consumed=<yes|no:i> canary=<ok|fail:why>:<same|fresh> | A <allocation trace> | lsan=<0|1>
 * where site = return addresses (innermost 4 frames, '/'-separated) of the failed request minus the load bias (resolved to function names by
 * harness/allocfail_pipe.py with addr2line), and the allocation trace (a<serial>:<tag> / f<serial>, f0 = free of a pointer
 * never allocated inside the trace) is replaced by the verdict of the Lean-verified monitor Coap.Sessions.ledgerOk.
 *
 * ahelp ops (pdu = the current PDU, created by I): I<size> T<len> O<num>:<len> D<len> R<size> (skipped if size < used_size)
 *   C<size> K (delete pdu)
 *   L<num>:<len> (coap_new_optlist + coap_insert_optlist)  P (coap_add_optlist_pdu)  X (coap_delete_optlist)
 *   S<len> s<len> b<len> (coap_new_string / coap_new_str_const / coap_new_bin_const)  F (delete all strings)
 *   Vc Vn (coap_send of the current PDU as CON / NON on the UDP client session)  W0 W1 (socket write ok / fails)
 *   E0 (the session is not established: state CONNECTING as during a DTLS handshake / TCP connect -- every send is delayed)
 *   E1 (coap_session_connected(): state ESTABLISHED, the delay queue is drained as far as NSTART allows)
 *   A<toklen> (coap_add_observer(/obs, the server's session for the client, token 01 02 .. of that length, request = the current PDU))
 *   B<toklen> (coap_delete_observer(/obs, that session, token))
 * output (ahelp):  n=<requests> rc=<per op> pdu=<alloc>/<max>/<max_opt>/<data offset|->/<hex of token[0..used)> ol=<nums> str=<n>
 *                  q=<sendqueue>/<delayqueue>/<con_active> obs=<session ref>/<token lengths of the subscriptions> sp=<request kept with
 *                  the first subscription, as pdu=> T <trace inside the script> | A <whole trace> | lsan=<0|1>
 *
 * link: SIM_WRAPS + --wrap=coap_malloc_type,--wrap=coap_realloc_type,--wrap=coap_free_type,--wrap=epoll_wait
 */
#define NDEBUG 1            /* as the shipped library build (RelWithDebInfo) */
#include "sim_core.h"
#include "coap_block.c"     /* static functions (track_fetch_observe) become reachable for the atrack scripts; the archive
                             * member of libcoap-3.a is then not linked: the whole catalogue runs THIS compilation of the file */
#include <sanitizer/lsan_interface.h>
#include <link.h>
#include <signal.h>
#include <unistd.h>
#include <poll.h>
#include <fcntl.h>
#include <sys/ioctl.h>
#include <linux/sockios.h>

/* ------------------------------------------------------------------ allocation wrap: trace + fault injection */
void *__real_coap_malloc_type(coap_memory_tag_t type, size_t size);
void *__real_coap_realloc_type(coap_memory_tag_t type, void *p, size_t size);
void __real_coap_free_type(coap_memory_tag_t type, void *p);

static int tr_on;
static int tr_lenient;            /* frees of pointers allocated before the trace started are not recorded */
#define TR_HASH (1u << 16)
#define TR_MAXSERIAL (1u << 16)
static struct { uintptr_t p; unsigned serial; int freed; } tr_tab[TR_HASH];   /* pointer stored complemented (LSan) */
static unsigned char tr_freed[TR_MAXSERIAL];
static unsigned tr_serial;
static char *tr_buf;
static size_t tr_len, tr_cap;
static int tr_overflow;
static unsigned tr_nev;           /* number of events in the trace so far (position of a coap_dispatch call, arecv) */

static int af_open;               /* failure window open: requests are counted */
static unsigned af_count, af_k1, af_k2;
#define AF_DEPTH 4
static struct { uintptr_t site[AF_DEPTH]; int type; } af_failed[2];
static int af_nfailed;
static uintptr_t af_bias;

static const char *tag_name(int t) {
  switch (t) {
  case COAP_STRING: return "str";
  case COAP_ATTRIBUTE_NAME: return "attrn";
  case COAP_ATTRIBUTE_VALUE: return "attrv";
  case COAP_PACKET: return "packet";
  case COAP_NODE: return "node";
  case COAP_CONTEXT: return "ctx";
  case COAP_ENDPOINT: return "ep";
  case COAP_PDU: return "pdu";
  case COAP_PDU_BUF: return "pdubuf";
  case COAP_RESOURCE: return "res";
  case COAP_RESOURCEATTR: return "resattr";
  case COAP_DTLS_SESSION: return "dtls";
  case COAP_SESSION: return "sess";
  case COAP_OPTLIST: return "optlist";
  case COAP_CACHE_KEY: return "ckey";
  case COAP_CACHE_ENTRY: return "centry";
  case COAP_LG_XMIT: return "lgxmit";
  case COAP_LG_CRCV: return "lgcrcv";
  case COAP_LG_SRCV: return "lgsrcv";
  case COAP_DIGEST_CTX: return "digest";
  case COAP_SUBSCRIPTION: return "subs";
  case COAP_DTLS_CONTEXT: return "dtlsctx";
  case COAP_OSCORE_COM: return "osccom";
  case COAP_OSCORE_SEN: return "oscsen";
  case COAP_OSCORE_REC: return "oscrec";
  case COAP_OSCORE_EX: return "oscex";
  case COAP_OSCORE_EP: return "oscep";
  case COAP_OSCORE_BUF: return "oscbuf";
  case COAP_COSE: return "cose";
  case COAP_MEM_TAG_LAST: return "last";
  default: return "other";
  }
}

static void tr_put(const char *s) {
  size_t n = strlen(s);
  if (tr_len + n + 2 > tr_cap) { tr_cap = (tr_cap + n + 2) * 2; tr_buf = (char *)realloc(tr_buf, tr_cap); }
  if (tr_len) tr_buf[tr_len++] = ' ';
  memcpy(tr_buf + tr_len, s, n + 1);
  tr_len += n;
  tr_nev++;
}
static unsigned tr_slot(void *pp) {
  uintptr_t p = ~(uintptr_t)pp;
  unsigned h = (unsigned)(((uintptr_t)pp >> 4) * 2654435761u) & (TR_HASH - 1);
  unsigned n = 0;
  while (tr_tab[h].p && tr_tab[h].p != p) { h = (h + 1) & (TR_HASH - 1); if (++n >= TR_HASH) { tr_overflow = 1; break; } }
  return h;
}
static void tr_alloc(int type, void *p) {
  char t[48];
  unsigned h;
  if (!p) return;
  if (!tr_on) {
    /* an allocation outside the trace at an address the trace knows as released: the address is somebody else's now, a later
     * release of it inside the trace is not a second release of the traced object (lenient scripts: arecv frees sessions
     * that were set up outside the failure window) */
    h = tr_slot(p);
    if (tr_tab[h].p == ~(uintptr_t)p && tr_tab[h].freed) tr_tab[h].freed = 2;
    return;
  }
  h = tr_slot(p);
  tr_tab[h].p = ~(uintptr_t)p; tr_tab[h].serial = ++tr_serial; tr_tab[h].freed = 0;
  if (tr_serial >= TR_MAXSERIAL) tr_overflow = 1; else tr_freed[tr_serial] = 0;
  snprintf(t, sizeof(t), "a%u:%s", tr_serial, tag_name(type));
  tr_put(t);
}
static void tr_free(void *p) {
  char t[40];
  unsigned h;
  if (!tr_on || !p) return;
  h = tr_slot(p);
  if (tr_tab[h].p != ~(uintptr_t)p || tr_tab[h].freed == 2) { if (!tr_lenient) tr_put("f0"); return; }
  tr_tab[h].freed = 1;                                      /* a second free prints the same serial again */
  if (tr_tab[h].serial < TR_MAXSERIAL) tr_freed[tr_tab[h].serial] = 1;
  snprintf(t, sizeof(t), "f%u", tr_tab[h].serial);
  tr_put(t);
}
/* serial of a live traced pointer, 0 if unknown */
static unsigned tr_serial_of(void *p) {
  unsigned h;
  if (!p) return 0;
  h = tr_slot(p);
  return tr_tab[h].p == ~(uintptr_t)p && !tr_tab[h].freed ? tr_tab[h].serial : 0;
}
/* the failed request's call chain: return addresses (minus load bias) of the innermost AF_DEPTH frames, found by walking
 * the frame pointers (libcoap and the harness are built with -fno-omit-frame-pointer) */
static void af_chain(void **fp, uintptr_t *out) {
  for (int i = 0; i < AF_DEPTH; i++) {
    void **next;
    out[i] = 0;
    if (!fp) continue;
    out[i] = (uintptr_t)fp[1] - 1 - af_bias;
    next = (void **)fp[0];
    fp = next > fp && (uintptr_t)next - (uintptr_t)fp < (1u << 20) ? next : NULL;
  }
}
static int af_should_fail(int type, void **fp) {
  if (!af_open) return 0;
  af_count++;
  if (af_count == af_k1 || af_count == af_k2) {
    uintptr_t ch[AF_DEPTH];
    af_chain(fp, ch);
    if (af_nfailed < 2) { memcpy(af_failed[af_nfailed].site, ch, sizeof(ch)); af_failed[af_nfailed].type = type; af_nfailed++; }
    /* the pipe script attributes a crash to the last site announced on stderr */
    fprintf(stderr, "AF-SITE %s@%lx/%lx/%lx/%lx\n", tag_name(type), (unsigned long)ch[0], (unsigned long)ch[1],
            (unsigned long)ch[2], (unsigned long)ch[3]);
    return 1;
  }
  return 0;
}
void *__wrap_coap_malloc_type(coap_memory_tag_t type, size_t size) {
  void *p;
  if (af_should_fail((int)type, (void **)__builtin_frame_address(0))) return NULL;
  p = __real_coap_malloc_type(type, size);
  tr_alloc((int)type, p);
  return p;
}
void *__wrap_coap_realloc_type(coap_memory_tag_t type, void *p, size_t size) {
  void *q;
  if (af_should_fail((int)type, (void **)__builtin_frame_address(0))) return NULL;     /* p stays valid */
  if (p) tr_free(p);                    /* recorded before the call: afterwards p may already be somebody else's */
  q = __real_coap_realloc_type(type, p, size);
  if (q) tr_alloc((int)type, q);
  else if (p) tr_alloc((int)type, p);
  return q;
}
void __wrap_coap_free_type(coap_memory_tag_t type, void *p) {
  (void)type;
  tr_free(p);
  __real_coap_free_type(type, p);
}
static void tr_reset(void) {
  memset(tr_tab, 0, sizeof(tr_tab));
  tr_serial = 0; tr_len = 0; tr_overflow = 0; tr_nev = 0;
  if (tr_buf) tr_buf[0] = 0;
}
static int bias_cb(struct dl_phdr_info *info, size_t size, void *data) {
  (void)size;
  *(uintptr_t *)data = (uintptr_t)info->dlpi_addr;
  return 1;      /* first entry = the main executable */
}

/* ------------------------------------------------------------------ outcome log */
static char ob[4096];
static size_t oblen;
static void out_put(const char *fmt, ...) {
  va_list ap;
  int n;
  if (oblen && oblen + 1 < sizeof(ob)) ob[oblen++] = ',';
  va_start(ap, fmt);
  n = vsnprintf(ob + oblen, sizeof(ob) - oblen, fmt, ap);
  va_end(ap);
  if (n > 0 && oblen + (size_t)n < sizeof(ob)) oblen += (size_t)n; else ob[oblen] = 0;
}

/* ------------------------------------------------------------------ the world: server + client in one process */
static coap_context_t *srv, *cli;
static coap_endpoint_t *ep, *ep2;
static coap_session_t *cs;
static coap_resource_t *r_obs;
static int w_oscore;
static int w_xtok;                /* scenario xtok: both contexts allow 16-byte tokens, so the client probes RFC 8974 support first */
static int w_block = 1;           /* libcoap's block handling on both contexts (off for the helper scripts) */
static int w_srv_block = 1, w_cli_block = 1;   /* per scenario: the hand-written side of b1raw / b2raw has it off */
static uint8_t body[2500];
static uint8_t obody[2500];       /* body of the observable block-wise resource: body with obody[0] = generation */
/* what a 2.05 body handed to the client application must be: strict = every 2.05 (but the canary's), else only len > 100 */
static const uint8_t *exp_body = body;
static size_t exp_len = sizeof(body);
static int exp_strict;
static uint8_t exp_buf[8192];

static const sim_dgram_t *pending[256];
static int npending;
static void offered_sync(void);
static void on_tx(const sim_dgram_t *d) { if (npending < 256) pending[npending++] = d; }
static int pump(void) {
  int n = 0;
  offered_sync();
  while (npending) {
    const sim_dgram_t *d = pending[0];
    memmove(pending, pending + 1, sizeof(pending[0]) * (size_t)(--npending));
    sim_deliver(d);
    if (++n > 2000) { npending = 0; break; }
  }
  return n;
}

/* ------------------------------------------------------------------ CoAP over TCP: real loopback sockets
 * sim_core's scripted network is datagrams only.  TCP endpoints / sessions use the kernel's loopback; which socket is ready
 * is asked with poll(2) and handed to libcoap as the epoll event it would have got (coap_io_do_epoll), from settle() and from
 * the epoll_wait wrap (so libcoap's own waits -- coap_client_delay_first during the CSM exchange -- make progress).  On
 * loopback a send() has queued the bytes at the peer when it returns, so the order of events is a function of the scan order. */
static int tcp_on;
#define AF_STREAM(p) ((p) == COAP_PROTO_TCP || (p) == COAP_PROTO_WS)
static int tcp_sock_ready(coap_socket_t *sock, struct epoll_event *ev, int wait_ms) {
  struct pollfd pf;
  if (sock->fd < 0) return 0;
  pf.fd = sock->fd; pf.events = 0; pf.revents = 0;
  if (sock->flags & (COAP_SOCKET_WANT_READ | COAP_SOCKET_WANT_ACCEPT)) pf.events |= POLLIN;
  if (sock->flags & (COAP_SOCKET_WANT_WRITE | COAP_SOCKET_WANT_CONNECT)) pf.events |= POLLOUT;
  if (!pf.events) return 0;
  if (poll(&pf, 1, wait_ms) <= 0 || !pf.revents) return 0;
  memset(ev, 0, sizeof(*ev));
  if (pf.revents & POLLIN) ev->events |= EPOLLIN;
  if (pf.revents & POLLOUT) ev->events |= EPOLLOUT;
  if (pf.revents & POLLERR) ev->events |= EPOLLERR;
  if (pf.revents & POLLHUP) ev->events |= EPOLLHUP;
  ev->data.ptr = sock;
  return 1;
}
static int tcp_ready(coap_context_t *c, struct epoll_event *ev, int wait_ms) {
  coap_session_t *s, *tmp;
  coap_endpoint_t *e;
  if (!c) return 0;
  LL_FOREACH(c->endpoint, e) {
    if (AF_STREAM(e->proto) && tcp_sock_ready(&e->sock, ev, wait_ms)) return 1;
    SESSIONS_ITER(e->sessions, s, tmp) if (AF_STREAM(s->proto) && tcp_sock_ready(&s->sock, ev, wait_ms)) return 1;
  }
  SESSIONS_ITER(c->sessions, s, tmp) if (AF_STREAM(s->proto) && tcp_sock_ready(&s->sock, ev, wait_ms)) return 1;
  return 0;
}
/* Nothing is in flight between the two contexts: no connect pending, every byte written has reached the peer's socket
 * (SIOCOUTQ = 0: on loopback "acknowledged" means "in the peer's receive queue"), and both sides agree on the number of
 * connections (an accept or a close that the other side has not seen yet makes them differ).  The kernel may defer loopback
 * delivery to a softirq thread on a loaded machine: "no socket ready right now" alone does not mean that nothing will come. */
static int tcp_quiescent(void) {
  coap_session_t *s, *tmp;
  coap_endpoint_t *e;
  unsigned nc = 0, ns = 0;
  int v;
  if (cli) SESSIONS_ITER(cli->sessions, s, tmp) if (AF_STREAM(s->proto)) {
    if (s->sock.flags & COAP_SOCKET_WANT_CONNECT) return 0;
    if (s->sock.flags & COAP_SOCKET_CONNECTED) { nc++; v = 0; if (!ioctl(s->sock.fd, SIOCOUTQ, &v) && v > 0) return 0; }
  }
  if (srv) LL_FOREACH(srv->endpoint, e) SESSIONS_ITER(e->sessions, s, tmp) if (AF_STREAM(s->proto)) {
    if (s->sock.flags & COAP_SOCKET_CONNECTED) { ns++; v = 0; if (!ioctl(s->sock.fd, SIOCOUTQ, &v) && v > 0) return 0; }
  }
  return nc == ns;
}
/* one event of either context; 0 = nothing ready and nothing in flight (waits in REAL time, at most 2 s, for what is) */
static int tcp_step(void) {
  struct epoll_event ev;
  for (int waits = 0; waits < 4000; waits++) {
    if (tcp_ready(srv, &ev, 0)) { coap_io_do_epoll(srv, &ev, 1); return 1; }
    if (tcp_ready(cli, &ev, 0)) { coap_io_do_epoll(cli, &ev, 1); return 1; }
    if (tcp_quiescent()) return 0;
    usleep(500);
  }
  return 0;
}
/* serve both contexts until no TCP socket is ready and nothing is in flight (one event at a time: a session may go away in the call) */
static int tcp_pump(void) {
  int n = 0;
  if (!tcp_on) return 0;
  while (n < 400 && tcp_step()) n++;
  return n;
}
/* libcoap itself waits (coap_client_delay_first -> coap_io_process -> epoll_wait, lock released) while a session's
 * first exchange is outstanding: the wait happens in VIRTUAL time and the datagrams in flight are delivered meanwhile.
 * link with --wrap=epoll_wait. */
static const sim_dgram_t *offered;
static void pending_remove(const sim_dgram_t *d) {
  for (int i = 0; i < npending; i++)
    if (pending[i] == d) { memmove(pending + i, pending + i + 1, sizeof(pending[0]) * (size_t)(npending - i - 1)); npending--; return; }
}
static coap_context_t *dgram_dest(const sim_dgram_t *d, coap_socket_t **sock, int *is_ep) {
  for (int i = 0; i < sim_neps; i++)
    if (sim_eps[i] && coap_address_equals(&sim_eps[i]->bind_addr, &d->dst)) { *sock = &sim_eps[i]->sock; *is_ep = 1; return sim_eps[i]->context; }
  for (int i = 0; i < sim_nsess; i++) {
    coap_session_t *s = sim_sess[i];
    if (s && s->type == COAP_SESSION_TYPE_CLIENT && coap_address_equals(&s->addr_info.local, &d->dst) &&
        coap_address_equals(&s->addr_info.remote, &d->src)) { *sock = &s->sock; *is_ep = 0; return s->context; }
  }
  return NULL;
}
int __wrap_epoll_wait(int epfd, struct epoll_event *events, int maxevents, int timeout) {
  int guard = 0;
  (void)maxevents;
  if (offered && !sim_rx.have) { pending_remove(offered); offered = NULL; }
  if (tcp_on) {
    /* the other context is served through the public API, then one ready socket of this one is reported */
    coap_context_t *me = cli && cli->epfd == epfd ? cli : srv && srv->epfd == epfd ? srv : NULL;
    coap_context_t *other = me == cli ? srv : cli;
    struct epoll_event ev;
    for (int waits = 0; me && waits < 4000; waits++) {
      for (int g = 0; g < 50 && other && tcp_ready(other, &ev, 0); g++) coap_io_do_epoll(other, &ev, 1);
      if (tcp_ready(me, &events[0], 0)) return 1;
      if (tcp_quiescent()) break;
      usleep(500);
    }
  }
  for (int i = 0; i < npending && guard < 1000; guard++) {
    coap_socket_t *sock = NULL;
    int is_ep = 0;
    const sim_dgram_t *d = pending[i];
    coap_context_t *c = dgram_dest(d, &sock, &is_ep);
    if (!c) { pending_remove(d); continue; }                       /* nobody listens there any more */
    if (c->epfd != epfd) {
      if (offered) { i++; continue; }                              /* sim_rx is in use */
      pending_remove(d); sim_deliver(d); i = 0; continue;          /* the other context: through the public API */
    }
    if (!offered || offered == d) {
      offered = d;
      sim_rx.data = d->data; sim_rx.len = d->len; sim_rx.have = 1; sim_rx.icmp = 0;
      sim_rx.have_src = is_ep; if (is_ep) coap_address_copy(&sim_rx.src, &d->src);
      memset(&events[0], 0, sizeof(events[0]));
      events[0].events = EPOLLIN; events[0].data.ptr = sock;
      return 1;
    }
    i++;
  }
  if (timeout > 0) sim_now += (coap_tick_t)timeout; else if (timeout < 0) sim_now += 1000;
  return 0;
}
static void offered_sync(void) {
  if (offered) { if (!sim_rx.have) pending_remove(offered); offered = NULL; sim_rx.have = 0; }
}
static unsigned delayq_total(coap_context_t *c) {
  unsigned n = 0;
  coap_session_t *s, *tmp;
  if (!c) return 0;
  SESSIONS_ITER(c->sessions, s, tmp) n += sim_delayq_len(s);
  return n;
}
/* let the exchange run its course: deliver, run timers, advance the virtual clock until both contexts are idle */
static void settle(unsigned max_ms) {
  coap_tick_t end = sim_now + max_ms;
  for (int i = 0; i < 400; i++) {
    unsigned w = 0, w2 = 0;
    pump();
    tcp_pump();
    if (cli) w = coap_io_prepare_epoll(cli, sim_now);
    if (srv) w2 = coap_io_prepare_epoll(srv, sim_now);
    if (npending || tcp_pump()) continue;
    if ((!cli || !cli->sendqueue) && (!srv || !srv->sendqueue)) break;
    if (w2 && (!w || w2 < w)) w = w2;
    if (!w) w = 1000;
    if (sim_now + w > end) break;
    sim_now += w;
  }
}

/* client side observations */
static int c_rsp, c_nack, c_body_ok, c_body_bad;
static int c_codes[16];
static coap_response_t on_response(coap_session_t *session, const coap_pdu_t *sent, const coap_pdu_t *rcvd, const coap_mid_t mid) {
  size_t len = 0, off = 0, total = 0;
  const uint8_t *data = NULL;
  (void)session; (void)sent; (void)mid;
  if (c_rsp < 16) c_codes[c_rsp] = coap_pdu_get_code(rcvd);
  c_rsp++;
  {
    coap_bin_const_t tk = coap_pdu_get_token(rcvd);
    int code = coap_pdu_get_code(rcvd);
    int canary = tk.length == 2 && tk.s[0] == 0xca && tk.s[1] == 0xfe;
    /* obsre: token 67 xx, bit 7 of xx = registered by a FETCH with payload "Q1": the representation must show it
     * (echo: token 6a xx, same rule: the request repeated with the Echo option must still have its body) */
    if (tk.length == 2 && (tk.s[0] == 0x67 || tk.s[0] == 0x6a) && COAP_RESPONSE_CLASS(code) == 2 && coap_get_data(rcvd, &len, &data) && len == 3 &&
        data[0] == 'v' && data[2] != ((tk.s[1] & 0x80) ? 'Q' : '-')) { c_body_bad++; out_put("lostbody:%02x", tk.s[1]); }
    /* obsfetch: token 68 xx, registered by a FETCH whose body starts with 'Q' (81: two bytes) / body[0] (82: 2500 bytes) */
    if (tk.length == 2 && tk.s[0] == 0x68 && COAP_RESPONSE_CLASS(code) == 2 && coap_get_data(rcvd, &len, &data) && len == 3 &&
        data[0] == 'v' && data[2] != (tk.s[1] == 0x82 ? body[0] : 'Q')) { c_body_bad++; out_put("lostbody:%02x", tk.s[1]); }
    /* async: token 66 03 = the PUT with payload "P1": the delayed answer must show it */
    if (tk.length == 2 && tk.s[0] == 0x66 && tk.s[1] == 0x03 && COAP_RESPONSE_CLASS(code) == 2 && coap_get_data(rcvd, &len, &data) &&
        len == 3 && data[0] == 'a' && data[2] != 'P') { c_body_bad++; out_put("lostbody:66"); }
    /* an error code (4.08 from the client's own block layer, 5.00) with the payload of one block is not a body */
    if (exp_strict ? code == COAP_RESPONSE_CODE_CONTENT && !canary : COAP_RESPONSE_CLASS(code) == 2) {
      if (!coap_get_data_large(rcvd, &len, &data, &off, &total)) { len = 0; off = 0; total = 0; }
      if (!exp_strict && len <= 100) {}
      /* visibly a fragment (offset / total say so): the application can tell, this is not "as if complete" */
      else if (off != 0 || off + len < total) out_put("frag:%zu@%zu/%zu", len, off, total);
      else if (len == exp_len && (!len || !memcmp(data, exp_body, len))) c_body_ok++;
      else { c_body_bad++; out_put("badbody:%zu@%zu/%zu", len, off, total); }
    }
  }
  return COAP_RESPONSE_OK;
}
static void on_nack(coap_session_t *session, const coap_pdu_t *sent, const coap_nack_reason_t reason, const coap_mid_t mid) {
  (void)session; (void)sent; (void)reason; (void)mid;
  c_nack++;
}
/* server side observations */
static int s_req, s_put_ok, s_put_bad;
static void hnd_get(coap_resource_t *r, coap_session_t *s, const coap_pdu_t *req, const coap_string_t *q, coap_pdu_t *rsp) {
  (void)r; (void)s; (void)req; (void)q;
  s_req++;
  coap_pdu_set_code(rsp, COAP_RESPONSE_CODE_CONTENT);
  coap_add_data(rsp, 2, (const uint8_t *)"hi");
}
static int obs_val;
static void hnd_obs(coap_resource_t *r, coap_session_t *s, const coap_pdu_t *req, const coap_string_t *q, coap_pdu_t *rsp) {
  uint8_t v[2];
  (void)r; (void)s; (void)req; (void)q;
  s_req++;
  v[0] = 'v'; v[1] = (uint8_t)('0' + obs_val);
  coap_pdu_set_code(rsp, COAP_RESPONSE_CODE_CONTENT);
  coap_add_data(rsp, 2, v);
}
static void hnd_big(coap_resource_t *r, coap_session_t *s, const coap_pdu_t *req, const coap_string_t *q, coap_pdu_t *rsp) {
  s_req++;
  coap_pdu_set_code(rsp, COAP_RESPONSE_CODE_CONTENT);
  if (!coap_add_data_large_response(r, s, req, rsp, q, COAP_MEDIATYPE_APPLICATION_OCTET_STREAM, -1, 0, sizeof(body), body, NULL, NULL))
    coap_pdu_set_code(rsp, COAP_RESPONSE_CODE_INTERNAL_ERROR);
}
static void hnd_put(coap_resource_t *r, coap_session_t *s, const coap_pdu_t *req, const coap_string_t *q, coap_pdu_t *rsp) {
  size_t len = 0, off = 0, total = 0;
  const uint8_t *data = NULL;
  (void)r; (void)s; (void)q;
  s_req++;
  if (coap_get_data_large(req, &len, &data, &off, &total) && off == 0 && len == sizeof(body) && !memcmp(data, body, len)) s_put_ok++;
  else s_put_bad++;
  coap_pdu_set_code(rsp, COAP_RESPONSE_CODE_CHANGED);
}
static void hnd_508(coap_resource_t *r, coap_session_t *s, const coap_pdu_t *req, const coap_string_t *q, coap_pdu_t *rsp) {
  (void)r; (void)s; (void)req; (void)q;
  s_req++;
  coap_pdu_set_code(rsp, COAP_RESPONSE_CODE(508));
  coap_add_data(rsp, 8, (const uint8_t *)"10.0.0.9");
}
static void hnd_unknown(coap_resource_t *r, coap_session_t *s, const coap_pdu_t *req, const coap_string_t *q, coap_pdu_t *rsp) {
  size_t len = 0, off = 0, total = 0;
  const uint8_t *data = NULL;
  (void)r; (void)s; (void)q;
  s_req++;
  /* b1u: a body reassembled for the unknown resource must be the body sent (same rule as hnd_put) */
  if (coap_pdu_get_code(req) == COAP_REQUEST_CODE_PUT && coap_get_data_large(req, &len, &data, &off, &total) && len) {
    if (off == 0 && len == sizeof(body) && !memcmp(data, body, len)) s_put_ok++; else s_put_bad++;
  }
  coap_pdu_set_code(rsp, COAP_RESPONSE_CODE_CREATED);
}

/* block-wise observable resource: 2500 bytes (3 blocks of 1024) through libcoap's Block2 handling */
static void hnd_obsbig(coap_resource_t *r, coap_session_t *s, const coap_pdu_t *req, const coap_string_t *q, coap_pdu_t *rsp) {
  s_req++;
  coap_pdu_set_code(rsp, COAP_RESPONSE_CODE_CONTENT);
  if (!coap_add_data_large_response(r, s, req, rsp, q, COAP_MEDIATYPE_APPLICATION_OCTET_STREAM, -1, 0, sizeof(obody), obody, NULL, NULL))
    coap_pdu_set_code(rsp, COAP_RESPONSE_CODE_INTERNAL_ERROR);
}
/* HAND-WRITTEN Block2 server side (the server context has libcoap's block handling off): 512-byte blocks, no Size2;
 * resource userdata: 0 = no ETag, 1 = ETag, 2 = the ETag changes once, after the second block has been served */
static int raw2_served;
static void hnd_raw2(coap_resource_t *r, coap_session_t *s, const coap_pdu_t *req, const coap_string_t *q, coap_pdu_t *rsp) {
  coap_block_t b;
  uint8_t buf[4], etag[2];
  size_t off, len;
  int mode = (int)(intptr_t)coap_resource_get_userdata(r), m;
  (void)s; (void)q;
  s_req++;
  memset(&b, 0, sizeof(b));
  if (!coap_get_block(req, COAP_OPTION_BLOCK2, &b)) { b.num = 0; b.szx = 5; }
  if (b.szx != 5) { coap_pdu_set_code(rsp, COAP_RESPONSE_CODE_BAD_REQUEST); return; }
  off = (size_t)b.num << 9;
  if (off >= sizeof(body)) { coap_pdu_set_code(rsp, COAP_RESPONSE_CODE_BAD_REQUEST); return; }
  len = sizeof(body) - off > 512 ? 512 : sizeof(body) - off;
  m = off + len < sizeof(body);
  coap_pdu_set_code(rsp, COAP_RESPONSE_CODE_CONTENT);
  if (mode) {
    etag[0] = 0xe0; etag[1] = (uint8_t)(mode == 2 && raw2_served >= 2 ? 2 : 1);
    if (mode == 2) raw2_served++;
    if (!coap_add_option(rsp, COAP_OPTION_ETAG, 2, etag)) goto fail;
  }
  if (!coap_add_option(rsp, COAP_OPTION_BLOCK2, coap_encode_var_safe(buf, sizeof(buf), (b.num << 4) | (unsigned)(m << 3) | 5), buf)) goto fail;
  if (!coap_add_data(rsp, len, body + off)) goto fail;
  return;
fail:
  coap_pdu_set_code(rsp, COAP_RESPONSE_CODE_INTERNAL_ERROR);
}
/* cache: the handler keeps one cache entry per request (recorded PDU + application data owned by the entry) */
static int cache_cb, cache_live;
static void cache_free_cb(void *d) { cache_cb++; cache_live--; free(d); }
static void hnd_cache(coap_resource_t *r, coap_session_t *s, const coap_pdu_t *req, const coap_string_t *q, coap_pdu_t *rsp) {
  coap_cache_entry_t *e;
  (void)r; (void)q;
  s_req++;
  e = coap_cache_get_by_pdu(s, req, COAP_CACHE_NOT_SESSION_BASED);
  if (e) {
    int *cnt = (int *)coap_cache_get_app_data(e);
    const coap_pdu_t *kept = coap_cache_get_pdu(e);
    uint8_t v[2];
    v[0] = (uint8_t)('0' + (cnt ? ++*cnt : 0));
    v[1] = kept ? 'p' : '-';
    coap_pdu_set_code(rsp, COAP_RESPONSE_CODE_CONTENT);
    if (!coap_add_data(rsp, 2, v)) coap_pdu_set_code(rsp, COAP_RESPONSE_CODE_INTERNAL_ERROR);
    return;
  }
  e = coap_new_cache_entry(s, req, COAP_CACHE_RECORD_PDU, COAP_CACHE_NOT_SESSION_BASED, 2);
  if (!e) { coap_pdu_set_code(rsp, COAP_RESPONSE_CODE_INTERNAL_ERROR); return; }
  {
    int *cnt = (int *)malloc(sizeof(int));
    *cnt = 0; cache_live++;
    coap_cache_set_app_data(e, cnt, cache_free_cb);
  }
  coap_pdu_set_code(rsp, COAP_RESPONSE_CODE_CREATED);
}
/* async: first call registers (query "t": indefinite delay, triggered by the scenario; else 1.5 s), the delayed call answers */
static coap_async_t *g_async;
static void hnd_async(coap_resource_t *r, coap_session_t *s, const coap_pdu_t *req, const coap_string_t *q, coap_pdu_t *rsp) {
  coap_async_t *a;
  (void)r;
  s_req++;
  a = coap_find_async(s, coap_pdu_get_token(req));
  if (!a) {
    int trig = q && q->length == 1 && q->s[0] == 't';
    a = coap_register_async(s, req, trig ? 0 : 1500);
    if (!a) { coap_pdu_set_code(rsp, COAP_RESPONSE_CODE_SERVICE_UNAVAILABLE); return; }
    coap_async_set_app_data(a, (void *)"app");
    if (trig) g_async = a;
    return;                                             /* empty ACK, the response follows separately */
  }
  if (a == g_async) g_async = NULL;                    /* libcoap frees it after this call */
  coap_pdu_set_code(rsp, COAP_RESPONSE_CODE_CONTENT);
  {
    /* the delayed call gets the copy of the request libcoap kept: the answer shows the first byte of its payload ('-' = none) */
    size_t len = 0;
    const uint8_t *d = NULL;
    uint8_t v[3] = {'a', 's', '-'};
    if (coap_get_data(req, &len, &d) && len) v[2] = d[0];
    if (!coap_async_get_app_data(a) || !coap_add_data(rsp, 3, v)) coap_pdu_set_code(rsp, COAP_RESPONSE_CODE_INTERNAL_ERROR);
  }
}

/* observable resource for GET and FETCH: the representation shows the first byte of the request's payload ('-' = none), so a
 * notification tells whether the request kept with the subscription still has the body it was registered with */
static void hnd_obsf(coap_resource_t *r, coap_session_t *s, const coap_pdu_t *req, const coap_string_t *q, coap_pdu_t *rsp) {
  size_t len = 0;
  const uint8_t *d = NULL;
  uint8_t v[3];
  (void)r; (void)s; (void)q;
  s_req++;
  v[0] = 'v'; v[1] = (uint8_t)('0' + obs_val);
  v[2] = coap_get_data(req, &len, &d) && len ? d[0] : '-';
  coap_pdu_set_code(rsp, COAP_RESPONSE_CODE_CONTENT);
  if (!coap_add_data(rsp, 3, v)) coap_pdu_set_code(rsp, COAP_RESPONSE_CODE_INTERNAL_ERROR);
}

/* a resource that demands freshness (RFC 9175): a request without Echo option is answered 4.01 with an Echo option, the
 * same request with the option is served; the representation shows the first payload byte of the request ('-' = none) */
static void hnd_echo(coap_resource_t *r, coap_session_t *s, const coap_pdu_t *req, const coap_string_t *q, coap_pdu_t *rsp) {
  coap_opt_iterator_t oi;
  size_t len = 0;
  const uint8_t *d = NULL;
  uint8_t v[3];
  (void)r; (void)s; (void)q;
  s_req++;
  if (!coap_check_option(req, COAP_OPTION_ECHO, &oi)) {
    coap_pdu_set_code(rsp, COAP_RESPONSE_CODE_UNAUTHORIZED);
    if (!coap_add_option(rsp, COAP_OPTION_ECHO, 8, (const uint8_t *)"ECHOecho")) coap_pdu_set_code(rsp, COAP_RESPONSE_CODE_INTERNAL_ERROR);
    return;
  }
  v[0] = 'v'; v[1] = (uint8_t)('0' + obs_val);
  v[2] = coap_get_data(req, &len, &d) && len ? d[0] : '-';
  coap_pdu_set_code(rsp, COAP_RESPONSE_CODE_CONTENT);
  if (!coap_add_data(rsp, 3, v)) coap_pdu_set_code(rsp, COAP_RESPONSE_CODE_INTERNAL_ERROR);
}

static int add_res(const char *path, coap_request_t m, coap_method_handler_t h, int observable, coap_resource_t **out) {
  coap_resource_t *r = coap_resource_init(coap_make_str_const(path), 0);
  if (!r) return 0;
  coap_register_request_handler(r, m, h);
  if (observable) coap_resource_set_get_observable(r, 1);
  coap_add_resource(srv, r);
  if (out) *out = r;
  return 1;
}

static const char osc_conf_srv[] =
  "master_secret,hex,\"0102030405060708090a0b0c0d0e0f10\"\nmaster_salt,hex,\"9e7ca92223786340\"\n"
  "sender_id,hex,\"01\"\nrecipient_id,hex,\"02\"\nrfc8613_b_1_2,bool,false\n";
static const char osc_conf_cli[] =
  "master_secret,hex,\"0102030405060708090a0b0c0d0e0f10\"\nmaster_salt,hex,\"9e7ca92223786340\"\n"
  "sender_id,hex,\"02\"\nrecipient_id,hex,\"01\"\nrfc8613_b_1_2,bool,false\n";

static void world_zero(void) {
  srv = cli = NULL; ep = ep2 = NULL; cs = NULL; r_obs = NULL;
  npending = 0; offered = NULL;
}
/* every step is checked the way an application would: any failure ends the set-up */
static int world_up(int oscore, int extras) {
  coap_address_t a;
  w_oscore = oscore;
  srv = coap_new_context(NULL);
  if (!srv) return 0;
  if (sim_nctx < SIM_MAX_CTX) sim_ctxs[sim_nctx++] = srv;
  if (w_block && w_srv_block) coap_context_set_block_mode(srv, COAP_BLOCK_USE_LIBCOAP | COAP_BLOCK_SINGLE_BODY);
  if (w_xtok) coap_context_set_max_token_size(srv, 16);
  if (oscore) {
    coap_str_const_t c = { sizeof(osc_conf_srv) - 1, (const uint8_t *)osc_conf_srv };
    coap_oscore_conf_t *oc = coap_new_oscore_conf(c, NULL, NULL, 0);
    if (!oc) return 0;
    if (!coap_context_oscore_server(srv, oc)) return 0;        /* oc is consumed by the call */
  }
  ep = sim_new_endpoint(srv, 0);
  if (!ep) return 0;
  if (extras) {
    ep2 = sim_new_endpoint(srv, 0);
    if (!ep2) return 0;
  }
  if (!add_res("r", COAP_REQUEST_GET, hnd_get, 0, NULL)) return 0;
  if (!add_res("big", COAP_REQUEST_GET, hnd_big, 0, NULL)) return 0;
  if (!add_res("put", COAP_REQUEST_PUT, hnd_put, 0, NULL)) return 0;
  if (!add_res("obs", COAP_REQUEST_GET, hnd_obs, 1, &r_obs)) return 0;
  if (!add_res("h508", COAP_REQUEST_GET, hnd_508, 0, NULL)) return 0;
  if (extras) {
    coap_resource_t *r = coap_resource_init(coap_make_str_const("attr"), 0), *u;
    if (!r) return 0;
    coap_register_request_handler(r, COAP_REQUEST_GET, hnd_get);
    if (!coap_add_attr(r, coap_make_str_const("ct"), coap_make_str_const("0"), 0)) { coap_add_resource(srv, r); return 0; }
    if (!coap_add_attr(r, coap_make_str_const("title"), coap_make_str_const("\"x\""), 0)) { coap_add_resource(srv, r); return 0; }
    coap_add_resource(srv, r);
    u = coap_resource_unknown_init(hnd_unknown);
    if (!u) return 0;
    coap_add_resource(srv, u);
  }
  cli = coap_new_context(NULL);
  if (!cli) return 0;
  if (sim_nctx < SIM_MAX_CTX) sim_ctxs[sim_nctx++] = cli;
  if (w_block && w_cli_block) coap_context_set_block_mode(cli, COAP_BLOCK_USE_LIBCOAP | COAP_BLOCK_SINGLE_BODY);
  if (w_xtok) coap_context_set_max_token_size(cli, 16);
  coap_register_response_handler(cli, on_response);
  coap_register_nack_handler(cli, on_nack);
  sim_addr(&a, ntohs(ep->bind_addr.addr.sin.sin_port));
  if (oscore) {
    coap_str_const_t c = { sizeof(osc_conf_cli) - 1, (const uint8_t *)osc_conf_cli };
    coap_oscore_conf_t *oc = coap_new_oscore_conf(c, NULL, NULL, 0);
    if (!oc) return 0;
    cs = coap_new_client_session_oscore(cli, NULL, &a, COAP_PROTO_UDP, oc);   /* oc is consumed by the call */
  } else
    cs = coap_new_client_session(cli, NULL, &a, COAP_PROTO_UDP);
  if (!cs) return 0;
  sim_sess_id(cs);
  return 1;
}
static void tcp_world_down(void);
static void world_down(void) {
  tcp_world_down();
  if (cs) coap_session_release(cs);
  if (cli) coap_free_context(cli);
  if (srv) coap_free_context(srv);
  sim_nctx = 0; sim_nsess = 0; sim_neps = 0;
  memset(sim_sess, 0, sizeof(sim_sess));
  memset(sim_eps, 0, sizeof(sim_eps));
  world_zero();
}

/* ------------------------------------------------------------------ coap_send with ownership evidence */
static unsigned sent_serial[64];
static int nsent;
static char sb[1024];
static size_t sblen;
static coap_mid_t tracked_send(coap_session_t *s, coap_pdu_t *pdu) {
  unsigned ser = tr_serial_of(pdu);
  coap_mid_t mid;
  int n;
  if (nsent < 64) sent_serial[nsent++] = ser;
  mid = coap_send(s, pdu);
  /* f = already freed when coap_send returned, q = still alive (must then be owned by a queue and freed by tear-down) */
  n = snprintf(sb + sblen, sizeof(sb) - sblen, "%s%s%c", sblen ? "," : "", mid == COAP_INVALID_MID ? "inv" : "ok",
               ser && ser < TR_MAXSERIAL && tr_freed[ser] ? 'f' : 'q');
  if (n > 0 && sblen + (size_t)n < sizeof(sb)) sblen += (size_t)n;
  return mid;
}

/* request builder used by the scenarios: every step checked */
static coap_pdu_t *new_req(int type, int code, const uint8_t *tok, size_t tkl, const char *path) {
  coap_pdu_t *p = coap_new_pdu((coap_pdu_type_t)type, (coap_pdu_code_t)code, cs);
  if (!p) return NULL;
  if (!coap_add_token(p, tkl, tok)) { coap_delete_pdu(p); return NULL; }
  if (path && !coap_add_option(p, COAP_OPTION_URI_PATH, strlen(path), (const uint8_t *)path)) { coap_delete_pdu(p); return NULL; }
  return p;
}

/* ------------------------------------------------------------------ scenarios */
static void scn_rr(void) {
  coap_pdu_t *p;
  if (!world_up(0, 0)) { out_put("setup-fail"); return; }
  p = new_req(COAP_MESSAGE_CON, COAP_REQUEST_CODE_GET, (const uint8_t *)"\x01\x02", 2, "r");
  if (!p) out_put("pdu-fail"); else tracked_send(cs, p);
  settle(120000);
  p = new_req(COAP_MESSAGE_NON, COAP_REQUEST_CODE_GET, (const uint8_t *)"\x03", 1, "r");
  if (!p) out_put("pdu-fail"); else tracked_send(cs, p);
  settle(120000);
  /* error responses for requests WITH a query (handle_request's fail_response path owns path and query strings) */
  p = new_req(COAP_MESSAGE_CON, COAP_REQUEST_CODE_GET, (const uint8_t *)"\x04", 1, "nope");
  if (p && !coap_add_option(p, COAP_OPTION_URI_QUERY, 3, (const uint8_t *)"a=1")) { coap_delete_pdu(p); p = NULL; }
  if (!p) out_put("pdu-fail"); else tracked_send(cs, p);
  settle(120000);
  p = new_req(COAP_MESSAGE_CON, COAP_REQUEST_CODE_PUT, (const uint8_t *)"\x05", 1, "r");
  if (p && !coap_add_option(p, COAP_OPTION_URI_QUERY, 3, (const uint8_t *)"b=2")) { coap_delete_pdu(p); p = NULL; }
  if (!p) out_put("pdu-fail"); else tracked_send(cs, p);
  settle(120000);
}
static void scn_b1(void) {
  coap_pdu_t *p;
  if (!world_up(0, 0)) { out_put("setup-fail"); return; }
  p = new_req(COAP_MESSAGE_CON, COAP_REQUEST_CODE_PUT, (const uint8_t *)"\x11\x12", 2, "put");
  if (!p) { out_put("pdu-fail"); return; }
  if (!coap_add_data_large_request(cs, p, sizeof(body), body, NULL, NULL)) { out_put("large-fail"); coap_delete_pdu(p); return; }
  tracked_send(cs, p);
  settle(300000);
}
static void scn_b2(void) {
  coap_pdu_t *p;
  if (!world_up(0, 0)) { out_put("setup-fail"); return; }
  p = new_req(COAP_MESSAGE_CON, COAP_REQUEST_CODE_GET, (const uint8_t *)"\x21\x22", 2, "big");
  if (!p) { out_put("pdu-fail"); return; }
  tracked_send(cs, p);
  settle(300000);
}
/* coap_cancel_observe; when it fails BECAUSE one of its own allocation requests failed, the same call is made again: with
 * memory available it must succeed ("cancelr1") unless the observation has ended meanwhile (the cancellation did go out before
 * the request that failed, or the client has dropped its state for the request: "cancelr0:gone"); "cancelr0:kept" = the
 * server still notifies, the client still holds the request's lg_crcv, and the API refuses to cancel;
 * a '!' marks a repeat after (or hit by) the second failing request of a pair */
static unsigned subs_count(coap_resource_t *r) {
  unsigned n = 0;
  coap_subscription_t *s;
  if (r) LL_FOREACH(r->subscribers, s) n++;
  return n;
}
static void cancel_and_retry(coap_resource_t *r, coap_binary_t *t, unsigned settle_ms) {
  unsigned subs0 = subs_count(r);
  int before = af_nfailed, rc = coap_cancel_observe(cs, t, COAP_MESSAGE_CON), hit = af_nfailed > before;
  out_put("cancel%d", rc);
  before = af_nfailed;              /* a second failure from here on (while the exchange settles, in the repeat) excuses the repeat */
  settle(settle_ms);
  if (!rc && hit) {
    rc = coap_cancel_observe(cs, t, COAP_MESSAGE_CON);
    settle(settle_ms);
    if (rc) out_put("cancelr1%s", af_nfailed > before ? "!" : "");
    else {
      /* still an observation as far as the client is concerned: it keeps the lg_crcv of the request (responses are matched
       * to it, nothing else would answer a notification with RST) */
      coap_lg_crcv_t *lg;
      int held = 0;
      LL_FOREACH(cs->lg_crcv, lg) if (lg->app_token && lg->app_token->length == t->length && !memcmp(lg->app_token->s, t->s, t->length)) held = 1;
      out_put("cancelr0:%s%s", subs_count(r) < subs0 || !held ? "gone" : "kept", af_nfailed > before ? "!" : "");
    }
  }
}
static void scn_obs(void) {
  coap_pdu_t *p;
  uint8_t tok[2] = {0x31, 0x32};
  coap_binary_t t = {2, tok};
  if (!world_up(0, 0)) { out_put("setup-fail"); return; }
  p = new_req(COAP_MESSAGE_CON, COAP_REQUEST_CODE_GET, tok, 2, NULL);
  if (!p) { out_put("pdu-fail"); return; }
  if (!coap_add_option(p, COAP_OPTION_OBSERVE, 0, NULL) ||
      !coap_add_option(p, COAP_OPTION_URI_PATH, 3, (const uint8_t *)"obs")) { out_put("opt-fail"); coap_delete_pdu(p); return; }
  tracked_send(cs, p);
  settle(120000);
  for (int i = 0; i < 2; i++) {
    obs_val++;
    out_put("notify%d", coap_resource_notify_observers(r_obs, NULL));
    sim_now += 10;
    settle(120000);
  }
  cancel_and_retry(r_obs, &t, 120000);
  obs_val++;
  out_put("notify%d", coap_resource_notify_observers(r_obs, NULL));
  settle(120000);
}
static void scn_setup(void) {
  int ok = world_up(0, 1);
  out_put(ok ? "up" : "setup-fail");
  if (ok) {
    coap_session_set_app_data(cs, NULL);
    coap_context_set_keepalive(cli, 0);
  }
  /* tear-down inside the failure window */
  world_down();
  out_put("down");
}
static void scn_osc(void) {
  coap_pdu_t *p;
  if (!world_up(1, 0)) { out_put("setup-fail"); return; }
  p = new_req(COAP_MESSAGE_CON, COAP_REQUEST_CODE_GET, (const uint8_t *)"\x41\x42", 2, "r");
  if (!p) { out_put("pdu-fail"); return; }
  tracked_send(cs, p);
  settle(120000);
}
/* extended tokens (RFC 8974): the first request of the session is preceded by libcoap's own probe (coap_send_test_extended_token,
 * a CON with a 16-byte token the server answers 4.xx / resets), then a request with a short and one with a 12-byte token */
static void scn_xtok(void) {
  coap_pdu_t *p;
  int up;
  w_xtok = 1;
  up = world_up(0, 0);
  w_xtok = 0;
  if (!up) { out_put("setup-fail"); return; }
  p = new_req(COAP_MESSAGE_CON, COAP_REQUEST_CODE_GET, (const uint8_t *)"\x71\x72", 2, "r");
  if (!p) out_put("pdu-fail"); else tracked_send(cs, p);
  settle(120000);
  p = new_req(COAP_MESSAGE_CON, COAP_REQUEST_CODE_GET, (const uint8_t *)"\x73\x02\x03\x04\x05\x06\x07\x08\x09\x0a\x0b\x0c", 12, "r");
  if (!p) out_put("pdu-fail"); else tracked_send(cs, p);
  settle(120000);
}
static void scn_h508(void) {
  coap_pdu_t *p;
  if (!world_up(0, 0)) { out_put("setup-fail"); return; }
  p = new_req(COAP_MESSAGE_CON, COAP_REQUEST_CODE_GET, (const uint8_t *)"\x51", 1, "h508");
  if (!p) { out_put("pdu-fail"); return; }
  tracked_send(cs, p);
  settle(120000);
}
static void scn_uri(void) {
  static const char u[] = "coap://[::1]:5684/a%20b/c/./d/../e?x=1&y=%41%42";
  coap_uri_t uri;
  coap_address_t dst;
  coap_optlist_t *ol = NULL;
  coap_pdu_t *p = NULL;
  coap_string_t *s1 = NULL, *s2 = NULL, *s3 = NULL;
  coap_str_const_t *sc = NULL;
  coap_bin_const_t *bc = NULL;
  coap_binary_t *b = NULL, *b2;
  coap_uri_t *nu = NULL, *cu = NULL;
  uint8_t buf[64];
  int rc;
  rc = coap_split_uri((const uint8_t *)u, sizeof(u) - 1, &uri);
  out_put("split%d", rc);
  if (rc < 0) return;
  coap_address_init(&dst);
  dst.addr.sin6.sin6_family = AF_INET6; dst.addr.sin6.sin6_addr.s6_addr[15] = 2; dst.size = sizeof(struct sockaddr_in6);
  out_put("u2o%d", coap_uri_into_optlist(&uri, &dst, &ol, 1));
  coap_delete_optlist(ol); ol = NULL;
  out_put("u2os%d", coap_uri_into_options(&uri, &dst, &ol, 1, buf, sizeof(buf)));
  out_put("p2o%d", coap_path_into_optlist((const uint8_t *)"x/%2e%2E/y%2fz/w", 16, COAP_OPTION_LOCATION_PATH, &ol));
  out_put("q2o%d", coap_query_into_optlist((const uint8_t *)"k=%7e&l", 7, COAP_OPTION_LOCATION_QUERY, &ol));
  out_put("ins%d", coap_insert_optlist(&ol, coap_new_optlist(COAP_OPTION_CONTENT_FORMAT, 1, (const uint8_t *)"\x2a")));
  p = coap_pdu_init(COAP_MESSAGE_CON, COAP_REQUEST_CODE_GET, 7, 1152);
  if (p) {
    out_put("olpdu%d", coap_add_optlist_pdu(p, &ol));
    s1 = coap_get_uri_path(p);
    s2 = coap_get_query(p);
    out_put("path%d,query%d", s1 ? (int)s1->length : -1, s2 ? (int)s2->length : -1);
  } else out_put("pdu-fail");
  coap_delete_optlist(ol);
  s3 = coap_new_string(10);
  sc = coap_new_str_const((const uint8_t *)"hello", 5);
  bc = coap_new_bin_const((const uint8_t *)"\x01\x02\x03", 3);
  b = coap_new_binary(8);
  out_put("str%d%d%d%d", !!s3, !!sc, !!bc, !!b);
  if (b) {
    b2 = coap_resize_binary(b, 400);
    out_put("rsz%d", !!b2);
    if (b2) b = b2;              /* a failed resize leaves b valid */
  }
  nu = coap_new_uri((const uint8_t *)u, (unsigned)(sizeof(u) - 1));
  if (nu) cu = coap_clone_uri(nu);
  out_put("uri%d%d", !!nu, !!cu);
  coap_delete_pdu(p);
  coap_delete_string(s1); coap_delete_string(s2); coap_delete_string(s3);
  coap_delete_str_const(sc); coap_delete_bin_const(bc); coap_delete_binary(b);
  coap_delete_uri(nu); coap_delete_uri(cu);
}
static void scn_pdu(void) {
  coap_pdu_t *p, *d = NULL, *q = NULL;
  uint8_t tok[8] = {1, 2, 3, 4, 5, 6, 7, 8};
  uint8_t val[200];
  coap_opt_filter_t f;
  memset(val, 'v', sizeof(val));
  if (!world_up(0, 0)) { out_put("setup-fail"); return; }
  p = coap_pdu_init(COAP_MESSAGE_CON, COAP_REQUEST_CODE_POST, 0x77, 1152);
  if (!p) { out_put("pdu-fail"); return; }
  out_put("tok%d", coap_add_token(p, 8, tok));
  out_put("o%zu", coap_add_option(p, COAP_OPTION_URI_PATH, 200, val));
  out_put("o%zu", coap_add_option(p, COAP_OPTION_URI_PATH, 120, val));
  out_put("o%zu", coap_add_option(p, COAP_OPTION_URI_HOST, 5, val));             /* out of order: coap_insert_option */
  out_put("o%zu", coap_add_option(p, COAP_OPTION_URI_QUERY, 150, val));
  out_put("o%zu", coap_add_option(p, COAP_OPTION_PROXY_SCHEME, 4, (const uint8_t *)"coap")); /* implicit Hop-Limit insert */
  out_put("d%d", coap_add_data(p, 500, body));
  d = coap_pdu_duplicate(p, cs, 8, tok, NULL);
  coap_option_filter_clear(&f);
  coap_option_filter_set(&f, COAP_OPTION_URI_QUERY);
  q = coap_pdu_duplicate(p, cs, 4, tok, &f);
  out_put("dup%d%d", !!d, !!q);
  if (d) out_put("used%zu", d->used_size);
  if (q) out_put("used%zu", q->used_size);
  if (coap_pdu_encode_header(p, COAP_PROTO_UDP)) {
    coap_pdu_t *r = coap_pdu_init(0, 0, 0, 1152);
    if (r) {
      out_put("parse%d", coap_pdu_parse(COAP_PROTO_UDP, p->token - p->hdr_size, p->used_size + p->hdr_size, r));
      coap_delete_pdu(r);
    } else out_put("pdu-fail");
  }
  coap_delete_pdu(p); coap_delete_pdu(d); coap_delete_pdu(q);
}

/* 12 more resources with attributes: the listing is far longer than one 1024-byte block */
static const struct { const char *path, *rt, *ifd, *title; int obs; } wk_res[12] = {
  {"sensors/temp1", "\"temperature-c\"", "\"sensor\"", "\"Temperature sensor, first floor\"", 1},
  {"sensors/temp2", "\"temperature-c\"", "\"sensor\"", "\"Temperature sensor, second floor\"", 0},
  {"sensors/temp3", "\"temperature-f\"", "\"sensor\"", "\"Temperature sensor, outside (Fahrenheit)\"", 0},
  {"sensors/light", "\"light-lux\"", "\"sensor\"", "\"Ambient light sensor in the entrance hall\"", 1},
  {"sensors/hum", "\"humidity-rel\"", "\"sensor\"", "\"Relative humidity, basement storage room\"", 0},
  {"act/led1", "\"led-rgb\"", "\"actuator\"", "\"Status LED on the front panel of the device\"", 0},
  {"act/led2", "\"led-rgb\"", "\"actuator\"", "\"Status LED on the back panel of the device\"", 0},
  {"act/relay", "\"relay\"", "\"actuator\"", "\"Mains relay, normally open, 16 A\"", 0},
  {"cfg/net", "\"config\"", "\"core.p\"", "\"Network configuration parameters\"", 0},
  {"cfg/time", "\"config\"", "\"core.p\"", "\"Time zone and NTP server settings\"", 0},
  {"fw/update", "\"firmware\"", "\"core.b\"", "\"Firmware image upload (block-wise)\"", 0},
  {"diag/log", "\"temperature-log\"", "\"core.ll\"", "\"Diagnostic log, most recent entries first\"", 0},
};
static int wkc_resources(void) {
  for (int i = 0; i < 12; i++) {
    coap_resource_t *r = coap_resource_init(coap_make_str_const(wk_res[i].path), 0);
    int ok;
    if (!r) return 0;
    coap_register_request_handler(r, COAP_REQUEST_GET, hnd_get);
    if (wk_res[i].obs) coap_resource_set_get_observable(r, 1);
    ok = coap_add_attr(r, coap_make_str_const("rt"), coap_make_str_const(wk_res[i].rt), 0) &&
         coap_add_attr(r, coap_make_str_const("if"), coap_make_str_const(wk_res[i].ifd), 0) &&
         coap_add_attr(r, coap_make_str_const("title"), coap_make_str_const(wk_res[i].title), 0) &&
         coap_add_attr(r, coap_make_str_const("ct"), coap_make_str_const("0"), 0);
    coap_add_resource(srv, r);
    if (!ok) return 0;
  }
  return 1;
}
/* the listing the server produces with memory available (coap_print_wellknown does not allocate) */
static int wkc_expect(const char *filter) {
  coap_string_t f;
  size_t len = sizeof(exp_buf);
  coap_print_status_t st;
  f.s = (uint8_t *)(uintptr_t)filter; f.length = filter ? strlen(filter) : 0;
  st = coap_print_wellknown(srv, exp_buf, &len, 0, filter ? &f : NULL);
  if (st & COAP_PRINT_STATUS_ERROR) return 0;
  exp_body = exp_buf; exp_len = COAP_PRINT_OUTPUT_LENGTH(st); exp_strict = 1;
  return 1;
}
static void wkc_get(const char *filter, int tok) {
  coap_pdu_t *p;
  uint8_t t[2];
  t[0] = 0x61; t[1] = (uint8_t)tok;
  if (!wkc_expect(filter)) { out_put("expect-fail"); return; }
  out_put("len%zu", exp_len);
  p = new_req(COAP_MESSAGE_CON, COAP_REQUEST_CODE_GET, t, 2, ".well-known");
  if (!p) { out_put("pdu-fail"); return; }
  if (!coap_add_option(p, COAP_OPTION_URI_PATH, 4, (const uint8_t *)"core") ||
      (filter && !coap_add_option(p, COAP_OPTION_URI_QUERY, strlen(filter), (const uint8_t *)filter))) {
    out_put("opt-fail"); coap_delete_pdu(p); return;
  }
  tracked_send(cs, p);
  settle(300000);
}
static void scn_wkc(void) {
  if (!world_up(0, 0) || !wkc_resources()) { out_put("setup-fail"); return; }
  wkc_get(NULL, 1);
  wkc_get("rt=temp*", 2);
  wkc_get("if=core.p", 3);
  wkc_get("rt=nothing", 4);
}
/* one hand-built Block1 request: block num of the 2500-byte body in 512-byte blocks, no Size1 */
static void raw_put_block_to(const char *path, unsigned num, int tok) {
  size_t off = (size_t)num << 9, len = sizeof(body) - off > 512 ? 512 : sizeof(body) - off;
  unsigned m = off + len < sizeof(body);
  uint8_t t[2], buf[4];
  coap_pdu_t *p;
  t[0] = 0x62; t[1] = (uint8_t)tok;
  p = new_req(COAP_MESSAGE_CON, COAP_REQUEST_CODE_PUT, t, 2, path);
  if (!p) { out_put("pdu-fail"); return; }
  if (!coap_add_option(p, COAP_OPTION_BLOCK1, coap_encode_var_safe(buf, sizeof(buf), (num << 4) | (m << 3) | 5), buf) ||
      !coap_add_data(p, len, body + off)) { out_put("opt-fail"); coap_delete_pdu(p); return; }
  tracked_send(cs, p);
  settle(120000);
}
static void raw_put_block(unsigned num, int tok) { raw_put_block_to("put", num, tok); }
static void scn_b1raw(void) {
  static const unsigned order2[5] = {0, 2, 1, 4, 3};
  w_cli_block = 0;
  if (!world_up(0, 0)) { out_put("setup-fail"); return; }
  for (unsigned i = 0; i < 5; i++) raw_put_block(i, (int)i);
  for (unsigned i = 0; i < 5; i++) raw_put_block(order2[i], 0x10 + (int)order2[i]);
}
static void scn_b2raw(void) {
  static const char *const paths[3] = {"raw2", "raw2e", "raw2c"};
  w_srv_block = 0;
  if (!world_up(0, 0)) { out_put("setup-fail"); return; }
  for (int i = 0; i < 3; i++) {
    coap_resource_t *r = NULL;
    if (!add_res(paths[i], COAP_REQUEST_GET, hnd_raw2, 0, &r)) { out_put("setup-fail"); return; }
    coap_resource_set_userdata(r, (void *)(intptr_t)i);
  }
  exp_strict = 1;
  for (int i = 0; i < 3; i++) {
    uint8_t t[2];
    coap_pdu_t *p;
    t[0] = 0x63; t[1] = (uint8_t)i;
    p = new_req(COAP_MESSAGE_CON, COAP_REQUEST_CODE_GET, t, 2, paths[i]);
    if (!p) { out_put("pdu-fail"); continue; }
    tracked_send(cs, p);
    settle(300000);
  }
}
static void scn_obsblk(void) {
  coap_pdu_t *p;
  uint8_t tok[2] = {0x64, 0x01};
  coap_binary_t t = {2, tok};
  coap_resource_t *r = NULL;
  if (!world_up(0, 0) || !add_res("obsbig", COAP_REQUEST_GET, hnd_obsbig, 1, &r)) { out_put("setup-fail"); return; }
  exp_body = obody; exp_len = sizeof(obody); exp_strict = 1;
  p = new_req(COAP_MESSAGE_CON, COAP_REQUEST_CODE_GET, tok, 2, NULL);
  if (!p) { out_put("pdu-fail"); return; }
  if (!coap_add_option(p, COAP_OPTION_OBSERVE, 0, NULL) ||
      !coap_add_option(p, COAP_OPTION_URI_PATH, 6, (const uint8_t *)"obsbig")) { out_put("opt-fail"); coap_delete_pdu(p); return; }
  tracked_send(cs, p);
  settle(300000);
  for (int i = 0; i < 2; i++) {
    obody[0] = (uint8_t)(0xb0 + i);
    out_put("notify%d", coap_resource_notify_observers(r, NULL));
    sim_now += 10;
    settle(300000);
  }
  cancel_and_retry(r, &t, 300000);
  obody[0] = 0xbf;
  out_put("notify%d", coap_resource_notify_observers(r, NULL));
  settle(300000);
}
/* observer life cycle on one resource: FETCH registration with a payload (kept with the subscription), the same request
 * again under a new token (replaces the first one: same cache key), a GET registration with a query (second subscription),
 * deregistration with a token the server never saw (found through the cache key), deletion of the resource while observed */
static unsigned subs_of(coap_resource_t *r) {
  unsigned n = 0;
  coap_subscription_t *s;
  LL_FOREACH(r->subscribers, s) n++;
  return n;
}
static void obsre_send(int code, int tokb, int observe, const char *query, int payload) {
  uint8_t t[2], one = 1;
  coap_pdu_t *p;
  t[0] = 0x67; t[1] = (uint8_t)tokb;
  p = new_req(COAP_MESSAGE_CON, code, t, 2, NULL);
  if (!p) { out_put("pdu-fail"); return; }
  if ((observe >= 0 && !coap_add_option(p, COAP_OPTION_OBSERVE, observe ? 1 : 0, &one)) ||
      !coap_add_option(p, COAP_OPTION_URI_PATH, 4, (const uint8_t *)"obsf") ||
      (payload && !coap_add_option(p, COAP_OPTION_CONTENT_FORMAT, 0, NULL)) ||        /* RFC 8132 2.3.1: FETCH needs one */
      (query && !coap_add_option(p, COAP_OPTION_URI_QUERY, strlen(query), (const uint8_t *)query)) ||
      (payload && !coap_add_data(p, 2, (const uint8_t *)"Q1"))) { out_put("opt-fail"); coap_delete_pdu(p); return; }
  tracked_send(cs, p);
  settle(120000);
}
static void scn_obsre(void) {
  coap_resource_t *r = NULL;
  w_cli_block = 0;           /* libcoap's client block layer would put a fresh Request-Tag into every request: never the same cache key */
  if (!world_up(0, 0) || !add_res("obsf", COAP_REQUEST_GET, hnd_obsf, 1, &r)) { out_put("setup-fail"); return; }
  coap_register_request_handler(r, COAP_REQUEST_FETCH, hnd_obsf);
  obsre_send(COAP_REQUEST_CODE_FETCH, 0x81, 0, NULL, 1);
  out_put("subs%u", subs_of(r));
  obs_val++;
  out_put("notify%d", coap_resource_notify_observers(r, NULL));
  sim_now += 10; settle(120000);
  obsre_send(COAP_REQUEST_CODE_FETCH, 0x82, 0, NULL, 1);
  obsre_send(COAP_REQUEST_CODE_GET, 0x03, 0, "x=1", 0);
  out_put("subs%u", subs_of(r));
  obs_val++;
  out_put("notify%d", coap_resource_notify_observers(r, NULL));
  sim_now += 10; settle(120000);
  obsre_send(COAP_REQUEST_CODE_GET, 0x04, 1, "x=1", 0);
  out_put("subs%u", subs_of(r));
  obs_val++;
  out_put("notify%d", coap_resource_notify_observers(r, NULL));
  sim_now += 10; settle(120000);
  out_put("delres%d", coap_delete_resource(srv, r));
  settle(120000);
}

/* FETCH observations with libcoap's block handling ON at the client (coap_send sets up an lg_crcv for the request and keeps
 * the token of every block of the request in its list of Observe tokens): a FETCH with a two-byte body, a FETCH whose
 * 2500-byte body goes out block-wise (one token per block), notifications, both cancelled with coap_cancel_observe (which
 * sends the request again with Observe 1 under the tokens kept), then the sessions go. */
static void obsfetch_send(int tokb, const uint8_t *data, size_t len) {
  uint8_t t[2];
  coap_pdu_t *p;
  t[0] = 0x68; t[1] = (uint8_t)tokb;
  p = new_req(COAP_MESSAGE_CON, COAP_REQUEST_CODE_FETCH, t, 2, NULL);
  if (!p) { out_put("pdu-fail"); return; }
  if (!coap_add_option(p, COAP_OPTION_OBSERVE, 0, NULL) ||
      !coap_add_option(p, COAP_OPTION_URI_PATH, 4, (const uint8_t *)"obsf") ||
      !coap_add_option(p, COAP_OPTION_CONTENT_FORMAT, 0, NULL)) { out_put("opt-fail"); coap_delete_pdu(p); return; }
  if (len > 100 ? !coap_add_data_large_request(cs, p, len, data, NULL, NULL) : !coap_add_data(p, len, data)) {
    out_put("large-fail"); coap_delete_pdu(p); return;
  }
  tracked_send(cs, p);
  settle(300000);
}
static void scn_obsfetch(void) {
  coap_resource_t *r = NULL;
  uint8_t t1[2] = {0x68, 0x81}, t2[2] = {0x68, 0x82};
  coap_binary_t b1 = {2, t1}, b2 = {2, t2};
  if (!world_up(0, 0) || !add_res("obsf", COAP_REQUEST_GET, hnd_obsf, 1, &r)) { out_put("setup-fail"); return; }
  coap_register_request_handler(r, COAP_REQUEST_FETCH, hnd_obsf);
  obsfetch_send(0x81, (const uint8_t *)"Q1", 2);
  out_put("subs%u", subs_of(r));
  obs_val++;
  out_put("notify%d", coap_resource_notify_observers(r, NULL));
  sim_now += 10; settle(120000);
  obsfetch_send(0x82, body, sizeof(body));
  out_put("subs%u", subs_of(r));
  obs_val++;
  out_put("notify%d", coap_resource_notify_observers(r, NULL));
  sim_now += 10; settle(120000);
  cancel_and_retry(r, &b2, 300000);
  out_put("subs%u", subs_of(r));
  cancel_and_retry(r, &b1, 300000);
  out_put("subs%u", subs_of(r));
  obs_val++;
  out_put("notify%d", coap_resource_notify_observers(r, NULL));
  settle(120000);
}
/* b1o.<digits>: the five hand-built 512-byte Block1 requests of b1raw in the ORDER given by the digits (0..4, any of them
 * any number of times: a block that is lost and repeated, the final block arriving early, and arriving again before the gap
 * is filled), one token per request */
static const char *b1o_order = "";
static void scn_b1o(void) {
  w_cli_block = 0;
  if (!world_up(0, 0)) { out_put("setup-fail"); return; }
  for (int i = 0; b1o_order[i]; i++) raw_put_block((unsigned)(b1o_order[i] - '0'), 0x30 + i);
}
/* b1u.<spec>: hand-built 512-byte Block1 requests as in b1o, to TWO targets whose transfers are interleaved as the spec
 * says: pairs <target><block>, target u = PUT /unk1 (no such resource: served by the UNKNOWN-resource handler, libcoap keeps
 * a copy of the URI path with the lg_srcv of such a transfer), p = PUT /put (a resource of its own); the server context has
 * two endpoints, an /attr resource and the unknown handler (world_up extras) */
static const char *b1u_spec = "";
static void scn_b1u(void) {
  w_cli_block = 0;
  if (!world_up(0, 1)) { out_put("setup-fail"); return; }
  for (int i = 0; b1u_spec[i] && b1u_spec[i + 1]; i += 2)
    raw_put_block_to(b1u_spec[i] == 'u' ? "unk1" : "put", (unsigned)(b1u_spec[i + 1] - '0'), 0x30 + i / 2);
}
/* oscobs: an OSCORE-protected observation.  Registration (GET Observe 0, token T), a notification, the registration made
 * AGAIN under the same token (RFC 7641 3.3.1: a client may re-register at any time), a notification, coap_cancel_observe
 * (GET Observe 1 under the SAME token, RFC 7641 3.6; repeated when it failed because of the failing request), a notification
 * nobody listens to.  Every request after the first finds the OSCORE association of its token alive: it is REFRESHED in
 * coap_oscore_new_pdu_encrypted_lkd (nonce, AAD, Partial IV replaced) instead of created. */
static void scn_oscobs(void) {
  uint8_t tok[2] = {0x69, 0x01};
  coap_binary_t t = {2, tok};
  if (!world_up(1, 0)) { out_put("setup-fail"); return; }
  for (int i = 0; i < 2; i++) {
    coap_pdu_t *p = new_req(COAP_MESSAGE_CON, COAP_REQUEST_CODE_GET, tok, 2, NULL);
    if (p && (!coap_add_option(p, COAP_OPTION_OBSERVE, 0, NULL) ||
              !coap_add_option(p, COAP_OPTION_URI_PATH, 3, (const uint8_t *)"obs"))) { coap_delete_pdu(p); p = NULL; }
    if (!p) out_put("pdu-fail"); else tracked_send(cs, p);
    settle(120000);
    out_put("subs%u", subs_count(r_obs));
    obs_val++;
    out_put("notify%d", coap_resource_notify_observers(r_obs, NULL));
    sim_now += 10;
    settle(120000);
  }
  cancel_and_retry(r_obs, &t, 120000);
  out_put("subs%u", subs_count(r_obs));
  obs_val++;
  out_put("notify%d", coap_resource_notify_observers(r_obs, NULL));
  settle(120000);
}
/* echo: requests to a resource that answers 4.01 + Echo until the request carries the option: libcoap's client block layer
 * (check_freshness) repeats the request itself -- a copy of the request under a new token, Echo option INSERTED, payload
 * copied.  The sizes are chosen so that the copy has to GROW in both places: a GET whose options fill the 256-byte first
 * buffer to within a few bytes (the Echo option does not fit), a PUT with 190 bytes of options and a 400-byte body (the
 * option fits, the body does not), a FETCH observation with a 2-byte body (token of block 0 registered again), a
 * notification, coap_cancel_observe (answered 4.01 + Echo again), a last GET with a short query. */
static void echo_send(int code, int tokb, int observe, size_t qlen, size_t plen) {
  static uint8_t qbuf[256], pbuf[512];
  uint8_t t[2];
  coap_pdu_t *p;
  memset(qbuf, 'x', sizeof(qbuf)); qbuf[0] = 'q'; qbuf[1] = '=';
  memset(pbuf, 'Q', sizeof(pbuf));
  t[0] = 0x6a; t[1] = (uint8_t)tokb;
  p = new_req(COAP_MESSAGE_CON, code, t, 2, NULL);
  if (!p) { out_put("pdu-fail"); return; }
  if ((observe >= 0 && !coap_add_option(p, COAP_OPTION_OBSERVE, 0, NULL)) ||
      !coap_add_option(p, COAP_OPTION_URI_PATH, 4, (const uint8_t *)"echo") ||
      (plen && !coap_add_option(p, COAP_OPTION_CONTENT_FORMAT, 0, NULL)) ||
      (qlen && !coap_add_option(p, COAP_OPTION_URI_QUERY, qlen, qbuf)) ||
      (plen && !coap_add_data(p, plen, pbuf))) { out_put("opt-fail"); coap_delete_pdu(p); return; }
  tracked_send(cs, p);
  settle(120000);
}
static void scn_echo(void) {
  coap_resource_t *r = NULL;
  uint8_t t3[2] = {0x6a, 0x83};
  coap_binary_t b3 = {2, t3};
  if (!world_up(0, 0) || !add_res("echo", COAP_REQUEST_GET, hnd_echo, 1, &r)) { out_put("setup-fail"); return; }
  coap_register_request_handler(r, COAP_REQUEST_PUT, hnd_echo);
  coap_register_request_handler(r, COAP_REQUEST_FETCH, hnd_echo);
  echo_send(COAP_REQUEST_CODE_GET, 0x01, -1, 240, 0);
  echo_send(COAP_REQUEST_CODE_PUT, 0x82, -1, 180, 400);
  echo_send(COAP_REQUEST_CODE_FETCH, 0x83, 0, 0, 2);
  out_put("subs%u", subs_of(r));
  obs_val++;
  out_put("notify%d", coap_resource_notify_observers(r, NULL));
  sim_now += 10; settle(120000);
  cancel_and_retry(r, &b3, 120000);
  out_put("subs%u", subs_of(r));
  echo_send(COAP_REQUEST_CODE_GET, 0x04, -1, 5, 0);
}
static void scn_cache(void) {
  static const uint16_t ign1[2] = {COAP_OPTION_ACCEPT, COAP_OPTION_URI_QUERY}, ign2[3] = {COAP_OPTION_ACCEPT, COAP_OPTION_ETAG, COAP_OPTION_RTAG};
  coap_pdu_t *p, *q = NULL;
  coap_cache_key_t *k1 = NULL, *k2 = NULL;
  coap_cache_entry_t *e = NULL;
  if (!world_up(0, 0) || !add_res("cache", COAP_REQUEST_GET, hnd_cache, 0, NULL)) { out_put("setup-fail"); return; }
  out_put("ign%d", coap_cache_ignore_options(srv, ign1, 2));
  out_put("ign%d", coap_cache_ignore_options(srv, ign2, 3));
  /* through the request handler: create (2.01), find again (2.05 "1p"), let it expire, create again */
  for (int i = 0; i < 3; i++) {
    uint8_t t[2];
    t[0] = 0x65; t[1] = (uint8_t)i;
    p = new_req(COAP_MESSAGE_CON, COAP_REQUEST_CODE_GET, t, 2, "cache");
    if (!p) { out_put("pdu-fail"); continue; }
    tracked_send(cs, p);
    settle(120000);
    /* expiry of idle entries is part of coap_io_process() (not of coap_io_prepare_epoll()) */
    if (i == 1) { sim_now += 3000; coap_io_process(srv, COAP_IO_NO_WAIT); settle(120000); out_put("cb%d", cache_cb); }
  }
  /* directly, as a client-side application would: keys with and without the session, an entry that lives until tear-down */
  q = new_req(COAP_MESSAGE_CON, COAP_REQUEST_CODE_FETCH, (const uint8_t *)"\x65\x09", 2, "cache");
  if (q && coap_add_option(q, COAP_OPTION_URI_QUERY, 3, (const uint8_t *)"a=b") && coap_add_data(q, 300, body)) {
    k1 = coap_cache_derive_key(cs, q, COAP_CACHE_IS_SESSION_BASED);
    k2 = coap_cache_derive_key_w_ignore(cs, q, COAP_CACHE_NOT_SESSION_BASED, ign1, 2);
    e = coap_new_cache_entry(cs, q, COAP_CACHE_RECORD_PDU, COAP_CACHE_IS_SESSION_BASED, 0);
    out_put("key%d%d,ent%d", !!k1, !!k2, !!e);
    if (e) {
      int *cnt = (int *)malloc(sizeof(int));
      const coap_pdu_t *kept = coap_cache_get_pdu(e);
      *cnt = 7; cache_live++;
      coap_cache_set_app_data(e, cnt, cache_free_cb);
      out_put("pdu%d", kept ? (int)kept->used_size : -1);
      if (k1) out_put("bykey%d", coap_cache_get_by_key(cli, k1) == e);
      out_put("bypdu%d", coap_cache_get_by_pdu(cs, q, COAP_CACHE_IS_SESSION_BASED) == e);
      if (k2) out_put("other%d", coap_cache_get_by_key(cli, k2) == NULL);
    }
  } else out_put("pdu-fail");
  coap_delete_cache_key(k1);
  coap_delete_cache_key(k2);
  coap_delete_pdu(q);
}
static void scn_async(void) {
  coap_pdu_t *p;
  coap_resource_t *r = NULL;
  if (!world_up(0, 0) || !add_res("async", COAP_REQUEST_GET, hnd_async, 0, &r)) { out_put("setup-fail"); return; }
  coap_register_request_handler(r, COAP_REQUEST_PUT, hnd_async);
  p = new_req(COAP_MESSAGE_CON, COAP_REQUEST_CODE_GET, (const uint8_t *)"\x66\x01", 2, "async");
  if (p && !coap_add_option(p, COAP_OPTION_URI_QUERY, 1, (const uint8_t *)"t")) { coap_delete_pdu(p); p = NULL; }
  if (!p) out_put("pdu-fail"); else tracked_send(cs, p);
  settle(120000);
  out_put("pending%d", !!g_async);
  if (g_async) coap_async_trigger(g_async);
  settle(120000);
  p = new_req(COAP_MESSAGE_CON, COAP_REQUEST_CODE_GET, (const uint8_t *)"\x66\x02", 2, "async");
  if (!p) out_put("pdu-fail"); else tracked_send(cs, p);
  settle(120000);
  sim_now += 2000;
  settle(120000);
  /* a request WITH a body (PUT "P1"), delayed 1.5 s: the copy kept for the delayed call must still have the body */
  p = new_req(COAP_MESSAGE_CON, COAP_REQUEST_CODE_PUT, (const uint8_t *)"\x66\x03", 2, "async");
  if (p && !coap_add_data(p, 2, (const uint8_t *)"P1")) { coap_delete_pdu(p); p = NULL; }
  if (!p) out_put("pdu-fail"); else tracked_send(cs, p);
  settle(120000);
  sim_now += 2000;
  settle(120000);
}


/* sends that have to WAIT: NSTART = 1, so of three CONs sent back to back the second and third go to the session's delay queue
 * (coap_session_delay_pdu: a queue node each); the NON goes out at once; the ACKs drain the queue (coap_session_connected).
 * Then a CON whose first transmission is lost, with two more CONs waiting behind it until its retransmission is answered */
static int dly_drop;
static void dly_tx(const sim_dgram_t *d) {
  if (dly_drop > 0 && d->dst.addr.sin.sin_port == ep->bind_addr.addr.sin.sin_port) { dly_drop--; return; }   /* lost on the way to the server */
  on_tx(d);
}
static void scn_dly(void) {
  coap_pdu_t *p;
  uint8_t tok[2] = {0x91, 0};
  if (!world_up(0, 0)) { out_put("setup-fail"); return; }
  for (int i = 0; i < 4; i++) {
    tok[1] = (uint8_t)(i + 1);
    p = new_req(i == 2 ? COAP_MESSAGE_NON : COAP_MESSAGE_CON, COAP_REQUEST_CODE_GET, tok, 2, "r");
    if (!p) out_put("pdu-fail"); else tracked_send(cs, p);
  }
  out_put("dq%u", sim_delayq_len(cs));
  settle(120000);
  out_put("dq%u", sim_delayq_len(cs));
  /* the first transmission of a CON is lost: while it waits for its retransmission two more CONs queue up behind it */
  dly_drop = 1; sim_tx_hook = dly_tx;
  for (int i = 0; i < 3; i++) {
    tok[1] = (uint8_t)(i + 0x11);
    p = new_req(COAP_MESSAGE_CON, COAP_REQUEST_CODE_GET, tok, 2, "r");
    if (!p) out_put("pdu-fail"); else tracked_send(cs, p);
  }
  out_put("dq%u", sim_delayq_len(cs));
  settle(120000);
  sim_tx_hook = on_tx;
  out_put("dq%u", sim_delayq_len(cs));
}

/* CoAP over TCP (RFC 8323) between the two contexts over the kernel's loopback: messages longer than the first buffer of the
 * receive PDU make coap_read_session grow it once the length is known */
static coap_endpoint_t *tep;
static coap_session_t *ts1, *ts2;
static int tcp_put_ok, tcp_put_bad;
static void hnd_tput(coap_resource_t *r, coap_session_t *s, const coap_pdu_t *req, const coap_string_t *q, coap_pdu_t *rsp) {
  size_t len = 0;
  const uint8_t *data = NULL;
  (void)r; (void)s; (void)q;
  s_req++;
  if (coap_get_data(req, &len, &data) && (len == 400 || len == 1200) && !memcmp(data, body, len)) tcp_put_ok++; else { tcp_put_bad++;
    if (getenv("H_DEBUG")) { size_t i = 0; while (data && i < len && data[i] == body[i]) i++; fprintf(stderr, "TPUT-BAD len=%zu first-mismatch=%zu\n", len, i); } }
  coap_pdu_set_code(rsp, COAP_RESPONSE_CODE_CHANGED);
}
static void tcp_send(coap_session_t *s, int code, int tokb, const char *path, size_t plen) {
  coap_pdu_t *p;
  uint8_t tok[2] = {0x92, (uint8_t)tokb};
  if (!s) { out_put("nosess"); return; }
  p = coap_new_pdu(COAP_MESSAGE_CON, (coap_pdu_code_t)code, s);
  if (p && (!coap_add_token(p, 2, tok) || !coap_add_option(p, COAP_OPTION_URI_PATH, strlen(path), (const uint8_t *)path) ||
            (plen && !coap_add_data(p, plen, body)))) { coap_delete_pdu(p); p = NULL; }
  if (!p) { out_put("pdu-fail"); return; }
  tracked_send(s, p);
  settle(30000);
}
static unsigned tcp_srv_sessions(void) {
  unsigned n = 0;
  coap_session_t *s, *tmp;
  if (tep) SESSIONS_ITER(tep->sessions, s, tmp) n++;
  return n;
}
static void tcp_world_down(void) {
  if (ts1) coap_session_release(ts1);
  if (ts2) coap_session_release(ts2);
  ts1 = ts2 = NULL; tep = NULL;
}
/* wsp: the second session's socket takes only half of every large write (a non-blocking socket with a full send buffer):
 * coap_ws_write keeps the progress within the frame, the rest goes out when the socket is writable again, and the server
 * gets the frame's payload in several reads (coap_ws_read keeps what it has in ws->rx_data) */
static ssize_t wsp_write(coap_session_t *session, const uint8_t *data, size_t datalen) {
  ssize_t r = coap_netif_strm_write(session, data, datalen > 300 ? datalen / 2 : datalen);
  if (r >= 0 && (size_t)r < datalen) {
    /* what coap_socket_write does after a short send(): ask for the socket to become writable (coap_send_pdu queues
     * later messages behind the unfinished one while this flag is set) */
    session->sock.flags |= COAP_SOCKET_WANT_WRITE;
    coap_epoll_ctl_mod(&session->sock, EPOLLOUT | ((session->sock.flags & COAP_SOCKET_WANT_READ) ? EPOLLIN : 0), __func__);
  }
  return r;
}
static int ws_split;
static void scn_stream(coap_proto_t proto) {
  coap_address_t a;
  ts1 = ts2 = NULL; tep = NULL; tcp_put_ok = tcp_put_bad = 0;
  tcp_on = 1;
  if (!world_up(0, 0)) { out_put("setup-fail"); return; }
  if (!add_res("tput", COAP_REQUEST_PUT, hnd_tput, 0, NULL)) { out_put("setup-fail"); return; }
  sim_addr(&a, 0);
  tep = coap_new_endpoint(srv, &a, proto);
  if (!tep) { out_put("tcp-ep-fail"); return; }
  a = tep->bind_addr;
  ts1 = coap_new_client_session(cli, NULL, &a, proto);
  ts2 = coap_new_client_session(cli, NULL, &a, proto);
  if (proto == COAP_PROTO_WS) {
    /* CoAP over WebSockets: the HTTP upgrade (coap_ws_establish, coap_ws_rd_http_header) runs over the real loopback
     * connection; session->ws, the frame buffer of coap_ws_write and the receive PDU of the WS branch of coap_read_session
     * are inside the failure window */
    static const uint8_t host[] = "localhost";
    coap_str_const_t h = { sizeof(host) - 1, host };
    if (ts1 && !coap_ws_set_host_request(ts1, &h)) out_put("nohost1");
    if (ts2 && !coap_ws_set_host_request(ts2, &h)) out_put("nohost2");
    if (ts2 && ws_split) ts2->sock.lfunc[COAP_LAYER_WS].l_write = wsp_write;
  }
  out_put("sess%d%d", !!ts1, !!ts2);
  settle(30000);
  out_put("est%d%d/%u", ts1 && ts1->state == COAP_SESSION_STATE_ESTABLISHED, ts2 && ts2->state == COAP_SESSION_STATE_ESTABLISHED,
          tcp_srv_sessions());
  tcp_send(ts1, COAP_REQUEST_CODE_PUT, 1, "tput", 400);
  tcp_send(ts2, COAP_REQUEST_CODE_PUT, 2, "tput", 400);
  tcp_send(ts2, COAP_REQUEST_CODE_PUT, 3, "tput", 1200);
  tcp_send(ts2, COAP_REQUEST_CODE_GET, 4, "r", 0);
  /* whatever happened to the second session, the first one is still served */
  tcp_send(ts1, COAP_REQUEST_CODE_PUT, 5, "tput", 400);
  out_put("tput%d/%d,srvs%u", tcp_put_ok, tcp_put_bad, tcp_srv_sessions());
  /* a session that is still up must still be served: unless a request fails during the probe itself, every GET on an
   * established session is answered ("deaf" otherwise: the failure on one session has broken another one) */
  {
    int before = af_nfailed, rsp0 = c_rsp, asked = 0;
    if (ts1 && ts1->state == COAP_SESSION_STATE_ESTABLISHED) { tcp_send(ts1, COAP_REQUEST_CODE_GET, 6, "r", 0); asked++; }
    if (ts2 && ts2->state == COAP_SESSION_STATE_ESTABLISHED) { tcp_send(ts2, COAP_REQUEST_CODE_GET, 7, "r", 0); asked++; }
    if (af_nfailed == before && c_rsp - rsp0 != asked) out_put("deaf%d/%d", c_rsp - rsp0, asked);
    out_put("up%d", asked);
  }
}

static void scn_tcp(void) { scn_stream(COAP_PROTO_TCP); }
static void scn_ws(void) { ws_split = 0; scn_stream(COAP_PROTO_WS); }
static void scn_wsp(void) { ws_split = 1; scn_stream(COAP_PROTO_WS); ws_split = 0; }

/* the canary: with memory available a fresh CON GET /r must be answered 2.05 */
static int canary_once(void) {
  coap_pdu_t *p;
  int rsp0 = c_rsp, req0 = s_req;
  p = new_req(COAP_MESSAGE_CON, COAP_REQUEST_CODE_GET, (const uint8_t *)"\xca\xfe", 2, "r");
  if (!p) return 1;
  if (coap_send(cs, p) == COAP_INVALID_MID) return 2;
  settle(200000);
  if (s_req == req0) return 3;
  if (c_rsp == rsp0) return 4;
  if (c_codes[(c_rsp - 1) & 15] != COAP_RESPONSE_CODE_CONTENT && c_rsp <= 16) return 5;
  return 0;
}

/* ------------------------------------------------------------------ session references: every one has a holder
 * A reference on a coap_session_t is held by the application (the client session cs: one), by a subscription of an
 * observable resource, by an async entry or by a node of the context's send queue (coap_wait_ack) -- by nothing else once
 * a call into the library has returned.  A reference without holder pins the session for the life of the endpoint (never
 * reclaimed as idle: a leak that tear-down hides, coap_free_endpoint drops stale references); a holder without reference is
 * a use after free waiting for the idle timeout. */
static unsigned holders_of(coap_context_t *c, coap_session_t *s) {
  unsigned n = 0;
  coap_queue_t *q;
  coap_subscription_t *sub;
  coap_async_t *a;
  LL_FOREACH(c->sendqueue, q) if (q->session == s) n++;
#if COAP_SERVER_SUPPORT
  {
    RESOURCES_ITER(c->resources, r) { LL_FOREACH(r->subscribers, sub) if (sub->session == s) n++; }
  }
  if (c->unknown_resource) LL_FOREACH(c->unknown_resource->subscribers, sub) if (sub->session == s) n++;
  if (c->proxy_uri_resource) LL_FOREACH(c->proxy_uri_resource->subscribers, sub) if (sub->session == s) n++;
#endif
#if COAP_ASYNC_SUPPORT
  LL_FOREACH(c->async_state, a) if (a->session == s) n++;
#endif
  if (s == cs) n++;
  if (s == ts1 || s == ts2) n++;
  return n;
}
static char rb[256];
static size_t rblen;
static void refs_put(char who, int idx, unsigned ref, unsigned holders) {
  int n = snprintf(rb + rblen, sizeof(rb) - rblen, "%s%c%d:%u/%u", rblen ? "," : "", who, idx, ref, holders);
  if (n > 0 && rblen + (size_t)n < sizeof(rb)) rblen += (size_t)n;
}
/* ref == holders for every session of both contexts; then the server's sessions that nothing holds must be reclaimed once
 * they have been idle for the session timeout (virtual time): returns the number of those that are still there */
static int refs_idle_check(void) {
  coap_session_t *s, *tmp;
  coap_endpoint_t *e;
  int i = 0, left = 0;
  rblen = 0; rb[0] = 0;
  if (cli) { SESSIONS_ITER(cli->sessions, s, tmp) { unsigned h = holders_of(cli, s); if (s->ref != h) refs_put('C', i, s->ref, h); i++; } }
  i = 0;
  if (srv) LL_FOREACH(srv->endpoint, e) { SESSIONS_ITER(e->sessions, s, tmp) { unsigned h = holders_of(srv, s); if (s->ref != h) refs_put('S', i, s->ref, h); i++; } }
  if (!srv) return 0;
  sim_now += (coap_tick_t)(COAP_DEFAULT_SESSION_TIMEOUT + 1) * COAP_TICKS_PER_SECOND;
  coap_io_prepare_epoll(srv, sim_now);
  LL_FOREACH(srv->endpoint, e) { SESSIONS_ITER(e->sessions, s, tmp) if (s->type == COAP_SESSION_TYPE_SERVER && !s->delayqueue && !holders_of(srv, s)) left++; }
  return left;
}

static const struct { const char *name; void (*fn)(void); } scns[] = {
  {"uri", scn_uri}, {"pdu", scn_pdu}, {"rr", scn_rr}, {"b1", scn_b1}, {"b2", scn_b2}, {"obs", scn_obs},
  {"setup", scn_setup}, {"osc", scn_osc}, {"h508", scn_h508},
  {"wkc", scn_wkc}, {"b1raw", scn_b1raw}, {"b2raw", scn_b2raw}, {"obsblk", scn_obsblk}, {"cache", scn_cache}, {"async", scn_async},
  {"obsre", scn_obsre}, {"obsfetch", scn_obsfetch}, {"oscobs", scn_oscobs}, {"echo", scn_echo}, {"xtok", scn_xtok},
  {"dly", scn_dly}, {"tcp", scn_tcp}, {"ws", scn_ws}, {"wsp", scn_wsp},
};

static void on_alarm(int sig) {
  static const char m[] = "\nAF-TIMEOUT\n";
  (void)sig;
  if (write(2, m, sizeof(m) - 1)) {}
  _exit(88);
}

static void h_init(void) {
  static char obuf[1 << 22];
  sim_global_init();
  setvbuf(stdout, obuf, _IOFBF, sizeof(obuf));
  dl_iterate_phdr(bias_cb, &af_bias);
  for (size_t i = 0; i < sizeof(body); i++) body[i] = (uint8_t)(i * 7 + (i >> 8));
  signal(SIGALRM, on_alarm);
}

/* deterministic but varied "random" bytes: the two contexts must not start with the same message id */
static void prng_script(void) {
  for (size_t i = 0; i < sizeof(sim_prng_script); i++) sim_prng_script[i] = (uint8_t)(i * 37 + 11 + (i >> 8));
  sim_prng_n = sizeof(sim_prng_script); sim_prng_pos = 0;
  sim_prng_fill = 0x55;
}
static void begin_line(void) {
  sim_reset();
  sim_log_enabled = 0;
  prng_script();
  sim_tx_hook = on_tx;
  world_zero();
  oblen = 0; ob[0] = 0; sblen = 0; sb[0] = 0; nsent = 0;
  c_rsp = c_nack = c_body_ok = c_body_bad = 0; s_req = s_put_ok = s_put_bad = 0; obs_val = 0;
  w_srv_block = w_cli_block = 1;
  exp_body = body; exp_len = sizeof(body); exp_strict = 0;
  memcpy(obody, body, sizeof(body));
  raw2_served = 0; g_async = NULL; cache_cb = 0; cache_live = 0; tcp_on = 0;
  af_count = 0; af_nfailed = 0; af_open = 0;
  if (getenv("H_DEBUG")) coap_set_log_level(COAP_LOG_DEBUG);          /* debugging aid: libcoap's own log on stderr */
  tr_reset();
  memset(tr_freed, 0, sizeof(tr_freed));
}
static void end_line(void) {
  for (unsigned i = 0; i < sim_ntx; i++) free(sim_tx[i].data);
  memset(sim_tx, 0, sizeof(sim_tx[0]) * sim_ntx);      /* nothing of ours may keep a leaked object reachable for LSan */
  sim_ntx = 0; npending = 0;
  memset(pending, 0, sizeof(pending));
  printf(" | A %s%s", tr_len ? tr_buf : "-", tr_overflow ? " overflow" : "");
  {
    int leak = getenv("H_NO_LSAN") ? 0 : __lsan_do_recoverable_leak_check();
    printf(" | lsan=%d", leak);
    for (unsigned h = 0; h < TR_HASH; h++)
      if (tr_tab[h].p && !tr_tab[h].freed) __lsan_ignore_object((void *)~tr_tab[h].p);
  }
}
static void print_fail(void) {
  printf(" fail=");
  if (!af_nfailed) printf("-");
  for (int i = 0; i < af_nfailed; i++)
    printf("%s%s@%lx/%lx/%lx/%lx", i ? "," : "", tag_name(af_failed[i].type), (unsigned long)af_failed[i].site[0],
           (unsigned long)af_failed[i].site[1], (unsigned long)af_failed[i].site[2], (unsigned long)af_failed[i].site[3]);
}

static void do_alloc(char **w, int n) {
  int si = -1;
  const char *canary;
  char cbuf[48];
  int same = 0, consumed_bad = -1, idle_left = 0;
  void (*fn)(void) = NULL;
  for (size_t i = 0; i < sizeof(scns) / sizeof(scns[0]); i++) if (!strcmp(w[1], scns[i].name)) { si = (int)i; fn = scns[i].fn; }
  if (si < 0 && !strncmp(w[1], "b1o.", 4) && w[1][4] && strlen(w[1] + 4) <= 16 && strspn(w[1] + 4, "01234") == strlen(w[1] + 4)) {
    si = 0; fn = scn_b1o; b1o_order = w[1] + 4;
  }
  if (si < 0 && !strncmp(w[1], "b1u.", 4) && w[1][4] && strlen(w[1] + 4) <= 40 && strlen(w[1] + 4) % 2 == 0) {
    int ok = 1;
    for (const char *q = w[1] + 4; *q; q += 2) if ((q[0] != 'u' && q[0] != 'p') || q[1] < '0' || q[1] > '4') ok = 0;
    if (ok) { si = 0; fn = scn_b1u; b1u_spec = w[1] + 4; }
  }
  if (si < 0 || n < 3 || n > 4) { printf("bad-op"); return; }
  begin_line();
  af_k1 = (unsigned)strtoul(w[2], NULL, 10);
  af_k2 = n == 4 ? (unsigned)strtoul(w[3], NULL, 10) : 0;
  tr_on = 1; tr_lenient = 0;
  af_open = 1;
  fn();
  af_open = 0;
  /* outcome of the failing run */
  out_put("req%d,rsp%d", s_req, c_rsp);
  for (int i = 0; i < c_rsp && i < 16; i++) out_put("c%d.%02d", c_codes[i] >> 5, c_codes[i] & 31);
  out_put("nack%d,body%d/%d,put%d/%d", c_nack, c_body_ok, c_body_bad, s_put_ok, s_put_bad);
  exp_strict = 0; exp_body = body; exp_len = sizeof(body);
  /* canary: on the same contexts where they survived (after the outstanding exchanges have run their course) */
  if (srv && cli && ep && cs) {
    int rc;
    same = 1;
    settle(400000);
    rc = canary_once();
    if (rc) { snprintf(cbuf, sizeof(cbuf), "fail%d", rc); canary = cbuf; } else canary = "ok";
    idle_left = refs_idle_check();
    world_down();
  } else {
    int rc;
    idle_left = refs_idle_check();
    world_down();
    sim_reset(); sim_tx_hook = on_tx; sim_log_enabled = 0; prng_script();
    if (!world_up(0, 0)) canary = "fail-setup";
    else {
      rc = canary_once();
      if (rc) { snprintf(cbuf, sizeof(cbuf), "fail%d", rc); canary = cbuf; } else canary = "ok";
    }
    world_down();
  }
  tr_on = 0;
  for (int i = 0; i < nsent; i++)
    if (!sent_serial[i] || sent_serial[i] >= TR_MAXSERIAL || !tr_freed[sent_serial[i]]) { consumed_bad = i; break; }
  printf("n=%u", af_count);
  print_fail();
  printf(" out=%s sends=%s pdu_consumed=", oblen ? ob : "-", sblen ? sb : "-");
  if (consumed_bad < 0) printf("yes"); else printf("no:%d", consumed_bad);
  printf(" canary=%s:%s", canary, same ? "same" : "fresh");
  printf(" refs=%s idle=%d", rblen ? rb : "ok", idle_left);
  end_line();
}

/* ------------------------------------------------------------------ scripted helper layer (modelled in Lean) */
#define MAXSTR 64
static void do_ahelp(char **w, int n) {
  coap_pdu_t *pdu = NULL;
  coap_optlist_t *ol = NULL;
  void *strs[MAXSTR];
  int nstr = 0, first = 1, nmid = 0, want_ss = 0;
  coap_session_t *ss = NULL;       /* the server's session for the client */
  static uint8_t val[70000];
  size_t win_start;
  char *wtrace;
  if (n < 3) { printf("bad-op"); return; }
  /* validate */
  for (int i = 3; i < n; i++) {
    const char *e = w[i];
    char *end;
    if (!e[0]) { printf("bad-op"); return; }
    if (strchr("ITDRCSsbAB", e[0])) { if (!e[1]) { printf("bad-op"); return; } strtoul(e + 1, &end, 10); if (*end) { printf("bad-op"); return; } }
    else if (e[0] == 'O' || e[0] == 'L') {
      if (!e[1]) { printf("bad-op"); return; }
      strtoul(e + 1, &end, 10);
      if (*end != ':' || !end[1]) { printf("bad-op"); return; }
      strtoul(end + 1, &end, 10);
      if (*end) { printf("bad-op"); return; }
    } else if (strchr("KPXF", e[0])) { if (e[1]) { printf("bad-op"); return; } }
    else if (e[0] == 'V') { if (strcmp(e, "Vc") && strcmp(e, "Vn")) { printf("bad-op"); return; } }
    else if (e[0] == 'W') { if (strcmp(e, "W0") && strcmp(e, "W1")) { printf("bad-op"); return; } }
    else if (e[0] == 'E') { if (strcmp(e, "E0") && strcmp(e, "E1")) { printf("bad-op"); return; } }
    else { printf("bad-op"); return; }
  }
  begin_line();
  sim_tx_hook = NULL;            /* nothing is delivered: the peer never answers */
  for (size_t i = 0; i < sizeof(val); i++) val[i] = (uint8_t)(i + 1);
  /* the session exists before the script starts and is not part of the trace */
  tr_on = 0;
  w_block = 0;
  if (!world_up(0, 0)) { printf("setup-fail"); world_down(); w_block = 1; return; }
  w_block = 1;
  /* scripts with observer ops: the server session exists before the script starts as well (one NON exchange) */
  for (int i = 3; i < n; i++) if (w[i][0] == 'A' || w[i][0] == 'B') want_ss = 1;
  if (want_ss) {
    coap_pdu_t *p = new_req(COAP_MESSAGE_NON, COAP_REQUEST_CODE_GET, (const uint8_t *)"\x70", 1, "r");
    coap_session_t *s, *tmp;
    sim_tx_hook = on_tx;
    if (p) coap_send(cs, p);
    settle(10000);
    sim_tx_hook = NULL; npending = 0;
    SESSIONS_ITER(ep->sessions, s, tmp) ss = s;
    if (!ss || ss->ref != 0 || !r_obs) { printf("setup-fail"); world_down(); return; }
  }
  af_k1 = (unsigned)strtoul(w[1], NULL, 10);
  af_k2 = (unsigned)strtoul(w[2], NULL, 10);
  tr_on = 1; tr_lenient = 1;
  af_open = 1;
  printf("rc=");
  for (int i = 3; i < n; i++) {
    const char *e = w[i];
    char *end;
    unsigned long a = 0, b = 0;
    char rcs[32] = "-";
    if (e[1] && e[0] != 'V' && e[0] != 'W' && e[0] != 'E') { a = strtoul(e + 1, &end, 10); if (*end == ':') b = strtoul(end + 1, NULL, 10); }
    switch (e[0]) {
    case 'I':
      if (pdu) coap_delete_pdu(pdu);
      pdu = coap_pdu_init(COAP_MESSAGE_CON, COAP_REQUEST_CODE_GET, 0x1000 + (++nmid), a);      /* distinct message ids */
      snprintf(rcs, sizeof(rcs), "%d", !!pdu);
      break;
    case 'T': if (a <= sizeof(val)) snprintf(rcs, sizeof(rcs), "%d", coap_add_token(pdu, a, val)); break;
    case 'O': if (pdu && b <= sizeof(val)) snprintf(rcs, sizeof(rcs), "%zu", coap_add_option(pdu, (coap_option_num_t)a, b, val)); break;
    case 'D': if (pdu && a <= sizeof(val)) snprintf(rcs, sizeof(rcs), "%d", coap_add_data(pdu, a, val)); break;
    case 'R': if (pdu && a >= pdu->used_size) snprintf(rcs, sizeof(rcs), "%d", coap_pdu_resize(pdu, a)); break;  /* no caller shrinks below used_size */
    case 'C': if (pdu) snprintf(rcs, sizeof(rcs), "%d", coap_pdu_check_resize(pdu, a)); break;
    case 'K': coap_delete_pdu(pdu); pdu = NULL; strcpy(rcs, "1"); break;
    case 'L': if (b <= sizeof(val)) snprintf(rcs, sizeof(rcs), "%d", coap_insert_optlist(&ol, coap_new_optlist((uint16_t)a, b, val))); break;
    case 'P': if (pdu) snprintf(rcs, sizeof(rcs), "%d", coap_add_optlist_pdu(pdu, &ol)); break;
    case 'X': coap_delete_optlist(ol); ol = NULL; strcpy(rcs, "1"); break;
    case 'S': case 's': case 'b':
      if (nstr < MAXSTR && a <= sizeof(val)) {
        void *s = e[0] == 'S' ? (void *)coap_new_string(a) : e[0] == 's' ? (void *)coap_new_str_const(val, a) : (void *)coap_new_bin_const(val, a);
        if (s) strs[nstr++] = s;
        snprintf(rcs, sizeof(rcs), "%d", !!s);
      }
      break;
    case 'F': for (int j = 0; j < nstr; j++) coap_delete_string((coap_string_t *)strs[j]); nstr = 0; strcpy(rcs, "1"); break;
    case 'W': sim_send_result_override = e[1] == '1' ? -1 : 0; strcpy(rcs, "1"); break;
    case 'E':
      /* E0: the state a client session is in while the DTLS handshake / TCP connect / CSM exchange is pending: coap_send_pdu
       * delays every message; E1: what the transport layer calls when the session is up: the delay queue is drained */
      if (e[1] == '0') cs->state = COAP_SESSION_STATE_CONNECTING;
      else { coap_lock_lock(cli, break); coap_session_connected(cs); coap_lock_unlock(cli); }
      strcpy(rcs, "1");
      break;
    case 'A':
      if (pdu && ss && a <= sizeof(val)) {
        coap_bin_const_t tk = { a, val };
        snprintf(rcs, sizeof(rcs), "%d", coap_add_observer(r_obs, ss, &tk, pdu) != NULL);
      }
      break;
    case 'B':
      if (ss && a <= sizeof(val)) {
        coap_bin_const_t tk = { a, val };
        snprintf(rcs, sizeof(rcs), "%d", coap_delete_observer(r_obs, ss, &tk));
      }
      break;
    case 'V':
      if (pdu) {
        unsigned ser = tr_serial_of(pdu);
        coap_mid_t mid;
        pdu->type = e[1] == 'c' ? COAP_MESSAGE_CON : COAP_MESSAGE_NON;
        mid = coap_send(cs, pdu);
        pdu = NULL;            /* consumed whatever happened */
        snprintf(rcs, sizeof(rcs), "%s%c", mid == COAP_INVALID_MID ? "inv" : "ok", ser && tr_freed[ser] ? 'f' : 'q');
      }
      break;
    }
    printf("%s%s", first ? "" : ",", rcs);
    first = 0;
  }
  if (first) printf("-");
  af_open = 0;
  printf(" n=%u", af_count);
  if (pdu) {
    printf(" pdu=%zu/%zu/%u/", pdu->alloc_size, pdu->max_size, (unsigned)pdu->max_opt);
    if (pdu->data) printf("%zu/", (size_t)(pdu->data - pdu->token)); else printf("-/");
    h_puthex(stdout, pdu->token, pdu->used_size);
  } else printf(" pdu=none");
  printf(" ol=");
  if (!ol) printf("-");
  for (coap_optlist_t *o = ol; o; o = o->next) printf("%s%u:%zu", o == ol ? "" : ",", (unsigned)o->number, o->length);
  printf(" str=%d q=%u/%u/%u", nstr, sim_sendq_len(cli), sim_delayq_len(cs), sim_con_active(cs));
  /* session->ref / token lengths of the subscriptions in list order / the request kept with the first one */
  printf(" obs=%u/", ss ? ss->ref : 0);
  if (!ss || !r_obs->subscribers) printf("- sp=none");
  else {
    coap_subscription_t *sub;
    const coap_pdu_t *sp = r_obs->subscribers->pdu;
    LL_FOREACH(r_obs->subscribers, sub) printf("%s%zu", sub == r_obs->subscribers ? "" : ",", sub->pdu->actual_token.length);
    printf(" sp=%zu/%zu/%u/", sp->alloc_size, sp->max_size, (unsigned)sp->max_opt);
    if (sp->data) printf("%zu/", (size_t)(sp->data - sp->token)); else printf("-/");
    h_puthex(stdout, sp->token, sp->used_size);
  }
  win_start = 0;
  wtrace = tr_len ? strdup(tr_buf) : strdup("-");
  printf(" T %s", wtrace);
  free(wtrace);
  (void)win_start;
  /* tear-down: what the script still owns, then the world */
  coap_delete_pdu(pdu);
  coap_delete_optlist(ol);
  for (int j = 0; j < nstr; j++) coap_delete_string((coap_string_t *)strs[j]);
  sim_send_result_override = 0;
  world_down();
  tr_on = 0;
  end_line();
}


/* ------------------------------------------------------------------ scripted Block-layer containers (modelled in Lean, Model/AllocBlock.lean)
 *
 *   atrack <k1> <k2> <step> ...      the client's lg_crcv with its table of Observe tokens (large FETCH):
 *       n<f|g>:<o>:<tl>:<dl>   coap_block_new_lg_crcv(client session, request, NULL); request = FETCH (f) or GET (g) with a
 *                              <tl>-byte token, Observe <o> (e = 0 register, c = 1 cancel, x = 2, n = no option), Uri-Path,
 *                              <dl> bytes of payload; skipped when there is one already
 *       t<o>:<bn>:<tl>         track_fetch_observe(FETCH request with Observe <o>, lg_crcv, block <bn>, <tl>-byte token)
 *       d                      coap_block_delete_lg_crcv
 *     output: rc=<1|0 | N (NULL) r<len> (token returned) | 1> n=<requests> tab=<obs_token_cnt>/<token length | N per entry>
 *             ("NULL!" = the count says there are entries while the list is NULL) T <trace of the library calls>
 *
 *   asrcv <k1> <k2> <szx> <bodylen> <tl> <size1|-> <step> ...   the server's lg_srcv (Block1 reassembly, SINGLE_BODY):
 *       p<num>:<m>[:<len>]     coap_handle_request_put_block(server session, PUT /put with Block1 num/m/szx, <tl>-byte token,
 *                              Size1 if given, payload = that slice of the body or its first <len> bytes); when the body is
 *                              handed over, the lg_srcv is released as handle_request does after the handler
 *       x                      the transfer state is dropped (coap_block_delete_lg_srcv, as session tear-down / expiry do)
 *     output: rc=<d<body_length>:<1 body is the prefix of the real body | 0> | s<response code>> n=<requests>
 *             lg=<none | <ranges>/<total_len>/<body length|->/<no_more_seen>/<last_token length|->> T <trace>
 * Only the library calls are inside the failure window and in the trace; the requests are built outside. */
static void lib_on(void) { tr_on = 1; af_open = 1; }
static void lib_off(void) { tr_on = 0; af_open = 0; }
static coap_pdu_t *trk_request(int fetch, char o, size_t tl, size_t dl, const uint8_t *val) {
  coap_pdu_t *p = coap_pdu_init(COAP_MESSAGE_CON, fetch ? COAP_REQUEST_CODE_FETCH : COAP_REQUEST_CODE_GET, 0x2000, 1152);
  uint8_t ov[1];
  if (!p) return NULL;
  coap_add_token(p, tl, val);
  ov[0] = o == 'c' ? 1 : 2;
  if (o != 'n') coap_add_option(p, COAP_OPTION_OBSERVE, o == 'e' ? 0 : 1, ov);
  coap_add_option(p, COAP_OPTION_URI_PATH, 4, (const uint8_t *)"obsf");
  if (dl) { coap_add_option(p, COAP_OPTION_CONTENT_FORMAT, 0, NULL); coap_add_data(p, dl, val); }
  return p;
}
static void do_atrack(char **w, int n) {
  static uint8_t val[64];
  coap_lg_crcv_t *lg = NULL;
  int first = 1;
  char *wtrace;
  if (n < 3) { printf("bad-op"); return; }
  for (int i = 3; i < n; i++) {
    const char *e = w[i];
    unsigned a, b, c; char o, f;
    int used = 0;
    if (e[0] == 'n') { if (sscanf(e, "n%c:%c:%u:%u%n", &f, &o, &a, &b, &used) != 4 || e[used] || !strchr("fg", f) || !strchr("ecxn", o) || a > 8 || b > 60) { printf("bad-op"); return; } }
    else if (e[0] == 't') { if (sscanf(e, "t%c:%u:%u%n", &o, &a, &b, &used) != 3 || e[used] || !strchr("ecxn", o) || a > 4000 || b > 8) { printf("bad-op"); return; } }
    else if (strcmp(e, "d")) { printf("bad-op"); return; }
    (void)c;
  }
  begin_line();
  sim_tx_hook = NULL;
  for (size_t i = 0; i < sizeof(val); i++) val[i] = (uint8_t)(i + 1);
  tr_on = 0;
  if (!world_up(0, 0)) { printf("setup-fail"); world_down(); return; }
  af_k1 = (unsigned)strtoul(w[1], NULL, 10);
  af_k2 = (unsigned)strtoul(w[2], NULL, 10);
  tr_lenient = 1;
  printf("rc=");
  for (int i = 3; i < n; i++) {
    const char *e = w[i];
    char rcs[32] = "-";
    unsigned a = 0, b = 0; char o = 'n', f = 'f';
    if (e[0] == 'n') {
      sscanf(e, "n%c:%c:%u:%u", &f, &o, &a, &b);
      if (!lg) {
        coap_pdu_t *p = trk_request(f == 'f', o, a, b, val);
        if (p) {
          coap_lock_lock(cli, break);
          lib_on();
          lg = coap_block_new_lg_crcv(cs, p, NULL);
          lib_off();
          coap_lock_unlock(cli);
          coap_delete_pdu(p);
          snprintf(rcs, sizeof(rcs), "%d", !!lg);
        }
      }
    } else if (e[0] == 't') {
      sscanf(e, "t%c:%u:%u", &o, &a, &b);
      if (lg) {
        coap_pdu_t *p = trk_request(1, o, 2, 0, val);
        if (p) {
          coap_bin_const_t tk = { b, val }, *r;
          coap_lock_lock(cli, break);
          lib_on();
          r = track_fetch_observe(p, lg, a, &tk);
          lib_off();
          coap_lock_unlock(cli);
          coap_delete_pdu(p);
          if (r) snprintf(rcs, sizeof(rcs), "r%zu", r->length); else strcpy(rcs, "N");
        }
      }
    } else if (lg) {
      coap_lock_lock(cli, break);
      lib_on();
      coap_block_delete_lg_crcv(cs, lg);
      lib_off();
      coap_lock_unlock(cli);
      lg = NULL;
      strcpy(rcs, "1");
    }
    printf("%s%s", first ? "" : ",", rcs);
    first = 0;
  }
  if (first) printf("-");
  printf(" n=%u tab=", af_count);
  if (!lg) printf("none");
  else {
    printf("%zu/", lg->obs_token_cnt);
    if (!lg->obs_token_cnt) printf("-");
    else if (!lg->obs_token) printf("NULL!");
    else for (size_t i = 0; i < lg->obs_token_cnt; i++) {
      if (i) printf(",");
      if (lg->obs_token[i]) printf("%zu", lg->obs_token[i]->length); else printf("N");
    }
  }
  wtrace = tr_len ? strdup(tr_buf) : strdup("-");
  printf(" T %s", wtrace);
  free(wtrace);
  /* tear-down: the lg_crcv as the session would release it, then the world */
  tr_on = 1;
  if (lg) { coap_lock_lock(cli, return); coap_block_delete_lg_crcv(cs, lg); coap_lock_unlock(cli); }
  world_down();
  tr_on = 0;
  end_line();
}

static void srcv_show(coap_session_t *ss) {
  coap_lg_srcv_t *lg = ss->lg_srcv;
  printf(" lg=");
  if (!lg) { printf("none"); return; }
  if (!lg->rec_blocks.used) printf("-");
  for (uint32_t i = 0; i < lg->rec_blocks.used; i++) printf("%s%u-%u", i ? ";" : "", lg->rec_blocks.range[i].begin, lg->rec_blocks.range[i].end);
  printf("/%zu/", lg->total_len);
  if (lg->body_data) printf("%zu", lg->body_data->length); else printf("-");
  printf("/%d/", (int)lg->no_more_seen);
  if (lg->last_token) printf("%zu", lg->last_token->length); else printf("-");
  if (lg->next) printf("+more");
}
static void do_asrcv(char **w, int n, int unk) {
  static const char *const upath = "unk1";
  const char *path = unk ? upath : "put";
  coap_session_t *ss = NULL, *s, *tmp;
  coap_resource_t *res;
  coap_string_t *uri;
  unsigned szx, tl;
  size_t blen, chunk;
  long size1 = -1;
  int first = 1;
  char *wtrace;
  if (n < 7) { printf("bad-op"); return; }
  szx = (unsigned)strtoul(w[3], NULL, 10); blen = strtoul(w[4], NULL, 10); tl = (unsigned)strtoul(w[5], NULL, 10);
  if (szx > 6 || blen > sizeof(body) || tl > 8) { printf("bad-op"); return; }
  if (strcmp(w[6], "-")) { char *end; size1 = strtol(w[6], &end, 10); if (*end || size1 < 0) { printf("bad-op"); return; } }
  for (int i = 7; i < n; i++) {
    unsigned a, b, c; int used = 0;
    if (!strcmp(w[i], "x")) continue;
    if (sscanf(w[i], "p%u:%u:%u%n", &a, &b, &c, &used) == 3 && !w[i][used] && b <= 1 && a < 100000) continue;
    used = 0;
    if (sscanf(w[i], "p%u:%u%n", &a, &b, &used) == 2 && !w[i][used] && b <= 1 && a < 100000) continue;
    printf("bad-op"); return;
  }
  chunk = (size_t)1 << (szx + 4);
  begin_line();
  tr_on = 0;
  if (!world_up(0, unk)) { printf("setup-fail"); world_down(); return; }
  {
    coap_pdu_t *p = new_req(COAP_MESSAGE_NON, COAP_REQUEST_CODE_GET, (const uint8_t *)"\x70", 1, "r");
    if (p) coap_send(cs, p);
    settle(10000);
    sim_tx_hook = NULL; npending = 0;
    SESSIONS_ITER(ep->sessions, s, tmp) ss = s;
  }
  {
    coap_str_const_t pth = { 3, (const uint8_t *)"put" };
    coap_lock_lock(srv, return);
    res = unk ? srv->unknown_resource : coap_get_resource_from_uri_path_lkd(srv, &pth);
    coap_lock_unlock(srv);
  }
  uri = coap_new_string(strlen(path));
  if (!ss || !res || !uri) { printf("setup-fail"); coap_delete_string(uri); world_down(); return; }
  memcpy(uri->s, path, strlen(path));
  af_k1 = (unsigned)strtoul(w[1], NULL, 10);
  af_k2 = (unsigned)strtoul(w[2], NULL, 10);
  tr_lenient = 1;
  printf("rc=");
  for (int i = 7; i < n; i++) {
    char rcs[48] = "-";
    if (w[i][0] == 'x') {
      coap_lock_lock(srv, break);
      lib_on();
      while (ss->lg_srcv) { coap_lg_srcv_t *lg = ss->lg_srcv; LL_DELETE(ss->lg_srcv, lg); coap_block_delete_lg_srcv(ss, lg); }
      lib_off();
      coap_lock_unlock(srv);
      strcpy(rcs, "1");
    } else {
      unsigned num = 0, m = 0, len = 0;
      int nf = sscanf(w[i], "p%u:%u:%u", &num, &m, &len), added = 0, ret;
      size_t off = (size_t)num * chunk, plen;
      uint8_t buf[4], tk[8];
      coap_pdu_t *req, *rsp;
      coap_lg_srcv_t *free_lg = NULL;
      if (off > blen) off = blen;
      plen = blen - off < chunk ? blen - off : chunk;
      if (nf == 3 && len <= blen - off) plen = len;
      memset(tk, 0x77, sizeof(tk)); tk[0] = (uint8_t)(i & 0xff);
      req = coap_pdu_init(COAP_MESSAGE_CON, COAP_REQUEST_CODE_PUT, (coap_mid_t)(0x3000 + i), 2048);
      rsp = coap_pdu_init(COAP_MESSAGE_ACK, 0, (coap_mid_t)(0x3000 + i), 1152);
      if (req && rsp) {
        coap_add_token(req, tl, tk);
        coap_add_token(rsp, tl, tk);
        coap_add_option(req, COAP_OPTION_URI_PATH, strlen(path), (const uint8_t *)path);
        coap_add_option(req, COAP_OPTION_BLOCK1, coap_encode_var_safe(buf, sizeof(buf), (num << 4) | (m << 3) | szx), buf);
        if (size1 >= 0) coap_add_option(req, COAP_OPTION_SIZE1, coap_encode_var_safe(buf, sizeof(buf), (unsigned)size1), buf);
        if (plen) coap_add_data(req, plen, body + off);
        coap_lock_lock(srv, break);
        lib_on();
        ret = coap_handle_request_put_block(srv, ss, req, rsp, res, uri, NULL, &added, &free_lg);
        if (ret == 0) {
          size_t l = 0, o = 0, t = 0; const uint8_t *d = NULL;
          coap_get_data_large(req, &l, &d, &o, &t);
          snprintf(rcs, sizeof(rcs), "d%zu:%d", l, o == 0 && l <= sizeof(body) && (!l || (d && !memcmp(d, body, l))));
          if (free_lg) { LL_DELETE(ss->lg_srcv, free_lg); coap_block_delete_lg_srcv(ss, free_lg); }
        } else snprintf(rcs, sizeof(rcs), "s%d", (int)rsp->code);
        lib_off();
        coap_lock_unlock(srv);
      }
      coap_delete_pdu(req);
      coap_delete_pdu(rsp);
    }
    printf("%s%s", first ? "" : ",", rcs);
    first = 0;
  }
  if (first) printf("-");
  printf(" n=%u", af_count);
  srcv_show(ss);
  if (unk && ss->lg_srcv) printf("/%s", ss->lg_srcv->uri_path ? "p" : "-");
  wtrace = tr_len ? strdup(tr_buf) : strdup("-");
  printf(" T %s", wtrace);
  free(wtrace);
  coap_delete_string(uri);
  tr_on = 1;
  world_down();
  tr_on = 0;
  end_line();
}

/* ------------------------------------------------------------------ receive path of a reliable session (modelled in Lean)
 * arecv <k1> <k2> <dk> <csm> <step>...   c<hex> = a read event with these bytes waiting, x = a read event and the peer is
 * gone (l_read returns -1), n = the session is freed and a new one set up on the same context.  The session is a CoAP-over-TCP
 * client session whose lowest read / write functions are a chunk feeder / a sink (as harness/stream.c does for C05); set-up
 * (connect, CSM) happens OUTSIDE the failure window, only coap_read_session and coap_session_free are inside.  coap_dispatch
 * is cut short by the source hook coap_verif_dispatch_hook: the PDU handed over and the position in the trace are recorded,
 * the dk-th call disconnects the session (what a failing write of the response does from inside coap_dispatch). */
extern int (*coap_verif_dispatch_hook)(coap_session_t *session, coap_pdu_t *pdu);
static int ar_listen = -1, ar_peer[8], ar_npeer;
static coap_address_t ar_dst;
static const uint8_t *ar_chunk; static size_t ar_left; static int ar_eof;
static unsigned ar_ndisp, ar_dk;
static char ar_disp[2048]; static size_t ar_displen;
static ssize_t ar_read(coap_session_t *session, uint8_t *data, size_t datalen) {
  size_t n = ar_left < datalen ? ar_left : datalen;
  (void)session;
  if (ar_eof) return -1;
  if (n) memcpy(data, ar_chunk, n);
  ar_chunk += n; ar_left -= n;
  return (ssize_t)n;
}
static ssize_t ar_write(coap_session_t *session, const uint8_t *data, size_t datalen) {
  (void)session; (void)data;
  return (ssize_t)datalen;
}
static int ar_hook(coap_session_t *session, coap_pdu_t *pdu) {
  int k = snprintf(ar_disp + ar_displen, sizeof(ar_disp) - ar_displen, "%s%u@%u", ar_displen ? "," : "", tr_serial_of(pdu), tr_nev);
  if (k > 0 && ar_displen + (size_t)k < sizeof(ar_disp)) ar_displen += (size_t)k;
  if (++ar_ndisp == ar_dk) coap_session_disconnected_lkd(session, COAP_NACK_NOT_DELIVERABLE);
  return 1;
}
static coap_session_t *ar_new_session(void) {
  coap_session_t *s;
  if (ar_listen < 0) {
    struct sockaddr_in sa; socklen_t sl = sizeof(sa);
    ar_listen = socket(AF_INET, SOCK_STREAM, 0);
    memset(&sa, 0, sizeof(sa));
    sa.sin_family = AF_INET; sa.sin_addr.s_addr = htonl(INADDR_LOOPBACK); sa.sin_port = 0;
    if (ar_listen < 0 || bind(ar_listen, (struct sockaddr *)&sa, sizeof(sa)) || listen(ar_listen, 16)) return NULL;
    fcntl(ar_listen, F_SETFL, fcntl(ar_listen, F_GETFL) | O_NONBLOCK);
    getsockname(ar_listen, (struct sockaddr *)&sa, &sl);
    coap_address_init(&ar_dst);
    ar_dst.size = sizeof(struct sockaddr_in);
    memcpy(&ar_dst.addr.sin, &sa, sizeof(sa));
  }
  s = coap_new_client_session(cli, NULL, &ar_dst, COAP_PROTO_TCP);
  if (!s) return NULL;
  for (int i = 0; i < 400 && ar_npeer < 8; i++) {
    int fd = accept(ar_listen, NULL, NULL);
    if (fd >= 0) { ar_peer[ar_npeer++] = fd; break; }
    usleep(100);
  }
  s->sock.lfunc[COAP_LAYER_SESSION].l_read = ar_read;
  s->sock.lfunc[COAP_LAYER_SESSION].l_write = ar_write;
  s->sock.flags |= COAP_SOCKET_CONNECTED;
  s->sock.flags &= ~(COAP_SOCKET_WANT_CONNECT);
  coap_lock_lock(cli, return NULL);
  coap_session_send_csm(s);        /* sets csm_rcv_mtu from the context */
  s->state = COAP_SESSION_STATE_ESTABLISHED;
  coap_lock_unlock(cli);
  return s;
}
static void do_arecv(char **w, int n) {
  static uint8_t buf[8192];
  coap_session_t *s = NULL;
  unsigned long csm;
  int first = 1, bad = 0;
  char *wtrace;
  if (n < 5) { printf("bad-op"); return; }
  csm = strtoul(w[4], NULL, 10);
  if (!csm || csm > COAP_DEFAULT_MAX_PDU_RX_SIZE) { printf("bad-op"); return; }
  for (int i = 5; i < n; i++) {
    if (!strcmp(w[i], "x") || !strcmp(w[i], "n")) continue;
    if (w[i][0] != 'c' || strlen(w[i] + 1) % 2 || strlen(w[i] + 1) / 2 > sizeof(buf) || strspn(w[i] + 1, "0123456789abcdef") != strlen(w[i] + 1)) { printf("bad-op"); return; }
  }
  begin_line();
  sim_tx_hook = NULL;
  tr_on = 0;
  ar_npeer = 0; ar_ndisp = 0; ar_displen = 0; ar_disp[0] = 0; ar_eof = 0; ar_left = 0;
  if (!world_up(0, 0)) { printf("setup-fail"); world_down(); return; }
  coap_context_set_csm_max_message_size(cli, (uint32_t)csm);
  coap_verif_dispatch_hook = ar_hook;
  s = ar_new_session();
  if (!s) { printf("setup-fail"); coap_verif_dispatch_hook = NULL; world_down(); return; }
  af_k1 = (unsigned)strtoul(w[1], NULL, 10);
  af_k2 = (unsigned)strtoul(w[2], NULL, 10);
  ar_dk = (unsigned)strtoul(w[3], NULL, 10);
  tr_lenient = 1;
  printf("rc=");
  for (int i = 5; i < n && !bad; i++) {
    const char *rcs = "-";
    if (w[i][0] == 'n') {
      coap_lock_lock(cli, break);
      lib_on();
      coap_session_release_lkd(s);                 /* the application's reference: coap_session_free */
      lib_off();
      coap_lock_unlock(cli);
      s = ar_new_session();
      if (!s) { bad = 1; break; }
      rcs = "o";
    } else if (s->state != COAP_SESSION_STATE_NONE) {
      coap_tick_t now;
      size_t len = 0;
      if (w[i][0] == 'c') { len = strlen(w[i] + 1) / 2; for (size_t j = 0; j < len; j++) buf[j] = (uint8_t)(h_hexval(w[i][1 + 2 * j]) * 16 + h_hexval(w[i][2 + 2 * j])); }
      ar_chunk = buf; ar_left = len; ar_eof = w[i][0] == 'x';
      coap_ticks(&now);
      coap_lock_lock(cli, break);
      lib_on();
      coap_read_session(cli, s, now);
      lib_off();
      coap_lock_unlock(cli);
      ar_eof = 0; ar_left = 0;
      rcs = s->state != COAP_SESSION_STATE_NONE ? "o" : "c";
    }
    printf("%s%s", first ? "" : ",", rcs);
    first = 0;
  }
  if (first) printf("-");
  if (bad) printf(",setup-fail");
  printf(" n=%u st=", af_count);
  if (!s) printf("none");
  else {
    printf("%d/%zu/", s->state != COAP_SESSION_STATE_NONE, s->partial_read);
    if (s->partial_pdu) printf("%zu:%zu", s->partial_pdu->alloc_size, s->partial_pdu->used_size); else printf("-");
  }
  printf(" disp=%s", ar_displen ? ar_disp : "-");
  wtrace = tr_len ? strdup(tr_buf) : strdup("-");
  printf(" T %s", wtrace);
  free(wtrace);
  tr_on = 1;
  if (s) coap_session_release(s);
  coap_verif_dispatch_hook = NULL;
  world_down();
  tr_on = 0;
  for (int i = 0; i < ar_npeer; i++) close(ar_peer[i]);
  ar_npeer = 0;
  { int fd; while ((fd = accept(ar_listen, NULL, NULL)) >= 0) close(fd); }
  end_line();
}

static void step(char *line) {
  static char *w[512];
  int n = h_words(line, w, 512);
  fflush(stdout);
  alarm(60);
  if (n >= 1 && !strcmp(w[0], "alloc")) do_alloc(w, n);
  else if (n >= 1 && !strcmp(w[0], "ahelp")) do_ahelp(w, n);
  else if (n >= 1 && !strcmp(w[0], "atrack")) do_atrack(w, n);
  else if (n >= 1 && !strcmp(w[0], "asrcv")) do_asrcv(w, n, 0);
  else if (n >= 1 && !strcmp(w[0], "asrcvu")) do_asrcv(w, n, 1);
  else if (n >= 1 && !strcmp(w[0], "arecv")) do_arecv(w, n);
  else printf("bad-op");
  alarm(0);
}

H_MAIN_LOOP(step)
