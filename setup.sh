#!/bin/sh
# MANIFEST.setup_cmd: build the framework from files on disk only (offline).
set -e
cd "$(dirname "$0")"
mkdir -p .work evidence replays
# Lean library + driver (Generated/*.lean as committed; every check regenerates them from /repo)
(cd lean && lake build CoapVerif drv 2>&1 | tail -3)
# the audit tool imports Lean itself; build it once here so the checks do not pay for it
(cd lean && lake build CoapVerif.AuditTool 2>&1 | tail -1)
# warm the libcoap build cache for the current tree (checks rebuild it whenever /repo changes)
python3 - <<'PY'
import sys, os
sys.path.insert(0, os.getcwd())
from vlib import common as C
print("libcoap (asan):", C.build_libcoap("asan"))
PY
echo setup done
