#!/bin/sh
# tools/new_ws.sh Cxx : private workspace for building one property in parallel (see FRAMEWORK.md §5)
set -e
ID=$1
W=/var/tmp/ws-$ID
mkdir -p $W
git -C /verif worktree add -q -B ws-$ID $W/verif HEAD
git -C /repo worktree add -q --detach $W/repo HEAD
# reuse the compiled Lean library so the first build is incremental
mkdir -p $W/verif/lean
cp -r /verif/lean/.lake $W/verif/lean/.lake 2>/dev/null || true
echo $W
