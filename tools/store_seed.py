#!/usr/bin/env python3
"""tools/store_seed.py <prop> <k> <src dir> <patch file> <caught: yes|no> <check result line> [note]
copies a confirmed seeded change into /verif/seeded/<prop>-<k>/ (patch.diff, demo.c, meta.json)"""
import json, os, shutil, sys
prop, k, src, patch, caught, result = sys.argv[1:7]
note = sys.argv[7] if len(sys.argv) > 7 else ""
d = "/verif/seeded/%s-%s" % (prop, k)
os.makedirs(d, exist_ok=True)
shutil.copy(os.path.join(src, patch), os.path.join(d, "patch.diff"))
shutil.copy(os.path.join(src, "demo.c"), os.path.join(d, "demo.c"))
m = json.load(open(os.path.join(src, "meta.json")))
m["property"] = prop
m["what_i_ran"] = {
    "confirm": "tools/confirm_seed.sh <scratch worktree at /repo HEAD> <dir> -> patch applies, compiles, 176/176 tests pass, demo exits non-zero with the patch and 0 without",
    "check": "git -C /repo apply patch.diff; ./check %s --tier quick; git -C /repo checkout -- ." % prop,
    "result": result}
m["caught_by"] = ["%s quick" % prop] if caught == "yes" else []
if note: m["note"] = note
json.dump(m, open(os.path.join(d, "meta.json"), "w"), indent=1)
print("stored", d)
