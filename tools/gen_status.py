#!/usr/bin/env python3
"""Prints the per-property status table (markdown) from evidence/*.json, KNOWN_FINDINGS.txt, seeded/*/meta.json."""
import glob, json, os, re
ROOT = os.path.dirname(os.path.dirname(os.path.abspath(__file__)))
props = [json.loads(l) for l in open(os.path.join(ROOT, "properties.jsonl"))]
kf = open(os.path.join(ROOT, "KNOWN_FINDINGS.txt")).read().splitlines()
man = json.load(open(os.path.join(ROOT, "MANIFEST.json")))
claimed = {c["property_id"] for c in man["checks"]}
seeds = {}
for d in sorted(glob.glob(os.path.join(ROOT, "seeded", "*"))):
    m = json.load(open(os.path.join(d, "meta.json")))
    seeds.setdefault(m["property"], []).append((os.path.basename(d), bool(m.get("caught_by")), m.get("note", "")))
print("| id | claimed | theorems (full / `_partial`) | quick cases | fixes | open findings | seeded changes (caught/total) |")
print("|---|---|---|---|---|---|---|")
for p in props:
    pid = p["id"]
    ev = {}
    f = os.path.join(ROOT, "evidence", pid + ".json")
    if os.path.exists(f):
        ev = json.load(open(f))["coverage"]
    nf = sum(1 for l in kf if l.startswith("fixed: property=%s " % pid))
    opens = [re.search(r"sig=(\S+)", l).group(1) for l in kf if l.startswith("open: property=%s " % pid)]
    sd = seeds.get(pid, [])
    print("| %s | %s | %s / %s | %s | %d | %s | %s |" % (
        pid, "yes" if pid in claimed else "no", len(ev.get("theorems", [])) or "-", len(ev.get("partial_theorems", [])) if ev else "-",
        ev.get("evaluations", "-"), nf, ", ".join(opens) or "-", "%d/%d" % (sum(1 for s in sd if s[1]), len(sd)) if sd else "-"))

print()
print("### Seeded changes (independent sub-agents, property text only) and which checks report them")
print()
print("| seed | what it changes (one line) | needs to manifest | own check | other checks |")
print("|---|---|---|---|---|")
for d in sorted(glob.glob(os.path.join(ROOT, "seeded", "*"))):
    m = json.load(open(os.path.join(d, "meta.json")))
    sid = os.path.basename(d)
    mat = m.get("matrix", {})
    ran = (m.get("what_i_ran") or {}).get("result", "")
    own = mat.get(m["property"]) or ("VIOLATION" if ("VIOLATION" in ran or "exit 1" in ran) else
                                     "silent (reported by the checks on the right)" if m.get("caught_by") else "silent (MISSED)")
    if m.get("note") and "missed" in m["note"].lower():
        own += " (missed by the first version; caught after strengthening)"
    others = ", ".join("%s: %s" % (k, v) for k, v in mat.items() if k != m["property"]) or "-"
    print("| %s | %s | %s | %s | %s |" % (sid, m.get("summary", "")[:160].replace("|", "/"), m.get("needs_to_manifest", "")[:140].replace("|", "/"), own, others))

print()
print("### As built, per property (the notes in `design/Cxx.md` supersede the round-0 plan in §4 where they differ)")
print()
import importlib, sys
sys.path.insert(0, ROOT)
for p in props:
    pid = p["id"]
    try:
        mod = importlib.import_module("props." + pid)
    except Exception as ex:
        continue
    mf = getattr(mod, "MANIFEST", None)
    if not mf:
        continue
    ev = {}
    f = os.path.join(ROOT, "evidence", pid + ".json")
    if os.path.exists(f):
        ev = json.load(open(f))["coverage"]
    req = getattr(mod, "REQUIRED_THEOREMS", [])
    part = [t.split(".")[-1] for t in ev.get("partial_theorems", [])]
    print("* **%s** — %s  " % (pid, p["title"]))
    print("  modules: %s; required theorems: %s%s%s; notes: `design/%s.md`.  " % (
        ", ".join("`%s`" % m.replace("CoapVerif.", "") for m in mod.LEAN_MODULES),
        ", ".join("`%s`" % r for r in req[:14]) + (" … (+%d)" % (len(req) - 14) if len(req) > 14 else ""),
        ("; `_partial`: " + ", ".join("`%s`" % x for x in part)) if part else "",
        ("; rests on: " + ", ".join("%s.%s" % (ns.split(".")[-1], n) for ns, ns_names in getattr(mod, "REQUIRED_ELSEWHERE", {}).items() for n in ns_names)) if getattr(mod, "REQUIRED_ELSEWHERE", None) else "",
        pid))
    print("  claim: %s" % mf["text"][:600].replace("\n", " ") + ("…" if len(mf["text"]) > 600 else ""))
