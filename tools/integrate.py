#!/usr/bin/env python3
"""tools/integrate.py Cxx [--no-merge]: bring a workspace's results into /repo and /verif.
 1. cherry-picks the commits of /var/tmp/ws-Cxx/repo that are not in /repo (oldest first); stops on conflict
 2. merges branch ws-Cxx into /verif's current branch (stops on conflict)
 3. rewrites the old (workspace) commit hashes into the new /repo hashes in KNOWN_FINDINGS.txt, hooks.json, design/*.md
 4. regenerates registry + manifest
"""
import os, re, subprocess, sys
pid = sys.argv[1]
W = "/var/tmp/ws-" + pid
def run(cmd, cwd=None, check=True):
    r = subprocess.run(cmd, cwd=cwd, text=True, stdout=subprocess.PIPE, stderr=subprocess.STDOUT)
    if check and r.returncode != 0:
        print(r.stdout); sys.exit("FAILED: " + " ".join(cmd))
    return r.stdout.strip()
ws_head = run(["git", "-C", W + "/repo", "rev-parse", "HEAD"])
new = run(["git", "-C", "/repo", "rev-list", "--reverse", "HEAD.." + ws_head]).split()
mapping = {}
subjects = {run(["git", "-C", "/repo", "log", "-1", "--format=%s", c]): c for c in run(["git", "-C", "/repo", "rev-list", "HEAD"]).split()}
skips = {}   # --skip=<old>:<existing new>,…  for fixes that another workspace already delivered
for a in sys.argv:
    if a.startswith("--skip="):
        for kv in a[7:].split(","):
            o, n = kv.split(":"); skips[o] = n
for c in new:
    hit = [o for o in skips if c.startswith(o)]
    if hit:
        mapping[c] = run(["git", "-C", "/repo", "rev-parse", skips[hit[0]]]); print("skipped (already delivered as %s): %s" % (skips[hit[0]], c[:7])); continue
    subj = run(["git", "-C", "/repo", "log", "-1", "--format=%s", c])
    if subj in subjects:                       # already picked earlier (same subject)
        mapping[c] = subjects[subj]; print("already in /repo:", subj); continue
    r = subprocess.run(["git", "-C", "/repo", "cherry-pick", c], text=True, stdout=subprocess.PIPE, stderr=subprocess.STDOUT)
    if r.returncode != 0:
        print(r.stdout); sys.exit("cherry-pick conflict on %s (%s): resolve in /repo, `git cherry-pick --continue`, re-run" % (c[:7], subj))
    mapping[c] = run(["git", "-C", "/repo", "rev-parse", "HEAD"])
    print("picked %s -> %s  %s" % (c[:7], mapping[c][:7], subj))
if "--no-merge" not in sys.argv:
    r = subprocess.run(["git", "-C", "/verif", "merge", "--no-edit", "ws-" + pid], text=True, stdout=subprocess.PIPE, stderr=subprocess.STDOUT)
    print(r.stdout[-1500:])
    if r.returncode != 0:
        # generated files: take ours and regenerate; KNOWN_FINDINGS.txt: union
        for f in ["MANIFEST.json", "lean/CoapVerif.lean", "lean/CoapVerif/Driver/All.lean"]:
            subprocess.run(["git", "-C", "/verif", "checkout", "--ours", f], stdout=subprocess.DEVNULL, stderr=subprocess.DEVNULL)
        kf = "/verif/KNOWN_FINDINGS.txt"
        s = re.sub(r"^(<<<<<<<|=======|>>>>>>>).*\n", "", open(kf).read(), flags=re.M)
        seen, out = set(), []
        for l in s.splitlines():
            if l.strip() and l in seen: continue
            seen.add(l); out.append(l)
        open(kf, "w").write("\n".join(out) + "\n")
        run([sys.executable, "/verif/tools/gen_registry.py"]); run([sys.executable, "/verif/tools/gen_manifest.py"])
        left = run(["git", "-C", "/verif", "diff", "--name-only", "--diff-filter=U"])
        left = [f for f in left.split() if f not in ("MANIFEST.json", "lean/CoapVerif.lean", "lean/CoapVerif/Driver/All.lean", "KNOWN_FINDINGS.txt")]
        for f in list(left):
            if f == "vlib/tables.py":      # both sides append functions: union
                t = re.sub(r"^(<<<<<<< .*|>>>>>>> .*)\n", "", open("/verif/" + f).read(), flags=re.M).replace("=======\n", "\n\n")
                open("/verif/" + f, "w").write(t); left.remove(f)
        if left:
            sys.exit("merge conflict in %s: resolve in /verif, commit, then re-run with --no-merge" % left)
        run(["git", "-C", "/verif", "add", "-A"]); run(["git", "-C", "/verif", "commit", "-qm", "merge ws-" + pid])
# rewrite hashes
files = ["/verif/KNOWN_FINDINGS.txt", "/verif/hooks.json"] + ["/verif/design/" + f for f in os.listdir("/verif/design")] if os.path.isdir("/verif/design") else []
for f in files:
    if not os.path.exists(f): continue
    s = open(f).read(); o = s
    for old, nw in mapping.items():
        for n in (12, 10, 9, 8, 7):
            s = re.sub(r"\b%s[0-9a-f]*\b" % old[:n], nw[:7], s) if old[:n] in s else s
    if s != o:
        open(f, "w").write(s); print("rewrote hashes in", f)
run([sys.executable, "/verif/tools/gen_registry.py"]); run([sys.executable, "/verif/tools/gen_manifest.py"])
print("mapping:", {k[:7]: v[:7] for k, v in mapping.items()})
