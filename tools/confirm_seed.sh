#!/bin/sh
# tools/confirm_seed.sh <scratch-worktree> <dir with patch.diff + demo.c> [patch-file-name]
# Confirms, in the scratch worktree: patch applies, library + tests build, 176 tests pass, demo fails with the
# patch and passes without it.  Prints one line per fact.  Leaves the worktree clean.
WT=$1; D=$2; P=${3:-patch.diff}
cd "$WT" || exit 2
git checkout -q -- . 
build() { cmake -G Ninja -S . -B _bt -DENABLE_TESTS=ON -DENABLE_DOCS=OFF -DENABLE_EXAMPLES=OFF -DCMAKE_C_FLAGS=-Wno-error >/dev/null 2>&1 && ninja -C _bt >/dev/null 2>&1; }
demo() { gcc -w "$D/demo.c" -I _bt -I _bt/include -I include -I src -I . _bt/libcoap-3.a -lgnutls -lpthread -o _bt/seed_demo 2>/dev/null && ./_bt/seed_demo >/dev/null 2>&1; echo $?; }
git apply "$D/$P" || { echo "patch_applies=no"; exit 1; }
echo "patch_applies=yes"
if build; then echo "compiles=yes"; else echo "compiles=no"; git checkout -q -- .; exit 1; fi
echo "tests=$(./_bt/testdriver 2>/dev/null | awk '/^ *tests/ {print $4"/"$2" failed="$5}')"
echo "demo_with_patch_exit=$(demo)"
git checkout -q -- .
build
echo "demo_without_patch_exit=$(demo)"
