#!/usr/bin/env python3
"""tools/recheck_seed.py <seed-id>… : re-runs the property's quick check against a stored seeded change in a scratch worktree of /repo
(VERIF_REPO), updates meta.json (caught_by / matrix entry for the own check / history) and restores evidence + Generated afterwards."""
import json, os, subprocess, sys, time
ROOT = os.path.dirname(os.path.dirname(os.path.abspath(__file__)))
other = None
args = sys.argv[1:]
if args and args[0].startswith("--check="):
    other = args[0][8:]; args = args[1:]      # run ANOTHER property's check against the seed and record it in the matrix
for sid in args:
    d = os.path.join(ROOT, "seeded", sid)
    meta = json.load(open(os.path.join(d, "meta.json")))
    pid = other or meta["property"]
    wt = "/tmp/rs-" + sid
    subprocess.run(["git", "-C", "/repo", "worktree", "remove", "--force", wt], capture_output=True)
    subprocess.run(["git", "-C", "/repo", "worktree", "add", "-q", "--detach", wt, "HEAD"], check=True)
    try:
        r = subprocess.run(["git", "-C", wt, "apply", "--3way", os.path.join(d, "patch.diff")], capture_output=True, text=True)
        if r.returncode != 0:
            print(sid, "patch does not apply to /repo HEAD any more:", r.stderr[:200]); continue
        o = subprocess.run(["./check", pid], cwd=ROOT, capture_output=True, text=True, env=dict(os.environ, VERIF_SEED="1", VERIF_REPO=wt)).stdout
        viol = [l for l in o.splitlines() if l.startswith("VIOLATION")]
        verdict = ("VIOLATION no-failing-input-found" if viol and "no-failing-input-found" in viol[0] else "VIOLATION with replay" if viol else "silent")
        done = [l for l in o.splitlines() if "done:" in l]
        meta.setdefault("history", []).append({"at_repo": subprocess.run(["git", "-C", "/repo", "rev-parse", "--short", "HEAD"], capture_output=True, text=True).stdout.strip(),
                                               "verif": subprocess.run(["git", "-C", ROOT, "rev-parse", "--short", "HEAD"], capture_output=True, text=True).stdout.strip(),
                                               "verdict": verdict, "line": (done[-1] if done else "")[:200]})
        meta.setdefault("matrix", {})[pid] = verdict
        cb = set(meta.get("caught_by", []))
        if other:
            pass
        if verdict.startswith("VIOLATION"): cb.add(pid + " quick")
        else: cb.discard(pid + " quick")
        meta["caught_by"] = sorted(cb)
        json.dump(meta, open(os.path.join(d, "meta.json"), "w"), indent=1)
        print(sid, verdict, (done[-1] if done else "")[:150], flush=True)
    finally:
        subprocess.run(["git", "-C", "/repo", "worktree", "remove", "--force", wt], capture_output=True)
        subprocess.run(["git", "-C", "/repo", "worktree", "prune"], capture_output=True)
        subprocess.run(["git", "-C", ROOT, "checkout", "-q", "--", "evidence", "lean/CoapVerif/Generated"])
