#!/usr/bin/env python3
"""MANIFEST.json is generated from props/Cxx.py (each claimed property defines MANIFEST = {text, note, design_ref[, technique][, category]})
and not_claimed.json ({id: reason} for properties without a check)."""
import importlib, json, os, sys
ROOT = os.path.dirname(os.path.dirname(os.path.abspath(__file__)))
sys.path.insert(0, ROOT)
props = [json.loads(l) for l in open(os.path.join(ROOT, "properties.jsonl"))]
reasons = json.load(open(os.path.join(ROOT, "not_claimed.json"))) if os.path.exists(os.path.join(ROOT, "not_claimed.json")) else {}
checks, na, claimed = [], [], []
for p in props:
    pid = p["id"]
    mf = None
    if os.path.exists(os.path.join(ROOT, "props", pid + ".py")):
        mod = importlib.import_module("props." + pid)
        mf = getattr(mod, "MANIFEST", None)
    if mf:
        claimed.append(pid)
        checks.append({
            "property_id": pid,
            "quick_cmd": "./check %s --tier quick" % pid,
            "thorough_cmd": "./check %s --tier thorough" % pid,
            "evidence_file": "evidence/%s.json" % pid,
            "replay_cmd_template": "./check %s --replay {path}" % pid,
            "engine": "lean-proof+differential",
            "level_claimed": {"category": mf.get("category", "proof"), "text": mf["text"], "design_ref": mf.get("design_ref", "DESIGN.md §4 " + pid)},
            "level_note": mf["note"],
            "technique": mf.get("technique", "Lean 4 theorem about a faithful model + regenerated tables + differential correspondence"),
        })
    else:
        na.append({"property_id": pid, "reason": reasons.get(pid, "not claimed yet: model and theorems under construction; no check is registered rather than one using a weaker technique")})
hooks = json.load(open(os.path.join(ROOT, "hooks.json")))
m = {
    "version": 1,
    "setup_cmd": "./setup.sh",
    "hooks": hooks,
    "engines": [{"name": "lean-proof+differential", "path": "check", "serves_properties": claimed,
                 "kind_free_text": "Lean 4 theorems about a faithful model M (and an RFC specification S); M is tied to /repo on every run by tables "
                                   "regenerated from the code (T1) and a differential line-protocol harness running the real code against M's executable definitions (T2)"}],
    "checks": checks,
    "not_applicable": na,
    "notes": "See DESIGN.md. KNOWN_FINDINGS.txt lists open findings (suppressed, printed as KNOWN-FINDING) and fixed defects (suppress nothing).",
}
json.dump(m, open(os.path.join(ROOT, "MANIFEST.json"), "w"), indent=1)
print("MANIFEST: %d checks, %d not claimed" % (len(checks), len(na)))
