#!/bin/sh
# tools/soak.sh "<seeds>" [props...] : run the quick tier of every claimed (or the given) check at several seeds; print failures
SEEDS=${1:-"1 2 3 4 5"}; shift
PROPS=${*:-$(python3 -c "import json; print(' '.join(c['property_id'] for c in json.load(open('/verif/MANIFEST.json'))['checks']))")}
cd /verif
for s in $SEEDS; do for p in $PROPS; do
  r=$(VERIF_SEED=$s ./check $p 2>&1 | grep -E "VIOLATION|done:" | tr '\n' ' ' | cut -c1-220)
  case "$r" in *"exit 0"*) echo "ok   seed=$s $p";; *) echo "FAIL seed=$s $p :: $r";; esac
done; done
