#!/bin/sh
# tools/run_baseline.sh <repo-dir> : builds <repo-dir>/_bt with the repository's CMake (tests on, hooks guard OFF)
# and runs the 176-test CUnit driver.  Used to validate fix:/hook commits in a scratch worktree.
set -e
R=${1:-/repo}
cmake -G Ninja -S "$R" -B "$R/_bt" -DENABLE_TESTS=ON -DENABLE_DOCS=OFF -DENABLE_EXAMPLES=OFF -DCMAKE_BUILD_TYPE=RelWithDebInfo -DCMAKE_C_FLAGS=-Wno-error >/dev/null
ninja -C "$R/_bt" testdriver 2>&1 | grep -E "error|warning: " | head -20 || true
"$R/_bt/testdriver" 2>&1 | grep -A4 "Run Summary"
