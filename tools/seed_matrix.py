#!/usr/bin/env python3
"""tools/seed_matrix.py [seed ids…] : applies each seeded change to /repo (undone straight afterwards), runs the quick tier of the
property's own check and of the related checks, stores the verdicts in seeded/<id>/meta.json ("matrix") and prints a table."""
import glob, json, os, subprocess, sys
ROOT = os.path.dirname(os.path.dirname(os.path.abspath(__file__)))
RELATED = {"C01": ["C04", "C03"], "C02": ["C03", "C09"], "C03": ["C02", "C01"], "C04": ["C01"], "C05": ["C02", "C03"], "C06": ["C08", "C07"],
           "C07": ["C06", "C08"], "C08": ["C06", "C07"], "C09": ["C02"], "C10": ["C16", "C20"], "C11": ["C08", "C12"], "C12": ["C11"],
           "C13": [], "C14": ["C15"], "C15": ["C14"], "C16": ["C10", "C20"], "C17": ["C11"], "C18": ["C12"], "C19": ["C08"], "C20": ["C16", "C10"]}
ids = sys.argv[1:] or [os.path.basename(d) for d in sorted(glob.glob(os.path.join(ROOT, "seeded", "*")))]
assert subprocess.run(["git", "-C", "/repo", "diff", "--quiet"]).returncode == 0, "/repo has local changes"
for sid in ids:
    d = os.path.join(ROOT, "seeded", sid)
    meta = json.load(open(os.path.join(d, "meta.json")))
    pid = meta["property"]
    r = subprocess.run(["git", "-C", "/repo", "apply", "--3way", os.path.join(d, "patch.diff")], capture_output=True, text=True)
    if r.returncode != 0:
        print(sid, "patch does not apply:", r.stderr[:200]); subprocess.run(["git", "-C", "/repo", "reset", "-q", "--hard", "HEAD"]); continue
    matrix = {}
    try:
        for chk in [pid] + RELATED.get(pid, []):
            o = subprocess.run(["./check", chk], cwd=ROOT, capture_output=True, text=True, env=dict(os.environ, VERIF_SEED="1")).stdout
            viol = [l for l in o.splitlines() if l.startswith("VIOLATION")]
            matrix[chk] = ("VIOLATION no-failing-input-found" if viol and "no-failing-input-found" in viol[0] else "VIOLATION with replay" if viol else "silent")
    finally:
        subprocess.run(["git", "-C", "/repo", "reset", "-q", "--hard", "HEAD"])
        subprocess.run(["git", "-C", "/repo", "checkout", "-q", "--", "."])
        # the runs above rewrote evidence/ and Generated/ from the MUTANT tree: put the committed (clean-tree) versions back
        subprocess.run(["git", "-C", ROOT, "checkout", "-q", "--", "evidence", "lean/CoapVerif/Generated"])
    meta["matrix"] = matrix
    meta["caught_by"] = [k + " quick" for k, v in matrix.items() if v.startswith("VIOLATION")]
    json.dump(meta, open(os.path.join(d, "meta.json"), "w"), indent=1)
    print(sid, matrix, flush=True)
