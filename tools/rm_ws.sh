#!/bin/sh
# tools/rm_ws.sh Cxx : remove the workspace (branch ws-Cxx stays until merged/deleted)
ID=$1
W=/var/tmp/ws-$ID
git -C /verif worktree remove --force $W/verif 2>/dev/null
git -C /repo worktree remove --force $W/repo 2>/dev/null
git -C /verif worktree prune; git -C /repo worktree prune
rm -rf $W
