#!/bin/sh
# tools/eval_seed.sh <prop> <k> : evaluates /tmp/seed-<prop>/out/<k> WITHOUT touching /repo: the scratch worktree is moved to /repo's HEAD,
# the patch is applied there (3-way) and the property's quick check runs with VERIF_REPO pointing at it; then the seed is confirmed
# (tools/confirm_seed.sh) and stored under seeded/<prop>-<k>/ with the verdict.
P=$1; K=$2; WT=${SEED_WT:-/tmp/seed-$P}; D=$WT/out/$K; SK=$((K + ${SEED_OFFSET:-0}))   # stored as seeded/<prop>-<K+offset>
cd "$WT" || exit 2
git checkout -q -- . ; git checkout -q --detach "$(git -C /repo rev-parse HEAD)" || exit 2
if ! git apply --3way "$D/patch.diff" 2>/dev/null; then echo "$P-$K: patch does not apply to /repo HEAD"; git reset -q --hard HEAD; exit 1; fi
git diff HEAD > "$D/patch_rebased.diff"
OUT=$(cd ${VERIF_DIR:-/verif} && VERIF_REPO=$WT VERIF_SEED=1 ./check $P 2>&1 | grep -E "^VIOLATION|done:" | tr '\n' ' ' | sed 's/  */ /g' | cut -c1-300)
git reset -q --hard HEAD
# the run above rewrote evidence/ and Generated/ from the MUTANT tree: put the committed (clean-tree) versions back
git -C ${VERIF_DIR:-/verif} checkout -q -- evidence lean/CoapVerif/Generated
echo "$P-$K check: $OUT"
CONF=$(/verif/tools/confirm_seed.sh "$WT" "$D" patch_rebased.diff | tr '\n' ' ')
echo "$P-$K confirm: $CONF"
case "$OUT" in *VIOLATION*) CAUGHT=yes;; *) CAUGHT=no;; esac
case "$CONF" in *"patch_applies=yes compiles=yes tests=176/176 failed=0 demo_with_patch_exit=0"*) echo "$P-$K: demo does not fail with the patch — NOT stored"; exit 1;; esac
case "$CONF" in *"tests=176/176 failed=0"*"demo_without_patch_exit=0"*) /verif/tools/store_seed.py $P $SK "$D" patch_rebased.diff $CAUGHT "$OUT";; *) echo "$P-$K: confirmation failed — NOT stored";; esac
