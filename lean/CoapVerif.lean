import CoapVerif.Util
import CoapVerif.Spec.Codec
import CoapVerif.Model.Parse
