import CoapVerif.Spec.StreamWs
/-
S (WebSocket frame grammar, C01 write side) — RFC 6455 §5.2 "Base Framing Protocol", written from the RFC:

   byte 0: FIN (1 bit) RSV1-3 (3 bits) opcode (4 bits)
   byte 1: MASK (1 bit) payload len (7 bits); 126 = a 16-bit length follows, 127 = a 64-bit length follows
           ("the minimal number of bytes MUST be used to encode the length"; "the most significant bit MUST be 0")
   masking key: 4 bytes iff MASK = 1
   payload: `len` bytes; when masked, octet i of the application data = octet i of the payload XOR key[i mod 4] (§5.3)

`decode` reads ONE frame from the front of a byte string and returns it with the bytes that follow; it refuses
(`none`) an incomplete frame and a length that is not in its minimal form.  Unlike the receiver specification of
C05 (`Spec.Stream.Ws.frames`) it has no receive-buffer limit and looks at every header bit.

SPEC DECISION D20: which role masks is RFC 6455 §5.1 ("a client MUST mask all frames that it sends", "a server
MUST NOT mask any frames"); CoAP messages travel in binary frames (opcode 2), unfragmented (FIN = 1), RFC 8323 §4.1.
-/
namespace Coap.Spec.WsFrame
open Coap Coap.Spec.Stream.Ws

structure Frame where
  fin : Bool
  rsv : Nat
  opcode : Nat
  masked : Bool
  key : Bytes           -- the masking key ([] when not masked)
  payload : Bytes       -- the application data (after unmasking)
  deriving DecidableEq, Repr

def decode : Bytes → Option (Frame × Bytes)
  | b0 :: b1 :: r =>
    let l7 := b1.toNat % 128
    let masked := b1.toNat / 128 = 1
    let extn := if l7 = 126 then 2 else if l7 = 127 then 8 else 0
    if r.length < extn then none else
    let len := if extn = 0 then l7 else be (r.take extn)
    if l7 = 126 ∧ len ≤ 125 then none else
    if l7 = 127 ∧ (len ≤ 65535 ∨ len ≥ 2 ^ 63) then none else
    let r1 := r.drop extn
    let kn := if masked then 4 else 0
    if r1.length < kn then none else
    let key := r1.take kn
    let body := r1.drop kn
    if body.length < len then none else
    some (⟨b0.toNat / 128 = 1, b0.toNat / 16 % 8, b0.toNat % 16, masked, key,
           if masked then unmask key 0 (body.take len) else body.take len⟩, body.drop len)
  | _ => none

/-- all the frames of a byte string (`none` when it does not end on a frame boundary) -/
def decodeAll : (fuel : Nat) → Bytes → Option (List Frame)
  | 0, _ => none
  | _ + 1, [] => some []
  | fuel + 1, bs =>
    match decode bs with
    | none => none
    | some (f, rest) => (decodeAll fuel rest).map (f :: ·)

end Coap.Spec.WsFrame
