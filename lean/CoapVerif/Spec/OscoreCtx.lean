import CoapVerif.Spec.Oscore
/-
S — an endpoint that holds SEVERAL security contexts and receives a request (RFC 8613 §3.1, §3.3, §5.1, §8.2
step 2), written from the RFC.

§8.2 step 2: "Decompress the COSE object (Section 6) and retrieve the Recipient Context associated with the
Recipient ID in the 'kid' parameter, additionally using the 'kid context', if present.  […] If the server
fails to retrieve a Recipient Context for this Recipient ID: respond 4.01".  §3.3: "the Sender ID SHALL be
unique in the set of all security contexts using the same Master Secret, Master Salt and ID Context"; §5.1: the
kid context "is used to identify the Common Context / the Security Context".

SPEC DECISIONS
 D14.18 a context is NAMED by a request iff the request's kid equals the context's Recipient ID and the request's
        kid context (absent = empty, D14.9) equals the context's ID Context (absent = empty).  The set of contexts
        an endpoint holds is UNAMBIGUOUS: no two of them have the same (Recipient ID, ID Context) — a deployment
        requirement (§3.3; with two contexts that a request cannot tell apart the RFC only says the recipient "may
        need to try" several, which libcoap does not do and the property does not demand).  On an unambiguous
        set the named context is unique, so "the context the request names" does not depend on any order; the
        definition below takes the first in list order to be total.
        A request that names no held context is rejected (4.01) whatever else it contains: "use of a different
        context" in the property's text.
-/
namespace Coap.Spec.Oscore

/-- D14.18 in terms of the identifiers -/
def namesId (v : OptVal) (rid : Bytes) (idctx : Option Bytes) : Bool :=
  decide (v.kid = some rid) && decide (v.kidctx.getD [] = idctx.getD [])

/-- does the compressed COSE object `v` of a request name the context `c`? -/
def names (v : OptVal) (c : Ctx) : Bool := namesId v c.rid c.idctx

/-- §8.2 step 2: the Recipient Context retrieved for `v` -/
def selectCtx (cs : List Ctx) (v : OptVal) : Option Ctx := cs.find? (names v)

/-- D14.18 -/
def Unambiguous (cs : List Ctx) : Prop :=
  cs.Pairwise fun a b => ¬ (a.rid = b.rid ∧ a.idctx.getD [] = b.idctx.getD [])

/-- the context a datagram's OSCORE option names among `cs` (`none`: not an OSCORE message, malformed option, or
no such context) -/
def selectFor (cs : List Ctx) (m : Msg) : Option Ctx :=
  match oscoreValue m.opts with
  | none => none
  | some ov =>
    match optDecode ov with
    | none => none
    | some v => selectCtx cs v

/-- §8.2 at an endpoint that holds the contexts `cs` -/
def unprotectRequestAny (cipher : Bytes → Bytes → Bytes) (cs : List Ctx) (m : Msg) : Verdict :=
  match oscoreValue m.opts with
  | none => .plain
  | some ov =>
    if m.payload = [] then .rej else
    match optDecode ov with
    | none => .rej
    | some v =>
      match selectCtx cs v with
      | none => .rej                              -- 4.01 "Security context not found"
      | some c => unprotectRequest cipher c m

end Coap.Spec.Oscore
