import CoapVerif.Spec.Stream
/-
S (WebSocket part of C05) — the CoAP messages contained in the bytes received on a CoAP-over-WebSockets
connection: HTTP upgrade header block (RFC 6455 §4), then frames (RFC 6455 §5.2), one CoAP message per
binary frame (RFC 8323 §4), decoded with `Spec.decode .ws`.  A function of the byte stream only.

SPEC DECISIONS (continuing Spec/Stream.lean)
 D16 one CoAP message per binary frame; FIN/RSV bits are not looked at (RFC 8323 §4.1: CoAP never
     fragments); any opcode other than binary (continuation, text, close, ping, pong) ends the session once
     the frame header is complete.  An endpoint acting as server closes on an unmasked frame as soon as
     the two fixed header bytes are in (RFC 6455 §5.1).
 D17 WHICH upgrade requests / responses are acceptable (RFC 6455 §4.1, §4.2.1 header validation) is not
     part of C05.  S takes the per-line acceptance function `V` as a parameter and only fixes how it is
     applied: to the lines of the byte stream (split at LF, one CR before it dropped), in order, the first
     empty line ending the block — independent of reads.
 D18 the "over-long handshake line": a line with more than `maxLine` = 158 bytes before its LF (libcoap's
     160-byte line buffer less LF and terminator; tied to sizeof(http_hdr) by the `consts` line) closes the
     session as soon as `maxLine + 1` bytes of it have arrived without an LF.
 D19 a frame whose declared payload length exceeds `maxFrame` (the 1472-byte receive buffer) closes the
     session when its header is complete; nothing of it is buffered.  A frame of length 0 carries no
     message.  As client the MASK bit only determines the header length (RFC 6455 §5.1 would have a
     client close on a masked frame; not a segmentation matter, not judged here).
 D20 a NUL byte inside a handshake line: RFC 7230 §3 / RFC 9110 §5.5 have no NUL in a start line or a field
     value and allow the recipient to reject the message.  S refuses it, and fixes WHEN: a line with a NUL in
     front of its LF has no end — the bytes after the NUL, LF bytes included, belong to the same (malformed)
     line — so the session is closed like for any over-long line once `maxLine + 1` bytes of it have arrived
     (D18), and nothing behind it is ever looked at.  (libcoap: strchr() on the line buffer.)  A function of the
     byte stream only, like the rest of S.
-/
namespace Coap.Spec.Stream.Ws
open Coap Coap.Spec.Stream

inductive Mode where
  | client | server
  deriving DecidableEq, Repr

/-- D17: the acceptance function for header lines: a state, a step per non-empty line, a final test -/
structure Validator (σ : Type) where
  init : σ
  line : σ → Bytes → Option σ
  final : σ → Bool

def maxLine : Nat := 158
def maxFrame : Nat := 1472

structure Res where
  msgs : List Msg
  up : Bool
  closed : Bool
  deriving DecidableEq, Repr

/-- position of the LF that ends the first line; a NUL byte in front of it: the line has no end (D20) -/
def lfIndex : Bytes → Option Nat
  | [] => none
  | b :: r => if b = 10 then some 0 else if b = 0 then none else (lfIndex r).map (· + 1)

def stripCr (l : Bytes) : Bytes :=
  if l.getLast? = some 13 then l.dropLast else l

/-- outcome of the header block: still incomplete, refused, or accepted with the bytes that follow it -/
inductive Hs where
  | more | failed | done (rest : Bytes)
  deriving DecidableEq, Repr

def handshake {σ} (V : Validator σ) : (fuel : Nat) → σ → Bytes → Hs
  | 0, _, _ => .more
  | fuel + 1, s, bs =>
    match lfIndex bs with
    | none => if bs.length > maxLine then .failed else .more
    | some i =>
      if i > maxLine then .failed else
      let l := stripCr (bs.take i)
      if l = [] then (if V.final s then .done (bs.drop (i + 1)) else .failed)
      else match V.line s l with
        | none => .failed
        | some s' => handshake V fuel s' (bs.drop (i + 1))

def unmask (key : Bytes) (i : Nat) : Bytes → Bytes
  | [] => []
  | b :: r => (b ^^^ key.getD (i % 4) 0) :: unmask key (i + 1) r

def be (bs : Bytes) : Nat := bs.foldl (fun a b => a * 256 + b.toNat) 0

/-- the frames after the handshake -/
def frames (mode : Mode) : (fuel : Nat) → Bytes → List Msg × Bool
  | 0, _ => ([], false)
  | fuel + 1, bs =>
    match bs with
    | b0 :: b1 :: r =>
      let masked := b1.toNat / 128 = 1
      if mode = .server ∧ ¬ masked then ([], true) else
      let l7 := b1.toNat % 128
      let ext := if l7 = 127 then 8 else if l7 = 126 then 2 else 0
      let hdr := ext + (if masked then 4 else 0)
      if r.length < hdr then ([], false) else
      if b0.toNat % 16 ≠ 2 then ([], true) else
      let len := if ext = 0 then l7 else be (r.take ext)
      if len > maxFrame then ([], true) else
      let key := (r.drop ext).take 4
      let body := r.drop hdr
      if body.length < len then ([], false) else
      let pl := if mode = .server then unmask key 0 (body.take len) else body.take len
      let rest := frames mode fuel (body.drop len)
      (if len = 0 then rest.1 else deliver (Spec.decode .ws pl) rest.1, rest.2)
    | _ => ([], false)

def run {σ} (V : Validator σ) (mode : Mode) (bs : Bytes) : Res :=
  match handshake V (bs.length + 1) V.init bs with
  | .more => ⟨[], false, false⟩
  | .failed => ⟨[], false, true⟩
  | .done rest =>
    let r := frames mode (rest.length + 1) rest
    ⟨r.1, true, r.2⟩

end Coap.Spec.Stream.Ws
