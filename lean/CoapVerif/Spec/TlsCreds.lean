/-
C19 — S: when do the two sides of a PSK (D)TLS handshake "accept each other's credentials"?
Written from the property text and the documented meaning of the PSK setup structures (coap_dtls_cpsk_t /
coap_dtls_spsk_t in include/coap3/coap_dtls.h), never from coap_gnutls.c.  Core Lean only.  Byte strings are
lower-case hex strings (equal strings = equal bytes).

SPEC DECISION D19d: a client session cannot be created with an empty key or identity (`nosession`): nothing to
   authenticate with.  An empty SERVER key accepts nobody.
SPEC DECISION D19e: without an identity callback the server knows every identity (they all map to the default key);
   without an SNI callback every server name is served with the default key and hint; without a hint callback the
   client accepts every hint.  A server that has an SNI table does not know names outside it (the absent name is "").
-/
namespace Coap.TlsCreds

inductive IhMode where
  | none | any | list (hints : List String)
  deriving Repr

structure Cfg where
  ci : String := "6964"
  ck : String := "6b6579"
  sk : String := "6b6579"
  sh : Option String := none                       -- server identity hint
  st : Option (List (String × String)) := none     -- identity ↦ key
  ih : IhMode := .none
  sni : Option String := none
  ss : Option (List (String × String × String)) := none   -- name ↦ (hint, key)
  deriving Repr

inductive Verdict where | ok | fail | nosession
  deriving DecidableEq, Repr

def lookup2 (k : String) : List (String × String) → Option String
  | [] => none
  | (a, b) :: t => if a = k then some b else lookup2 k t

def lookup3 (k : String) : List (String × String × String) → Option (String × String)
  | [] => none
  | (a, b, c) :: t => if a = k then some (b, c) else lookup3 k t

/-- which (hint, default key) does the server present for the server name the client asks for ("" = none given)?  A
property of the server's CONFIGURATION and that name alone — not of which clients connected before -/
def served (cfg : Cfg) (sni : String) : Option (String × String) :=
  match cfg.ss with
  | none => some (cfg.sh.getD "", cfg.sk)
  | some tab => lookup3 sni tab

/-- the key the server holds for this identity under that server name; none = nobody can be accepted (unknown name,
unknown identity, or an empty key: D19d) -/
def serverKey (cfg : Cfg) (sni id : String) : Option String :=
  match served cfg sni with
  | none => none
  | some (_, defKey) =>
    let k : Option String :=
      match cfg.st with
      | none => some defKey
      | some tab => lookup2 id tab
    match k with
    | none => none
    | some k => if k = "" then none else some k

/-- the handshake may complete iff every check both sides configured passes and the keys are equal -/
def accepts (cfg : Cfg) : Verdict :=
  if cfg.ck = "" ∨ cfg.ci = "" then .nosession else
  match served cfg (cfg.sni.getD "") with
  | none => .fail
  | some (hint, defKey) =>
    let hintOk : Bool :=
      match cfg.ih with
      | .none => true
      | .any => true
      | .list hs => hs.contains hint
    let key : Option String :=
      match cfg.st with
      | none => some defKey
      | some tab => lookup2 cfg.ci tab
    match key with
    | none => .fail
    | some k => if hintOk ∧ k ≠ "" ∧ k = cfg.ck then .ok else .fail

end Coap.TlsCreds
