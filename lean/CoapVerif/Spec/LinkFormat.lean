import CoapVerif.Util
/-
S — `/.well-known/core` (RFC 6690 §2 link-format, §4.1 query filtering; RFC 7641 §6 `obs`;
RFC 8613 §9 `osc`), written from the RFCs and the text of property C20.

The *resource table* is the list of resources currently registered, in the order in which
the registrations that are still in force were made; a registration for a path that is
already registered replaces the older one (`register`), `unregister` removes it.

SPEC DECISIONS
 D20.1 RFC 6690 does not order the link-params of a link.  S lists them in the order in which
       the table holds them (`Resource.attrs`); `addAttr` records that libcoap keeps the most
       recently added attribute first.  `;obs` then `;osc` come last.
 D20.2 a query `name=token`: the search name is what precedes the first `=`.  An empty query is
       no filter.  A query with an empty name (`=x`) is no filter either; a non-empty query
       without `=` has no search token and selects nothing.  (RFC 6690 defines neither.)
 D20.3 `href`: the token is compared with the registered path; one leading `/` of the token is
       ignored (the listed URI-reference is `/` + path, a token without the slash is read
       relative to `/`).
 D20.4 value of an attribute for matching: if the stored text has length ≥ 2 and begins and ends
       with `"` it is a quoted-string and the value is the text in between; any other stored
       text is taken as it is.  An attribute without a value matches nothing.
 D20.5 `rt`, `if`, `rel` (the attributes the property names) are value lists: the value is split
       at every SP, the empty value has no token and a final SP does not open another (empty)
       token; empty tokens before/between SPs are kept (RFC 6690 does not produce them).
       Every other attribute is matched as a whole.
 D20.6 if an attribute name occurs more than once in a link (RFC 6690 §3 forbids that for rt,
       if, rel, title, sz, …) the first one the table holds is the one the filter looks at.
 D20.7 a resource registered for the path `.well-known/core` itself is not listed.
 D20.8 RFC 6690 §4.1 defines one search criterion.  For a GET carrying several Uri-Query options the
       criterion is the first option (its bytes as they are in the option, i.e. percent-decoded);
       further options do not restrict the listing (a server may ignore filters altogether).
-/
namespace Coap.LF

structure Attr where
  name : Bytes
  /-- `none`: attribute without `=value` -/
  value : Option Bytes
  deriving DecidableEq, Repr

structure Resource where
  path : Bytes
  attrs : List Attr
  observable : Bool
  oscoreOnly : Bool
  deriving DecidableEq, Repr

abbrev Table := List Resource

/-- `.well-known/core` -/
def wkPath : Bytes := [0x2E, 0x77, 0x65, 0x6C, 0x6C, 0x2D, 0x6B, 0x6E, 0x6F, 0x77, 0x6E, 0x2F, 0x63, 0x6F, 0x72, 0x65]
/-- `;obs`, `;osc`, `href`, `rt`, `if`, `rel` (spelled as bytes so that the kernel can compute with them) -/
def sObs : Bytes := [0x3B, 0x6F, 0x62, 0x73]
def sOsc : Bytes := [0x3B, 0x6F, 0x73, 0x63]
def sHref : Bytes := [0x68, 0x72, 0x65, 0x66]
def sRt : Bytes := [0x72, 0x74]
def sIf : Bytes := [0x69, 0x66]
def sRel : Bytes := [0x72, 0x65, 0x6C]

/-! ### the table: what "currently registered" means -/

def register (t : Table) (r : Resource) : Table := t.filter (fun x => x.path != r.path) ++ [r]
def unregister (t : Table) (p : Bytes) : Table := t.filter (fun x => x.path != p)
/-- D20.1: most recently added attribute first -/
def addAttr (r : Resource) (a : Attr) : Resource := { r with attrs := a :: r.attrs }

/-! ### RFC 6690 §2: one link, the listing -/

def attrBytes (a : Attr) : Bytes :=
  0x3B :: a.name ++ (match a.value with | none => [] | some v => 0x3D :: v)

/-- `</path>;name=value;name…[;obs][;osc]` -/
def link (r : Resource) : Bytes :=
  [0x3C, 0x2F] ++ r.path ++ [0x3E] ++ (r.attrs.map attrBytes).flatten ++
    (if r.observable then sObs else []) ++ (if r.oscoreOnly then sOsc else [])

/-- links separated by `,` -/
def joinComma : List Bytes → Bytes
  | [] => []
  | [x] => x
  | x :: y :: r => x ++ 0x2C :: joinComma (y :: r)

/-! ### RFC 6690 §4.1: the filter -/

/-- D20.5 -/
def tokens : Bytes → List Bytes
  | [] => []
  | b :: r =>
    if b = 0x20 then [] :: tokens r
    else match tokens r with
      | [] => [[b]]
      | t :: ts => (b :: t) :: ts

/-- exact match, or prefix match when the search token ended in `*` -/
def matchOne (isPrefix : Bool) (pat v : Bytes) : Bool :=
  if isPrefix then pat.isPrefixOf v else pat == v

def matchSpec (isPrefix tokenwise : Bool) (pat v : Bytes) : Bool :=
  if tokenwise then (tokens v).any (matchOne isPrefix pat) else matchOne isPrefix pat v

/-- D20.4 -/
def unquote (v : Bytes) : Bytes :=
  if 2 ≤ v.length ∧ v.head? = some 0x22 ∧ v.getLast? = some 0x22 then v.tail.dropLast else v

def isListAttr (name : Bytes) : Bool := name == sRt || name == sIf || name == sRel

/-- the search token: a final `*` asks for prefix matching -/
def starSplit (tok : Bytes) : Bool × Bytes :=
  if tok.getLast? = some 0x2A then (true, tok.dropLast) else (false, tok)

def stripSlash (tok : Bytes) : Bytes :=
  if tok.head? = some 0x2F then tok.tail else tok

/-- D20.6 -/
def findAttr (name : Bytes) : List Attr → Option Attr
  | [] => none
  | a :: r => if a.name == name then some a else findAttr name r

/-- does the query `q` (already percent-decoded) select resource `r`? -/
def selects (q : Bytes) (r : Resource) : Bool :=
  let name := q.takeWhile (· != 0x3D)
  if name.length = 0 then true                       -- D20.2: no filter
  else if name.length = q.length then false          -- D20.2: no `=`
  else
    let tok := q.drop (name.length + 1)
    if name == sHref then
      let (pfx, pat) := starSplit (stripSlash tok)   -- D20.3
      matchSpec pfx false pat r.path
    else
      let (pfx, pat) := starSplit tok
      match findAttr name r.attrs with
      | none => false
      | some a =>
        match a.value with
        | none => false
        | some v => matchSpec pfx (isListAttr name) pat (unquote v)

def selected (t : Table) (q : Bytes) : List Resource :=
  t.filter (fun r => r.path != wkPath && selects q r)   -- D20.7

/-- the full resource-discovery payload for table `t` and query `q` -/
def listing (t : Table) (q : Bytes) : Bytes := joinComma ((selected t q).map link)

/-- D20.8: the payload of `GET /.well-known/core` with the Uri-Query option values `opts` -/
def getListing (t : Table) (opts : List Bytes) : Bytes := listing t (opts.head?.getD [])

/-- what a reader of `count` bytes at `offset` must see -/
def window (l : Bytes) (offset count : Nat) : Bytes := (l.drop offset).take count

/-! ### a live server: the table changes between requests (what "currently registered" means over time)

The application may describe a resource further while it is registered (`coap_add_attr`,
`coap_resource_set_get_observable` on a resource the context already holds): the resource keeps its place in the
table, the change is part of the listing from then on.  Every resource-discovery request is answered from the table
as it is when the request arrives. -/

inductive TableOp where
  /-- `coap_add_resource` -/
  | reg (r : Resource)
  /-- `coap_delete_resource` of the resource registered for this path (nothing if there is none) -/
  | unreg (p : Bytes)
  /-- `coap_add_attr` on the resource registered for this path (nothing if there is none) -/
  | attr (p : Bytes) (a : Attr)
  /-- `coap_resource_set_get_observable` on the resource registered for this path -/
  | obs (p : Bytes) (b : Bool)
  deriving DecidableEq, Repr

def applyOp (t : Table) : TableOp → Table
  | .reg r => register t r
  | .unreg p => unregister t p
  | .attr p a => t.map fun r => if r.path == p then addAttr r a else r
  | .obs p b => t.map fun r => if r.path == p then { r with observable := b } else r

/-- what happens at a live server, in order -/
inductive LiveEv where
  | op (o : TableOp)
  /-- a complete block-wise `GET /.well-known/core` (Block2 size `2^(szx+4)`) with these Uri-Query options on session `sid` -/
  | get (sid szx : Nat) (opts : List Bytes)
  /-- the application itself asks for the listing (`coap_print_wellknown`: size probe, then the whole) -/
  | print (qf : Option Bytes)
  deriving DecidableEq, Repr

/-- what a request yields: the reassembled body, the number of responses it took, whether it failed -/
structure LiveRes where
  buf : Bytes
  nresp : Nat
  failed : Bool
  deriving DecidableEq, Repr

/-- number of responses of a complete Block2 transfer of `len` bytes in blocks of `sz` (an empty body takes one) -/
def specBlocks (len sz : Nat) : Nat := if len = 0 then 1 else (len + sz - 1) / sz

/-- every request sees the listing of the table as it is at that moment -/
def liveSpec : Table → List LiveEv → List LiveRes
  | _, [] => []
  | t, .op o :: r => liveSpec (applyOp t o) r
  | t, .get _ szx opts :: r =>
    ⟨getListing t opts, specBlocks (getListing t opts).length (2 ^ (szx + 4)), false⟩ :: liveSpec t r
  | t, .print qf :: r => ⟨listing t (qf.getD []), 0, false⟩ :: liveSpec t r

end Coap.LF
