/-!
# S: an option filter is a bounded set of option numbers

Written from the documentation of `coap_opt_filter_t` (include/coap3/coap_option.h): up to COAP_OPT_FILTER_LONG (2)
option numbers above 255 and up to COAP_OPT_FILTER_SHORT (6) numbers below 256; set reports 1 when the number is (now)
in the filter and 0 when there is no room, unset removes it, get tells whether it is in.  A filtered iteration over a
message returns exactly the options whose numbers are in the filter, in message order; `coap_check_option` the first
option with the given number.
-/
namespace Coap.Spec.OptFilter

def capLong : Nat := 2
def capShort : Nat := 6

structure BSet where
  long : List Nat
  short : List Nat
  deriving Repr, DecidableEq

def BSet.empty : BSet := ⟨[], []⟩

def BSet.get (s : BSet) (n : Nat) : Bool :=
  if n > 255 then decide (n ∈ s.long) else decide (n ∈ s.short)

def BSet.set (s : BSet) (n : Nat) : BSet × Nat :=
  if n > 255 then
    if n ∈ s.long then (s, 1) else if s.long.length < capLong then ({ s with long := n :: s.long }, 1) else (s, 0)
  else
    if n ∈ s.short then (s, 1) else if s.short.length < capShort then ({ s with short := n :: s.short }, 1) else (s, 0)

def BSet.clr (s : BSet) (n : Nat) : BSet × Nat :=
  if n > 255 then ({ s with long := s.long.erase n }, if n ∈ s.long then 1 else 0)
  else ({ s with short := s.short.erase n }, if n ∈ s.short then 1 else 0)

/-- no number twice -/
def BSet.WF (s : BSet) : Prop := s.long.Nodup ∧ s.short.Nodup

end Coap.Spec.OptFilter
