import CoapVerif.Spec.OscoreSeq
import CoapVerif.Spec.OscoreCtx
/-
S — a SERVER THAT HOLDS SEVERAL SECURITY CONTEXTS over a sequence of messages (RFC 8613 §8.2, §8.3), written
from the RFC: requests protected under DIFFERENT contexts arrive interleaved on one transport session (the hop
from a forward proxy, one client that uses two contexts), and each response has to be protected with the context
of the request it answers.

RFC 8613 §8.3 step 1: "Retrieve the Sender Context in the Security Context associated with the Token."  §8.2
binds the token of a verified request to the Recipient Context it was verified with (step 2) and to the
request's kid / Partial IV / nonce (D14.15).

SPEC DECISION
 D14.19 the Security Context associated with a token is the context the LATEST verified request with that token
        was verified with (the one it names, D14.18) — not the context of whatever request the endpoint verified
        last.  Everything else is D14.15 / D14.16 / D14.5 (latest VERIFIED request — a request that is rejected
        binds nothing and re-binds nothing —, consumed by the response unless marked `observe`, own Partial IV for
        a marked binding).
-/
namespace Coap.Spec.Oscore

/-- what the server remembers for a token: the binding AND the security context of the request -/
structure CEntry where
  token : Bytes
  b : Binding
  keep : Bool
  ctx : Ctx
  observe : Bool        -- D14.5: the request carried an Observe option
  deriving Repr, DecidableEq

abbrev CStore := List CEntry

def cFind (st : CStore) (t : Bytes) : Option CEntry := List.find? (fun e => e.token = t) st
def cDel (st : CStore) (t : Bytes) : CStore := List.filter (fun e => e.token ≠ t) st
def cSet (st : CStore) (e : CEntry) : CStore := e :: cDel st e.token

/-- D14.16, server: the `observe` mark of the binding a verified request makes (`sObs` for this store) -/
def cObs (st : CStore) (t : Bytes) (os : List (Nat × Bytes)) : Bool :=
  hasObserve os || (match cFind st t with | some e => e.observe | none => false)

/-- §8.2 at an endpoint that holds the contexts `cs` + D14.19: the token is bound to the context the request names -/
def serverRecvAny (cipher : Bytes → Bytes → Bytes) (cs : List Ctx) (st : CStore) (pm : Msg) : Verdict × CStore :=
  match unprotectRequestAny cipher cs pm, selectFor cs pm with
  | .ok m b, some c => (.ok m b, cSet st ⟨pm.token, b, cObs st pm.token m.opts, c, cObs st pm.token m.opts⟩)
  | v, _ => (v, st)

/-- §8.3 + D14.19 + D14.5: the response is protected with the context associated with ITS token; `seq` is the Sender
Sequence Number of THAT context, used iff the response carries its own Partial IV (`ask`: the caller wants one) -/
def serverSendAny (cipher : Bytes → Bytes → Bytes) (st : CStore) (m : Msg) (ask : Bool) (seq : Nat) (sepMid : Option Nat) :
    Option (Msg × CStore) :=
  match cFind st m.token with
  | none => none
  | some e =>
    match protectResponseFor cipher e.ctx e.b e.observe m ask seq sepMid with
    | none => none
    | some r => some (r, if e.keep then st else cDel st m.token)

/-- D14.5 at this server: does the response `m` take a Sender Sequence Number of the context bound to its token? -/
def serverOwnPivAny (st : CStore) (m : Msg) (ask : Bool) : Bool :=
  match cFind st m.token with
  | none => false
  | some e => ownPiv ask e.observe m

/-- one event at the server: a datagram with a request code arrives (genuine, for any of its contexts or for none,
forged), or it protects a response -/
inductive XStep where
  | recv (pm : Msg)
  | send (m : Msg) (ask : Bool) (seq : Nat) (sepMid : Option Nat)
  deriving Repr, DecidableEq

def XStep.token : XStep → Bytes
  | .recv pm => pm.token
  | .send m _ _ _ => m.token

def serverStepAny (cipher : Bytes → Bytes → Bytes) (cs : List Ctx) (st : CStore) : XStep → CStore
  | .recv pm => (serverRecvAny cipher cs st pm).2
  | .send m ask seq sepMid =>
    match serverSendAny cipher st m ask seq sepMid with
    | some (_, st') => st'
    | none => st

def serverRunAny (cipher : Bytes → Bytes → Bytes) (cs : List Ctx) (st : CStore) (steps : List XStep) : CStore :=
  steps.foldl (serverStepAny cipher cs) st

end Coap.Spec.Oscore
