import CoapVerif.Util
/-
S — the wire-format specification, written from RFC 7252 §3, RFC 8323 §3/§4/§5,
RFC 8974 §2.1 and the option tables of RFC 7252 §5.10, 7641, 7959, 7967, 8613,
8768, 9175, 9177.  Nothing here is taken from libcoap's code.

SPEC DECISIONS
 D1  a 7.01..7.05 signalling message carrying an option that is not defined for
     that code and is critical (odd) is rejected at parse time (RFC 8323 §5.2
     only requires that it is not processed); unknown 7.xx codes carry no
     option constraints.  The 7.xx table is applied on every framing.
 D3  on reliable transports `type` and `mid` do not exist on the wire; the
     decoder reports type CON (0) and mid 0.
 D10 TCP framing: the byte string judged is exactly one frame — the Len /
     extended-Len field must equal the number of bytes that follow the token.
     (Cutting a stream into frames is C05's specification.)
 D11 WebSocket framing (RFC 8323 §4.2): Len nibble is ignored on reception.
 D12 token lengths follow RFC 8974 §2.1 (TKL 0..12 direct, 13/14 extended,
     15 reserved) — the superset of RFC 7252's 0..8.
-/
namespace Coap

structure Msg where
  type : Nat
  code : Nat
  mid : Nat
  token : Bytes
  opts : List (Nat × Bytes)
  payload : Bytes
  deriving DecidableEq, Repr

inductive Proto where
  | udp | tcp | ws
  deriving DecidableEq, Repr

namespace Spec

/-- A per-option length table in the canonical form that the T1 extractor
also emits from libcoap's code: option number ↦ accepted value lengths as
inclusive intervals; numbers not listed take the even/odd default.  No value
on the wire is longer than 65804 bytes (65535 + 269), so `(0, 65804)` is
"unconstrained". -/
structure LenTable where
  rows : List (Nat × List (Nat × Nat))
  dfltEven : List (Nat × Nat)
  dfltOdd : List (Nat × Nat)
  deriving DecidableEq, Repr

def inIvs (ivs : List (Nat × Nat)) (x : Nat) : Bool :=
  ivs.any fun iv => decide (iv.1 ≤ x) && decide (x ≤ iv.2)

def LenTable.ok (t : LenTable) (num len : Nat) : Bool :=
  match t.rows.lookup num with
  | some ivs => inIvs ivs len
  | none => if num % 2 = 0 then inIvs t.dfltEven len else inIvs t.dfltOdd len

/-- message codes (as inclusive intervals) ↦ table -/
abbrev LenGroups := List (List (Nat × Nat) × LenTable)

def lenOkIn (gs : LenGroups) (code num len : Nat) : Bool :=
  match gs.find? (fun g => inIvs g.1 code) with
  | some g => g.2.ok num len
  | none => true

def anyLen : List (Nat × Nat) := [(0, 65804)]

/-- The RFCs' limits. -/
def lenGroups : LenGroups :=
  [ -- request / response / empty codes 0.00 .. 6.31
    ([(0, 223)],
     { rows :=
        [ (1, [(0, 8)]),      -- If-Match        RFC 7252 §5.10
          (3, [(1, 255)]),    -- Uri-Host
          (4, [(1, 8)]),      -- ETag
          (5, [(0, 0)]),      -- If-None-Match
          (6, [(0, 3)]),      -- Observe         RFC 7641
          (7, [(0, 2)]),      -- Uri-Port
          (8, [(0, 255)]),    -- Location-Path
          (9, [(0, 255)]),    -- OSCORE          RFC 8613
          (11, [(0, 255)]),   -- Uri-Path
          (12, [(0, 2)]),     -- Content-Format
          (14, [(0, 4)]),     -- Max-Age
          (15, [(0, 255)]),   -- Uri-Query
          (16, [(1, 1)]),     -- Hop-Limit       RFC 8768
          (17, [(0, 2)]),     -- Accept
          (19, [(0, 3)]),     -- Q-Block1        RFC 9177
          (20, [(0, 255)]),   -- Location-Query
          (23, [(0, 3)]),     -- Block2          RFC 7959
          (27, [(0, 3)]),     -- Block1
          (28, [(0, 4)]),     -- Size2
          (31, [(0, 3)]),     -- Q-Block2        RFC 9177
          (35, [(1, 1034)]),  -- Proxy-Uri
          (39, [(1, 255)]),   -- Proxy-Scheme
          (60, [(0, 4)]),     -- Size1
          (252, [(1, 40)]),   -- Echo            RFC 9175
          (258, [(0, 1)]),    -- No-Response     RFC 7967
          (292, [(0, 8)]) ],  -- Request-Tag     RFC 9175
       dfltEven := anyLen, dfltOdd := anyLen }),
    -- 7.00 and 7.06 .. 7.31: no signalling options defined, nothing constrained
    ([(224, 224), (230, 255)], { rows := [], dfltEven := anyLen, dfltOdd := anyLen }),
    -- 7.01 CSM (RFC 8323 §5.3, RFC 8974 §2.2); D1: unknown critical rejected
    ([(225, 225)], { rows := [(2, [(0, 4)]), (4, [(0, 0)]), (6, [(0, 3)])], dfltEven := anyLen, dfltOdd := [] }),
    -- 7.02 Ping / 7.03 Pong: Custody
    ([(226, 227)], { rows := [(2, [(0, 0)])], dfltEven := anyLen, dfltOdd := [] }),
    -- 7.04 Release: Alternative-Address, Hold-Off
    ([(228, 228)], { rows := [(2, [(1, 255)]), (4, [(0, 3)])], dfltEven := anyLen, dfltOdd := [] }),
    -- 7.05 Abort: Bad-CSM-Option
    ([(229, 229)], { rows := [(2, [(0, 2)])], dfltEven := anyLen, dfltOdd := [] }) ]

/-- Is `len` a permitted value length for option `num` in a message with this code? -/
def optLenOk (code num len : Nat) : Bool := lenOkIn lenGroups code num len

/-- The 4-bit field + extension scheme shared by option delta, option length
(RFC 7252 §3.1) and token length (RFC 8974 §2.1): 0..12 literal, 13 → one
byte + 13, 14 → two bytes + 269, 15 reserved. -/
def ext (nib : Nat) (bs : Bytes) : Option (Nat × Bytes) :=
  if nib < 13 then some (nib, bs)
  else if nib = 13 then
    match bs with
    | b :: r => some (b.toNat + 13, r)
    | [] => none
  else if nib = 14 then
    match bs with
    | b1 :: b2 :: r => some (b1.toNat * 256 + b2.toNat + 269, r)
    | _ => none
  else none

/-- Options: returns the (number, value) pairs and what follows them (empty,
or starting with the payload marker).  `fuel` bounds the recursion; every
option consumes at least one byte, so `bs.length` is enough. -/
def opts (code : Nat) : (fuel : Nat) → (prev : Nat) → (bs : Bytes) → Option (List (Nat × Bytes) × Bytes)
  | 0, _, _ => none
  | fuel + 1, prev, bs =>
    match bs with
    | [] => some ([], [])
    | b :: r0 =>
      if b = 0xFF then some ([], bs) else
      match ext (b.toNat / 16) r0 with
      | none => none
      | some (d, r1) =>
        match ext (b.toNat % 16) r1 with
        | none => none
        | some (l, r2) =>
          if prev + d ≤ 65535 ∧ l ≤ r2.length ∧ optLenOk code (prev + d) l = true then
            match opts code fuel (prev + d) (r2.drop l) with
            | some (os, rest) => some ((prev + d, r2.take l) :: os, rest)
            | none => none
          else none

/-- After the options: nothing, or a marker followed by a non-empty payload. -/
def finish (rest : Bytes) : Option Bytes :=
  match rest with
  | [] => some []
  | _ :: pl => if pl = [] then none else some pl

/-- Everything after the fixed header: token (with RFC 8974 extension),
options, payload.  An Empty message (code 0.00) has nothing at all. -/
def body (type code mid tkl : Nat) (rest : Bytes) : Option Msg :=
  match ext tkl rest with
  | none => none
  | some (n, r) =>
    if n ≤ r.length then
      if code = 0 then
        if tkl = 0 ∧ rest = [] then some ⟨type, 0, mid, [], [], []⟩ else none
      else
        match opts code (rest.length + 1) 0 (r.drop n) with
        | none => none
        | some (os, rest') =>
          match finish rest' with
          | none => none
          | some pl => some ⟨type, code, mid, r.take n, os, pl⟩
    else none

/-- TCP Len nibble + extended length (RFC 8323 §3.2). -/
def tcpLen (nib : Nat) (bs : Bytes) : Option (Nat × Bytes) :=
  if nib < 13 then some (nib, bs)
  else if nib = 13 then
    match bs with
    | b :: r => some (b.toNat + 13, r)
    | [] => none
  else if nib = 14 then
    match bs with
    | b1 :: b2 :: r => some (b1.toNat * 256 + b2.toNat + 269, r)
    | _ => none
  else
    match bs with
    | b1 :: b2 :: b3 :: b4 :: r =>
      some (b1.toNat * 16777216 + b2.toNat * 65536 + b3.toNat * 256 + b4.toNat + 65805, r)
    | _ => none

/-- Number of bytes the token field occupies including its RFC 8974 extension. -/
def tokenField (tkl : Nat) (bs : Bytes) : Option Nat :=
  match ext tkl bs with
  | none => none
  | some (n, r) => some (n + (bs.length - r.length))

def decode (p : Proto) (bs : Bytes) : Option Msg :=
  match p with
  | .udp =>
    match bs with
    | b0 :: c :: m1 :: m2 :: rest =>
      if b0.toNat / 64 = 1 then
        body (b0.toNat / 16 % 4) c.toNat (m1.toNat * 256 + m2.toNat) (b0.toNat % 16) rest
      else none
    | _ => none
  | .tcp =>
    match bs with
    | b0 :: r0 =>
      match tcpLen (b0.toNat / 16) r0 with
      | none => none
      | some (len, r1) =>
        match r1 with
        | c :: r2 =>
          match tokenField (b0.toNat % 16) r2 with
          | none => none
          | some tf =>
            if r2.length = tf + len then body 0 c.toNat 0 (b0.toNat % 16) r2 else none   -- D10
        | [] => none
    | [] => none
  | .ws =>
    match bs with
    | b0 :: c :: rest => body 0 c.toNat 0 (b0.toNat % 16) rest     -- D11
    | _ => none

end Spec
end Coap
