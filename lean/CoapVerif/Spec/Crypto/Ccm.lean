import CoapVerif.Spec.Crypto.Basic
/-
S (crypto) — CCM (RFC 3610 §2) over an arbitrary 16-byte block function `E` (AES-128 with a fixed
key in use; the theorems about CCM hold for every `E`).  L = 15 − |nonce| (2 for the 13-byte
nonce of AES-CCM-16-64-128), tag length `M` (8).  Executable, core Lean only.
-/
namespace Coap.Spec.Crypto

/-- §2.2 first block B_0: flags ‖ nonce ‖ l(m) -/
def ccmB0 (M : Nat) (n : Bytes) (alen plen : Nat) : Bytes :=
  let L := 15 - n.length
  UInt8.ofNat ((if alen > 0 then 64 else 0) + 8 * ((M - 2) / 2) + (L - 1)) :: (n ++ beBytes L plen)

/-- §2.2 encoding of l(a) -/
def ccmAadLen (alen : Nat) : Bytes :=
  if alen < 65280 then beBytes 2 alen
  else if alen < 4294967296 then [0xff, 0xfe] ++ beBytes 4 alen
  else [0xff, 0xff] ++ beBytes 8 alen

def pad16 (l : Bytes) : Bytes := l ++ List.replicate ((16 - l.length % 16) % 16) 0

def chunks16 : (fuel : Nat) → Bytes → List Bytes
  | 0, _ => []
  | fuel + 1, bs => if bs.isEmpty then [] else bs.take 16 :: chunks16 fuel (bs.drop 16)

/-- §2.2 the blocks B_1.. that follow B_0: encoded aad (if any), then the message, each zero-padded -/
def ccmBlocks (a p : Bytes) : List Bytes :=
  let ab := if a.isEmpty then [] else pad16 (ccmAadLen a.length ++ a)
  let pb := pad16 p
  chunks16 (ab.length / 16 + 1) ab ++ chunks16 (pb.length / 16 + 1) pb

/-- §2.2 CBC-MAC: X_1 = E(B_0), X_{i+1} = E(X_i ⊕ B_i); T = first M bytes of the last X -/
def ccmTag (E : Bytes → Bytes) (M : Nat) (n a p : Bytes) : Bytes :=
  let x1 := fit 16 (E (ccmB0 M n a.length p.length))
  fit M ((ccmBlocks a p).foldl (fun x b => fit 16 (E (xorKs x b))) x1)

/-- §2.3 counter block A_i: flags (L − 1) ‖ nonce ‖ i -/
def ccmCtrBlock (n : Bytes) (i : Nat) : Bytes :=
  let L := 15 - n.length
  UInt8.ofNat (L - 1) :: (n ++ beBytes L i)

/-- S_i ‖ S_{i+1} ‖ … (`k` blocks) -/
def ccmKeystream (E : Bytes → Bytes) (n : Bytes) : (k : Nat) → (i : Nat) → Bytes
  | 0, _ => []
  | k + 1, i => fit 16 (E (ccmCtrBlock n i)) ++ ccmKeystream E n k (i + 1)

/-- §2.3: the message is xor-ed with the first l(m) bytes of S_1 ‖ S_2 ‖ … -/
def ccmCtr (E : Bytes → Bytes) (n p : Bytes) : Bytes :=
  xorKs p (ccmKeystream E n ((p.length + 15) / 16) 1)

/-- §2.3 / §2.4: ciphertext ‖ (T ⊕ first M bytes of S_0) -/
def ccmEncrypt (E : Bytes → Bytes) (M : Nat) (n a p : Bytes) : Bytes :=
  ccmCtr E n p ++ xorKs (ccmTag E M n a p) (fit M (E (ccmCtrBlock n 0)))

/-- §2.5: recompute the key stream, recover m and T, recompute T from m and compare -/
def ccmDecrypt (E : Bytes → Bytes) (M : Nat) (n a c : Bytes) : Option Bytes :=
  if c.length < M then none else
  let p := ccmCtr E n (c.take (c.length - M))
  let t := xorKs (c.drop (c.length - M)) (fit M (E (ccmCtrBlock n 0)))
  if t = ccmTag E M n a p then some p else none

end Coap.Spec.Crypto
