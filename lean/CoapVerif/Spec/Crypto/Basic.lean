import CoapVerif.Util
/- S (crypto) — byte-string helpers shared by the primitives.  Core Lean only. -/
namespace Coap.Spec.Crypto

/-- big-endian encoding of `n` in exactly `k` bytes (mod 256^k) -/
def beBytes : (k : Nat) → (n : Nat) → Bytes
  | 0, _ => []
  | k + 1, n => beBytes k (n / 256) ++ [UInt8.ofNat (n % 256)]

/-- exactly `n` bytes: the first `n` bytes, zero-padded on the right if there are fewer -/
def fit (n : Nat) (l : Bytes) : Bytes := (l ++ List.replicate n 0).take n

/-- `a` xor the key stream `ks`, byte by byte; the result is as long as `a` (a key stream that is
too short leaves the remaining bytes unchanged — never the case for a 16-byte block cipher). -/
def xorKs : Bytes → Bytes → Bytes
  | x :: a, k :: ks => (x ^^^ k) :: xorKs a ks
  | a, _ => a

end Coap.Spec.Crypto
