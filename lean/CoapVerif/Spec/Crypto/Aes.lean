import CoapVerif.Util
/-
S (crypto) — AES-128 block encryption, FIPS 197 (§4.2 GF(2^8) arithmetic, §5.1 Cipher, §5.2
KeyExpansion).  The S-box is *computed* from its definition (§5.1.1: multiplicative inverse in
GF(2^8) followed by the affine transformation), not copied as a table.  Executable, core Lean only.
-/
namespace Coap.Spec.Crypto

/-- §4.2.1 multiplication by x -/
@[inline] def xtime (b : UInt8) : UInt8 :=
  if b &&& 0x80 != 0 then (b <<< 1) ^^^ 0x1b else b <<< 1

/-- §4.2 multiplication in GF(2^8) modulo x^8 + x^4 + x^3 + x + 1 -/
def gmul (a b : UInt8) : UInt8 := Id.run do
  let mut r : UInt8 := 0
  let mut x := a
  let mut y := b
  for _ in [0:8] do
    if y &&& 1 != 0 then r := r ^^^ x
    x := xtime x
    y := y >>> 1
  return r

/-- a^254 = a^(-1) for a ≠ 0, and 0 ↦ 0 (§5.1.1 step 1) -/
def ginv (a : UInt8) : UInt8 := Id.run do
  let mut r : UInt8 := 1
  for _ in [0:254] do
    r := gmul r a
  return r

@[inline] def rotl8 (b : UInt8) (n : UInt8) : UInt8 := (b <<< n) ||| (b >>> (8 - n))

/-- §5.1.1 eq. (5.1): b'_i = b_i ⊕ b_{i+4} ⊕ b_{i+5} ⊕ b_{i+6} ⊕ b_{i+7} ⊕ c_i with c = 0x63 -/
def sboxCalc (a : UInt8) : UInt8 :=
  let b := ginv a
  b ^^^ rotl8 b 1 ^^^ rotl8 b 2 ^^^ rotl8 b 3 ^^^ rotl8 b 4 ^^^ 0x63

def sboxTable : Array UInt8 := Array.ofFn (n := 256) fun i => sboxCalc (UInt8.ofNat i.val)

@[inline] def sbox (a : UInt8) : UInt8 := sboxTable[a.toNat]!

/-- §5.2: 11 round keys (176 bytes) from a 16-byte key -/
def expandKey (key : Bytes) : Array UInt8 := Id.run do
  let mut w : Array UInt8 := (key ++ List.replicate (16 - key.length) 0).toArray.extract 0 16
  let mut rcon : UInt8 := 1
  for i in [4:44] do
    let t0 := w[4 * (i - 1)]!; let t1 := w[4 * (i - 1) + 1]!
    let t2 := w[4 * (i - 1) + 2]!; let t3 := w[4 * (i - 1) + 3]!
    let (u0, u1, u2, u3) :=
      if i % 4 == 0 then (sbox t1 ^^^ rcon, sbox t2, sbox t3, sbox t0) else (t0, t1, t2, t3)
    if i % 4 == 0 then rcon := xtime rcon
    w := w.push (w[4 * (i - 4)]! ^^^ u0)
    w := w.push (w[4 * (i - 4) + 1]! ^^^ u1)
    w := w.push (w[4 * (i - 4) + 2]! ^^^ u2)
    w := w.push (w[4 * (i - 4) + 3]! ^^^ u3)
  return w

def addRoundKey (s : Array UInt8) (rk : Array UInt8) (round : Nat) : Array UInt8 :=
  Array.ofFn (n := 16) fun i => s[i.val]! ^^^ rk[16 * round + i.val]!

def subBytes (s : Array UInt8) : Array UInt8 := s.map sbox

/-- §5.1.2: row r is rotated left by r; the state is stored column-major (index r + 4c) -/
def shiftRows (s : Array UInt8) : Array UInt8 :=
  Array.ofFn (n := 16) fun i => s[i.val % 4 + 4 * ((i.val / 4 + i.val % 4) % 4)]!

/-- §5.1.3 -/
def mixColumns (s : Array UInt8) : Array UInt8 :=
  Array.ofFn (n := 16) fun i =>
    let c := 4 * (i.val / 4)
    let a0 := s[c]!; let a1 := s[c + 1]!; let a2 := s[c + 2]!; let a3 := s[c + 3]!
    match i.val % 4 with
    | 0 => gmul 2 a0 ^^^ gmul 3 a1 ^^^ a2 ^^^ a3
    | 1 => a0 ^^^ gmul 2 a1 ^^^ gmul 3 a2 ^^^ a3
    | 2 => a0 ^^^ a1 ^^^ gmul 2 a2 ^^^ gmul 3 a3
    | _ => gmul 3 a0 ^^^ a1 ^^^ a2 ^^^ gmul 2 a3

/-- §5.1 Cipher with Nr = 10 on one 16-byte block (shorter input is zero-padded, longer cut) -/
def aesEncryptBlock (rk : Array UInt8) (blk : Bytes) : Bytes := Id.run do
  let mut s := addRoundKey ((blk ++ List.replicate (16 - blk.length) 0).toArray.extract 0 16) rk 0
  for r in [1:10] do
    s := addRoundKey (mixColumns (shiftRows (subBytes s))) rk r
  s := addRoundKey (shiftRows (subBytes s)) rk 10
  return s.toList

/-- AES-128 as a function on blocks, for a fixed key (the key schedule is computed once) -/
def aes128 (key : Bytes) : Bytes → Bytes :=
  let rk := expandKey key
  fun blk => aesEncryptBlock rk blk

end Coap.Spec.Crypto
