import CoapVerif.Spec.Crypto.Basic
/-
S (crypto) — SHA-256 (FIPS 180-4 §4.1.2, §4.2.2, §5.1.1, §5.3.3, §6.2), HMAC (RFC 2104 §2) and
HKDF (RFC 5869 §2.2, §2.3) over SHA-256.  Written from the standards; executable; core Lean only.
The constants are the first 32 bits of the fractional parts of the cube (square) roots of the
first 64 (8) primes (FIPS 180-4 §4.2.2, §5.3.3).  Known-answer vectors run through the driver
(`kat` lines of corpus/C14) as labelled tests.
-/
namespace Coap.Spec.Crypto

def K256 : Array UInt32 := #[
  0x428a2f98, 0x71374491, 0xb5c0fbcf, 0xe9b5dba5, 0x3956c25b, 0x59f111f1, 0x923f82a4, 0xab1c5ed5,
  0xd807aa98, 0x12835b01, 0x243185be, 0x550c7dc3, 0x72be5d74, 0x80deb1fe, 0x9bdc06a7, 0xc19bf174,
  0xe49b69c1, 0xefbe4786, 0x0fc19dc6, 0x240ca1cc, 0x2de92c6f, 0x4a7484aa, 0x5cb0a9dc, 0x76f988da,
  0x983e5152, 0xa831c66d, 0xb00327c8, 0xbf597fc7, 0xc6e00bf3, 0xd5a79147, 0x06ca6351, 0x14292967,
  0x27b70a85, 0x2e1b2138, 0x4d2c6dfc, 0x53380d13, 0x650a7354, 0x766a0abb, 0x81c2c92e, 0x92722c85,
  0xa2bfe8a1, 0xa81a664b, 0xc24b8b70, 0xc76c51a3, 0xd192e819, 0xd6990624, 0xf40e3585, 0x106aa070,
  0x19a4c116, 0x1e376c08, 0x2748774c, 0x34b0bcb5, 0x391c0cb3, 0x4ed8aa4a, 0x5b9cca4f, 0x682e6ff3,
  0x748f82ee, 0x78a5636f, 0x84c87814, 0x8cc70208, 0x90befffa, 0xa4506ceb, 0xbef9a3f7, 0xc67178f2]

def H256 : Array UInt32 := #[
  0x6a09e667, 0xbb67ae85, 0x3c6ef372, 0xa54ff53a, 0x510e527f, 0x9b05688c, 0x1f83d9ab, 0x5be0cd19]

@[inline] def rotr (x : UInt32) (n : UInt32) : UInt32 := (x >>> n) ||| (x <<< (32 - n))
@[inline] def ch (x y z : UInt32) : UInt32 := (x &&& y) ^^^ ((~~~ x) &&& z)
@[inline] def maj (x y z : UInt32) : UInt32 := (x &&& y) ^^^ (x &&& z) ^^^ (y &&& z)
@[inline] def bsig0 (x : UInt32) : UInt32 := rotr x 2 ^^^ rotr x 13 ^^^ rotr x 22
@[inline] def bsig1 (x : UInt32) : UInt32 := rotr x 6 ^^^ rotr x 11 ^^^ rotr x 25
@[inline] def ssig0 (x : UInt32) : UInt32 := rotr x 7 ^^^ rotr x 18 ^^^ (x >>> 3)
@[inline] def ssig1 (x : UInt32) : UInt32 := rotr x 17 ^^^ rotr x 19 ^^^ (x >>> 10)

def be32 (a b c d : UInt8) : UInt32 :=
  (a.toUInt32 <<< 24) ||| (b.toUInt32 <<< 16) ||| (c.toUInt32 <<< 8) ||| d.toUInt32

def wordsOf : Bytes → List UInt32
  | a :: b :: c :: d :: r => be32 a b c d :: wordsOf r
  | _ => []

def bytesOfWord (w : UInt32) : Bytes :=
  [(w >>> 24).toUInt8, (w >>> 16).toUInt8, (w >>> 8).toUInt8, w.toUInt8]

/-- FIPS 180-4 §5.1.1: append 0x80, zeros up to 56 mod 64, the bit length in 64 bits. -/
def pad256 (m : Bytes) : Bytes :=
  let l := m.length
  let z := (64 - (l + 9) % 64) % 64
  m ++ [0x80] ++ List.replicate z 0 ++ beBytes 8 (l * 8)

/-- message schedule W_0..W_63 for one 64-byte block (§6.2.2 step 1) -/
def schedule (blk : Bytes) : Array UInt32 := Id.run do
  let mut w : Array UInt32 := (wordsOf blk).toArray
  for i in [16:64] do
    w := w.push (ssig1 w[i - 2]! + w[i - 7]! + ssig0 w[i - 15]! + w[i - 16]!)
  return w

/-- one application of the compression function (§6.2.2 steps 2-4) -/
def compress (h : Array UInt32) (blk : Bytes) : Array UInt32 := Id.run do
  let w := schedule blk
  let mut a := h[0]!; let mut b := h[1]!; let mut c := h[2]!; let mut d := h[3]!
  let mut e := h[4]!; let mut f := h[5]!; let mut g := h[6]!; let mut hh := h[7]!
  for t in [0:64] do
    let t1 := hh + bsig1 e + ch e f g + K256[t]! + w[t]!
    let t2 := bsig0 a + maj a b c
    hh := g; g := f; f := e; e := d + t1; d := c; c := b; b := a; a := t1 + t2
  return #[h[0]! + a, h[1]! + b, h[2]! + c, h[3]! + d, h[4]! + e, h[5]! + f, h[6]! + g, h[7]! + hh]

def blocks64 : (fuel : Nat) → Bytes → List Bytes
  | 0, _ => []
  | fuel + 1, bs => if bs.isEmpty then [] else bs.take 64 :: blocks64 fuel (bs.drop 64)

def sha256 (m : Bytes) : Bytes :=
  let p := pad256 m
  let h := (blocks64 (p.length / 64 + 1) p).foldl compress H256
  h.toList.flatMap bytesOfWord

/-- RFC 2104 §2 with B = 64, L = 32. -/
def hmacSha256 (key msg : Bytes) : Bytes :=
  let k0 := if key.length > 64 then sha256 key else key
  let k := k0 ++ List.replicate (64 - k0.length) 0
  let ipad := k.map (· ^^^ 0x36)
  let opad := k.map (· ^^^ 0x5c)
  sha256 (opad ++ sha256 (ipad ++ msg))

/-- RFC 5869 §2.2: PRK = HMAC-Hash(salt, IKM); an absent salt is HashLen zeros. -/
def hkdfExtract (salt ikm : Bytes) : Bytes :=
  hmacSha256 (if salt.isEmpty then List.replicate 32 0 else salt) ikm

/-- RFC 5869 §2.3: T(i) = HMAC(PRK, T(i-1) ‖ info ‖ i), OKM = first L bytes of T(1) ‖ T(2) ‖ … -/
def hkdfExpandAux (prk info : Bytes) : (n : Nat) → (i : Nat) → (prev : Bytes) → Bytes
  | 0, _, _ => []
  | n + 1, i, prev =>
    let t := hmacSha256 prk (prev ++ info ++ [UInt8.ofNat i])
    t ++ hkdfExpandAux prk info n (i + 1) t

def hkdfExpand (prk info : Bytes) (len : Nat) : Bytes :=
  (hkdfExpandAux prk info ((len + 31) / 32) 1 []).take len

def hkdf (salt ikm info : Bytes) (len : Nat) : Bytes :=
  hkdfExpand (hkdfExtract salt ikm) info len

end Coap.Spec.Crypto
