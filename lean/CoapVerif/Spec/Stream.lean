import CoapVerif.Spec.Codec
/-
S — what a reliable transport must hand to the protocol layer, as a function of the BYTES received
only (property C05).  Written from RFC 8323 §3.2/§3.3 (CoAP over TCP framing), RFC 8974 §2.1
(extended token length), RFC 8323 §4 + RFC 6455 §5.2 (CoAP over WebSockets) and the property text.
Nothing here is taken from libcoap's code.

SPEC DECISIONS
 D13 "declared length" of a TCP frame = the number of bytes its header announces to follow the Code
     byte: the Len / extended-Len value plus the token field (TKL, incl. the RFC 8974 extension
     bytes).  The configured maximum `max` is expressed in the same unit.  A header whose declared
     length exceeds `max` closes the session as soon as the header is complete; nothing after it is
     delivered.  (RFC 8323 §5.3.1 counts Max-Message-Size from the first header byte; an endpoint
     that is up to one header length stricter is not judged here.)
 D14 a reserved TKL of 15 gives no token length; RFC 8323 does not say how to resynchronise.  S takes
     the token field of such a frame as 0 bytes long: the frame is Len bytes long, does not decode
     (message format error) and the stream goes on.
 D15 a frame that is complete but does not decode (`Spec.decode` = none) is dropped and the stream
     goes on (RFC 8323 §3.3 allows ignoring or aborting; libcoap raises BAD_PACKET and continues).
 D16 WebSocket: one CoAP message per binary frame with FIN set (RFC 8323 §4.1: no fragmentation is
     needed; a fragmented or non-binary data frame ends the session), payload unmasked with the
     masking key when the MASK bit is set.
-/
namespace Coap.Spec.Stream
open Coap

/-- how the stream ended as far as the bytes received tell: still open with the bytes of an
incomplete frame pending, or closed by the receiver -/
inductive End where
  | open (leftover : Bytes)
  | closed
  deriving DecidableEq, Repr

/-- a complete frame either decodes to a message that is handed on, or is dropped (D15) -/
def deliver (m : Option Msg) (rest : List Msg) : List Msg :=
  match m with
  | some x => x :: rest
  | none => rest

/-- number of extended-length bytes announced by the Len nibble (RFC 8323 §3.2) -/
def extLenBytes (lenNib : Nat) : Nat :=
  if lenNib < 13 then 0 else if lenNib = 13 then 1 else if lenNib = 14 then 2 else 4

/-- number of token-length extension bytes announced by TKL (RFC 8974 §2.1) -/
def tokExtBytes (tkl : Nat) : Nat :=
  if tkl = 13 then 1 else if tkl = 14 then 2 else 0

/-- Len/TKL byte, extended length, Code -/
def fixedLen (b0 : UInt8) : Nat := 1 + extLenBytes (b0.toNat / 16) + 1

/-- bytes needed before the length of the frame is known -/
def hdrLen (b0 : UInt8) : Nat := fixedLen b0 + tokExtBytes (b0.toNat % 16)

/-- length of the token field (extension bytes + token); D14 for TKL 15 -/
def tokFieldLen (tkl : Nat) (bs : Bytes) : Nat :=
  match Spec.tokenField tkl bs with
  | some n => n
  | none => 0

/-- D13: what the complete header `hdr` (`hdrLen` bytes) declares to follow the Code byte -/
def declared (hdr : Bytes) : Nat :=
  match hdr with
  | [] => 0
  | b0 :: r0 =>
    match Spec.tcpLen (b0.toNat / 16) r0 with
    | none => 0
    | some (len, r1) => len + tokFieldLen (b0.toNat % 16) (r1.drop 1)

/-- The messages contained in a byte stream, in order, and how it ends. -/
def frames (max : Nat) : (fuel : Nat) → Bytes → List Msg × End
  | 0, bs => ([], .open bs)
  | fuel + 1, bs =>
    match bs with
    | [] => ([], .open [])
    | b0 :: _ =>
      if bs.length < hdrLen b0 then ([], .open bs) else
      if max < declared (bs.take (hdrLen b0)) then ([], .closed) else
      if bs.length < fixedLen b0 + declared (bs.take (hdrLen b0)) then ([], .open bs) else
      let r := frames max fuel (bs.drop (fixedLen b0 + declared (bs.take (hdrLen b0))))
      (deliver (Spec.decode .tcp (bs.take (fixedLen b0 + declared (bs.take (hdrLen b0))))) r.1, r.2)

/-- every frame is at least two bytes long, so `length + 1` is enough fuel -/
def framesOf (max : Nat) (bs : Bytes) : List Msg × End := frames max (bs.length + 1) bs

/-- cutting a stream at the given chunk lengths (the last chunk takes what is left) -/
def segment : Bytes → List Nat → List Bytes
  | bs, [] => [bs]
  | bs, n :: ns => bs.take n :: segment (bs.drop n) ns

end Coap.Spec.Stream
