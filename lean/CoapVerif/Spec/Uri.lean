import CoapVerif.Util
/-
S — specification for C16 (URI ↔ options), written from RFC 3986 (§2.1 percent-encoding, §3 components,
§5.2.4 / §6.2.2 dot segments) and RFC 7252 (§6.4 decomposing a URI into options, §6.5 composing it back,
§5.10.1 Uri-Path / Uri-Query values), never from libcoap's code.  Core Lean only.

-- SPEC DECISION D4: S checks the *structure* of a URI (scheme table, "://", non-empty host, bracketed IPv6
--   literal, decimal port ≤ 65535, path / query delimiters, well-formed percent escapes in path and query);
--   character-class validation of the host (and of path / query characters other than '%') is outside S.
-- SPEC DECISION D5: `path_feeds_back` excludes the segment values "." and ".." (RFC 7252 §5.10.1 forbids them).
-- SPEC DECISION D16a: the component splitters (coap_split_path / coap_split_query / coap_path_into_optlist /
--   coap_query_into_optlist) are specified on inputs whose percent escapes are well formed (`splitPath … = some _`).
--   The property demands rejection of malformed *URIs*; that happens in coap_split_uri (D4).  What a component
--   splitter called directly with a malformed escape returns is left open (libcoap drops the segment resp. keeps
--   the '%'); such inputs are still run: the model must agree with the code and nothing may be read out of bounds.
-- SPEC DECISION D16b: coap_split_path / coap_split_query document a minimum output buffer (input length + a header
--   per segment).  S fixes their result for buffers of at least `length + 3·segments` bytes (proved enough:
--   `length + 2·segments + 1`; the documented `length + 2·segments` if no decoded segment reaches 269 bytes); for
--   smaller buffers only memory safety (nothing is written past the buffer) and the agreement of model and code are
--   demanded: libcoap omits what does not fit.
-- SPEC DECISION D16c: '.' and '..' are resolved as RFC 3986 §5.2.4 does on complete segments ("%2E" ≡ "."),
--   except that a *final* "." / ".." leaves no trailing empty segment (the property asks only that dot segments
--   are resolved and never emitted).  A ".." with nothing before it is ignored (as in §5.2.4).
-- SPEC DECISION D16d: an empty path / query string splits into the single empty segment, which counts as no
--   segment (`norm`), as the property says.
-- SPEC DECISION D16e: a URI whose authority is directly followed by '?' ("coap://h?q", empty path) is well formed
--   (RFC 3986 §3.3 path-abempty).  Input after '#' is not part of path or query (§3.5); coap_split_uri itself does
--   not know '#': a fragment stays inside the path / query string and is cut off by the component splitters.
-- SPEC DECISION D16f: a URI whose authority starts with "%2F" / "%2f" (libcoap's notation for a Unix domain socket in
--   place of a host; also a bracketed literal starting with '/') is outside S (`unixAuthority`, `unixHost`).
-- SPEC DECISION D16g: Uri-Host = the host percent-decoded, then in ASCII lower case; it is omitted iff the URI has no
--   authority or the host text (an IPv6 zone identifier not counting) equals the text of the destination address;
--   Uri-Port is omitted iff the port is the scheme's default (see the section on RFC 7252 §6.4 steps 5–9 below).
-/
namespace Coap.Spec.Uri
open Coap

/-- RFC 3986 HEXDIG, case-insensitive -/
def hexDigitVal (c : UInt8) : Option Nat :=
  if 48 ≤ c.toNat ∧ c.toNat ≤ 57 then some (c.toNat - 48)
  else if 65 ≤ c.toNat ∧ c.toNat ≤ 70 then some (c.toNat - 55)
  else if 97 ≤ c.toNat ∧ c.toNat ≤ 102 then some (c.toNat - 87)
  else none

/-- one pass of percent-decoding (RFC 3986 §2.1); `none` if a '%' is not followed by two hex digits -/
def pctDecode : Bytes → Option Bytes
  | [] => some []
  | c :: r =>
    if c = 0x25 then
      match r with
      | a :: b :: r' =>
        match hexDigitVal a, hexDigitVal b, pctDecode r' with
        | some x, some y, some t => some (UInt8.ofNat (x * 16 + y) :: t)
        | _, _, _ => none
      | _ => none
    else
      match pctDecode r with
      | some t => some (c :: t)
      | none => none

/-- the part of the input that belongs to the component: up to the first stop character -/
def splitAcc (stop sep : UInt8 → Bool) : Bytes → Bytes → List Bytes
  | [], cur => [cur]
  | c :: r, cur =>
    if stop c then [cur]
    else if sep c then cur :: splitAcc stop sep r []
    else splitAcc stop sep r (cur ++ [c])

/-- raw (still encoded) segments of a component: cut at the first stop character, split at every separator -/
def rawSegs (stop sep : UInt8 → Bool) (input : Bytes) : List Bytes := splitAcc stop sep input []

def pathStop (c : UInt8) : Bool := c == 0x3f || c == 0x23     -- '?' '#'
def pathSep (c : UInt8) : Bool := c == 0x2f                   -- '/'
def queryStop (c : UInt8) : Bool := c == 0x23                 -- '#'
def querySep (c : UInt8) : Bool := c == 0x26                  -- '&'

def decodeAll : List Bytes → Option (List Bytes)
  | [] => some []
  | s :: r =>
    match pctDecode s, decodeAll r with
    | some d, some t => some (d :: t)
    | _, _ => none

def dot1 : Bytes := [0x2e]
def dot2 : Bytes := [0x2e, 0x2e]

/-- one step of dot-segment resolution on decoded segments -/
def resolveStep (acc : List Bytes) (seg : Bytes) : List Bytes :=
  if seg = dot1 then acc else if seg = dot2 then acc.dropLast else acc ++ [seg]

def resolve (segs : List Bytes) : List Bytes := segs.foldl resolveStep []

/-- RFC 7252 §6.4 steps 8: Uri-Path values of a path string (without its leading '/') -/
def splitPath (input : Bytes) : Option (List Bytes) :=
  match decodeAll (rawSegs pathStop pathSep input) with
  | some segs => some (resolve segs)
  | none => none

/-- RFC 7252 §6.4 step 9: Uri-Query values of a query string (without the '?') -/
def splitQuery (input : Bytes) : Option (List Bytes) :=
  decodeAll (rawSegs queryStop querySep input)

/-- "a single empty segment counting as no segment" -/
def norm (segs : List Bytes) : List Bytes := if segs = [[]] then [] else segs

/-! ### composing (RFC 7252 §6.5 steps 6 and 7) -/

def isAlpha (c : UInt8) : Bool := (65 ≤ c.toNat && c.toNat ≤ 90) || (97 ≤ c.toNat && c.toNat ≤ 122)
def isDigit (c : UInt8) : Bool := 48 ≤ c.toNat && c.toNat ≤ 57
/-- RFC 3986 §2.3 unreserved -/
def unreserved (c : UInt8) : Bool := isAlpha c || isDigit c || c == 0x2d || c == 0x2e || c == 0x5f || c == 0x7e
/-- RFC 3986 §2.2 sub-delims  ! $ & ' ( ) * + , ; = -/
def subDelim (c : UInt8) : Bool :=
  c == 0x21 || c == 0x24 || c == 0x26 || c == 0x27 || c == 0x28 || c == 0x29 || c == 0x2a || c == 0x2b ||
  c == 0x2c || c == 0x3b || c == 0x3d
/-- §6.5 step 6: not percent-encoded in a path segment: unreserved, sub-delims, ':' and '@' -/
def pathPlain (c : UInt8) : Bool := unreserved c || subDelim c || c == 0x3a || c == 0x40
/-- §6.5 step 7: in a query argument: the same except '&', plus '/' and '?' -/
def queryPlain (c : UInt8) : Bool := ((unreserved c || subDelim c) && c != 0x26) || c == 0x3a || c == 0x40 || c == 0x2f || c == 0x3f

def pathPlainTab : List Bool := (List.range 256).map fun n => pathPlain (UInt8.ofNat n)
def queryPlainTab : List Bool := (List.range 256).map fun n => queryPlain (UInt8.ofNat n)

/-- upper-case hexadecimal digit (RFC 3986 §2.1: "should" be upper case) -/
def hexUpper (n : Nat) : UInt8 := if n < 10 then UInt8.ofNat (48 + n) else UInt8.ofNat (55 + n)

def pctEncode (plain : UInt8 → Bool) : Bytes → Bytes
  | [] => []
  | c :: r =>
    if plain c then c :: pctEncode plain r
    else 0x25 :: hexUpper (c.toNat / 16) :: hexUpper (c.toNat % 16) :: pctEncode plain r

def joinSep (sep : UInt8) : List Bytes → Bytes
  | [] => []
  | [s] => s
  | s :: r => s ++ sep :: joinSep sep r

/-- the path string of a request (without the leading '/'): the resource lookup key -/
def composePath (segs : List Bytes) : Bytes := joinSep 0x2f (segs.map (pctEncode pathPlain))
def composeQuery (segs : List Bytes) : Bytes := joinSep 0x26 (segs.map (pctEncode queryPlain))

/-! ### URI structure (RFC 3986 §3, RFC 7252 §6.1–6.4) -/

structure UriParts where
  scheme : Nat          -- index into the scheme table
  host : Bytes
  port : Nat
  path : Bytes          -- without the leading '/'
  query : Bytes         -- without the '?'
  deriving Repr, DecidableEq

/-- every '%' starts a percent-encoding -/
def escapesOk (s : Bytes) : Bool := (pctDecode s).isSome

def decimal (ds : Bytes) : Nat := ds.foldl (fun a c => a * 10 + (c.toNat - 48)) 0

/-- split `s` at the first byte satisfying `p`: (before, from that byte on) -/
def breakAt (p : UInt8 → Bool) : Bytes → Bytes × Bytes
  | [] => ([], [])
  | c :: r => if p c then ([], c :: r) else let (a, b) := breakAt p r; (c :: a, b)

/-- position of the first "://" : (scheme name, rest after it) -/
def findSchemeEnd : Bytes → Option (Bytes × Bytes)
  | [] => none
  | c :: r =>
    if c = 0x3a ∧ r.take 2 = [0x2f, 0x2f] then some ([], r.drop 2)
    else match findSchemeEnd r with
         | some (n, rest) => some (c :: n, rest)
         | none => none

/-- after the authority: optional "/path", optional "?query", nothing else; escapes well formed (D4) -/
def pathQuery (s : Bytes) : Option (Bytes × Bytes) :=
  let pr : Bytes × Bytes :=
    match s with
    | c :: r => if c = 0x2f then breakAt (· == 0x3f) r else ([], s)
    | [] => ([], [])
  match pr.2 with
  | [] => if escapesOk pr.1 then some (pr.1, []) else none
  | c :: q => if c = 0x3f ∧ escapesOk pr.1 ∧ escapesOk q then some (pr.1, q) else none

/-- host: `[` IPv6 literal `]` or a non-empty run up to ':' '/' '?' -/
def hostPart (s : Bytes) : Option (Bytes × Bytes) :=
  match s with
  | c :: r =>
    if c = 0x5b then
      let hr := breakAt (· == 0x5d) r
      match hr.2 with
      | _ :: rest' => if hr.1.isEmpty then none else some (hr.1, rest')
      | [] => none
    else
      let hr := breakAt (fun c => c == 0x3a || c == 0x2f || c == 0x3f) s
      if hr.1.isEmpty then none else some hr
  | [] => none

/-- [":" [digits]] : explicit port if digits are present (≤ 65535) -/
def portPart (s : Bytes) : Option (Option Nat × Bytes) :=
  match s with
  | c :: r =>
    if c = 0x3a then
      let dr := breakAt (fun c => !isDigit c) r
      if dr.1.isEmpty then some (none, dr.2)
      else if decimal dr.1 ≤ 65535 then some (some (decimal dr.1), dr.2) else none
    else some (none, s)
  | [] => some (none, [])

/-- `schemes`: (name, default port, proxy_only, id).  `proxy` = the string is a Proxy-Uri.
Hosts naming a Unix domain socket ("%2F…", a libcoap extension) are outside S (the check compares model and
code on them but not S). -/
def splitUri (schemes : List (Bytes × Nat × Bool × Nat)) (proxy : Bool) (s : Bytes) : Option UriParts :=
  match s with
  | [] => none
  | c :: _ =>
    if c = 0x2f then
      -- no scheme / authority: an absolute-path reference (not allowed as Proxy-Uri)
      if proxy then none else
      match pathQuery s with
      | some (p, q) => some ⟨0, [], 5683, p, q⟩
      | none => none
    else
      match findSchemeEnd s with
      | none => none
      | some (name, rest) =>
        match schemes.find? (fun e => e.1 == name) with
        | none => none
        | some (_, dport, proxyOnly, id) =>
          if proxyOnly && !proxy then none else
          match hostPart rest with
          | none => none
          | some (h, rest1) =>
            match portPart rest1 with
            | none => none
            | some (port, rest2) =>
              match pathQuery rest2 with
              | none => none
              | some (p, q) => some ⟨id, h, (match port with | some n => n | none => dport), p, q⟩

/-! ### the part of the input space S does not speak about (D16f) -/

/-- the authority starts with "%2F" / "%2f": libcoap's notation for a Unix domain socket in place of a host -/
def unixStart (p : Bytes) : Bool :=
  match p with
  | a :: b :: c :: _ => a == 0x25 && b == 0x32 && (c == 0x46 || c == 0x66)
  | _ => false

/-- SPEC DECISION D16f: the URI has a scheme and its authority starts with "%2F" / "%2f" -/
def unixAuthority (s : Bytes) : Bool :=
  match s with
  | [] => false
  | c :: _ =>
    if c = 0x2f then false else
    match findSchemeEnd s with
    | some nr => unixStart nr.2
    | none => false

/-- D16f for a parsed host: "%2F…" or (from a bracketed literal) "/…" -/
def unixHost (h : Bytes) : Bool := unixStart h || h.head? == some 0x2f

/-! ### RFC 7252 §6.4 steps 5–9: the options of a request for a parsed URI

-- SPEC DECISION D16g: Uri-Host carries the host percent-decoded and in ASCII lower case.  RFC 7252 §6.4 step 5 lower-cases
--   first and decodes then; the two orders differ only for a percent-encoded upper-case letter ("%41"), which a
--   normalised URI does not contain (RFC 3986 §6.2.2.2) and which names the same host either way (§3.2.2: the host
--   is case-insensitive).  The host is "the request's destination IP address as an IP-literal or IPv4address"
--   (step 5) iff its text — without an IPv6 zone identifier, RFC 6874 — equals the canonical text `dst` of the
--   destination address.  Step 7 compares the port with the destination port; S follows the property text
--   ("default ports are recognised"): Uri-Port is present iff the port is not the scheme's default. -/

def lowerAscii (c : UInt8) : UInt8 := if 65 ≤ c.toNat ∧ c.toNat ≤ 90 then UInt8.ofNat (c.toNat + 32) else c

/-- the address part of a host: everything before an IPv6 zone identifier ("%25eth0"; libcoap also takes "%eth0") -/
def hostAddr (h : Bytes) : Bytes := (breakAt (· == 0x25) h).1

/-- uint option value (RFC 7252 §3.2: big-endian, no leading zero bytes) of a 16-bit port -/
def portBytes (p : Nat) : Bytes :=
  if p = 0 then [] else if p < 256 then [UInt8.ofNat p] else [UInt8.ofNat (p / 256), UInt8.ofNat (p % 256)]

def schemeDefaultPort (schemes : List (Bytes × Nat × Bool × Nat)) (id : Nat) : Nat :=
  match schemes.find? (fun e => e.2.2.2 == id) with
  | some e => e.2.1
  | none => 5683

/-- step 5: Uri-Host unless the URI has no authority or the host is the destination address literal;
`none` = the host has a malformed escape (outside S, D4) -/
def hostOption (dst host : Bytes) : Option (List (Nat × Bytes)) :=
  if host = [] ∨ hostAddr host = dst then some []
  else match pctDecode host with
       | some h => some [(3, h.map lowerAscii)]
       | none => none

/-- steps 6/7 -/
def portOption (schemes : List (Bytes × Nat × Bool × Nat)) (scheme port : Nat) : List (Nat × Bytes) :=
  if port ≠ schemeDefaultPort schemes scheme then [(7, portBytes port)] else []

/-- step 8: no Uri-Path for an empty path (or a single slash) -/
def pathOptions (path : Bytes) : Option (List Bytes) := if path = [] then some [] else splitPath path
/-- step 9 -/
def queryOptions (query : Bytes) : Option (List Bytes) := if query = [] then some [] else splitQuery query

/-- (option number, value) in the order of the steps; `dst` = text of the request's destination address.
`none` = outside S (Unix-socket host D16f, malformed escape D4/D16a). -/
def uriOptions (schemes : List (Bytes × Nat × Bool × Nat)) (dst : Bytes) (u : UriParts) : Option (List (Nat × Bytes)) :=
  if unixHost u.host then none else
  match hostOption dst u.host, pathOptions u.path, queryOptions u.query with
  | some ho, some ps, some qs =>
    some (ho ++ portOption schemes u.scheme u.port ++ ps.map (fun v => (11, v)) ++ qs.map (fun v => (15, v)))
  | _, _, _ => none

end Coap.Spec.Uri
