import CoapVerif.Spec.Codec
/-
S — what a CoAP server endpoint does with ONE request datagram, written from the property text of C10 and from
RFC 7252 §4.2/§4.3 (ACK/RST, empty messages), §5.4.1 (critical/elective), §5.4.5 (repeatable), §5.7.2 (5.05), §5.8
(methods, 4.05, DELETE 2.02), §5.10.1 (Uri-Path), §5.10.8.2 (If-None-Match 4.12), §8.1 (multicast: NON only, no RST in
reply to a multicast NON), RFC 7967 (No-Response), RFC 8768 (Hop-Limit 5.08 / 4.00), RFC 8132 §2.3.1 (FETCH 4.15),
RFC 8974 §2.2.2 (over-long token: 4.00 or Reset), RFC 7641 §3.1/§4.2 (Observe in the response only with 2.xx).

The application handler is an INPUT: every request carries the scripted verdict (code, payload) that the handler
registered for the selected resource and method applies to the response it is given.

SPEC DECISIONS
 D1  Precedence.  When several error conditions hold at once the RFCs do not rank them; S ranks them
     code class → option check → token size → multicast type → Proxy-Scheme without Uri-Host → proxy support →
     Hop-Limit → resource selection → OSCORE-only → If-None-Match → method → FETCH Content-Format → per-resource multicast.
 D2  "Recognised" critical options are RFC 7252's (If-Match, Uri-Host, If-None-Match, Uri-Port, Uri-Path, Uri-Query,
     Accept, Proxy-Uri, Proxy-Scheme), Block1/Block2 (RFC 7959) and whatever the application registered.  OSCORE (9) and
     Q-Block1/2 (19, 31) are not recognised in the modelled configuration (no OSCORE context, Q-Block not enabled), so
     their repeatability never matters.  A request carrying a *registered* OSCORE option is out of scope (coap_oscore.c).
 D3  An unrecognised critical option that is Safe-to-Forward (bit 1 clear) in a request that carries Proxy-Uri /
     Proxy-Scheme is tolerated when a proxy resource exists (it is the next hop's business) — unless the request turns out
     to be addressed to this endpoint itself, then 4.02.
 D4  Diagnostic content.  The RFCs fix type, code, message id and token of a library-generated reply (error responses,
     Reset, empty ACK); options and diagnostic payload are not constrained by S (`erase`).  For a reply filled in by the
     application handler everything is fixed: "what it sets is what is sent".
 D5  A multicast request that is not Non-confirmable is ignored (RFC 7252 §8.1 requires NON) — but only once its options
     have been checked: a Confirmable multicast request with a bad option still gets 4.02 (the RFC is silent).
 D6  Multicast suppression: without per-resource multicast configuration every reply of class > 2.xx to a multicast
     request is suppressed unless a No-Response option explicitly asks for it (RFC 7967 §2.1); with per-resource
     configuration the resource's flags decide.  Library-generated errors raised before a resource is selected count as
     "no resource".
 D7  The handler sees the request's Uri-Path, Uri-Query, payload and options; Hop-Limit is decremented (RFC 8768 §3) and
     the M bit of a Block2 option in a request is cleared (RFC 7959 §2.2: it has no function there).
 D8  Requests whose handler verdict is 5.08 are out of scope (coap_send_internal treats every 5.08 as a proxy return
     path, RFC 8768 §4); proxy forwarding itself is out of scope: the proxy resource's handler is an application handler
     like any other, its reply is the separate response (Empty ACK first, then CON) that libcoap prescribes for proxying.
 D9  Non-request codes with a valid class (Empty, responses) are out of scope here (C07).
 D10 An invalid response code class (1.xx, 6.xx, 7.xx on UDP) set by the handler cannot be sent: no reply at all.
 D11 Deferred responses (RFC 7252 §5.2.2).  A handler may defer its response (coap_register_async); from then on a
     request of the SAME peer with the SAME token that passes the message-level checks is a retransmission of the
     deferred one (RFC 7252 §5.3.1: a token identifies a request per endpoint pair; §4.5 duplicates): a Confirmable one
     is acknowledged again with an Empty ACK, nothing else is sent and no handler runs.  Requests of other peers, or
     with another token, are not affected by pending deferred requests.  The deferred response itself is out of scope.
 D12 Deduplication (RFC 7252 §4.5) is only prescribed where libcoap does it: a Confirmable request that would be handed
     to the proxy handler and repeats the message id of the same peer's previous such request is acknowledged again
     (Empty ACK) and not processed again.  Elsewhere every datagram is processed on its own ("for each request datagram").
-/
namespace Coap.Server

abbrev Opts := List (Nat × Bytes)

/-- an ordinary resource: registered path, handler present for method m iff bit m-1 of `mask`, libcoap flag word -/
structure Res where
  path : Bytes
  mask : Nat
  flags : Nat
  observable : Bool
  deriving DecidableEq, Repr

/-- the unknown-resource handler set -/
structure Special where
  mask : Nat
  flags : Nat
  deriving DecidableEq, Repr

/-- the proxy-URI resource with the one host name this endpoint answers to -/
structure Proxy where
  mask : Nat
  flags : Nat
  name : Bytes
  deriving DecidableEq, Repr

structure Table where
  unk : Option Special
  prx : Option Proxy
  res : List Res
  deriving DecidableEq, Repr

structure Cfg where
  /-- coap_mcast_per_resource() -/
  mpr : Bool
  /-- context max token size (8 = no RFC 8974 support) -/
  mts : Nat
  /-- option numbers the application registered as understood -/
  known : List Nat
  deriving DecidableEq, Repr

/-- what the application handler does with the response it is handed: set `code` unless 0, add `payload` unless empty -/
structure Verdict where
  code : Nat
  payload : Bytes
  deriving DecidableEq, Repr

/-- oracle for coap_split_proxy_uri (C16's subject) on the request's Proxy-Uri value -/
inductive PU where
  | absent
  | bad
  | ok (host path : Bytes)
  deriving DecidableEq, Repr

structure Request where
  mcast : Bool
  msg : Msg
  verdict : Verdict
  pu : PU
  deriving DecidableEq, Repr

inductive Body where
  | bytes (b : Bytes)
  /-- the link-format listing of /.well-known/core (C20's subject), opaque here -/
  | wellknown
  deriving DecidableEq, Repr

/-- who produced the content of a reply -/
inductive Src where
  | lib   -- library generated: error response, Reset, empty ACK (D4)
  | app   -- filled in by a handler
  deriving DecidableEq, Repr

structure Reply where
  src : Src
  type : Nat
  code : Nat
  mid : Nat
  token : Bytes
  opts : Opts
  body : Body
  deriving DecidableEq, Repr

inductive Who where
  | res (i : Nat)
  | unk
  | prx
  deriving DecidableEq, Repr

/-- one application handler invocation and the request view it got -/
structure Call where
  who : Who
  code : Nat
  path : Bytes
  query : Bytes
  opts : Opts
  payload : Bytes
  deriving DecidableEq, Repr

structure Outcome where
  inScope : Bool
  replies : List Reply
  call : Option Call
  deriving DecidableEq, Repr

def Outcome.nothing : Outcome := ⟨true, [], none⟩
def Outcome.outOfScope : Outcome := ⟨false, [], none⟩

/-- D4 -/
def Reply.erase (r : Reply) : Reply :=
  match r.src with
  | .lib => { r with opts := [], body := .bytes [] }
  | .app => r
def Outcome.erase (o : Outcome) : Outcome := { o with replies := o.replies.map Reply.erase }

/-! ### vocabulary -/

def hasOpt (os : Opts) (n : Nat) : Bool := os.any fun o => o.1 == n
def firstOpt (os : Opts) (n : Nat) : Option Bytes := (os.find? fun o => o.1 == n).map (·.2)

/-- big-endian unsigned integer of an option value (RFC 7252 §3.2 uint) -/
def uintOf (b : Bytes) : Nat := b.foldl (fun a x => a * 256 + x.toNat) 0

def inIvs (ivs : List (Nat × Nat)) (x : Nat) : Bool := ivs.any fun iv => decide (iv.1 ≤ x) && decide (x ≤ iv.2)

def codeClass (c : Nat) : Nat := c / 32
def isRequestCode (c : Nat) : Bool := decide (1 ≤ c) && decide (c ≤ 31)

def CON := 0
def NON := 1
def ACK := 2
def RST := 3

def hexUp (n : Nat) : UInt8 := UInt8.ofNat (if n < 10 then 48 + n else 55 + n)

/-- RFC 3986 percent-encoding of one segment with the given set of bytes left alone -/
def pctEncode (unesc : List (Nat × Nat)) (seg : Bytes) : Bytes :=
  seg.flatMap fun b => if inIvs unesc b.toNat then [b] else [37, hexUp (b.toNat / 16), hexUp (b.toNat % 16)]

def joinWith (sep : UInt8) : List Bytes → Bytes
  | [] => []
  | [a] => a
  | a :: r => a ++ sep :: joinWith sep r

/-- ".well-known/core" -/
def wellKnownCore : Bytes := [46, 119, 101, 108, 108, 45, 107, 110, 111, 119, 110, 47, 99, 111, 114, 101]

def handlerBit (mask code : Nat) : Bool := decide (1 ≤ code) && decide (code ≤ 7) && (mask / 2 ^ (code - 1) % 2 == 1)
def flag (flags bit : Nat) : Bool := flags / bit % 2 == 1

def F_HAS_MCAST := 8
def F_DIS_MCAST_DELAYS := 16
def F_SUPPRESS_2_05 := 32
def F_SUPPRESS_2_XX := 64
def F_DIS_SUPPRESS_4_XX := 128
def F_DIS_SUPPRESS_5_XX := 256
def F_OSCORE_ONLY := 1024
def F_HANDLE_WKC := 2048

/-- the resource a request is mapped to -/
inductive Sel where
  | res (i : Nat) (r : Res)
  | unk (s : Special)
  | prx (p : Proxy)
  | wk
  deriving DecidableEq, Repr

def Sel.mask : Sel → Nat
  | .res _ r => r.mask | .unk s => s.mask | .prx p => p.mask | .wk => 1
def Sel.flags : Sel → Nat
  | .res _ r => r.flags | .unk s => s.flags | .prx p => p.flags | .wk => F_HAS_MCAST
/-- an existing resource in the sense of If-None-Match -/
def Sel.exists_ : Sel → Bool
  | .res _ _ => true | .wk => true | _ => false
def Sel.observable : Sel → Bool
  | .res _ r => r.observable | _ => false
def Sel.isPrx : Sel → Bool
  | .prx _ => true | _ => false
def Sel.who : Sel → Option Who
  | .res i _ => some (.res i) | .unk _ => some .unk | .prx _ => some .prx | .wk => none

def findRes : List Res → Bytes → Nat → Option (Nat × Res)
  | [], _, _ => none
  | r :: rs, p, i => if r.path = p then some (i, r) else findRes rs p (i + 1)

/-! ### option value formats and the request view (D7) — shared by M and S -/
def minimalUint : (fuel : Nat) → Nat → Bytes
  | 0, _ => []
  | f + 1, v => if v = 0 then [] else minimalUint f (v / 256) ++ [UInt8.ofNat (v % 256)]

def lastByte (b : Bytes) : Nat := match b.getLast? with | some x => x.toNat | none => 0
/-- RFC 7959 §2.2 on a datagram transport (SZX 7 is reserved there): NUM, M, SZX -/
def block (v : Bytes) : Option (Nat × Bool × Nat) :=
  if lastByte v % 8 = 7 then none else some (uintOf v / 16, lastByte v / 8 % 2 == 1, lastByte v % 8)

def clearBlock2M : Opts → Opts
  | [] => []
  | (n, v) :: r =>
    if n = 23 then
      match block v with
      | some (num, true, szx) => (23, minimalUint 4 (num * 16 + szx)) :: r
      | _ => (n, v) :: r
    else (n, v) :: clearBlock2M r

def setHop (h : Nat) : Opts → Opts
  | [] => []
  | (n, v) :: r => if n = 16 then (16, minimalUint 8 h) :: r else (n, v) :: setHop h r

/-! ### message-format rules applied to a prepared response — shared by M and S -/
/-- RFC 7252 §4.1: an Empty message has no token, options or payload -/
def emptied (r : Reply) : Reply := { r with code := 0, token := [], opts := [], body := .bytes [] }
/-- RFC 7641 §3.1/§4.2: the Observe option only accompanies a 2.xx response -/
def stripObserve (observe : Bool) (x : Reply) : Reply :=
  if codeClass x.code ≠ 2 ∧ observe then { x with opts := x.opts.filter (·.1 != 6) } else x
/-- a piggybacked response nobody filled in is the Empty ACK -/
def ackStrip (x : Reply) : Reply := if x.type = ACK ∧ x.code = 0 then emptied x else x

/-- result of the stage that precedes resource selection: an error response `code` (with the flags of the resource
it is attributed to, if any), silence, or go on with (still a proxy request, request view, path) -/
inductive Pre where
  | fail (code : Nat) (fl : Option Nat)
  | ignore
  | go (isProxy : Bool) (os : Opts) (path : Bytes)
  deriving DecidableEq, Repr

/-! ### several datagrams at one context — shared by M and S
What a request can find of its predecessors (fresh context, UDP, block mode 0, nothing but requests received):
deferred responses (`context->async_state`: session + token) and the message id of the last Confirmable request handed
to the proxy handler (`session->last_con_mid`).  A peer (source address) is one libcoap session. -/
structure Hist where
  /-- (peer, token) of the requests whose response the application has deferred -/
  pend : List (Nat × Bytes)
  /-- (peer, message id) of Confirmable requests handed to the proxy handler, newest first -/
  lastCon : List (Nat × Nat)
  deriving DecidableEq, Repr

def Hist.empty : Hist := ⟨[], []⟩

/-- one datagram: who sent it, whether the handler (if one runs) defers its response (then `rq.verdict` is ⟨0, []⟩:
it sets nothing now), the request -/
structure Ev where
  peer : Nat
  defer : Bool
  rq : Request
  deriving DecidableEq, Repr

def Hist.hit (h : Hist) (ev : Ev) : Bool := h.pend.contains (ev.peer, ev.rq.msg.token)
def Hist.dup (h : Hist) (ev : Ev) : Bool := h.lastCon.lookup ev.peer == some ev.rq.msg.mid

/-- session->last_con_mid = pdu->mid on the early-ACK path: exactly when the proxy handler got a Confirmable request -/
def Hist.noteCon (h : Hist) (ev : Ev) (o : Outcome) : Hist :=
  match o.call with
  | some c => if c.who = .prx ∧ ev.rq.msg.type = CON then { h with lastCon := (ev.peer, ev.rq.msg.mid) :: h.lastCon } else h
  | none => h

/-- the history after a datagram whose outcome was `o` -/
def Hist.after (h : Hist) (ev : Ev) (o : Outcome) : Hist :=
  let h1 := h.noteCon ev o
  -- the deferring handler called coap_register_async()
  if ev.defer ∧ o.call.isSome then { h1 with pend := (ev.peer, ev.rq.msg.token) :: h1.pend } else h1

/-- outcomes of a sequence of datagrams under the decision function `dec hit dup rq` -/
def seqRun (dec : Bool → Bool → Request → Outcome) : Hist → List Ev → List Outcome
  | _, [] => []
  | h, ev :: r => let o := dec (h.hit ev) (h.dup ev) ev.rq; o :: seqRun dec (h.after ev o) r

def seqFinal (dec : Bool → Bool → Request → Outcome) : Hist → List Ev → Hist
  | h, [] => h
  | h, ev :: r => seqFinal dec (h.after ev (dec (h.hit ev) (h.dup ev) ev.rq)) r

end Coap.Server

/-! ## S -/
namespace Coap.Server.S
open Coap.Server

/-- the bytes a reconstructed path / query string leaves unescaped.  RFC 3986 fixes what MUST be escaped
(`Esc.legal`); inside that the implementation chooses (it may escape more, e.g. `&` inside a query value). -/
structure Esc where
  path : List (Nat × Nat)
  query : List (Nat × Nat)
  deriving DecidableEq, Repr

/-- RFC 3986 §3.3 pchar without pct-encoded: unreserved / sub-delims / ":" / "@" -/
def pchar (c : Nat) : Bool :=
  (65 ≤ c && c ≤ 90) || (97 ≤ c && c ≤ 122) || (48 ≤ c && c ≤ 57) ||
  [45, 46, 95, 126, 33, 36, 38, 39, 40, 41, 42, 43, 44, 59, 61, 58, 64].contains c
/-- RFC 3986 §3.4 query = *( pchar / "/" / "?" ) -/
def qchar (c : Nat) : Bool := pchar c || c == 47 || c == 63

def Esc.legal (e : Esc) : Prop := ∀ c, c < 256 → (inIvs e.path c = true → pchar c = true) ∧ (inIvs e.query c = true → qchar c = true)

/-- maximal runs of consecutive numbers of an increasing list, as inclusive intervals -/
def runs : List Nat → List (Nat × Nat)
  | [] => []
  | x :: r =>
    match runs r with
    | (a, b) :: t => if x + 1 = a then (x, b) :: t else (x, x) :: (a, b) :: t
    | [] => [(x, x)]

/-- the part of an escape choice that RFC 3986 allows: whatever `e` leaves alone although it MUST be escaped is escaped.
For a legal `e` this is `e` itself (in canonical interval form).  The executable S of the differential run uses the
restriction of the implementation's choice, so an implementation that leaves an illegal byte (say 0x00) unescaped
contradicts S on a concrete request. -/
def Esc.restrict (e : Esc) : Esc :=
  ⟨runs ((List.range 256).filter fun c => inIvs e.path c && pchar c),
   runs ((List.range 256).filter fun c => inIvs e.query c && qchar c)⟩

/-- coap_resource(3): the handlers the resource constructors register by themselves (bit m-1 = method m) —
coap_resource_init: none; coap_resource_unknown_init[2]: "put_handler is automatically added to the resource to handle
PUT requests"; coap_resource_proxy_uri_init[2]: "proxy_handler is automatically added to the resource to handle
PUT/POST/GET etc. requests … There is no need to add explicit request type handlers" -/
def docPresetRes : Nat := 0
def docPresetUnk : Nat := 4   -- PUT = method 3
def docPresetPrx : Nat := 127

/-- RFC 7252 §5.10.1: the path is the Uri-Path values, percent-encoded, joined by "/" -/
def uriPath (e : Esc) (os : Opts) : Bytes := joinWith 47 ((os.filter fun o => o.1 == 11).map fun o => pctEncode e.path o.2)
def uriQuery (e : Esc) (os : Opts) : Bytes := joinWith 38 ((os.filter fun o => o.1 == 15).map fun o => pctEncode e.query o.2)

/-- RFC 7252 §12.1.1: classes 0 (requests / Empty), 2, 3, 4, 5; 7.xx only exists on reliable transports (RFC 8323) -/
def validCode (c : Nat) : Bool := decide (c ≤ 31) || (decide (64 ≤ c) && decide (c ≤ 191))

/-- D2 -/
def recognisedCritical : List Nat := [1, 3, 5, 7, 11, 15, 17, 23, 27, 35, 39]
/-- RFC 7252 Table 4 (no "R"), RFC 7641, 7959, 7967, 8613, 8768, 9175: options defined as non-repeatable -/
def nonRepeatable : List Nat := [3, 5, 6, 7, 9, 12, 14, 16, 17, 23, 27, 28, 35, 39, 60, 252, 258]

def recognised (cfg : Cfg) (n : Nat) : Bool :=
  n != 19 && n != 31 && (recognisedCritical.contains n || cfg.known.contains n)

/-- D3: unrecognised, critical, Safe-to-Forward, in a request for a proxy that exists -/
def tolerated (cfg : Cfg) (fwd : Bool) (n : Nat) : Bool :=
  n % 2 == 1 && !recognised cfg n && n != 19 && n != 31 && (n / 2 % 2 == 0 && fwd)

def unknownCritical (cfg : Cfg) (fwd : Bool) (n : Nat) : Bool :=
  n % 2 == 1 && !recognised cfg n && !tolerated cfg fwd n

/-- RFC 7252 §5.4.5: a second instance of an option that is not repeatable (options arrive sorted by number) -/
def repeatFrom : Option Nat → List Nat → Bool
  | _, [] => false
  | last, n :: r => (last == some n && nonRepeatable.contains n) || repeatFrom (some n) r

def badOption (cfg : Cfg) (fwd : Bool) (os : Opts) : Bool :=
  (os.map (·.1)).any (unknownCritical cfg fwd) || repeatFrom none (os.map (·.1))

def respType (reqType : Nat) : Nat := if reqType = CON then ACK else NON

/-- library-generated message: only type, code, message id and token are prescribed (D4) -/
def lib (type code mid : Nat) (token : Bytes) : Reply := ⟨.lib, type, code, mid, token, [], .bytes []⟩
def errReply (m : Msg) (code : Nat) : Reply := lib (respType m.type) code m.mid m.token

/-! ### RFC 7967 + multicast suppression (D6) -/
/-- No-Response: some true = "not interested in this class", some false = "interested", none = no option -/
def noResponseSays (rq : Request) (cls : Nat) : Option Bool :=
  (firstOpt rq.msg.opts 258).map fun v => decide ((2 ^ (cls - 1)) &&& (uintOf v % 4294967296) > 0)

def mcastSuppressed (cfg : Cfg) (rq : Request) (resFlags : Option Nat) (r : Reply) : Bool :=
  let cls := codeClass r.code
  rq.mcast &&
  (match resFlags with
   | some fl =>
     if cfg.mpr then
       (flag fl F_SUPPRESS_2_XX && cls == 2) ||
       (!(flag fl F_SUPPRESS_2_XX && cls == 2) && flag fl F_SUPPRESS_2_05 && r.code == 69 && r.body == .bytes []) ||
       (!(flag fl F_SUPPRESS_2_05 && r.code == 69) && !flag fl F_DIS_SUPPRESS_4_XX && cls == 4) ||
       (!(flag fl F_SUPPRESS_2_05 && r.code == 69) && !flag fl F_DIS_SUPPRESS_5_XX && cls == 5)
     else decide (cls > 2)
   | none => decide (cls > 2))

/-- what is sent for the response `r` prepared for request `rq` -/
def deliver (cfg : Cfg) (rq : Request) (resFlags : Option Nat) (observe : Bool) (r : Reply) : List Reply :=
  let cls := codeClass r.code
  if cls = 0 then
    -- nothing was set: a Confirmable request still gets its (empty) ACK, a Non-confirmable one nothing
    if r.code = 0 ∧ r.type = NON then [] else [ackStrip (stripObserve observe r)]
  else
    match noResponseSays rq cls with
    | some true => if r.type = ACK then [emptied r] else []
    | some false => [stripObserve observe r]
    | none => if mcastSuppressed cfg rq resFlags r then [] else [stripObserve observe r]

/-! ### stages of request processing -/
/-- the host a proxy request names: Proxy-Uri's authority (oracle) or Uri-Host -/
def proxyHost (rq : Request) (os : Opts) : Option Bytes :=
  if hasOpt os 35 then (match rq.pu with | .ok h _ => some h | _ => none) else some ((firstOpt os 3).getD [])

/-- RFC 7252 §5.10.1 / §5.7.2: the path comes from the Uri-Path options, or from the Proxy-Uri -/
def pathOf (e : Esc) (rq : Request) (isProxy : Bool) (os : Opts) : Pre :=
  if hasOpt os 35 then (match rq.pu with | .ok _ p => .go isProxy os p | _ => .ignore)
  else .go isProxy os (uriPath e os)

/-- RFC 8768 §3: Hop-Limit 1 → 5.08, 0 → 4.00, else decrement; not for requests served as the proxy endpoint's own -/
def hopLimit (e : Esc) (rq : Request) (isProxy own : Bool) (os : Opts) : Pre :=
  if own then pathOf e rq isProxy os else
  match firstOpt os 16 with
  | none => pathOf e rq isProxy os
  | some v =>
    let h := uintOf v % 4294967296
    if h = 1 then .fail 168 none
    else if h < 1 ∨ h > 255 then .fail 128 none
    else pathOf e rq isProxy (setHop (h - 1) os)

/-- RFC 7252 §5.7.2: proxy options — 5.05 without proxy support; a request naming this endpoint itself is served
locally.  `tol`: an unrecognised critical option was tolerated for forwarding (D3). -/
def pre (e : Esc) (tbl : Table) (rq : Request) (tol : Bool) (os : Opts) : Pre :=
  let m := rq.msg
  if hasOpt os 39 ∧ ¬ hasOpt os 3 then .fail 130 none else
  if hasOpt os 39 ∨ hasOpt os 35 then
    match tbl.prx with
    | none => .fail 165 none
    | some p =>
      if 1 ≤ m.code ∧ m.code ≤ 7 ∧ ¬ handlerBit p.mask m.code then .fail 165 none else
      match proxyHost rq os with
      | none => .fail 165 none
      | some h =>
        if h.length ≠ 0 ∧ (p.name.length = 0 ∨ h = p.name) then
          if tol then .fail 130 (some p.flags) else hopLimit e rq false true os
        else hopLimit e rq true false os
  else hopLimit e rq false false os

/-- resource selection order: exact path → (proxy resource for proxy requests) → unknown handler flagged for
/.well-known/core → /.well-known/core → unknown handler → DELETE 2.02 → 4.04 -/
def select (tbl : Table) (code : Nat) (isProxy : Bool) (path : Bytes) : Nat ⊕ Sel :=
  if isProxy then (match tbl.prx with | some p => .inr (.prx p) | none => .inl 160) else
  match findRes tbl.res path 0 with
  | some x => .inr (.res x.1 x.2)
  | none =>
    let unkFor : Option Special := tbl.unk.bind fun u => if handlerBit u.mask code then some u else none
    match unkFor with
    | some u => if flag u.flags F_HANDLE_WKC then .inr (.unk u) else if path = wellKnownCore then .inr .wk else .inr (.unk u)
    | none => if path = wellKnownCore then .inr .wk else if code = 4 then .inl 66 else .inl 132

/-- 4.01 OSCORE-only, 4.12 If-None-Match on an existing resource, 4.05 no handler, 4.15 FETCH without Content-Format,
4.05 resource without multicast support -/
def precond (cfg : Cfg) (rq : Request) (os : Opts) (sel : Sel) : Option Nat :=
  if flag sel.flags F_OSCORE_ONLY then some 129
  else if sel.exists_ ∧ hasOpt os 5 then some 140
  else if ¬ handlerBit sel.mask rq.msg.code then some 133
  else if rq.msg.code = 5 ∧ ¬ hasOpt os 12 then some 143
  else if cfg.mpr ∧ ¬ flag sel.flags F_HAS_MCAST ∧ rq.mcast then some 133
  else none

/-- the request asks for a Block2 other than the first -/
def blockNonZero (os : Opts) : Bool :=
  match (firstOpt os 23).bind block with | some (num, _, _) => num != 0 | none => false

/-- the handler registered for `sel` and the method runs once with the request view; what it sets is what is sent.
`resp1`: the response it is handed (token echoed, Observe option if a registration was accepted). -/
def finish (e : Esc) (cfg : Cfg) (rq : Request) (os : Opts) (path : Bytes) (sel : Sel) (observe : Bool) (resp1 : Reply) : Outcome :=
  let m := rq.msg
  let fl := some sel.flags
  let early : Bool := sel.isPrx && m.type == CON          -- D8
  let pre : List Reply := if early then [lib ACK 0 m.mid []] else []
  match sel.who with
  | none => ⟨true, pre ++ deliver cfg rq fl observe { resp1 with code := 69, opts := [(12, [40])], body := .wellknown }, none⟩
  | some who =>
    let call : Call := ⟨who, m.code, path, uriQuery e os, os, m.payload⟩
    let code := if rq.verdict.code = 0 then resp1.code else rq.verdict.code
    let r : Reply := { resp1 with code := code, body := .bytes rq.verdict.payload, type := if early then CON else resp1.type }
    if ¬ validCode code then ⟨true, pre, some call⟩            -- D10
    else if early ∧ code = 0 then ⟨true, pre, some call⟩
    else ⟨true, pre ++ deliver cfg rq fl observe r, some call⟩

def run (e : Esc) (cfg : Cfg) (rq : Request) (os : Opts) (path : Bytes) (sel : Sel) : Outcome :=
  let m := rq.msg
  let resp0 : Reply := ⟨.app, respType m.type, 0, m.mid, m.token, [], .bytes []⟩
  let observe : Bool := sel.observable && (m.code == 1 || m.code == 5) && hasOpt os 6
  let establish : Bool := observe && (uintOf ((firstOpt os 6).getD []) % 4294967296 == 0)
  -- RFC 7641 §3.1 + RFC 7959 §2.4 (libcoap: registration only with block 0)
  let badBlock : Bool := establish && blockNonZero os
  if badBlock then ⟨true, deliver cfg rq (some sel.flags) observe { resp0 with src := .lib, code := 128 }, none⟩ else
  finish e cfg rq os path sel observe (if establish then { resp0 with opts := [(6, [2])] } else resp0)

/-- proxy / Hop-Limit stage → resource selection → preconditions → handler -/
def stages (e : Esc) (cfg : Cfg) (tbl : Table) (rq : Request) (tol : Bool) : Outcome :=
  let m := rq.msg
  match pre e tbl rq tol (clearBlock2M m.opts) with
  | .fail code fl => ⟨true, deliver cfg rq fl false (errReply m code), none⟩
  | .ignore => Outcome.nothing
  | .go isProxy os path =>
    match select tbl m.code isProxy path with
    | .inl code => ⟨true, deliver cfg rq none false (errReply m code), none⟩
    | .inr sel =>
      match precond cfg rq os sel with
      | some code => ⟨true, deliver cfg rq (some sel.flags) false (errReply m code), none⟩
      | none => run e cfg rq os path sel

def handle (e : Esc) (cfg : Cfg) (tbl : Table) (rq : Request) (tol : Bool) : Outcome :=
  if rq.mcast ∧ rq.msg.type ≠ NON then Outcome.nothing       -- D5
  else stages e cfg tbl rq tol

/-- S: the outcome prescribed for one request datagram -/
def serverSpec (e : Esc) (cfg : Cfg) (tbl : Table) (rq : Request) : Outcome :=
  let m := rq.msg
  if ¬ validCode m.code then ⟨true, if m.type = CON then [lib RST 0 m.mid []] else [], none⟩
  else if ¬ isRequestCode m.code then Outcome.outOfScope
  else if rq.verdict.code = 168 then Outcome.outOfScope
  else
  let fwd : Bool := tbl.prx.isSome && (hasOpt m.opts 35 || hasOpt m.opts 39)
  if badOption cfg fwd m.opts then
    if m.type = NON then ⟨true, if rq.mcast then [] else [lib RST 0 m.mid []], none⟩
    else if m.type = CON then ⟨true, [errReply m 130], none⟩
    else Outcome.nothing
  else if hasOpt m.opts 9 then Outcome.outOfScope
  else if m.type = ACK ∨ m.type = RST then Outcome.nothing
  else if m.token.length > cfg.mts then
    if cfg.mts > 8 then ⟨true, [errReply m 128], none⟩
    else ⟨true, if rq.mcast ∧ m.type = NON then [] else [lib RST 0 m.mid []], none⟩
  else handle e cfg tbl rq ((m.opts.map (·.1)).any (tolerated cfg fwd))

/-! ### a request that finds state left by earlier datagrams (D11, D12) -/
/-- `dup`: the message id repeats that of the peer's previous Confirmable request handed to the proxy handler -/
def runA (e : Esc) (dup : Bool) (cfg : Cfg) (rq : Request) (os : Opts) (path : Bytes) (sel : Sel) : Outcome :=
  if sel.isPrx ∧ rq.msg.type = CON ∧ dup then ⟨true, [lib ACK 0 rq.msg.mid []], none⟩      -- D12
  else run e cfg rq os path sel

def stagesA (e : Esc) (dup : Bool) (cfg : Cfg) (tbl : Table) (rq : Request) (tol : Bool) : Outcome :=
  let m := rq.msg
  match pre e tbl rq tol (clearBlock2M m.opts) with
  | .fail code fl => ⟨true, deliver cfg rq fl false (errReply m code), none⟩
  | .ignore => Outcome.nothing
  | .go isProxy os path =>
    match select tbl m.code isProxy path with
    | .inl code => ⟨true, deliver cfg rq none false (errReply m code), none⟩
    | .inr sel =>
      match precond cfg rq os sel with
      | some code => ⟨true, deliver cfg rq (some sel.flags) false (errReply m code), none⟩
      | none => runA e dup cfg rq os path sel

/-- `hit`: the response to a request of this peer with this token has been deferred and is still pending -/
def handleA (e : Esc) (hit dup : Bool) (cfg : Cfg) (tbl : Table) (rq : Request) (tol : Bool) : Outcome :=
  if rq.mcast ∧ rq.msg.type ≠ NON then Outcome.nothing       -- D5
  else if hit then ⟨true, if rq.msg.type = CON then [lib ACK 0 rq.msg.mid []] else [], none⟩   -- D11
  else stagesA e dup cfg tbl rq tol

def serverSpecA (e : Esc) (hit dup : Bool) (cfg : Cfg) (tbl : Table) (rq : Request) : Outcome :=
  let m := rq.msg
  if ¬ validCode m.code then ⟨true, if m.type = CON then [lib RST 0 m.mid []] else [], none⟩
  else if ¬ isRequestCode m.code then Outcome.outOfScope
  else if rq.verdict.code = 168 then Outcome.outOfScope
  else
  let fwd : Bool := tbl.prx.isSome && (hasOpt m.opts 35 || hasOpt m.opts 39)
  if badOption cfg fwd m.opts then
    if m.type = NON then ⟨true, if rq.mcast then [] else [lib RST 0 m.mid []], none⟩
    else if m.type = CON then ⟨true, [errReply m 130], none⟩
    else Outcome.nothing
  else if hasOpt m.opts 9 then Outcome.outOfScope
  else if m.type = ACK ∨ m.type = RST then Outcome.nothing
  else if m.token.length > cfg.mts then
    if cfg.mts > 8 then ⟨true, [errReply m 128], none⟩
    else ⟨true, if rq.mcast ∧ m.type = NON then [] else [lib RST 0 m.mid []], none⟩
  else handleA e hit dup cfg tbl rq ((m.opts.map (·.1)).any (tolerated cfg fwd))

/-- S for a sequence of datagrams received by one server, starting from history `h` -/
def seqSpec (e : Esc) (cfg : Cfg) (tbl : Table) : Hist → List Ev → List Outcome :=
  seqRun (fun hit dup rq => serverSpecA e hit dup cfg tbl rq)

end Coap.Server.S
