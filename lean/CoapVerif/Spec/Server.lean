import CoapVerif.Spec.Codec
/-
S — what a CoAP server endpoint does with ONE request datagram, written from the property text of C10 and from
RFC 7252 §4.2/§4.3 (ACK/RST, empty messages), §5.4.1 (critical/elective), §5.4.5 (repeatable), §5.7.2 (5.05), §5.8
(methods, 4.05, DELETE 2.02), §5.10.1 (Uri-Path), §5.10.8.2 (If-None-Match 4.12), §8.1 (multicast: NON only, no RST in
reply to a multicast NON), RFC 7967 (No-Response), RFC 8768 (Hop-Limit 5.08 / 4.00), RFC 8132 §2.3.1 (FETCH 4.15),
RFC 8974 §2.2.2 (over-long token: 4.00 or Reset), RFC 7641 §3.1/§4.2 (Observe in the response only with 2.xx).

The application handler is an INPUT: every request carries the scripted verdict (code, payload) that the handler
registered for the selected resource and method applies to the response it is given.

SPEC DECISIONS
 D1  Precedence.  When several error conditions hold at once the RFCs do not rank them; S ranks them
     code class → option check → token size → multicast type → Proxy-Scheme without Uri-Host → proxy support →
     Hop-Limit → resource selection → OSCORE-only → If-None-Match → method → FETCH Content-Format → per-resource multicast.
 D2  "Recognised" critical options are RFC 7252's (If-Match, Uri-Host, If-None-Match, Uri-Port, Uri-Path, Uri-Query,
     Accept, Proxy-Uri, Proxy-Scheme), Block1/Block2 (RFC 7959) and whatever the application registered.  OSCORE (9) and
     Q-Block1/2 (19, 31) are not recognised in the modelled configuration (no OSCORE context, Q-Block not enabled), so
     their repeatability never matters.  A request carrying a *registered* OSCORE option is out of scope (coap_oscore.c).
 D3  An unrecognised critical option that is Safe-to-Forward (bit 1 clear) in a request that carries Proxy-Uri /
     Proxy-Scheme is tolerated when a proxy resource exists (it is the next hop's business) — unless the request turns out
     to be addressed to this endpoint itself, then 4.02.
 D4  Diagnostic content.  The RFCs fix type, code, message id and token of a library-generated reply (error responses,
     Reset, empty ACK); options and diagnostic payload are not constrained by S (`erase`).  For a reply filled in by the
     application handler everything is fixed: "what it sets is what is sent".
 D5  A multicast request that is not Non-confirmable is ignored (RFC 7252 §8.1 requires NON) — but only once its options
     have been checked: a Confirmable multicast request with a bad option still gets 4.02 (the RFC is silent).
 D6  Multicast suppression: without per-resource multicast configuration every reply of class > 2.xx to a multicast
     request is suppressed unless a No-Response option explicitly asks for it (RFC 7967 §2.1); with per-resource
     configuration the resource's flags decide.  Library-generated errors raised before a resource is selected count as
     "no resource".
 D7  The handler sees the request's Uri-Path, Uri-Query, payload and options; Hop-Limit is decremented (RFC 8768 §3) and
     the M bit of a Block2 option in a request is cleared (RFC 7959 §2.2: it has no function there).
 D8  Requests whose handler verdict is 5.08 are out of scope (coap_send_internal treats every 5.08 as a proxy return
     path, RFC 8768 §4); proxy forwarding itself is out of scope: the proxy resource's handler is an application handler
     like any other, its reply is the separate response (Empty ACK first, then CON) that libcoap prescribes for proxying.
 D9  Non-request codes with a valid class (Empty, responses) are out of scope here (C07).
 D10 An invalid response code class (1.xx, 6.xx, 7.xx on UDP) set by the handler cannot be sent: no reply at all.
-/
namespace Coap.Server

abbrev Opts := List (Nat × Bytes)

/-- an ordinary resource: registered path, handler present for method m iff bit m-1 of `mask`, libcoap flag word -/
structure Res where
  path : Bytes
  mask : Nat
  flags : Nat
  observable : Bool
  deriving DecidableEq, Repr

/-- the unknown-resource handler set -/
structure Special where
  mask : Nat
  flags : Nat
  deriving DecidableEq, Repr

/-- the proxy-URI resource with the one host name this endpoint answers to -/
structure Proxy where
  mask : Nat
  flags : Nat
  name : Bytes
  deriving DecidableEq, Repr

structure Table where
  unk : Option Special
  prx : Option Proxy
  res : List Res
  deriving DecidableEq, Repr

structure Cfg where
  /-- coap_mcast_per_resource() -/
  mpr : Bool
  /-- context max token size (8 = no RFC 8974 support) -/
  mts : Nat
  /-- option numbers the application registered as understood -/
  known : List Nat
  deriving DecidableEq, Repr

/-- what the application handler does with the response it is handed: set `code` unless 0, add `payload` unless empty -/
structure Verdict where
  code : Nat
  payload : Bytes
  deriving DecidableEq, Repr

/-- oracle for coap_split_proxy_uri (C16's subject) on the request's Proxy-Uri value -/
inductive PU where
  | absent
  | bad
  | ok (host path : Bytes)
  deriving DecidableEq, Repr

structure Request where
  mcast : Bool
  msg : Msg
  verdict : Verdict
  pu : PU
  deriving DecidableEq, Repr

inductive Body where
  | bytes (b : Bytes)
  /-- the link-format listing of /.well-known/core (C20's subject), opaque here -/
  | wellknown
  deriving DecidableEq, Repr

/-- who produced the content of a reply -/
inductive Src where
  | lib   -- library generated: error response, Reset, empty ACK (D4)
  | app   -- filled in by a handler
  deriving DecidableEq, Repr

structure Reply where
  src : Src
  type : Nat
  code : Nat
  mid : Nat
  token : Bytes
  opts : Opts
  body : Body
  deriving DecidableEq, Repr

inductive Who where
  | res (i : Nat)
  | unk
  | prx
  deriving DecidableEq, Repr

/-- one application handler invocation and the request view it got -/
structure Call where
  who : Who
  code : Nat
  path : Bytes
  query : Bytes
  opts : Opts
  payload : Bytes
  deriving DecidableEq, Repr

structure Outcome where
  inScope : Bool
  replies : List Reply
  call : Option Call
  deriving DecidableEq, Repr

def Outcome.nothing : Outcome := ⟨true, [], none⟩
def Outcome.outOfScope : Outcome := ⟨false, [], none⟩

/-- D4 -/
def Reply.erase (r : Reply) : Reply :=
  match r.src with
  | .lib => { r with opts := [], body := .bytes [] }
  | .app => r
def Outcome.erase (o : Outcome) : Outcome := { o with replies := o.replies.map Reply.erase }

/-! ### vocabulary -/

def hasOpt (os : Opts) (n : Nat) : Bool := os.any fun o => o.1 == n
def firstOpt (os : Opts) (n : Nat) : Option Bytes := (os.find? fun o => o.1 == n).map (·.2)

/-- big-endian unsigned integer of an option value (RFC 7252 §3.2 uint) -/
def uintOf (b : Bytes) : Nat := b.foldl (fun a x => a * 256 + x.toNat) 0

def inIvs (ivs : List (Nat × Nat)) (x : Nat) : Bool := ivs.any fun iv => decide (iv.1 ≤ x) && decide (x ≤ iv.2)

def codeClass (c : Nat) : Nat := c / 32
def isRequestCode (c : Nat) : Bool := decide (1 ≤ c) && decide (c ≤ 31)

def CON := 0
def NON := 1
def ACK := 2
def RST := 3

def hexUp (n : Nat) : UInt8 := UInt8.ofNat (if n < 10 then 48 + n else 55 + n)

/-- RFC 3986 percent-encoding of one segment with the given set of bytes left alone -/
def pctEncode (unesc : List (Nat × Nat)) (seg : Bytes) : Bytes :=
  seg.flatMap fun b => if inIvs unesc b.toNat then [b] else [37, hexUp (b.toNat / 16), hexUp (b.toNat % 16)]

def joinWith (sep : UInt8) : List Bytes → Bytes
  | [] => []
  | [a] => a
  | a :: r => a ++ sep :: joinWith sep r

def wellKnownCore : Bytes := ".well-known/core".toUTF8.toList

def handlerBit (mask code : Nat) : Bool := decide (1 ≤ code) && decide (code ≤ 7) && (mask / 2 ^ (code - 1) % 2 == 1)
def flag (flags bit : Nat) : Bool := flags / bit % 2 == 1

def F_HAS_MCAST := 8
def F_DIS_MCAST_DELAYS := 16
def F_SUPPRESS_2_05 := 32
def F_SUPPRESS_2_XX := 64
def F_DIS_SUPPRESS_4_XX := 128
def F_DIS_SUPPRESS_5_XX := 256
def F_OSCORE_ONLY := 1024
def F_HANDLE_WKC := 2048

/-- the resource a request is mapped to -/
inductive Sel where
  | res (i : Nat) (r : Res)
  | unk (s : Special)
  | prx (p : Proxy)
  | wk
  deriving DecidableEq, Repr

def Sel.mask : Sel → Nat
  | .res _ r => r.mask | .unk s => s.mask | .prx p => p.mask | .wk => 1
def Sel.flags : Sel → Nat
  | .res _ r => r.flags | .unk s => s.flags | .prx p => p.flags | .wk => F_HAS_MCAST
/-- an existing resource in the sense of If-None-Match -/
def Sel.exists_ : Sel → Bool
  | .res _ _ => true | .wk => true | _ => false
def Sel.observable : Sel → Bool
  | .res _ r => r.observable | _ => false
def Sel.isPrx : Sel → Bool
  | .prx _ => true | _ => false
def Sel.who : Sel → Option Who
  | .res i _ => some (.res i) | .unk _ => some .unk | .prx _ => some .prx | .wk => none

def findRes : List Res → Bytes → Nat → Option (Nat × Res)
  | [], _, _ => none
  | r :: rs, p, i => if r.path = p then some (i, r) else findRes rs p (i + 1)

end Coap.Server
