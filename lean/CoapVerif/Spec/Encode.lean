import CoapVerif.Spec.Codec
/-
S — the encoder side of the wire-format specification and the abstract semantics of the
PDU-building / PDU-editing API (properties C01 and C04).  Written from RFC 7252 §3, RFC 8323 §3,
RFC 8974 §2.1 and the property texts.  Nothing here is taken from libcoap's code.

SPEC DECISIONS
 D2  "a message assembled through the API" excludes an Empty (0.00) message that was given a
     token, options or a payload: RFC 7252 §4.1 makes that malformed by definition (`WF` demands
     that everything is empty when the code is 0.00).
 D3  on reliable transports `type` and `mid` do not exist on the wire: the round trip is stated
     modulo `onWire` (type := CON, mid := 0).
 D13 RFC 8768 §3: a request that carries Proxy-Uri or Proxy-Scheme should carry Hop-Limit.  The
     abstract "add option" is therefore allowed to add Hop-Limit = 16 together with a Proxy-Uri /
     Proxy-Scheme option of a request that has no Hop-Limit yet (`addSem` with `hop = true`);
     nothing else may appear that the caller did not add.
 D14 the API may refuse any call (illegal repetition, space exhausted, payload already present,
     value longer than the wire format can carry); a refused call must leave the abstract message
     unchanged.  *Which* calls are refused is not constrained by C01/C04, except that a legal
     repetition is never refused for being a repetition (`nonRepeatable` below is the RFCs' list).
 D15 WebSocket framing (RFC 8323 §4.2): the sender sets Len = 0.
-/
namespace Coap
namespace Spec

/-- the 4-bit field of the 13/14 scheme for a value -/
def nib (v : Nat) : Nat := if v < 13 then v else if v < 269 then 13 else 14

/-- the extension bytes of the 13/14 scheme for a value (network byte order) -/
def extBytes (v : Nat) : Bytes :=
  if v < 13 then []
  else if v < 269 then [UInt8.ofNat (v - 13)]
  else [UInt8.ofNat ((v - 269) / 256), UInt8.ofNat ((v - 269) % 256)]

/-- one option with the given delta to its predecessor (RFC 7252 §3.1) -/
def encOpt (delta : Nat) (val : Bytes) : Bytes :=
  UInt8.ofNat (nib delta * 16 + nib val.length) :: (extBytes delta ++ (extBytes val.length ++ val))

/-- the option list, running deltas starting from option number `prev` -/
def encOpts (prev : Nat) : List (Nat × Bytes) → Bytes
  | [] => []
  | o :: os => encOpt (o.1 - prev) o.2 ++ encOpts o.1 os

/-- payload marker + payload, or nothing (a marker is never followed by zero bytes) -/
def encPayload (pl : Bytes) : Bytes := if pl = [] then [] else 0xFF :: pl

/-- token field: RFC 8974 extension bytes + token -/
def encToken (tok : Bytes) : Bytes := extBytes tok.length ++ tok

/-- what follows the token -/
def encRest (m : Msg) : Bytes := encOpts 0 m.opts ++ encPayload m.payload

/-- RFC 8323 §3.2: first byte (Len nibble, TKL nibble) and extended length -/
def tcpHdr (tkl len : Nat) : Bytes :=
  if len < 13 then [UInt8.ofNat (len * 16 + tkl)]
  else if len < 269 then [UInt8.ofNat (13 * 16 + tkl), UInt8.ofNat (len - 13)]
  else if len < 65805 then [UInt8.ofNat (14 * 16 + tkl), UInt8.ofNat ((len - 269) / 256), UInt8.ofNat ((len - 269) % 256)]
  else [UInt8.ofNat (15 * 16 + tkl), UInt8.ofNat ((len - 65805) / 16777216), UInt8.ofNat ((len - 65805) / 65536 % 256),
        UInt8.ofNat ((len - 65805) / 256 % 256), UInt8.ofNat ((len - 65805) % 256)]

def encode (p : Proto) (m : Msg) : Bytes :=
  match p with
  | .udp => [UInt8.ofNat (64 + m.type * 16 + nib m.token.length), UInt8.ofNat m.code,
             UInt8.ofNat (m.mid / 256), UInt8.ofNat (m.mid % 256)] ++ (encToken m.token ++ encRest m)
  | .tcp => tcpHdr (nib m.token.length) (encRest m).length ++ (UInt8.ofNat m.code :: (encToken m.token ++ encRest m))
  | .ws => [UInt8.ofNat (nib m.token.length), UInt8.ofNat m.code] ++ (encToken m.token ++ encRest m)

/-- options in ascending number order starting at `prev`, numbers ≤ 65535, every value within
what the wire format can carry and within the RFC length limits of its option -/
def optsOk (code : Nat) : Nat → List (Nat × Bytes) → Bool
  | _, [] => true
  | prev, o :: os =>
    decide (prev ≤ o.1) && decide (o.1 ≤ 65535) && decide (o.2.length ≤ 65804) && optLenOk code o.1 o.2.length &&
      optsOk code o.1 os

/-- well-formed abstract message for a framing (decidable) -/
def WF (p : Proto) (m : Msg) : Prop :=
  m.type < 4 ∧ m.code < 256 ∧ m.mid < 65536 ∧ m.token.length ≤ 65804 ∧ optsOk m.code 0 m.opts = true ∧
  (m.code = 0 → m.token = [] ∧ m.opts = [] ∧ m.payload = []) ∧                      -- D2
  (p = .tcp → (encRest m).length < 65805 + 4294967296)                             -- 32-bit extended length

instance (p : Proto) (m : Msg) : Decidable (WF p m) := by unfold WF; infer_instance

/-- D3: what of a message exists on the wire of a framing -/
def onWire (p : Proto) (m : Msg) : Msg :=
  match p with
  | .udp => m
  | _ => { m with type := 0, mid := 0 }

/-! ### abstract semantics of the API (C01: build, C04: edit) on the ordered option list -/

/-- an option goes after all options whose number is ≤ its number -/
def insertStable (n : Nat) (v : Bytes) : List (Nat × Bytes) → List (Nat × Bytes)
  | [] => [(n, v)]
  | o :: os => if o.1 ≤ n then o :: insertStable n v os else (n, v) :: o :: os

/-- replace the value of the first option numbered `n` -/
def replaceFirst (n : Nat) (v : Bytes) : List (Nat × Bytes) → List (Nat × Bytes)
  | [] => []
  | o :: os => if o.1 = n then (n, v) :: os else o :: replaceFirst n v os

/-- remove the first option numbered `n` -/
def removeFirst (n : Nat) : List (Nat × Bytes) → List (Nat × Bytes)
  | [] => []
  | o :: os => if o.1 = n then os else o :: removeFirst n os

def hasOpt (n : Nat) (os : List (Nat × Bytes)) : Bool := os.any fun o => o.1 == n

/-- "update": replace the first option with that number, insert it if there is none -/
def updateFirst (n : Nat) (v : Bytes) (os : List (Nat × Bytes)) : List (Nat × Bytes) :=
  if hasOpt n os then replaceFirst n v os else insertStable n v os

/-- D13: may Hop-Limit be added implicitly together with option `n`? -/
def hopApplies (code n : Nat) (os : List (Nat × Bytes)) : Bool :=
  decide (1 ≤ code) && decide (code < 32) && (n == 35 || n == 39) && !hasOpt 16 os

/-- the abstract "add": stable insertion, with the implicit Hop-Limit when `hop` (D13) -/
def addSem (hop : Bool) (n : Nat) (v : Bytes) (os : List (Nat × Bytes)) : List (Nat × Bytes) :=
  insertStable n v (if hop then insertStable 16 [16] os else os)

/-- options that the RFCs define as not repeatable (RFC 7252 Table 4, 7641, 7959, 7967, 8613, 8768,
9175, 9177); D14: only these may be refused for being a repetition -/
def nonRepeatable : List Nat := [3, 5, 6, 7, 9, 12, 14, 16, 17, 19, 23, 27, 28, 31, 35, 39, 60, 252, 258]

/-- edits of C04 on the abstract message -/
inductive Edit where
  | insert (n : Nat) (v : Bytes)
  | update (n : Nat) (v : Bytes)
  | remove (n : Nat)
  | setToken (t : Bytes)
  deriving Repr, DecidableEq

/-- The abstract edit (as performed when the API accepts the call).  `hop` says whether D13's
implicit Hop-Limit accompanies an insertion. -/
def applyEdit (hop : Bool) (m : Msg) : Edit → Msg
  | .insert n v => { m with opts := addSem hop n v m.opts }
  | .update n v => { m with opts := if hasOpt n m.opts then replaceFirst n v m.opts else addSem hop n v m.opts }
  | .remove n => { m with opts := removeFirst n m.opts }
  | .setToken t => { m with token := t }

end Spec
end Coap
