/-
S for C15 — what RFC 8613 §7.4 / §8.2 / Appendix B.1 and the property text require of a recipient of protected
requests and of a sender, written without reference to libcoap's code.  Core Lean only.

The recipient specification is a *monitor*: it keeps the set of Partial IVs accepted so far and says, for the next
request, which outcomes are allowed.  It never looks at a window bitmap.

-- SPEC DECISION D15a: a request that authenticates, was never accepted and is older than the replay window
--   (highest accepted PIV − PIV ≥ min(window size, 64)) may be accepted or rejected (RFC 8613 §7.4 leaves the window
--   policy to the application); it must still never be accepted twice.  Window sizes above 64 are capped at 64 (the
--   bitmap is 64 bits wide).
-- SPEC DECISION D15b: a request whose PIV is ≥ 2^40 − 1 (sequence number space exhausted, RFC 8613 §7.2.1) may be
--   rejected even if it authenticates.
-- SPEC DECISION D15c: with Appendix B.1.2 enabled, until a request carrying the recipient's current Echo value has
--   been accepted, an authentic request without Echo must be answered with the 4.01 + Echo challenge, one with a wrong
--   Echo value must not be accepted, one with the right value must be accepted (its PIV then initialises the window).
-- SPEC DECISION D15d: "state exactly as before" is read on the replay window and sequence state proper
--   (initial_state, last_seq, sliding_window); the roll-back scratch fields are not part of it, and no later verdict
--   depends on them (theorem `forgery_invisible`).
-/
namespace Coap.ReplaySpec

def SEQ_LIMIT : Nat := 2 ^ 40 - 1

/-- Outcome classes the specification distinguishes. -/
inductive Out where
  | accept | reject | challenge
  deriving DecidableEq, Repr

inductive Echo where
  | none | good | bad
  deriving DecidableEq, Repr

structure Req where
  authentic : Bool
  piv : Nat
  echo : Echo
  deriving DecidableEq, Repr

/-- Monitor state: PIVs accepted so far, and whether the window has been synchronised (Appendix B.1.2 exchange done,
or B.1.2 not in use). -/
structure St where
  accepted : List Nat
  synced : Bool
  deriving DecidableEq, Repr

def St.start (b12 : Bool) : St := { accepted := [], synced := !b12 }

def maxOf : List Nat → Nat
  | [] => 0
  | a :: r => max a (maxOf r)

/-- inside the replay window (or above it) relative to what has been accepted -/
def inWindow (window : Nat) (acc : List Nat) (piv : Nat) : Bool :=
  acc.isEmpty || decide (maxOf acc < piv + min window 64)

/-- The outcomes allowed for the next request. -/
def allowed (window : Nat) (s : St) (q : Req) : List Out :=
  if !q.authentic then [.reject]
  else if !s.synced then
    match q.echo with
    | .none => [.challenge]
    | .bad => [.reject]
    | .good => if q.piv ≥ SEQ_LIMIT then [.accept, .reject] else [.accept]
  else if s.accepted.contains q.piv then [.reject]
  else if q.piv ≥ SEQ_LIMIT then [.accept, .reject]
  else if inWindow window s.accepted q.piv then [.accept]
  else [.accept, .reject]

/-- Monitor update with the outcome that actually happened. -/
def next (s : St) (q : Req) (o : Out) : St :=
  match o with
  | .accept => { accepted := q.piv :: s.accepted, synced := true }
  | _ => s

/-- A trace (requests with the outcome each got) conforms to the specification. -/
def conforms (window : Nat) : St → List (Req × Out) → Prop
  | _, [] => True
  | s, (q, o) :: t => o ∈ allowed window s q ∧ conforms window (next s q o) t

/-- Sender specification: the Partial IVs put on the wire over the whole life of a security context (all runs) are
pairwise distinct. -/
def senderOk (pivs : List Nat) : Prop := pivs.Nodup

end Coap.ReplaySpec
