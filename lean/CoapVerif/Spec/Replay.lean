/-
S for C15 — what RFC 8613 §7.4 / §8.2 / Appendix B.1 and the property text require of a recipient of protected
requests and of a sender, written without reference to libcoap's code.  Core Lean only.

The recipient specification is a *monitor*: it keeps the set of Partial IVs accepted so far (in requests, and in
responses of the same peer) and says, for the next message, which outcomes are allowed.  It never looks at a window
bitmap.

-- SPEC DECISION D15a: a request that authenticates, was never accepted and is older than the replay window
--   (highest accepted PIV − PIV ≥ min(window size, 64)) may be accepted or rejected (RFC 8613 §7.4 leaves the window
--   policy to the application); it must still never be accepted twice.  Window sizes above 64 are capped at 64 (the
--   bitmap is 64 bits wide).
-- SPEC DECISION D15b: a request whose PIV is ≥ 2^40 − 1 (sequence number space exhausted, RFC 8613 §7.2.1) may be
--   rejected even if it authenticates.
-- SPEC DECISION D15c: with Appendix B.1.2 enabled, until a request carrying the recipient's current Echo value has
--   been accepted, an authentic request without Echo must be answered with the 4.01 + Echo challenge, one with a wrong
--   Echo value must not be accepted, one with the right value must be accepted (its PIV then initialises the window).
-- SPEC DECISION D15d: "state exactly as before" is read on the replay window and sequence state proper
--   (initial_state, last_seq, sliding_window); the roll-back scratch fields are not part of it, and no later verdict
--   depends on them (theorem `forgery_invisible`).
-- SPEC DECISION D15e: an endpoint that is client and server on one security context also receives responses (Observe
--   notifications) of the same peer that carry their own Partial IV, i.e. the peer's sender sequence number.  The
--   upper edge of the replay window is the highest PIV accepted from the peer in a request *or* a response.  A request
--   whose PIV was already used by an accepted response (a conforming sender never produces one) may be accepted or
--   rejected; it was never accepted as a request, so "at most once" is not concerned.
-- SPEC DECISION D15f: the property text asks "at most once" of requests only (RFC 8613 §7.4.1 protects notifications
--   by the per-observation notification number, not by the recipient's window): an authentic response whose PIV was
--   accepted before, in a request or a response, may be accepted or rejected.  "Later genuine messages are still
--   accepted" is read for responses too: an authentic response without Partial IV is accepted; one with a PIV never
--   accepted before that is not older than the window and below 2^40 − 1 is accepted — unless a PIV ≥ 2^40 − 1 has
--   already been accepted from the peer (sequence number space exhausted, cf. D15b).  A response that fails
--   authentication is never accepted and, like a forged request, leaves the state untouched.
-- SPEC DECISION D15g: RFC 8613 Appendix B.1.2 — the Partial IV of the request that completes the Echo exchange is the
--   LOWER edge (`floor`) of the replay window: the recipient lost its window in the restart, every lower Partial IV may
--   have been accepted in the previous life.  A request below the floor must be rejected (that is what makes "at most
--   once" hold across restarts); a response below it may go either way (D15f).
-/
namespace Coap.ReplaySpec

def SEQ_LIMIT : Nat := 2 ^ 40 - 1

/-- Outcome classes the specification distinguishes. -/
inductive Out where
  | accept | reject | challenge
  deriving DecidableEq, Repr

inductive Echo where
  | none | good | bad
  deriving DecidableEq, Repr

structure Req where
  authentic : Bool
  piv : Nat
  echo : Echo
  deriving DecidableEq, Repr

/-- A protected response: does it authenticate, and the Partial IV it carries (if any). -/
structure Rsp where
  authentic : Bool
  piv : Option Nat
  deriving DecidableEq, Repr

/-- A protected message from the peer. -/
inductive Msg where
  | req (q : Req)
  | rsp (x : Rsp)
  deriving DecidableEq, Repr

def Msg.authentic : Msg → Bool
  | .req q => q.authentic
  | .rsp x => x.authentic

/-- Monitor state: PIVs of the requests accepted so far, PIVs of the accepted responses that carried their own Partial
IV, and whether the window has been synchronised (Appendix B.1.2 exchange done, or B.1.2 not in use). -/
structure St where
  accepted : List Nat
  seen : List Nat
  synced : Bool
  floor : Nat := 0
  deriving DecidableEq, Repr

def St.start (b12 : Bool) : St := { accepted := [], seen := [], synced := !b12, floor := 0 }

/-- every PIV accepted from the peer so far -/
def St.all (s : St) : List Nat := s.accepted ++ s.seen

def maxOf : List Nat → Nat
  | [] => 0
  | a :: r => max a (maxOf r)

/-- inside the replay window (or above it) relative to what has been accepted -/
def inWindow (window : Nat) (acc : List Nat) (piv : Nat) : Bool :=
  acc.isEmpty || decide (maxOf acc < piv + min window 64)

/-- The outcomes allowed for the next request. -/
def allowedReq (window : Nat) (s : St) (q : Req) : List Out :=
  if !q.authentic then [.reject]
  else if !s.synced then
    match q.echo with
    | .none => [.challenge]
    | .bad => [.reject]
    | .good => if q.piv ≥ SEQ_LIMIT ∨ s.seen.contains q.piv then [.accept, .reject] else [.accept]
  else if s.accepted.contains q.piv then [.reject]
  else if q.piv < s.floor then [.reject]
  else if q.piv ≥ SEQ_LIMIT then [.accept, .reject]
  else if s.seen.contains q.piv then [.accept, .reject]
  else if inWindow window s.all q.piv then [.accept]
  else [.accept, .reject]

/-- The outcomes allowed for the next response. -/
def allowedRsp (window : Nat) (s : St) (x : Rsp) : List Out :=
  if !x.authentic then [.reject]
  else
    match x.piv with
    | none => [.accept]
    | some p =>
      if s.all.contains p then [.accept, .reject]
      else if p ≥ SEQ_LIMIT ∨ maxOf s.all ≥ SEQ_LIMIT ∨ p < s.floor then [.accept, .reject]
      else if inWindow window s.all p then [.accept]
      else [.accept, .reject]

/-- The outcomes allowed for the next message. -/
def allowed (window : Nat) (s : St) : Msg → List Out
  | .req q => allowedReq window s q
  | .rsp x => allowedRsp window s x

/-- Monitor update with the outcome that actually happened. -/
def next (s : St) (m : Msg) (o : Out) : St :=
  match o, m with
  | .accept, .req q => { s with accepted := q.piv :: s.accepted, synced := true, floor := if s.synced then s.floor else q.piv }
  | .accept, .rsp ⟨_, some p⟩ => { s with seen := p :: s.seen }
  | _, _ => s

/-- A trace (messages with the outcome each got) conforms to the specification. -/
def conforms (window : Nat) : St → List (Msg × Out) → Prop
  | _, [] => True
  | s, (m, o) :: t => o ∈ allowed window s m ∧ conforms window (next s m o) t

/-- Sender specification: the Partial IVs put on the wire over the whole life of a security context (all runs) are
pairwise distinct. -/
def senderOk (pivs : List Nat) : Prop := pivs.Nodup

end Coap.ReplaySpec
