import CoapVerif.Util
/-
S — the retransmission queue as the property states it (C06): a multiset of pending messages, each with the
ABSOLUTE time of its next (re)transmission, kept in the order in which they fall due (first come first served
among equal deadlines).  Written from the property text and RFC 7252 §4.2/§4.8, not from the code.

SPEC DECISION D7   ping_timeout = 0 and transmission parameters inside the range where `Q()`'s uint16_t cast does
                   not wrap and `T << MAX_RETRANSMIT` fits 32 bits (the wrapping range is documented by witnesses).
SPEC DECISION D13  moving the reference time (`adjust`) never changes a pending deadline that is still in the
                   future; deadlines already in the past become due immediately (`max deadline now`).
SPEC DECISION D14  an *outcome* NACK is a NACK-handler call that carries the sent PDU; a call with `sent = NULL`
                   (stray RST for an unknown message id) reports a datagram, not the fate of a message.
SPEC DECISION D15  (C08) "not delayed by the NSTART limit" is about a NON submitted on an established session: it is
                   transmitted at once whatever `con_active` is.  A NON submitted before the session is established
                   is held like everything else and keeps its place in the submission order.
-/
namespace Coap.Spec.SQ

/-- a pending message: who (session, message id, token) and when it is due -/
structure Entry where
  deadline : Nat
  sess : Nat
  mid : Nat
  tok : Nat
  deriving Repr, DecidableEq

/-- a new deadline goes behind every entry that is due no later -/
def insert : List Entry → Entry → List Entry
  | [], e => [e]
  | x :: r, e => if x.deadline ≤ e.deadline then x :: insert r e else e :: x :: r

/-- the entry due first leaves -/
def pop : List Entry → Option (Entry × List Entry)
  | [] => none
  | x :: r => some (x, r)

/-- the first entry of that session with that message id leaves; nobody else's deadline changes -/
def remove : List Entry → Nat → Nat → Option Entry × List Entry
  | [], _, _ => (none, [])
  | x :: r, s, id =>
    if x.sess = s ∧ x.mid = id then (some x, r)
    else let (res, r') := remove r s id; (res, x :: r')

/-- the first entry of that session with that token leaves -/
def removeTok : List Entry → Nat → Nat → Option Entry × List Entry
  | [], _, _ => (none, [])
  | x :: r, s, tok =>
    if x.sess = s ∧ x.tok = tok then (some x, r)
    else let (res, r') := removeTok r s tok; (res, x :: r')

/-- every entry of the session leaves (reported in order); nobody else's deadline changes -/
def cancelSession (l : List Entry) (s : Nat) : List Entry × List Entry :=
  (l.filter (·.sess = s), l.filter (fun e => ¬ e.sess = s))

/-- D13 -/
def adjust (l : List Entry) (now : Nat) : List Entry := l.map fun e => { e with deadline := max e.deadline now }

def earliest : List Entry → Option Nat
  | [] => none
  | x :: _ => some x.deadline

/-- RFC 7252 §4.2: the k-th retransmission (k = 0 is the first transmission) of a message first sent at `t0`
with initial timeout `T` happens at `t0 + (2^k - 1)·T`. -/
def sched (t0 T k : Nat) : Nat := t0 + (2 ^ k - 1) * T

end Coap.Spec.SQ
