import CoapVerif.Spec.Oscore
/-
S — SEQUENCES of OSCORE exchanges on one client / server context pair (RFC 8613 §8.1 - §8.4 applied
message after message): what each endpoint remembers between messages, written from the RFCs.

RFC 8613 §8.3 step 2/3 and §8.4 step 3/4: a response is protected / verified with the external_aad
(`request_kid`, `request_piv`, §5.4) and — when it carries no Partial IV of its own — the nonce of THE
REQUEST IT ANSWERS.  RFC 7252 §5.3.1: a response is matched to its request by the token.
§4.1.3.5.1: "Every time a client issues a new Observe request, a new Partial IV MUST be used […] The
server uses the Partial IV of the new request as the 'request_piv' of all associated notifications".

SPEC DECISIONS
 D14.15 the request a response answers = the LATEST request the endpoint has sent (client) / verified
        (server) with the response's token.  So the state is a map token ↦ Binding, and sending a request
        with a token that is already bound (a retry after a lost response, a re-registration) REPLACES the
        binding: kid, Partial IV and nonce are those of the new request.  A response that was protected for
        an earlier, superseded request with the same token is verified like every other datagram — against
        the binding of the latest request — and is accepted only if it verifies (its AAD carries the old
        request_piv, so its tag does not match): it is NOT taken for the answer to the new request.
 D14.16 lifetime of a binding (RFC 7252 §5.3.1 / RFC 7641 §3.1): the first response that VERIFIES
        consumes it, unless the request was an Observe registration (Observe value 0), in which case it stays
        for the notifications.  A response that does not verify changes nothing (§8.4: "the client SHALL
        stop processing the response") — the genuine response can still arrive.  A server's binding is
        consumed when it has protected a response, unless the request was a registration.
        SERVER side, where RFC 8613 / RFC 7641 do not say when a server forgets: a binding that was made or
        re-made by a request with an Observe option (registration, re-registration, cancellation) is marked
        `observe`; a marked binding stays when a response has been protected, and stays marked when a later
        request re-uses its token, with or without Observe (libcoap: `is_observe` of a server-side association
        is set by any Observe request and never cleared; the association lives until the session ends — a
        resource matter, not C14's).  The CLIENT follows RFC 7641: kept for Observe 0 only, re-decided by every
        request.
        Together with D14.5 — a response for a marked binding has its own Partial IV — the nonce of a request
        protects at most one response: a response without Partial IV belongs to an unmarked binding, and
        consumes it.
        A request that does NOT verify changes nothing either (§8.2: "stop processing the request"): the
        binding a pending response will be protected with is that of the latest VERIFIED request (D14.15).
 D14.17 replay of a notification (same Partial IV delivered twice while the registration lasts) is C15's
        subject (D14.11) and is not judged here; a duplicate of a response to a non-Observe request finds no
        binding any more and is rejected.
-/
namespace Coap.Spec.Oscore

/-- the value of a uint option (RFC 7252 §3.2) -/
def uintVal (b : Bytes) : Nat := b.foldl (fun a x => a * 256 + x.toNat) 0

/-- D14.16: the request registers an observation (RFC 7641 §2: Observe = 0) -/
def isRegistration (os : List (Nat × Bytes)) : Bool := os.any fun o => o.1 = optObserve && uintVal o.2 = 0

/-- what an endpoint remembers for a token -/
structure Entry where
  token : Bytes
  b : Binding
  keep : Bool
  observe : Bool        -- D14.5: the request carried an Observe option (any value)
  deriving Repr, DecidableEq

/-- token ↦ binding, as an association list with at most one entry per token -/
abbrev Store := List Entry

def sFind (st : Store) (t : Bytes) : Option Entry := List.find? (fun e => e.token = t) st
def sDel (st : Store) (t : Bytes) : Store := List.filter (fun e => e.token ≠ t) st
def sSet (st : Store) (e : Entry) : Store := e :: sDel st e.token

/-- §8.1 + D14.15: the client protects request `m` with Sender Sequence Number `seq`; the binding of its token
is (re)placed.  `none`: protection failed, nothing changes. -/
def clientSend (cipher : Bytes → Bytes → Bytes) (c : Ctx) (st : Store) (m : Msg) (seq : Nat) : Option (Msg × Store) :=
  match protectRequest cipher c m seq with
  | none => none
  | some (pm, b) => some (pm, sSet st ⟨m.token, b, isRegistration m.opts, hasObserve m.opts⟩)

/-- §8.4 + D14.15/16: a datagram with a response code arrives at the client — the genuine response, a late
one, a duplicate, a forgery: verified against the binding of its token. -/
def clientRecv (cipher : Bytes → Bytes → Bytes) (c : Ctx) (st : Store) (r : Msg) : Verdict × Store :=
  match sFind st r.token with
  | none => (unprotectResponse cipher c none r, st)
  | some e =>
    match unprotectResponse cipher c (some e.b) r with
    | .ok m b => (.ok m b, if e.keep then st else sDel st r.token)
    | v => (v, st)

/-- D14.16, server: the `observe` mark of the binding that a verified request with options `os` makes for token `t` —
the request carries Observe, or it re-uses the token of a marked binding that is still held -/
def sObs (st : Store) (t : Bytes) (os : List (Nat × Bytes)) : Bool :=
  hasObserve os || (match sFind st t with | some e => e.observe | none => false)

/-- §8.2 + D14.15 + D14.16: a request arrives at the server; only a request that verifies (re)binds its token -/
def serverRecv (cipher : Bytes → Bytes → Bytes) (c : Ctx) (st : Store) (pm : Msg) : Verdict × Store :=
  match unprotectRequest cipher c pm with
  | .ok m b => (.ok m b, sSet st ⟨pm.token, b, sObs st pm.token m.opts, sObs st pm.token m.opts⟩)
  | v => (v, st)

/-- §8.3 + D14.5 + D14.16: the server protects a response for the request bound to the response's token; `ask`: the caller
asks for a Partial IV, `seq`: the server's Sender Sequence Number (used iff `serverOwnPiv`) -/
def serverSend (cipher : Bytes → Bytes → Bytes) (c : Ctx) (st : Store) (m : Msg) (ask : Bool) (seq : Nat) (sepMid : Option Nat) :
    Option (Msg × Store) :=
  match sFind st m.token with
  | none => none
  | some e =>
    match protectResponseFor cipher c e.b e.observe m ask seq sepMid with
    | none => none
    | some r => some (r, if e.keep then st else sDel st m.token)

/-- D14.5 at the server: does the response `m` take a Sender Sequence Number? (`false` also when no request is bound) -/
def serverOwnPiv (st : Store) (m : Msg) (ask : Bool) : Bool :=
  match sFind st m.token with
  | none => false
  | some e => ownPiv ask e.observe m

/-! ### the client's side of a whole sequence -/

/-- one event at the client: it sends a request, or some datagram arrives (whatever the network delivers:
the genuine response, nothing at all = no step, a late or duplicated or forged one) -/
inductive CStep where
  | send (m : Msg) (seq : Nat)
  | recv (r : Msg)
  deriving Repr, DecidableEq

def clientStep (cipher : Bytes → Bytes → Bytes) (c : Ctx) (st : Store) : CStep → Store
  | .send m seq =>
    match clientSend cipher c st m seq with
    | some (_, st') => st'
    | none => st
  | .recv r => (clientRecv cipher c st r).2

def clientRun (cipher : Bytes → Bytes → Bytes) (c : Ctx) (st : Store) (steps : List CStep) : Store :=
  steps.foldl (clientStep cipher c) st

/-- the binding of the latest successfully protected request per token — a function of the `send` steps alone -/
def trackStep (cipher : Bytes → Bytes → Bytes) (c : Ctx) (acc : Bytes → Option Binding) : CStep → Bytes → Option Binding
  | .send m seq =>
    match protectRequest cipher c m seq with
    | some (_, b) => fun t => if t = m.token then some b else acc t
    | none => acc
  | .recv _ => acc

def latestRequest (cipher : Bytes → Bytes → Bytes) (c : Ctx) (steps : List CStep) : Bytes → Option Binding :=
  steps.foldl (trackStep cipher c) (fun _ => none)

end Coap.Spec.Oscore
