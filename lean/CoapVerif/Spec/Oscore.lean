import CoapVerif.Spec.Codec
import CoapVerif.Spec.Crypto.Sha256
import CoapVerif.Spec.Crypto.Aes
import CoapVerif.Spec.Crypto.Ccm
/-
S — OSCORE (RFC 8613) written from the RFCs: the CBOR subset (RFC 8949 §3), the HKDF `info`
structure (§3.2.1), the AEAD nonce (§5.2), the external_aad / Enc_structure (§5.4, RFC 8152 §5.3),
the compressed COSE object = OSCORE option value (§6.1), the class E / U option split (§4.1,
Figure 5), the plaintext (§5.3), and protecting / verifying requests and responses (§8.1 - §8.4).
Nothing here is taken from src/oscore.  Crypto: Spec/Crypto (SHA-256, HMAC, HKDF, AES-128, CCM).

SPEC DECISIONS (RFC 8613 leaves the sender a choice; S is instantiated with what libcoap does)
 D14.1 outer code: POST (0.02) for requests, Changed (2.04) for responses; FETCH (0.05) / Content
       (2.05) when the message carries Observe (§4.1.3.5 / §4.2 allow exactly these).
 D14.2 outer options are exactly the class U options present (Uri-Host, Uri-Port, Proxy-Scheme,
       Hop-Limit [RFC 8768]), Observe, and the OSCORE option.  The optional outer copies of
       Max-Age, Block1/2, Size1/2, No-Response (class E+U) are not sent.
 D14.3 Observe: requests carry it inner and outer with the same value (§4.1.3.5.1); responses carry
       an empty inner Observe and the original value outer (§4.1.3.5.2).  The recipient of a
       notification sets Observe to the 3 least significant bytes of the notification's Partial IV
       (§4.1.3.5.2); if the response carries no Partial IV the request's Partial IV is used.  So
       the Observe value of a notification is not transported: `unprotect ∘ protect` returns the
       message with that substitution (`normalize`).
 D14.4 Partial IV = minimal-length big-endian sequence number, 0 ↦ one zero byte (§5.2/§6.1).
 D14.5 a response carries a Partial IV (fresh nonce) iff the caller asks for it, or it carries Observe, or it
       answers an Observe request, i.e. a request that carries an Observe option — precisely: its binding is
       marked `observe`, D14.16 (`ownPiv`).  §5.2 / §8.3 step 3
       let a response use the nonce of its request AT MOST ONCE ("the server MUST NOT use the same nonce for
       more than one response"); the binding of an Observe request outlives a response (D14.16: notifications,
       error responses, a response sent by the application next to the notifications), so the nonce of an
       Observe request is never used for a response (§4.1.3.5.2: only the first notification may omit the
       Partial IV, and libcoap gives it one too).  Otherwise: the request nonce, and the binding is consumed by
       that response (D14.16), so it is used once.
       A response never carries kid or kid context (§6.1: "usually omitted").
 D14.6 requests carry the kid context whenever the context has an ID Context (§5.1 allows omission).
 D14.7 a piggybacked (ACK) 2.xx response is sent as a separate CON response with a fresh message id
       after an Empty ACK, when that ACK could be sent (`sepMid`); type/mid are outside the
       protected content.
 D14.8 decompression (§6.1) is lenient where the RFC is silent: bytes after the kid context when
       k = 0 are ignored, and the one-byte value 0x00 is read as the empty value.
 D14.9 recipient: outer options of class E are discarded (§8.2/§8.4 step 1).  Class E = the options
       marked E in Figure 5 plus Echo and Request-Tag (RFC 9175 §2.2.1/§3.2.1: class E).  A kid
       context, when present in a request, must equal the recipient's ID Context, and a context
       with an ID Context is only selected by requests that carry it (libcoap; §8.2 step 2 says
       "and 'kid context' if present").
 D14.12 a request must carry the kid (§5.1/§8.2 step 2: the Recipient Context is retrieved by it); in a
       response the kid, if present, is not used (§8.4 retrieves the context by the token), so adding
       a kid to a response's option is the one modification of the OSCORE option that is accepted.
 D14.13 Sender Sequence Numbers 0 .. 2^40 − 2 are used (the property's domain; §7.2.1 only demands < 2^40).
 D14.14 a request with Proxy-Scheme carries Hop-Limit (libcoap's PDU builder adds the RFC 8768 default
       whenever Proxy-Scheme / Proxy-Uri is added to a request, also to the outer message), and a
       4.01 response with an Echo option is consumed by the library itself (RFC 9175 / Appendix
       B.1.2 retransmission) — both outside `unprotect ∘ protect`.
 D14.10 ID Context is absent or a non-empty byte string ("id context present/absent"); Proxy-Uri
       has been rewritten into Proxy-Scheme / Uri-* before protection (§4.1.3.3; C16's business).
 D14.11 replay protection and sequence number exhaustion are C15's specification and are not part
       of `unprotect` here.
-/
namespace Coap.Spec.Oscore
open Coap.Spec.Crypto

/-! ### CBOR (RFC 8949 §3): the head of a data item and the five kinds of item OSCORE needs -/

/-- major type `mt`, argument `n` in the shortest form (§4.2.1 preferred serialization) -/
def cborHead (mt n : Nat) : Bytes :=
  if n < 24 then [UInt8.ofNat (mt * 32 + n)]
  else if n < 256 then UInt8.ofNat (mt * 32 + 24) :: beBytes 1 n
  else if n < 65536 then UInt8.ofNat (mt * 32 + 25) :: beBytes 2 n
  else if n < 4294967296 then UInt8.ofNat (mt * 32 + 26) :: beBytes 4 n
  else UInt8.ofNat (mt * 32 + 27) :: beBytes 8 n

def cborUint (n : Nat) : Bytes := cborHead 0 n
def cborInt (i : Int) : Bytes := if 0 ≤ i then cborHead 0 i.toNat else cborHead 1 (-1 - i).toNat
def cborBstr (b : Bytes) : Bytes := cborHead 2 b.length ++ b
def cborTstr (s : Bytes) : Bytes := cborHead 3 s.length ++ s
def cborArray (n : Nat) : Bytes := cborHead 4 n
def cborNil : Bytes := [0xf6]

def ascii (s : String) : Bytes := s.toUTF8.toList

/-! ### Security context (§3.1, §3.2) -/

/-- AES-CCM-16-64-128 (RFC 8152 Table 10) -/
def algAesCcm : Int := 10

/-- §3.2.1 `info = [id, id_context / nil, alg_aead, type, L]` -/
def info (id : Bytes) (idctx : Option Bytes) (alg : Int) (type : Bytes) (L : Nat) : Bytes :=
  cborArray 5 ++ cborBstr id ++ (match idctx with | some c => cborBstr c | none => cborNil) ++
  cborInt alg ++ cborTstr type ++ cborUint L

def labelKey : Bytes := [0x4b, 0x65, 0x79]                                        -- "Key"
def labelIV : Bytes := [0x49, 0x56]                                               -- "IV"
def labelEncrypt0 : Bytes := [0x45, 0x6e, 0x63, 0x72, 0x79, 0x70, 0x74, 0x30]     -- "Encrypt0"

/-- the input parameters of §3.2 (`salt = []` is the default empty salt) -/
structure Params where
  secret : Bytes
  salt : Bytes
  idctx : Option Bytes
  sid : Bytes
  rid : Bytes
  deriving Repr, DecidableEq

/-- the derived context of §3.1 as one endpoint sees it -/
structure Ctx where
  sid : Bytes
  rid : Bytes
  idctx : Option Bytes
  alg : Int
  senderKey : Bytes
  recipientKey : Bytes
  commonIV : Bytes
  deriving Repr, DecidableEq

/-- §3.2.1: Sender Key, Recipient Key (L = 16) and Common IV (L = 13) by HKDF-SHA-256 -/
def derive (p : Params) : Ctx :=
  { sid := p.sid, rid := p.rid, idctx := p.idctx, alg := algAesCcm,
    senderKey := hkdf p.salt p.secret (info p.sid p.idctx algAesCcm labelKey 16) 16,
    recipientKey := hkdf p.salt p.secret (info p.rid p.idctx algAesCcm labelKey 16) 16,
    commonIV := hkdf p.salt p.secret (info [] p.idctx algAesCcm labelIV 13) 13 }

/-! ### Partial IV, nonce (§5.2), AAD (§5.4) -/

/-- big-endian digits without leading zeros (`0 ↦ []`) -/
def natBE : (fuel : Nat) → Nat → Bytes
  | 0, _ => []
  | fuel + 1, n => if n = 0 then [] else natBE fuel (n / 256) ++ [UInt8.ofNat (n % 256)]

/-- D14.4: the Partial IV of sequence number `n` -/
def pivBytes (n : Nat) : Bytes := if n = 0 then [0] else natBE 8 n

def leftPad (k : Nat) (b : Bytes) : Bytes := List.replicate (k - b.length) 0 ++ b

/-- §5.2 steps 1-3 for a 13-byte nonce: |ID_PIV| ‖ ID_PIV left-padded to 7 ‖ PIV left-padded to 5 -/
def noncePlain (idPiv piv : Bytes) : Bytes :=
  UInt8.ofNat idPiv.length :: (leftPad 7 idPiv ++ leftPad 5 piv)

/-- §5.2 step 4: xor with the Common IV -/
def nonce (commonIV idPiv piv : Bytes) : Bytes := xorKs (noncePlain idPiv piv) commonIV

/-- §5.4 `aad_array = [oscore_version = 1, [alg_aead], request_kid, request_piv, options = h'']` -/
def aadArray (alg : Int) (kid piv : Bytes) : Bytes :=
  cborArray 5 ++ cborUint 1 ++ (cborArray 1 ++ cborInt alg) ++ cborBstr kid ++ cborBstr piv ++ cborBstr []

/-- RFC 8152 §5.3 `Enc_structure = ["Encrypt0", h'', external_aad]`, external_aad = bstr .cbor aad_array -/
def encStructure (externalAad : Bytes) : Bytes :=
  cborArray 3 ++ cborTstr labelEncrypt0 ++ cborBstr [] ++ cborBstr externalAad

def aad (alg : Int) (kid piv : Bytes) : Bytes := encStructure (aadArray alg kid piv)

/-! ### OSCORE option value (§6.1) -/

structure OptVal where
  piv : Bytes                 -- n = length, 0..5
  kidctx : Option Bytes       -- h
  kid : Option Bytes          -- k
  deriving Repr, DecidableEq

/-- §6.1: flag byte 0 0 0 h k n, Partial IV, s ‖ kid context, kid; all-zero flags ↦ empty value -/
def optEncode (v : OptVal) : Bytes :=
  if v.piv = [] ∧ v.kidctx = none ∧ v.kid = none then [] else
  UInt8.ofNat (v.piv.length + (if v.kidctx.isSome then 16 else 0) + (if v.kid.isSome then 8 else 0)) ::
    (v.piv ++ (match v.kidctx with | some c => UInt8.ofNat c.length :: c | none => []) ++ v.kid.getD [])

/-- §6.1 decompression; `none` = malformed (reserved bits, n = 6 or 7, fields running past the end) -/
def optDecode (bs : Bytes) : Option OptVal :=
  match bs with
  | [] => some ⟨[], none, none⟩
  | f :: r =>
    let n := f.toNat % 8
    if r.length ≥ 255 then none else          -- §2: the OSCORE option is 0..255 bytes long
    if f.toNat / 32 ≠ 0 ∨ n > 5 ∨ n > r.length then none else
    let piv := r.take n
    let r1 := r.drop n
    if f.toNat / 16 % 2 = 1 then
      match r1 with
      | [] => none
      | s :: r2 =>
        if s.toNat > r2.length then none else
        some ⟨piv, some (r2.take s.toNat), if f.toNat / 8 % 2 = 1 then some (r2.drop s.toNat) else none⟩
    else some ⟨piv, none, if f.toNat / 8 % 2 = 1 then some r1 else none⟩

/-! ### Option classes (§4.1, Figure 5) -/

abbrev optUriHost : Nat := 3
abbrev optObserve : Nat := 6
abbrev optOscore : Nat := 9

/-- class U only: Uri-Host, Uri-Port, OSCORE, Hop-Limit (RFC 8768 §5), Proxy-Uri, Proxy-Scheme -/
def classUOnly (n : Nat) : Bool := n = 3 || n = 7 || n = 9 || n = 16 || n = 35 || n = 39

/-- the options with an `x` in column E of Figure 5, plus Echo / Request-Tag (RFC 9175) and Q-Block1 (19) / Q-Block2 (31)
(RFC 9177 §4.1: "class E and U", exactly as Block1 / Block2: the sender protects them, an outer one belongs to the outer
block-wise transfer and is gone when §8.2 / §8.4 step 1 runs) — D14.9 -/
def classE (n : Nat) : Bool :=
  n = 1 || n = 4 || n = 5 || n = 6 || n = 8 || n = 11 || n = 12 || n = 14 || n = 15 || n = 17 || n = 20 ||
  n = 23 || n = 27 || n = 28 || n = 60 || n = 258 || n = 252 || n = 292 || n = 19 || n = 31

def isRequest (code : Nat) : Bool := 0 < code && code < 32

def hasObserve (os : List (Nat × Bytes)) : Bool := os.any fun o => o.1 = optObserve

/-- what goes into the plaintext (D14.2, D14.3) -/
def innerOpts (req : Bool) (os : List (Nat × Bytes)) : List (Nat × Bytes) :=
  (os.filter fun o => !classUOnly o.1).map fun o => if o.1 = optObserve ∧ ¬ req then (o.1, []) else o

/-- what stays outside besides the OSCORE option -/
def outerOpts (os : List (Nat × Bytes)) : List (Nat × Bytes) :=
  os.filter fun o => (classUOnly o.1 || o.1 = optObserve) && o.1 ≠ optOscore

/-- place the OSCORE option in option-number order -/
def withOscore (outer : List (Nat × Bytes)) (v : Bytes) : List (Nat × Bytes) :=
  outer.filter (fun o => o.1 ≤ optOscore) ++ [(optOscore, v)] ++ outer.filter (fun o => ¬ o.1 ≤ optOscore)

/-! ### Plaintext (§5.3): code ‖ class E options ‖ 0xFF payload, with RFC 7252 §3.1 option encoding -/

def extNib (v : Nat) : Nat := if v < 13 then v else if v < 269 then 13 else 14
def extBytes (v : Nat) : Bytes :=
  if v < 13 then [] else if v < 269 then [UInt8.ofNat (v - 13)]
  else [UInt8.ofNat ((v - 269) / 256), UInt8.ofNat ((v - 269) % 256)]

def encOpts : (prev : Nat) → List (Nat × Bytes) → Bytes
  | _, [] => []
  | prev, (n, v) :: r =>
    UInt8.ofNat (extNib (n - prev) * 16 + extNib v.length) :: (extBytes (n - prev) ++ extBytes v.length ++ v)
      ++ encOpts n r

def decOpts : (fuel : Nat) → (prev : Nat) → Bytes → Option (List (Nat × Bytes) × Bytes)
  | 0, _, _ => none
  | fuel + 1, prev, bs =>
    match bs with
    | [] => some ([], [])
    | b :: r0 =>
      if b = 0xFF then some ([], bs) else
      match Spec.ext (b.toNat / 16) r0 with
      | none => none
      | some (d, r1) =>
        match Spec.ext (b.toNat % 16) r1 with
        | none => none
        | some (l, r2) =>
          if l ≤ r2.length then
            match decOpts fuel (prev + d) (r2.drop l) with
            | some (os, rest) => some ((prev + d, r2.take l) :: os, rest)
            | none => none
          else none

def encPlain (code : Nat) (inner : List (Nat × Bytes)) (payload : Bytes) : Bytes :=
  UInt8.ofNat code :: (encOpts 0 inner ++ (if payload = [] then [] else 0xFF :: payload))

def decPlain (pt : Bytes) : Option (Nat × List (Nat × Bytes) × Bytes) :=
  match pt with
  | [] => none
  | c :: r =>
    match decOpts (r.length + 1) 0 r with
    | none => none
    | some (os, rest) =>
      match rest with
      | [] => some (c.toNat, os, [])
      | _ :: pl => if pl = [] then none else some (c.toNat, os, pl)

/-! ### Protecting and verifying (§8) -/

/-- what a response is bound to (§5.4 request_kid / request_piv, §5.2 request nonce) -/
structure Binding where
  kid : Bytes
  piv : Bytes
  nonce : Bytes
  deriving Repr, DecidableEq

/-- the AEAD: AES-CCM-16-64-128 over a block cipher `cipher key` (AES-128 in use) -/
def aeadSeal (cipher : Bytes → Bytes → Bytes) (key nonce aad pt : Bytes) : Bytes :=
  ccmEncrypt (cipher key) 8 nonce aad pt
def aeadOpen (cipher : Bytes → Bytes → Bytes) (key nonce aad ct : Bytes) : Option Bytes :=
  ccmDecrypt (cipher key) 8 nonce aad ct

/-- D14.13: the largest Sender Sequence Number that is used (§7.2.1: less than 2^40 for a 13-byte nonce) -/
def maxSeq : Nat := 2 ^ 40 - 2

/-- §8.1.  `none`: the message already carries an OSCORE option, or the sequence numbers are exhausted. -/
def protectRequest (cipher : Bytes → Bytes → Bytes) (c : Ctx) (m : Msg) (seq : Nat) : Option (Msg × Binding) :=
  if m.opts.any (fun o => o.1 = optOscore) then none else
  if seq > maxSeq then none else
  let piv := pivBytes seq
  let nce := nonce c.commonIV c.sid piv
  let ct := aeadSeal cipher c.senderKey nce (aad c.alg c.sid piv) (encPlain m.code (innerOpts true m.opts) m.payload)
  let ov := optEncode ⟨piv, c.idctx, some c.sid⟩
  some ({ m with code := if hasObserve m.opts then 5 else 2, opts := withOscore (outerOpts m.opts) ov, payload := ct },
        ⟨c.sid, piv, nce⟩)

/-- §8.3, both forms the RFC allows.  `seq = some n`: own Partial IV `n`, fresh nonce; `seq = none`: no Partial IV, the
nonce of the request (which form is used when: D14.5, `protectResponseFor`); `sepMid`: D14.7. -/
def protectResponse (cipher : Bytes → Bytes → Bytes) (c : Ctx) (b : Binding) (m : Msg) (seq : Option Nat)
    (sepMid : Option Nat) : Option Msg :=
  if m.opts.any (fun o => o.1 = optOscore) then none else
  if (match seq with | some n => decide (n > maxSeq) | none => false) then none else
  let piv := match seq with | some n => pivBytes n | none => []
  let nce := match seq with | some n => nonce c.commonIV c.sid (pivBytes n) | none => b.nonce
  let ct := aeadSeal cipher c.senderKey nce (aad c.alg b.kid b.piv) (encPlain m.code (innerOpts false m.opts) m.payload)
  let ov := optEncode ⟨piv, none, none⟩
  let sep := m.type = 2 ∧ m.code / 32 = 2
  some { m with type := (match sepMid with | some _ => if sep then 0 else m.type | none => m.type),
                mid := (match sepMid with | some x => if sep then x else m.mid | none => m.mid),
                code := if hasObserve m.opts then 69 else 68,
                opts := withOscore (outerOpts m.opts) ov, payload := ct }

/-- D14.5: does a response carry its own Partial IV (and is protected with a fresh nonce)?  `ask`: the caller asks for
one; `reqObserve`: the request it answers carried an Observe option — the binding of such a request is not consumed by
this response, so its nonce is not used. -/
def ownPiv (ask reqObserve : Bool) (m : Msg) : Bool := ask || hasObserve m.opts || reqObserve

/-- §8.3 with D14.5 applied: `seq` is the Sender Sequence Number of the server's context; it is used (and with it a fresh
nonce) iff the response carries its own Partial IV, else the nonce of the request is. -/
def protectResponseFor (cipher : Bytes → Bytes → Bytes) (c : Ctx) (b : Binding) (reqObserve : Bool) (m : Msg) (ask : Bool)
    (seq : Nat) (sepMid : Option Nat) : Option Msg :=
  protectResponse cipher c b m (if ownPiv ask reqObserve m then some seq else none) sepMid

inductive Verdict where
  | plain                      -- no OSCORE option: not an OSCORE message
  | rej                        -- rejected; nothing is delivered
  | ok (m : Msg) (b : Binding) -- verified; `m` is delivered
  deriving Repr, DecidableEq

def oscoreValue (os : List (Nat × Bytes)) : Option Bytes := (os.find? fun o => o.1 = optOscore).map (·.2)

/-- §8.2/§8.4 step 1 and the final step: outer options that survive, merged with the inner ones in
option-number order -/
def mergeOpts (outer inner : List (Nat × Bytes)) : List (Nat × Bytes) :=
  List.merge (outer.filter fun o => !classE o.1 && o.1 ≠ optOscore) inner (fun a b => a.1 ≤ b.1)

/-- §8.2 -/
def unprotectRequest (cipher : Bytes → Bytes → Bytes) (c : Ctx) (m : Msg) : Verdict :=
  match oscoreValue m.opts with
  | none => .plain
  | some ov =>
    if m.payload = [] then .rej else
    match optDecode ov with
    | none => .rej
    | some v =>
      if v.kid ≠ some c.rid ∨ v.kidctx.getD [] ≠ c.idctx.getD [] then .rej else
      let nce := nonce c.commonIV c.rid v.piv
      match aeadOpen cipher c.recipientKey nce (aad c.alg c.rid v.piv) m.payload with
      | none => .rej
      | some pt =>
        match decPlain pt with
        | none => .rej
        | some (code, inner, pl) =>
          .ok { m with code := code, opts := mergeOpts m.opts inner, payload := pl } ⟨c.rid, v.piv, nce⟩

def last3 (b : Bytes) : Bytes := b.drop (b.length - 3)

/-- §8.4; `b` is the binding recorded when the request with this token was protected (`none`: no such request) -/
def unprotectResponse (cipher : Bytes → Bytes → Bytes) (c : Ctx) (b : Option Binding) (m : Msg) : Verdict :=
  match oscoreValue m.opts with
  | none => .plain
  | some ov =>
    if m.payload = [] then .rej else
    match optDecode ov, b with
    | none, _ => .rej
    | _, none => .rej
    | some v, some b =>
      let nce := if v.piv = [] then b.nonce else nonce c.commonIV c.rid v.piv
      match aeadOpen cipher c.recipientKey nce (aad c.alg b.kid b.piv) m.payload with
      | none => .rej
      | some pt =>
        match decPlain pt with
        | none => .rej
        | some (code, inner, pl) =>
          let obs := last3 (if v.piv = [] then b.piv else v.piv)
          let inner' := inner.map fun o => if o.1 = optObserve then (o.1, obs) else o
          .ok { m with code := code, opts := mergeOpts m.opts inner', payload := pl } b

/-- D14.3: what the recipient of a protected response sees of its Observe option -/
def normalize (req : Bool) (piv : Bytes) (m : Msg) : Msg :=
  if req then m else { m with opts := m.opts.map fun o => if o.1 = optObserve then (o.1, last3 piv) else o }

end Coap.Spec.Oscore
