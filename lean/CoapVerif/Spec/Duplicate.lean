import CoapVerif.Spec.Encode
/-
S — "copy of a message with a new token and without the named options" (property C04, the
coap_pdu_duplicate() anchor).  Written from the property text and the function's documented
contract ("the new PDU carries the given token and the options of the old one that are not in
drop_options; data is not copied"), not from the code.

SPEC DECISION
 D16 A duplication is read as the edit sequence of C04 applied to a copy: token replacement by the
     given token, then removal of every option whose number is named by the drop filter; the copy
     starts without the payload and with the message id the session hands out; the original stays
     as it was.  Every option not named keeps its number, value and position
     (`duplicate_is_edit_sequence` in Props/C04.lean shows that `duplicate false` IS that fold of
     `applyEdit`).  D13 carries over: when the copy is a request that ends up with Proxy-Uri /
     Proxy-Scheme but without Hop-Limit (the original had none, or the filter named it), Hop-Limit = 16
     MAY be added (`hop = true`, allowed only where `dupHopOk`).  D14 carries over: the duplication
     may be refused as a whole (NULL), never in part.
-/
namespace Coap
namespace Spec

/-- the options of `os` the drop filter does not name, in their order -/
def keep (drop : Nat → Bool) (os : List (Nat × Bytes)) : List (Nat × Bytes) := os.filter fun o => !drop o.1

/-- D13 for a copy: may Hop-Limit accompany the kept options? -/
def dupHopOk (code : Nat) (kept : List (Nat × Bytes)) : Bool :=
  decide (1 ≤ code) && decide (code < 32) && (hasOpt 35 kept || hasOpt 39 kept) && !hasOpt 16 kept

/-- the abstract copy -/
def duplicate (hop : Bool) (m : Msg) (mid : Nat) (tok : Bytes) (drop : Nat → Bool) : Msg :=
  { type := m.type, code := m.code, mid := mid, token := tok,
    opts := if hop then insertStable 16 [16] (keep drop m.opts) else keep drop m.opts,
    payload := [] }

/-- D16: the edits a duplication stands for — the token replacement and one removal per named option occurrence -/
def dupEdits (m : Msg) (tok : Bytes) (drop : Nat → Bool) : List Edit :=
  .setToken tok :: (m.opts.filter fun o => drop o.1).map fun o => .remove o.1

end Spec
end Coap
