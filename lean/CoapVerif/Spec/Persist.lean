import CoapVerif.Util
/-
S for C17, written from the property text (never from the code):

  * a history is a list of events: a dynamic resource is created / deleted, a client registers (or re-registers with
    another token) / cancels an observation;
  * the state that must survive = resources created and not deleted, observations registered and not cancelled
    (an observation goes away with its resource);
  * Observe values are compared as RFC 7641 §3.4 prescribes (24-bit serial numbers).

SPEC DECISION D17.1: re-registering with a new token = cancellation followed by registration.
SPEC DECISION D17.3: "greater" = `serialLt`.
-/
namespace Coap.Persist

inductive HEv
  | create (name : Bytes)
  | delete (name : Bytes)
  | observe (client : Nat) (name : Bytes) (ver : Nat)      -- `ver` identifies the token used
  | cancel (client : Nat) (name : Bytes)
  deriving DecidableEq, Repr

structure Abs where
  res : List Bytes
  obs : List (Nat × Bytes × Nat)
  deriving DecidableEq, Repr

def Abs.step (s : Abs) : HEv → Abs
  | .create n => if n ∈ s.res then s else { s with res := s.res ++ [n] }
  | .delete n => { res := s.res.filter (· ≠ n), obs := s.obs.filter (·.2.1 ≠ n) }
  | .observe c n v =>
    if n ∈ s.res then { s with obs := (c, n, v) :: s.obs.filter (fun o => ¬(o.1 = c ∧ o.2.1 = n)) } else s
  | .cancel c n => { s with obs := s.obs.filter (fun o => ¬(o.1 = c ∧ o.2.1 = n)) }

def Abs.run (h : List HEv) : Abs := h.foldl Abs.step ⟨[], []⟩

/-- RFC 7641 §3.4: V1 is older than V2 -/
def serialLt (a b : Nat) : Prop := (a < b ∧ b - a < 2 ^ 23) ∨ (a > b ∧ a - b > 2 ^ 23)

instance (a b : Nat) : Decidable (serialLt a b) := by unfold serialLt; infer_instance

end Coap.Persist
