import CoapVerif.Spec.SendQueue
/-
S — the retransmission timer of RFC 7252 §4.2 as a small transition system over absolute deadlines (C06, P2):
`send` transmits and arms `now + T`; a `tick` fires whatever is due, earliest first (`tickN now k`: the clock has come to
`now` and at most the `k` earliest due entries have fired — a tick observed part-way, `tick = tickN` with enough `k`;
`tickN now 0` is time passing) — retransmit and re-arm
`now + T·2^(cnt+1)` while `cnt < MAX_RETRANSMIT`, else NACK (too many retries); `ack` / `rst` conclude the first
pending entry of (session, mid).  Outputs carry the ghost labels `t0` (first transmission) and `T` so that the
schedule theorem can be stated on the outputs alone.  Written from the RFC and the property text.
-/
namespace Coap.Timer
open Coap.Spec.SQ (sched)

/-- a pending confirmable message: who, initial timeout `T`, retransmissions so far, limit, first transmission -/
structure PMsg where
  sess : Nat
  mid : Nat
  T : Nat
  cnt : Nat
  maxRtx : Nat
  t0 : Nat
  deriving Repr, DecidableEq

inductive TOut where
  | tx (t s mid cnt t0 T maxRtx : Nat)
  | nackRetries (t s mid : Nat)
  | nackRst (t s mid : Nat)
  | acked (t s mid : Nat)
  deriving Repr, DecidableEq

inductive TEv where
  | send (s mid T maxRtx : Nat)
  | tick (now : Nat)
  | tickN (now k : Nat)      -- time has come to `now` and (at most) the `k` earliest due entries have fired so far
  | ack (s mid : Nat)
  | rst (s mid : Nat)
  deriving Repr, DecidableEq

structure TS where
  now : Nat
  pend : List (Nat × PMsg)
  outs : List TOut
  deriving Repr, DecidableEq

/-- ordered insert, as `Spec.SQ.insert` -/
def pinsert : List (Nat × PMsg) → Nat × PMsg → List (Nat × PMsg)
  | [], e => [e]
  | x :: r, e => if x.1 ≤ e.1 then x :: pinsert r e else e :: x :: r

/-- the first entry of (session, mid) leaves, as `Spec.SQ.remove` -/
def premove : List (Nat × PMsg) → Nat → Nat → Option PMsg × List (Nat × PMsg)
  | [], _, _ => (none, [])
  | x :: r, s, mid =>
    if x.2.sess = s ∧ x.2.mid = mid then (some x.2, r)
    else let (res, r') := premove r s mid; (res, x :: r')

/-- everything that is due fires, earliest first -/
def fire : Nat → TS → TS
  | 0, ts => ts
  | fuel + 1, ts =>
    match ts.pend with
    | [] => ts
    | (d, m) :: r =>
      if d ≤ ts.now then
        if m.cnt < m.maxRtx then
          fire fuel { ts with
            pend := pinsert r (ts.now + m.T * 2 ^ (m.cnt + 1), { m with cnt := m.cnt + 1 })
            outs := .tx ts.now m.sess m.mid (m.cnt + 1) m.t0 m.T m.maxRtx :: ts.outs }
        else fire fuel { ts with pend := r, outs := .nackRetries ts.now m.sess m.mid :: ts.outs }
      else ts

/-- enough for every pending message to run through all its retransmissions within one tick -/
def tickFuel (ts : TS) : Nat := (ts.pend.map (fun p => p.2.maxRtx + 2)).sum

def step (ts : TS) : TEv → TS
  | .send s mid T mx =>
    { ts with
      pend := pinsert ts.pend (ts.now + T, { sess := s, mid := mid, T := T, cnt := 0, maxRtx := mx, t0 := ts.now })
      outs := .tx ts.now s mid 0 ts.now T mx :: ts.outs }
  | .tick now' => if ts.now ≤ now' then fire (tickFuel ts) { ts with now := now' } else ts
  | .tickN now' k => if ts.now ≤ now' then fire k { ts with now := now' } else ts
  | .ack s mid =>
    match premove ts.pend s mid with
    | (some _, r) => { ts with pend := r, outs := .acked ts.now s mid :: ts.outs }
    | (none, _) => ts
  | .rst s mid =>
    match premove ts.pend s mid with
    | (some _, r) => { ts with pend := r, outs := .nackRst ts.now s mid :: ts.outs }
    | (none, _) => ts

def run (ts : TS) (evs : List TEv) : TS := evs.foldl step ts

def init (now : Nat) : TS := { now := now, pend := [], outs := [] }

/-- a tick is *punctual* if it does not jump past a pending deadline (what fires, fires at its deadline);
a send has a positive timeout -/
def EvOk (ts : TS) : TEv → Prop
  | .send _ _ T _ => 0 < T
  | .tick now' => ∀ p ∈ ts.pend, now' ≤ p.1
  | .tickN now' _ => ∀ p ∈ ts.pend, now' ≤ p.1
  | _ => True

def RunOk (ts : TS) : List TEv → Prop
  | [] => True
  | ev :: evs => EvOk ts ev ∧ RunOk (step ts ev) evs

end Coap.Timer
