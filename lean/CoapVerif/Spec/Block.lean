import CoapVerif.Util
/-
S — specification of block-wise slicing and of the receiver's bookkeeping (RFC 7959 §2.2), written from the RFC and
the property text, not from the code.

  * a body is a byte list; block `k` at size exponent `szx` is the slice of `2^(szx+4)` bytes starting at
    `k * 2^(szx+4)` (the last one may be shorter); a body of `len` bytes has `⌈len / 2^(szx+4)⌉` blocks;
  * the receiver's knowledge is the set of block numbers it has accepted (here: a list used as a set).

SPEC DECISION D6 (C09): "at most once per transfer" is about duplicates that arrive while the receiver still holds the
transfer's state; a replay of a whole transfer after the state was released is a new transfer.
SPEC DECISION D13 (C09): the receiver may rely on the block without the More bit to learn the body length; a Size1/Size2
option is optional (RFC 7959 §4) and, when present, announces at most the true length in everything proved here.
-/
namespace Coap.Spec.Block

def chunkSize (szx : Nat) : Nat := 2 ^ (szx + 4)

def nBlocks (len szx : Nat) : Nat := (len + chunkSize szx - 1) / chunkSize szx

def slice (body : Bytes) (szx k : Nat) : Bytes := (body.drop (k * chunkSize szx)).take (chunkSize szx)

def slices (body : Bytes) (szx : Nat) : List Bytes := (List.range (nBlocks body.length szx)).map (slice body szx)

/-- the More bit RFC 7959 prescribes for block `k` -/
def more (len szx k : Nat) : Nat := if k + 1 < nBlocks len szx then 1 else 0

/-- the set denoted by a list of inclusive ranges -/
def Covers (rs : List (Nat × Nat)) (n : Nat) : Prop := ∃ r, r ∈ rs ∧ r.1 ≤ n ∧ n ≤ r.2

end Coap.Spec.Block
