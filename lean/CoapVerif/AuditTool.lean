import Lean
/-
`#audit_ns Ns` prints one line per theorem whose name lives in namespace `Ns`
(auxiliary / internal declarations excluded):

  AUDIT <name> [<axiom>, <axiom>, …]

The check reads these lines: the list of names is the measured list of proof
obligations, and every axiom set must be ⊆ {propext, Classical.choice, Quot.sound}.
-/
open Lean Elab Command

private def isAux (n : Name) : Bool :=
  n.isInternal || n.components.any fun c =>
    let s := c.toString
    s.startsWith "_" || (s.startsWith "match_" && (s.drop 6).all Char.isDigit) || s.startsWith "proof_" || s == "eq_def" ||
    (s.startsWith "eq_" && (s.drop 3).all Char.isDigit) || s == "induct" || s == "induct_unfolding" ||
    s == "fun_cases" || s == "fun_cases_unfolding" || s == "sizeOf_spec" || s == "injEq" || s == "inj" ||
    s == "noConfusion" || s == "congr_simp" || s == "ext" || s == "ext_iff"

elab "#audit_ns " ns:ident : command => do
  let env ← getEnv
  let nsName := ns.getId
  let mut names : Array Name := #[]
  for (n, ci) in env.constants.toList do
    if nsName.isPrefixOf n && !isAux n then
      match ci with
      | .thmInfo _ => names := names.push n
      | _ => pure ()
  let sorted := names.qsort (fun a b => a.toString < b.toString)
  for n in sorted do
    let axs ← liftCoreM <| collectAxioms n
    let axs := axs.qsort (fun a b => a.toString < b.toString)
    logInfo m!"AUDIT {n} {axs.toList}"
